/-
C04 — Operators are ordinary functions: all application forms agree.

Property theorems about the Impl model `NoulithModel/Impl/Apply.lean` (the three entry points of
every builtin family of lib.rs, `Func::run/run1/run2`, `call_or_part_apply`, the sections and the
`Call`/`Chain`/`List`/`OpAssign` arms of `evaluate`) against `NoulithModel/Spec/ApplySpec.lean`
(every form denotes the plain call).  Builtin and closure *bodies* are universally quantified
(`World`, `Bodies`): nothing below depends on what a builtin computes, and everything holds for
every callable `f : Func` — builtins of every family, closures, and all combinations by
PartialApp1/2/Last, Flip, Composition, OnComposition and the sections, to any depth.
-/
import NoulithModel.Spec.ApplySpec
import NoulithModel.Generated.C04Tables

namespace Noulith.C04
open Noulith Noulith.Apply Noulith.ApplySpec

/-! ## 1. the three entry points of every builtin family are extensionally equal -/

/-- `b.run(vec![a]) = b.run1(a)` for every family, all bodies, all arguments -/
theorem family_coherent1 (F : Family) (B : Bodies) (self : Func) (a : Val) :
    F.run B self [a] = F.run1 B self a := by
  cases F <;> simp [Family.run, Family.run1, Family.run1Override, few, few2, few3]

/-- `b.run(vec![a, b]) = b.run2(a, b)` for every family, all bodies, all arguments -/
theorem family_coherent2 (F : Family) (B : Bodies) (self : Func) (a b : Val) :
    F.run B self [a, b] = F.run2 B self a b := by
  cases F <;> simp [Family.run, Family.run2, Family.run2Override, few, few2, few3]

/-- a family is coherent when its vector entry point agrees with both shortcuts -/
def Coherent (F : Family) : Prop :=
  ∀ (B : Bodies) (self : Func) (a b : Val),
    F.run B self [a] = F.run1 B self a ∧ F.run B self [a, b] = F.run2 B self a b

theorem family_coherent (F : Family) : Coherent F :=
  fun B self a b => ⟨family_coherent1 F B self a, family_coherent2 F B self a b⟩

/-- where `run` says `self.run1(..)` / `self.run2(..)` the model inlined the override; this is
the check that the inlining is faithful: whenever an override exists, `run` on one / two
arguments IS the override -/
theorem run_uses_override1 (F : Family) (B : Bodies) (self : Func) (a : Val) (r : Out Val)
    (h : F.run1Override B self a = some r) : F.run B self [a] = r := by
  rw [family_coherent1]; simp [Family.run1, h]

theorem run_uses_override2 (F : Family) (B : Bodies) (self : Func) (a b : Val) (r : Out Val)
    (h : F.run2Override B a b = some r) : F.run B self [a, b] = r := by
  rw [family_coherent2]; simp [Family.run2, h]

/-- non-vacuity: a family where `run1` really is a separate piece of code with its own guard, and
the bodies are distinguishable -/
example : let B : Bodies := ⟨fun a => .ok a, fun _ b => .ok b, fun _ => .panic⟩
    Family.run .seqFold B default [.atom .list 1] = .ok (.atom .list 1) ∧
    Family.run1 .seqFold B default (.func (.closure 3)) = .ok (.func (.partialApp2 default (.func (.closure 3)))) ∧
    Family.run2 .seqFold B default (.atom .num 1) (.atom .num 2) = .throw := by
  intro B; exact ⟨rfl, rfl, rfl⟩

/-! ## 2. `Func::run`, `run1`, `run2` agree on every callable -/

theorem run2Of_eq (W : World) (f : Func) (a b : Val) :
    run2Of W f (Func.run W f) a b = f.run2 W a b := by
  cases f <;> rfl

theorem func_run_two (W : World) (f : Func) (a b : Val) : f.run W [a, b] = f.run2 W a b := by
  cases f <;> try rfl
  case builtin id F => exact family_coherent2 F (W.bodies id) _ a b

theorem func_run_one (W : World) (f : Func) (a : Val) : f.run W [a] = f.run1 W a := by
  cases f <;> try rfl
  case builtin id F => exact family_coherent1 F (W.bodies id) _ a
  case partialApp1 g x => simp [Func.run, Func.run1, few, run2Of_eq]
  case partialApp2 g x => simp [Func.run, Func.run1, few, run2Of_eq]

theorem run1Of_eq (W : World) (f : Func) (a : Val) :
    run1Of W f (Func.run W f) a = f.run1 W a := by
  cases f <;> try rfl
  case partialApp1 g x => simp [run1Of, Func.run, Func.run1, few, run2Of_eq]
  case partialApp2 g x => simp [run1Of, Func.run, Func.run1, few, run2Of_eq]

/-! ### the arms of `Func::run` in the form the Rust source has them -/

/-- `Func::PartialApp1(f, x) => match few(args) { One(arg) => f.run2(env, x, arg) }` -/
theorem run_partialApp1 (W : World) (f : Func) (x a : Val) :
    (Func.partialApp1 f x).run W [a] = f.run2 W x a := by
  simp [Func.run, few, run2Of_eq]

/-- `Func::PartialApp2(f, x) => … f.run2(env, arg, x)` -/
theorem run_partialApp2 (W : World) (f : Func) (x a : Val) :
    (Func.partialApp2 f x).run W [a] = f.run2 W a x := by
  simp [Func.run, few, run2Of_eq]

/-- `Func::PartialAppLast(f, x) => { args.push(x); f.run(env, args) }` -/
theorem run_partialAppLast (W : World) (f : Func) (x : Val) (args : List Val) :
    (Func.partialAppLast f x).run W args = f.run W (args ++ [x]) := by
  simp [Func.run]

/-- `Func::Composition(f, g) => f.run1(env, g.run(env, args)?)` -/
theorem run_composition (W : World) (f g : Func) (args : List Val) :
    (Func.composition f g).run W args = (g.run W args).bind (f.run1 W) := by
  simp only [Func.run]
  cases h : Func.run W g args <;> simp [Out.bind, run1Of_eq]

/-- `Func::Flip(f)`: two arguments are exchanged; one argument gives `PartialApp1(f, a)` -/
theorem run_flip_two (W : World) (f : Func) (a b : Val) :
    (Func.flip f).run W [a, b] = f.run2 W b a := by
  simp [Func.run, few2, run2Of_eq]

theorem run_flip_one (W : World) (f : Func) (a : Val) :
    (Func.flip f).run W [a] = .ok (.func (.partialApp1 f a)) := by
  simp [Func.run, few2]

/-- wrong argument counts are errors, not crashes -/
theorem run_partialApp_arity (W : World) (f : Func) (x : Val) (args : List Val) (h : args.length ≠ 1) :
    (Func.partialApp1 f x).run W args = .throw ∧ (Func.partialApp2 f x).run W args = .throw := by
  match args, h with
  | [], _ => simp [Func.run, few]
  | _ :: _ :: _, _ => simp [Func.run, few]

/-! ## 3. `splat_section_eval` and `apply_section` -/

@[simp] theorem bind_ok {α β} (a : α) (f : α → Out β) : (Out.ok a).bind f = f a := rfl
@[simp] theorem bind_throw {α β} (f : α → Out β) : (Out.throw : Out α).bind f = .throw := rfl
@[simp] theorem bind_panic {α β} (f : α → Out β) : (Out.panic : Out α).bind f = .panic := rfl
@[simp] theorem map_ok {α β} (a : α) (f : α → β) : (Out.ok a).map f = .ok (f a) := rfl

/-- no underscore: the arguments are just collected -/
theorem sse_vals (W : World) (vs acc : List Val) :
    splatSectionEval W (vs.map .val) (.inl acc) = .ok (.inl (acc ++ vs)) := by
  induction vs generalizing acc with
  | nil => simp [splatSectionEval]
  | cons v vs ih => simp [splatSectionEval, ih]

theorem sse_vals_inr (W : World) (vs : List Val) (acc : List Slot) :
    splatSectionEval W (vs.map .val) (.inr acc) = .ok (.inr (acc ++ vs.map .val)) := by
  induction vs generalizing acc with
  | nil => simp [splatSectionEval]
  | cons v vs ih => simp [splatSectionEval, ih]

/-- `f(a, _, c)`: one underscore at position `|pre|` -/
theorem sse_one_hole (W : World) (pre post : List Val) :
    splatSectionEval W (pre.map .val ++ [.under] ++ post.map .val) (.inl []) =
      .ok (.inr (pre.map .val ++ [.hole false] ++ post.map .val)) := by
  have h : ∀ (xs : List Val) (acc : List Val) (rest : List ArgE),
      splatSectionEval W (xs.map .val ++ rest) (.inl acc) = splatSectionEval W rest (.inl (acc ++ xs)) := by
    intro xs
    induction xs with
    | nil => intro acc rest; simp
    | cons x xs ih => intro acc rest; simp [splatSectionEval, ih]
  rw [List.append_assoc, h]
  simp [splatSectionEval, sse_vals_inr]

/-- only underscores -/
theorem sse_all_holes (W : World) (n : Nat) (acc : List Slot) :
    splatSectionEval W (List.replicate n .under) (.inr acc) =
      .ok (.inr (acc ++ List.replicate n (.hole false))) := by
  induction n generalizing acc with
  | zero => simp [splatSectionEval]
  | succ n ih =>
    simp only [List.replicate_succ, splatSectionEval, ih]
    simp

/-- a literal splat of an evaluator-built list contributes its elements in order -/
theorem sse_splat_list (W : World) (pre xs : List Val) :
    splatSectionEval W (pre.map .val ++ [.splat (.list xs)]) (.inl []) = .ok (.inl (pre ++ xs)) := by
  have h : ∀ (ys : List Val) (acc : List Val) (rest : List ArgE),
      splatSectionEval W (ys.map .val ++ rest) (.inl acc) = splatSectionEval W rest (.inl (acc ++ ys)) := by
    intro ys
    induction ys with
    | nil => intro acc rest; simp
    | cons y ys ih => intro acc rest; simp [splatSectionEval, ih]
  rw [h]; simp [splatSectionEval, iterVal]

/-- filled slots pass through `apply_section` -/
theorem applySection_vals (W : World) (vs : List Val) (args : List Val) :
    applySection W (vs.map .val) args = .ok vs := by
  induction vs with
  | nil => simp [applySection]
  | cons v vs ih => simp [applySection, ih]

/-- one hole, one argument: the argument lands in the hole's position -/
theorem applySection_one_hole (W : World) (pre post : List Val) (x : Val) :
    applySection W (pre.map .val ++ [.hole false] ++ post.map .val) [x] = .ok (pre ++ [x] ++ post) := by
  induction pre with
  | nil => simp [applySection, applySection_vals]
  | cons p pre ih =>
    simp only [List.map_cons, List.cons_append, applySection]
    simp only [List.append_assoc, List.singleton_append] at ih ⊢
    simp [ih]

/-- all holes: the arguments in order -/
theorem applySection_all_holes (W : World) (args : List Val) :
    applySection W (List.replicate args.length (.hole false)) args = .ok args := by
  induction args with
  | nil => simp [applySection]
  | cons a args ih => simp [List.replicate_succ, applySection, ih]

/-- too few arguments for the holes is an error (never a crash) -/
theorem applySection_too_few (W : World) (pre : List Val) (rest : List Slot) (s : Bool) :
    applySection W (pre.map .val ++ .hole s :: rest) [] = .throw := by
  induction pre with
  | nil => simp [applySection]
  | cons p pre ih => simp [applySection, ih, Out.map]

/-! ## 4. every surface form denotes the plain call -/

theorem app_eq (W : World) (f : Func) (args : List Val) : app W f args = f.run W args := rfl

/-- `f(a, b, …)` and `f ! a, b, …`: `Expr::Call` → `call_or_part_apply` → `Func::run` -/
theorem evalCall_vals (W : World) (f : Func) (args : List Val) :
    evalCall W (some (.func f)) (args.map .val) = f.run W args := by
  simp [evalCall, sse_vals, callOrPartApply]

theorem call_agrees (W : World) (f : Func) (args : List Val) :
    evalForm W .call f args = app W f args ∧ evalForm W .bang f args = app W f args := by
  simp [evalForm, evalCall_vals, app_eq]

/-- `a f b` and ``a `f` b``: the `Chain` arm enters through `run2` -/
theorem infix_agrees (W : World) (f : Func) (a b : Val) :
    evalForm W .infixOp f [a, b] = app W f [a, b] ∧ evalForm W .backtick f [a, b] = app W f [a, b] := by
  simp [evalForm, evalChain1, app_eq, func_run_two]

/-- `f(a, _, c)(b)`: an underscore in any one position of a call of any arity -/
theorem call_section_one_hole (W : World) (f : Func) (pre post : List Val) (x : Val) :
    evalForm W (.secHole pre.length) f (pre ++ [x] ++ post) = app W f (pre ++ [x] ++ post) := by
  have hget : (pre ++ [x] ++ post)[pre.length]? = some x := by simp
  have hsec : sectionArgs pre.length (pre ++ [x] ++ post) = pre.map .val ++ [.under] ++ post.map .val := by
    simp [sectionArgs, List.drop_append]
  simp only [evalForm, hget, hsec]
  simp only [evalCall, sse_one_hole, bind_ok]
  have h1 : splatSectionEval W [ArgE.val x] (.inl []) = .ok (.inl [x]) := by simp [splatSectionEval]
  simp only [h1, callOrPartApply, Func.run, applySection_one_hole, app_eq]

/-- `f(_, b)(a)` and `f(a, _)(b)` -/
theorem call_sections_agree (W : World) (f : Func) (a b : Val) :
    evalForm W (.secHole 0) f [a, b] = app W f [a, b] ∧ evalForm W (.secHole 1) f [a, b] = app W f [a, b] :=
  ⟨call_section_one_hole W f [] [b] a, call_section_one_hole W f [a] [] b⟩

/-- `f(_, _, …)(a, b, …)` -/
theorem call_section_all_holes (W : World) (f : Func) (args : List Val) (h : args ≠ []) :
    evalForm W .secAll f args = app W f args := by
  obtain ⟨a, rest, rfl⟩ := List.exists_cons_of_ne_nil h
  have hm : ((a :: rest).map fun _ => ArgE.under) = .under :: List.replicate rest.length .under := by
    simp [List.map_const']
  simp only [evalForm, hm, evalCall, splatSectionEval, List.map_nil, List.nil_append, sse_all_holes, bind_ok]
  have h2 := sse_vals W (a :: rest) []
  simp only [List.nil_append] at h2
  simp only [h2, callOrPartApply, Func.run, app_eq]
  have h3 := applySection_all_holes W (a :: rest)
  simp only [List.length_cons, List.replicate_succ] at h3
  simp [h3]

/-- `(_ f b)(a)`, `(a f _)(b)`, `(_ f _)(a, b)`: `ChainSection` with one operator runs `f.run([a, b])` -/
theorem chain_sections_agree (W : World) (f : Func) (a b : Val) :
    evalForm W .chainR f [a, b] = app W f [a, b] ∧ evalForm W .chainL f [a, b] = app W f [a, b] ∧
    evalForm W .chainBoth f [a, b] = app W f [a, b] := by
  simp [evalForm, evalChain1, evalCall, splatSectionEval, callOrPartApply, Func.run, app_eq]

/-- `[a, b, …] apply f` and `f of [a, b, …]` -/
theorem apply_of_agree (W : World) (f : Func) (args : List Val) :
    evalForm W .apply f args = app W f args ∧ evalForm W .of_ f args = app W f args := by
  simp [evalForm, evalList, sse_vals, chainKnown2, Family.run2, Family.run2Override, applyBodies, ofBodies,
    iterVal, call, app_eq]

/-- `(a f)(b)` when `a` is not itself a function: `call_or_part_apply` builds `PartialApp1(f, a)` -/
theorem juxt_agrees (W : World) (f : Func) (a b : Val) (ha : a.isFunc = false) :
    evalForm W .juxt f [a, b] = app W f [a, b] := by
  cases a with
  | func g => simp [Val.isFunc] at ha
  | atom k i => simp [evalForm, evalCall, splatSectionEval, callOrPartApply, few, Func.run, run2Of_eq, func_run_two, app_eq]
  | list xs => simp [evalForm, evalCall, splatSectionEval, callOrPartApply, few, Func.run, run2Of_eq, func_run_two, app_eq]
  | opq l xs => simp [evalForm, evalCall, splatSectionEval, callOrPartApply, few, Func.run, run2Of_eq, func_run_two, app_eq]

/-- when `a` IS a function, `(a f)` is the call `a(f)` — the reason for the side condition -/
theorem juxt_function_is_call (W : World) (f g : Func) :
    evalCall W (some (.func g)) [.val (.func f)] = g.run W [.func f] := by
  simp [evalCall, splatSectionEval, callOrPartApply]

/-- `x := a; x f= b` leaves `x = f(a, b)` -/
theorem op_assign_agrees (W : World) (f : Func) (a b : Val) :
    evalForm W .opAssign f [a, b] = app W f [a, b] := by
  simp [evalForm, evalOpAssign, app_eq, func_run_two]

/-- `f(...[a, b, …])` and `f(a, ...[b, …])` -/
theorem splat_agrees (W : World) (f : Func) (a : Val) (rest : List Val) :
    evalForm W .splatAll f (a :: rest) = app W f (a :: rest) ∧
    evalForm W .splatTail f (a :: rest) = app W f (a :: rest) := by
  constructor
  · have h := sse_splat_list W [] (a :: rest)
    simp only [List.map_nil, List.nil_append] at h
    simp only [evalForm, evalList, sse_vals, List.nil_append, bind_ok, evalCall, h, callOrPartApply, app_eq]
  · have h := sse_splat_list W [a] rest
    simp only [List.map_cons, List.map_nil, List.cons_append, List.nil_append] at h
    simp only [evalForm, evalList, sse_vals, List.nil_append, bind_ok, evalCall, h, callOrPartApply, app_eq]

/-- `a.f`, `a .> f`, `a then f`, `f <. a`: reverse application enters through `run1` -/
theorem dot_agrees (W : World) (f : Func) (a : Val) :
    evalForm W .dot f [a] = app W f [a] ∧ evalForm W .fwdDot f [a] = app W f [a] := by
  simp [evalForm, chainKnown2, Family.run2, Family.run2Override, revApplyBodies, fwdApplyBodies, call1, app_eq,
    func_run_one]


/-! ## 4b. sections that mix `_`, `..._`, plain arguments and `...[…]` spreads in any order -/

/-- the slot list `splat_section_eval` builds for a mixed pattern -/
def mixSlots : List Mix → List Val → List Slot
  | [], _ => []
  | .lit k :: ps, args => (args.take k).map .val ++ mixSlots ps (args.drop k)
  | .spread k :: ps, args => (args.take k).map .val ++ mixSlots ps (args.drop k)
  | .hole :: ps, args => .hole false :: mixSlots ps (args.drop 1)
  | .spreadHole k :: ps, args => .hole true :: mixSlots ps (args.drop k)

theorem sse_vals_then (W : World) (xs acc : List Val) (rest : List ArgE) :
    splatSectionEval W (xs.map .val ++ rest) (.inl acc) = splatSectionEval W rest (.inl (acc ++ xs)) := by
  induction xs generalizing acc with
  | nil => simp
  | cons x xs ih => simp [splatSectionEval, ih]

theorem sse_vals_then_inr (W : World) (xs : List Val) (acc : List Slot) (rest : List ArgE) :
    splatSectionEval W (xs.map .val ++ rest) (.inr acc) = splatSectionEval W rest (.inr (acc ++ xs.map .val)) := by
  induction xs generalizing acc with
  | nil => simp
  | cons x xs ih => simp [splatSectionEval, ih]

/-- once a placeholder has been seen, every later piece — in particular a `...[…]` spread — is
appended to the slot list element by element -/
theorem sse_mix_inr (W : World) (pat : List Mix) (args : List Val) (acc : List Slot) :
    splatSectionEval W (mixBuild pat args).1 (.inr acc) = .ok (.inr (acc ++ mixSlots pat args)) := by
  induction pat generalizing args acc with
  | nil => simp [mixBuild, mixSlots, splatSectionEval]
  | cons p ps ih =>
    cases p with
    | lit k =>
      simp only [mixBuild, mixSlots]
      rw [sse_vals_then_inr, ih, List.append_assoc]
    | spread k =>
      simp only [mixBuild, mixSlots, splatSectionEval, iterVal]
      rw [ih, List.append_assoc]
    | hole => simp [mixBuild, mixSlots, splatSectionEval, ih]
    | spreadHole k => simp [mixBuild, mixSlots, splatSectionEval, ih]

/-- before the first placeholder the pieces are plain values; the first placeholder turns the
accumulated values into filled slots -/
theorem sse_mix_inl (W : World) (pat : List Mix) (args acc : List Val) (h : pat.any Mix.isHole = true) :
    splatSectionEval W (mixBuild pat args).1 (.inl acc) = .ok (.inr (acc.map .val ++ mixSlots pat args)) := by
  induction pat generalizing args acc with
  | nil => simp at h
  | cons p ps ih =>
    cases p with
    | lit k =>
      have h' : ps.any Mix.isHole = true := by simpa [Mix.isHole] using h
      simp only [mixBuild, mixSlots]
      rw [sse_vals_then, ih _ _ h', List.map_append, List.append_assoc]
    | spread k =>
      have h' : ps.any Mix.isHole = true := by simpa [Mix.isHole] using h
      simp only [mixBuild, mixSlots, splatSectionEval, iterVal]
      rw [ih _ _ h', List.map_append, List.append_assoc]
    | hole => simp [mixBuild, mixSlots, splatSectionEval, sse_mix_inr]
    | spreadHole k => simp [mixBuild, mixSlots, splatSectionEval, sse_mix_inr]

theorem applySection_vals_then (W : World) (vs : List Val) (rest : List Slot) (args : List Val) :
    applySection W (vs.map .val ++ rest) args = (applySection W rest args).map (vs ++ ·) := by
  induction vs with
  | nil => cases h : applySection W rest args <;> simp [Out.map, h]
  | cons v vs ih =>
    simp only [List.map_cons, List.cons_append, applySection, ih]
    cases h : applySection W rest args <;> simp [Out.map]

/-- filling the slots of a mixed pattern with the second call's arguments restores the tuple -/
theorem applySection_mix (W : World) (pat : List Mix) (args : List Val) (h : mixSize pat = args.length) :
    applySection W (mixSlots pat args) (mixBuild pat args).2 = .ok args := by
  induction pat generalizing args with
  | nil =>
    have : args = [] := by simpa [mixSize] using h.symm
    subst this; simp [mixSlots, applySection]
  | cons p ps ih =>
    cases p with
    | lit k =>
      have hk : mixSize ps = (args.drop k).length := by simp [mixSize] at h; simp; omega
      simp only [mixSlots, mixBuild]
      rw [applySection_vals_then, ih _ hk]
      simp [Out.map]
    | spread k =>
      have hk : mixSize ps = (args.drop k).length := by simp [mixSize] at h; simp; omega
      simp only [mixSlots, mixBuild]
      rw [applySection_vals_then, ih _ hk]
      simp [Out.map]
    | hole =>
      cases args with
      | nil => simp [mixSize] at h
      | cons a rest =>
        have hk : mixSize ps = rest.length := by simp [mixSize] at h; omega
        simp [mixSlots, mixBuild, applySection, ih _ hk, Out.map]
    | spreadHole k =>
      have hk : mixSize ps = (args.drop k).length := by simp [mixSize] at h; simp; omega
      simp [mixSlots, mixBuild, applySection, iterVal, ih _ hk, Out.map]

/-- `f(_, ...[b, c])(a)`, `f(...[a], _, c)(b)`, `f(..._, c)([a, b])`, `f(_, ...[], b)(a)` …: every
call section that mixes placeholders, spread placeholders, plain arguments and spreads, in any
order and at any arity, denotes the plain call -/
theorem mixed_section_agrees (W : World) (f : Func) (pat : List Mix) (args : List Val)
    (hs : mixSize pat = args.length) (hh : pat.any Mix.isHole = true) :
    evalForm W (.secMix pat) f args = app W f args := by
  have h1 := sse_mix_inl W pat args [] hh
  simp only [List.map_nil, List.nil_append] at h1
  have h2 := sse_vals W (mixBuild pat args).2 []
  simp only [List.nil_append] at h2
  simp only [evalForm, evalCall, h1, bind_ok, h2, callOrPartApply, Func.run, applySection_mix W pat args hs, app_eq]

/-- the same for list sections: `[_, ...[b, c]](a)` is the list `[a, b, c]` -/
theorem mixed_list_section (W : World) (f : Func) (pat : List Mix) (args : List Val)
    (hs : mixSize pat = args.length) (hh : pat.any Mix.isHole = true) :
    evalForm W (.listMix pat) f args = .ok (.list args) := by
  have h1 := sse_mix_inl W pat args [] hh
  simp only [List.map_nil, List.nil_append] at h1
  have h2 := sse_vals W (mixBuild pat args).2 []
  simp only [List.nil_append] at h2
  simp only [evalForm, evalList, evalCall, h1, bind_ok, h2, callOrPartApply, Func.run,
    applySection_mix W pat args hs, map_ok]

/-- non-vacuity, and the exact case of the follow-up: a spread AFTER a placeholder is spread -/
example (W : World) (f : Func) (a b c : Val) :
    evalForm W (.secMix [.hole, .spread 2]) f [a, b, c] = app W f [a, b, c] ∧
    (mixBuild [.hole, .spread 2] [a, b, c]).1 = [.under, .splat (.list [b, c])] ∧
    evalForm W (.secMix [.spreadHole 2, .lit 1]) f [a, b, c] = app W f [a, b, c] :=
  ⟨mixed_section_agrees W f _ _ rfl rfl, rfl, mixed_section_agrees W f _ _ rfl rfl⟩



/-! ## 4d. call sections whose callee is a placeholder too -/

/-- the values a placeholder-free prefix contributes -/
def mixVals : List Mix → List Val → List Val
  | [], _ => []
  | .lit k :: ps, args => args.take k ++ mixVals ps (args.drop k)
  | .spread k :: ps, args => args.take k ++ mixVals ps (args.drop k)
  | .hole :: ps, args => mixVals ps (args.drop 1)
  | .spreadHole k :: ps, args => mixVals ps (args.drop k)

theorem mixSlots_noholes (pat : List Mix) (args : List Val) (h : pat.any Mix.isHole = false) :
    mixSlots pat args = (mixVals pat args).map .val ∧ (mixBuild pat args).2 = [] := by
  induction pat generalizing args with
  | nil => simp [mixSlots, mixVals, mixBuild]
  | cons p ps ih =>
    cases p with
    | lit k =>
      have h' : ps.any Mix.isHole = false := by simpa [Mix.isHole] using h
      simp only [mixSlots, mixVals, mixBuild, (ih _ h').1, (ih _ h').2, List.map_append, and_self]
    | spread k =>
      have h' : ps.any Mix.isHole = false := by simpa [Mix.isHole] using h
      simp only [mixSlots, mixVals, mixBuild, (ih _ h').1, (ih _ h').2, List.map_append, and_self]
    | hole => simp [Mix.isHole] at h
    | spreadHole k => simp [Mix.isHole] at h

theorem sse_mix_noholes (W : World) (pat : List Mix) (args acc : List Val) (h : pat.any Mix.isHole = false) :
    splatSectionEval W (mixBuild pat args).1 (.inl acc) = .ok (.inl (acc ++ mixVals pat args)) := by
  induction pat generalizing args acc with
  | nil => simp [mixBuild, mixVals, splatSectionEval]
  | cons p ps ih =>
    cases p with
    | lit k =>
      have h' : ps.any Mix.isHole = false := by simpa [Mix.isHole] using h
      simp only [mixBuild, mixVals]
      rw [sse_vals_then, ih _ _ h', List.append_assoc]
    | spread k =>
      have h' : ps.any Mix.isHole = false := by simpa [Mix.isHole] using h
      simp only [mixBuild, mixVals, splatSectionEval, iterVal]
      rw [ih _ _ h', List.append_assoc]
    | hole => simp [Mix.isHole] at h
    | spreadHole k => simp [Mix.isHole] at h

/-- `_( … )` with any mix of plain arguments, spreads, `_` and `..._` builds `CallSection(None, slots)`
with the same slot list as the fixed-callee section -/
theorem evalCall_callee_slot (W : World) (pat : List Mix) (args : List Val) :
    evalCall W none (mixBuild pat args).1 = .ok (.func (.callSectionU (mixSlots pat args))) := by
  cases hh : pat.any Mix.isHole with
  | true =>
    have h1 := sse_mix_inl W pat args [] hh
    simp only [List.map_nil, List.nil_append] at h1
    simp [evalCall, h1]
  | false =>
    have h1 := sse_mix_noholes W pat args [] hh
    simp only [List.nil_append] at h1
    simp [evalCall, h1, (mixSlots_noholes pat args hh).1]

/-- The order in which `Func::CallSection(None, slots)` distributes the supplied arguments: the
FIRST one is the callee, the remaining ones fill the argument slots left to right (splat slots
spliced), and the callee is called with the restored tuple. -/
theorem callee_slot_section_distribution (W : World) (f : Func) (pat : List Mix) (args : List Val)
    (hs : mixSize pat = args.length) :
    evalForm W (.calleeMix pat) f args = W.callDyn (.func f) args := by
  have h2 := sse_vals W (Val.func f :: (mixBuild pat args).2) []
  simp only [List.nil_append, List.map_cons] at h2
  simp only [evalForm]
  rw [evalCall_callee_slot, bind_ok]
  simp only [evalCall, h2, callOrPartApply, Func.run, applySection_mix W pat args hs]

/-- `(_(…slots…))(f, args…) = f(filled…)`: with the dynamic call being `call` (what
`Func::CallSection` does: `call(env, callee, real_args)`), every callee-slot section denotes the
plain call -/
theorem callee_slot_section_agrees (W : World) (f : Func) (pat : List Mix) (args : List Val)
    (hs : mixSize pat = args.length) (hdyn : W.callDyn (.func f) args = call W (.func f) args) :
    evalForm W (.calleeMix pat) f args = app W f args := by
  rw [callee_slot_section_distribution W f pat args hs, hdyn]; rfl

/-- had the slots been filled first, the function would land in the first slot: the model
distinguishes the two orders (`_(_, b)(f, a)`: callee `f`, arguments `[a, b]`) -/
example (W : World) (f : Func) (a b : Val) :
    evalForm W (.calleeMix [.hole, .lit 1]) f [a, b] = W.callDyn (.func f) [a, b] ∧
    (mixBuild [.hole, .lit 1] [a, b]) = ([.under, .val b], [a]) :=
  ⟨callee_slot_section_distribution W f _ _ rfl, rfl⟩

/-- non-vacuity of `hdyn`: a world whose dynamic call is `call` of a base world, at a closure -/
example :
    let W0 : World :=
      { bodies := fun _ => ⟨fun _ => .throw, fun _ _ => .throw, fun _ => .throw⟩
        closure := fun _ args => .ok (.list args)
        iter := fun _ => .throw, index := fun _ _ => .throw, callType := fun _ _ => .throw
        callDyn := fun _ _ => .throw, chainN := fun _ _ => .throw, other := fun _ _ => .throw }
    let W : World := { W0 with callDyn := fun v args => call W0 v args }
    W.callDyn (.func (.closure 0)) [.atom .num 1, .atom .num 2] = call W (.func (.closure 0)) [.atom .num 1, .atom .num 2] ∧
    evalForm W (.calleeMix [.hole, .spread 1]) (.closure 0) [.atom .num 1, .atom .num 2] =
      .ok (.list [.atom .num 1, .atom .num 2]) := by
  intro W0 W; exact ⟨rfl, rfl⟩

/-! ## 4c. op-assignment whose right-hand side mentions the target itself -/

/-- the right-hand side is evaluated while the variable still holds its old value: `x f= x` is
`f(x, x)`, `x f= g(x)` is `f(x, g(x))`, `x f= (x; b)` is `f(x, b)` -/
theorem op_assign_self_agrees (W : World) (f : Func) (a b : Val) (c : Nat) :
    evalForm W .opSelf f [a] = app W f [a, a] ∧
    evalForm W (.opSelfApp c) f [a] = (app W (.closure c) [a]).bind (fun r => app W f [a, r]) ∧
    evalForm W .opSeq f [a, b] = app W f [a, b] := by
  refine ⟨?_, ?_, ?_⟩
  · simp [evalForm, opAssignThenRead, evalRhs, app_eq, func_run_two]
  · simp only [evalForm, opAssignThenRead, evalRhs, app_eq]
    cases Func.run W (.closure c) [a] <;> simp [func_run_two]
  · simp [evalForm, opAssignThenRead, evalRhs, app_eq, func_run_two]

/-- a right-hand side that raises leaves the variable with its old value (the slot is nulled only
after the right-hand side has been evaluated) -/
theorem op_assign_rhs_fails_keeps (W : World) (f : Func) (a : Val) :
    evalForm W .opRhsFails f [a] = .ok a := by
  simp [evalForm, opAssignSlot, evalRhs]

/-- … whereas an operator that raises leaves `null` behind (documented semantics, not a finding),
and a successful statement leaves the combined value -/
theorem op_assign_slot (W : World) (f : Func) (a b : Val) :
    (∀ c, f.run2 W a b = .ok c → opAssignSlot W a (.func f) (.const b) = c) ∧
    (f.run2 W a b = .throw → opAssignSlot W a (.func f) (.const b) = nullVal) := by
  constructor
  · intro c h; simp [opAssignSlot, evalRhs, h]
  · intro h; simp [opAssignSlot, evalRhs, h]

/-- the statement-level model agrees with the value-level `evalOpAssign` on independent right-hand sides -/
theorem op_assign_stmt_const (W : World) (op x b : Val) :
    opAssignThenRead W x op (.const b) = evalOpAssign W x op b := by
  cases op <;> simp [opAssignThenRead, evalOpAssign, evalRhs]

/-! ## 5. one-argument calls are right sections -/

/-- the family's own guard decides the partial-application arm, and the wrapper it builds -/
theorem partArm_spec (F : Family) (B : Bodies) (self : Func) (b : Val) :
    (F.partArm b = some false → F.run B self [b] = .ok (.func (.partialApp2 self b))) ∧
    (F.partArm b = some true → F.run B self [b] = .ok (.func (.partialAppLast self b))) := by
  cases F <;> simp [Family.partArm, Family.run, few, few2, few3, part2, partLast] <;>
    (try (intro h; simp_all)) <;> (try (intro h1 h2; simp_all))

/-- conversely: a one-argument call that does not take the arm never *builds* a wrapper itself
(it errors or hands over to the opaque body) -/
theorem partArm_none (F : Family) (B : Bodies) (self : Func) (b : Val) (h : F.partArm b = none) :
    F.run B self [b] = .throw ∨ F.run B self [b] = B.b1 b ∨ F.run B self [b] = B.bn [b] := by
  cases F <;> simp [Family.partArm, Family.run, few, few2, few3] at h ⊢ <;> (try simp_all) <;>
    (try (split <;> simp_all))

/-- `PartialApp2(f, b)` applied to `a` is `f(a, b)`; `PartialAppLast(f, b)` likewise -/
theorem partial_is_right_section (W : World) (f : Func) (a b : Val) :
    (Func.partialApp2 f b).run W [a] = f.run W [a, b] ∧
    (Func.partialAppLast f b).run W [a] = f.run W [a, b] := by
  simp [run_partialApp2, run_partialAppLast, func_run_two]

/-- `PartialApp1(f, a)` applied to `b` is `f(a, b)` (left section) -/
theorem partial1_is_left_section (W : World) (f : Func) (a b : Val) :
    (Func.partialApp1 f a).run W [b] = f.run W [a, b] := by
  simp [run_partialApp1, func_run_two]

/-- right-section law for every registered builtin family, under the family's own guard:
if `f(b)` takes the partial-application arm then `f(b)(a) = f(a, b)` — no assumption on bodies,
and no need for `f(a, b)` to succeed -/
theorem right_section_builtin (W : World) (id : Nat) (F : Family) (a b : Val)
    (h : (F.partArm b).isSome) :
    evalForm W .rsec (.builtin id F) [a, b] = app W (.builtin id F) [a, b] := by
  have hs := partArm_spec F (W.bodies id) (.builtin id F) b
  have hc : evalCall W (some (.func (.builtin id F))) [.val b] = (Func.builtin id F).run W [b] :=
    evalCall_vals W _ [b]
  have hr : (Func.builtin id F).run W [b] = F.run (W.bodies id) (.builtin id F) [b] := rfl
  cases hp : F.partArm b with
  | none => simp [hp] at h
  | some last =>
    cases last with
    | false =>
      have e := hs.1 hp
      simp only [evalForm, hc, hr, e, bind_ok]
      have := evalCall_vals W (.partialApp2 (.builtin id F) b) [a]
      simp only [List.map_cons, List.map_nil] at this
      rw [this, (partial_is_right_section W _ a b).1, app_eq]
    | true =>
      have e := hs.2 hp
      simp only [evalForm, hc, hr, e, bind_ok]
      have := evalCall_vals W (.partialAppLast (.builtin id F) b) [a]
      simp only [List.map_cons, List.map_nil] at this
      rw [this, (partial_is_right_section W _ a b).2, app_eq]

/-- the same for any callable whose one-argument call returns its own right-section wrapper -/
theorem right_section_of_wrapper (W : World) (f : Func) (a b : Val)
    (h : f.run W [b] = .ok (.func (.partialApp2 f b)) ∨ f.run W [b] = .ok (.func (.partialAppLast f b))) :
    evalForm W .rsec f [a, b] = app W f [a, b] := by
  have hc : evalCall W (some (.func f)) [.val b] = f.run W [b] := evalCall_vals W f [b]
  rcases h with h | h
  · simp only [evalForm, hc, h, bind_ok]
    have := evalCall_vals W (.partialApp2 f b) [a]
    simp only [List.map_cons, List.map_nil] at this
    rw [this, (partial_is_right_section W _ a b).1, app_eq]
  · simp only [evalForm, hc, h, bind_ok]
    have := evalCall_vals W (.partialAppLast f b) [a]
    simp only [List.map_cons, List.map_nil] at this
    rw [this, (partial_is_right_section W _ a b).2, app_eq]

/-- `flip(g)`: the one-argument call gives `PartialApp1(g, b)` ("weird lol" in the source), which
makes `flip(g)(b)(a) = g(b, a) = flip(g)(a, b)` — a right section again -/
theorem right_section_flip (W : World) (g : Func) (a b : Val) :
    evalForm W .rsec (.flip g) [a, b] = app W (.flip g) [a, b] := by
  have hc : evalCall W (some (.func (.flip g))) [.val b] = (Func.flip g).run W [b] := evalCall_vals W _ [b]
  simp only [evalForm, hc, run_flip_one, bind_ok]
  have := evalCall_vals W (.partialApp1 g b) [a]
  simp only [List.map_cons, List.map_nil] at this
  rw [this, run_partialApp1, app_eq, run_flip_two]

/-- non-vacuity of the guard: `+`-like builtins partially apply a number, not a string; `max` on a
non-sequence builds PartialAppLast; unary minus never does -/
example : Family.partArm .twoNums (.atom .num 0) = some false ∧ Family.partArm .twoNums (.atom .str 0) = none ∧
    Family.partArm .extremum (.atom .num 0) = some true ∧ Family.partArm .minus (.atom .num 0) = none := by decide

/-- The right-section clause at full strength, for arbitrary callables. -/
def right_section_statement : Prop :=
  ∀ (W : World) (f : Func) (a b : Val), FormAgrees W .rsec f [a, b]

/-- It cannot hold for arbitrary bodies: a (variadic) user-defined function that returns some
unrelated function when called with one argument satisfies both side conditions and breaks the
law.  So for opaque bodies the clause is a statement about each library builtin, which is what
`right_section_builtin` proves under the family guard and the harness checks on the real bodies
outside it. -/
theorem right_section_needs_guard : ¬ right_section_statement := by
  intro h
  let W : World :=
    { bodies := fun _ => ⟨fun _ => .throw, fun _ _ => .throw, fun _ => .throw⟩
      closure := fun c args =>
        match c, args with
        | 0, [_] => .ok (.func (.closure 1))
        | 0, [x, _] => .ok x
        | _, _ => .ok (.atom .null 7)
      iter := fun _ => .throw, index := fun _ _ => .throw, callType := fun _ _ => .throw
      callDyn := fun _ _ => .throw, chainN := fun _ _ => .throw, other := fun _ _ => .throw }
  have := h W (.closure 0) (.atom .num 1) (.atom .num 2)
    ⟨rfl, ⟨⟨.closure 1, rfl⟩, ⟨.atom .num 1, rfl⟩⟩⟩
  simp [evalForm, evalCall, splatSectionEval, callOrPartApply, Func.run, app, call, denotes, W] at this

/-! ## 6. the property: all forms agree, for every callable -/

/-- Every form other than the bare right section denotes the plain call, for EVERY callable
(any family, any bodies, any nesting of combinators and sections), every argument tuple. -/
theorem forms_agree (W : World) (form : Form) (f : Func) (args : List Val) (hf : form ≠ .rsec) :
    FormAgrees W form f args := by
  intro hp
  obtain ⟨hlen, hside⟩ := hp
  cases form with
  | secMix pat => exact mixed_section_agrees W f pat args hside.1 hside.2
  | listMix pat => exact mixed_list_section W f pat args hside.1 hside.2
  | calleeMix pat => exact callee_slot_section_agrees W f pat args hside.1 hside.2
  | opSelf =>
    match args, hlen with
    | [a], _ => exact (op_assign_self_agrees W f a a 0).1
  | opSelfApp c =>
    match args, hlen with
    | [a], _ => exact (op_assign_self_agrees W f a a c).2.1
  | opSeq =>
    match args, hlen with
    | [a, b], _ => exact (op_assign_self_agrees W f a b 0).2.2
  | opRhsFails =>
    match args, hlen with
    | [a], _ => exact op_assign_rhs_fails_keeps W f a
  | call => exact (call_agrees W f args).1
  | bang => exact (call_agrees W f args).2
  | infixOp =>
    match args, hlen with
    | [a, b], _ => exact (infix_agrees W f a b).1
  | backtick =>
    match args, hlen with
    | [a, b], _ => exact (infix_agrees W f a b).2
  | secHole i =>
    have hi : i < args.length := hside
    have hsplit : args = args.take i ++ [args[i]] ++ args.drop (i + 1) := by
      simp
    have hl : (args.take i).length = i := by simp; omega
    have := call_section_one_hole W f (args.take i) (args.drop (i + 1)) args[i]
    rw [hl, ← hsplit] at this
    exact this
  | secAll =>
    cases args with
    | nil => exact absurd rfl hside
    | cons a rest => exact call_section_all_holes W f (a :: rest) (by simp)
  | chainR =>
    match args, hlen with
    | [a, b], _ => exact (chain_sections_agree W f a b).1
  | chainL =>
    match args, hlen with
    | [a, b], _ => exact (chain_sections_agree W f a b).2.1
  | chainBoth =>
    match args, hlen with
    | [a, b], _ => exact (chain_sections_agree W f a b).2.2
  | apply => exact (apply_of_agree W f args).1
  | of_ => exact (apply_of_agree W f args).2
  | juxt =>
    match args, hlen, hside with
    | [a, b], _, hs => exact juxt_agrees W f a b hs
  | rsec => exact absurd rfl hf
  | opAssign =>
    match args, hlen with
    | [a, b], _ => exact op_assign_agrees W f a b
  | splatAll =>
    cases args with
    | nil =>
      simp [evalForm, evalList, splatSectionEval, evalCall, iterVal, callOrPartApply, app, call, denotes]
    | cons a rest => exact (splat_agrees W f a rest).1
  | splatTail =>
    cases args with
    | nil => exact absurd rfl hside
    | cons a rest => exact (splat_agrees W f a rest).2
  | dot =>
    match args, hlen with
    | [a], _ => exact (dot_agrees W f a).1
  | fwdDot =>
    match args, hlen with
    | [a], _ => exact (dot_agrees W f a).2

/-- the right-section clause for every registered builtin whose one-argument call takes the
partial-application arm, and for `flip` -/
theorem forms_agree_rsec (W : World) (id : Nat) (F : Family) (a b : Val) (h : (F.partArm b).isSome) :
    FormAgrees W .rsec (.builtin id F) [a, b] :=
  fun _ => right_section_builtin W id F a b h

/-- non-vacuity of `forms_agree`: a world with distinguishable bodies in which the forms
really compute something (the infix form of a `twoNums` builtin reaches `b2` with the
arguments in order; its right section exists; an ill-kinded one-argument call fails) -/
example :
    let W : World :=
      { bodies := fun _ => ⟨fun a => .ok (.opq "b1" [a]), fun a b => .ok (.opq "b2" [a, b]), fun xs => .ok (.opq "bn" xs)⟩
        closure := fun _ args => .ok (.opq "cl" args)
        iter := fun _ => .throw, index := fun _ _ => .throw, callType := fun _ _ => .throw
        callDyn := fun _ _ => .throw, chainN := fun _ _ => .throw, other := fun _ _ => .throw }
    evalForm W .infixOp (.builtin 5 .twoNums) [.atom .num 0, .atom .num 1] = .ok (.opq "b2" [.atom .num 0, .atom .num 1]) ∧
    evalForm W .chainR (.builtin 5 .twoNums) [.atom .num 0, .atom .num 1] = .ok (.opq "b2" [.atom .num 0, .atom .num 1]) ∧
    evalForm W .rsec (.builtin 5 .twoNums) [.atom .num 0, .atom .num 1] = .ok (.opq "b2" [.atom .num 0, .atom .num 1]) ∧
    evalForm W .rsec (.builtin 5 .twoNums) [.atom .num 0, .atom .str 1] = .throw ∧
    evalForm W .juxt (.flip (.closure 2)) [.atom .num 0, .atom .num 1] = .ok (.opq "cl" [.atom .num 1, .atom .num 0]) := by
  intro W
  exact ⟨rfl, rfl, rfl, rfl, rfl⟩

/-! ## 6b. more of `Func::run`: OnComposition, Composition, splat holes, error cases -/

/-- `Func::OnComposition(f, g)`: every argument goes through `g.run1`, in order, first failure wins -/
theorem run_onComposition (W : World) (f g : Func) (args : List Val) :
    (Func.onComposition f g).run W args = (seqOut (args.map (g.run1 W))).bind (f.run W) := by
  have h : args.map (run1Of W g (Func.run W g)) = args.map (g.run1 W) := by
    apply List.map_congr_left; intro a _; exact run1Of_eq W g a
  simp only [Func.run, h]
  cases seqOut (args.map (g.run1 W)) <;> rfl

/-- `(f on g)(a, b) = f(g(a), g(b))` when both inner calls succeed -/
theorem on_two (W : World) (f g : Func) (a b x y : Val)
    (ha : g.run W [a] = .ok x) (hb : g.run W [b] = .ok y) :
    (Func.onComposition f g).run W [a, b] = f.run W [x, y] := by
  rw [run_onComposition]
  simp [seqOut, ← func_run_one, ha, hb, Out.map]

/-- `(f <<< g)(a, b) = f(g(a, b))` -/
theorem compose_two (W : World) (f g : Func) (a b r : Val) (h : g.run W [a, b] = .ok r) :
    (Func.composition f g).run W [a, b] = f.run W [r] := by
  rw [run_composition, h, bind_ok, func_run_one]

/-- a splat underscore takes one argument and splices its elements -/
theorem applySection_splat_hole (W : World) (pre post xs : List Val) :
    applySection W (pre.map .val ++ [.hole true] ++ post.map .val) [.list xs] = .ok (pre ++ xs ++ post) := by
  induction pre with
  | nil => simp [applySection, applySection_vals, iterVal]
  | cons p pre ih =>
    simp only [List.map_cons, List.cons_append, applySection]
    simp only [List.append_assoc, List.singleton_append] at ih ⊢
    simp [ih]

/-- `call_or_part_apply` on a non-function callee: exactly one function argument gives the left
section `PartialApp1(f, a)`; anything else is an error -/
theorem callOrPartApply_nonfunc (W : World) (a : Val) (ha : a.isFunc = false) :
    (∀ f, callOrPartApply W a [.func f] = .ok (.func (.partialApp1 f a))) ∧
    (∀ x, x.isFunc = false → callOrPartApply W a [x] = .throw) ∧
    (∀ args, args.length ≠ 1 → callOrPartApply W a args = .throw) := by
  refine ⟨?_, ?_, ?_⟩
  · intro f; cases a <;> simp_all [callOrPartApply, few, Val.isFunc]
  · intro x hx; cases a <;> cases x <;> simp_all [callOrPartApply, few, Val.isFunc]
  · intro args hl
    match args, hl with
    | [], _ => cases a <;> simp_all [callOrPartApply, few, Val.isFunc]
    | _ :: _ :: _, _ => cases a <;> simp_all [callOrPartApply, few, Val.isFunc]

/-- a chain section with one operator needs exactly as many arguments as it has underscores -/
theorem chainSection1_arity (W : World) (op : Func) (a b : Val) :
    (Func.chainSection1 none op (some b)).run W [] = .throw ∧
    (Func.chainSection1 none op (some b)).run W [a, a] = .throw ∧
    (Func.chainSection1 (some a) op none).run W [] = .throw ∧
    (Func.chainSection1 none op none).run W [a] = .throw := by
  simp [Func.run]

/-- every partial-application value a builtin family builds by itself wraps the builtin itself and
the given argument — never another function, never another argument -/
theorem family_builds_own_wrapper (F : Family) (B : Bodies) (self : Func) (a : Val)
    (h : (F.partArm a).isSome) :
    F.run B self [a] = .ok (.func (.partialApp2 self a)) ∨ F.run B self [a] = .ok (.func (.partialAppLast self a)) := by
  have hs := partArm_spec F B self a
  cases hp : F.partArm a with
  | none => simp [hp] at h
  | some l => cases l with
    | false => exact .inl (hs.1 hp)
    | true => exact .inr (hs.2 hp)

/-- nested sections: a section of a section is still the plain call (instance of `forms_agree`
at a composite callable) — `f(_, b)` used infix -/
example (W : World) (f : Func) (b x : Val) :
    evalForm W .infixOp (.callSection (.func f) [.hole false, .val b]) [x, x] =
      app W (.callSection (.func f) [.hole false, .val b]) [x, x] :=
  (infix_agrees W _ x x).1


/-! ## 7. every registered builtin belongs to a family proved coherent (generated table) -/

/-- the check run over the table regenerated from /repo/src/lib.rs on every `./check C04` -/
def regCovered (r : C04Tables.Reg) : Bool :=
  r.family == "Type" || (Family.ofStruct r.family).isSome

theorem table_check : C04Tables.registrations.all regCovered = true := by decide +kernel

/-- Every `env.insert_*` registration of `initialize` is either a type (a `Func::Type`, which
has a single entry point) or a builtin of a struct family that is modelled — and every modelled
family is coherent.  A builtin re-registered with an unknown struct, or a registration the
extractor cannot classify (`unknown`), breaks this obligation. -/
theorem all_registered_builtins_covered :
    ∀ r ∈ C04Tables.registrations,
      r.family = "Type" ∨ ∃ F, Family.ofStruct r.family = some F ∧ Coherent F := by
  intro r hr
  have h := List.all_eq_true.mp table_check r hr
  simp only [regCovered, Bool.or_eq_true, beq_iff_eq] at h
  rcases h with h | h
  · exact .inl h
  · obtain ⟨F, hF⟩ := Option.isSome_iff_exists.mp h
    exact .inr ⟨F, hF, family_coherent F⟩

/-- the table is not empty and not trivial: it contains the operators the property is named after -/
example : (C04Tables.registrations.any fun r => r.name == "+" && r.family == "Plus") = true ∧
    (C04Tables.registrations.any fun r => r.name == "*" && r.family == "Times") = true ∧
    C04Tables.registrations.length > 250 := by decide +kernel

end Noulith.C04
