/-
C13, part 2 — the `Permutations` iterator enumerates the Spec list (`permutations_statement` of
Theorems/C13.lean, now a theorem).  The iterator step `permIncr` is the transcription shared with
the C11 slice (`Impl/Stream.lean`, `Perm.advance`); the successor analysis (rank in the factorial
number system drops by exactly one, ranks are injective on permutations) is C11's
`perms_enumeration_gen`; this file bridges it to C13's `forceGo` driver and Spec.
-/
import NoulithModel.Theorems.C13
import NoulithModel.Theorems.C11EnumPerm
import NoulithModel.Lemmas.C13Perm
set_option linter.unusedSimpArgs false
set_option linter.unusedVariables false
namespace Noulith.C13
open Noulith Noulith.SeqLib
variable {α : Type}

/-- `force` of the C13 iterator model follows the C11 unfolding relation of `Permutations::next` -/
theorem forceGo_of_unfolds (xs : List α) (o : Option (List Nat)) (l : List (List α))
    (h : Stream.Unfolds Stream.Perm.next (⟨xs, o⟩ : Stream.Idx α) l) (fuel : Nat) (hf : l.length ≤ fuel)
    (acc : List (List α)) :
    forceGo (fun v => (pick xs v, permIncr v)) fuel o acc = acc ++ l := by
  generalize hp : (⟨xs, o⟩ : Stream.Idx α) = p at h
  induction h generalizing o fuel acc with
  | done hn =>
    subst hp
    cases o with
    | none => cases fuel <;> simp [forceGo]
    | some v => simp [Stream.Perm.next] at hn
  | step hn _ ih =>
    subst hp
    cases o with
    | none => simp [Stream.Perm.next] at hn
    | some v =>
      simp only [Stream.Perm.next, Option.some.injEq, Prod.mk.injEq] at hn
      obtain ⟨hv, hs⟩ := hn
      cases fuel with
      | zero => simp at hf
      | succ fuel =>
        simp only [forceGo]
        have := ih (permIncr v) fuel (by simp at hf; omega) (acc ++ [pick xs v]) (by rw [← hs]; rfl)
        rw [this, ← hv]
        simp [pick, Stream.pickAll]


theorem picks_bridge (l : List α) : SeqSpec.picks l = PermLex.picks l := by
  induction l with
  | nil => rfl
  | cons x xs ih => simp [SeqSpec.picks, PermLex.picks, ih]

theorem permsN_bridge (n : Nat) (l : List α) : SeqSpec.permsN n l = PermLex.permsN n l := by
  induction n generalizing l with
  | zero => rfl
  | succ n ih => simp [SeqSpec.permsN, PermLex.permsN, picks_bridge, ih]

theorem picks_len (l : List α) : (SeqSpec.picks l).length = l.length := by
  induction l with
  | nil => rfl
  | cons x xs ih => simp [SeqSpec.picks, ih]

theorem permsN_length (n : Nat) (l : List α) (h : l.length = n) :
    (SeqSpec.permsN n l).length = factorial n := by
  induction n generalizing l with
  | zero => rfl
  | succ n ih =>
    simp only [SeqSpec.permsN, factorial]
    have key : ∀ ps : List (α × List α), (∀ p ∈ ps, p.2.length = n) →
        (ps.flatMap fun p => (SeqSpec.permsN n p.2).map (p.1 :: ·)).length = ps.length * factorial n := by
      intro ps
      induction ps with
      | nil => simp
      | cons p ps ihp =>
        intro hp
        simp only [List.flatMap_cons, List.length_append, List.length_map, List.length_cons]
        rw [ih p.2 (hp p (by simp)), ihp (fun q hq => hp q (List.mem_cons_of_mem _ hq)), Nat.succ_mul]
        omega
    rw [key _ (fun p hp => by have := picks_length l p hp; omega), picks_len, h]

/-- **permutations**: the `Permutations` iterator of streams.rs (last-ascent successor, driven by
`force`) enumerates exactly the Spec's lexicographic-by-position list, for every input — the empty
one included (one empty permutation; F14).  The successor analysis is shared with the C11 slice
(`perms_enumeration_gen`, Theorems/C11EnumPerm.lean). -/
theorem permutations_eq (xs : List α) : permutations xs = SeqSpec.permutations xs := by
  have h := C11.perms_enumeration_gen xs
  rw [← permsN_bridge] at h
  have := forceGo_of_unfolds xs (some (List.range xs.length)) _ h (factorial xs.length + 1)
    (by rw [permsN_length _ _ rfl]; omega) []
  simpa [permutations, SeqSpec.permutations] using this

theorem permutations_holds : permutations_statement := fun _ xs => permutations_eq xs

theorem lib_permutations : implLib.permutations = specLib.permutations := by
  funext xs; exact permutations_eq xs

end Noulith.C13
