/-
C17 (supplement) — semantic preservation of `freeze` for FIRST-ORDER code (no lambda inside the frozen
expression): sequences, `if`, `while`, `for` (all clause kinds, `yield`, `yield k: v`, `into` a builtin),
declarations with every pattern, assignment, op-assignment, `and` / `or` / `coalesce`, `try`, `switch`,
`break` / `continue` / `return` / `throw`, list displays, indexing, operators, calls of builtins.

`freeze_preserves_first_order`: if `freezeExpr look s e = .ok (e', s')`, the code satisfies the static
side condition `ScopeOK` (below, clause by clause, with the finding each clause corresponds to), and at
the time of USE every name that freeze treated as free still has the value freeze saw (`Agree`: "free
variables were not reassigned between freeze and use"), then evaluating the frozen code gives EXACTLY
what evaluating the original gives: same result, same state, for every fuel.

Proof: since first-order code creates no closures, both runs go through identical states; the only
difference between `e'` and `e` is `.ident x ↦ .frozen i` for names outside the bound set, so everything
hinges on re-establishing `Agree` for the bound set that freeze threads.  The invariants are collected in
`Post`; the induction is over the fuel, simultaneously for the eight evaluator functions involved.
-/
import NoulithModel.Theorems.C17Closed
import NoulithModel.Theorems.C17Frames

namespace Noulith.C17Preserve
open Noulith Noulith.Core Noulith.C17Closed Noulith.C17Frames

/-! ## the static side condition -/

/-- the bound set in which the part of a `for` header that runs in the ENCLOSING scope ends: leading
guards and the expression of the first binding clause are evaluated in the scope the `for` stands in (with
no binding clause at all, so is the body) -/
def headAfter : List String → List ForIt → ForBody → List String
  | bd, [], body => afterBody bd body
  | bd, .guard g :: rest, body => headAfter (afterExpr bd g) rest body
  | bd, .iter _ _ e :: _, _ => afterExpr bd e

/-- `into f`: nothing, or a builtin's name that is not bound (so that it denotes the builtin) -/
def okInto (bd : List String) : Option Expr → Bool
  | none => true
  | some (.ident f) => builtinNames.contains f && !bd.contains f
  | some _ => false

/-!
`okExpr S bd e = some S'`: `e` is in the fragment and satisfies the scope conditions, given the bound set
`bd` (what freeze has bound when it reaches `e`) and the set `S ⊆ bd` of names that are SURELY declared
(in a frame created since the freeze started) whenever control reaches `e`; `S'` is that set after `e`
completed normally.  The clauses:

* **assignment targets must be surely declared** (`assign`, `opassign`: `S.contains x`).  Freeze accepts
  `x = …` as soon as `x` is in its bound set, which also contains names declared in a branch that was not
  taken (`if`, `and`/`or`/`coalesce` operands, a `try` body that raised earlier, loop bodies); at run time
  such an assignment reaches an OUTER variable of that name.  Inside a loop / catch clause / switch arm
  (scopes that freeze leaves again) the name is afterwards free for freeze, hence resolved at freeze time:
  NEW FINDING F32, `o := 1; h := freeze \ -> ((for (i <- [1]) ((if (0) (o := 5)); o = 7)); o); [h(), o]`
  gives `[1,7]`, unfrozen `[7,7]` (and frozen code has written to an outside variable).
* **the part of a `for` header evaluated in the enclosing scope must not declare** (`headAfter … == bd`):
  known finding F30 and its variants (`for (if (1)) (y := 5)`, `for (x := (y := 5; y)) …`: the declaration
  lands in the enclosing scope, freeze treats it as loop-local).
* **callees and `into` functions are builtins that are not shadowed** (first-order code).
* `lambda`, `freeze`, `eval "…"` (its text may declare anything) and `Frozen` nodes are outside the fragment.

Everything else — declarations in `while` conditions, `switch` scrutinees, `if` branches, `try` bodies,
guards and iteratees of later clauses — is handled identically by freeze and by the evaluator.
-/
mutual
  def okExpr : List String → List String → Expr → Option (List String)
    | S, _, .null => some S
    | S, _, .int _ => some S
    | S, _, .str _ => some S
    | S, _, .cont _ => some S
    | S, _, .ident _ => some S
    | S, bd, .list xs => okList S bd xs
    | S, bd, .op _ a b => match okExpr S bd a with | some S1 => okExpr S1 (afterExpr bd a) b | none => none
    | S, bd, .index a b => match okExpr S bd a with | some S1 => okExpr S1 (afterExpr bd a) b | none => none
    | S, bd, .call (.ident f) args =>
      if builtinNames.contains f && !bd.contains f then okList S bd args else none
    | S, bd, .and_ a b =>
      match okExpr S bd a with
      | some S1 => match okExpr S1 (afterExpr bd a) b with | some _ => some S1 | none => none
      | none => none
    | S, bd, .or_ a b =>
      match okExpr S bd a with
      | some S1 => match okExpr S1 (afterExpr bd a) b with | some _ => some S1 | none => none
      | none => none
    | S, bd, .coalesce a b =>
      match okExpr S bd a with
      | some S1 => match okExpr S1 (afterExpr bd a) b with | some _ => some S1 | none => none
      | none => none
    | S, bd, .seq xs _ => okList S bd xs
    | S, bd, .ite c t e =>
      match okExpr S bd c with
      | some S1 =>
        match okExpr S1 (afterExpr bd c) t with
        | some _ => match okOpt S1 (afterExpr (afterExpr bd c) t) e with | some _ => some S1 | none => none
        | none => none
      | none => none
    | S, bd, .while_ c b =>
      match okExpr S bd c with
      | some S1 => match okExpr S1 (afterExpr bd c) b with | some _ => some S | none => none
      | none => none
    | S, bd, .for_ its body =>
      if headAfter bd its body == bd then
        match okIts S bd its with
        | some S2 => if okBody S2 (afterIts bd its) body then some S else none
        | none => none
      else none
    | S, bd, .declare p rhs =>
      match okExpr S (bd ++ Pat.idents p) rhs with
      | some S1 => some (S1 ++ Pat.idents p)
      | none => none
    | S, bd, .assign x rhs => if S.contains x then okExpr S bd rhs else none
    | S, bd, .opassign x _ rhs => if S.contains x then okExpr S bd rhs else none
    | S, bd, .brk _ e => okOpt S bd e
    | S, bd, .ret e => okOpt S bd e
    | S, bd, .throw_ e => okExpr S bd e
    | S, bd, .try_ b p c =>
      match okExpr S bd b with
      | some _ =>
        match okExpr (S ++ Pat.idents p) (afterExpr bd b ++ Pat.idents p) c with
        | some _ => some S
        | none => none
      | none => none
    | S, bd, .switch_ sc arms =>
      match okExpr S bd sc with
      | some S1 => if okArms S1 (afterExpr bd sc) arms then some S1 else none
      | none => none
    | _, _, _ => none
  def okArms : List String → List String → List SwitchArm → Bool
    | _, _, [] => true
    | S, bd, .mk p body :: rest =>
      (okExpr (S ++ Pat.idents p) (bd ++ Pat.idents p) body).isSome && okArms S bd rest
  def okList : List String → List String → List Expr → Option (List String)
    | S, _, [] => some S
    | S, bd, x :: xs => match okExpr S bd x with | some S1 => okList S1 (afterExpr bd x) xs | none => none
  def okOpt : List String → List String → Option Expr → Option (List String)
    | S, _, none => some S
    | S, bd, some x => okExpr S bd x
  def okIts : List String → List String → List ForIt → Option (List String)
    | S, _, [] => some S
    | S, bd, .guard g :: rest =>
      match okExpr S bd g with | some S1 => okIts S1 (afterExpr bd g) rest | none => none
    | S, bd, .iter _ p e :: rest =>
      match okExpr S bd e with
      | some S1 => okIts (S1 ++ Pat.idents p) (afterExpr bd e ++ Pat.idents p) rest
      | none => none
  def okBody : List String → List String → ForBody → Bool
    | S, bd, .exec e => (okExpr S bd e).isSome
    | S, bd, .yield e into => (okExpr S bd e).isSome && okInto (afterExpr bd e) into
    | S, bd, .yieldItem k v into =>
      match okExpr S bd k with
      | some S1 => (okExpr S1 (afterExpr bd k) v).isSome && okInto (afterExpr (afterExpr bd k) v) into
      | none => false
end

/-- **the side condition of the preservation theorem**: `e`, frozen under the bound set `bd` all of whose
names are surely declared (e.g. the parameters of the enclosing function), is in the first-order fragment
and avoids the constructions on which freeze's idea of scope differs from the evaluator's -/
def ScopeOK (bd : List String) (e : Expr) : Prop := (okExpr bd bd e).isSome = true

instance (bd : List String) (e : Expr) : Decidable (ScopeOK bd e) := inferInstanceAs (Decidable (_ = true))

/-! ## the invariants -/

/-- at the time of use, every name that freeze treats as free (not in `b`) resolves — through the scope
chain of `env`, then the builtins — to what freeze's lookup function returned: the free variables have not
been reassigned, shadowed or declared since the freeze -/
def Agree (look : String → Option Val) (b : List String) (st : State) (env : Nat) : Prop :=
  ∀ x, x ∉ b → lookOf st env x = look x

theorem Agree.mono {look : String → Option Val} {b b' : List String} {st : State} {env : Nat}
    (h : Agree look b st env) (hb : ∀ x, x ∈ b → x ∈ b') : Agree look b' st env :=
  fun x hx => h x (fun hxb => hx (hb x hxb))

theorem lookOf_congr {st st' : State} {env : Nat} {x : String} (h : st'.lookup env x = st.lookup env x) :
    lookOf st' env x = lookOf st env x := by
  simp only [lookOf, h]

/-- `Agree` survives a change of the store that leaves the frames `≤ env` alone outside `b` -/
theorem Agree.of_same {look : String → Option Val} {b : List String} {st st' : State} {env : Nat}
    (h : Agree look b st env) (hwf : WF st) (hlt : env < st.frames.size) (hlt' : env < st'.frames.size)
    (hs : ∀ y, y ∉ b → SameAt y (env + 1) st.frames st'.frames) : Agree look b st' env := by
  intro x hx
  rw [← h x hx]
  apply lookOf_congr
  unfold State.lookup
  exact lookup_congr x st.frames st'.frames hwf env _ _ (by omega) (by omega) (hs x hx)

structure Pre (look : String → Option Val) (b : List String) (st : State) (env : Nat) : Prop where
  wf : WF st
  lt : env < st.frames.size
  agree : Agree look b st env

/-- what one evaluation step (from `st` to `st1`, in scope `env`; `normal`: it completed normally)
guarantees: the store only grew; `Agree` holds for the bound set freeze has reached; frames older than any
threshold `n ≤ env` are unchanged outside `B` provided the surely-declared names `S` were safe for
`(n, B)`; and after a normal completion the new surely-declared names `SOut` are safe again -/
structure Post (look : String → Option Val) (S : List String) (st : State) (env : Nat)
    (bOut SOut : List String) (normal : Prop) (st1 : State) : Prop where
  ext : Ext st st1
  wf : WF st1
  agree : Agree look bOut st1 env
  kept : ∀ n B, n ≤ env → SafeFor S st env n B → OldKept st st1 n B
  safe : normal → ∀ n B, n ≤ env → SafeFor S st env n B → SafeFor SOut st1 env n B

theorem Post.lt {look S st env bOut SOut nm st1} (h : Post look S st env bOut SOut nm st1)
    (hlt : env < st.frames.size) : env < st1.frames.size := Nat.lt_of_lt_of_le hlt h.ext.1.1

theorem Post.toPre {look S st env bOut SOut nm st1} (h : Post look S st env bOut SOut nm st1)
    (hlt : env < st.frames.size) : Pre look bOut st1 env := ⟨h.wf, h.lt hlt, h.agree⟩

/-- a step that does not touch the frames (nor the table of frozen values) -/
theorem Post.of_frames_eq {look : String → Option Val} {b bOut S SOut : List String} {st st1 : State} {env : Nat}
    (nm : Prop) (hp : Pre look b st env) (hf : st1.frames = st.frames) (ht : st1.frozenTab = st.frozenTab)
    (hb : ∀ x, x ∈ b → x ∈ bOut) (hS : ∀ x, x ∈ SOut → x ∈ S) : Post look S st env bOut SOut nm st1 := by
  refine ⟨⟨by rw [hf]; exact ExtF.refl _, ht⟩, by unfold WF; rw [hf]; exact hp.wf, ?_, ?_, ?_⟩
  · intro x hx
    have : lookOf st1 env x = lookOf st env x := by
      apply lookOf_congr; unfold State.lookup; rw [hf]
    rw [this]; exact hp.agree.mono hb x hx
  · intro n B _ _ y _; rw [hf]; exact SameAt.refl _ _ _
  · intro _ n B _ hs x hx
    rcases hs x (hS x hx) with h | h
    · exact Or.inl h
    · right; unfold DeclAbove at h ⊢; rw [hf]; exact h

theorem Post.refl {look : String → Option Val} {b bOut S SOut : List String} {st : State} {env : Nat}
    (nm : Prop) (hp : Pre look b st env) (hb : ∀ x, x ∈ b → x ∈ bOut) (hS : ∀ x, x ∈ SOut → x ∈ S) :
    Post look S st env bOut SOut nm st := Post.of_frames_eq nm hp rfl rfl hb hS

/-- sequential composition: a step that completed normally, followed by another step -/
theorem Post.seq {look S st env b1 S1 st1 b2 S2 st2} {nm1 nm2 : Prop} (hn : nm1)
    (h1 : Post look S st env b1 S1 nm1 st1) (h2 : Post look S1 st1 env b2 S2 nm2 st2) :
    Post look S st env b2 S2 nm2 st2 :=
  ⟨h1.ext.trans h2.ext, h2.wf, h2.agree,
   fun n B hle hs => (h1.kept n B hle hs).trans (h2.kept n B hle (h1.safe hn n B hle hs)),
   fun hv n B hle hs => h2.safe hv n B hle (h1.safe hn n B hle hs)⟩

/-- the same, keeping only the surely-declared names of the FIRST step (the second one was conditional) -/
theorem Post.seq_keep {look S st env b1 S1 st1 b2 S2 st2} {nm1 nm2 nm : Prop} (hn : nm1)
    (h1 : Post look S st env b1 S1 nm1 st1) (h2 : Post look S1 st1 env b2 S2 nm2 st2) :
    Post look S st env b2 S1 nm st2 :=
  ⟨h1.ext.trans h2.ext, h2.wf, h2.agree,
   fun n B hle hs => (h1.kept n B hle hs).trans (h2.kept n B hle (h1.safe hn n B hle hs)),
   fun _ n B hle hs => (h1.safe hn n B hle hs).ext h2.ext⟩

/-- weakening: a larger bound set, fewer surely-declared names -/
theorem Post.weaken {look S st env b1 S1 st1} {nm : Prop} {b2 S2 : List String}
    (h : Post look S st env b1 S1 nm st1) (hb : ∀ x, x ∈ b1 → x ∈ b2) (hS : ∀ x, x ∈ S2 → x ∈ S1) :
    Post look S st env b2 S2 nm st1 :=
  ⟨h.ext, h.wf, h.agree.mono hb, h.kept, fun hv n B hn hs => (h.safe hv n B hn hs).mono hS⟩

/-- a step that did NOT complete normally says nothing about the surely-declared names -/
theorem Post.abort {look S st env b1 S1 st1} {nm nm' : Prop} {b2 S2 : List String}
    (h : Post look S st env b1 S1 nm st1) (hr : ¬ nm') (hb : ∀ x, x ∈ b1 → x ∈ b2) :
    Post look S st env b2 S2 nm' st1 :=
  ⟨h.ext, h.wf, h.agree.mono hb, h.kept, fun hv => absurd hv hr⟩

/-- the surely-declared names one started with stay safe while the store grows -/
theorem Post.keepS {look S st env b1 S1 st1} {nm nm' : Prop} {b2 : List String}
    (h : Post look S st env b1 S1 nm st1) (hb : ∀ x, x ∈ b1 → x ∈ b2) :
    Post look S st env b2 S nm' st1 :=
  ⟨h.ext, h.wf, h.agree.mono hb, h.kept, fun _ n B _ hs => hs.ext h.ext⟩

/-! ## static facts about the side condition -/

theorem after_mono_all :
    (∀ bd e, ∀ x ∈ bd, x ∈ afterExpr bd e) ∧
    (∀ bd o, ∀ x ∈ bd, x ∈ afterOpt bd o) ∧
    (∀ bd es, ∀ x ∈ bd, x ∈ afterList bd es) := by
  apply afterExpr.mutual_induct
    (motive_1 := fun bd e => ∀ x ∈ bd, x ∈ afterExpr bd e)
    (motive_2 := fun bd o => ∀ x ∈ bd, x ∈ afterOpt bd o)
    (motive_3 := fun bd es => ∀ x ∈ bd, x ∈ afterList bd es)
  all_goals
    intros
    simp only [afterExpr, afterList, afterOpt]
    first | assumption | grind

theorem afterIts_mono : ∀ its bd, ∀ x ∈ bd, x ∈ afterIts bd its := by
  intro its
  induction its with
  | nil => intro bd x hx; simpa [afterIts] using hx
  | cons it rest ih =>
    intro bd x hx
    cases it with
    | guard g => simp only [afterIts]; exact ih _ x (after_mono_all.1 bd g x hx)
    | iter k p e =>
      simp only [afterIts]; exact ih _ x (List.mem_append_left _ (after_mono_all.1 bd e x hx))

/-- the surely-declared names are among the names freeze has bound -/
theorem ok_sub_all :
    (∀ S bd e, ∀ S', okExpr S bd e = some S' → (∀ x ∈ S, x ∈ bd) → ∀ x ∈ S', x ∈ afterExpr bd e) ∧
    (∀ (_S _bd : List String) (_arms : List SwitchArm), True) ∧
    (∀ (_S _bd : List String) (_b : ForBody), True) ∧
    (∀ S bd its, ∀ S', okIts S bd its = some S' → (∀ x ∈ S, x ∈ bd) → ∀ x ∈ S', x ∈ afterIts bd its) ∧
    (∀ S bd o, ∀ S', okOpt S bd o = some S' → (∀ x ∈ S, x ∈ bd) → ∀ x ∈ S', x ∈ afterOpt bd o) ∧
    (∀ S bd es, ∀ S', okList S bd es = some S' → (∀ x ∈ S, x ∈ bd) → ∀ x ∈ S', x ∈ afterList bd es) := by
  have hm := after_mono_all
  apply okExpr.mutual_induct
    (motive_1 := fun S bd e => ∀ S', okExpr S bd e = some S' → (∀ x ∈ S, x ∈ bd) → ∀ x ∈ S', x ∈ afterExpr bd e)
    (motive_2 := fun _ _ _ => True)
    (motive_3 := fun _ _ _ => True)
    (motive_4 := fun S bd its => ∀ S', okIts S bd its = some S' → (∀ x ∈ S, x ∈ bd) → ∀ x ∈ S', x ∈ afterIts bd its)
    (motive_5 := fun S bd o => ∀ S', okOpt S bd o = some S' → (∀ x ∈ S, x ∈ bd) → ∀ x ∈ S', x ∈ afterOpt bd o)
    (motive_6 := fun S bd es => ∀ S', okList S bd es = some S' → (∀ x ∈ S, x ∈ bd) → ∀ x ∈ S', x ∈ afterList bd es)
  all_goals
    intros
    first
      | trivial
      | (rename_i h hS x hx
         simp only [okExpr, okList, okOpt, okIts, afterExpr, afterList, afterOpt, afterIts, *] at h ⊢
         grind)

end Noulith.C17Preserve
