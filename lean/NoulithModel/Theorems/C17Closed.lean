/-
C17 (supplement) — structural theorems about the Impl model of `freeze` (Impl/Freeze.lean):

a. frozen code is CLOSED: re-freezing the output of a successful freeze (same bound set, ANY lookup
   function, any table) changes nothing and resolves nothing — no free identifier is left, so nothing is
   looked up later ("free variables are resolved once, at freeze time");
b. a freeze only ever adds bound names and only ever appends to the table (earlier `Expr.frozen i`
   references stay valid);
c. an independent syntactic characterisation of failure: `freezeExpr` fails iff a walk of the syntax in
   freeze's order, with freeze's binding discipline, meets a free identifier unknown to `look` or an
   assignment / op-assignment to a name that is not bound (`Stuck`);
d. semantic preservation against Impl/CoreEval for the binder-free, call-free fragment.

All the mutual statements are proved with the functional induction principle `freezeExpr.mutual_induct`
(one case per path through the seven mutually recursive functions).
-/
import NoulithModel.Impl.CoreEval

namespace Noulith.C17Closed
open Noulith Noulith.Core

variable {V V' : Type}

/-! ## b. the bound set and the table only grow -/

theorem bound_mono_all (look : String → Option V) :
    (∀ s e, ∀ e' s', freezeExpr look s e = .ok (e', s') → ∀ x ∈ s.bound, x ∈ s'.bound) ∧
    (∀ s arms, ∀ arms' s', freezeArms look s arms = .ok (arms', s') → ∀ x ∈ s.bound, x ∈ s'.bound) ∧
    (∀ s ps, ∀ ps' s', freezeParams look s ps = .ok (ps', s') → ∀ x ∈ s.bound, x ∈ s'.bound) ∧
    (∀ s o, ∀ o' s', freezeOpt look s o = .ok (o', s') → ∀ x ∈ s.bound, x ∈ s'.bound) ∧
    (∀ s b, ∀ b' s', freezeBody look s b = .ok (b', s') → ∀ x ∈ s.bound, x ∈ s'.bound) ∧
    (∀ s its, ∀ its' s', freezeIts look s its = .ok (its', s') → ∀ x ∈ s.bound, x ∈ s'.bound) ∧
    (∀ s es, ∀ es' s', freezeList look s es = .ok (es', s') → ∀ x ∈ s.bound, x ∈ s'.bound) := by
  apply freezeExpr.mutual_induct look
    (motive_1 := fun s e => ∀ e' s', freezeExpr look s e = .ok (e', s') → ∀ x ∈ s.bound, x ∈ s'.bound)
    (motive_2 := fun s arms => ∀ arms' s', freezeArms look s arms = .ok (arms', s') → ∀ x ∈ s.bound, x ∈ s'.bound)
    (motive_3 := fun s ps => ∀ ps' s', freezeParams look s ps = .ok (ps', s') → ∀ x ∈ s.bound, x ∈ s'.bound)
    (motive_4 := fun s o => ∀ o' s', freezeOpt look s o = .ok (o', s') → ∀ x ∈ s.bound, x ∈ s'.bound)
    (motive_5 := fun s b => ∀ b' s', freezeBody look s b = .ok (b', s') → ∀ x ∈ s.bound, x ∈ s'.bound)
    (motive_6 := fun s its => ∀ its' s', freezeIts look s its = .ok (its', s') → ∀ x ∈ s.bound, x ∈ s'.bound)
    (motive_7 := fun s es => ∀ es' s', freezeList look s es = .ok (es', s') → ∀ x ∈ s.bound, x ∈ s'.bound)
  all_goals
    intros
    rename_i h x hx
    simp only [freezeExpr, freezeArms, freezeList, freezeOpt, freezeIts, freezeParams, freezeBody, *] at h
    grind

/-- names bound before a freeze are still bound after it (for what follows in the same scope) -/
theorem freeze_bound_monotone (look : String → Option V) (s s' : FState V) (e e' : Expr)
    (h : freezeExpr look s e = .ok (e', s')) : ∀ x, x ∈ s.bound → x ∈ s'.bound :=
  (bound_mono_all look).1 s e e' s' h

theorem freezeList_bound_monotone (look : String → Option V) (s s' : FState V) (es es' : List Expr)
    (h : freezeList look s es = .ok (es', s')) : ∀ x, x ∈ s.bound → x ∈ s'.bound :=
  (bound_mono_all look).2.2.2.2.2.2 s es es' s' h

theorem tab_prefix_all (look : String → Option V) :
    (∀ s e, ∀ e' s', freezeExpr look s e = .ok (e', s') → s.tab <+: s'.tab) ∧
    (∀ s arms, ∀ arms' s', freezeArms look s arms = .ok (arms', s') → s.tab <+: s'.tab) ∧
    (∀ s ps, ∀ ps' s', freezeParams look s ps = .ok (ps', s') → s.tab <+: s'.tab) ∧
    (∀ s o, ∀ o' s', freezeOpt look s o = .ok (o', s') → s.tab <+: s'.tab) ∧
    (∀ s b, ∀ b' s', freezeBody look s b = .ok (b', s') → s.tab <+: s'.tab) ∧
    (∀ s its, ∀ its' s', freezeIts look s its = .ok (its', s') → s.tab <+: s'.tab) ∧
    (∀ s es, ∀ es' s', freezeList look s es = .ok (es', s') → s.tab <+: s'.tab) := by
  apply freezeExpr.mutual_induct look
    (motive_1 := fun s e => ∀ e' s', freezeExpr look s e = .ok (e', s') → s.tab <+: s'.tab)
    (motive_2 := fun s arms => ∀ arms' s', freezeArms look s arms = .ok (arms', s') → s.tab <+: s'.tab)
    (motive_3 := fun s ps => ∀ ps' s', freezeParams look s ps = .ok (ps', s') → s.tab <+: s'.tab)
    (motive_4 := fun s o => ∀ o' s', freezeOpt look s o = .ok (o', s') → s.tab <+: s'.tab)
    (motive_5 := fun s b => ∀ b' s', freezeBody look s b = .ok (b', s') → s.tab <+: s'.tab)
    (motive_6 := fun s its => ∀ its' s', freezeIts look s its = .ok (its', s') → s.tab <+: s'.tab)
    (motive_7 := fun s es => ∀ es' s', freezeList look s es = .ok (es', s') → s.tab <+: s'.tab)
  all_goals
    intros
    rename_i h
    simp only [freezeExpr, freezeArms, freezeList, freezeOpt, freezeIts, freezeParams, freezeBody, *] at h
    grind [List.IsPrefix.trans, List.prefix_append, List.prefix_refl]

/-- the table only grows, by appending: every `Expr.frozen i` produced earlier stays valid -/
theorem freeze_tab_extends (look : String → Option V) (s s' : FState V) (e e' : Expr)
    (h : freezeExpr look s e = .ok (e', s')) : ∃ extra, s'.tab = s.tab ++ extra := by
  obtain ⟨extra, hx⟩ := (tab_prefix_all look).1 s e e' s' h
  exact ⟨extra, hx.symm⟩

theorem freezeList_tab_extends (look : String → Option V) (s s' : FState V) (es es' : List Expr)
    (h : freezeList look s es = .ok (es', s')) : ∃ extra, s'.tab = s.tab ++ extra := by
  obtain ⟨extra, hx⟩ := (tab_prefix_all look).2.2.2.2.2.2 s es es' s' h
  exact ⟨extra, hx.symm⟩

/-- an index that was valid in the table before the freeze denotes the same value afterwards -/
theorem freeze_keeps_earlier_entries (look : String → Option V) (s s' : FState V) (e e' : Expr)
    (h : freezeExpr look s e = .ok (e', s')) (i : Nat) (v : V) (hi : s.tab[i]? = some v) :
    s'.tab[i]? = some v := by
  obtain ⟨extra, hx⟩ := freeze_tab_extends look s s' e e' h
  rw [hx]
  exact List.getElem?_append_left (by
    rcases Nat.lt_or_ge i s.tab.length with hl | hl
    · exact hl
    · rw [List.getElem?_eq_none hl] at hi; exact absurd hi (by simp)) ▸ hi

/-! ## a. frozen code is closed: re-freezing it is the identity and resolves nothing -/

/-- `freezeParams` rewrites the annotations and the defaults only -/
theorem freezeParams_names (look : String → Option V) (ps : List Param) :
    ∀ (s : FState V) ps' s', freezeParams look s ps = .ok (ps', s') → ps'.map Param.name = ps.map Param.name := by
  induction ps with
  | nil => intro s ps' s' h; simp only [freezeParams, Except.ok.injEq, Prod.mk.injEq] at h; rw [← h.1]
  | cons p rest ih =>
    intro s ps' s' h
    obtain ⟨nm, d, sp, a⟩ := p
    simp only [freezeParams] at h
    split at h
    · exact absurd h (by simp)
    · split at h
      · exact absurd h (by simp)
      · split at h
        · exact absurd h (by simp)
        · rename_i heq
          simp only [Except.ok.injEq, Prod.mk.injEq] at h
          rw [← h.1]
          simp only [List.map_cons, Param.name, ih _ _ _ heq]

theorem closed_all (look : String → Option V) (look' : String → Option V') :
    (∀ s e, ∀ e' s', freezeExpr look s e = .ok (e', s') → 
      ∀ t, freezeExpr look' ⟨s.bound, t⟩ e' = .ok (e', ⟨s'.bound, t⟩)) ∧
    (∀ s arms, ∀ arms' s', freezeArms look s arms = .ok (arms', s') → 
      ∀ t, freezeArms look' ⟨s.bound, t⟩ arms' = .ok (arms', ⟨s'.bound, t⟩)) ∧
    (∀ s ps, ∀ ps' s', freezeParams look s ps = .ok (ps', s') → 
      ∀ t, freezeParams look' ⟨s.bound, t⟩ ps' = .ok (ps', ⟨s'.bound, t⟩)) ∧
    (∀ s o, ∀ o' s', freezeOpt look s o = .ok (o', s') → 
      ∀ t, freezeOpt look' ⟨s.bound, t⟩ o' = .ok (o', ⟨s'.bound, t⟩)) ∧
    (∀ s b, ∀ b' s', freezeBody look s b = .ok (b', s') → 
      ∀ t, freezeBody look' ⟨s.bound, t⟩ b' = .ok (b', ⟨s'.bound, t⟩)) ∧
    (∀ s its, ∀ its' s', freezeIts look s its = .ok (its', s') → 
      ∀ t, freezeIts look' ⟨s.bound, t⟩ its' = .ok (its', ⟨s'.bound, t⟩)) ∧
    (∀ s es, ∀ es' s', freezeList look s es = .ok (es', s') → 
      ∀ t, freezeList look' ⟨s.bound, t⟩ es' = .ok (es', ⟨s'.bound, t⟩)) := by
  apply freezeExpr.mutual_induct look
    (motive_1 := fun s e => ∀ e' s', freezeExpr look s e = .ok (e', s') → 
      ∀ t, freezeExpr look' ⟨s.bound, t⟩ e' = .ok (e', ⟨s'.bound, t⟩))
    (motive_2 := fun s arms => ∀ arms' s', freezeArms look s arms = .ok (arms', s') → 
      ∀ t, freezeArms look' ⟨s.bound, t⟩ arms' = .ok (arms', ⟨s'.bound, t⟩))
    (motive_3 := fun s ps => ∀ ps' s', freezeParams look s ps = .ok (ps', s') → 
      ∀ t, freezeParams look' ⟨s.bound, t⟩ ps' = .ok (ps', ⟨s'.bound, t⟩))
    (motive_4 := fun s o => ∀ o' s', freezeOpt look s o = .ok (o', s') → 
      ∀ t, freezeOpt look' ⟨s.bound, t⟩ o' = .ok (o', ⟨s'.bound, t⟩))
    (motive_5 := fun s b => ∀ b' s', freezeBody look s b = .ok (b', s') → 
      ∀ t, freezeBody look' ⟨s.bound, t⟩ b' = .ok (b', ⟨s'.bound, t⟩))
    (motive_6 := fun s its => ∀ its' s', freezeIts look s its = .ok (its', s') → 
      ∀ t, freezeIts look' ⟨s.bound, t⟩ its' = .ok (its', ⟨s'.bound, t⟩))
    (motive_7 := fun s es => ∀ es' s', freezeList look s es = .ok (es', s') → 
      ∀ t, freezeList look' ⟨s.bound, t⟩ es' = .ok (es', ⟨s'.bound, t⟩))
  all_goals
    intros
    rename_i h t
    try dsimp +zetaDelta only at *
    simp only [freezeExpr, freezeArms, freezeList, freezeOpt, freezeIts, freezeParams, freezeBody, ↓reduceIte,
      Bool.false_eq_true, *] at h
    first
      | (simp only [reduceCtorEq] at h; done)
      | (simp only [Except.ok.injEq, Prod.mk.injEq] at h
         obtain ⟨rfl, rfl⟩ := h
         simp only [freezeExpr, freezeArms, freezeList, freezeOpt, freezeIts, freezeParams, freezeBody]
         first | done | (simp_all; done))
      -- the successful `lambda` case: the re-freeze binds the names of the REWRITTEN parameter list,
      -- which are the names of the original one (the hypothesis is found by its shape, not its position)
      | (simp only [Except.ok.injEq, Prod.mk.injEq] at h
         obtain ⟨rfl, rfl⟩ := h
         have hn := freezeParams_names look _ _ _ _ ‹freezeParams look _ _ = Except.ok _›
         simp only [freezeExpr, hn]
         simp_all; done)

/-- **frozen code is closed.**  If `freeze` succeeded, freezing its output again — with the same bound
set but ANY lookup function (even one that knows no name at all) and any table — succeeds, returns the
same tree, and does not touch the table: no free identifier is left in frozen code, so nothing can be
resolved later than freeze time. -/
theorem freeze_closed (look : String → Option V) (look' : String → Option V') (s s' : FState V)
    (e e' : Expr) (h : freezeExpr look s e = .ok (e', s')) (t : List V') :
    freezeExpr look' { bound := s.bound, tab := t } e' = .ok (e', { bound := s'.bound, tab := t }) :=
  (closed_all look look').1 s e e' s' h t

/-- in particular with the lookup that knows nothing: the frozen tree has no free identifier -/
theorem freeze_leaves_no_free_identifier (look : String → Option V) (s s' : FState V) (e e' : Expr)
    (h : freezeExpr look s e = .ok (e', s')) :
    freezeExpr (fun _ => (none : Option Empty)) { bound := s.bound, tab := [] } e' =
      .ok (e', { bound := s'.bound, tab := [] }) :=
  freeze_closed look _ s s' e e' h []

/-- **idempotence**: freezing frozen code (same scope) is the identity on the tree and on the state -/
theorem freeze_idempotent (look : String → Option V) (s s' : FState V) (e e' : Expr)
    (h : freezeExpr look s e = .ok (e', s')) :
    freezeExpr look { s with tab := s'.tab } e' = .ok (e', s') :=
  freeze_closed look look s s' e e' h s'.tab

theorem freezeList_closed (look : String → Option V) (look' : String → Option V') (s s' : FState V)
    (es es' : List Expr) (h : freezeList look s es = .ok (es', s')) (t : List V') :
    freezeList look' { bound := s.bound, tab := t } es' = .ok (es', { bound := s'.bound, tab := t }) :=
  (closed_all look look').2.2.2.2.2.2 s es es' s' h t

theorem freezeBody_closed (look : String → Option V) (look' : String → Option V') (s s' : FState V)
    (b b' : ForBody) (h : freezeBody look s b = .ok (b', s')) (t : List V') :
    freezeBody look' { bound := s.bound, tab := t } b' = .ok (b', { bound := s'.bound, tab := t }) :=
  (closed_all look look').2.2.2.2.1 s b b' s' h t

theorem freezeParams_closed (look : String → Option V) (look' : String → Option V') (s s' : FState V)
    (ps ps' : List Param) (h : freezeParams look s ps = .ok (ps', s')) (t : List V') :
    freezeParams look' { bound := s.bound, tab := t } ps' = .ok (ps', { bound := s'.bound, tab := t }) :=
  (closed_all look look').2.2.1 s ps ps' s' h t

theorem freezeOpt_closed (look : String → Option V) (look' : String → Option V') (s s' : FState V)
    (o o' : Option Expr) (h : freezeOpt look s o = .ok (o', s')) (t : List V') :
    freezeOpt look' { bound := s.bound, tab := t } o' = .ok (o', { bound := s'.bound, tab := t }) :=
  (closed_all look look').2.2.2.1 s o o' s' h t

theorem freezeIts_closed (look : String → Option V) (look' : String → Option V') (s s' : FState V)
    (its its' : List ForIt) (h : freezeIts look s its = .ok (its', s')) (t : List V') :
    freezeIts look' { bound := s.bound, tab := t } its' = .ok (its', { bound := s'.bound, tab := t }) :=
  (closed_all look look').2.2.2.2.2.1 s its its' s' h t

/-! ## c. when does a freeze fail?  An independent syntactic characterisation

`afterExpr bd e` is the bound set after walking `e` (which declarations of `e` persist in the enclosing
scope); `stuckExpr look bd e` walks `e` in freeze's order and reports whether it meets a free identifier
that `look` does not know, or an assignment / op-assignment to a name that is not bound.  Both are
written by recursion on the syntax only — neither calls `freezeExpr`. -/

mutual
  def afterExpr : List String → Expr → List String
    | bd, .null => bd
    | bd, .int _ => bd
    | bd, .str _ => bd
    | bd, .frozen _ => bd
    | bd, .ident _ => bd
    | bd, .cont _ => bd
    | bd, .evalSrc _ => bd
    | bd, .list xs => afterList bd xs
    | bd, .op _ a b => afterExpr (afterExpr bd a) b
    | bd, .index a b => afterExpr (afterExpr bd a) b
    | bd, .and_ a b => afterExpr (afterExpr bd a) b
    | bd, .or_ a b => afterExpr (afterExpr bd a) b
    | bd, .coalesce a b => afterExpr (afterExpr bd a) b
    | bd, .call f args => afterList (afterExpr bd f) args
    | bd, .seq xs _ => afterList bd xs
    | bd, .ite c t e => afterOpt (afterExpr (afterExpr bd c) t) e
    | bd, .while_ _ _ => bd
    | bd, .for_ _ _ => bd
    | bd, .declare p rhs => afterExpr (bd ++ Pat.idents p) rhs
    | bd, .assign _ rhs => afterExpr bd rhs
    | bd, .opassign _ _ rhs => afterExpr bd rhs
    | bd, .lambda _ _ => bd
    | bd, .brk _ e => afterOpt bd e
    | bd, .ret e => afterOpt bd e
    | bd, .throw_ e => afterExpr bd e
    | bd, .try_ b _ _ => afterExpr bd b
    | bd, .switch_ sc _ => afterExpr bd sc          -- nothing an arm binds survives the `switch`
    | bd, .freeze e => afterExpr bd e
  def afterList : List String → List Expr → List String
    | bd, [] => bd
    | bd, x :: xs => afterList (afterExpr bd x) xs
  def afterOpt : List String → Option Expr → List String
    | bd, none => bd
    | bd, some x => afterExpr bd x
  def afterIts : List String → List ForIt → List String
    | bd, [] => bd
    | bd, .guard g :: rest => afterIts (afterExpr bd g) rest
    | bd, .iter _ p e :: rest => afterIts (afterExpr bd e ++ Pat.idents p) rest
  def afterParams : List String → List Param → List String
    | bd, [] => bd
    | bd, .mk _ d _ a :: rest => afterParams (afterOpt (afterOpt bd a) d) rest
  def afterBody : List String → ForBody → List String
    | bd, .exec e => afterExpr bd e
    | bd, .yield e into => afterOpt (afterExpr bd e) into
    | bd, .yieldItem k v into => afterOpt (afterExpr (afterExpr bd k) v) into
end

mutual
  def stuckExpr (look : String → Option V) : List String → Expr → Bool
    | _, .null => false
    | _, .int _ => false
    | _, .str _ => false
    | _, .frozen _ => false
    | _, .cont _ => false
    | _, .evalSrc _ => false
    | bd, .ident x => !bd.contains x && (look x).isNone
    | bd, .list xs => stuckList look bd xs
    | bd, .op _ a b => stuckExpr look bd a || stuckExpr look (afterExpr bd a) b
    | bd, .index a b => stuckExpr look bd a || stuckExpr look (afterExpr bd a) b
    | bd, .and_ a b => stuckExpr look bd a || stuckExpr look (afterExpr bd a) b
    | bd, .or_ a b => stuckExpr look bd a || stuckExpr look (afterExpr bd a) b
    | bd, .coalesce a b => stuckExpr look bd a || stuckExpr look (afterExpr bd a) b
    | bd, .call f args => stuckExpr look bd f || stuckList look (afterExpr bd f) args
    | bd, .seq xs _ => stuckList look bd xs
    | bd, .ite c t e =>
      stuckExpr look bd c || stuckExpr look (afterExpr bd c) t ||
        stuckOpt look (afterExpr (afterExpr bd c) t) e
    | bd, .while_ c b => stuckExpr look bd c || stuckExpr look (afterExpr bd c) b
    | bd, .for_ its body => stuckIts look bd its || stuckBody look (afterIts bd its) body
    | bd, .declare p rhs => stuckExpr look (bd ++ Pat.idents p) rhs
    | bd, .assign x rhs => !bd.contains x || stuckExpr look bd rhs
    | bd, .opassign x _ rhs => !bd.contains x || stuckExpr look bd rhs
    | bd, .lambda ps body =>
      stuckParams look (bd ++ ps.map Param.name) ps ||
        stuckExpr look (afterParams (bd ++ ps.map Param.name) ps) body
    | bd, .brk _ e => stuckOpt look bd e
    | bd, .ret e => stuckOpt look bd e
    | bd, .throw_ e => stuckExpr look bd e
    | bd, .try_ b p c => stuckExpr look bd b || stuckExpr look (afterExpr bd b ++ Pat.idents p) c
    | bd, .switch_ sc arms => stuckExpr look bd sc || stuckArms look (afterExpr bd sc) arms
    | bd, .freeze e => stuckExpr look bd e
  /-- every arm is walked from the SAME bound set, extended by its own pattern only -/
  def stuckArms (look : String → Option V) : List String → List SwitchArm → Bool
    | _, [] => false
    | bd, .mk p body :: rest => stuckExpr look (bd ++ Pat.idents p) body || stuckArms look bd rest
  def stuckList (look : String → Option V) : List String → List Expr → Bool
    | _, [] => false
    | bd, x :: xs => stuckExpr look bd x || stuckList look (afterExpr bd x) xs
  def stuckOpt (look : String → Option V) : List String → Option Expr → Bool
    | _, none => false
    | bd, some x => stuckExpr look bd x
  def stuckIts (look : String → Option V) : List String → List ForIt → Bool
    | _, [] => false
    | bd, .guard g :: rest => stuckExpr look bd g || stuckIts look (afterExpr bd g) rest
    | bd, .iter _ p e :: rest => stuckExpr look bd e || stuckIts look (afterExpr bd e ++ Pat.idents p) rest
  /-- per parameter: its type annotation, then its default -/
  def stuckParams (look : String → Option V) : List String → List Param → Bool
    | _, [] => false
    | bd, .mk _ d _ a :: rest =>
      stuckOpt look bd a || stuckOpt look (afterOpt bd a) d ||
        stuckParams look (afterOpt (afterOpt bd a) d) rest
  def stuckBody (look : String → Option V) : List String → ForBody → Bool
    | bd, .exec e => stuckExpr look bd e
    | bd, .yield e into => stuckExpr look bd e || stuckOpt look (afterExpr bd e) into
    | bd, .yieldItem k v into =>
      stuckExpr look bd k || stuckExpr look (afterExpr bd k) v ||
        stuckOpt look (afterExpr (afterExpr bd k) v) into
end

theorem fails_iff_all (look : String → Option V) :
    (∀ s e, (∀ e' s', freezeExpr look s e = .ok (e', s') → s'.bound = afterExpr s.bound e) ∧
      ((∃ err, freezeExpr look s e = .error err) ↔ stuckExpr look s.bound e = true)) ∧
    (∀ s arms, (∀ e' s', freezeArms look s arms = .ok (e', s') → s'.bound = s.bound) ∧
      ((∃ err, freezeArms look s arms = .error err) ↔ stuckArms look s.bound arms = true)) ∧
    (∀ s ps, (∀ e' s', freezeParams look s ps = .ok (e', s') → s'.bound = afterParams s.bound ps) ∧
      ((∃ err, freezeParams look s ps = .error err) ↔ stuckParams look s.bound ps = true)) ∧
    (∀ s o, (∀ e' s', freezeOpt look s o = .ok (e', s') → s'.bound = afterOpt s.bound o) ∧
      ((∃ err, freezeOpt look s o = .error err) ↔ stuckOpt look s.bound o = true)) ∧
    (∀ s b, (∀ e' s', freezeBody look s b = .ok (e', s') → s'.bound = afterBody s.bound b) ∧
      ((∃ err, freezeBody look s b = .error err) ↔ stuckBody look s.bound b = true)) ∧
    (∀ s its, (∀ e' s', freezeIts look s its = .ok (e', s') → s'.bound = afterIts s.bound its) ∧
      ((∃ err, freezeIts look s its = .error err) ↔ stuckIts look s.bound its = true)) ∧
    (∀ s es, (∀ e' s', freezeList look s es = .ok (e', s') → s'.bound = afterList s.bound es) ∧
      ((∃ err, freezeList look s es = .error err) ↔ stuckList look s.bound es = true)) := by
  apply freezeExpr.mutual_induct look
    (motive_1 := fun s e => (∀ e' s', freezeExpr look s e = .ok (e', s') → s'.bound = afterExpr s.bound e) ∧
      ((∃ err, freezeExpr look s e = .error err) ↔ stuckExpr look s.bound e = true))
    (motive_2 := fun s arms => (∀ e' s', freezeArms look s arms = .ok (e', s') → s'.bound = s.bound) ∧
      ((∃ err, freezeArms look s arms = .error err) ↔ stuckArms look s.bound arms = true))
    (motive_3 := fun s ps => (∀ e' s', freezeParams look s ps = .ok (e', s') → s'.bound = afterParams s.bound ps) ∧
      ((∃ err, freezeParams look s ps = .error err) ↔ stuckParams look s.bound ps = true))
    (motive_4 := fun s o => (∀ e' s', freezeOpt look s o = .ok (e', s') → s'.bound = afterOpt s.bound o) ∧
      ((∃ err, freezeOpt look s o = .error err) ↔ stuckOpt look s.bound o = true))
    (motive_5 := fun s b => (∀ e' s', freezeBody look s b = .ok (e', s') → s'.bound = afterBody s.bound b) ∧
      ((∃ err, freezeBody look s b = .error err) ↔ stuckBody look s.bound b = true))
    (motive_6 := fun s its => (∀ e' s', freezeIts look s its = .ok (e', s') → s'.bound = afterIts s.bound its) ∧
      ((∃ err, freezeIts look s its = .error err) ↔ stuckIts look s.bound its = true))
    (motive_7 := fun s es => (∀ e' s', freezeList look s es = .ok (e', s') → s'.bound = afterList s.bound es) ∧
      ((∃ err, freezeList look s es = .error err) ↔ stuckList look s.bound es = true))
  all_goals
    intros
    try dsimp +zetaDelta only at *
    simp only [freezeExpr, freezeArms, freezeList, freezeOpt, freezeIts, freezeParams, freezeBody,
      afterExpr, afterList, afterOpt, afterIts, afterParams, afterBody,
      stuckExpr, stuckArms, stuckList, stuckOpt, stuckIts, stuckParams, stuckBody]
    simp_all

/-- `Stuck look bound e`: walking `e` in freeze's order, with freeze's binding discipline, meets a free
identifier unknown to `look`, or an assignment / op-assignment to a name that is not bound -/
def Stuck (look : String → Option V) (bound : List String) (e : Expr) : Prop := stuckExpr look bound e = true

instance (look : String → Option V) (bound : List String) (e : Expr) : Decidable (Stuck look bound e) :=
  inferInstanceAs (Decidable (_ = true))

/-- **characterisation of failure** (both directions, the full language) -/
theorem freeze_fails_iff (look : String → Option V) (s : FState V) (e : Expr) :
    (∃ err, freezeExpr look s e = .error err) ↔ Stuck look s.bound e :=
  ((fails_iff_all look).1 s e).2

/-- equivalently: a freeze succeeds exactly on the expressions that are not stuck -/
theorem freeze_succeeds_iff (look : String → Option V) (s : FState V) (e : Expr) :
    (∃ e' s', freezeExpr look s e = .ok (e', s')) ↔ ¬ Stuck look s.bound e := by
  rw [← freeze_fails_iff]
  cases h : freezeExpr look s e with
  | error err => simp
  | ok p => obtain ⟨e', s'⟩ := p; simp

/-- the bound set after a successful freeze is the syntactically determined one -/
theorem freeze_bound_eq_after (look : String → Option V) (s s' : FState V) (e e' : Expr)
    (h : freezeExpr look s e = .ok (e', s')) : s'.bound = afterExpr s.bound e :=
  ((fails_iff_all look).1 s e).1 e' s' h

/-! ### `switch`: arms are frozen independently of each other, and nothing leaks out -/

/-- pointwise relation of two lists (core Lean has no `List.Forall₂`) -/
inductive Forall₂ {α β : Type} (R : α → β → Prop) : List α → List β → Prop where
  | nil : Forall₂ R [] []
  | cons {a b as bs} : R a b → Forall₂ R as bs → Forall₂ R (a :: as) (b :: bs)

def armPat : SwitchArm → Pat
  | .mk p _ => p
def armBody : SwitchArm → Expr
  | .mk _ b => b

/-- **the arms of a `switch` are frozen independently.**  Freezing the arm list leaves the bound set as
it was, and arm `k` (pattern `p`) is frozen under exactly `s.bound ++ Pat.idents p` — a bound set in
which neither the patterns nor the bodies of the other arms occur (only the table is threaded from arm
to arm). -/
theorem freeze_switch_arms_independent (look : String → Option V) (arms : List SwitchArm) :
    ∀ (s : FState V) (arms' : List SwitchArm) (s' : FState V), freezeArms look s arms = .ok (arms', s') →
      s'.bound = s.bound ∧
      Forall₂ (fun a a' => armPat a' = armPat a ∧
        ∃ t s2, freezeExpr look { bound := s.bound ++ Pat.idents (armPat a), tab := t } (armBody a)
          = .ok (armBody a', s2)) arms arms' := by
  induction arms with
  | nil =>
    intro s arms' s' h
    simp only [freezeArms, Except.ok.injEq, Prod.mk.injEq] at h
    obtain ⟨rfl, rfl⟩ := h
    exact ⟨rfl, .nil⟩
  | cons a rest ih =>
    intro s arms' s' h
    obtain ⟨p, body⟩ := a
    simp only [freezeArms] at h
    split at h
    · exact absurd h (by simp)
    · rename_i body' s2 hbody
      split at h
      · exact absurd h (by simp)
      · rename_i rest' s3 hrest
        simp only [Except.ok.injEq, Prod.mk.injEq] at h
        obtain ⟨rfl, rfl⟩ := h
        obtain ⟨hb, hall⟩ := ih _ _ _ hrest
        exact ⟨hb, .cons ⟨rfl, s.tab, s2, hbody⟩ hall⟩

/-- the bound-set half on its own -/
theorem freezeArms_bound (look : String → Option V) (s s' : FState V) (arms arms' : List SwitchArm)
    (h : freezeArms look s arms = .ok (arms', s')) : s'.bound = s.bound :=
  (freeze_switch_arms_independent look arms s arms' s' h).1

/-- **`switch` does not leak**: the bound set after a `switch` is the bound set after its scrutinee —
whatever the arms' patterns bind, and whatever their bodies declare, is gone -/
theorem freeze_switch_does_not_leak (look : String → Option V) (s s' : FState V) (sc : Expr)
    (arms : List SwitchArm) (e' : Expr) (h : freezeExpr look s (.switch_ sc arms) = .ok (e', s')) :
    ∃ sc' s1, freezeExpr look s sc = .ok (sc', s1) ∧ s'.bound = s1.bound := by
  simp only [freezeExpr] at h
  split at h
  · exact absurd h (by simp)
  · rename_i sc' s1 hsc
    split at h
    · exact absurd h (by simp)
    · simp only [Except.ok.injEq, Prod.mk.injEq] at h
      exact ⟨sc', s1, hsc, by rw [← h.2]⟩

/-- the same in terms of the syntactic `afterExpr` -/
theorem freeze_switch_bound_eq_after_scrutinee (look : String → Option V) (s s' : FState V) (sc : Expr)
    (arms : List SwitchArm) (e' : Expr) (h : freezeExpr look s (.switch_ sc arms) = .ok (e', s')) :
    s'.bound = afterExpr s.bound sc := by
  obtain ⟨sc', s1, hsc, hb⟩ := freeze_switch_does_not_leak look s s' sc arms e' h
  rw [hb, freeze_bound_eq_after look s s1 sc sc' hsc]

/-- the walk depends on `look` only through WHICH names it knows -/
theorem stuck_congr_all (look : String → Option V) (look' : String → Option V')
    (hl : ∀ x, (look x).isNone = (look' x).isNone) :
    (∀ bd e, stuckExpr look bd e = stuckExpr look' bd e) ∧
    (∀ bd arms, stuckArms look bd arms = stuckArms look' bd arms) ∧
    (∀ bd ps, stuckParams look bd ps = stuckParams look' bd ps) ∧
    (∀ bd o, stuckOpt look bd o = stuckOpt look' bd o) ∧
    (∀ bd b, stuckBody look bd b = stuckBody look' bd b) ∧
    (∀ bd its, stuckIts look bd its = stuckIts look' bd its) ∧
    (∀ bd es, stuckList look bd es = stuckList look' bd es) := by
  apply stuckExpr.mutual_induct
    (motive_1 := fun bd e => stuckExpr look bd e = stuckExpr look' bd e)
    (motive_2 := fun bd arms => stuckArms look bd arms = stuckArms look' bd arms)
    (motive_3 := fun bd ps => stuckParams look bd ps = stuckParams look' bd ps)
    (motive_4 := fun bd o => stuckOpt look bd o = stuckOpt look' bd o)
    (motive_5 := fun bd b => stuckBody look bd b = stuckBody look' bd b)
    (motive_6 := fun bd its => stuckIts look bd its = stuckIts look' bd its)
    (motive_7 := fun bd es => stuckList look bd es = stuckList look' bd es)
  all_goals
    intros
    simp only [stuckExpr, stuckArms, stuckList, stuckOpt, stuckIts, stuckParams, stuckBody, *]

/-- whether a freeze fails does not depend on the table, and depends on `look` only through which names
it knows -/
theorem freeze_fails_indep (look : String → Option V) (look' : String → Option V')
    (hl : ∀ x, (look x).isNone = (look' x).isNone) (s : FState V) (s2 : FState V') (hb : s.bound = s2.bound)
    (e : Expr) :
    (∃ err, freezeExpr look s e = .error err) ↔ (∃ err, freezeExpr look' s2 e = .error err) := by
  rw [freeze_fails_iff, freeze_fails_iff, Stuck, Stuck, (stuck_congr_all look look' hl).1, hb]

/-! ### non-vacuity (the hypotheses above are satisfiable; the walk really separates the cases) -/

section Examples

/-- an outside scope that knows `o = 5` only -/
def lookO : String → Option Int := fun x => if x = "o" then some 5 else none

/-- `\a -> (b := a + o; b)` -/
def lamOk : Expr :=
  .lambda [.mk "a" none false none]
    (.seq [.declare (.ident "b") (.op "+" (.ident "a") (.ident "o")), .ident "b"] false)

/-- its frozen form: `o` is replaced by table entry 0 -/
def lamOkFrozen : Expr :=
  .lambda [.mk "a" none false none]
    (.seq [.declare (.ident "b") (.op "+" (.ident "a") (.frozen 0)), .ident "b"] false)

example : freezeExpr lookO ⟨[], []⟩ lamOk = .ok (lamOkFrozen, ⟨[], [5]⟩) := by
  simp [freezeExpr, freezeParams, freezeOpt, freezeList, lamOk, lamOkFrozen, lookO, Pat.idents, Param.name]

/-- so `freeze_closed` applies: re-freezing with a lookup that knows nothing is the identity -/
example : freezeExpr (fun _ => (none : Option Empty)) ⟨[], []⟩ lamOkFrozen = .ok (lamOkFrozen, ⟨[], []⟩) :=
  freeze_closed lookO _ ⟨[], []⟩ ⟨[], [5]⟩ lamOk lamOkFrozen
    (by simp [freezeExpr, freezeParams, freezeOpt, freezeList, lamOk, lamOkFrozen, lookO, Pat.idents, Param.name]) []

example : ¬ Stuck lookO [] lamOk := by decide
/-- an unknown free name, even in a dead branch -/
example : Stuck lookO [] (.ite (.int 0) (.ident "zz") (some .null)) := by decide
/-- assignment to an outer variable, although `look` knows it -/
example : Stuck lookO [] (.lambda [] (.assign "o" (.int 1))) := by decide
/-- a name is bound only AFTER its declaration in walk order… -/
example : Stuck lookO [] (.seq [.ident "q", .declare (.ident "q") (.int 1)] false) := by decide
example : ¬ Stuck lookO [] (.seq [.declare (.ident "q") (.int 1), .ident "q"] false) := by decide
/-- …bindings made inside `while` / `for` / lambda / `catch` do not leak… -/
example : Stuck lookO [] (.seq [.while_ (.int 0) (.declare (.ident "q") (.int 1)), .ident "q"] false) := by
  decide
/-- …and a `for` clause resolves its iteratee before binding its own names -/
example : Stuck lookO [] (.for_ [.iter .normal (.ident "x") (.ident "x")] (.exec .null)) := by decide
example : ¬ Stuck lookO [] (.for_ [.iter .normal (.ident "x") (.ident "o")] (.exec (.ident "x"))) := by decide

/-- parameter type annotations are walked too: an unknown name in an annotation makes the freeze fail,
a known one does not; the parameters themselves count as bound there (as in the code, although the
annotation is evaluated before they are bound) -/
example : Stuck lookO [] (.lambda [.mk "x" none false (some (.ident "zz"))] (.ident "x")) := by decide
example : ¬ Stuck lookO [] (.lambda [.mk "x" none false (some (.ident "o"))] (.ident "x")) := by decide
example : ¬ Stuck lookO [] (.lambda [.mk "x" none false (some (.ident "x"))] (.ident "x")) := by decide
/-- …per parameter the annotation comes before the default, and both before the body -/
example : Stuck lookO [] (.lambda [.mk "x" (some (.ident "o")) false (some (.ident "zz"))] (.ident "x")) := by decide
example : Stuck lookO [] (.lambda [.mk "x" (some (.ident "zz")) false (some (.ident "o"))] (.ident "x")) := by decide
/-- the frozen annotation is a table reference, and the result is closed -/
example : freezeExpr lookO ⟨[], []⟩ (.lambda [.mk "x" (some (.ident "o")) false (some (.ident "o"))] (.ident "x")) =
    .ok (.lambda [.mk "x" (some (.frozen 1)) false (some (.frozen 0))] (.ident "x"), ⟨[], [5, 5]⟩) := by
  simp [freezeExpr, freezeParams, freezeOpt, lookO, Param.name]
example : freezeExpr (fun _ => (none : Option Empty)) ⟨[], []⟩
      (.lambda [.mk "x" (some (.frozen 1)) false (some (.frozen 0))] (.ident "x")) =
    .ok (.lambda [.mk "x" (some (.frozen 1)) false (some (.frozen 0))] (.ident "x"), ⟨[], []⟩) :=
  freeze_closed lookO _ ⟨[], []⟩ ⟨[], [5, 5]⟩
    (.lambda [.mk "x" (some (.ident "o")) false (some (.ident "o"))] (.ident "x")) _
    (by simp [freezeExpr, freezeParams, freezeOpt, lookO, Param.name]) []

/-- `switch`: a name bound by one arm's pattern is not visible in the next arm, nor after the `switch`;
inside its own arm it is -/
example : ¬ Stuck lookO [] (.switch_ (.ident "o") [.mk (.ident "y") (.ident "y"), .mk .underscore (.int 0)]) := by
  decide
example : Stuck lookO [] (.switch_ (.ident "o") [.mk (.ident "y") (.int 0), .mk .underscore (.ident "y")]) := by
  decide
example : Stuck lookO [] (.seq [.switch_ (.ident "o") [.mk (.ident "y") (.int 0)], .ident "y"] false) := by
  decide
/-- non-vacuity of the `switch` theorems: a two-armed `switch` freezes, `o` is resolved in both places -/
example : freezeExpr lookO ⟨[], []⟩
      (.switch_ (.ident "o") [.mk (.ident "y") (.op "+" (.ident "y") (.ident "o")), .mk .underscore (.int 0)]) =
    .ok (.switch_ (.frozen 0) [.mk (.ident "y") (.op "+" (.ident "y") (.frozen 1)), .mk .underscore (.int 0)],
      ⟨[], [5, 5]⟩) := by
  simp [freezeExpr, freezeArms, lookO, Pat.idents]

end Examples

/-! ## d. semantic preservation on the binder-free, call-free fragment

For expressions built from `null`, integer and string literals, identifiers, list displays, builtin
operators, indexing, `and` / `or` / `??` and two-armed `if`, evaluating `freeze e` gives exactly what
evaluating `e` gives (same result — value, raised error or `fuelOut` —, same frames and output; only
the table of frozen values has grown), with ONE extra unit of fuel for the `freeze` node itself. -/

mutual
  /-- the fragment: no binder, no call, no assignment, no control transfer -/
  def pureExpr : Expr → Bool
    | .null => true
    | .int _ => true
    | .str _ => true
    | .ident _ => true
    | .list xs => pureList xs
    | .op _ a b => pureExpr a && pureExpr b
    | .index a b => pureExpr a && pureExpr b
    | .and_ a b => pureExpr a && pureExpr b
    | .or_ a b => pureExpr a && pureExpr b
    | .coalesce a b => pureExpr a && pureExpr b
    | .ite c t (some e) => pureExpr c && pureExpr t && pureExpr e
    | _ => false
  def pureList : List Expr → Bool
    | [] => true
    | x :: xs => pureExpr x && pureList xs
end

/-- the lookup `Expr.freeze` freezes against (as in `eval`): the scope chain, then the builtins -/
def lookOf (st : State) (env : Nat) : String → Option Val := fun x =>
  match st.lookup env x with
  | some v => some v
  | none => if builtinNames.contains x then some (.builtin x) else none

theorem eval_freeze_unfold (fuel : Nat) (st : State) (env : Nat) (e : Expr) :
    eval (fuel + 1) st env (.freeze e) =
      match freezeExpr (lookOf st env) { bound := [], tab := st.frozenTab } e with
      | .ok (e', fs) => eval fuel { st with frozenTab := fs.tab } env e'
      | .error _ => (.thrown .err, st) := by
  simp only [eval]
  rfl

/-- variable lookup does not look at the table of frozen values -/
theorem lookup_frozenTab (st : State) (T : List Val) (env : Nat) (x : String) :
    State.lookup { st with frozenTab := T } env x = st.lookup env x := rfl

/-- what preservation means for one expression: for every fuel, and every table that extends the one the
freeze produced, the original evaluates to `r` leaving the state alone, and the frozen form evaluates to
the same `r` -/
def PresE (st : State) (env : Nat) (e e' : Expr) (tab : List Val) : Prop :=
  ∀ fuel T, tab <+: T →
    ∃ r, eval fuel st env e = (r, st) ∧
      eval fuel { st with frozenTab := T } env e' = (r, { st with frozenTab := T })

def PresL (st : State) (env : Nat) (es es' : List Expr) (tab : List Val) : Prop :=
  ∀ fuel T, tab <+: T →
    ∃ r, evalList fuel st env es = (r, st) ∧
      evalList fuel { st with frozenTab := T } env es' = (r, { st with frozenTab := T })

/-- inversion of a successful freeze of a two-operand form -/
theorem freeze_two_inv (look : String → Option V) (s s' : FState V) (a b : Expr) (mk : Expr → Expr → Expr)
    (e' : Expr)
    (h : (match freezeExpr look s a with
          | .error e => .error e
          | .ok (a', s) =>
            match freezeExpr look s b with
            | .error e => .error e
            | .ok (b', s) => .ok (mk a' b', s)) = Except.ok (e', s')) :
    ∃ a' s1 b', freezeExpr look s a = .ok (a', s1) ∧ freezeExpr look s1 b = .ok (b', s') ∧ e' = mk a' b' := by
  split at h
  · exact absurd h (by simp)
  · rename_i a' s1 ha
    split at h
    · exact absurd h (by simp)
    · rename_i b' s2 hb
      simp only [Except.ok.injEq, Prod.mk.injEq] at h
      obtain ⟨rfl, rfl⟩ := h
      exact ⟨a', s1, b', ha, hb, rfl⟩

theorem pres_zero (st : State) (env : Nat) (e e' : Expr) (T : List Val) :
    ∃ r, eval 0 st env e = (r, st) ∧
      eval 0 { st with frozenTab := T } env e' = (r, { st with frozenTab := T }) :=
  ⟨.fuelOut, by simp only [eval], by simp only [eval]⟩

/-- the simultaneous statement for expressions and expression lists; `s.bound = []` because the fragment
has no binder, so every identifier is free -/
theorem pres_all (st : State) (env : Nat) :
    (∀ e, pureExpr e = true → ∀ (s : FState Val) e' s', s.bound = [] →
      freezeExpr (lookOf st env) s e = .ok (e', s') → s'.bound = [] ∧ PresE st env e e' s'.tab) ∧
    (∀ es, pureList es = true → ∀ (s : FState Val) es' s', s.bound = [] →
      freezeList (lookOf st env) s es = .ok (es', s') → s'.bound = [] ∧ PresL st env es es' s'.tab) := by
  have hpre := tab_prefix_all (lookOf st env)
  refine pureExpr.mutual_induct
    (motive_1 := fun e => pureExpr e = true → ∀ (s : FState Val) e' s', s.bound = [] →
      freezeExpr (lookOf st env) s e = .ok (e', s') → s'.bound = [] ∧ PresE st env e e' s'.tab)
    (motive_2 := fun es => pureList es = true → ∀ (s : FState Val) es' s', s.bound = [] →
      freezeList (lookOf st env) s es = .ok (es', s') → s'.bound = [] ∧ PresL st env es es' s'.tab)
    ?null ?int ?str ?ident ?list ?op ?index ?and_ ?or_ ?coalesce ?ite ?other ?nil ?cons
  case null =>
    intro _ s e' s' hb h
    simp only [freezeExpr, Except.ok.injEq, Prod.mk.injEq] at h
    obtain ⟨rfl, rfl⟩ := h
    refine ⟨hb, fun fuel T _ => ?_⟩
    cases fuel with
    | zero => exact pres_zero ..
    | succ f => exact ⟨.val .null, by simp only [eval], by simp only [eval]⟩
  case int =>
    intro n _ s e' s' hb h
    simp only [freezeExpr, Except.ok.injEq, Prod.mk.injEq] at h
    obtain ⟨rfl, rfl⟩ := h
    refine ⟨hb, fun fuel T _ => ?_⟩
    cases fuel with
    | zero => exact pres_zero ..
    | succ f => exact ⟨.val (.int n), by simp only [eval], by simp only [eval]⟩
  case str =>
    intro n _ s e' s' hb h
    simp only [freezeExpr, Except.ok.injEq, Prod.mk.injEq] at h
    obtain ⟨rfl, rfl⟩ := h
    refine ⟨hb, fun fuel T _ => ?_⟩
    cases fuel with
    | zero => exact pres_zero ..
    | succ f => exact ⟨.val (.str n), by simp only [eval], by simp only [eval]⟩
  case ident =>
    intro x _ s e' s' hb h
    simp only [freezeExpr, hb, List.contains_nil, Bool.false_eq_true, ↓reduceIte] at h
    split at h
    · rename_i v hv
      simp only [Except.ok.injEq, Prod.mk.injEq] at h
      obtain ⟨rfl, rfl⟩ := h
      refine ⟨rfl, fun fuel T hT => ?_⟩
      cases fuel with
      | zero => exact pres_zero ..
      | succ f =>
        have hTi : T[s.tab.length]? = some v := by
          obtain ⟨extra, rfl⟩ := hT
          simp
        refine ⟨.val v, ?_, by simp only [eval, hTi]⟩
        simp only [eval]
        simp only [lookOf] at hv
        split at hv
        · rename_i v' hv'
          simp only [Option.some.injEq] at hv; subst hv
          simp only [hv']
        · rename_i hv'
          simp only [hv']
          split at hv
          · rename_i hbi
            simp only [Option.some.injEq] at hv; subst hv
            simp only [hbi, ↓reduceIte]
          · exact absurd hv (by simp)
    · exact absurd h (by simp)
  case list =>
    intro xs ih hp s e' s' hb h
    simp only [pureExpr] at hp
    simp only [freezeExpr] at h
    split at h
    · rename_i xs' s1 hxs
      simp only [Except.ok.injEq, Prod.mk.injEq] at h
      obtain ⟨rfl, rfl⟩ := h
      obtain ⟨hb1, pl⟩ := ih hp s xs' s1 hb hxs
      refine ⟨hb1, fun fuel T hT => ?_⟩
      cases fuel with
      | zero => exact pres_zero ..
      | succ f =>
        obtain ⟨rl, h1, h2⟩ := pl f T hT
        simp only [eval, h1, h2]
        cases rl <;> exact ⟨_, rfl, rfl⟩
    · exact absurd h (by simp)
  case op =>
    intro name a b iha ihb hp s e' s' hb h
    simp only [pureExpr, Bool.and_eq_true] at hp
    simp only [freezeExpr] at h
    obtain ⟨a', s1, b', ha, hbz, rfl⟩ := freeze_two_inv _ _ _ _ _ (fun x y => Expr.op name x y) _ h
    obtain ⟨hb1, pa⟩ := iha hp.1 s a' s1 hb ha
    obtain ⟨hb2, pb⟩ := ihb hp.2 s1 b' s' hb1 hbz
    refine ⟨hb2, fun fuel T hT => ?_⟩
    cases fuel with
    | zero => exact pres_zero ..
    | succ f =>
      obtain ⟨ra, ha1, ha2⟩ := pa f T ((hpre.1 _ _ _ _ hbz).trans hT)
      obtain ⟨rb, hb1', hb2'⟩ := pb f T hT
      simp only [eval, ha1, ha2]
      cases ra <;> try exact ⟨_, rfl, rfl⟩
      simp only [hb1', hb2']
      cases rb <;> try exact ⟨_, rfl, rfl⟩
      rename_i va vb
      dsimp only
      cases applyOp name va vb <;> exact ⟨_, rfl, rfl⟩
  case index =>
    intro a b iha ihb hp s e' s' hb h
    simp only [pureExpr, Bool.and_eq_true] at hp
    simp only [freezeExpr] at h
    obtain ⟨a', s1, b', ha, hbz, rfl⟩ := freeze_two_inv _ _ _ _ _ (fun x y => Expr.index x y) _ h
    obtain ⟨hb1, pa⟩ := iha hp.1 s a' s1 hb ha
    obtain ⟨hb2, pb⟩ := ihb hp.2 s1 b' s' hb1 hbz
    refine ⟨hb2, fun fuel T hT => ?_⟩
    cases fuel with
    | zero => exact pres_zero ..
    | succ f =>
      obtain ⟨ra, ha1, ha2⟩ := pa f T ((hpre.1 _ _ _ _ hbz).trans hT)
      obtain ⟨rb, hb1', hb2'⟩ := pb f T hT
      simp only [eval, ha1, ha2]
      cases ra <;> try exact ⟨_, rfl, rfl⟩
      simp only [hb1', hb2']
      cases rb <;> try exact ⟨_, rfl, rfl⟩
      rename_i va vb
      dsimp only
      cases indexVal va vb <;> exact ⟨_, rfl, rfl⟩
  case and_ =>
    intro a b iha ihb hp s e' s' hb h
    simp only [pureExpr, Bool.and_eq_true] at hp
    simp only [freezeExpr] at h
    obtain ⟨a', s1, b', ha, hbz, rfl⟩ := freeze_two_inv _ _ _ _ _ (fun x y => Expr.and_ x y) _ h
    obtain ⟨hb1, pa⟩ := iha hp.1 s a' s1 hb ha
    obtain ⟨hb2, pb⟩ := ihb hp.2 s1 b' s' hb1 hbz
    refine ⟨hb2, fun fuel T hT => ?_⟩
    cases fuel with
    | zero => exact pres_zero ..
    | succ f =>
      obtain ⟨ra, ha1, ha2⟩ := pa f T ((hpre.1 _ _ _ _ hbz).trans hT)
      obtain ⟨rb, hb1', hb2'⟩ := pb f T hT
      simp only [eval, ha1, ha2]
      cases ra <;> try exact ⟨_, rfl, rfl⟩
      rename_i va
      dsimp only
      cases va.truthy
      · exact ⟨_, rfl, rfl⟩
      · simp only [↓reduceIte, hb1', hb2']; exact ⟨_, rfl, rfl⟩
  case or_ =>
    intro a b iha ihb hp s e' s' hb h
    simp only [pureExpr, Bool.and_eq_true] at hp
    simp only [freezeExpr] at h
    obtain ⟨a', s1, b', ha, hbz, rfl⟩ := freeze_two_inv _ _ _ _ _ (fun x y => Expr.or_ x y) _ h
    obtain ⟨hb1, pa⟩ := iha hp.1 s a' s1 hb ha
    obtain ⟨hb2, pb⟩ := ihb hp.2 s1 b' s' hb1 hbz
    refine ⟨hb2, fun fuel T hT => ?_⟩
    cases fuel with
    | zero => exact pres_zero ..
    | succ f =>
      obtain ⟨ra, ha1, ha2⟩ := pa f T ((hpre.1 _ _ _ _ hbz).trans hT)
      obtain ⟨rb, hb1', hb2'⟩ := pb f T hT
      simp only [eval, ha1, ha2]
      cases ra <;> try exact ⟨_, rfl, rfl⟩
      rename_i va
      dsimp only
      cases va.truthy
      · simp only [Bool.false_eq_true, ↓reduceIte, hb1', hb2']; exact ⟨_, rfl, rfl⟩
      · exact ⟨_, rfl, rfl⟩
  case coalesce =>
    intro a b iha ihb hp s e' s' hb h
    simp only [pureExpr, Bool.and_eq_true] at hp
    simp only [freezeExpr] at h
    obtain ⟨a', s1, b', ha, hbz, rfl⟩ := freeze_two_inv _ _ _ _ _ (fun x y => Expr.coalesce x y) _ h
    obtain ⟨hb1, pa⟩ := iha hp.1 s a' s1 hb ha
    obtain ⟨hb2, pb⟩ := ihb hp.2 s1 b' s' hb1 hbz
    refine ⟨hb2, fun fuel T hT => ?_⟩
    cases fuel with
    | zero => exact pres_zero ..
    | succ f =>
      obtain ⟨ra, ha1, ha2⟩ := pa f T ((hpre.1 _ _ _ _ hbz).trans hT)
      obtain ⟨rb, hb1', hb2'⟩ := pb f T hT
      simp only [eval, ha1, ha2]
      cases ra <;> try exact ⟨_, rfl, rfl⟩
      rename_i va
      cases va <;> try exact ⟨_, rfl, rfl⟩
      simp only [hb1', hb2']; exact ⟨_, rfl, rfl⟩
  case ite =>
    intro c t e ihc iht ihe hp s e' s' hb h
    simp only [pureExpr, Bool.and_eq_true] at hp
    simp only [freezeExpr, freezeOpt] at h
    split at h
    · exact absurd h (by simp)
    · rename_i c' s1 hc
      split at h
      · exact absurd h (by simp)
      · rename_i t' s2 ht
        split at h
        · exact absurd h (by simp)
        · rename_i eo s3 heo
          simp only [Except.ok.injEq, Prod.mk.injEq] at h
          obtain ⟨rfl, rfl⟩ := h
          split at heo
          · exact absurd heo (by simp)
          · rename_i x' s3' he
            simp only [Except.ok.injEq, Prod.mk.injEq] at heo
            obtain ⟨rfl, rfl⟩ := heo
            obtain ⟨hb1, pc⟩ := ihc hp.1.1 s c' s1 hb hc
            obtain ⟨hb2, pt⟩ := iht hp.1.2 s1 t' s2 hb1 ht
            obtain ⟨hb3, pe⟩ := ihe hp.2 s2 x' s3' hb2 he
            refine ⟨hb3, fun fuel T hT => ?_⟩
            cases fuel with
            | zero => exact pres_zero ..
            | succ f =>
              have hT2 := (hpre.1 _ _ _ _ he).trans hT
              have hT1 := (hpre.1 _ _ _ _ ht).trans hT2
              obtain ⟨rc, hc1, hc2⟩ := pc f T hT1
              obtain ⟨rt, ht1, ht2⟩ := pt f T hT2
              obtain ⟨re, he1, he2⟩ := pe f T hT
              simp only [eval, hc1, hc2]
              cases rc <;> try exact ⟨_, rfl, rfl⟩
              rename_i vc
              dsimp only
              cases vc.truthy
              · simp only [Bool.false_eq_true, ↓reduceIte, he1, he2]; exact ⟨_, rfl, rfl⟩
              · simp only [↓reduceIte, ht1, ht2]; exact ⟨_, rfl, rfl⟩
  case other =>
    intro t h1 h2 h3 h4 h5 h6 h7 h8 h9 h10 h11 hp
    rw [pureExpr] at hp
    · exact absurd hp (by simp)
    all_goals assumption
  case nil =>
    intro _ s es' s' hb h
    simp only [freezeList, Except.ok.injEq, Prod.mk.injEq] at h
    obtain ⟨rfl, rfl⟩ := h
    refine ⟨hb, fun fuel T _ => ?_⟩
    cases fuel with
    | zero => exact ⟨.stop .fuelOut, by simp only [evalList], by simp only [evalList]⟩
    | succ f => exact ⟨.ok [], by simp only [evalList], by simp only [evalList]⟩
  case cons =>
    intro x xs ihx ihxs hp s es' s' hb h
    simp only [pureList, Bool.and_eq_true] at hp
    simp only [freezeList] at h
    split at h
    · exact absurd h (by simp)
    · rename_i x' s1 hx
      split at h
      · exact absurd h (by simp)
      · rename_i xs' s2 hxs
        simp only [Except.ok.injEq, Prod.mk.injEq] at h
        obtain ⟨rfl, rfl⟩ := h
        obtain ⟨hb1, px⟩ := ihx hp.1 s x' s1 hb hx
        obtain ⟨hb2, pxs⟩ := ihxs hp.2 s1 xs' s2 hb1 hxs
        refine ⟨hb2, fun fuel T hT => ?_⟩
        cases fuel with
        | zero => exact ⟨.stop .fuelOut, by simp only [evalList], by simp only [evalList]⟩
        | succ f =>
          obtain ⟨rx, hx1, hx2⟩ := px f T ((hpre.2.2.2.2.2.2 _ _ _ _ hxs).trans hT)
          obtain ⟨rxs, hxs1, hxs2⟩ := pxs f T hT
          simp only [evalList, hx1, hx2]
          cases rx <;> try exact ⟨_, rfl, rfl⟩
          simp only [hxs1, hxs2]
          cases rxs <;> exact ⟨_, rfl, rfl⟩

/-- **freeze preserves meaning on the pure fragment** (full statement: result AND state).  If the walk
is not stuck (every identifier of `e` is known to the scope chain or is a builtin), then `freeze e` with
fuel `fuel + 1` returns exactly the result `e` returns with fuel `fuel`; frames and output are untouched
by both; only the table of frozen values has grown (by appending). -/
theorem freeze_preserves_pure_full (fuel : Nat) (st : State) (env : Nat) (e : Expr)
    (hp : pureExpr e = true) (hs : ¬ Stuck (lookOf st env) [] e) :
    ∃ T, st.frozenTab <+: T ∧
      eval (fuel + 1) st env (.freeze e) = ((eval fuel st env e).1, { st with frozenTab := T }) ∧
      (eval fuel st env e).2 = st := by
  obtain ⟨e', s', h⟩ := (freeze_succeeds_iff (lookOf st env) ⟨[], st.frozenTab⟩ e).2 hs
  obtain ⟨_, pe⟩ := (pres_all st env).1 e hp _ e' s' rfl h
  obtain ⟨r, h1, h2⟩ := pe fuel s'.tab (List.prefix_refl _)
  refine ⟨s'.tab, (tab_prefix_all _).1 _ _ _ _ h, ?_, by rw [h1]⟩
  rw [eval_freeze_unfold, h, h1]
  exact h2

/-- the form the brief asks for: same result, the `freeze` node costs one unit of fuel -/
theorem freeze_preserves_pure (fuel : Nat) (st : State) (env : Nat) (e : Expr)
    (hp : pureExpr e = true) (hs : ¬ Stuck (lookOf st env) [] e) :
    (eval (fuel + 1) st env (.freeze e)).1 = (eval fuel st env e).1 := by
  obtain ⟨T, _, h, _⟩ := freeze_preserves_pure_full fuel st env e hp hs
  rw [h]

/-- and when the walk IS stuck the freeze raises, before anything is evaluated -/
theorem freeze_stuck_raises (fuel : Nat) (st : State) (env : Nat) (e : Expr)
    (hs : Stuck (lookOf st env) [] e) : eval (fuel + 1) st env (.freeze e) = (.thrown .err, st) := by
  obtain ⟨err, h⟩ := (freeze_fails_iff (lookOf st env) ⟨[], st.frozenTab⟩ e).2 hs
  rw [eval_freeze_unfold, h]

/-- evaluation of the pure fragment leaves the state alone (any fuel) -/
theorem pure_eval_state (fuel : Nat) (st : State) (env : Nat) (e : Expr)
    (hp : pureExpr e = true) (hs : ¬ Stuck (lookOf st env) [] e) : (eval fuel st env e).2 = st :=
  (freeze_preserves_pure_full fuel st env e hp hs).choose_spec.2.2

mutual
  /-- the identifiers of a pure expression (all of them are free: the fragment has no binder) -/
  def pureIdents : Expr → List String
    | .ident x => [x]
    | .list xs => pureIdentsList xs
    | .op _ a b => pureIdents a ++ pureIdents b
    | .index a b => pureIdents a ++ pureIdents b
    | .and_ a b => pureIdents a ++ pureIdents b
    | .or_ a b => pureIdents a ++ pureIdents b
    | .coalesce a b => pureIdents a ++ pureIdents b
    | .ite c t (some e) => pureIdents c ++ pureIdents t ++ pureIdents e
    | _ => []
  def pureIdentsList : List Expr → List String
    | [] => []
    | x :: xs => pureIdents x ++ pureIdentsList xs
end

/-- on the pure fragment "stuck" is simply "some identifier is unknown" -/
theorem pure_stuck_iff_all (look : String → Option V) :
    (∀ e, pureExpr e = true → afterExpr [] e = [] ∧
      (stuckExpr look [] e = true ↔ ∃ x ∈ pureIdents e, look x = none)) ∧
    (∀ es, pureList es = true → afterList [] es = [] ∧
      (stuckList look [] es = true ↔ ∃ x ∈ pureIdentsList es, look x = none)) := by
  refine pureExpr.mutual_induct
    (motive_1 := fun e => pureExpr e = true → afterExpr [] e = [] ∧
      (stuckExpr look [] e = true ↔ ∃ x ∈ pureIdents e, look x = none))
    (motive_2 := fun es => pureList es = true → afterList [] es = [] ∧
      (stuckList look [] es = true ↔ ∃ x ∈ pureIdentsList es, look x = none))
    ?null ?int ?str ?ident ?list ?op ?index ?and_ ?or_ ?coalesce ?ite ?other ?nil ?cons
  case other =>
    intro t h1 h2 h3 h4 h5 h6 h7 h8 h9 h10 h11 hp
    rw [pureExpr] at hp
    · exact absurd hp (by simp)
    all_goals assumption
  all_goals
    intros
    simp_all [pureExpr, pureList, afterExpr, afterList, afterOpt, stuckExpr, stuckList, stuckOpt,
      pureIdents, pureIdentsList, or_and_right, exists_or, or_assoc]

/-- the hypothesis in the words of the brief: every identifier of `e` is found by `st.lookup env`
(or is a builtin) -/
theorem freeze_preserves_pure_of_idents (fuel : Nat) (st : State) (env : Nat) (e : Expr)
    (hp : pureExpr e = true)
    (hid : ∀ x ∈ pureIdents e, (st.lookup env x).isSome ∨ builtinNames.contains x = true) :
    (eval (fuel + 1) st env (.freeze e)).1 = (eval fuel st env e).1 := by
  apply freeze_preserves_pure fuel st env e hp
  intro hs
  obtain ⟨x, hx, hn⟩ := (((pure_stuck_iff_all (lookOf st env)).1 e hp).2).1 hs
  simp only [lookOf] at hn
  rcases hid x hx with h | h
  · cases hl : st.lookup env x with
    | none => rw [hl] at h; exact absurd h (by simp)
    | some v => rw [hl] at hn; exact absurd hn (by simp)
  · cases hl : st.lookup env x with
    | none => rw [hl] at hn; simp only [h, ↓reduceIte] at hn; exact absurd hn (by simp)
    | some v => rw [hl] at hn; exact absurd hn (by simp)

/-! ### non-vacuity for (d) -/
section ExamplesD

/-- a scope in which `o = 5` -/
def stO : State := { frames := #[{ vars := [("o", .int 5)], parent := none }], out := [] }

/-- `len and o + [1, 2][1]`  (a builtin name, an identifier from the scope, list display, index, `and`) -/
def pureSample : Expr :=
  .and_ (.ident "len") (.op "+" (.ident "o") (.index (.list [.int 1, .int 2]) (.int 1)))

example : pureExpr pureSample = true := by decide
example : ¬ Stuck (lookOf stO 0) [] pureSample := by decide +kernel
example : ∀ x ∈ pureIdents pureSample, (stO.lookup 0 x).isSome ∨ builtinNames.contains x = true := by
  decide +kernel
/-- both sides of the theorem really compute a value here (not `fuelOut`, not an error) -/
example : (eval 11 stO 0 (.freeze pureSample)).1 matches .val (.int 7) := by decide +kernel
example : (eval 10 stO 0 pureSample).1 matches .val (.int 7) := by decide +kernel
/-- with an unknown name the freeze raises although plain evaluation would short-circuit past it -/
example : Stuck (lookOf stO 0) [] (.and_ (.int 0) (.ident "zz")) := by decide +kernel
example : (eval 5 stO 0 (.freeze (.and_ (.int 0) (.ident "zz")))).1 matches .thrown .err := by decide +kernel
example : (eval 5 stO 0 (.and_ (.int 0) (.ident "zz"))).1 matches .val (.int 0) := by decide +kernel

end ExamplesD

end Noulith.C17Closed
