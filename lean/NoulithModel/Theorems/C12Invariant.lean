/-
C12, part 2 — the annotation invariant.

`annotation_invariant`: for every statement that writes to variables (declaration with annotation,
`=`, index assignment, destructuring assignment, operator-assignment, `every`-assignment, `every`
operator-assignment, `swap`) and every environment in which each variable in scope holds a value
of its declared type, if the statement completes without raising then each variable in scope again
holds a value of its declared type (`x is T`).  `annotation_invariant_history` lifts this to
histories of statements.

Method: every write `assign` / `assign_every` / `modify_every` perform goes through
`insert_declare`, `assign_respecting_type` or a checked store, each of which preserves any
invariant `Closed` under checked writes (`assign_wtp`, `assignEvery_wtp`, `modifyEvery_wtp`);
`drop_lhs` (unchecked null) only touches the variables the pattern names (`dropLhs_Q`), and the
final `assign` of an operator-assignment re-establishes exactly those (`assign_targets`).
-/
import NoulithModel.Theorems.C12

namespace Noulith.C12

/-- every cell whose name is not excepted by `P` holds a value of its declared type -/
def WTP (P : Nat → Prop) (e : Env) : Prop :=
  ∀ f ∈ e, ∀ c ∈ f, ¬ P c.name → isType c.ty c.val = .ok true

theorem wellTyped_iff (e : Env) : WellTyped e ↔ WTP (fun _ => False) e := by
  unfold WellTyped WTP; simp

/-- the cells of `f.set x nv`: old cells, or the first cell named `x` with its value replaced -/
theorem Frame.set_cells (f : Frame) (x : Nat) (nv : Val) :
    ∀ c' ∈ f.set x nv, c' ∈ f ∨ ∃ c, f.get? x = some c ∧ c' = { c with val := nv } := by
  induction f with
  | nil => intro c' h; simp [Frame.set] at h
  | cons c f ih =>
    intro c' h
    unfold Frame.set at h
    by_cases hx : (c.name == x) = true
    · simp only [hx, if_true] at h
      rcases List.mem_cons.mp h with rfl | h
      · right; exact ⟨c, by simp [Frame.get?, hx], rfl⟩
      · left; exact List.mem_cons_of_mem _ h
    · simp only [hx] at h
      rcases List.mem_cons.mp h with rfl | h
      · left; simp
      · rcases ih c' h with h1 | ⟨c0, h1, h2⟩
        · left; exact List.mem_cons_of_mem _ h1
        · right; exact ⟨c0, by simp [Frame.get?, hx, h1], h2⟩

theorem Frame.has_iff_get (f : Frame) (x : Nat) : f.has x = true ↔ ∃ c, f.get? x = some c := by
  induction f with
  | nil => simp [Frame.has, Frame.get?]
  | cons c f ih =>
    unfold Frame.has at ih ⊢
    by_cases hx : (c.name == x) = true
    · simp [Frame.get?, hx]
    · simp only [List.any_cons, hx, Bool.false_or, Frame.get?]
      simpa using ih

theorem Env.set_cells (e : Env) (x : Nat) (nv : Val) :
    ∀ f' ∈ e.set x nv, ∀ c' ∈ f', (∃ f ∈ e, c' ∈ f) ∨ ∃ c, e.get? x = some c ∧ c' = { c with val := nv } := by
  induction e with
  | nil => intro f' h; simp [Env.set] at h
  | cons f e ih =>
    intro f' h c' hc'
    unfold Env.set at h
    by_cases hf : f.has x = true
    · simp only [hf, if_true] at h
      rcases List.mem_cons.mp h with rfl | h
      · rcases Frame.set_cells f x nv c' hc' with h1 | ⟨c, h1, h2⟩
        · left; exact ⟨f, by simp, h1⟩
        · right; exact ⟨c, by simp [Env.get?, h1], h2⟩
      · left; exact ⟨f', by simp [h], hc'⟩
    · simp only [hf] at h
      rcases List.mem_cons.mp h with rfl | h
      · left; exact ⟨f', by simp, hc'⟩
      · have hnone : f.get? x = none := by
          cases hg : f.get? x with
          | none => rfl
          | some c => exact absurd ((Frame.has_iff_get f x).mpr ⟨c, hg⟩) hf
        rcases ih f' h c' hc' with ⟨f0, h1, h2⟩ | ⟨c, h1, h2⟩
        · left; exact ⟨f0, by simp [h1], h2⟩
        · right; exact ⟨c, by simp [Env.get?, hnone, h1], h2⟩

theorem WTP_set (P : Nat → Prop) (e : Env) (x : Nat) (nv : Val) (c : Cell)
    (h : WTP P e) (hg : e.get? x = some c) (hv : isType c.ty nv = .ok true) : WTP P (e.set x nv) := by
  intro f' hf' c' hc' hp
  rcases Env.set_cells e x nv f' hf' c' hc' with ⟨f, h1, h2⟩ | ⟨c0, h1, h2⟩
  · exact h f h1 c' h2 hp
  · rw [hg] at h1; simp at h1; subst h1; subst h2; exact hv

/-- a write that is *not* checked keeps everything outside the excepted names -/
theorem WTP_set_excepted (P : Nat → Prop) (e : Env) (x : Nat) (nv : Val)
    (h : WTP P e) (hx : ∀ c, e.get? x = some c → P c.name) : WTP P (e.set x nv) := by
  intro f' hf' c' hc' hp
  rcases Env.set_cells e x nv f' hf' c' hc' with ⟨f, h1, h2⟩ | ⟨c0, h1, h2⟩
  · exact h f h1 c' h2 hp
  · subst h2; exact absurd (hx c0 h1) hp

theorem WTP_insertDeclare (P : Nat → Prop) (e e' : Env) (x : Nat) (T : Ty) (v : Val)
    (h : WTP P e) (hr : insertDeclare e x T v = (e', .ok ())) : WTP P e' := by
  unfold insertDeclare at hr
  split at hr
  · next hty =>
    unfold Env.insert at hr
    cases e with
    | nil => simp at hr
    | cons f rest =>
      simp only [] at hr
      by_cases hf : f.has x = true
      · simp [hf] at hr
      · simp [hf] at hr
        subst hr
        intro f' hf' c' hc' hp
        rcases List.mem_cons.mp hf' with rfl | hf'
        · rcases List.mem_cons.mp hc' with rfl | hc'
          · exact hty
          · exact h f (by simp) c' hc' hp
        · exact h f' (by simp [hf']) c' hc' hp
  · simp at hr
  · simp at hr
  · simp at hr

theorem WTP_assignRespectingType (P : Nat → Prop) (e e' : Env) (x : Nat) (ixs : List Ix) (v : Val) (every : Bool)
    (h : WTP P e) (hr : assignRespectingType e x ixs v every = (e', .ok ())) : WTP P e' := by
  unfold assignRespectingType at hr
  split at hr
  · simp at hr
  · next c hg =>
    split at hr
    · split at hr
      · next hty => simp at hr; subst hr; exact WTP_set P e x v c h hg hty
      · simp at hr
      · simp at hr
      · simp at hr
    · split at hr
      · next nv hs =>
        split at hr
        · next hty => simp at hr; subst hr; exact WTP_set P e x nv c h hg hty
        · simp at hr
        · simp at hr
        · simp at hr
      · simp at hr
      · simp at hr

/-- an invariant of environments that every *checked* write preserves -/
structure Closed (I : Env → Prop) : Prop where
  decl : ∀ (e e' : Env) (x : Nat) (T : Ty) (v : Val), I e → insertDeclare e x T v = (e', .ok ()) → I e'
  asg : ∀ (e e' : Env) (x : Nat) (ixs : List Ix) (v : Val) (every : Bool), I e →
    assignRespectingType e x ixs v every = (e', .ok ()) → I e'
  setc : ∀ (e : Env) (x : Nat) (c : Cell) (nv : Val), I e → e.get? x = some c → isType c.ty nv = .ok true → I (e.set x nv)

theorem closed_WTP (I : Env → Prop) (hI : Closed I) : Closed (WTP P) :=
  ⟨fun e e' x T v h hr => WTP_insertDeclare P e e' x T v h hr,
   fun e e' x ixs v ev h hr => WTP_assignRespectingType P e e' x ixs v ev h hr,
   fun e x c nv h hg hv => WTP_set P e x nv c h hg hv⟩

/-- "if it completed without raising, the invariant holds of the result" -/
def OkI (I : Env → Prop) (r : Env × Out Unit) : Prop := r.2 = .ok () → I r.1

theorem okwtp_step (I : Env → Prop) (hI : Closed I) (r : Env × Out Unit) (k : Env → Env × Out Unit)
    (h : OkI I r) (hk : ∀ e', I e' → OkI I (k e')) : OkI I (stepItems r k) := by
  obtain ⟨e', o⟩ := r
  cases o with
  | ok u => exact hk e' (h rfl)
  | throw => intro h'; simp [stepItems] at h'
  | panic => intro h'; simp [stepItems] at h'

theorem okwtp_tail (I : Env → Prop) (hI : Closed I) (e : Env) (ss : List Pat) (rt' : Option Ty) (k : Nat) (items : List Val)
    (ih : ∀ arr : List Val, OkI I (assignItems e ss rt' arr)) :
    OkI I (match arrange ss k items with
      | .ok arranged => assignItems e ss rt' arranged
      | .throw => (e, .throw)
      | .panic => (e, .panic)) := by
  cases arrange ss k items with
  | ok arr => exact ih arr
  | throw => intro h'; simp at h'
  | panic => intro h'; simp at h'

mutual
/-- every write `assign` performs is type-checked: when it completes, every cell that was
well-typed before is well-typed after, and so is every cell it wrote or declared -/
theorem assign_wtp (I : Env → Prop) (hI : Closed I) (e : Env) : ∀ (p : Pat) (rt : Option Ty) (v : Val),
    orClean p = true → I e → OkI I (assign e p rt v)
  | .underscore, rt, v, _, h => by
      unfold assign
      cases rt with
      | none => intro _; exact h
      | some T => simp only []; split <;> intro h' <;> first | exact h | simp at h'
  | .ident x ixs, rt, v, _, h => by
      unfold assign
      cases rt with
      | some T =>
        cases ixs with
        | nil =>
          intro h'
          exact hI.decl e _ x T v h (Prod.ext rfl h')
        | cons i is => intro h'; simp at h'
      | none =>
        intro h'
        exact hI.asg e _ x ixs v _ h (Prod.ext rfl h')
  | .anno s ann, rt, v, hc, h => by
      unfold assign
      cases ann with
      | none => exact assign_wtp I hI e s _ v (by simpa [orClean] using hc) h
      | some t =>
        simp only []
        split
        · exact assign_wtp I hI e s _ v (by simpa [orClean] using hc) h
        · intro h'; simp at h'
        · intro h'; simp at h'
  | .withDefault s _, rt, v, hc, h => by
      unfold assign; exact assign_wtp I hI e s rt v (by simpa [orClean] using hc) h
  | .seq ss d, rt, v, hc, h => by
      have hss : orCleanL ss = true := by simpa [orClean] using hc
      unfold assign
      simp only []
      split
      · intro h'; simp at h'
      · intro h'; simp at h'
      · split
        · exact okwtp_tail I hI e ss _ _ _ (fun arr => assignItems_wtp I hI e ss _ arr hss h)
        · intro h'; simp at h'
  | .splat _, _, _, _, _ => by unfold assign; intro h'; simp at h'
  | .or a b, rt, v, hc, h => by
      unfold assign
      simp [orClean] at hc
      have ha := assign_wtp I hI e a rt v hc.1.2 h
      have hfr := assign_noIdents_env e a rt v hc.1.1
      rcases hr : assign e a rt v with ⟨e', o⟩
      rw [hr] at ha hfr
      simp at hfr
      subst hfr
      cases o with
      | ok u => intro _; exact ha rfl
      | throw => exact assign_wtp I hI e' b rt v hc.2 h
      | panic => intro h'; simp at h'
  | .and a b, rt, v, hc, h => by
      unfold assign
      simp [orClean] at hc
      have ha := assign_wtp I hI e a rt v hc.1 h
      rcases hr : assign e a rt v with ⟨e', o⟩
      rw [hr] at ha
      cases o with
      | ok u => exact assign_wtp I hI e' b rt v hc.2 (ha rfl)
      | throw => intro h'; simp at h'
      | panic => intro h'; simp at h'
  | .lit l, _, v, _, h => by
      unfold assign; split <;> intro h' <;> first | exact h | simp at h'
  | .destr f args, rt, v, hc, h => by
      have hss : orCleanL args = true := by simpa [orClean] using hc
      unfold assign
      split
      · split
        · exact okwtp_tail I hI e args _ _ _ (fun arr => assignItems_wtp I hI e args _ arr hss h)
        · intro h'; simp at h'
      · intro h'; simp at h'
      · intro h'; simp at h'
  | .destrStruct sid args, rt, v, hc, h => by
      have hss : orCleanL args = true := by simpa [orClean] using hc
      unfold assign
      split
      · split
        · exact okwtp_tail I hI e args _ _ _ (fun arr => assignItems_wtp I hI e args _ arr hss h)
        · intro h'; simp at h'
      · intro h'; simp at h'
theorem assignItems_wtp (I : Env → Prop) (hI : Closed I) (e : Env) : ∀ (ps : List Pat) (rt : Option Ty) (vs : List Val),
    orCleanL ps = true → I e → OkI I (assignItems e ps rt vs)
  | [], rt, vs, _, h => by rw [assignItems_nil]; intro _; exact h
  | _ :: _, _, [], _, _ => by rw [assignItems_cons_nil]; intro h'; simp at h'
  | p :: ps, rt, v :: vs, hc, h => by
      simp [orCleanL] at hc
      have rest : ∀ e', I e' → OkI I (assignItems e' ps rt vs) :=
        fun e' he' => assignItems_wtp I hI e' ps rt vs hc.2 he'
      cases p with
      | splat inner =>
        rw [assignItems_splat]
        exact okwtp_step I hI _ _ (assign_wtp I hI e inner rt v (by simpa [orClean] using hc.1) h) rest
      | anno q ann =>
        cases q with
        | splat inner =>
          rw [assignItems_annoSplat]
          apply okwtp_step I hI _ _ _ rest
          have hi : orClean inner = true := by simpa [orClean] using hc.1
          cases ann with
          | none => exact assign_wtp I hI e inner _ v hi h
          | some t =>
            simp only []
            split
            · exact assign_wtp I hI e inner _ v hi h
            · intro h'; simp at h'
            · intro h'; simp at h'
        | _ =>
          rw [assignItems_other _ _ _ _ _ _ (by simp [isSplatItem])]
          exact okwtp_step I hI _ _ (assign_wtp I hI e _ rt v hc.1 h) rest
      | _ =>
        rw [assignItems_other _ _ _ _ _ _ (by simp [isSplatItem])]
        exact okwtp_step I hI _ _ (assign_wtp I hI e _ rt v hc.1 h) rest
end

mutual
theorem assignEvery_wtp (I : Env → Prop) (hI : Closed I) (e : Env) : ∀ (p : Pat) (rt : Option Ty) (v : Val),
    orClean p = true → I e → OkI I (assignEvery e p rt v)
  | .underscore, _, _, _, h => by unfold assignEvery; intro _; exact h
  | .ident x ixs, rt, v, _, h => by
      unfold assignEvery
      cases rt with
      | some T =>
        cases ixs with
        | nil => intro h'; exact hI.decl e _ x T v h (Prod.ext rfl h')
        | cons i is => intro h'; simp at h'
      | none => intro h'; exact hI.asg e _ x ixs v _ h (Prod.ext rfl h')
  | .seq ps _, rt, v, hc, h => by
      unfold assignEvery
      exact assignEveryAll_wtp I hI e ps rt v (by simpa [orClean] using hc) h
  | .anno s ann, rt, v, hc, h => by
      unfold assignEvery
      cases ann with
      | none => exact assignEvery_wtp I hI e s _ v (by simpa [orClean] using hc) h
      | some t =>
        simp only []
        split
        · exact assignEvery_wtp I hI e s _ v (by simpa [orClean] using hc) h
        · intro h'; simp at h'
        · intro h'; simp at h'
  | .withDefault _ _, _, _, _, _ => by unfold assignEvery; intro h'; simp at h'
  | .splat _, _, _, _, _ => by unfold assignEvery; intro h'; simp at h'
  | .or _ _, _, _, _, _ => by unfold assignEvery; intro h'; simp at h'
  | .and a b, rt, v, hc, h => by
      unfold assignEvery
      simp [orClean] at hc
      have ha := assignEvery_wtp I hI e a rt v hc.1 h
      rcases hr : assignEvery e a rt v with ⟨e', o⟩
      rw [hr] at ha
      cases o with
      | ok u => exact assignEvery_wtp I hI e' b rt v hc.2 (ha rfl)
      | throw => intro h'; simp at h'
      | panic => intro h'; simp at h'
  | .lit l, _, v, _, h => by
      unfold assignEvery; split <;> intro h' <;> first | exact h | simp at h'
  | .destr f args, rt, v, hc, h => by
      have hss : orCleanL args = true := by simpa [orClean] using hc
      unfold assignEvery
      split
      · split
        · exact okwtp_tail I hI e args _ _ _ (fun arr => assignItems_wtp I hI e args _ arr hss h)
        · intro h'; simp at h'
      · intro h'; simp at h'
      · intro h'; simp at h'
  | .destrStruct _ _, _, _, _, _ => by unfold assignEvery; intro h'; simp at h'
theorem assignEveryAll_wtp (I : Env → Prop) (hI : Closed I) (e : Env) : ∀ (ps : List Pat) (rt : Option Ty) (v : Val),
    orCleanL ps = true → I e → OkI I (assignEveryAll e ps rt v)
  | [], _, _, _, h => by unfold assignEveryAll; intro _; exact h
  | p :: ps, rt, v, hc, h => by
      unfold assignEveryAll
      simp [orCleanL] at hc
      have ha := assignEvery_wtp I hI e p rt v hc.1 h
      rcases hr : assignEvery e p rt v with ⟨e', o⟩
      rw [hr] at ha
      cases o with
      | ok u => exact assignEveryAll_wtp I hI e' ps rt v hc.2 (ha rfl)
      | throw => intro h'; simp at h'
      | panic => intro h'; simp at h'
end

mutual
theorem modifyEvery_wtp (I : Env → Prop) (hI : Closed I) (g : Val → Out Val) (e : Env) : ∀ (p : Pat),
    I e → OkI I (modifyEvery g e p)
  | .underscore, _ => by unfold modifyEvery; intro h'; simp at h'
  | .ident x ixs, h => by
      unfold modifyEvery
      split
      · intro h'; simp at h'
      · next c hg =>
        split
        · split
          · next nv hf =>
            split
            · next hty => intro _; exact hI.setc e x c nv h hg hty
            · intro h'; simp at h'
            · intro h'; simp at h'
            · intro h'; simp at h'
          · intro h'; simp at h'
          · intro h'; simp at h'
        · split
          · intro h'; exact hI.asg e _ x [] _ _ h (Prod.ext rfl h')
          · intro h'; simp at h'
          · intro h'; simp at h'
  | .seq ps _, h => by unfold modifyEvery; exact modifyEveryAll_wtp I hI g e ps h
  | .anno _ _, _ => by unfold modifyEvery; intro h'; simp at h'
  | .withDefault _ _, _ => by unfold modifyEvery; intro h'; simp at h'
  | .splat _, _ => by unfold modifyEvery; intro h'; simp at h'
  | .or _ _, _ => by unfold modifyEvery; intro h'; simp at h'
  | .and a b, h => by
      unfold modifyEvery
      have ha := modifyEvery_wtp I hI g e a h
      rcases hr : modifyEvery g e a with ⟨e', o⟩
      rw [hr] at ha
      cases o with
      | ok u => exact modifyEvery_wtp I hI g e' b (ha rfl)
      | throw => intro h'; simp at h'
      | panic => intro h'; simp at h'
  | .lit _, _ => by unfold modifyEvery; intro h'; simp at h'
  | .destr _ _, _ => by unfold modifyEvery; intro h'; simp at h'
  | .destrStruct _ _, _ => by unfold modifyEvery; intro h'; simp at h'
theorem modifyEveryAll_wtp (I : Env → Prop) (hI : Closed I) (g : Val → Out Val) (e : Env) : ∀ (ps : List Pat),
    I e → OkI I (modifyEveryAll g e ps)
  | [], h => by unfold modifyEveryAll; intro _; exact h
  | p :: ps, h => by
      unfold modifyEveryAll
      have ha := modifyEvery_wtp I hI g e p h
      rcases hr : modifyEvery g e p with ⟨e', o⟩
      rw [hr] at ha
      cases o with
      | ok u => exact modifyEveryAll_wtp I hI g e' ps (ha rfl)
      | throw => intro h'; simp at h'
      | panic => intro h'; simp at h'
end

/-! ### the visible cell of a name -/

/-- the variable `x`, if it can be referred to, holds a value of its declared type (`x is T`) -/
def Q (x : Nat) (e : Env) : Prop := ∀ c, e.get? x = some c → isType c.ty c.val = .ok true

/-- `x is T` for every variable in scope -/
def VisWellTyped (e : Env) : Prop := ∀ x, Q x e

theorem Frame.getq_name (f : Frame) (x : Nat) (c : Cell) (h : f.get? x = some c) : c.name = x := by
  induction f with
  | nil => simp [Frame.get?] at h
  | cons c0 f ih =>
    unfold Frame.get? at h
    by_cases hx : (c0.name == x) = true
    · simp [hx] at h; subst h; simpa using hx
    · simp [hx] at h; exact ih h

theorem Frame.getq_mem (f : Frame) (x : Nat) (c : Cell) (h : f.get? x = some c) : c ∈ f := by
  induction f with
  | nil => simp [Frame.get?] at h
  | cons c0 f ih =>
    unfold Frame.get? at h
    by_cases hx : (c0.name == x) = true
    · simp [hx] at h; subst h; simp
    · simp [hx] at h; exact List.mem_cons_of_mem _ (ih h)

theorem Env.getq_mem (e : Env) (x : Nat) (c : Cell) (h : e.get? x = some c) : ∃ f ∈ e, c ∈ f := by
  induction e with
  | nil => simp [Env.get?] at h
  | cons f e ih =>
    unfold Env.get? at h
    cases hf : f.get? x with
    | some c0 => simp [hf] at h; subst h; exact ⟨f, by simp, Frame.getq_mem f x c0 hf⟩
    | none =>
      simp [hf] at h
      obtain ⟨f0, h1, h2⟩ := ih h
      exact ⟨f0, by simp [h1], h2⟩

theorem wellTyped_vis (e : Env) (h : WellTyped e) : VisWellTyped e := by
  intro x c hc
  obtain ⟨f, hf, hcf⟩ := Env.getq_mem e x c hc
  exact h f hf c hcf

theorem Frame.getq_set (f : Frame) (x y : Nat) (nv : Val) :
    (f.set y nv).get? x = if x = y then (f.get? y).map (fun c => { c with val := nv }) else f.get? x := by
  induction f with
  | nil => simp [Frame.set, Frame.get?]
  | cons c f ih =>
    unfold Frame.set
    by_cases hy : (c.name == y) = true
    · have hy' : c.name = y := by simpa using hy
      simp only [hy, if_true]
      by_cases hxy : x = y
      · subst hxy; simp [Frame.get?, hy]
      · have : ¬ (c.name == x) = true := by simp [hy']; exact fun h => hxy h.symm
        simp [Frame.get?, this, hxy]
    · simp only [hy]
      by_cases hxy : x = y
      · subst hxy
        simp [Frame.get?, hy, ih]
      · by_cases hcx : (c.name == x) = true
        · simp [Frame.get?, hcx, hxy]
        · simp [Frame.get?, hcx, hxy, ih]

theorem Env.getq_set (e : Env) (x y : Nat) (nv : Val) :
    (e.set y nv).get? x = if x = y then (e.get? y).map (fun c => { c with val := nv }) else e.get? x := by
  induction e with
  | nil => simp [Env.set, Env.get?]
  | cons f e ih =>
    unfold Env.set
    by_cases hf : f.has y = true
    · obtain ⟨c, hc⟩ := (Frame.has_iff_get f y).mp hf
      simp only [hf, if_true]
      by_cases hxy : x = y
      · subst hxy; simp [Env.get?, Frame.getq_set, hc]
      · simp [Env.get?, Frame.getq_set, hxy]
    · have hnone : f.get? y = none := by
        cases hg : f.get? y with
        | none => rfl
        | some c => exact absurd ((Frame.has_iff_get f y).mpr ⟨c, hg⟩) hf
      simp only [hf]
      by_cases hxy : x = y
      · subst hxy; simp [Env.get?, hnone, ih]
      · simp [Env.get?, ih, hxy]

theorem Q_set (x : Nat) (e : Env) (y : Nat) (c : Cell) (nv : Val)
    (h : Q x e) (hg : e.get? y = some c) (hv : isType c.ty nv = .ok true) : Q x (e.set y nv) := by
  intro c' hc'
  rw [Env.getq_set] at hc'
  by_cases hxy : x = y
  · simp [hxy, hg] at hc'; subst hc'; exact hv
  · simp [hxy] at hc'; exact h c' hc'

theorem Q_set_ne (x : Nat) (e : Env) (y : Nat) (nv : Val) (h : Q x e) (hxy : x ≠ y) : Q x (e.set y nv) := by
  intro c' hc'
  rw [Env.getq_set] at hc'
  simp [hxy] at hc'; exact h c' hc'

theorem closed_Q (x : Nat) : Closed (Q x) := by
  refine ⟨?_, ?_, ?_⟩
  · intro e e' y T v h hr
    unfold insertDeclare at hr
    split at hr
    · next hty =>
      unfold Env.insert at hr
      cases e with
      | nil => simp at hr
      | cons f rest =>
        simp only [] at hr
        by_cases hf : f.has y = true
        · simp [hf] at hr
        · simp [hf] at hr
          subst hr
          intro c' hc'
          by_cases hxy : y = x
          · subst hxy
            simp [Env.get?, Frame.get?] at hc'
            subst hc'; exact hty
          · have hne : ¬ (y == x) = true := by simpa using hxy
            simp only [Env.get?, Frame.get?, hne] at hc'
            exact h c' (by simpa [Env.get?] using hc')
    · simp at hr
    · simp at hr
    · simp at hr
  · intro e e' y ixs v ev h hr
    unfold assignRespectingType at hr
    split at hr
    · simp at hr
    · next c hg =>
      split at hr
      · split at hr
        · next hty => simp at hr; subst hr; exact Q_set x e y c v h hg hty
        · simp at hr
        · simp at hr
        · simp at hr
      · split at hr
        · next nv hs =>
          split at hr
          · next hty => simp at hr; subst hr; exact Q_set x e y c nv h hg hty
          · simp at hr
          · simp at hr
          · simp at hr
        · simp at hr
        · simp at hr
  · intro e y c nv h hg hv
    exact Q_set x e y c nv h hg hv

theorem closed_vis : Closed VisWellTyped :=
  ⟨fun e e' x T v h hr y => (closed_Q y).decl e e' x T v (h y) hr,
   fun e e' x ixs v ev h hr y => (closed_Q y).asg e e' x ixs v ev (h y) hr,
   fun e x c nv h hg hv y => (closed_Q y).setc e x c nv (h y) hg hv⟩

/-! ### operator-assignment: `drop_lhs` writes null unchecked, the final `assign` re-establishes the types -/

mutual
/-- the variables a pattern writes to -/
def idents : Pat → List Nat
  | .underscore => []
  | .ident x _ => [x]
  | .anno p _ => idents p
  | .withDefault p _ => idents p
  | .seq ps _ => identsL ps
  | .splat p => idents p
  | .or a b => idents a ++ idents b
  | .and a b => idents a ++ idents b
  | .lit _ => []
  | .destr _ ps => identsL ps
  | .destrStruct _ ps => identsL ps
def identsL : List Pat → List Nat
  | [] => []
  | p :: ps => idents p ++ identsL ps
end

mutual
theorem opLhsOk_orClean : ∀ p : Pat, opLhsOk p = true → orClean p = true
  | .underscore, _ => by simp [orClean]
  | .ident _ _, _ => by simp [orClean]
  | .seq ps _, h => by simp only [orClean]; exact opLhsOkAll_orCleanL ps (by simpa [opLhsOk] using h)
  | .anno _ _, h => by simp [opLhsOk] at h
  | .withDefault s _, h => by simp only [orClean]; exact opLhsOk_orClean s (by simpa [opLhsOk] using h)
  | .splat _, h => by simp [opLhsOk] at h
  | .or _ _, h => by simp [opLhsOk] at h
  | .and a b, h => by
      simp [opLhsOk] at h
      simp [orClean, opLhsOk_orClean a h.1, opLhsOk_orClean b h.2]
  | .lit _, _ => by simp [orClean]
  | .destr _ ps, h => by simp only [orClean]; exact opLhsOkAll_orCleanL ps (by simpa [opLhsOk] using h)
  | .destrStruct _ ps, h => by simp only [orClean]; exact opLhsOkAll_orCleanL ps (by simpa [opLhsOk] using h)
theorem opLhsOkAll_orCleanL : ∀ ps : List Pat, opLhsOkAll ps = true → orCleanL ps = true
  | [], _ => by simp [orCleanL]
  | p :: ps, h => by
      have h2 : opLhsOkAll ps = true := by
        cases p <;> simp [opLhsOkAll] at h <;> exact h.2
      have h1 : orClean p = true := by
        cases p with
        | splat inner =>
          simp [opLhsOkAll] at h
          simp only [orClean]; exact opLhsOk_orClean inner h.1
        | anno q t => simp [opLhsOkAll, opLhsOk] at h
        | or a b => simp [opLhsOkAll, opLhsOk] at h
        | _ => exact opLhsOk_orClean _ (by simp [opLhsOkAll] at h; exact h.1)
      simp [orCleanL, h1, opLhsOkAll_orCleanL ps h2]
end

theorem dropLhsAll_nil (e : Env) : dropLhsAll e [] = (e, .ok ()) := rfl
theorem dropLhsAll_splat (e : Env) (inner : Pat) (ps : List Pat) :
    dropLhsAll e (.splat inner :: ps) = stepItems (dropLhs e inner) (fun e' => dropLhsAll e' ps) := rfl
theorem dropLhsAll_other (e : Env) (p : Pat) (ps : List Pat) (h : ∀ q, p ≠ .splat q) :
    dropLhsAll e (p :: ps) = stepItems (dropLhs e p) (fun e' => dropLhsAll e' ps) := by
  cases p with
  | splat q => exact absurd rfl (h q)
  | _ => rfl

theorem dropIdent_Q (x : Nat) (e : Env) (y : Nat) (ixs : List Ix) (h : Q x e) (hxy : x ≠ y) :
    Q x (dropIdent e y ixs).1 := by
  unfold dropIdent
  split
  · exact h
  · split
    · exact Q_set_ne x e y _ h hxy
    · exact h
    · exact h

theorem stepItems_fst (I : Env → Prop) (r : Env × Out Unit) (k : Env → Env × Out Unit)
    (h : I r.1) (hk : ∀ e', I e' → I (k e').1) : I (stepItems r k).1 := by
  obtain ⟨e', o⟩ := r
  cases o with
  | ok u => exact hk e' h
  | throw => exact h
  | panic => exact h

mutual
/-- `drop_lhs` touches only the variables the pattern names -/
theorem dropLhs_Q (x : Nat) (e : Env) : ∀ p : Pat, x ∉ idents p → Q x e → Q x (dropLhs e p).1
  | .underscore, _, h => by unfold dropLhs; exact h
  | .ident y ixs, hx, h => by
      unfold dropLhs
      exact dropIdent_Q x e y ixs h (by simpa [idents] using hx)
  | .seq ps _, hx, h => by unfold dropLhs; exact dropLhsAll_Q x e ps (by simpa [idents] using hx) h
  | .anno _ _, _, h => by unfold dropLhs; exact h
  | .withDefault s _, hx, h => by unfold dropLhs; exact dropLhs_Q x e s (by simpa [idents] using hx) h
  | .splat _, _, h => by unfold dropLhs; exact h
  | .or _ _, _, h => by unfold dropLhs; exact h
  | .and a b, hx, h => by
      unfold dropLhs
      simp [idents] at hx
      have ha := dropLhs_Q x e a hx.1 h
      rcases hr : dropLhs e a with ⟨e', o⟩
      rw [hr] at ha
      cases o with
      | ok u => exact dropLhs_Q x e' b hx.2 ha
      | throw => exact ha
      | panic => exact ha
  | .lit _, _, h => by unfold dropLhs; exact h
  | .destr _ ps, hx, h => by unfold dropLhs; exact dropLhsAll_Q x e ps (by simpa [idents] using hx) h
  | .destrStruct _ ps, hx, h => by unfold dropLhs; exact dropLhsAll_Q x e ps (by simpa [idents] using hx) h
theorem dropLhsAll_Q (x : Nat) (e : Env) : ∀ ps : List Pat, x ∉ identsL ps → Q x e → Q x (dropLhsAll e ps).1
  | [], _, h => by rw [dropLhsAll_nil]; exact h
  | p :: ps, hx, h => by
      simp [identsL] at hx
      have rest : ∀ e', Q x e' → Q x (dropLhsAll e' ps).1 := fun e' he' => dropLhsAll_Q x e' ps hx.2 he'
      cases p with
      | splat inner =>
        rw [dropLhsAll_splat]
        exact stepItems_fst (Q x) _ _ (dropLhs_Q x e inner (by simpa [idents] using hx.1) h) rest
      | _ =>
        rw [dropLhsAll_other _ _ _ (by intro q; simp)]
        exact stepItems_fst (Q x) _ _ (dropLhs_Q x e _ hx.1 h) rest
end

theorem asg_Q_self (e e' : Env) (y : Nat) (ixs : List Ix) (v : Val) (every : Bool)
    (hr : assignRespectingType e y ixs v every = (e', .ok ())) : Q y e' := by
  unfold assignRespectingType at hr
  split at hr
  · simp at hr
  · next c hg =>
    have key : ∀ nv, isType c.ty nv = .ok true → Q y (e.set y nv) := by
      intro nv hv c' hc'
      rw [Env.getq_set] at hc'
      simp [hg] at hc'
      subst hc'; exact hv
    split at hr
    · split at hr
      · next hty => simp at hr; subst hr; exact key v hty
      · simp at hr
      · simp at hr
      · simp at hr
    · split at hr
      · next nv hs =>
        split at hr
        · next hty => simp at hr; subst hr; exact key nv hty
        · simp at hr
        · simp at hr
        · simp at hr
      · simp at hr
      · simp at hr

/-- `TargetsOk r xs`: if `r` completed, every variable in `xs` is well-typed in its result -/
def TargetsOk (r : Env × Out Unit) (xs : List Nat) : Prop := r.2 = .ok () → ∀ x ∈ xs, Q x r.1

theorem targets_step (r : Env × Out Unit) (k : Env → Env × Out Unit) (xs ys : List Nat)
    (h1 : TargetsOk r xs)
    (hkeep : ∀ e' x, Q x e' → OkI (Q x) (k e'))
    (h2 : ∀ e', TargetsOk (k e') ys) : TargetsOk (stepItems r k) (xs ++ ys) := by
  obtain ⟨e', o⟩ := r
  cases o with
  | ok u =>
    intro hok x hx
    rcases List.mem_append.mp hx with hx | hx
    · exact hkeep e' x (h1 rfl x hx) hok
    · exact h2 e' hok x hx
  | throw => intro h'; simp [stepItems] at h'
  | panic => intro h'; simp [stepItems] at h'

theorem targets_tail (e : Env) (ss : List Pat) (k : Nat) (items : List Val) (xs : List Nat)
    (ih : ∀ arr : List Val, TargetsOk (assignItems e ss none arr) xs) :
    TargetsOk (match arrange ss k items with
      | .ok arranged => assignItems e ss none arranged
      | .throw => (e, .throw)
      | .panic => (e, .panic)) xs := by
  cases arrange ss k items with
  | ok arr => exact ih arr
  | throw => intro h'; simp at h'
  | panic => intro h'; simp at h'

mutual
/-- when the final `assign` of an operator-assignment completes, every variable of the pattern has
been written with a type-checked value -/
theorem assign_targets (e : Env) : ∀ (p : Pat) (v : Val), opLhsOk p = true →
    TargetsOk (assign e p none v) (idents p)
  | .underscore, _, _ => by intro _ x hx; simp [idents] at hx
  | .ident y ixs, v, _ => by
      unfold assign
      intro hok x hx
      simp [idents] at hx
      subst hx
      exact asg_Q_self e _ x ixs v _ (Prod.ext rfl hok)
  | .anno _ _, _, h => by simp [opLhsOk] at h
  | .withDefault s _, v, h => by
      unfold assign; simp only [idents]
      exact assign_targets e s v (by simpa [opLhsOk] using h)
  | .seq ss d, v, h => by
      have hss : opLhsOkAll ss = true := by simpa [opLhsOk] using h
      unfold assign
      simp only [idents]
      cases d <;> simp only [Bool.false_eq_true, if_false, if_true] <;>
      · split
        · exact targets_tail e ss _ _ _ (fun arr => assignItems_targets e ss arr hss)
        · intro h'; simp at h'
  | .splat _, _, h => by simp [opLhsOk] at h
  | .or _ _, _, h => by simp [opLhsOk] at h
  | .and a b, v, h => by
      unfold assign
      simp [opLhsOk] at h
      simp only [idents]
      have ha := assign_targets e a v h.1
      rcases hr : assign e a none v with ⟨e', o⟩
      rw [hr] at ha
      cases o with
      | ok u =>
        intro hok x hx
        rcases List.mem_append.mp hx with hx | hx
        · exact assign_wtp (Q x) (closed_Q x) e' b none v (opLhsOk_orClean b h.2) (ha rfl x hx) hok
        · exact assign_targets e' b v h.2 hok x hx
      | throw => intro h'; simp at h'
      | panic => intro h'; simp at h'
  | .lit _, _, _ => by intro _ x hx; simp [idents] at hx
  | .destr f args, v, h => by
      have hss : opLhsOkAll args = true := by simpa [opLhsOk] using h
      unfold assign
      simp only [idents]
      split
      · split
        · exact targets_tail e args _ _ _ (fun arr => assignItems_targets e args arr hss)
        · intro h'; simp at h'
      · intro h'; simp at h'
      · intro h'; simp at h'
  | .destrStruct sid args, v, h => by
      have hss : opLhsOkAll args = true := by simpa [opLhsOk] using h
      unfold assign
      simp only [idents]
      split
      · split
        · exact targets_tail e args _ _ _ (fun arr => assignItems_targets e args arr hss)
        · intro h'; simp at h'
      · intro h'; simp at h'
theorem assignItems_targets (e : Env) : ∀ (ps : List Pat) (vs : List Val), opLhsOkAll ps = true →
    TargetsOk (assignItems e ps none vs) (identsL ps)
  | [], vs, _ => by intro _ x hx; simp [identsL] at hx
  | _ :: _, [], _ => by rw [assignItems_cons_nil]; intro h'; simp at h'
  | p :: ps, v :: vs, h => by
      have h2 : opLhsOkAll ps = true := by
        cases p <;> simp [opLhsOkAll] at h <;> exact h.2
      have hcl : orCleanL ps = true := opLhsOkAll_orCleanL ps h2
      have keep : ∀ e' x, Q x e' → OkI (Q x) (assignItems e' ps none vs) :=
        fun e' x hq => assignItems_wtp (Q x) (closed_Q x) e' ps none vs hcl hq
      have rest : ∀ e', TargetsOk (assignItems e' ps none vs) (identsL ps) :=
        fun e' => assignItems_targets e' ps vs h2
      simp only [identsL]
      cases p with
      | splat inner =>
        rw [assignItems_splat]
        simp only [idents]
        exact targets_step _ _ _ _ (assign_targets e inner v (by simp [opLhsOkAll] at h; exact h.1)) keep rest
      | anno q t => simp [opLhsOkAll, opLhsOk] at h
      | or a b => simp [opLhsOkAll, opLhsOk] at h
      | _ =>
        rw [assignItems_other _ _ _ _ _ _ (by simp [isSplatItem])]
        exact targets_step _ _ _ _ (assign_targets e _ v (by simp [opLhsOkAll] at h; exact h.1)) keep rest
end

theorem stepItems_ok (r : Env × Out Unit) (k : Env → Env × Out Unit)
    (h : (stepItems r k).2 = .ok ()) : r.2 = .ok () ∧ (k r.1).2 = .ok () := by
  obtain ⟨e', o⟩ := r
  cases o with
  | ok u => exact ⟨rfl, h⟩
  | throw => simp [stepItems] at h
  | panic => simp [stepItems] at h

mutual
theorem dropLhs_ok_frag : ∀ (p : Pat) (e : Env), (dropLhs e p).2 = .ok () → opLhsOk p = true
  | .underscore, _, _ => by simp [opLhsOk]
  | .ident _ _, _, _ => by simp [opLhsOk]
  | .seq ps _, e, h => by unfold dropLhs at h; simp only [opLhsOk]; exact dropLhsAll_ok_frag ps e h
  | .anno _ _, e, h => by unfold dropLhs at h; simp at h
  | .withDefault s _, e, h => by unfold dropLhs at h; simp only [opLhsOk]; exact dropLhs_ok_frag s e h
  | .splat _, e, h => by unfold dropLhs at h; simp at h
  | .or _ _, e, h => by unfold dropLhs at h; simp at h
  | .and a b, e, h => by
      unfold dropLhs at h
      rcases hr : dropLhs e a with ⟨e', o⟩
      rw [hr] at h
      cases o with
      | ok u =>
        have ha := dropLhs_ok_frag a e (by rw [hr])
        have hb := dropLhs_ok_frag b e' h
        simp [opLhsOk, ha, hb]
      | throw => simp at h
      | panic => simp at h
  | .lit _, _, _ => by simp [opLhsOk]
  | .destr _ ps, e, h => by unfold dropLhs at h; simp only [opLhsOk]; exact dropLhsAll_ok_frag ps e h
  | .destrStruct _ ps, e, h => by unfold dropLhs at h; simp only [opLhsOk]; exact dropLhsAll_ok_frag ps e h
theorem dropLhsAll_ok_frag : ∀ (ps : List Pat) (e : Env), (dropLhsAll e ps).2 = .ok () → opLhsOkAll ps = true
  | [], _, _ => by simp [opLhsOkAll]
  | p :: ps, e, h => by
      cases p with
      | splat inner =>
        rw [dropLhsAll_splat] at h
        obtain ⟨h1, h2⟩ := stepItems_ok _ _ h
        simp [opLhsOkAll, dropLhs_ok_frag inner e h1, dropLhsAll_ok_frag ps _ h2]
      | anno q t =>
        rw [dropLhsAll_other _ _ _ (by intro q; simp)] at h
        obtain ⟨h1, _⟩ := stepItems_ok _ _ h
        unfold dropLhs at h1; simp at h1
      | or a b =>
        rw [dropLhsAll_other _ _ _ (by intro q; simp)] at h
        obtain ⟨h1, _⟩ := stepItems_ok _ _ h
        unfold dropLhs at h1; simp at h1
      | underscore =>
        rw [dropLhsAll_other _ _ _ (by intro q; simp)] at h
        obtain ⟨h1, h2⟩ := stepItems_ok _ _ h
        simp [opLhsOkAll, dropLhs_ok_frag _ e h1, dropLhsAll_ok_frag ps _ h2]
      | ident x ixs =>
        rw [dropLhsAll_other _ _ _ (by intro q; simp)] at h
        obtain ⟨h1, h2⟩ := stepItems_ok _ _ h
        simp [opLhsOkAll, dropLhs_ok_frag _ e h1, dropLhsAll_ok_frag ps _ h2]
      | withDefault s d =>
        rw [dropLhsAll_other _ _ _ (by intro q; simp)] at h
        obtain ⟨h1, h2⟩ := stepItems_ok _ _ h
        simp [opLhsOkAll, dropLhs_ok_frag _ e h1, dropLhsAll_ok_frag ps _ h2]
      | seq ss d =>
        rw [dropLhsAll_other _ _ _ (by intro q; simp)] at h
        obtain ⟨h1, h2⟩ := stepItems_ok _ _ h
        simp [opLhsOkAll, dropLhs_ok_frag _ e h1, dropLhsAll_ok_frag ps _ h2]
      | and a b =>
        rw [dropLhsAll_other _ _ _ (by intro q; simp)] at h
        obtain ⟨h1, h2⟩ := stepItems_ok _ _ h
        simp [opLhsOkAll, dropLhs_ok_frag _ e h1, dropLhsAll_ok_frag ps _ h2]
      | lit l =>
        rw [dropLhsAll_other _ _ _ (by intro q; simp)] at h
        obtain ⟨h1, h2⟩ := stepItems_ok _ _ h
        simp [opLhsOkAll, dropLhs_ok_frag _ e h1, dropLhsAll_ok_frag ps _ h2]
      | destr f args =>
        rw [dropLhsAll_other _ _ _ (by intro q; simp)] at h
        obtain ⟨h1, h2⟩ := stepItems_ok _ _ h
        simp [opLhsOkAll, dropLhs_ok_frag _ e h1, dropLhsAll_ok_frag ps _ h2]
      | destrStruct sid args =>
        rw [dropLhsAll_other _ _ _ (by intro q; simp)] at h
        obtain ⟨h1, h2⟩ := stepItems_ok _ _ h
        simp [opLhsOkAll, dropLhs_ok_frag _ e h1, dropLhsAll_ok_frag ps _ h2]
end

/-- patterns of the statement are free of `or` alternatives that bind in their first branch
(operator-assignments refuse `or` altogether) -/
def stmtClean : Stmt → Bool
  | .assign p _ => orClean p
  | .assignEvery p _ => orClean p
  | .opAssign _ _ _ => true
  | .opAssignEvery _ _ _ => true
  | .swap a b => orClean a && orClean b

/-- **`annotation_invariant`** (one statement).  If every variable in scope holds a value of its
declared type, then after a declaration with annotation, `=`, index assignment, destructuring
assignment, operator-assignment, `every`-assignment, `every` operator-assignment or `swap` *that
completes without raising*, every variable in scope again holds a value of its declared type:
`x is T` for each `x : T`. -/
theorem annotation_invariant (e : Env) (s : Stmt) (hc : stmtClean s = true) (h : VisWellTyped e)
    (hok : (execStmt e s).2 = .ok ()) : VisWellTyped (execStmt e s).1 := by
  cases s with
  | assign p v =>
    exact assign_wtp VisWellTyped closed_vis e p none v (by simpa [stmtClean] using hc) h hok
  | assignEvery p v =>
    exact assignEvery_wtp VisWellTyped closed_vis e p none v (by simpa [stmtClean] using hc) h hok
  | opAssignEvery p op v =>
    exact modifyEvery_wtp VisWellTyped closed_vis _ e p h hok
  | swap a b =>
    simp [stmtClean] at hc
    unfold execStmt at hok ⊢
    cases ha : evalLvalue e a with
    | ok ao =>
      cases hb : evalLvalue e b with
      | ok bo =>
        simp only [ha, hb] at hok ⊢
        have h1 := assign_wtp VisWellTyped closed_vis e a none bo hc.1 h
        rcases hr : assign e a none bo with ⟨e1, o⟩
        rw [hr] at h1
        simp only [hr] at hok ⊢
        cases o with
        | ok u => exact assign_wtp VisWellTyped closed_vis e1 b none ao hc.2 (h1 rfl) hok
        | throw => simp at hok
        | panic => simp at hok
      | throw => simp [ha, hb] at hok
      | panic => simp [ha, hb] at hok
    | throw => cases hb : evalLvalue e b <;> simp [ha, hb] at hok
    | panic => cases hb : evalLvalue e b <;> simp [ha, hb] at hok
  | opAssign p op v =>
    unfold execStmt at hok ⊢
    cases hl : evalLvalue e p with
    | ok lhsValue =>
      simp only [hl] at hok ⊢
      rcases hd : dropLhs e p with ⟨e1, o⟩
      rw [hd] at hok
      cases o with
      | ok u =>
        simp only [] at hok ⊢
        have hfrag : opLhsOk p = true := dropLhs_ok_frag p e (by rw [hd])
        cases hop : applyOp op lhsValue v with
        | ok combined =>
          simp only [hop] at hok ⊢
          intro x
          by_cases hx : x ∈ idents p
          · exact assign_targets e1 p combined hfrag hok x hx
          · have q1 : Q x e1 := by
              have := dropLhs_Q x e p hx (h x)
              rw [hd] at this; exact this
            exact assign_wtp (Q x) (closed_Q x) e1 p none combined (opLhsOk_orClean p hfrag) q1 hok
        | throw => simp [hop] at hok
        | panic => simp [hop] at hok
      | throw => simp at hok
      | panic => simp at hok
    | throw => simp [hl] at hok
    | panic => simp [hl] at hok

/-- **`annotation_invariant`** (histories): along every history of such statements, after every
statement that completes, every variable in scope holds a value of its declared type. -/
theorem annotation_invariant_history (ss : List Stmt) : ∀ (e : Env), (∀ s ∈ ss, stmtClean s = true) →
    VisWellTyped e → ∀ r ∈ execHistory e ss, r.2 = .ok () → VisWellTyped r.1 := by
  induction ss with
  | nil => intro e _ _ r hr; simp [execHistory] at hr
  | cons s ss ih =>
    intro e hc h r hr hok
    unfold execHistory at hr
    have h1 := annotation_invariant e s (hc s (by simp)) h
    rcases hq : execStmt e s with ⟨e', o⟩
    rw [hq] at hr h1
    cases o with
    | ok u =>
      simp only [] at hr
      rcases List.mem_cons.mp hr with rfl | hr
      · exact h1 rfl
      · exact ih e' (fun s' hs' => hc s' (by simp [hs'])) (h1 rfl) r hr hok
    | throw => simp at hr; subst hr; simp at hok
    | panic => simp at hr; subst hr; simp at hok

/-- non-vacuity: `x: int = 5; x += 3` completes and keeps `x` an int, while `x += 1/2` raises -/
example :
    (execStmt [[{ name := 0, ty := .int, val := .int 5 }]] (.opAssign (.ident 0 []) .plus (.int 3))).2 = .ok () ∧
    (execStmt [[{ name := 0, ty := .int, val := .int 5 }]] (.opAssign (.ident 0 []) .plus (.rat (1/2)))).2 = .throw := by
  constructor <;> decide

end Noulith.C12
