/-
C05 / C17 — translator tie for the hand-written vocabulary of the core-language model.

`Generated/C05Tables.lean` is regenerated from /repo/src/lib.rs and core.rs by tools/extract_c05.py on
every run.  The facts below are checked by kernel evaluation over the WHOLE generated table: every
builtin name the model knows is registered by `initialize`, it is a catamorphism (usable after
`yield … into`) in the model exactly when its Rust struct implements `catamorphism()`, and with the
class of accumulator the Rust names; the model's type names are registered types.  A builtin renamed,
re-registered with another struct, a `catamorphism()` added or dropped, a changed `bias` or fold
identity in /repo breaks one of these obligations (reported as no-failing-input-found unless the
differential run also finds a failing program).
-/
import NoulithModel.Impl.CoreEval
import NoulithModel.Generated.C05Tables

namespace Noulith.C05T
open Noulith Noulith.Core

/-- the Rust struct family a name is registered with -/
def familyOf (n : String) : Option String := (C05Tables.registered.find? (·.1 == n)).map (·.2)

/-- the `Cata…` struct the Rust returns for a registered name, if any -/
def rustCata (n : String) : Option String :=
  match familyOf n with
  | some f => (C05Tables.cataFamilies.find? (·.1 == f)).map (·.2)
  | none => none

/-- the accumulator class of the model, named like the Rust struct that implements it; the parameters
that distinguish two builtins of the same struct (extremum bias, fold identity) are part of the name -/
def cataClass : Cata → String
  | .list _ => "CataList"
  | .first => "CataFirst"
  | .last none => "CataLast"
  | .last (some _) => "CataLast(started)"
  | .sum (.int 0) => "CataMapped:Obj::zero():a + b"
  | .sum _ => "CataMapped:?"
  | .extremum true none => "CataExtremum:Greater"
  | .extremum false none => "CataExtremum:Less"
  | .extremum _ (some _) => "CataExtremum(started)"
  | .count 0 => "CataCounter"
  | .count _ => "CataCounter(started)"

/-- the same name computed from the Rust tables -/
def rustCataClass (n : String) : Option String :=
  match rustCata n with
  | some "CataExtremum" => (C05Tables.extremumBias.find? (·.1 == n)).map fun r => "CataExtremum:" ++ r.2
  | some "CataMapped" =>
    (C05Tables.mappedFolds.find? (·.1 == n)).map fun r =>
      "CataMapped:" ++ r.2.1 ++ ":" ++ r.2.2
  | some c => some c
  | none => none

/-- names of the model that are operators / functions (types are checked separately) -/
def modelFuncNames : List String := builtinNames.filter (fun n => !typeNames.contains n)

def nameOk (n : String) : Bool :=
  (familyOf n).isSome && ((cataOfBuiltin n).map cataClass == rustCataClass n)

theorem table_check : modelFuncNames.all nameOk = true := by decide +kernel

/-- every function name of the model's vocabulary is registered by `initialize` -/
theorem model_builtins_registered : ∀ n ∈ modelFuncNames, (familyOf n).isSome = true := by
  intro n hn
  have h := List.all_eq_true.mp table_check n hn
  simp only [nameOk, Bool.and_eq_true] at h
  exact h.1

/-- a name of the model's vocabulary is a catamorphism in the model exactly when its Rust struct
implements `catamorphism()`, and then with the accumulator the Rust builds (`CataFirst`, `CataLast`,
`CataCounter`, `CataExtremum` with the registration's bias, `CataMapped` with the registration's identity
and fold) -/
theorem model_cata_matches_rust : ∀ n ∈ modelFuncNames, (cataOfBuiltin n).map cataClass = rustCataClass n := by
  intro n hn
  have h := List.all_eq_true.mp table_check n hn
  simp only [nameOk, Bool.and_eq_true, beq_iff_eq] at h
  exact h.2

/-- conversely no OTHER registered catamorphism is silently missing from the model's vocabulary without
being listed here: the registered names whose struct implements `catamorphism()` are exactly these -/
theorem rust_cata_names :
    (C05Tables.registered.filter (fun r => (C05Tables.cataFamilies.find? (·.1 == r.2)).isSome)).map (·.1)
      = ["sum", "product", "any", "all", "count", "max", "min", "first", "last", "set", "count_distinct"] := by
  decide +kernel

/-- the model's type names are registered types (`nulltype` … `anything`) -/
theorem model_types_registered : typeNames.all (fun t => C05Tables.typeNames.contains t) = true := by
  decide +kernel

/-- non-vacuity: the table is the real one (hundreds of registrations) and the vocabulary is not empty -/
example : C05Tables.registered.length > 250 ∧ modelFuncNames.length = 22 := by decide +kernel

end Noulith.C05T
