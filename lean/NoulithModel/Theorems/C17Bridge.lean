/-
C17 (supplement) — the bridge from `freeze` to stage 2.  `stExpr` is `okExpr` (the side condition `ScopeOK`
of the preservation theorem) with ONE more clause: a READ of a name that freeze has bound must be a read of
a surely declared name (otherwise — declaration in a branch not taken, read afterwards — the frozen code
reads an outer variable at the time of use: the same family as F20 / F27 / F32, a late binding, not a
frozen-vs-unfrozen difference).  `freeze_output_local`: the frozen form of such code satisfies `localOk`
for the table the freeze produced, so `frozen_code_insensitive` applies to every freeze output of the
fragment.  `freeze_first_order_main`: the two halves of the property for first-order lambda bodies.
-/
import NoulithModel.Theorems.C17Insensitive

namespace Noulith.C17Bridge
open Noulith Noulith.Core Noulith.C17Closed Noulith.C17Frames Noulith.C17Preserve Noulith.C17Insensitive
open Noulith.C17Cut

mutual
  def stExpr : List String → List String → Expr → Option (List String)
    | S, _, .null => some S
    | S, _, .int _ => some S
    | S, _, .str _ => some S
    | S, _, .cont _ => some S
    | S, bd, .ident x => if bd.contains x && !S.contains x then none else some S
    | S, bd, .list xs => stList S bd xs
    | S, bd, .op _ a b => match stExpr S bd a with | some S1 => stExpr S1 (afterExpr bd a) b | none => none
    | S, bd, .index a b => match stExpr S bd a with | some S1 => stExpr S1 (afterExpr bd a) b | none => none
    | S, bd, .call (.ident f) args =>
      if builtinNames.contains f && !bd.contains f then stList S bd args else none
    | S, bd, .and_ a b =>
      match stExpr S bd a with
      | some S1 => match stExpr S1 (afterExpr bd a) b with | some _ => some S1 | none => none
      | none => none
    | S, bd, .or_ a b =>
      match stExpr S bd a with
      | some S1 => match stExpr S1 (afterExpr bd a) b with | some _ => some S1 | none => none
      | none => none
    | S, bd, .coalesce a b =>
      match stExpr S bd a with
      | some S1 => match stExpr S1 (afterExpr bd a) b with | some _ => some S1 | none => none
      | none => none
    | S, bd, .seq xs _ => stList S bd xs
    | S, bd, .ite c t e =>
      match stExpr S bd c with
      | some S1 =>
        match stExpr S1 (afterExpr bd c) t with
        | some _ => match stOpt S1 (afterExpr (afterExpr bd c) t) e with | some _ => some S1 | none => none
        | none => none
      | none => none
    | S, bd, .while_ c b =>
      match stExpr S bd c with
      | some S1 => match stExpr S1 (afterExpr bd c) b with | some _ => some S | none => none
      | none => none
    | S, bd, .for_ its body =>
      if headAfter bd its body == bd then
        match stIts S bd its with
        | some S2 => if stBody S2 (afterIts bd its) body then some S else none
        | none => none
      else none
    | S, bd, .declare p rhs =>
      match stExpr S (bd ++ Pat.idents p) rhs with
      | some S1 => some (S1 ++ Pat.idents p)
      | none => none
    | S, bd, .assign x rhs => if S.contains x then stExpr S bd rhs else none
    | S, bd, .opassign x _ rhs => if S.contains x then stExpr S bd rhs else none
    | S, bd, .brk _ e => stOpt S bd e
    | S, bd, .ret e => stOpt S bd e
    | S, bd, .throw_ e => stExpr S bd e
    | S, bd, .try_ b p c =>
      match stExpr S bd b with
      | some _ =>
        match stExpr (S ++ Pat.idents p) (afterExpr bd b ++ Pat.idents p) c with
        | some _ => some S
        | none => none
      | none => none
    | S, bd, .switch_ sc arms =>
      match stExpr S bd sc with
      | some S1 => if stArms S1 (afterExpr bd sc) arms then some S1 else none
      | none => none
    | _, _, _ => none
  def stArms : List String → List String → List SwitchArm → Bool
    | _, _, [] => true
    | S, bd, .mk p body :: rest =>
      (stExpr (S ++ Pat.idents p) (bd ++ Pat.idents p) body).isSome && stArms S bd rest
  def stList : List String → List String → List Expr → Option (List String)
    | S, _, [] => some S
    | S, bd, x :: xs => match stExpr S bd x with | some S1 => stList S1 (afterExpr bd x) xs | none => none
  def stOpt : List String → List String → Option Expr → Option (List String)
    | S, _, none => some S
    | S, bd, some x => stExpr S bd x
  def stIts : List String → List String → List ForIt → Option (List String)
    | S, _, [] => some S
    | S, bd, .guard g :: rest =>
      match stExpr S bd g with | some S1 => stIts S1 (afterExpr bd g) rest | none => none
    | S, bd, .iter _ p e :: rest =>
      match stExpr S bd e with
      | some S1 => stIts (S1 ++ Pat.idents p) (afterExpr bd e ++ Pat.idents p) rest
      | none => none
  def stBody : List String → List String → ForBody → Bool
    | S, bd, .exec e => (stExpr S bd e).isSome
    | S, bd, .yield e into => (stExpr S bd e).isSome && okInto (afterExpr bd e) into
    | S, bd, .yieldItem k v into =>
      match stExpr S bd k with
      | some S1 => (stExpr S1 (afterExpr bd k) v).isSome && okInto (afterExpr (afterExpr bd k) v) into
      | none => false
end

/-- `ScopeOK` plus: every read of a bound name is a read of a surely declared name -/
def ScopeStrict (bd : List String) (e : Expr) : Prop := (stExpr bd bd e).isSome = true

instance (bd : List String) (e : Expr) : Decidable (ScopeStrict bd e) := inferInstanceAs (Decidable (_ = true))

/-- the strict condition implies the side condition of the preservation theorem, with the same
surely-declared names -/
theorem st_ok_all :
    (∀ S bd e, ∀ S', stExpr S bd e = some S' → okExpr S bd e = some S') ∧
    (∀ S bd arms, stArms S bd arms = true → okArms S bd arms = true) ∧
    (∀ S bd b, stBody S bd b = true → okBody S bd b = true) ∧
    (∀ S bd its, ∀ S', stIts S bd its = some S' → okIts S bd its = some S') ∧
    (∀ S bd o, ∀ S', stOpt S bd o = some S' → okOpt S bd o = some S') ∧
    (∀ S bd es, ∀ S', stList S bd es = some S' → okList S bd es = some S') := by
  apply stExpr.mutual_induct
    (motive_1 := fun S bd e => ∀ S', stExpr S bd e = some S' → okExpr S bd e = some S')
    (motive_2 := fun S bd arms => stArms S bd arms = true → okArms S bd arms = true)
    (motive_3 := fun S bd b => stBody S bd b = true → okBody S bd b = true)
    (motive_4 := fun S bd its => ∀ S', stIts S bd its = some S' → okIts S bd its = some S')
    (motive_5 := fun S bd o => ∀ S', stOpt S bd o = some S' → okOpt S bd o = some S')
    (motive_6 := fun S bd es => ∀ S', stList S bd es = some S' → okList S bd es = some S')
  all_goals
    intros
    rename_i h
    simp only [stExpr, stArms, stBody, stIts, stOpt, stList, okExpr, okArms, okBody, okIts, okOpt, okList, Option.isSome_iff_exists,
      Bool.and_eq_true, *] at h ⊢
    first | done | grind

theorem scopeStrict_scopeOK {bd : List String} {e : Expr} (h : ScopeStrict bd e) : ScopeOK bd e := by
  unfold ScopeStrict at h
  obtain ⟨S', hS'⟩ := Option.isSome_iff_exists.mp h
  unfold ScopeOK
  rw [st_ok_all.1 bd bd e S' hS']; rfl

/-! ## the bridge -/

variable {look : String → Option Val}

theorem frozen_builtin (hB : HBuiltins look) {s s1 : FState Val} {g : String} {f' : Expr} {T : List Val}
    (hg : g ∈ builtinNames) (hgb : g ∉ s.bound) (hf : freezeExpr look s (.ident g) = .ok (f', s1))
    (htab : s1.tab <+: T) : f' = .frozen s.tab.length ∧ builtinAt T s.tab.length = true := by
  simp only [freezeExpr] at hf
  have hc : s.bound.contains g = false := by simpa using hgb
  simp only [hc, Bool.false_eq_true, ↓reduceIte, hB g hg, Except.ok.injEq, Prod.mk.injEq] at hf
  obtain ⟨rfl, rfl⟩ := hf
  refine ⟨rfl, ?_⟩
  have : T[s.tab.length]? = some (.builtin g) := tab_get s.tab rfl htab
  simp only [builtinAt, this]

theorem bInto (hB : HBuiltins look) {s s' : FState Val} {o o' : Option Expr} {T : List Val}
    (hok : okInto s.bound o = true) (hf : freezeOpt look s o = .ok (o', s')) (htab : s'.tab <+: T) :
    localInto T o' = true := by
  cases o with
  | none =>
    simp only [freezeOpt, Except.ok.injEq, Prod.mk.injEq] at hf
    obtain ⟨rfl, rfl⟩ := hf
    simp only [localInto]
  | some e =>
    obtain ⟨e', he, rfl⟩ := freezeOpt_some_inv hf
    cases e with
    | ident f =>
      simp only [okInto, Bool.and_eq_true, Bool.not_eq_true', List.contains_eq_mem, decide_eq_true_eq,
        decide_eq_false_iff_not] at hok
      obtain ⟨rfl, hb⟩ := frozen_builtin hB hok.1 hok.2 he htab
      simp only [localInto, hb]
    | _ => simp [okInto] at hok

mutual
  theorem bE (hB : HBuiltins look) : ∀ (e : Expr) (S S' : List String) (s s' : FState Val) (e' : Expr) (T : List Val),
      stExpr S s.bound e = some S' → freezeExpr look s e = .ok (e', s') → s'.tab <+: T →
      localOk T S e' = some S'
    | .null, S, S', s, s', e', T, hst, hf, _ => by
      simp only [freezeExpr, Except.ok.injEq, Prod.mk.injEq] at hf
      obtain ⟨rfl, rfl⟩ := hf
      simpa [stExpr, localOk] using hst
    | .int k, S, S', s, s', e', T, hst, hf, _ => by
      simp only [freezeExpr, Except.ok.injEq, Prod.mk.injEq] at hf
      obtain ⟨rfl, rfl⟩ := hf
      simpa [stExpr, localOk] using hst
    | .str k, S, S', s, s', e', T, hst, hf, _ => by
      simp only [freezeExpr, Except.ok.injEq, Prod.mk.injEq] at hf
      obtain ⟨rfl, rfl⟩ := hf
      simpa [stExpr, localOk] using hst
    | .cont k, S, S', s, s', e', T, hst, hf, _ => by
      simp only [freezeExpr, Except.ok.injEq, Prod.mk.injEq] at hf
      obtain ⟨rfl, rfl⟩ := hf
      simpa [stExpr, localOk] using hst
    | .ident x, S, S', s, s', e', T, hst, hf, _ => by
      simp only [stExpr] at hst
      split at hst
      · exact absurd hst (by simp)
      · rename_i hcond
        simp only [Option.some.injEq] at hst
        subst hst
        simp only [freezeExpr] at hf
        split at hf
        · rename_i hb
          simp only [Except.ok.injEq, Prod.mk.injEq] at hf
          obtain ⟨rfl, rfl⟩ := hf
          have hxS : S.contains x = true := by
            cases hS : S.contains x with
            | true => rfl
            | false =>
              simp at hcond
              have hb' : x ∈ s.bound := by simpa using hb
              have := hcond hb'
              simp at hS
              exact absurd this hS
          simp only [localOk, hxS, ↓reduceIte]
        · split at hf
          · simp only [Except.ok.injEq, Prod.mk.injEq] at hf
            obtain ⟨rfl, rfl⟩ := hf
            simp only [localOk]
          · exact absurd hf (by simp)
    | .list xs, S, S', s, s', e', T, hst, hf, htab => by
      simp only [freezeExpr] at hf
      split at hf
      · rename_i xs' s1 hxs
        simp only [Except.ok.injEq, Prod.mk.injEq] at hf
        obtain ⟨rfl, rfl⟩ := hf
        simp only [stExpr] at hst
        simp only [localOk]
        exact bL hB xs S S' s s1 xs' T hst hxs htab
      · exact absurd hf (by simp)
    | .seq xs semi, S, S', s, s', e', T, hst, hf, htab => by
      simp only [freezeExpr] at hf
      split at hf
      · rename_i xs' s1 hxs
        simp only [Except.ok.injEq, Prod.mk.injEq] at hf
        obtain ⟨rfl, rfl⟩ := hf
        simp only [stExpr] at hst
        simp only [localOk]
        exact bL hB xs S S' s s1 xs' T hst hxs htab
      · exact absurd hf (by simp)
    | .op name a b, S, S', s, s', e', T, hst, hf, htab => by
      simp only [freezeExpr] at hf
      obtain ⟨a', s1, b', ha, hb, rfl⟩ := freeze_two_inv _ _ _ _ _ (fun x y => Expr.op name x y) _ hf
      simp only [stExpr] at hst
      split at hst
      · rename_i S1 hstA
        rw [← fzE_bound ha] at hst
        have iha := bE hB a S S1 s s1 a' T hstA ha ((fzE_tab hb).trans htab)
        have ihb := bE hB b S1 S' s1 s' b' T hst hb htab
        simp only [localOk, iha, ihb]
      · exact absurd hst (by simp)
    | .index a b, S, S', s, s', e', T, hst, hf, htab => by
      simp only [freezeExpr] at hf
      obtain ⟨a', s1, b', ha, hb, rfl⟩ := freeze_two_inv _ _ _ _ _ (fun x y => Expr.index x y) _ hf
      simp only [stExpr] at hst
      split at hst
      · rename_i S1 hstA
        rw [← fzE_bound ha] at hst
        have iha := bE hB a S S1 s s1 a' T hstA ha ((fzE_tab hb).trans htab)
        have ihb := bE hB b S1 S' s1 s' b' T hst hb htab
        simp only [localOk, iha, ihb]
      · exact absurd hst (by simp)
    | .and_ a b, S, S', s, s', e', T, hst, hf, htab => by
      simp only [freezeExpr] at hf
      obtain ⟨a', s1, b', ha, hb, rfl⟩ := freeze_two_inv _ _ _ _ _ (fun x y => Expr.and_ x y) _ hf
      simp only [stExpr] at hst
      split at hst
      · rename_i S1 hstA
        rw [← fzE_bound ha] at hst
        split at hst
        · rename_i S2 hstB
          have iha := bE hB a S S1 s s1 a' T hstA ha ((fzE_tab hb).trans htab)
          have ihb := bE hB b S1 S2 s1 s' b' T hstB hb htab
          simpa only [localOk, iha, ihb] using hst
        · exact absurd hst (by simp)
      · exact absurd hst (by simp)
    | .or_ a b, S, S', s, s', e', T, hst, hf, htab => by
      simp only [freezeExpr] at hf
      obtain ⟨a', s1, b', ha, hb, rfl⟩ := freeze_two_inv _ _ _ _ _ (fun x y => Expr.or_ x y) _ hf
      simp only [stExpr] at hst
      split at hst
      · rename_i S1 hstA
        rw [← fzE_bound ha] at hst
        split at hst
        · rename_i S2 hstB
          have iha := bE hB a S S1 s s1 a' T hstA ha ((fzE_tab hb).trans htab)
          have ihb := bE hB b S1 S2 s1 s' b' T hstB hb htab
          simpa only [localOk, iha, ihb] using hst
        · exact absurd hst (by simp)
      · exact absurd hst (by simp)
    | .coalesce a b, S, S', s, s', e', T, hst, hf, htab => by
      simp only [freezeExpr] at hf
      obtain ⟨a', s1, b', ha, hb, rfl⟩ := freeze_two_inv _ _ _ _ _ (fun x y => Expr.coalesce x y) _ hf
      simp only [stExpr] at hst
      split at hst
      · rename_i S1 hstA
        rw [← fzE_bound ha] at hst
        split at hst
        · rename_i S2 hstB
          have iha := bE hB a S S1 s s1 a' T hstA ha ((fzE_tab hb).trans htab)
          have ihb := bE hB b S1 S2 s1 s' b' T hstB hb htab
          simpa only [localOk, iha, ihb] using hst
        · exact absurd hst (by simp)
      · exact absurd hst (by simp)
    | .call f args, S, S', s, s', e', T, hst, hf, htab => by
      cases f with
      | ident g =>
        simp only [stExpr] at hst
        split at hst
        · rename_i hcond
          simp only [Bool.and_eq_true, Bool.not_eq_true', List.contains_eq_mem, decide_eq_true_eq,
            decide_eq_false_iff_not] at hcond
          simp only [freezeExpr] at hf
          split at hf
          · exact absurd hf (by simp)
          · rename_i f' s1 hfz
            split at hf
            · exact absurd hf (by simp)
            · rename_i args' s2 hargs
              simp only [Except.ok.injEq, Prod.mk.injEq] at hf
              obtain ⟨rfl, rfl⟩ := hf
              have hfz' : freezeExpr look s (.ident g) = .ok (f', s1) := by simp only [freezeExpr]; exact hfz
              obtain ⟨rfl, hb⟩ := frozen_builtin hB hcond.1 hcond.2 hfz' ((fzL_tab hargs).trans htab)
              have hb1 : s1.bound = s.bound := by rw [fzE_bound hfz']; simp only [afterExpr]
              rw [← hb1] at hst
              simp only [localOk, hb, ↓reduceIte]
              exact bL hB args S S' s1 s2 args' T hst hargs htab
        · exact absurd hst (by simp)
      | _ => simp [stExpr] at hst
    | .ite c t e, S, S', s, s', e', T, hst, hf, htab => by
      simp only [freezeExpr] at hf
      split at hf
      · exact absurd hf (by simp)
      · rename_i c' s1 hc
        split at hf
        · exact absurd hf (by simp)
        · rename_i t' s2 ht
          split at hf
          · exact absurd hf (by simp)
          · rename_i eo' s3 he
            simp only [Except.ok.injEq, Prod.mk.injEq] at hf
            obtain ⟨rfl, rfl⟩ := hf
            simp only [stExpr] at hst
            split at hst
            · rename_i S1 hstC
              rw [← fzE_bound hc] at hst
              split at hst
              · rename_i St hstT
                rw [← fzE_bound ht] at hst
                split at hst
                · rename_i Se hstE
                  have ihc := bE hB c S S1 s s1 c' T hstC hc ((fzE_tab ht).trans ((fzO_tab he).trans htab))
                  have iht := bE hB t S1 St s1 s2 t' T hstT ht ((fzO_tab he).trans htab)
                  have ihe := bO hB e S1 Se s2 s3 eo' T hstE he htab
                  simpa only [localOk, ihc, iht, ihe] using hst
                · exact absurd hst (by simp)
              · exact absurd hst (by simp)
            · exact absurd hst (by simp)
    | .while_ c b, S, S', s, s', e', T, hst, hf, htab => by
      simp only [freezeExpr] at hf
      split at hf
      · exact absurd hf (by simp)
      · rename_i c' s2 hc
        split at hf
        · exact absurd hf (by simp)
        · rename_i b' s3 hb
          simp only [Except.ok.injEq, Prod.mk.injEq] at hf
          obtain ⟨rfl, rfl⟩ := hf
          simp only [stExpr] at hst
          split at hst
          · rename_i S1 hstC
            rw [← fzE_bound hc] at hst
            split at hst
            · rename_i S2 hstB
              have htab3 : s3.tab <+: T := htab
              have ihc := bE hB c S S1 s s2 c' T hstC hc ((fzE_tab hb).trans htab3)
              have ihb := bE hB b S1 S2 s2 s3 b' T hstB hb htab3
              simpa only [localOk, ihc, ihb] using hst
            · exact absurd hst (by simp)
          · exact absurd hst (by simp)
    | .for_ its body, S, S', s, s', e', T, hst, hf, htab => by
      simp only [freezeExpr] at hf
      split at hf
      · exact absurd hf (by simp)
      · rename_i its' s2 hits
        split at hf
        · exact absurd hf (by simp)
        · rename_i body' s3 hbody
          simp only [Except.ok.injEq, Prod.mk.injEq] at hf
          obtain ⟨rfl, rfl⟩ := hf
          simp only [stExpr] at hst
          split at hst
          · split at hst
            · rename_i S2 hstI
              rw [← fzI_bound hits] at hst
              split at hst
              · rename_i hstB
                have htab3 : s3.tab <+: T := htab
                have ihi := bI hB its S S2 s s2 its' T hstI hits ((fzB_tab hbody).trans htab3)
                have ihb := bB hB body S2 s2 s3 body' T hstB hbody htab3
                simpa only [localOk, ihi, ihb, ↓reduceIte] using hst
              · exact absurd hst (by simp)
            · exact absurd hst (by simp)
          · exact absurd hst (by simp)
    | .declare p rhs, S, S', s, s', e', T, hst, hf, htab => by
      simp only [freezeExpr] at hf
      split at hf
      · exact absurd hf (by simp)
      · rename_i rhs' s1 hr
        simp only [Except.ok.injEq, Prod.mk.injEq] at hf
        obtain ⟨rfl, rfl⟩ := hf
        simp only [stExpr] at hst
        split at hst
        · rename_i S1 hstR
          have ihr := bE hB rhs S S1 { s with bound := s.bound ++ Pat.idents p } s1 rhs' T hstR hr htab
          simpa only [localOk, ihr] using hst
        · exact absurd hst (by simp)
    | .assign x rhs, S, S', s, s', e', T, hst, hf, htab => by
      simp only [stExpr] at hst
      split at hst
      · rename_i hxS
        simp only [freezeExpr] at hf
        split at hf
        · exact absurd hf (by simp)
        · split at hf
          · exact absurd hf (by simp)
          · rename_i rhs' s1 hr
            simp only [Except.ok.injEq, Prod.mk.injEq] at hf
            obtain ⟨rfl, rfl⟩ := hf
            have ihr := bE hB rhs S S' s s1 rhs' T hst hr htab
            simp only [localOk, hxS, ↓reduceIte, ihr]
      · exact absurd hst (by simp)
    | .opassign x opn rhs, S, S', s, s', e', T, hst, hf, htab => by
      simp only [stExpr] at hst
      split at hst
      · rename_i hxS
        simp only [freezeExpr] at hf
        split at hf
        · exact absurd hf (by simp)
        · split at hf
          · exact absurd hf (by simp)
          · rename_i rhs' s1 hr
            simp only [Except.ok.injEq, Prod.mk.injEq] at hf
            obtain ⟨rfl, rfl⟩ := hf
            have ihr := bE hB rhs S S' s s1 rhs' T hst hr htab
            simp only [localOk, hxS, ↓reduceIte, ihr]
      · exact absurd hst (by simp)
    | .brk k e, S, S', s, s', e', T, hst, hf, htab => by
      simp only [freezeExpr] at hf
      split at hf
      · exact absurd hf (by simp)
      · rename_i o' s1 ho
        simp only [Except.ok.injEq, Prod.mk.injEq] at hf
        obtain ⟨rfl, rfl⟩ := hf
        simp only [stExpr] at hst
        simp only [localOk]
        exact bO hB e S S' s s1 o' T hst ho htab
    | .ret e, S, S', s, s', e', T, hst, hf, htab => by
      simp only [freezeExpr] at hf
      split at hf
      · exact absurd hf (by simp)
      · rename_i o' s1 ho
        simp only [Except.ok.injEq, Prod.mk.injEq] at hf
        obtain ⟨rfl, rfl⟩ := hf
        simp only [stExpr] at hst
        simp only [localOk]
        exact bO hB e S S' s s1 o' T hst ho htab
    | .throw_ e, S, S', s, s', e', T, hst, hf, htab => by
      simp only [freezeExpr] at hf
      split at hf
      · exact absurd hf (by simp)
      · rename_i e1' s1 he
        simp only [Except.ok.injEq, Prod.mk.injEq] at hf
        obtain ⟨rfl, rfl⟩ := hf
        simp only [stExpr] at hst
        simp only [localOk]
        exact bE hB e S S' s s1 e1' T hst he htab
    | .try_ b p c, S, S', s, s', e', T, hst, hf, htab => by
      simp only [freezeExpr] at hf
      split at hf
      · exact absurd hf (by simp)
      · rename_i b' s1 hb
        split at hf
        · exact absurd hf (by simp)
        · rename_i c' s3 hc
          simp only [Except.ok.injEq, Prod.mk.injEq] at hf
          obtain ⟨rfl, rfl⟩ := hf
          simp only [stExpr] at hst
          split at hst
          · rename_i Sb hstB
            rw [← fzE_bound hb] at hst
            split at hst
            · rename_i Sc hstC
              have htab3 : s3.tab <+: T := htab
              have ihb := bE hB b S Sb s s1 b' T hstB hb ((fzE_tab hc).trans htab3)
              have ihc := bE hB c (S ++ Pat.idents p) Sc { s1 with bound := s1.bound ++ Pat.idents p } s3 c' T
                hstC hc htab3
              simpa only [localOk, ihb, ihc] using hst
            · exact absurd hst (by simp)
          · exact absurd hst (by simp)
    | .switch_ sc arms, S, S', s, s', e', T, hst, hf, htab => by
      simp only [freezeExpr] at hf
      split at hf
      · exact absurd hf (by simp)
      · rename_i sc' s1 hsc
        split at hf
        · exact absurd hf (by simp)
        · rename_i arms' s2 harms
          simp only [Except.ok.injEq, Prod.mk.injEq] at hf
          obtain ⟨rfl, rfl⟩ := hf
          simp only [stExpr] at hst
          split at hst
          · rename_i S1 hstS
            rw [← fzE_bound hsc] at hst
            split at hst
            · rename_i hstA
              have htab2 : s2.tab <+: T := htab
              have ihs := bE hB sc S S1 s s1 sc' T hstS hsc ((fzA_tab harms).trans htab2)
              have iha := bA hB arms S1 s1 s2 arms' T hstA harms htab2
              simpa only [localOk, ihs, iha, ↓reduceIte] using hst
            · exact absurd hst (by simp)
          · exact absurd hst (by simp)
    | .lambda ps body, _, _, _, _, _, _, hst, _, _ => by simp [stExpr] at hst
    | .evalSrc e, _, _, _, _, _, _, hst, _, _ => by simp [stExpr] at hst
    | .frozen i, _, _, _, _, _, _, hst, _, _ => by simp [stExpr] at hst
    | .freeze e, _, _, _, _, _, _, hst, _, _ => by simp [stExpr] at hst
  theorem bO (hB : HBuiltins look) : ∀ (o : Option Expr) (S S' : List String) (s s' : FState Val) (o' : Option Expr)
      (T : List Val), stOpt S s.bound o = some S' → freezeOpt look s o = .ok (o', s') → s'.tab <+: T →
      localOpt T S o' = some S'
    | none, S, S', s, s', o', T, hst, hf, _ => by
      simp only [freezeOpt, Except.ok.injEq, Prod.mk.injEq] at hf
      obtain ⟨rfl, rfl⟩ := hf
      simpa [stOpt, localOpt] using hst
    | some e, S, S', s, s', o', T, hst, hf, htab => by
      obtain ⟨e', he, rfl⟩ := freezeOpt_some_inv hf
      simp only [stOpt] at hst
      simp only [localOpt]
      exact bE hB e S S' s s' e' T hst he htab
  theorem bA (hB : HBuiltins look) : ∀ (arms : List SwitchArm) (S : List String) (s s' : FState Val)
      (arms' : List SwitchArm) (T : List Val), stArms S s.bound arms = true →
      freezeArms look s arms = .ok (arms', s') → s'.tab <+: T → localArms T S arms' = true
    | [], S, s, s', arms', T, _, hf, _ => by
      simp only [freezeArms, Except.ok.injEq, Prod.mk.injEq] at hf
      obtain ⟨rfl, rfl⟩ := hf
      simp only [localArms]
    | .mk p body :: rest, S, s, s', arms', T, hst, hf, htab => by
      simp only [freezeArms] at hf
      split at hf
      · exact absurd hf (by simp)
      · rename_i body' s2 hbody
        split at hf
        · exact absurd hf (by simp)
        · rename_i rest' s3 hrest
          simp only [Except.ok.injEq, Prod.mk.injEq] at hf
          obtain ⟨rfl, rfl⟩ := hf
          simp only [stArms, Bool.and_eq_true, Option.isSome_iff_exists] at hst
          obtain ⟨⟨Sb, hstB⟩, hstR⟩ := hst
          have ihb := bE hB body (S ++ Pat.idents p) Sb { s with bound := s.bound ++ Pat.idents p } s2 body' T
            hstB hbody ((fzA_tab hrest).trans htab)
          have ihr := bA hB rest S { s with tab := s2.tab } s3 rest' T hstR hrest htab
          simp only [localArms, ihb, ihr, Option.isSome_some, Bool.and_self]
  theorem bI (hB : HBuiltins look) : ∀ (its : List ForIt) (S S' : List String) (s s' : FState Val)
      (its' : List ForIt) (T : List Val), stIts S s.bound its = some S' →
      freezeIts look s its = .ok (its', s') → s'.tab <+: T → localIts T S its' = some S'
    | [], S, S', s, s', its', T, hst, hf, _ => by
      simp only [freezeIts, Except.ok.injEq, Prod.mk.injEq] at hf
      obtain ⟨rfl, rfl⟩ := hf
      simpa [stIts, localIts] using hst
    | .guard g :: rest, S, S', s, s', its', T, hst, hf, htab => by
      simp only [freezeIts] at hf
      split at hf
      · exact absurd hf (by simp)
      · rename_i g' s1 hg
        split at hf
        · exact absurd hf (by simp)
        · rename_i rest' s2 hrest
          simp only [Except.ok.injEq, Prod.mk.injEq] at hf
          obtain ⟨rfl, rfl⟩ := hf
          simp only [stIts] at hst
          split at hst
          · rename_i S1 hstG
            rw [← fzE_bound hg] at hst
            have ihg := bE hB g S S1 s s1 g' T hstG hg ((fzI_tab hrest).trans htab)
            have ihr := bI hB rest S1 S' s1 s2 rest' T hst hrest htab
            simp only [localIts, ihg, ihr]
          · exact absurd hst (by simp)
    | .iter kind p e :: rest, S, S', s, s', its', T, hst, hf, htab => by
      simp only [freezeIts] at hf
      split at hf
      · exact absurd hf (by simp)
      · rename_i e1' s1 he
        split at hf
        · exact absurd hf (by simp)
        · rename_i rest' s2 hrest
          simp only [Except.ok.injEq, Prod.mk.injEq] at hf
          obtain ⟨rfl, rfl⟩ := hf
          simp only [stIts] at hst
          split at hst
          · rename_i S1 hstE
            rw [← fzE_bound he] at hst
            have ihe := bE hB e S S1 s s1 e1' T hstE he ((fzI_tab hrest).trans htab)
            have ihr := bI hB rest (S1 ++ Pat.idents p) S' { s1 with bound := s1.bound ++ Pat.idents p } s2 rest' T
              hst hrest htab
            simp only [localIts, ihe, ihr]
          · exact absurd hst (by simp)
  theorem bB (hB : HBuiltins look) : ∀ (body : ForBody) (S : List String) (s s' : FState Val) (body' : ForBody)
      (T : List Val), stBody S s.bound body = true → freezeBody look s body = .ok (body', s') → s'.tab <+: T →
      localBody T S body' = true
    | .exec e, S, s, s', body', T, hst, hf, htab => by
      simp only [freezeBody] at hf
      split at hf
      · exact absurd hf (by simp)
      · rename_i e1' s1 he
        simp only [Except.ok.injEq, Prod.mk.injEq] at hf
        obtain ⟨rfl, rfl⟩ := hf
        simp only [stBody, Option.isSome_iff_exists] at hst
        obtain ⟨Se, hstE⟩ := hst
        simp only [localBody, bE hB e S Se s s1 e1' T hstE he htab, Option.isSome_some]
    | .yield e into, S, s, s', body', T, hst, hf, htab => by
      simp only [freezeBody] at hf
      split at hf
      · exact absurd hf (by simp)
      · rename_i e1' s1 he
        split at hf
        · exact absurd hf (by simp)
        · rename_i into' s2 hi
          simp only [Except.ok.injEq, Prod.mk.injEq] at hf
          obtain ⟨rfl, rfl⟩ := hf
          simp only [stBody, Bool.and_eq_true, Option.isSome_iff_exists] at hst
          obtain ⟨⟨Se, hstE⟩, hinto⟩ := hst
          rw [← fzE_bound he] at hinto
          simp only [localBody, bE hB e S Se s s1 e1' T hstE he ((fzO_tab hi).trans htab), Option.isSome_some,
            bInto hB hinto hi htab, Bool.and_self]
    | .yieldItem k v into, S, s, s', body', T, hst, hf, htab => by
      simp only [freezeBody] at hf
      split at hf
      · exact absurd hf (by simp)
      · rename_i k1' s1 hk
        split at hf
        · exact absurd hf (by simp)
        · rename_i v1' s2 hv
          split at hf
          · exact absurd hf (by simp)
          · rename_i into' s3 hi
            simp only [Except.ok.injEq, Prod.mk.injEq] at hf
            obtain ⟨rfl, rfl⟩ := hf
            simp only [stBody] at hst
            split at hst
            · rename_i Sk hstK
              rw [← fzE_bound hk] at hst
              simp only [Bool.and_eq_true, Option.isSome_iff_exists] at hst
              obtain ⟨⟨Sv, hstV⟩, hinto⟩ := hst
              rw [← fzE_bound hv] at hinto
              simp only [localBody, bE hB k S Sk s s1 k1' T hstK hk ((fzE_tab hv).trans ((fzO_tab hi).trans htab)),
                bE hB v Sk Sv s1 s2 v1' T hstV hv ((fzO_tab hi).trans htab), Option.isSome_some,
                bInto hB hinto hi htab, Bool.and_self]
            · exact absurd hst (by simp)
  theorem bL (hB : HBuiltins look) : ∀ (es : List Expr) (S S' : List String) (s s' : FState Val) (es' : List Expr)
      (T : List Val), stList S s.bound es = some S' → freezeList look s es = .ok (es', s') → s'.tab <+: T →
      localList T S es' = some S'
    | [], S, S', s, s', es', T, hst, hf, _ => by
      simp only [freezeList, Except.ok.injEq, Prod.mk.injEq] at hf
      obtain ⟨rfl, rfl⟩ := hf
      simpa [stList, localList] using hst
    | x :: xs, S, S', s, s', es', T, hst, hf, htab => by
      obtain ⟨x', s1, xs', hx, hxs, rfl⟩ := freezeList_cons_inv hf
      simp only [stList] at hst
      split at hst
      · rename_i S1 hstX
        rw [← fzE_bound hx] at hst
        have ihx := bE hB x S S1 s s1 x' T hstX hx ((fzL_tab hxs).trans htab)
        have ihl := bL hB xs S1 S' s1 s' xs' T hst hxs htab
        simp only [localList, ihx, ihl]
      · exact absurd hst (by simp)
end

/-- **the bridge**: the frozen form of code that satisfies the strict side condition is local with respect
to (any extension of) the table the freeze produced -/
theorem freeze_output_local (hB : HBuiltins look) (s s' : FState Val) (e e' : Expr) (T : List Val)
    (hf : freezeExpr look s e = .ok (e', s')) (hst : ScopeStrict s.bound e) (htab : s'.tab <+: T) :
    (localOk T s.bound e').isSome = true := by
  unfold ScopeStrict at hst
  obtain ⟨S', hS'⟩ := Option.isSome_iff_exists.mp hst
  rw [bE hB e s.bound S' s s' e' T hS' hf htab]; rfl


end Noulith.C17Bridge
