/-
C12, part 6b — the relational matcher.

`specAssign_iff_Matches`: in a declaring context the executable reference succeeds with `e'` iff the
pattern `Matches` the value (relation of `Spec/Match.lean`: equal length except around one splat,
trailing defaults, literals by `==`, first matching alternative of `or`, both sides of `and`,
operator and struct patterns as inverse images) with a binding list whose declarations lead from
`e` to `e'`.  With `assign_eq_spec` this gives `assign_sound_complete`, the DESIGN's statement.
The three `…_statement` definitions of `Theorems/C12.lean` are discharged here (`…_holds`).
-/
import NoulithModel.Theorems.C12Matches0

namespace Noulith.C12

theorem MatchesItems_nil (T : Ty) (β : Binding) : MatchesItems [] T [] β = (β = []) := rfl
theorem MatchesItems_nil_cons (T : Ty) (v : Val) (vs : List Val) (β : Binding) :
    MatchesItems [] T (v :: vs) β = False := rfl
theorem MatchesItems_cons_nil (p : Pat) (ps : List Pat) (T : Ty) (β : Binding) :
    MatchesItems (p :: ps) T [] β = False := rfl
theorem MatchesItems_splat (inner : Pat) (ps : List Pat) (T : Ty) (v : Val) (vs : List Val) (β : Binding) :
    MatchesItems (.splat inner :: ps) T (v :: vs) β =
      ∃ β1 β2, MatchesItems ps T vs β2 ∧ β = β1 ++ β2 ∧ Matches inner T v β1 := rfl
theorem MatchesItems_annoSplat_none (inner : Pat) (ps : List Pat) (T : Ty) (v : Val) (vs : List Val) (β : Binding) :
    MatchesItems (.anno (.splat inner) none :: ps) T (v :: vs) β =
      ∃ β1 β2, MatchesItems ps T vs β2 ∧ β = β1 ++ β2 ∧ Matches inner .any v β1 := rfl
theorem MatchesItems_annoSplat_some (inner : Pat) (t : Val) (ps : List Pat) (T : Ty) (v : Val) (vs : List Val) (β : Binding) :
    MatchesItems (.anno (.splat inner) (some t) :: ps) T (v :: vs) β =
      ∃ β1 β2, MatchesItems ps T vs β2 ∧ β = β1 ++ β2 ∧ ∃ T', toType t = .ok T' ∧ Matches inner T' v β1 := rfl
theorem MatchesItems_other (p : Pat) (ps : List Pat) (T : Ty) (v : Val) (vs : List Val) (β : Binding)
    (h : isSplatItem p = false) :
    MatchesItems (p :: ps) T (v :: vs) β =
      ∃ β1 β2, MatchesItems ps T vs β2 ∧ β = β1 ++ β2 ∧ Matches p T v β1 := by
  cases p with
  | anno q t => cases q <;> first | rfl | simp [isSplatItem] at h
  | splat q => simp [isSplatItem] at h
  | _ => rfl

theorem declareAll_append (e : Env) (β1 β2 : Binding) :
    declareAll e (β1 ++ β2) = (declareAll e β1).bind (fun e1 => declareAll e1 β2) := by
  induction β1 generalizing e with
  | nil => simp [declareAll]
  | cons b β1 ih =>
    obtain ⟨x, T, v⟩ := b
    simp only [List.cons_append, declareAll]
    rcases hi : e.insert x T v with ⟨e1, o⟩
    cases o with
    | ok u => simp only []; exact ih e1
    | throw => simp
    | panic => simp

theorem declareAll_single (e : Env) (x : Nat) (T : Ty) (v : Val) :
    declareAll e [(x, T, v)] = outToOption (match e.insert x T v with | (e', r) => r.map fun _ => e') := by
  simp only [declareAll]
  rcases hi : e.insert x T v with ⟨e1, o⟩
  cases o <;> simp [outToOption, Out.map, declareAll]

mutual
/-- a pattern without identifiers binds nothing -/
theorem Matches_noIdents_nil : ∀ (p : Pat) (T : Ty) (v : Val) (β : Binding),
    noIdents p = true → Matches p T v β → β = []
  | .underscore, T, v, β, _, h => by unfold Matches at h; exact h.2
  | .ident _ _, _, _, _, hn, _ => by simp [noIdents] at hn
  | .anno p none, T, v, β, hn, h => by
      unfold Matches at h; exact Matches_noIdents_nil p _ v β (by simpa [noIdents] using hn) h
  | .anno p (some t), T, v, β, hn, h => by
      unfold Matches at h
      obtain ⟨T', _, h⟩ := h
      exact Matches_noIdents_nil p _ v β (by simpa [noIdents] using hn) h
  | .withDefault p _, T, v, β, hn, h => by
      unfold Matches at h; exact Matches_noIdents_nil p _ v β (by simpa [noIdents] using hn) h
  | .seq ps d, T, v, β, hn, h => by
      unfold Matches at h
      obtain ⟨_, items, arr, _, _, h⟩ := h
      exact MatchesItems_noIdents_nil ps _ arr β (by simpa [noIdents] using hn) h
  | .splat _, _, _, _, _, h => by unfold Matches at h; exact h.elim
  | .or a b, T, v, β, hn, h => by
      unfold Matches at h
      simp [noIdents] at hn
      rcases h with h | ⟨_, h⟩
      · exact Matches_noIdents_nil a T v β hn.1 h
      · exact Matches_noIdents_nil b T v β hn.2 h
  | .and a b, T, v, β, hn, h => by
      unfold Matches at h
      simp [noIdents] at hn
      obtain ⟨β1, β2, h1, h2, rfl⟩ := h
      rw [Matches_noIdents_nil a T v β1 hn.1 h1, Matches_noIdents_nil b T v β2 hn.2 h2]; rfl
  | .lit _, _, _, β, _, h => by unfold Matches at h; exact h.2
  | .destr f args, T, v, β, hn, h => by
      unfold Matches at h
      obtain ⟨parts, arr, _, _, _, h⟩ := h
      exact MatchesItems_noIdents_nil args _ arr β (by simpa [noIdents] using hn) h
  | .destrStruct sid args, T, v, β, hn, h => by
      unfold Matches at h
      obtain ⟨fields, arr, _, _, h⟩ := h
      exact MatchesItems_noIdents_nil args _ arr β (by simpa [noIdents] using hn) h
theorem MatchesItems_noIdents_nil : ∀ (ps : List Pat) (T : Ty) (vs : List Val) (β : Binding),
    noIdentsL ps = true → MatchesItems ps T vs β → β = []
  | [], T, [], β, _, h => by rw [MatchesItems_nil] at h; exact h
  | [], T, _ :: _, β, _, h => by rw [MatchesItems_nil_cons] at h; exact h.elim
  | _ :: _, T, [], β, _, h => by rw [MatchesItems_cons_nil] at h; exact h.elim
  | p :: ps, T, v :: vs, β, hn, h => by
      simp [noIdentsL] at hn
      have fin : ∀ β1 β2, MatchesItems ps T vs β2 → β = β1 ++ β2 → β1 = [] → β = [] := by
        intro β1 β2 h2 hb h1
        rw [hb, h1, MatchesItems_noIdents_nil ps T vs β2 hn.2 h2]; rfl
      cases p with
      | splat inner =>
        rw [MatchesItems_splat] at h
        obtain ⟨β1, β2, h2, hb, h1⟩ := h
        exact fin β1 β2 h2 hb (Matches_noIdents_nil inner T v β1 (by simpa [noIdents] using hn.1) h1)
      | anno q ann =>
        cases q with
        | splat inner =>
          have hi : noIdents inner = true := by simpa [noIdents] using hn.1
          cases ann with
          | none =>
            rw [MatchesItems_annoSplat_none] at h
            obtain ⟨β1, β2, h2, hb, h1⟩ := h
            exact fin β1 β2 h2 hb (Matches_noIdents_nil inner _ v β1 hi h1)
          | some t =>
            rw [MatchesItems_annoSplat_some] at h
            obtain ⟨β1, β2, h2, hb, T', _, h1⟩ := h
            exact fin β1 β2 h2 hb (Matches_noIdents_nil inner _ v β1 hi h1)
        | _ =>
          rw [MatchesItems_other _ _ _ _ _ _ (by simp [isSplatItem])] at h
          obtain ⟨β1, β2, h2, hb, h1⟩ := h
          exact fin β1 β2 h2 hb (Matches_noIdents_nil _ T v β1 hn.1 h1)
      | _ =>
        rw [MatchesItems_other _ _ _ _ _ _ (by simp [isSplatItem])] at h
        obtain ⟨β1, β2, h2, hb, h1⟩ := h
        exact fin β1 β2 h2 hb (Matches_noIdents_nil _ T v β1 hn.1 h1)
end

/-- the common tail of `seq` / `destr` / `destrStruct`: arrange, then match the items -/
theorem tail_matches (e e' : Env) (ss : List Pat) (T' : Ty) (items : List Val)
    (ih : ∀ (e e' : Env) (arr : List Val), specAssignItems e ss (some T') arr = some e' ↔
      ∃ β, MatchesItems ss T' arr β ∧ declareAll e β = some e') :
    (match specArrange ss items with
      | some arr => specAssignItems e ss (some T') arr
      | none => none) = some e' ↔
    ∃ arr β, Arranged ss items arr ∧ MatchesItems ss T' arr β ∧ declareAll e β = some e' := by
  cases hs : specArrange ss items with
  | none =>
    constructor
    · intro h; simp at h
    · rintro ⟨arr, β, ha, _⟩
      rw [(specArrange_iff_Arranged ss items arr).mpr ha] at hs; simp at hs
  | some arr =>
    simp only []
    constructor
    · intro h
      obtain ⟨β, hm, hd⟩ := (ih e e' arr).mp h
      exact ⟨arr, β, (specArrange_iff_Arranged ss items arr).mp hs, hm, hd⟩
    · rintro ⟨arr', β, ha, hm, hd⟩
      have := (specArrange_iff_Arranged ss items arr').mpr ha
      rw [hs] at this; simp at this; subst this
      exact (ih e e' arr).mpr ⟨β, hm, hd⟩

theorem bind_matches (e e' : Env) (o : Option Env) (k : Env → Option Env)
    (A : Binding → Prop) (B : Binding → Prop)
    (h1 : ∀ e1, o = some e1 ↔ ∃ β1, A β1 ∧ declareAll e β1 = some e1)
    (h2 : ∀ e1 e2, k e1 = some e2 ↔ ∃ β2, B β2 ∧ declareAll e1 β2 = some e2) :
    o.bind k = some e' ↔ ∃ β1 β2, A β1 ∧ B β2 ∧ declareAll e (β1 ++ β2) = some e' := by
  constructor
  · intro h
    cases ho : o with
    | none => simp [ho] at h
    | some e1 =>
      simp [ho] at h
      obtain ⟨β1, ha, hd1⟩ := (h1 e1).mp ho
      obtain ⟨β2, hb, hd2⟩ := (h2 e1 e').mp h
      exact ⟨β1, β2, ha, hb, by rw [declareAll_append, hd1]; simpa using hd2⟩
  · rintro ⟨β1, β2, ha, hb, hd⟩
    rw [declareAll_append] at hd
    cases hd1 : declareAll e β1 with
    | none => simp [hd1] at hd
    | some e1 =>
      simp [hd1] at hd
      have ho := (h1 e1).mpr ⟨β1, ha, hd1⟩
      rw [ho]
      simp
      exact (h2 e1 e').mpr ⟨β2, hb, hd⟩

mutual
/-- **`specAssign` = the relational matcher** in declaring contexts: the reference succeeds with
environment `e'` iff the pattern `Matches` the value with some binding list `β` whose declarations,
made one after the other, lead from `e` to `e'`. -/
theorem specAssign_iff_Matches : ∀ (p : Pat) (e e' : Env) (T : Ty) (v : Val), orClean p = true →
    (specAssign e p (some T) v = some e' ↔ ∃ β, Matches p T v β ∧ declareAll e β = some e')
  | .underscore, e, e', T, v, _ => by
      unfold specAssign Matches
      simp only []
      constructor
      · intro h
        split at h
        · next hty => simp at h; subst h; exact ⟨[], ⟨hty, rfl⟩, rfl⟩
        · simp at h
      · rintro ⟨β, ⟨hty, rfl⟩, hd⟩
        simp [declareAll] at hd; subst hd; simp [hty]
  | .ident x ixs, e, e', T, v, _ => by
      unfold specAssign Matches
      simp only []
      constructor
      · intro h
        split at h
        · next hc =>
          have hix : ixs = [] := by simpa using hc.1
          exact ⟨[(x, T, v)], ⟨hix, hc.2, rfl⟩, by rw [declareAll_single]; exact h⟩
        · simp at h
      · rintro ⟨β, ⟨hix, hty, rfl⟩, hd⟩
        rw [declareAll_single] at hd
        subst hix
        simp [hty, hd]
  | .anno p none, e, e', T, v, h => by
      unfold specAssign Matches
      exact specAssign_iff_Matches p e e' .any v (by simpa [orClean] using h)
  | .anno p (some t), e, e', T, v, h => by
      unfold specAssign Matches
      cases ht : toType t with
      | ok T' =>
        simp only []
        rw [specAssign_iff_Matches p e e' T' v (by simpa [orClean] using h)]
        constructor
        · rintro ⟨β, hm, hd⟩; exact ⟨β, ⟨T', rfl, hm⟩, hd⟩
        · rintro ⟨β, ⟨T'', hT, hm⟩, hd⟩
          simp at hT; subst hT; exact ⟨β, hm, hd⟩
      | throw =>
        simp only []
        constructor
        · intro h'; simp at h'
        · rintro ⟨β, ⟨T'', hT, _⟩, _⟩; simp at hT
      | panic =>
        simp only []
        constructor
        · intro h'; simp at h'
        · rintro ⟨β, ⟨T'', hT, _⟩, _⟩; simp at hT
  | .withDefault p _, e, e', T, v, h => by
      unfold specAssign Matches
      exact specAssign_iff_Matches p e e' T v (by simpa [orClean] using h)
  | .seq ps d, e, e', T, v, h => by
      have hss : orCleanL ps = true := by simpa [orClean] using h
      unfold specAssign Matches
      have tl := fun (T' : Ty) (items : List Val) => tail_matches e e' ps T' items
        (fun e1 e2 arr => specAssignItems_iff_Matches ps e1 e2 T' arr hss)
      cases d with
      | false =>
        simp only [Bool.false_eq_true, if_false, false_implies, true_and]
        cases hv : seqView v with
        | none =>
          simp only [if_true]
          constructor
          · intro h'; simp at h'
          · rintro ⟨β, ⟨items, arr, hi, _⟩, _⟩; simp at hi
        | some items =>
          simp only [if_true]
          refine (tl T items).trans ?_
          constructor
          · rintro ⟨arr, β, ha, hm, hd⟩; exact ⟨β, ⟨items, arr, rfl, ha, hm⟩, hd⟩
          · rintro ⟨β, ⟨items', arr, hi, ha, hm⟩, hd⟩
            simp at hi; subst hi; exact ⟨arr, β, ha, hm, hd⟩
      | true =>
        simp only [if_true, Option.map_some, true_implies]
        by_cases hty : isType T v = .ok true
        · simp only [hty, decide_true, if_true, true_and]
          cases hv : seqView v with
          | none =>
            constructor
            · intro h'; simp at h'
            · rintro ⟨β, ⟨items, arr, hi, _⟩, _⟩; simp at hi
          | some items =>
            simp only []
            refine (tl .any items).trans ?_
            constructor
            · rintro ⟨arr, β, ha, hm, hd⟩; exact ⟨β, ⟨items, arr, rfl, ha, hm⟩, hd⟩
            · rintro ⟨β, ⟨items', arr, hi, ha, hm⟩, hd⟩
              simp at hi; subst hi; exact ⟨arr, β, ha, hm, hd⟩
        · simp only [hty, decide_false, Bool.false_eq_true, if_false, false_and]
          constructor
          · intro h'; exact absurd h' (by simp)
          · rintro ⟨β, h'⟩; exact h'.elim
  | .splat _, e, e', T, v, _ => by
      unfold specAssign Matches
      constructor
      · intro h'; simp at h'
      · rintro ⟨β, h', _⟩; exact h'.elim
  | .or a b, e, e', T, v, h => by
      unfold specAssign Matches
      simp [orClean] at h
      have iha := fun e1 => specAssign_iff_Matches a e e1 T v h.1.2
      have ihb := specAssign_iff_Matches b e e' T v h.2
      cases hsa : specAssign e a (some T) v with
      | some e1 =>
        simp only []
        constructor
        · intro h'
          simp at h'; subst h'
          obtain ⟨β, hm, hd⟩ := (iha e1).mp hsa
          exact ⟨β, Or.inl hm, hd⟩
        · rintro ⟨β, hm | ⟨hno, _⟩, hd⟩
          · have := (iha e').mpr ⟨β, hm, hd⟩
            rw [hsa] at this; exact this
          · obtain ⟨β1, hm1, _⟩ := (iha e1).mp hsa
            exact absurd hm1 (hno β1)
      | none =>
        simp only []
        rw [ihb]
        constructor
        · rintro ⟨β, hm, hd⟩
          refine ⟨β, Or.inr ⟨?_, hm⟩, hd⟩
          intro β' hm'
          have hnil := Matches_noIdents_nil a T v β' h.1.1 hm'
          subst hnil
          have := (iha e).mpr ⟨[], hm', rfl⟩
          rw [hsa] at this; simp at this
        · rintro ⟨β, hm | ⟨_, hm⟩, hd⟩
          · have := (iha e').mpr ⟨β, hm, hd⟩
            rw [hsa] at this; simp at this
          · exact ⟨β, hm, hd⟩
  | .and a b, e, e', T, v, h => by
      unfold specAssign Matches
      simp [orClean] at h
      have hb := bind_matches e e' (specAssign e a (some T) v) (fun e1 => specAssign e1 b (some T) v)
        (fun β => Matches a T v β) (fun β => Matches b T v β)
        (fun e1 => specAssign_iff_Matches a e e1 T v h.1)
        (fun e1 e2 => specAssign_iff_Matches b e1 e2 T v h.2)
      refine Iff.trans (Eq.to_iff (congrArg (· = some e') ?_)) (hb.trans ?_)
      · cases specAssign e a (some T) v <;> rfl
      constructor
      · rintro ⟨β1, β2, h1, h2, hd⟩; exact ⟨β1 ++ β2, ⟨β1, β2, h1, h2, rfl⟩, hd⟩
      · rintro ⟨β, ⟨β1, β2, h1, h2, rfl⟩, hd⟩; exact ⟨β1, β2, h1, h2, hd⟩
  | .lit l, e, e', T, v, _ => by
      unfold specAssign Matches
      constructor
      · intro h'
        split at h'
        · next hv => simp at h'; subst h'; exact ⟨[], ⟨hv, rfl⟩, rfl⟩
        · simp at h'
      · rintro ⟨β, ⟨hv, rfl⟩, hd⟩
        simp [declareAll] at hd; subst hd; simp [hv]
  | .destr f args, e, e', T, v, h => by
      have hss : orCleanL args = true := by simpa [orClean] using h
      unfold specAssign Matches
      have tl := fun (items : List Val) => tail_matches e e' args T items
        (fun e1 e2 arr => specAssignItems_iff_Matches args e1 e2 T arr hss)
      cases hd : destructure f v (args.map knownOf) with
      | ok parts =>
        simp only []
        by_cases hl : parts.length = args.length
        · simp only [hl, if_true]
          refine (tl parts).trans ?_
          constructor
          · rintro ⟨arr, β, ha, hm, hdd⟩
            exact ⟨β, ⟨parts, arr, (destructure_iff_Inverts _ _ _ _).mp hd, hl, ha, hm⟩, hdd⟩
          · rintro ⟨β, ⟨parts', arr, hi, _, ha, hm⟩, hdd⟩
            have := (destructure_iff_Inverts _ _ _ _).mpr hi
            rw [hd] at this; simp at this; subst this
            exact ⟨arr, β, ha, hm, hdd⟩
        · simp only [hl, if_false]
          constructor
          · intro h'; simp at h'
          · rintro ⟨β, ⟨parts', arr, hi, hl', _⟩, _⟩
            have := (destructure_iff_Inverts _ _ _ _).mpr hi
            rw [hd] at this; simp at this; subst this
            exact absurd hl' hl
      | throw =>
        simp only []
        constructor
        · intro h'; simp at h'
        · rintro ⟨β, ⟨parts', arr, hi, _⟩, _⟩
          have := (destructure_iff_Inverts _ _ _ _).mpr hi
          rw [hd] at this; simp at this
      | panic =>
        simp only []
        constructor
        · intro h'; simp at h'
        · rintro ⟨β, ⟨parts', arr, hi, _⟩, _⟩
          have := (destructure_iff_Inverts _ _ _ _).mpr hi
          rw [hd] at this; simp at this
  | .destrStruct sid args, e, e', T, v, h => by
      have hss : orCleanL args = true := by simpa [orClean] using h
      unfold specAssign Matches
      have tl := fun (items : List Val) => tail_matches e e' args T items
        (fun e1 e2 arr => specAssignItems_iff_Matches args e1 e2 T arr hss)
      cases v with
      | inst sid' fields =>
        simp only []
        by_cases hs : sid = sid'
        · subst hs
          simp only [if_true]
          refine (tl fields).trans ?_
          constructor
          · rintro ⟨arr, β, ha, hm, hdd⟩; exact ⟨β, ⟨fields, arr, rfl, ha, hm⟩, hdd⟩
          · rintro ⟨β, ⟨fields', arr, hv, ha, hm⟩, hdd⟩
            simp at hv; subst hv; exact ⟨arr, β, ha, hm, hdd⟩
        · simp only [hs, if_false]
          constructor
          · intro h'; simp at h'
          · rintro ⟨β, ⟨fields', arr, hv, _⟩, _⟩
            simp at hv; exact absurd hv.1.symm hs
      | _ =>
        simp only []
        constructor
        · intro h'; simp at h'
        · rintro ⟨β, ⟨fields', arr, hv, _⟩, _⟩; simp at hv
theorem specAssignItems_iff_Matches : ∀ (ps : List Pat) (e e' : Env) (T : Ty) (vs : List Val),
    orCleanL ps = true →
    (specAssignItems e ps (some T) vs = some e' ↔ ∃ β, MatchesItems ps T vs β ∧ declareAll e β = some e')
  | [], e, e', T, [], _ => by
      rw [specAssignItems_nil]
      constructor
      · intro h; simp at h; subst h; exact ⟨[], by rw [MatchesItems_nil], rfl⟩
      · rintro ⟨β, hm, hd⟩
        rw [MatchesItems_nil] at hm; subst hm; simpa [declareAll] using hd
  | [], e, e', T, v :: vs, _ => by
      rw [specAssignItems_nil_cons]
      constructor
      · intro h; simp at h
      · rintro ⟨β, hm, _⟩; rw [MatchesItems_nil_cons] at hm; exact hm.elim
  | p :: ps, e, e', T, [], _ => by
      rw [specAssignItems_cons_nil]
      constructor
      · intro h; simp at h
      · rintro ⟨β, hm, _⟩; rw [MatchesItems_cons_nil] at hm; exact hm.elim
  | p :: ps, e, e', T, v :: vs, h => by
      simp [orCleanL] at h
      have rest := fun e1 e2 => specAssignItems_iff_Matches ps e1 e2 T vs h.2
      have fin : ∀ (o : Option Env) (A : Binding → Prop),
          (∀ e1, o = some e1 ↔ ∃ β1, A β1 ∧ declareAll e β1 = some e1) →
          (o.bind (fun e1 => specAssignItems e1 ps (some T) vs) = some e' ↔
            ∃ β, (∃ β1 β2, MatchesItems ps T vs β2 ∧ β = β1 ++ β2 ∧ A β1) ∧ declareAll e β = some e') := by
        intro o A hA
        rw [bind_matches e e' o _ A (fun β => MatchesItems ps T vs β) hA rest]
        constructor
        · rintro ⟨β1, β2, h1, h2, hd⟩; exact ⟨β1 ++ β2, ⟨β1, β2, h2, rfl, h1⟩, hd⟩
        · rintro ⟨β, ⟨β1, β2, h2, rfl, h1⟩, hd⟩; exact ⟨β1, β2, h1, h2, hd⟩
      by_cases hsp : isSplatItem p = false
      · have hM := fun β => MatchesItems_other p ps T v vs β hsp
        rw [specAssignItems_other _ _ _ _ _ _ hsp]; simp only [hM]
        exact fin _ _ (fun e1 => specAssign_iff_Matches p e e1 T v h.1)
      · cases p with
        | splat inner =>
          rw [specAssignItems_splat]; simp only [MatchesItems_splat]
          exact fin _ _ (fun e1 => specAssign_iff_Matches inner e e1 T v (by simpa [orClean] using h.1))
        | anno q ann =>
          cases q with
          | splat inner =>
            have hi : orClean inner = true := by simpa [orClean] using h.1
            cases ann with
            | none =>
              rw [specAssignItems_annoSplat]; simp only [MatchesItems_annoSplat_none]
              exact fin _ _ (fun e1 => specAssign_iff_Matches inner e e1 .any v hi)
            | some t =>
              rw [specAssignItems_annoSplat]; simp only [MatchesItems_annoSplat_some]
              apply fin
              intro e1
              cases ht : toType t with
              | ok T' =>
                simp only []
                rw [specAssign_iff_Matches inner e e1 T' v hi]
                constructor
                · rintro ⟨β, hm, hd⟩; exact ⟨β, ⟨T', rfl, hm⟩, hd⟩
                · rintro ⟨β, ⟨T'', hT, hm⟩, hd⟩
                  simp at hT; subst hT; exact ⟨β, hm, hd⟩
              | throw =>
                simp only []
                constructor
                · intro h'; simp at h'
                · rintro ⟨β, ⟨T'', hT, _⟩, _⟩; simp at hT
              | panic =>
                simp only []
                constructor
                · intro h'; simp at h'
                · rintro ⟨β, ⟨T'', hT, _⟩, _⟩; simp at hT
          | _ => simp [isSplatItem] at hsp
        | _ => simp [isSplatItem] at hsp
end

theorem specArrange_iff_Arranged_holds : specArrange_iff_Arranged_statement :=
  specArrange_iff_Arranged

theorem specAssign_iff_Matches_holds : specAssign_iff_Matches_statement :=
  fun e e' p T v h => specAssign_iff_Matches p e e' T v h

/-- **`assign_sound_complete`** (relational form): in a declaring context, `assign` succeeds with
environment `e'` iff the pattern `Matches` the value with a binding list whose declarations lead
from `e` to `e'`; otherwise it raises (it never panics). -/
theorem assign_sound_complete (e e' : Env) (p : Pat) (T : Ty) (v : Val) (h : orClean p = true) :
    assign e p (some T) v = (e', .ok ()) ↔ ∃ β, Matches p T v β ∧ declareAll e β = some e' := by
  rw [← specAssign_iff_Matches p e e' T v h]
  have hs := assign_eq_spec e p (some T) v h
  constructor
  · intro ha
    cases hq : specAssign e p (some T) v with
    | none => have := hs.2 hq; rw [ha] at this; simp at this
    | some e1 => have := hs.1 e1 hq; rw [ha] at this; simp at this; rw [this]
  · intro hq; exact hs.1 e' hq

end Noulith.C12
