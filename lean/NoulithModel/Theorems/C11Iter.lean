/-
C11, part 1 — iteration over a step function and the `Stream` trait defaults.

Everything here is generic in the stream type: for any `next`, if iterating from `s` yields the list
`l` (`Unfolds next s l`, the Spec's `toList`), then the loops of the trait defaults compute exactly
Python indexing / slicing / reversal / length of `l`, for every index and every pair of slice bounds.
-/
import NoulithModel.Spec.StreamSpec

namespace Noulith.C11
open Noulith Noulith.Stream Noulith.StreamSpec

section Iter
variable {σ β : Type} {next : σ → Option (β × σ)}

/-! ## `Unfolds` is a function of the state -/

theorem Unfolds.functional {s : σ} {l₁ l₂ : List β} (h₁ : Unfolds next s l₁) (h₂ : Unfolds next s l₂) :
    l₁ = l₂ := by
  induction h₁ generalizing l₂ with
  | done h =>
    cases h₂ with
    | done _ => rfl
    | step h' _ => rw [h] at h'; cases h'
  | step h _ ih =>
    cases h₂ with
    | done h' => rw [h] at h'; cases h'
    | step h' t =>
      rw [h] at h'
      cases h'
      rw [ih t]

/-- the induction principle used for every finite stream type: a measure that drops by exactly one
with every element and is zero at the end is the number of elements -/
theorem unfolds_of_measure (m : σ → Nat) (P : σ → Prop)
    (hstep : ∀ s v s', P s → next s = some (v, s') → P s' ∧ m s = m s' + 1)
    (hend : ∀ s, P s → next s = none → m s = 0) :
    ∀ n s, P s → m s = n → ∃ l, Unfolds next s l ∧ l.length = n := by
  intro n
  induction n with
  | zero =>
    intro s hp hm
    cases h : next s with
    | none => exact ⟨[], .done h, rfl⟩
    | some p =>
      obtain ⟨v, s'⟩ := p
      have := (hstep s v s' hp h).2
      omega
  | succ n ih =>
    intro s hp hm
    cases h : next s with
    | none => have := hend s hp h; omega
    | some p =>
      obtain ⟨v, s'⟩ := p
      obtain ⟨hp', hm'⟩ := hstep s v s' hp h
      obtain ⟨l, hl, hlen⟩ := ih s' hp' (by omega)
      exact ⟨v :: l, .step h hl, by simp [hlen]⟩

/-- a strictly decreasing measure bounds the number of elements -/
theorem unfolds_of_decreasing (m : σ → Nat) (P : σ → Prop)
    (hstep : ∀ s v s', P s → next s = some (v, s') → P s' ∧ m s' < m s) :
    ∀ n s, P s → m s ≤ n → ∃ l, Unfolds next s l ∧ l.length ≤ n := by
  intro n
  induction n with
  | zero =>
    intro s hp hm
    cases h : next s with
    | none => exact ⟨[], .done h, by simp⟩
    | some p =>
      obtain ⟨v, s'⟩ := p
      have := (hstep s v s' hp h).2
      omega
  | succ n ih =>
    intro s hp hm
    cases h : next s with
    | none => exact ⟨[], .done h, by simp⟩
    | some p =>
      obtain ⟨v, s'⟩ := p
      obtain ⟨hp', hm'⟩ := hstep s v s' hp h
      obtain ⟨l, hl, hlen⟩ := ih s' hp' (by omega)
      exact ⟨v :: l, .step h hl, by simp; omega⟩

/-! ## the loops compute the list operations -/

theorem collect_of_unfolds {s : σ} {l : List β} (h : Unfolds next s l) :
    ∀ fuel, l.length ≤ fuel → collect next fuel s = some l := by
  induction h with
  | done h => intro fuel _; unfold collect; simp [h]
  | step h _ ih =>
    intro fuel hf
    unfold collect
    simp only [h]
    cases fuel with
    | zero => simp at hf
    | succ f => simp [ih f (by simpa using hf)]

theorem count_of_unfolds {s : σ} {l : List β} (h : Unfolds next s l) :
    ∀ fuel, l.length ≤ fuel → count next fuel s = some l.length := by
  induction h with
  | done h => intro fuel _; unfold count; simp [h]
  | step h _ ih =>
    intro fuel hf
    unfold count
    simp only [h]
    cases fuel with
    | zero => simp at hf
    | succ f => simp [ih f (by simpa using hf)]

theorem nth_of_unfolds {s : σ} {l : List β} (h : Unfolds next s l) :
    ∀ i, nth next i s = l[i]? := by
  induction h with
  | done h => intro i; unfold nth; simp [h]
  | step h _ ih =>
    intro i
    unfold nth
    simp only [h]
    cases i with
    | zero => simp
    | succ i => simp [ih i]

theorem takeN_of_unfolds {s : σ} {l : List β} (h : Unfolds next s l) :
    ∀ n, takeN next n s = l.take n := by
  induction h with
  | done h => intro n; cases n <;> simp [takeN, h]
  | step h _ ih =>
    intro n
    cases n with
    | zero => simp [takeN]
    | succ n => simp [takeN, h, ih n]

theorem dropN_unfolds {s : σ} {l : List β} (h : Unfolds next s l) :
    ∀ n, Unfolds next (dropN next n s) (l.drop n) := by
  induction h with
  | done h => intro n; cases n <;> simp [dropN, h] <;> exact .done h
  | step h t ih =>
    intro n
    cases n with
    | zero => simpa [dropN] using Unfolds.step h t
    | succ n => simpa [dropN, h] using ih n

theorem memLoop_of_unfolds [DecidableEq β] {s : σ} {l : List β} (a : β) (h : Unfolds next s l) :
    ∀ fuel, l.length ≤ fuel → memLoop next a fuel s = some (decide (a ∈ l)) := by
  induction h with
  | done h => intro fuel _; unfold memLoop; simp [h]
  | @step s v s' l h _ ih =>
    intro fuel hf
    unfold memLoop
    simp only [h]
    by_cases hv : v = a
    · simp [hv]
    · cases fuel with
      | zero => simp at hf
      | succ f =>
        have hne : ¬ a = v := fun e => hv e.symm
        simp [hv, hne, ih f (by simpa using hf)]

theorem takeWhileLoop_of_unfolds (p : β → Bool) {s : σ} {l : List β} (h : Unfolds next s l) :
    ∀ fuel, l.length ≤ fuel → Strm.takeWhileLoop next p fuel s = some (l.takeWhile p) := by
  induction h with
  | done h => intro fuel _; unfold Strm.takeWhileLoop; simp [h]
  | @step s v s' l h _ ih =>
    intro fuel hf
    unfold Strm.takeWhileLoop
    simp only [h]
    cases hp : p v with
    | false => simp [List.takeWhile, hp]
    | true =>
      cases fuel with
      | zero => simp at hf
      | succ f => simp [List.takeWhile, hp, ih f (by simpa using hf)]

end Iter

/-! ## Python slicing: the clamped bounds of `pythonic_slice` select exactly the positions between
the normalised bounds -/

/-- positions `j` (counted from `k`) with `a ≤ j < b`, as a drop/take -/
theorem filter_zipIdx_eq {α} (l : List α) (k : Nat) (a b : Int) :
    ((l.zipIdx k).filter fun p => decide (a ≤ (p.2 : Int) ∧ (p.2 : Int) < b)).map Prod.fst =
      (l.drop (a - k).toNat).take ((b - max a k).toNat) := by
  induction l generalizing k with
  | nil => simp
  | cons x xs ih =>
    rw [List.zipIdx_cons]
    by_cases hk : a ≤ (k : Int) ∧ (k : Int) < b
    · have h1 : (a - (k : Int)).toNat = 0 := by omega
      have h2 : (b - max a (k : Int)).toNat = (b - max a ((k + 1 : Nat) : Int)).toNat + 1 := by omega
      have h3 : (a - ((k + 1 : Nat) : Int)).toNat = 0 := by omega
      rw [List.filter_cons_of_pos (by simpa using hk), List.map_cons, ih (k + 1), h1, h2, h3]
      simp
    · rw [List.filter_cons_of_neg (by simpa using hk), ih (k + 1)]
      by_cases hlt : (k : Int) < a
      · have h1 : (a - (k : Int)).toNat = (a - ((k + 1 : Nat) : Int)).toNat + 1 := by omega
        have h2 : (b - max a (k : Int)).toNat = (b - max a ((k + 1 : Nat) : Int)).toNat := by omega
        rw [h1, h2]
        simp
      · have hb : b ≤ (k : Int) := by omega
        have h2 : (b - max a (k : Int)).toNat = 0 := by omega
        have h3 : (b - max a ((k + 1 : Nat) : Int)).toNat = 0 := by omega
        rw [h2, h3]
        simp

theorem drop_congr {α} (l : List α) {a a' : Nat} (h : min a l.length = min a' l.length) :
    l.drop a = l.drop a' := by
  by_cases h1 : a = a'
  · rw [h1]
  · have ha : l.length ≤ a := by omega
    have ha' : l.length ≤ a' := by omega
    rw [List.drop_eq_nil_of_le ha, List.drop_eq_nil_of_le ha']

theorem take_drop_congr {α} (l : List α) {a a' n n' : Nat} (h1 : min a l.length = min a' l.length)
    (h2 : min n (l.length - a) = min n' (l.length - a')) :
    (l.drop a).take n = (l.drop a').take n' := by
  rw [drop_congr l h1, List.take_eq_take_iff, List.length_drop]
  omega

/-- `pythonic_slice` + `drain(lo..hi)` is Python's `l[lo:hi]`, for every pair of bounds -/
theorem pySlice_spec {α} (l : List α) (lo hi : Option Int) :
    sliceList l (pySlice l.length lo hi).1 (pySlice l.length lo hi).2 = pySliceSpec l lo hi := by
  unfold pySliceSpec
  simp only []
  rw [filter_zipIdx_eq l 0]
  unfold sliceList pySlice clampIdx norm
  apply take_drop_congr
  · cases lo <;> simp only [] <;> (try split) <;> (try split) <;> omega
  · cases lo <;> cases hi <;> simp only [] <;> (repeat' split) <;> omega

theorem pySliceSpec_none_lo {α} (l : List α) (hi : Option Int) :
    pySliceSpec l none hi = pySliceSpec l (some 0) hi := by
  unfold pySliceSpec norm
  simp

/-! ## the trait defaults on a stream that unfolds to `l` -/
section Defaults
variable {σ β : Type} {next : σ → Option (β × σ)}

/-- the Spec's reading of `s[i]`: Python indexing of the list, an index error outside -/
def idxRes (l : List β) (i : Int) : R β :=
  match pyIndex l i with
  | some v => .ok v
  | none => .throw

/-- a slice result has the right content: the list itself, or a stream that unfolds to it -/
def SliceOk (next : σ → Option (β × σ)) : SliceRes σ β → List β → Prop
  | .list l', m => l' = m
  | .strm s', m => Unfolds next s' m

theorem defaultLen_eq {bound : σ → Option Nat} {s : σ} {l : List β} {b : Nat}
    (h : Unfolds next s l) (hb : bound s = some b) (hle : l.length ≤ b) :
    defaultLen next bound s = .ok (some l.length) := by
  unfold defaultLen
  simp [hb, count_of_unfolds h b hle]

theorem defaultForce_eq {bound : σ → Option Nat} {s : σ} {l : List β} {b : Nat}
    (h : Unfolds next s l) (hb : bound s = some b) (hle : l.length ≤ b) :
    defaultForce next bound s = .ok l := by
  unfold defaultForce
  simp [hb, collect_of_unfolds h b hle]

theorem defaultIndex_eq {force : σ → R (List β)} {s : σ} {l : List β}
    (h : Unfolds next s l) (hf : force s = .ok l) (i : Int) :
    defaultIndex next force s i = idxRes l i := by
  unfold defaultIndex idxRes pyIndex
  by_cases hi : 0 ≤ i
  · simp only [hi, if_true, nth_of_unfolds h]
    cases l[i.toNat]? <;> rfl
  · simp only [hi, if_false, hf, R.bind, negIndex]
    by_cases h2 : 0 ≤ i + (l.length : Int)
    · have h3 : i + (l.length : Int) < (l.length : Int) := by omega
      simp only [h2, h3, and_self, if_true]
      cases l[(i + (l.length : Int)).toNat]? <;> rfl
    · have h3 : ¬ (0 ≤ i + (l.length : Int) ∧ i + (l.length : Int) < (l.length : Int)) := by omega
      simp [h2]

theorem defaultSlice_eq {force : σ → R (List β)} {s : σ} {l : List β}
    (h : Unfolds next s l) (hf : force s = .ok l) (lo hi : Option Int) :
    ∃ r, defaultSlice next force s lo hi = .ok r ∧ SliceOk next r (pySliceSpec l lo hi) := by
  have hspec : pySliceSpec l lo hi = pySliceSpec l (some (lo.getD 0)) hi := by
    cases lo with
    | none => exact pySliceSpec_none_lo l hi
    | some a => rfl
  rw [hspec, ← pySlice_spec]
  unfold defaultSlice
  generalize lo.getD 0 = a
  cases hi with
  | none =>
    by_cases ha : 0 ≤ a
    · refine ⟨.strm (dropN next a.toNat s), by simp [ha], ?_⟩
      show Unfolds next _ _
      have e : sliceList l (pySlice l.length (some a) none).1 (pySlice l.length (some a) none).2
          = l.drop a.toNat := by
        unfold sliceList pySlice clampIdx
        simp only [ha, if_true]
        have hd : l.drop (min a.toNat l.length) = l.drop a.toNat := drop_congr l (by omega)
        rw [hd]
        apply List.take_of_length_le
        rw [List.length_drop]
        omega
      rw [e]
      exact dropN_unfolds h _
    · refine ⟨.list _, by simp [ha, hf, R.bind], rfl⟩
  | some b =>
    by_cases hab : 0 ≤ a ∧ 0 ≤ b
    · refine ⟨.list (takeN next (b.toNat - a.toNat) (dropN next a.toNat s)), by simp [hab], ?_⟩
      show _ = _
      rw [takeN_of_unfolds (dropN_unfolds h _)]
      unfold sliceList pySlice clampIdx
      simp only [hab.1, hab.2, if_true]
      apply take_drop_congr
      · omega
      · omega
    · refine ⟨.list _, by simp [hab, hf, R.bind], rfl⟩

theorem defaultReversed_eq {force : σ → R (List β)} {s : σ} {l : List β} (hf : force s = .ok l) :
    defaultReversed force s = .ok (.list l.reverse : SliceRes σ β) := by
  simp [defaultReversed, hf, R.bind]

end Defaults

/-! ## coherence of one stream state with a list

`Coherent o s l`: every trait method of the stream type `o`, applied to the state `s`, answers what
the list `l` answers.  This is the content of C11 for one state; the per-type theorems establish it
for every reachable state of every finite stream type, the adaptor theorems propagate it. -/
structure Coherent {σ β : Type} (o : Ops σ β) (s : σ) (l : List β) : Prop where
  unfolds : Unfolds o.next s l
  bound : ∃ b, o.bound s = some b ∧ l.length ≤ b
  len : o.len s = .ok (some l.length)
  force : o.force s = .ok l
  peek : o.peek s = l.head?
  index : ∀ i, o.index s i = idxRes l i
  slice : ∀ lo hi, ∃ r, o.slice s lo hi = .ok r ∧ SliceOk o.next r (pySliceSpec l lo hi)
  reversed : o.reversed s = .ok (.list l.reverse)

/-- a type built with `Ops.build` is coherent as soon as its own `next`/`peek`/`bound`/`len`/`force`
are: index, slice and `reversed` are the trait defaults -/
theorem coherent_build {σ β : Type} {next : σ → Option (β × σ)} {peek : σ → Option β}
    {bound : σ → Option Nat} {len : σ → R (Option Nat)} {force : σ → R (List β)} {s : σ} {l : List β}
    (h : Unfolds next s l) (hb : ∃ b, bound s = some b ∧ l.length ≤ b)
    (hlen : len s = .ok (some l.length)) (hforce : force s = .ok l) (hpeek : peek s = l.head?) :
    Coherent (Ops.build next peek bound len force) s l :=
  { unfolds := h, bound := hb, len := hlen, force := hforce, peek := hpeek
    index := defaultIndex_eq h hforce
    slice := defaultSlice_eq h hforce
    reversed := defaultReversed_eq hforce }

/-- a type that overrides nothing (`Combinations`, the lazy adaptors) -/
theorem coherent_plain {σ β : Type} {next : σ → Option (β × σ)} {peek : σ → Option β}
    {bound : σ → Option Nat} {s : σ} {l : List β}
    (h : Unfolds next s l) (hb : ∃ b, bound s = some b ∧ l.length ≤ b) (hpeek : peek s = l.head?) :
    Coherent (Ops.plain next peek bound) s l := by
  obtain ⟨b, hb1, hb2⟩ := hb
  exact coherent_build h ⟨b, hb1, hb2⟩ (defaultLen_eq h hb1 hb2) (defaultForce_eq h hb1 hb2) hpeek

/-- a type that overrides `len` only (`Range`, `Permutations`, `Subsequences`, `CartesianPower`) -/
theorem coherent_withLen {σ β : Type} {next : σ → Option (β × σ)} {peek : σ → Option β}
    {bound : σ → Option Nat} {len : σ → R (Option Nat)} {s : σ} {l : List β}
    (h : Unfolds next s l) (hb : ∃ b, bound s = some b ∧ l.length ≤ b)
    (hlen : len s = .ok (some l.length)) (hpeek : peek s = l.head?) :
    Coherent (Ops.withLen next peek bound len) s l := by
  obtain ⟨b, hb1, hb2⟩ := hb
  exact coherent_build h ⟨b, hb1, hb2⟩ hlen (defaultForce_eq h hb1 hb2) hpeek

/-- coherence is inherited by every position reached by dropping a prefix, provided the type's
`len`/`peek`/`bound` are right there too — stated for the slice `s[n:]` the property names -/
theorem Coherent.drop_unfolds {σ β : Type} {o : Ops σ β} {s : σ} {l : List β} (h : Coherent o s l) (n : Nat) :
    ∃ r, o.slice s (some (n : Int)) none = .ok r ∧ SliceOk o.next r (l.drop n) := by
  obtain ⟨r, hr, hok⟩ := h.slice (some (n : Int)) none
  refine ⟨r, hr, ?_⟩
  have e : pySliceSpec l (some (n : Int)) none = l.drop n := by
    rw [← pySlice_spec]
    unfold sliceList pySlice clampIdx
    have h0 : (0 : Int) ≤ (n : Int) := by omega
    simp only [h0, if_true, Int.toNat_natCast]
    have hd : l.drop (min n l.length) = l.drop n := drop_congr l (by omega)
    rw [hd]
    apply List.take_of_length_le
    rw [List.length_drop]
    omega
  rw [e] at hok
  exact hok

/-! ## the consumers (`len`, `list`, index, slice, `reverse`, `first`/`last`, `in`, truthiness,
unpacking, take/drop-while) on a coherent stream equal the same operation on its list -/

/-- `peek` agrees with `next` in every state (a property of the stream *type*) -/
def PeekNext {σ β : Type} (o : Ops σ β) : Prop := ∀ s, o.peek s = (o.next s).map Prod.fst

section Consumers
variable {β : Type} {s : Strm β} {l : List β}

theorem len_eq (h : Coherent s.ops s.st l) : s.len = .ok (some l.length) := h.len

theorem toList_eq (h : Coherent s.ops s.st l) : s.toList = .ok l := by
  obtain ⟨b, hb1, hb2⟩ := h.bound
  exact defaultForce_eq h.unfolds hb1 hb2

theorem index_eq (h : Coherent s.ops s.st l) (i : Int) : s.index i = idxRes l i := h.index i

theorem first_eq (h : Coherent s.ops s.st l) :
    s.index 0 = (match l.head? with | some v => .ok v | none => .throw) := by
  rw [index_eq h 0]
  unfold idxRes pyIndex
  cases l <;> simp

theorem last_eq (h : Coherent s.ops s.st l) :
    s.index (-1) = (match l.getLast? with | some v => .ok v | none => .throw) := by
  rw [index_eq h (-1)]
  unfold idxRes pyIndex
  cases hl : l with
  | nil => simp
  | cons x xs =>
    have h1 : ¬ (0 : Int) ≤ -1 := by omega
    have h2 : (0 : Int) ≤ -1 + ((x :: xs).length : Int) := by simp; omega
    have h3 : (-1 + ((x :: xs).length : Int)).toNat = (x :: xs).length - 1 := by simp; omega
    simp only [h1, h2, if_true, if_false, h3, List.getLast?_eq_getElem?]

/-- the content of a slice / reversal result -/
def content (s : Strm β) : Sum (List β) (Strm β) → List β → Prop
  | .inl l', m => l' = m
  | .inr t, m => t.σ = s.σ ∧ Unfolds t.ops.next t.st m

theorem slice_eq (h : Coherent s.ops s.st l) (lo hi : Option Int) :
    ∃ r, s.slice lo hi = .ok r ∧
      (match r with
       | .inl l' => l' = pySliceSpec l lo hi
       | .inr t => Unfolds t.ops.next t.st (pySliceSpec l lo hi)) := by
  obtain ⟨r, hr, hok⟩ := h.slice lo hi
  refine ⟨s.ofSlice r, by simp [Strm.slice, hr, R.map, R.bind], ?_⟩
  cases r with
  | list l' => exact hok
  | strm s' => exact hok

theorem reversed_eq (h : Coherent s.ops s.st l) : s.reversed = .ok (.inl l.reverse) := by
  simp [Strm.reversed, h.reversed, R.map, R.bind, Strm.ofSlice]

theorem truthy_eq (h : Coherent s.ops s.st l) : s.truthy = .ok (!l.isEmpty) := by
  simp only [Strm.truthy, len_eq h, R.map, R.bind]
  cases l <;> simp

theorem only_eq (h : Coherent s.ops s.st l) :
    s.only = (match l with | [v] => .ok v | _ => .throw) := by
  simp only [Strm.only, len_eq h, R.bind]
  match l, h with
  | [], _ => rfl
  | [v], h => simpa [idxRes, pyIndex] using index_eq h 0
  | _ :: _ :: _, _ => rfl

theorem mem_eq [DecidableEq β] (h : Coherent s.ops s.st l) (a : β) :
    s.mem a = .ok (decide (a ∈ l)) := by
  obtain ⟨b, hb1, hb2⟩ := h.bound
  simp [Strm.mem, hb1, fuelOf, memLoop_of_unfolds a h.unfolds b hb2]

theorem unpack_eq (h : Coherent s.ops s.st l) (k : Nat) :
    s.unpack k = if k = l.length then .ok l else .throw := by
  simp only [Strm.unpack, len_eq h, R.bind, toList_eq h]
  by_cases hk : k = l.length
  · simp [hk]
  · simp [hk]

theorem unpackSplat_eq (h : Coherent s.ops s.st l) (a b : Nat) (hab : a + b ≤ l.length) :
    s.unpackSplat a b =
      .ok (l.take a, (l.drop a).take (l.length - a - b), l.drop (l.length - b)) := by
  simp [Strm.unpackSplat, len_eq h, R.bind, toList_eq h, hab]

theorem takeWhile_eq (h : Coherent s.ops s.st l) (p : β → Bool) :
    s.takeWhile p = .ok (l.takeWhile p) := by
  obtain ⟨b, hb1, hb2⟩ := h.bound
  simp [Strm.takeWhile, hb1, fuelOf, takeWhileLoop_of_unfolds p h.unfolds b hb2]

theorem dropWhileLoop_of_unfolds {σ : Type} {o : Ops σ β} (hp : PeekNext o) (p : β → Bool)
    {st : σ} (hu : Unfolds o.next st l) :
    ∀ fuel, l.length ≤ fuel →
      ∃ st', Strm.dropWhileLoop o p fuel st = some st' ∧ Unfolds o.next st' (l.dropWhile p) := by
  induction hu with
  | @done st h =>
    intro fuel _
    refine ⟨st, ?_, .done h⟩
    unfold Strm.dropWhileLoop
    simp [hp st, h]
  | @step st v st' l h t ih =>
    intro fuel hf
    unfold Strm.dropWhileLoop
    simp only [hp st, h, Option.map]
    cases hv : p v with
    | false =>
      refine ⟨st, by simp, ?_⟩
      simp only [List.dropWhile, hv]
      exact .step h t
    | true =>
      cases fuel with
      | zero => simp at hf
      | succ f =>
        obtain ⟨st'', h1, h2⟩ := ih f (by simpa using hf)
        refine ⟨st'', by simpa using h1, ?_⟩
        simpa [List.dropWhile, hv] using h2

theorem dropWhile_eq (h : Coherent s.ops s.st l) (hp : PeekNext s.ops) (p : β → Bool) :
    ∃ t, s.dropWhile p = .ok t ∧ Unfolds t.ops.next t.st (l.dropWhile p) := by
  obtain ⟨b, hb1, hb2⟩ := h.bound
  obtain ⟨st', h1, h2⟩ := dropWhileLoop_of_unfolds hp p h.unfolds b hb2
  exact ⟨{ s with st := st' }, by simp [Strm.dropWhile, hb1, fuelOf, h1], h2⟩

end Consumers

end Noulith.C11
