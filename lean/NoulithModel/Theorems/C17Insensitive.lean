/-
C17 (supplement, stage 2) — "binds free variables eagerly": frozen first-order code does not depend on the
outer variables at the time of use.

`localOk T S e`: `e` is first-order code in which EVERY identifier — read, assigned or op-assigned — is
surely declared locally when control reaches it (`S`: the names surely declared so far, initially e.g. the
parameters), callees and `into` functions are `Frozen` nodes holding builtins (`T`: the table of frozen
values), and there is no `lambda`, `freeze`, `eval`.  This is what frozen code looks like when the
original satisfied `ScopeOK` and read no conditionally declared name: its free identifiers have become
`Frozen` nodes (`freeze_closed`), the others are local.

`frozen_code_reads_only_local_frames`: evaluating such code commutes with `cut n` — forgetting the
contents of every frame older than `n`, where `n` is (at most) the oldest frame holding one of the surely
declared names.  Hence (`frozen_code_insensitive`) two stores that agree on the frames `≥ n` give the same
result and the same new frames, whatever the older frames — the outer variables — hold.
-/
import NoulithModel.Theorems.C17Cut
import NoulithModel.Theorems.C17FirstOrder

namespace Noulith.C17Insensitive
open Noulith Noulith.Core Noulith.C17Frames Noulith.C17Cut
open Noulith.C17Preserve (IsVal IsOk PostFn isVal_val isOk_ok not_isVal_brk not_isVal_cont not_isVal_ret
  not_isVal_thrown not_isVal_fuelOut not_isOk_stop evalList_stop_not_val)

/-- entry `i` of the table of frozen values is a builtin -/
def builtinAt (T : List Val) (i : Nat) : Bool :=
  match T[i]? with
  | some (.builtin _) => true
  | _ => false

def localInto (T : List Val) : Option Expr → Bool
  | none => true
  | some (.frozen i) => builtinAt T i
  | some _ => false

mutual
  def localOk (T : List Val) : List String → Expr → Option (List String)
    | S, .null => some S
    | S, .int _ => some S
    | S, .str _ => some S
    | S, .cont _ => some S
    | S, .frozen _ => some S
    | S, .ident x => if S.contains x then some S else none
    | S, .list xs => localList T S xs
    | S, .op _ a b => match localOk T S a with | some S1 => localOk T S1 b | none => none
    | S, .index a b => match localOk T S a with | some S1 => localOk T S1 b | none => none
    | S, .call (.frozen i) args => if builtinAt T i then localList T S args else none
    | S, .and_ a b =>
      match localOk T S a with
      | some S1 => match localOk T S1 b with | some _ => some S1 | none => none
      | none => none
    | S, .or_ a b =>
      match localOk T S a with
      | some S1 => match localOk T S1 b with | some _ => some S1 | none => none
      | none => none
    | S, .coalesce a b =>
      match localOk T S a with
      | some S1 => match localOk T S1 b with | some _ => some S1 | none => none
      | none => none
    | S, .seq xs _ => localList T S xs
    | S, .ite c t e =>
      match localOk T S c with
      | some S1 =>
        match localOk T S1 t with
        | some _ => match localOpt T S1 e with | some _ => some S1 | none => none
        | none => none
      | none => none
    | S, .while_ c b =>
      match localOk T S c with
      | some S1 => match localOk T S1 b with | some _ => some S | none => none
      | none => none
    | S, .for_ its body =>
      match localIts T S its with
      | some S2 => if localBody T S2 body then some S else none
      | none => none
    | S, .declare p rhs =>
      match localOk T S rhs with
      | some S1 => some (S1 ++ Pat.idents p)
      | none => none
    | S, .assign x rhs => if S.contains x then localOk T S rhs else none
    | S, .opassign x _ rhs => if S.contains x then localOk T S rhs else none
    | S, .brk _ e => localOpt T S e
    | S, .ret e => localOpt T S e
    | S, .throw_ e => localOk T S e
    | S, .try_ b p c =>
      match localOk T S b with
      | some _ => match localOk T (S ++ Pat.idents p) c with | some _ => some S | none => none
      | none => none
    | S, .switch_ sc arms =>
      match localOk T S sc with
      | some S1 => if localArms T S1 arms then some S1 else none
      | none => none
    | _, _ => none
  def localArms (T : List Val) : List String → List SwitchArm → Bool
    | _, [] => true
    | S, .mk p body :: rest => (localOk T (S ++ Pat.idents p) body).isSome && localArms T S rest
  def localList (T : List Val) : List String → List Expr → Option (List String)
    | S, [] => some S
    | S, x :: xs => match localOk T S x with | some S1 => localList T S1 xs | none => none
  def localOpt (T : List Val) : List String → Option Expr → Option (List String)
    | S, none => some S
    | S, some x => localOk T S x
  def localIts (T : List Val) : List String → List ForIt → Option (List String)
    | S, [] => some S
    | S, .guard g :: rest => match localOk T S g with | some S1 => localIts T S1 rest | none => none
    | S, .iter _ p e :: rest =>
      match localOk T S e with | some S1 => localIts T (S1 ++ Pat.idents p) rest | none => none
  def localBody (T : List Val) : List String → ForBody → Bool
    | S, .exec e => (localOk T S e).isSome
    | S, .yield e into => (localOk T S e).isSome && localInto T into
    | S, .yieldItem k v into =>
      match localOk T S k with
      | some S1 => (localOk T S1 v).isSome && localInto T into
      | none => false
end

/-- every name of `S` has a declaration on the scope chain of `env` in a frame not older than `n` -/
def Sure (S : List String) (st : State) (env n : Nat) : Prop := ∀ x, x ∈ S → DeclAbove st.frames env n x

theorem Sure.ext {S : List String} {st st' : State} {env n : Nat} (h : Sure S st env n) (hx : Ext st st') :
    Sure S st' env n := fun x hxS => (h x hxS).ext hx.1

/-- the precondition of one evaluation step -/
structure G (T : List Val) (n : Nat) (S : List String) (st : State) (env : Nat) : Prop where
  wf : WF st
  ge : n ≤ env
  lt : env < st.frames.size
  sure : Sure S st env n
  tab : T <+: st.frozenTab

/-- …and what it guarantees -/
structure P2 (n : Nat) (S' : List String) (st st1 : State) (env : Nat) (normal : Prop) : Prop where
  ext : Ext st st1
  wf : WF st1
  sure : normal → Sure S' st1 env n
  /-- no variable of a frame older than `n` was changed -/
  old : OldKept st st1 n []

variable {T : List Val} {n : Nat}

theorem P2.toG {S S' : List String} {st st1 : State} {env : Nat} {nm : Prop} (h : P2 n S' st st1 env nm)
    (g : G T n S st env) (hn : nm) : G T n S' st1 env :=
  ⟨h.wf, g.ge, Nat.lt_of_lt_of_le g.lt h.ext.1.1, h.sure hn, by rw [h.ext.2]; exact g.tab⟩

/-- restart from the names that were sure before the step -/
theorem P2.toG_keep {S S' : List String} {st st1 : State} {env : Nat} {nm : Prop} (h : P2 n S' st st1 env nm)
    (g : G T n S st env) : G T n S st1 env :=
  ⟨h.wf, g.ge, Nat.lt_of_lt_of_le g.lt h.ext.1.1, g.sure.ext h.ext, by rw [h.ext.2]; exact g.tab⟩

theorem P2.refl {S S' : List String} {st : State} {env : Nat} (nm : Prop) (g : G T n S st env)
    (hS : ∀ x, x ∈ S' → x ∈ S) : P2 n S' st st env nm :=
  ⟨Ext.refl _, g.wf, fun _ x hx => g.sure x (hS x hx), OldKept.refl _ _ _⟩

theorem P2.seq {S1 S2 : List String} {st st1 st2 : State} {env : Nat} {nm1 nm2 : Prop}
    (h1 : P2 n S1 st st1 env nm1) (h2 : P2 n S2 st1 st2 env nm2) : P2 n S2 st st2 env nm2 :=
  ⟨h1.ext.trans h2.ext, h2.wf, h2.sure, h1.old.trans h2.old⟩

/-- after any number of steps the names that were sure at the start still are -/
theorem P2.keep {S S' : List String} {st st1 : State} {env : Nat} {nm nm' : Prop} (h : P2 n S' st st1 env nm)
    (g : G T n S st env) : P2 n S st st1 env nm' :=
  ⟨h.ext, h.wf, fun _ => g.sure.ext h.ext, h.old⟩

theorem P2.imp {S' : List String} {st st1 : State} {env : Nat} {nm nm' : Prop} (h : P2 n S' st st1 env nm)
    (hi : nm' → nm) : P2 n S' st st1 env nm' := ⟨h.ext, h.wf, fun hv => h.sure (hi hv), h.old⟩

theorem P2.abort {S' S'' : List String} {st st1 : State} {env : Nat} {nm nm' : Prop} (h : P2 n S' st st1 env nm)
    (hr : ¬ nm') : P2 n S'' st st1 env nm' := ⟨h.ext, h.wf, fun hv => absurd hv hr, h.old⟩

/-! ### the statements -/

def cutRL (n : Nat) (r : ResL × State) : ResL × State := (r.1, cut n r.2)
def cutR3 (n : Nat) (r : Res × State × ForAcc) : Res × State × ForAcc := (r.1, cut n r.2.1, r.2.2)

syntax "eqok2" : tactic
macro_rules
  | `(tactic| eqok2) => `(tactic| first | trivial | rfl)

syntax "notval2" : tactic
macro_rules
  | `(tactic| notval2) => `(tactic|
      first | exact not_isVal_brk _ _ | exact not_isVal_cont _ | exact not_isVal_ret _
            | exact not_isVal_thrown _ | exact not_isVal_fuelOut | exact not_isOk_stop _)

variable (T n)

def CEv (k : Nat) : Prop :=
  ∀ (S S' : List String) (e : Expr) (st : State) (env : Nat),
    localOk T S e = some S' → G T n S st env →
    eval k (cut n st) env e = cutR n (eval k st env e) ∧
      P2 n S' st (eval k st env e).2 env (IsVal (eval k st env e).1)

def CList (k : Nat) : Prop :=
  ∀ (S S' : List String) (es : List Expr) (st : State) (env : Nat),
    localList T S es = some S' → G T n S st env →
    evalList k (cut n st) env es = cutRL n (evalList k st env es) ∧
      P2 n S' st (evalList k st env es).2 env (IsOk (evalList k st env es).1)

def CSeq (k : Nat) : Prop :=
  ∀ (S S' : List String) (es : List Expr) (st : State) (env : Nat),
    localList T S es = some S' → G T n S st env →
    evalSeq k (cut n st) env es = cutR n (evalSeq k st env es) ∧
      P2 n S' st (evalSeq k st env es).2 env (IsVal (evalSeq k st env es).1)

def CSwitch (k : Nat) : Prop :=
  ∀ (S : List String) (arms : List SwitchArm) (st : State) (env : Nat) (v : Val),
    localArms T S arms = true → G T n S st env →
    evalSwitch k (cut n st) env v arms = cutR n (evalSwitch k st env v arms) ∧
      P2 n S st (evalSwitch k st env v arms).2 env (IsVal (evalSwitch k st env v arms).1)

def CWhile (k : Nat) : Prop :=
  ∀ (S S1 S2 : List String) (c b : Expr) (st : State) (env : Nat),
    localOk T S c = some S1 → localOk T S1 b = some S2 → G T n S st env →
    evalWhile k (cut n st) env c b = cutR n (evalWhile k st env c b) ∧
      P2 n S st (evalWhile k st env c b).2 env (IsVal (evalWhile k st env c b).1)

def CFor (k : Nat) : Prop :=
  ∀ (S S2 : List String) (its : List ForIt) (body : ForBody) (st : State) (env : Nat) (acc : ForAcc),
    localIts T S its = some S2 → localBody T S2 body = true → G T n S st env →
    evalFor k (cut n st) env its body acc = cutR3 n (evalFor k st env its body acc) ∧
      P2 n S st (evalFor k st env its body acc).2.1 env (IsVal (evalFor k st env its body acc).1)

def CItems (k : Nat) : Prop :=
  ∀ (S S2 : List String) (p : Pat) (items : List Val) (rest : List ForIt) (body : ForBody) (st : State)
    (env : Nat) (acc : ForAcc),
    localIts T (S ++ Pat.idents p) rest = some S2 → localBody T S2 body = true → G T n S st env →
    forItems k (cut n st) env p items rest body acc = cutR3 n (forItems k st env p items rest body acc) ∧
      P2 n S st (forItems k st env p items rest body acc).2.1 env
        (IsVal (forItems k st env p items rest body acc).1)

def CBody (k : Nat) : Prop :=
  ∀ (S : List String) (body : ForBody) (st : State) (env : Nat) (acc : ForAcc),
    localBody T S body = true → G T n S st env →
    forBody k (cut n st) env body acc = cutR3 n (forBody k st env body acc) ∧
      P2 n S st (forBody k st env body acc).2.1 env (IsVal (forBody k st env body acc).1)

structure Pres2 (k : Nat) : Prop where
  ev : CEv T n k
  evList : CList T n k
  evSeq : CSeq T n k
  evSwitch : CSwitch T n k
  evWhile : CWhile T n k
  evFor : CFor T n k
  fItems : CItems T n k
  fBody : CBody T n k

theorem Pres2.zero : Pres2 T n 0 where
  ev := fun S S' e st env _ g =>
    ⟨by simp only [eval, cutR], by simp only [eval]; exact (P2.refl (S' := S) True g (fun _ h => h)).abort not_isVal_fuelOut⟩
  evList := fun S S' es st env _ g =>
    ⟨by simp only [evalList, cutRL], by
      simp only [evalList]; exact (P2.refl (S' := S) True g (fun _ h => h)).abort (not_isOk_stop _)⟩
  evSeq := fun S S' es st env _ g =>
    ⟨by simp only [evalSeq, cutR], by
      simp only [evalSeq]; exact (P2.refl (S' := S) True g (fun _ h => h)).abort not_isVal_fuelOut⟩
  evSwitch := fun S arms st env v _ g =>
    ⟨by simp only [evalSwitch, cutR], by simp only [evalSwitch]; exact P2.refl _ g (fun _ h => h)⟩
  evWhile := fun S S1 S2 c b st env _ _ g =>
    ⟨by simp only [evalWhile, cutR], by simp only [evalWhile]; exact P2.refl _ g (fun _ h => h)⟩
  evFor := fun S S2 its body st env acc _ _ g =>
    ⟨by simp only [evalFor, cutR3], by simp only [evalFor]; exact P2.refl _ g (fun _ h => h)⟩
  fItems := fun S S2 p items rest body st env acc _ _ g =>
    ⟨by simp only [forItems, cutR3], by simp only [forItems]; exact P2.refl _ g (fun _ h => h)⟩
  fBody := fun S body st env acc _ g =>
    ⟨by simp only [forBody, cutR3], by simp only [forBody]; exact P2.refl _ g (fun _ h => h)⟩

variable {T n}


/-! ### leaves and two-operand forms -/

theorem lookup_cut {S : List String} {st : State} {env : Nat} (g : G T n S st env) {x : String} (hx : x ∈ S) :
    (cut n st).lookup env x = st.lookup env x := by
  unfold State.lookup
  simp only [cut_frames, cutF_size]
  exact lookupVar_cut n st.frames g.wf x _ env (g.sure x hx)

theorem c_ident {k : Nat} {S S' : List String} {x : String} {st : State} {env : Nat}
    (hok : localOk T S (.ident x) = some S') (g : G T n S st env) :
    eval (k + 1) (cut n st) env (.ident x) = cutR n (eval (k + 1) st env (.ident x)) ∧
      P2 n S' st (eval (k + 1) st env (.ident x)).2 env (IsVal (eval (k + 1) st env (.ident x)).1) := by
  simp only [localOk] at hok
  split at hok
  · rename_i hx
    simp only [Option.some.injEq] at hok
    subst hok
    have hx' : x ∈ S := by simpa using hx
    simp only [eval, lookup_cut g hx', cutR]
    cases st.lookup env x with
    | some v => exact ⟨by eqok2, P2.refl _ g (fun _ h => h)⟩
    | none =>
      dsimp only
      split <;> exact ⟨by eqok2, P2.refl _ g (fun _ h => h)⟩
  · exact absurd hok (by simp)

theorem c_op {k : Nat} (ih : Pres2 T n k) {S S' : List String} {name : String} {a b : Expr} {st : State} {env : Nat}
    (hok : localOk T S (.op name a b) = some S') (g : G T n S st env) :
    eval (k + 1) (cut n st) env (.op name a b) = cutR n (eval (k + 1) st env (.op name a b)) ∧
      P2 n S' st (eval (k + 1) st env (.op name a b)).2 env (IsVal (eval (k + 1) st env (.op name a b)).1) := by
  simp only [localOk] at hok
  split at hok
  · rename_i S1 hokA
    obtain ⟨ea, pa⟩ := ih.ev S S1 a st env hokA g
    simp only [eval, ea]
    rcases hra : eval k st env a with ⟨ra, st1⟩
    rw [hra] at pa
    simp only [cutR]
    cases ra with
    | val va =>
      obtain ⟨eb, pb⟩ := ih.ev S1 S' b st1 env hok (pa.toG g (isVal_val va))
      simp only [eb]
      rcases hrb : eval k st1 env b with ⟨rb, st2⟩
      rw [hrb] at pb
      simp only [cutR]
      have pab := pa.seq pb
      cases rb with
      | val vb =>
        dsimp only
        cases applyOp name va vb with
        | ok v => exact ⟨by eqok2, pab.imp (fun _ => isVal_val vb)⟩
        | raise => exact ⟨by eqok2, pab.imp (fun h => absurd h (not_isVal_thrown _))⟩
      | _ => exact ⟨by eqok2, pab⟩
    | _ => exact ⟨by eqok2, pa.abort (by notval2)⟩
  · exact absurd hok (by simp)

theorem c_index {k : Nat} (ih : Pres2 T n k) {S S' : List String} {a b : Expr} {st : State} {env : Nat}
    (hok : localOk T S (.index a b) = some S') (g : G T n S st env) :
    eval (k + 1) (cut n st) env (.index a b) = cutR n (eval (k + 1) st env (.index a b)) ∧
      P2 n S' st (eval (k + 1) st env (.index a b)).2 env (IsVal (eval (k + 1) st env (.index a b)).1) := by
  simp only [localOk] at hok
  split at hok
  · rename_i S1 hokA
    obtain ⟨ea, pa⟩ := ih.ev S S1 a st env hokA g
    simp only [eval, ea]
    rcases hra : eval k st env a with ⟨ra, st1⟩
    rw [hra] at pa
    simp only [cutR]
    cases ra with
    | val va =>
      obtain ⟨eb, pb⟩ := ih.ev S1 S' b st1 env hok (pa.toG g (isVal_val va))
      simp only [eb]
      rcases hrb : eval k st1 env b with ⟨rb, st2⟩
      rw [hrb] at pb
      simp only [cutR]
      have pab := pa.seq pb
      cases rb with
      | val vb =>
        dsimp only
        cases indexVal va vb with
        | ok v => exact ⟨by eqok2, pab.imp (fun _ => isVal_val vb)⟩
        | raise => exact ⟨by eqok2, pab.imp (fun h => absurd h (not_isVal_thrown _))⟩
      | _ => exact ⟨by eqok2, pab⟩
    | _ => exact ⟨by eqok2, pa.abort (by notval2)⟩
  · exact absurd hok (by simp)


theorem c_and {k : Nat} (ih : Pres2 T n k) {S S' : List String} {a b : Expr} {st : State} {env : Nat}
    (hok : localOk T S (.and_ a b) = some S') (g : G T n S st env) :
    eval (k + 1) (cut n st) env (.and_ a b) = cutR n (eval (k + 1) st env (.and_ a b)) ∧
      P2 n S' st (eval (k + 1) st env (.and_ a b)).2 env (IsVal (eval (k + 1) st env (.and_ a b)).1) := by
  simp only [localOk] at hok
  split at hok
  · rename_i S1 hokA
    split at hok
    · rename_i S2 hokB
      simp only [Option.some.injEq] at hok
      subst hok
      obtain ⟨ea, pa⟩ := ih.ev S S1 a st env hokA g
      simp only [eval, ea]
      rcases hra : eval k st env a with ⟨ra, st1⟩
      rw [hra] at pa
      simp only [cutR]
      cases ra with
      | val va =>
        dsimp only
        cases va.truthy with
        | false => exact ⟨by simp, pa.imp (fun _ => isVal_val va)⟩
        | true =>
          have g1 := pa.toG g (isVal_val va)
          obtain ⟨eb, pb⟩ := ih.ev S1 S2 b st1 env hokB g1
          simp only [↓reduceIte, eb, cutR]
          exact ⟨by eqok2, pa.seq (pb.keep g1)⟩
      | _ => exact ⟨by eqok2, pa.abort (by notval2)⟩
    · exact absurd hok (by simp)
  · exact absurd hok (by simp)

theorem c_or {k : Nat} (ih : Pres2 T n k) {S S' : List String} {a b : Expr} {st : State} {env : Nat}
    (hok : localOk T S (.or_ a b) = some S') (g : G T n S st env) :
    eval (k + 1) (cut n st) env (.or_ a b) = cutR n (eval (k + 1) st env (.or_ a b)) ∧
      P2 n S' st (eval (k + 1) st env (.or_ a b)).2 env (IsVal (eval (k + 1) st env (.or_ a b)).1) := by
  simp only [localOk] at hok
  split at hok
  · rename_i S1 hokA
    split at hok
    · rename_i S2 hokB
      simp only [Option.some.injEq] at hok
      subst hok
      obtain ⟨ea, pa⟩ := ih.ev S S1 a st env hokA g
      simp only [eval, ea]
      rcases hra : eval k st env a with ⟨ra, st1⟩
      rw [hra] at pa
      simp only [cutR]
      cases ra with
      | val va =>
        dsimp only
        cases va.truthy with
        | true => exact ⟨by simp, pa.imp (fun _ => isVal_val va)⟩
        | false =>
          have g1 := pa.toG g (isVal_val va)
          obtain ⟨eb, pb⟩ := ih.ev S1 S2 b st1 env hokB g1
          simp only [Bool.false_eq_true, ↓reduceIte, eb, cutR]
          exact ⟨by eqok2, pa.seq (pb.keep g1)⟩
      | _ => exact ⟨by eqok2, pa.abort (by notval2)⟩
    · exact absurd hok (by simp)
  · exact absurd hok (by simp)

theorem c_coalesce {k : Nat} (ih : Pres2 T n k) {S S' : List String} {a b : Expr} {st : State} {env : Nat}
    (hok : localOk T S (.coalesce a b) = some S') (g : G T n S st env) :
    eval (k + 1) (cut n st) env (.coalesce a b) = cutR n (eval (k + 1) st env (.coalesce a b)) ∧
      P2 n S' st (eval (k + 1) st env (.coalesce a b)).2 env (IsVal (eval (k + 1) st env (.coalesce a b)).1) := by
  simp only [localOk] at hok
  split at hok
  · rename_i S1 hokA
    split at hok
    · rename_i S2 hokB
      simp only [Option.some.injEq] at hok
      subst hok
      obtain ⟨ea, pa⟩ := ih.ev S S1 a st env hokA g
      simp only [eval, ea]
      rcases hra : eval k st env a with ⟨ra, st1⟩
      rw [hra] at pa
      simp only [cutR]
      cases ra with
      | val va =>
        have g1 := pa.toG g (isVal_val va)
        obtain ⟨eb, pb⟩ := ih.ev S1 S2 b st1 env hokB g1
        cases va with
        | null =>
          simp only [eb, cutR]
          exact ⟨by eqok2, pa.seq (pb.keep g1)⟩
        | _ => exact ⟨by eqok2, pa⟩
      | _ => exact ⟨by eqok2, pa.abort (by notval2)⟩
    · exact absurd hok (by simp)
  · exact absurd hok (by simp)

theorem c_ite {k : Nat} (ih : Pres2 T n k) {S S' : List String} {c t : Expr} {e : Option Expr} {st : State}
    {env : Nat} (hok : localOk T S (.ite c t e) = some S') (g : G T n S st env) :
    eval (k + 1) (cut n st) env (.ite c t e) = cutR n (eval (k + 1) st env (.ite c t e)) ∧
      P2 n S' st (eval (k + 1) st env (.ite c t e)).2 env (IsVal (eval (k + 1) st env (.ite c t e)).1) := by
  simp only [localOk] at hok
  split at hok
  · rename_i S1 hokC
    split at hok
    · rename_i St hokT
      split at hok
      · rename_i Se hokE
        simp only [Option.some.injEq] at hok
        subst hok
        obtain ⟨ec, pc⟩ := ih.ev S S1 c st env hokC g
        simp only [eval, ec]
        rcases hrc : eval k st env c with ⟨rc, st1⟩
        rw [hrc] at pc
        simp only [cutR]
        cases rc with
        | val vc =>
          have g1 := pc.toG g (isVal_val vc)
          dsimp only
          cases vc.truthy with
          | true =>
            obtain ⟨et, pt⟩ := ih.ev S1 St t st1 env hokT g1
            simp only [↓reduceIte, et, cutR]
            exact ⟨by eqok2, pc.seq (pt.keep g1)⟩
          | false =>
            simp only [Bool.false_eq_true, ↓reduceIte]
            cases e with
            | none => exact ⟨by eqok2, pc.imp (fun _ => isVal_val vc)⟩
            | some e1 =>
              simp only [localOpt] at hokE
              obtain ⟨ee, pe⟩ := ih.ev S1 Se e1 st1 env hokE g1
              simp only [ee, cutR]
              exact ⟨by eqok2, pc.seq (pe.keep g1)⟩
        | _ => exact ⟨by eqok2, pc.abort (by notval2)⟩
      · exact absurd hok (by simp)
    · exact absurd hok (by simp)
  · exact absurd hok (by simp)

/-! ### lists, sequences, statements -/

theorem localList_cons_inv {S S' : List String} {x : Expr} {xs : List Expr}
    (h : localList T S (x :: xs) = some S') : ∃ S1, localOk T S x = some S1 ∧ localList T S1 xs = some S' := by
  simp only [localList] at h
  split at h
  · rename_i S1 h1; exact ⟨S1, h1, h⟩
  · exact absurd h (by simp)

theorem c_list_step {k : Nat} (ih : Pres2 T n k) : CList T n (k + 1) := by
  intro S S' es st env hok g
  cases es with
  | nil =>
    simp only [localList, Option.some.injEq] at hok
    subst hok
    simp only [evalList, cutRL]
    exact ⟨by eqok2, P2.refl _ g (fun _ h => h)⟩
  | cons x xs =>
    obtain ⟨S1, hokX, hokXs⟩ := localList_cons_inv hok
    obtain ⟨ex, px⟩ := ih.ev S S1 x st env hokX g
    simp only [evalList, ex]
    rcases hrx : eval k st env x with ⟨rx, st1⟩
    rw [hrx] at px
    simp only [cutR]
    cases rx with
    | val v =>
      obtain ⟨el, pl⟩ := ih.evList S1 S' xs st1 env hokXs (px.toG g (isVal_val v))
      simp only [el]
      rcases hrl : evalList k st1 env xs with ⟨rl, st2⟩
      rw [hrl] at pl
      simp only [cutRL]
      cases rl with
      | ok vs => exact ⟨by eqok2, (px.seq pl).imp (fun _ => isOk_ok vs)⟩
      | stop r => exact ⟨by eqok2, px.seq pl⟩
    | _ => exact ⟨by eqok2, px.abort (by notval2)⟩

theorem c_seq_step {k : Nat} (ih : Pres2 T n k) : CSeq T n (k + 1) := by
  intro S S' es st env hok g
  cases es with
  | nil =>
    simp only [localList, Option.some.injEq] at hok
    subst hok
    simp only [evalSeq, cutR]
    exact ⟨by eqok2, P2.refl _ g (fun _ h => h)⟩
  | cons x xs =>
    obtain ⟨S1, hokX, hokXs⟩ := localList_cons_inv hok
    obtain ⟨ex, px⟩ := ih.ev S S1 x st env hokX g
    cases xs with
    | nil =>
      simp only [localList, Option.some.injEq] at hokXs
      subst hokXs
      simp only [evalSeq, ex]
      exact ⟨by eqok2, px⟩
    | cons y ys =>
      simp only [evalSeq, ex]
      rcases hrx : eval k st env x with ⟨rx, st1⟩
      rw [hrx] at px
      simp only [cutR]
      cases rx with
      | val v =>
        obtain ⟨el, pl⟩ := ih.evSeq S1 S' (y :: ys) st1 env hokXs (px.toG g (isVal_val v))
        simp only [el, cutR]
        exact ⟨by eqok2, px.seq pl⟩
      | _ => exact ⟨by eqok2, px.abort (by notval2)⟩

theorem c_list {k : Nat} (ih : Pres2 T n k) {S S' : List String} {xs : List Expr} {st : State} {env : Nat}
    (hok : localOk T S (.list xs) = some S') (g : G T n S st env) :
    eval (k + 1) (cut n st) env (.list xs) = cutR n (eval (k + 1) st env (.list xs)) ∧
      P2 n S' st (eval (k + 1) st env (.list xs)).2 env (IsVal (eval (k + 1) st env (.list xs)).1) := by
  simp only [localOk] at hok
  obtain ⟨el, pl⟩ := ih.evList S S' xs st env hok g
  simp only [eval, el]
  rcases hrl : evalList k st env xs with ⟨rl, st1⟩
  rw [hrl] at pl
  simp only [cutRL, cutR]
  cases rl with
  | ok vs => exact ⟨by eqok2, pl.imp (fun _ => isOk_ok vs)⟩
  | stop r => exact ⟨by eqok2, pl.imp (fun h => absurd h (evalList_stop_not_val k st env xs r st1 hrl))⟩

theorem c_seq {k : Nat} (ih : Pres2 T n k) {S S' : List String} {xs : List Expr} {semi : Bool} {st : State}
    {env : Nat} (hok : localOk T S (.seq xs semi) = some S') (g : G T n S st env) :
    eval (k + 1) (cut n st) env (.seq xs semi) = cutR n (eval (k + 1) st env (.seq xs semi)) ∧
      P2 n S' st (eval (k + 1) st env (.seq xs semi)).2 env (IsVal (eval (k + 1) st env (.seq xs semi)).1) := by
  simp only [localOk] at hok
  obtain ⟨el, pl⟩ := ih.evSeq S S' xs st env hok g
  simp only [eval, el]
  rcases hrl : evalSeq k st env xs with ⟨rl, st1⟩
  rw [hrl] at pl
  simp only [cutR]
  cases rl with
  | val v => exact ⟨by eqok2, pl.imp (fun _ => isVal_val v)⟩
  | _ => exact ⟨by eqok2, pl⟩

/-- declaring in the current frame (which is not cut) -/
theorem p2_declare {S : List String} {st : State} {env : Nat} {p : Pat} {v : Val} {fuel : Nat} {nm : Prop}
    (g : G T n S st env) (hnm : nm → (declarePat fuel st env p v).1 = true) :
    P2 n (S ++ Pat.idents p) st (declarePat fuel st env p v).2 env nm := by
  obtain ⟨fstep, htab, _, hdecl⟩ := declarePat_step fuel st env p v
  refine ⟨⟨fstep.ext, htab⟩, fstep.wf g.wf, fun hn x hx => ?_, fun y _ => fstep.below n g.ge y⟩
  rcases List.mem_append.mp hx with h | h
  · exact (g.sure x h).ext fstep.ext
  · obtain ⟨fr, hfr, hd⟩ := hdecl (hnm hn) x h
    exact ⟨env, fr, .here _, g.ge, hfr, hd⟩

theorem c_declare {k : Nat} (ih : Pres2 T n k) {S S' : List String} {p : Pat} {rhs : Expr} {st : State} {env : Nat}
    (hok : localOk T S (.declare p rhs) = some S') (g : G T n S st env) :
    eval (k + 1) (cut n st) env (.declare p rhs) = cutR n (eval (k + 1) st env (.declare p rhs)) ∧
      P2 n S' st (eval (k + 1) st env (.declare p rhs)).2 env (IsVal (eval (k + 1) st env (.declare p rhs)).1) := by
  simp only [localOk] at hok
  split at hok
  · rename_i S1 hokR
    simp only [Option.some.injEq] at hok
    subst hok
    obtain ⟨er, pr⟩ := ih.ev S S1 rhs st env hokR g
    simp only [eval, er]
    rcases hrr : eval k st env rhs with ⟨rr, st1⟩
    rw [hrr] at pr
    simp only [cutR]
    cases rr with
    | val v =>
      have g1 := pr.toG g (isVal_val v)
      simp only [declarePat_cut n env g.ge]
      rcases hd : declarePat (patDepth p + 1) st1 env p v with ⟨ok, st2⟩
      cases ok with
      | true =>
        have pd := p2_declare (fuel := patDepth p + 1) (p := p) (v := v) (nm := IsVal (.val .null)) g1
          (fun _ => by rw [hd])
        rw [hd] at pd
        exact ⟨by eqok2, pr.seq pd⟩
      | false =>
        have pd := p2_declare (fuel := patDepth p + 1) (p := p) (v := v) (nm := IsVal (.thrown .err)) g1
          (fun h => absurd h (not_isVal_thrown _))
        rw [hd] at pd
        exact ⟨by eqok2, pr.seq pd⟩
    | _ => exact ⟨by eqok2, pr.abort (by notval2)⟩
  · exact absurd hok (by simp)

theorem p2_write {S : List String} {st : State} {env : Nat} {x : String} {fs : Array Frame} {nm : Prop}
    (g : G T n S st env) (hx : DeclAbove st.frames env n x) (ws : WriteStep st.frames fs env x) :
    P2 n S st { st with frames := fs } env nm :=
  ⟨⟨ws.ext, rfl⟩, ws.wf, fun _ => g.sure.ext ⟨ws.ext, rfl⟩, fun y _ => ws.above n hx n (Nat.le_refl _) y⟩

theorem c_assign {k : Nat} (ih : Pres2 T n k) {S S' : List String} {x : String} {rhs : Expr} {st : State} {env : Nat}
    (hok : localOk T S (.assign x rhs) = some S') (g : G T n S st env) :
    eval (k + 1) (cut n st) env (.assign x rhs) = cutR n (eval (k + 1) st env (.assign x rhs)) ∧
      P2 n S' st (eval (k + 1) st env (.assign x rhs)).2 env (IsVal (eval (k + 1) st env (.assign x rhs)).1) := by
  simp only [localOk] at hok
  split at hok
  · rename_i hxS
    have hxS' : x ∈ S := by simpa using hxS
    obtain ⟨er, pr⟩ := ih.ev S S' rhs st env hok g
    simp only [eval, er]
    rcases hrr : eval k st env rhs with ⟨rr, st1⟩
    rw [hrr] at pr
    simp only [cutR]
    cases rr with
    | val v =>
      have g1 := pr.toG_keep g
      dsimp only
      simp only [cut_frames, cutF_size, assignVar_cut n st1.frames g1.wf x v _ env (g1.sure x hxS')]
      cases ha : assignVar st1.frames (st1.frames.size + 1) env x v with
      | some fs =>
        have pw := p2_write (nm := True) (pr.toG g (isVal_val v)) (g1.sure x hxS')
          (assignVar_step st1.frames g1.wf x v _ env fs ha)
        exact ⟨by eqok2, pr.seq (pw.imp (fun _ => trivial))⟩
      | none => exact ⟨by eqok2, pr.imp (fun h => absurd h (not_isVal_thrown _))⟩
    | _ => exact ⟨by eqok2, pr⟩
  · exact absurd hok (by simp)


theorem c_opassign {k : Nat} (ih : Pres2 T n k) {S S' : List String} {x opn : String} {rhs : Expr} {st : State}
    {env : Nat} (hok : localOk T S (.opassign x opn rhs) = some S') (g : G T n S st env) :
    eval (k + 1) (cut n st) env (.opassign x opn rhs) = cutR n (eval (k + 1) st env (.opassign x opn rhs)) ∧
      P2 n S' st (eval (k + 1) st env (.opassign x opn rhs)).2 env
        (IsVal (eval (k + 1) st env (.opassign x opn rhs)).1) := by
  simp only [localOk] at hok
  split at hok
  · rename_i hxS
    have hxS' : x ∈ S := by simpa using hxS
    obtain ⟨er, pr⟩ := ih.ev S S' rhs st env hok g
    simp only [eval, er, lookup_cut g hxS']
    cases st.lookup env x with
    | none => exact ⟨by eqok2, (P2.refl (S' := S) True g (fun _ h => h)).abort (not_isVal_thrown _)⟩
    | some old =>
      dsimp only
      rcases hrr : eval k st env rhs with ⟨rr, st1⟩
      rw [hrr] at pr
      simp only [cutR]
      cases rr with
      | val v =>
        have g1 := pr.toG_keep g
        have g1' := pr.toG g (isVal_val v)
        dsimp only
        simp only [cut_frames, cutF_size, dropVar_cut n st1.frames g1.wf x _ env (g1.sure x hxS')]
        cases hdv : dropVar st1.frames (st1.frames.size + 1) env x with
        | none => exact ⟨by eqok2, pr.imp (fun h => absurd h (not_isVal_thrown _))⟩
        | some fs =>
          dsimp only
          have wd := dropVar_step st1.frames g1.wf x _ env fs hdv
          have pd : P2 n S' st1 { st1 with frames := fs } env True := p2_write g1' (g1.sure x hxS') wd
          have g2k : G T n S { st1 with frames := fs } env :=
            (p2_write (nm := True) g1 (g1.sure x hxS') wd).toG g1 trivial
          have g2 : G T n S' { st1 with frames := fs } env := pd.toG g1' trivial
          cases applyOp opn old v with
          | raise => exact ⟨by eqok2, (pr.seq pd).imp (fun h => absurd h (not_isVal_thrown _))⟩
          | ok nv =>
            simp only [Option.map_some, cutF_size, assignVar_cut n fs g2k.wf x nv _ env (g2k.sure x hxS')]
            cases ha : assignVar fs (fs.size + 1) env x nv with
            | none => exact ⟨by eqok2, (pr.seq pd).imp (fun h => absurd h (not_isVal_thrown _))⟩
            | some fs2 =>
              have pw : P2 n S' { st1 with frames := fs } { st1 with frames := fs2 } env True :=
                p2_write g2 (g2k.sure x hxS') (assignVar_step fs g2k.wf x nv _ env fs2 ha)
              exact ⟨by eqok2, ((pr.seq pd).seq pw).imp (fun _ => trivial)⟩
      | _ => exact ⟨by eqok2, pr⟩
  · exact absurd hok (by simp)

theorem c_brk {k : Nat} (ih : Pres2 T n k) {S S' : List String} {j : Nat} {e : Option Expr} {st : State} {env : Nat}
    (hok : localOk T S (.brk j e) = some S') (g : G T n S st env) :
    eval (k + 1) (cut n st) env (.brk j e) = cutR n (eval (k + 1) st env (.brk j e)) ∧
      P2 n S' st (eval (k + 1) st env (.brk j e)).2 env (IsVal (eval (k + 1) st env (.brk j e)).1) := by
  simp only [localOk] at hok
  cases e with
  | none =>
    simp only [localOpt, Option.some.injEq] at hok
    subst hok
    simp only [eval, cutR]
    exact ⟨by eqok2, P2.refl _ g (fun _ h => h)⟩
  | some e1 =>
    simp only [localOpt] at hok
    obtain ⟨ee, pe⟩ := ih.ev S S' e1 st env hok g
    simp only [eval, ee]
    rcases hre : eval k st env e1 with ⟨re, st1⟩
    rw [hre] at pe
    simp only [cutR]
    cases re with
    | val v => exact ⟨by eqok2, pe.imp (fun h => absurd h (not_isVal_brk _ _))⟩
    | _ => exact ⟨by eqok2, pe⟩

theorem c_ret {k : Nat} (ih : Pres2 T n k) {S S' : List String} {e : Option Expr} {st : State} {env : Nat}
    (hok : localOk T S (.ret e) = some S') (g : G T n S st env) :
    eval (k + 1) (cut n st) env (.ret e) = cutR n (eval (k + 1) st env (.ret e)) ∧
      P2 n S' st (eval (k + 1) st env (.ret e)).2 env (IsVal (eval (k + 1) st env (.ret e)).1) := by
  simp only [localOk] at hok
  cases e with
  | none =>
    simp only [localOpt, Option.some.injEq] at hok
    subst hok
    simp only [eval, cutR]
    exact ⟨by eqok2, P2.refl _ g (fun _ h => h)⟩
  | some e1 =>
    simp only [localOpt] at hok
    obtain ⟨ee, pe⟩ := ih.ev S S' e1 st env hok g
    simp only [eval, ee]
    rcases hre : eval k st env e1 with ⟨re, st1⟩
    rw [hre] at pe
    simp only [cutR]
    cases re with
    | val v => exact ⟨by eqok2, pe.imp (fun h => absurd h (not_isVal_ret _))⟩
    | _ => exact ⟨by eqok2, pe⟩

theorem c_throw {k : Nat} (ih : Pres2 T n k) {S S' : List String} {e : Expr} {st : State} {env : Nat}
    (hok : localOk T S (.throw_ e) = some S') (g : G T n S st env) :
    eval (k + 1) (cut n st) env (.throw_ e) = cutR n (eval (k + 1) st env (.throw_ e)) ∧
      P2 n S' st (eval (k + 1) st env (.throw_ e)).2 env (IsVal (eval (k + 1) st env (.throw_ e)).1) := by
  simp only [localOk] at hok
  obtain ⟨ee, pe⟩ := ih.ev S S' e st env hok g
  simp only [eval, ee]
  rcases hre : eval k st env e with ⟨re, st1⟩
  rw [hre] at pe
  simp only [cutR]
  cases re with
  | val v => exact ⟨by eqok2, pe.imp (fun h => absurd h (not_isVal_thrown _))⟩
  | _ => exact ⟨by eqok2, pe⟩

theorem builtinAt_get {i : Nat} {st : State} (h : builtinAt T i = true) (htab : T <+: st.frozenTab) :
    ∃ f, st.frozenTab[i]? = some (.builtin f) := by
  unfold builtinAt at h
  split at h
  · rename_i f hf
    obtain ⟨extra, hx⟩ := htab
    refine ⟨f, ?_⟩
    rw [← hx, List.getElem?_append_left]
    · exact hf
    · rcases Nat.lt_or_ge i T.length with hl | hl
      · exact hl
      · rw [List.getElem?_eq_none hl] at hf; exact absurd hf (by simp)
  · exact absurd h (by simp)

theorem p2_frames_eq {S : List String} {st st1 : State} {env : Nat} {nm : Prop} (g : G T n S st env)
    (hf : st1.frames = st.frames) (ht : st1.frozenTab = st.frozenTab) : P2 n S st st1 env nm := by
  refine ⟨⟨by rw [hf]; exact ExtF.refl _, ht⟩, by unfold WF; rw [hf]; exact g.wf, fun _ x hx => ?_,
    fun y _ => by rw [hf]; exact SameAt.refl _ _ _⟩
  have := g.sure x hx
  unfold DeclAbove at this ⊢
  rw [hf]; exact this

theorem c_call {k : Nat} (ih : Pres2 T n k) {S S' : List String} {f : Expr} {args : List Expr} {st : State}
    {env : Nat} (hok : localOk T S (.call f args) = some S') (g : G T n S st env) :
    eval (k + 1) (cut n st) env (.call f args) = cutR n (eval (k + 1) st env (.call f args)) ∧
      P2 n S' st (eval (k + 1) st env (.call f args)).2 env (IsVal (eval (k + 1) st env (.call f args)).1) := by
  cases f with
  | frozen i =>
    simp only [localOk] at hok
    split at hok
    · rename_i hb
      obtain ⟨fn, hget⟩ := builtinAt_get hb g.tab
      obtain ⟨el, pl⟩ := ih.evList S S' args st env hok g
      cases k with
      | zero => simp only [eval, cutR]; exact ⟨by eqok2, (P2.refl (S' := S) True g (fun _ h => h)).abort not_isVal_fuelOut⟩
      | succ j =>
        have hgc : (cut n st).frozenTab[i]? = some (.builtin fn) := hget
        simp only [eval, hget, hgc, el]
        rcases hrl : evalList (j + 1) st env args with ⟨rl, st1⟩
        rw [hrl] at pl
        simp only [cutRL, cutR]
        cases rl with
        | ok vs =>
          dsimp only
          rw [callVal_builtin_cut]
          obtain ⟨hfr, htb⟩ := C17Preserve.callVal_builtin_frames (j + 1) st1 env fn vs
          have g1 := pl.toG g (isOk_ok vs)
          exact ⟨by simp only [cutR], pl.seq (p2_frames_eq g1 hfr htb)⟩
        | stop r =>
          exact ⟨by eqok2, pl.imp (fun h => absurd h (evalList_stop_not_val _ st env args r st1 hrl))⟩
    · exact absurd hok (by simp)
  | _ => simp [localOk] at hok


/-! ### fresh scopes -/

theorem newFrame_cut' {S : List String} {st : State} {env : Nat} (g : G T n S st env) :
    newFrame (cut n st) env = (cut n (newFrame st env).1, (newFrame st env).2) :=
  newFrame_cut n st env (Nat.le_trans g.ge (Nat.le_of_lt g.lt))

/-- the state in the fresh child scope of `env` after pattern `p` was (or was not) bound there -/
theorem g_clone {S : List String} {st st2 : State} {env : Nat} {p : Pat} {v : Val} {ok : Bool}
    (g : G T n S st env)
    (hd : declarePat (patDepth p + 1) (newFrame st env).1 (newFrame st env).2 p v = (ok, st2)) :
    (Ext st st2 ∧ OldKept st st2 n []) ∧ G T n S st2 (newFrame st env).2 ∧
      (ok = true → G T n (S ++ Pat.idents p) st2 (newFrame st env).2) := by
  have hstep := declarePat_step (patDepth p + 1) (newFrame st env).1 (newFrame st env).2 p v
  rw [hd] at hstep
  obtain ⟨hfs, htab1, _, hdecl⟩ := hstep
  have hxN : ExtF st.frames (newFrame st env).1.frames := push_extF _ _
  have hx : Ext st st2 := ⟨hxN.trans hfs.ext, htab1⟩
  have hwfN : WFf (newFrame st env).1.frames := push_wf st.frames g.wf [] env g.lt []
  have hge : n ≤ (newFrame st env).2 := Nat.le_trans g.ge (Nat.le_of_lt g.lt)
  have hlt : (newFrame st env).2 < st2.frames.size := by rw [hfs.size]; simp [newFrame]
  have hsure : Sure S st2 (newFrame st env).2 n := by
    intro x hxS
    obtain ⟨i, fr, hc, hni, hfr, hdx⟩ := g.sure x hxS
    obtain ⟨fr', hfr', _, hn'⟩ := hxN.2 _ _ hfr
    exact DeclAbove.ext hfs.ext ⟨i, fr', C17Preserve.onChain_new hc, hni, hfr', hn' x hdx⟩
  have htab : T <+: st2.frozenTab := by rw [htab1]; exact g.tab
  have hold : OldKept st st2 n [] := fun y _ =>
    (push_sameAt y st.frames _ n (Nat.le_trans g.ge (Nat.le_of_lt g.lt))).trans (hfs.below n hge y)
  refine ⟨⟨hx, hold⟩, ⟨hfs.wf hwfN, hge, hlt, hsure, htab⟩, fun hok => ⟨hfs.wf hwfN, hge, hlt, ?_, htab⟩⟩
  intro x hxS
  rcases List.mem_append.mp hxS with h | h
  · exact hsure x h
  · obtain ⟨fr, hfr, hdx⟩ := hdecl hok x h
    exact ⟨_, fr, .here _, hge, hfr, hdx⟩

/-- leaving the fresh scope -/
theorem p2_exit {S SI SO : List String} {st st2 st3 : State} {env ee : Nat} {nmI nm : Prop}
    (g : G T n S st env) (hx : Ext st st2 ∧ OldKept st st2 n []) (inner : P2 n SO st2 st3 ee nmI) (_h : SI = SI) :
    P2 n S st st3 env nm :=
  ⟨hx.1.trans inner.ext, inner.wf, fun _ => g.sure.ext (hx.1.trans inner.ext), hx.2.trans inner.old⟩

/-- run `c` in the fresh child scope in which `p` was bound to `v` (`catch`, `switch` arm) -/
theorem c_clone_body {k : Nat} (ih : Pres2 T n k) {S Sc : List String} {p : Pat} {v : Val} {c : Expr}
    {st st2 : State} {env : Nat} {nm : Prop} (g : G T n S st env)
    (hokC : localOk T (S ++ Pat.idents p) c = some Sc)
    (hd : declarePat (patDepth p + 1) (newFrame st env).1 (newFrame st env).2 p v = (true, st2)) :
    eval k (cut n st2) (newFrame st env).2 c = cutR n (eval k st2 (newFrame st env).2 c) ∧
      P2 n S st (eval k st2 (newFrame st env).2 c).2 env nm := by
  obtain ⟨hx, _, gI⟩ := g_clone g hd
  obtain ⟨ec, pc⟩ := ih.ev (S ++ Pat.idents p) Sc c st2 (newFrame st env).2 hokC (gI rfl)
  exact ⟨ec, p2_exit (SI := S) g hx pc rfl⟩

theorem c_clone_fail {S : List String} {p : Pat} {v : Val} {st st2 : State} {env : Nat} {nm : Prop}
    (g : G T n S st env)
    (hd : declarePat (patDepth p + 1) (newFrame st env).1 (newFrame st env).2 p v = (false, st2)) :
    P2 n S st st2 env nm := by
  obtain ⟨hx, gk, _⟩ := g_clone g hd
  exact ⟨hx.1, gk.wf, fun _ => g.sure.ext hx.1, hx.2⟩

/-- the first steps of every construct that opens a scope, on the cut store -/
theorem clone_cut_eq {S : List String} {st : State} {env : Nat} (g : G T n S st env) (p : Pat) (v : Val) :
    (newFrame (cut n st) env).2 = (newFrame st env).2 ∧
    declarePat (patDepth p + 1) (newFrame (cut n st) env).1 (newFrame st env).2 p v =
      ((declarePat (patDepth p + 1) (newFrame st env).1 (newFrame st env).2 p v).1,
        cut n (declarePat (patDepth p + 1) (newFrame st env).1 (newFrame st env).2 p v).2) := by
  rw [newFrame_cut' g]
  exact ⟨rfl, declarePat_cut n _ (Nat.le_trans g.ge (Nat.le_of_lt g.lt)) _ _ p v⟩

theorem c_try {k : Nat} (ih : Pres2 T n k) {S S' : List String} {b c : Expr} {p : Pat} {st : State} {env : Nat}
    (hok : localOk T S (.try_ b p c) = some S') (g : G T n S st env) :
    eval (k + 1) (cut n st) env (.try_ b p c) = cutR n (eval (k + 1) st env (.try_ b p c)) ∧
      P2 n S' st (eval (k + 1) st env (.try_ b p c)).2 env (IsVal (eval (k + 1) st env (.try_ b p c)).1) := by
  simp only [localOk] at hok
  split at hok
  · rename_i Sb hokB
    split at hok
    · rename_i Sc hokC
      simp only [Option.some.injEq] at hok
      subst hok
      obtain ⟨eb, pb⟩ := ih.ev S Sb b st env hokB g
      simp only [eval, eb]
      rcases hrb : eval k st env b with ⟨rb, st1⟩
      rw [hrb] at pb
      simp only [cutR]
      cases rb with
      | thrown v =>
        dsimp only at pb ⊢
        have g1 : G T n S st1 env := pb.toG_keep g
        obtain ⟨hee, hdc⟩ := clone_cut_eq g1 p v
        simp only [hee, hdc]
        rcases hd : declarePat (patDepth p + 1) (newFrame st1 env).1 (newFrame st1 env).2 p v with ⟨ok, st2⟩
        cases ok with
        | true =>
          obtain ⟨ec, pc⟩ := c_clone_body (nm := IsVal (eval k st2 (newFrame st1 env).2 c).1) ih g1 hokC hd
          simp only [ec, cutR]
          exact ⟨by eqok2, (pb.keep (nm' := True) g).seq pc⟩
        | false =>
          exact ⟨by eqok2, (pb.keep (nm' := True) g).seq (c_clone_fail g1 hd)⟩
      | _ => exact ⟨by eqok2, pb.keep g⟩
    · exact absurd hok (by simp)
  · exact absurd hok (by simp)

theorem c_switch_step {k : Nat} (ih : Pres2 T n k) : CSwitch T n (k + 1) := by
  intro S arms st env v hok g
  cases arms with
  | nil =>
    simp only [evalSwitch, cutR]
    exact ⟨by eqok2, P2.refl _ g (fun _ h => h)⟩
  | cons a rest =>
    obtain ⟨p, body⟩ := a
    simp only [localArms, Bool.and_eq_true, Option.isSome_iff_exists] at hok
    obtain ⟨⟨Sb, hokB⟩, hokR⟩ := hok
    obtain ⟨hee, hdc⟩ := clone_cut_eq g p v
    simp only [evalSwitch, hee, hdc]
    rcases hd : declarePat (patDepth p + 1) (newFrame st env).1 (newFrame st env).2 p v with ⟨ok, st2⟩
    cases ok with
    | true =>
      obtain ⟨ec, pc⟩ := c_clone_body (nm := IsVal (eval k st2 (newFrame st env).2 body).1) ih g hokB hd
      simp only [ec]
      exact ⟨by eqok2, pc⟩
    | false =>
      have pf := c_clone_fail (nm := True) g hd
      obtain ⟨er, pr⟩ := ih.evSwitch S rest st2 env v hokR (pf.toG g trivial)
      simp only [er]
      exact ⟨by eqok2, pf.seq pr⟩

theorem c_switch {k : Nat} (ih : Pres2 T n k) {S S' : List String} {sc : Expr} {arms : List SwitchArm}
    {st : State} {env : Nat} (hok : localOk T S (.switch_ sc arms) = some S') (g : G T n S st env) :
    eval (k + 1) (cut n st) env (.switch_ sc arms) = cutR n (eval (k + 1) st env (.switch_ sc arms)) ∧
      P2 n S' st (eval (k + 1) st env (.switch_ sc arms)).2 env
        (IsVal (eval (k + 1) st env (.switch_ sc arms)).1) := by
  simp only [localOk] at hok
  split at hok
  · rename_i S1 hokS
    split at hok
    · rename_i hokA
      simp only [Option.some.injEq] at hok
      subst hok
      obtain ⟨es, ps⟩ := ih.ev S S1 sc st env hokS g
      simp only [eval, es]
      rcases hrs : eval k st env sc with ⟨rs, st1⟩
      rw [hrs] at ps
      simp only [cutR]
      cases rs with
      | val v =>
        obtain ⟨ea, pa⟩ := ih.evSwitch S1 arms st1 env v hokA (ps.toG g (isVal_val v))
        simp only [ea, cutR]
        exact ⟨by eqok2, ps.seq pa⟩
      | _ => exact ⟨by eqok2, ps.abort (by notval2)⟩
    · exact absurd hok (by simp)
  · exact absurd hok (by simp)


/-! ### loops -/

theorem g_newFrame {S : List String} {st : State} {env : Nat} (g : G T n S st env) :
    (Ext st (newFrame st env).1 ∧ OldKept st (newFrame st env).1 n []) ∧
      G T n S (newFrame st env).1 (newFrame st env).2 := by
  have hd : declarePat (patDepth Pat.underscore + 1) (newFrame st env).1 (newFrame st env).2 .underscore .null
      = (true, (newFrame st env).1) := by simp [declarePat, patDepth]
  obtain ⟨hx, gk, _⟩ := g_clone g hd
  exact ⟨hx, gk⟩

theorem c_while_step {k : Nat} (ih : Pres2 T n k) : CWhile T n (k + 1) := by
  intro S S1 S2 c b st env hokC hokB g
  obtain ⟨hxN, gN⟩ := g_newFrame g
  have hexit : ∀ {SO : List String} {nmI : Prop} {st2 : State} (nm : Prop),
      P2 n SO (newFrame st env).1 st2 (newFrame st env).2 nmI → P2 n S st st2 env nm :=
    fun nm inner => p2_exit (SI := S) g hxN inner rfl
  obtain ⟨ec, pc⟩ := ih.ev S S1 c (newFrame st env).1 (newFrame st env).2 hokC gN
  simp only [evalWhile, newFrame_cut' g, ec]
  rcases hrc : eval k (newFrame st env).1 (newFrame st env).2 c with ⟨rc, st1⟩
  rw [hrc] at pc
  simp only [cutR]
  cases rc with
  | val vc =>
    dsimp only
    cases vc.truthy with
    | false => exact ⟨by eqok2, hexit _ pc⟩
    | true =>
      obtain ⟨eb, pb⟩ := ih.ev S1 S2 b st1 (newFrame st env).2 hokB (pc.toG gN (isVal_val vc))
      simp only [Bool.not_true, Bool.false_eq_true, ↓reduceIte, eb]
      rcases hrb : eval k st1 (newFrame st env).2 b with ⟨rb, st2⟩
      rw [hrb] at pb
      simp only [cutR]
      have pcb := pc.seq pb
      have pout : P2 n S st st2 env True := hexit True pcb
      have hrec := ih.evWhile S S1 S2 c b st2 env hokC hokB (pout.toG g trivial)
      cases rb with
      | val v =>
        obtain ⟨er, pr⟩ := hrec
        simp only [er, cutR]
        exact ⟨by eqok2, pout.seq pr⟩
      | brk j v => cases j <;> exact ⟨by eqok2, hexit _ pcb⟩
      | cont j =>
        cases j with
        | zero =>
          obtain ⟨er, pr⟩ := hrec
          simp only [er, cutR]
          exact ⟨by eqok2, pout.seq pr⟩
        | succ j => exact ⟨by eqok2, hexit _ pcb⟩
      | _ => exact ⟨by eqok2, hexit _ pcb⟩
  | _ => exact ⟨by eqok2, hexit _ pc⟩

theorem c_while {k : Nat} (ih : Pres2 T n k) {S S' : List String} {c b : Expr} {st : State} {env : Nat}
    (hok : localOk T S (.while_ c b) = some S') (g : G T n S st env) :
    eval (k + 1) (cut n st) env (.while_ c b) = cutR n (eval (k + 1) st env (.while_ c b)) ∧
      P2 n S' st (eval (k + 1) st env (.while_ c b)).2 env (IsVal (eval (k + 1) st env (.while_ c b)).1) := by
  simp only [localOk] at hok
  split at hok
  · rename_i S1 hokC
    split at hok
    · rename_i S2 hokB
      simp only [Option.some.injEq] at hok
      subst hok
      obtain ⟨ew, pw⟩ := ih.evWhile S S1 S2 c b st env hokC hokB g
      simp only [eval, ew]
      exact ⟨by eqok2, pw⟩
    · exact absurd hok (by simp)
  · exact absurd hok (by simp)

theorem c_body_step {k : Nat} (ih : Pres2 T n k) : CBody T n (k + 1) := by
  intro S body st env acc hok g
  cases body with
  | exec e =>
    simp only [localBody, Option.isSome_iff_exists] at hok
    obtain ⟨Se, hokE⟩ := hok
    obtain ⟨ee, pe⟩ := ih.ev S Se e st env hokE g
    simp only [forBody, ee]
    rcases hre : eval k st env e with ⟨re, st1⟩
    rw [hre] at pe
    simp only [cutR, cutR3]
    cases re <;> exact ⟨by eqok2, pe.keep g⟩
  | yield e into =>
    simp only [localBody, Bool.and_eq_true, Option.isSome_iff_exists] at hok
    obtain ⟨⟨Se, hokE⟩, _⟩ := hok
    obtain ⟨ee, pe⟩ := ih.ev S Se e st env hokE g
    simp only [forBody, ee]
    rcases hre : eval k st env e with ⟨re, st1⟩
    rw [hre] at pe
    simp only [cutR, cutR3]
    cases re with
    | val v => dsimp only; cases acc.cata.give v <;> exact ⟨by eqok2, pe.keep g⟩
    | _ => exact ⟨by eqok2, pe.keep g⟩
  | yieldItem key v into =>
    simp only [localBody] at hok
    split at hok
    · rename_i Sk hokK
      simp only [Bool.and_eq_true, Option.isSome_iff_exists] at hok
      obtain ⟨⟨Sv, hokV⟩, _⟩ := hok
      obtain ⟨ek, pk⟩ := ih.ev S Sk key st env hokK g
      simp only [forBody, ek]
      rcases hrk : eval k st env key with ⟨rk, st1⟩
      rw [hrk] at pk
      simp only [cutR, cutR3]
      have pK : ∀ nm, P2 n S st st1 env nm := fun nm => pk.keep g
      cases rk with
      | val vk =>
        obtain ⟨ev, pv⟩ := ih.ev Sk Sv v st1 env hokV (pk.toG g (isVal_val vk))
        simp only [ev]
        rcases hrv : eval k st1 env v with ⟨rv, st2⟩
        rw [hrv] at pv
        simp only [cutR]
        have pV : ∀ nm, P2 n S st st2 env nm := fun nm => (pk.seq pv).keep g
        cases vk <;> dsimp only <;> first
          | exact ⟨by eqok2, pK _⟩
          | (cases dictFind acc.dict _ with
             | none =>
               dsimp only
               cases rv with
               | val vv => dsimp only; cases acc.cata.give vv <;> exact ⟨by eqok2, pV _⟩
               | _ => exact ⟨by eqok2, pV _⟩
             | some cc =>
               cases cc with
               | inr _ => exact ⟨by eqok2, pK _⟩
               | inl c0 =>
                 dsimp only
                 cases rv with
                 | val vv => dsimp only; cases c0.give vv <;> exact ⟨by eqok2, pV _⟩
                 | _ => exact ⟨by eqok2, pV _⟩)
      | _ => exact ⟨by eqok2, pK _⟩
    · exact absurd hok (by simp)

theorem c_items_step {k : Nat} (ih : Pres2 T n k) : CItems T n (k + 1) := by
  intro S S2 p items rest body st env acc hokR hokB g
  cases items with
  | nil =>
    simp only [forItems, cutR3]
    exact ⟨by eqok2, P2.refl _ g (fun _ h => h)⟩
  | cons x xs =>
    obtain ⟨hee, hdc⟩ := clone_cut_eq g p x
    simp only [forItems, hee, hdc]
    rcases hd : declarePat (patDepth p + 1) (newFrame st env).1 (newFrame st env).2 p x with ⟨ok, st2⟩
    cases ok with
    | false => exact ⟨by eqok2, c_clone_fail g hd⟩
    | true =>
      obtain ⟨hx, _, gI⟩ := g_clone g hd
      obtain ⟨ef, pf⟩ := ih.evFor (S ++ Pat.idents p) S2 rest body st2 (newFrame st env).2 acc hokR hokB (gI rfl)
      simp only [ef]
      rcases hrf : evalFor k st2 (newFrame st env).2 rest body acc with ⟨rf, st3, acc3⟩
      rw [hrf] at pf
      simp only [cutR3]
      have pout : P2 n S st st3 env True := p2_exit (SI := S) g hx pf rfl
      cases rf with
      | val v =>
        obtain ⟨er, pr⟩ := ih.fItems S S2 p xs rest body st3 env acc3 hokR hokB (pout.toG g trivial)
        simp only [er]
        exact ⟨by eqok2, pout.seq pr⟩
      | _ => exact ⟨by eqok2, p2_exit (SI := S) g hx pf rfl⟩


theorem c_for_step {k : Nat} (ih : Pres2 T n k) : CFor T n (k + 1) := by
  intro S S2 its body st env acc hokI hokB g
  cases its with
  | nil =>
    simp only [localIts, Option.some.injEq] at hokI
    subst hokI
    obtain ⟨eb, pb⟩ := ih.fBody S body st env acc hokB g
    simp only [evalFor, eb]
    rcases hrb : forBody k st env body acc with ⟨rb, st1, acc1⟩
    rw [hrb] at pb
    simp only [cutR3]
    cases rb with
    | cont j => cases j <;> exact ⟨by eqok2, pb.keep g⟩
    | _ => exact ⟨by eqok2, pb.keep g⟩
  | cons it rest =>
    cases it with
    | guard gd =>
      simp only [localIts] at hokI
      split at hokI
      · rename_i S1 hokG
        obtain ⟨eg, pg⟩ := ih.ev S S1 gd st env hokG g
        simp only [evalFor, eg]
        rcases hrg : eval k st env gd with ⟨rg, st1⟩
        rw [hrg] at pg
        simp only [cutR, cutR3]
        cases rg with
        | val v =>
          dsimp only
          cases v.truthy with
          | false => exact ⟨by eqok2, pg.keep g⟩
          | true =>
            obtain ⟨er, pr⟩ := ih.evFor S1 S2 rest body st1 env acc hokI hokB (pg.toG g (isVal_val v))
            simp only [↓reduceIte, er, cutR3]
            exact ⟨by eqok2, (pg.seq pr).keep g⟩
        | _ => exact ⟨by eqok2, pg.keep g⟩
      · exact absurd hokI (by simp)
    | iter kind p e =>
      simp only [localIts] at hokI
      split at hokI
      · rename_i S1 hokE
        obtain ⟨ee, pe⟩ := ih.ev S S1 e st env hokE g
        simp only [evalFor, ee]
        rcases hre : eval k st env e with ⟨re, st1⟩
        rw [hre] at pe
        simp only [cutR, cutR3]
        cases re with
        | val v =>
          dsimp only at pe ⊢
          have g1 : G T n S1 st1 env := pe.toG g (isVal_val v)
          have hitems : ∀ items : List Val,
              forItems k (cut n st1) env p items rest body acc =
                cutR3 n (forItems k st1 env p items rest body acc) ∧
              P2 n S st (forItems k st1 env p items rest body acc).2.1 env
                (IsVal (forItems k st1 env p items rest body acc).1) := by
            intro items
            obtain ⟨ei, pi⟩ := ih.fItems S1 S2 p items rest body st1 env acc hokI hokB g1
            exact ⟨ei, (pe.seq pi).keep g⟩
          cases kind with
          | declare =>
            dsimp only
            obtain ⟨hee, hdc⟩ := clone_cut_eq g1 p v
            simp only [hee, hdc]
            rcases hd : declarePat (patDepth p + 1) (newFrame st1 env).1 (newFrame st1 env).2 p v with ⟨ok, st2⟩
            cases ok with
            | false => exact ⟨by eqok2, (pe.seq (c_clone_fail (nm := True) g1 hd)).keep g⟩
            | true =>
              obtain ⟨hx, _, gI⟩ := g_clone g1 hd
              obtain ⟨er, pr⟩ := ih.evFor (S1 ++ Pat.idents p) S2 rest body st2 (newFrame st1 env).2 acc hokI hokB
                (gI rfl)
              simp only [er, cutR3]
              exact ⟨by eqok2, (pe.seq (p2_exit (SI := S1) (nm := True) g1 hx pr rfl)).keep g⟩
          | normal =>
            dsimp only
            cases iterValues v with
            | some items => exact hitems items
            | none => exact ⟨by eqok2, pe.keep g⟩
          | item =>
            dsimp only
            cases iterPairs v with
            | some items => exact hitems items
            | none => exact ⟨by eqok2, pe.keep g⟩
        | _ => exact ⟨by eqok2, pe.keep g⟩
      · exact absurd hokI (by simp)

theorem evalInto_local {k : Nat} {S : List String} {st : State} {env : Nat} (g : G T n S st env)
    {o : Option Expr} (hok : localInto T o = true) :
    evalInto k (cut n st) env o =
      ((evalInto k st env o).1, cut n (evalInto k st env o).2) ∧
    (evalInto k st env o = (.inr .fuelOut, st) ∨
      ∃ c post, evalInto k st env o = (.inl (c, post), st) ∧ PostFn post) := by
  cases o with
  | none =>
    cases k with
    | zero => simp only [evalInto]; exact ⟨by eqok2, Or.inl (by eqok2)⟩
    | succ j => simp only [evalInto]; exact ⟨by eqok2, Or.inr ⟨.list [], none, rfl, Or.inl rfl⟩⟩
  | some e =>
    cases e with
    | frozen i =>
      simp only [localInto] at hok
      obtain ⟨fn, hget⟩ := builtinAt_get hok g.tab
      have hgc : (cut n st).frozenTab[i]? = some (.builtin fn) := hget
      cases k with
      | zero => simp only [evalInto]; exact ⟨by eqok2, Or.inl (by eqok2)⟩
      | succ j =>
        cases j with
        | zero => simp only [evalInto, eval]; exact ⟨by eqok2, Or.inl (by eqok2)⟩
        | succ m =>
          simp only [evalInto, eval, hget, hgc]
          cases cataOfBuiltin fn with
          | some c => exact ⟨by eqok2, Or.inr ⟨c, none, rfl, Or.inl rfl⟩⟩
          | none => exact ⟨by eqok2, Or.inr ⟨_, _, rfl, Or.inr ⟨fn, rfl⟩⟩⟩
    | _ => simp [localInto] at hok


theorem c_for {k : Nat} (ih : Pres2 T n k) {S S' : List String} {its : List ForIt} {body : ForBody} {st : State}
    {env : Nat} (hok : localOk T S (.for_ its body) = some S') (g : G T n S st env) :
    eval (k + 1) (cut n st) env (.for_ its body) = cutR n (eval (k + 1) st env (.for_ its body)) ∧
      P2 n S' st (eval (k + 1) st env (.for_ its body)).2 env
        (IsVal (eval (k + 1) st env (.for_ its body)).1) := by
  simp only [localOk] at hok
  split at hok
  · rename_i S2 hokI
    split at hok
    · rename_i hokB
      simp only [Option.some.injEq] at hok
      subst hok
      have hfor : ∀ acc : ForAcc,
          evalFor k (cut n st) env its body acc = cutR3 n (evalFor k st env its body acc) ∧
          ∀ nm, P2 n S st (evalFor k st env its body acc).2.1 env nm := by
        intro acc
        obtain ⟨ef, pf⟩ := ih.evFor S S2 its body st env acc hokI hokB g
        exact ⟨ef, fun nm => pf.keep g⟩
      have hstay : ∀ nm, P2 n S st st env nm := fun nm => P2.refl nm g (fun _ h => h)
      have hcall : ∀ (st1 : State) (f : String) (v : Val) (nm : Prop), (∀ nm, P2 n S st st1 env nm) →
          P2 n S st (callVal k st1 env (.builtin f) [v]).2 env nm := by
        intro st1 f v nm h1
        obtain ⟨hfr, htb⟩ := C17Preserve.callVal_builtin_frames k st1 env f [v]
        exact (h1 True).seq (p2_frames_eq ((h1 True).toG g trivial) hfr htb)
      have hfin : ∀ (st1 : State) (post : Option Val) (d : List (Val × (Cata ⊕ Val))) (nm : Prop),
          PostFn post → (∀ nm, P2 n S st st1 env nm) →
          P2 n S st (finishDict k st1 env post d []).2 env nm := by
        intro st1 post d nm hpf h1
        obtain ⟨hfr, htb⟩ := C17Preserve.finishDict_frames k st1 env post d [] hpf
        exact (h1 True).seq (p2_frames_eq ((h1 True).toG g trivial) hfr htb)
      cases body with
      | exec e =>
        obtain ⟨ef, pf⟩ := hfor default
        simp only [eval, ef]
        rcases hrf : evalFor k st env its (.exec e) default with ⟨rf, st1, acc1⟩
        rw [hrf] at pf
        simp only [cutR3, cutR]
        cases rf with
        | brk j v => cases j <;> exact ⟨by eqok2, pf _⟩
        | cont j => cases j <;> exact ⟨by eqok2, pf _⟩
        | _ => exact ⟨by eqok2, pf _⟩
      | yield e into =>
        simp only [localBody, Bool.and_eq_true] at hokB
        obtain ⟨eI, hcase⟩ := evalInto_local (k := k) g hokB.2
        simp only [eval, eI]
        rcases hcase with h0 | ⟨c, post, h1, hpf⟩
        · rw [h0]; simp only [cutR]; exact ⟨by eqok2, hstay _⟩
        · rw [h1]
          dsimp only
          obtain ⟨ef, pf⟩ := hfor { cata := c, dict := [] }
          simp only [ef]
          rcases hrf : evalFor k st env its (.yield e into) { cata := c, dict := [] } with ⟨rf, st1, acc1⟩
          rw [hrf] at pf
          simp only [cutR3, cutR]
          rcases hpf with rfl | ⟨f, rfl⟩
          · cases rf with
            | val v => dsimp only; cases acc1.cata.finish <;> exact ⟨by eqok2, pf _⟩
            | brk j v =>
              cases j with
              | zero =>
                cases v with
                | none => dsimp only; cases acc1.cata.finish <;> exact ⟨by eqok2, pf _⟩
                | some v => exact ⟨by eqok2, pf _⟩
              | succ j => exact ⟨by eqok2, pf _⟩
            | cont j => cases j <;> exact ⟨by eqok2, pf _⟩
            | _ => exact ⟨by eqok2, pf _⟩
          · cases rf with
            | val v =>
              dsimp only
              cases acc1.cata.finish with
              | ok w => exact ⟨by simp only [callVal_builtin_cut, cutR], hcall st1 f w _ pf⟩
              | raise => exact ⟨by eqok2, pf _⟩
            | brk j v =>
              cases j with
              | zero =>
                cases v with
                | none =>
                  dsimp only
                  cases acc1.cata.finish with
                  | ok w => exact ⟨by simp only [callVal_builtin_cut, cutR], hcall st1 f w _ pf⟩
                  | raise => exact ⟨by eqok2, pf _⟩
                | some v => exact ⟨by simp only [callVal_builtin_cut, cutR], hcall st1 f v _ pf⟩
              | succ j => exact ⟨by eqok2, pf _⟩
            | cont j => cases j <;> exact ⟨by eqok2, pf _⟩
            | _ => exact ⟨by eqok2, pf _⟩
      | yieldItem key v into =>
        simp only [localBody] at hokB
        split at hokB
        · simp only [Bool.and_eq_true] at hokB
          obtain ⟨eI, hcase⟩ := evalInto_local (k := k) g hokB.2
          simp only [eval, eI]
          rcases hcase with h0 | ⟨c, post, h1, hpf⟩
          · rw [h0]; simp only [cutR]; exact ⟨by eqok2, hstay _⟩
          · rw [h1]
            dsimp only
            generalize ({ cata := _, dict := ([] : List (Val × (Cata ⊕ Val))) } : ForAcc) = acc0
            obtain ⟨ef, pf⟩ := hfor acc0
            simp only [ef]
            rcases hrf : evalFor k st env its (.yieldItem key v into) acc0 with ⟨rf, st1, acc1⟩
            rw [hrf] at pf
            simp only [cutR3, cutR]
            cases rf with
            | val v =>
              exact ⟨by simp only [finishDict_cut n k st1 env post acc1.dict [] hpf, cutR],
                hfin st1 post acc1.dict _ hpf pf⟩
            | brk j v =>
              cases j with
              | zero =>
                cases v with
                | none =>
                  exact ⟨by simp only [finishDict_cut n k st1 env post acc1.dict [] hpf, cutR],
                    hfin st1 post acc1.dict _ hpf pf⟩
                | some v => exact ⟨by eqok2, pf _⟩
              | succ j => exact ⟨by eqok2, pf _⟩
            | cont j => cases j <;> exact ⟨by eqok2, pf _⟩
            | _ => exact ⟨by eqok2, pf _⟩
        · exact absurd hokB (by simp)
    · exact absurd hok (by simp)
  · exact absurd hok (by simp)

/-! ### assembling -/

theorem c_eval_step {k : Nat} (ih : Pres2 T n k) : CEv T n (k + 1) := by
  intro S S' e st env hok g
  cases e with
  | null =>
    simp only [localOk, Option.some.injEq] at hok; subst hok
    simp only [eval, cutR]; exact ⟨by eqok2, P2.refl _ g (fun _ h => h)⟩
  | int j =>
    simp only [localOk, Option.some.injEq] at hok; subst hok
    simp only [eval, cutR]; exact ⟨by eqok2, P2.refl _ g (fun _ h => h)⟩
  | str j =>
    simp only [localOk, Option.some.injEq] at hok; subst hok
    simp only [eval, cutR]; exact ⟨by eqok2, P2.refl _ g (fun _ h => h)⟩
  | cont j =>
    simp only [localOk, Option.some.injEq] at hok; subst hok
    simp only [eval, cutR]; exact ⟨by eqok2, P2.refl _ g (fun _ h => h)⟩
  | frozen i =>
    simp only [localOk, Option.some.injEq] at hok; subst hok
    have : (cut n st).frozenTab = st.frozenTab := rfl
    simp only [eval, cutR, this]
    cases st.frozenTab[i]? <;> exact ⟨by eqok2, P2.refl _ g (fun _ h => h)⟩
  | ident x => exact c_ident hok g
  | list xs => exact c_list ih hok g
  | op name a b => exact c_op ih hok g
  | index a b => exact c_index ih hok g
  | call f args => exact c_call ih hok g
  | and_ a b => exact c_and ih hok g
  | or_ a b => exact c_or ih hok g
  | coalesce a b => exact c_coalesce ih hok g
  | seq xs semi => exact c_seq ih hok g
  | ite c t e => exact c_ite ih hok g
  | while_ c b => exact c_while ih hok g
  | for_ its body => exact c_for ih hok g
  | declare p rhs => exact c_declare ih hok g
  | assign x rhs => exact c_assign ih hok g
  | opassign x opn rhs => exact c_opassign ih hok g
  | brk j e => exact c_brk ih hok g
  | ret e => exact c_ret ih hok g
  | throw_ e => exact c_throw ih hok g
  | try_ b p c => exact c_try ih hok g
  | switch_ sc arms => exact c_switch ih hok g
  | lambda ps body => simp [localOk] at hok
  | evalSrc e => simp [localOk] at hok
  | freeze e => simp [localOk] at hok

theorem Pres2.step {k : Nat} (ih : Pres2 T n k) : Pres2 T n (k + 1) where
  ev := c_eval_step ih
  evList := c_list_step ih
  evSeq := c_seq_step ih
  evSwitch := c_switch_step ih
  evWhile := c_while_step ih
  evFor := c_for_step ih
  fItems := c_items_step ih
  fBody := c_body_step ih

theorem pres2_all (T : List Val) (n : Nat) : ∀ k, Pres2 T n k := by
  intro k
  induction k with
  | zero => exact Pres2.zero T n
  | succ j ih => exact ih.step


/-! ## the theorems -/

/-- **Frozen code reads only local frames.**  `e`: first-order code all of whose identifiers are surely
declared locally (`localOk`; its other names have become `Frozen` nodes).  `n`: a frame id such that every
name of `S` has a declaration on the scope chain in a frame `≥ n` (for a function body: the call frame).
Then evaluating `e` after FORGETTING the contents of all frames older than `n` gives the same result, and
the same state up to that forgetting: nothing older than `n` is ever looked at. -/
theorem frozen_code_reads_only_local_frames (T : List Val) (n : Nat) (S S' : List String) (e : Expr)
    (st : State) (env fuel : Nat) (hok : localOk T S e = some S')
    (hwf : WF st) (hge : n ≤ env) (hlt : env < st.frames.size) (hsure : Sure S st env n)
    (htab : T <+: st.frozenTab) :
    eval fuel (cut n st) env e = ((eval fuel st env e).1, cut n (eval fuel st env e).2) :=
  ((pres2_all T n fuel).ev S S' e st env hok ⟨hwf, hge, hlt, hsure, htab⟩).1

/-- **…and writes only local frames**: no variable of a frame older than `n` is changed (in particular no
outer variable is assigned), the store only grows -/
theorem frozen_code_writes_only_local_frames (T : List Val) (n : Nat) (S S' : List String) (e : Expr)
    (st : State) (env fuel : Nat) (hok : localOk T S e = some S')
    (hwf : WF st) (hge : n ≤ env) (hlt : env < st.frames.size) (hsure : Sure S st env n)
    (htab : T <+: st.frozenTab) :
    OldKept st (eval fuel st env e).2 n [] ∧ Ext st (eval fuel st env e).2 := by
  have h := ((pres2_all T n fuel).ev S S' e st env hok ⟨hwf, hge, hlt, hsure, htab⟩).2
  exact ⟨h.old, h.ext⟩

/-- two stores that agree on the frames `≥ n` (and on the parent links, the output and the table of frozen
values) are the same after `cut n` -/
theorem cut_eq_of_agree (n : Nat) (st₁ st₂ : State) (hsz : st₁.frames.size = st₂.frames.size)
    (hnew : ∀ i, n ≤ i → st₁.frames[i]? = st₂.frames[i]?)
    (hold : ∀ i fr₁ fr₂, i < n → st₁.frames[i]? = some fr₁ → st₂.frames[i]? = some fr₂ → fr₁.parent = fr₂.parent)
    (hout : st₁.out = st₂.out) (htab : st₁.frozenTab = st₂.frozenTab) : cut n st₁ = cut n st₂ := by
  have hf : cutF n st₁.frames = cutF n st₂.frames := by
    apply Array.ext_getElem?
    intro i
    rw [cutF_get, cutF_get]
    by_cases hi : n ≤ i
    · rw [hnew i hi]
    · have hlt : i < n := by omega
      cases h1 : st₁.frames[i]? with
      | none =>
        have : st₂.frames[i]? = none := by
          apply Array.getElem?_eq_none
          have := Array.getElem?_eq_none_iff.mp h1
          omega
        rw [this]
      | some fr₁ =>
        have hlt1 := getElem?_lt_size h1
        cases h2 : st₂.frames[i]? with
        | none =>
          have := Array.getElem?_eq_none_iff.mp h2
          omega
        | some fr₂ =>
          simp only [Option.map_some, cutFrame, hlt, ↓reduceIte, Option.some.injEq]
          rw [hold i fr₁ fr₂ hlt h1 h2]
  obtain ⟨f1, o1, t1⟩ := st₁
  obtain ⟨f2, o2, t2⟩ := st₂
  simp only [cut] at hf ⊢
  simp only at hout htab
  subst hout htab
  rw [hf]

/-- **Insensitivity ("free variables are bound eagerly").**  Run the same frozen first-order code in two
stores that agree on everything from frame `n` on — the call frame and whatever is newer — but may differ
ARBITRARILY in the variables of all older frames: the outer variables, whatever was assigned to them after
the freeze.  The results are equal, and so are the final stores from frame `n` on. -/
theorem frozen_code_insensitive (T : List Val) (n : Nat) (S S' : List String) (e : Expr)
    (st₁ st₂ : State) (env fuel : Nat) (hok : localOk T S e = some S')
    (hwf₁ : WF st₁) (hwf₂ : WF st₂) (hge : n ≤ env) (hlt₁ : env < st₁.frames.size) (hlt₂ : env < st₂.frames.size)
    (hsure₁ : Sure S st₁ env n) (hsure₂ : Sure S st₂ env n)
    (htab₁ : T <+: st₁.frozenTab) (htab₂ : T <+: st₂.frozenTab)
    (hcut : cut n st₁ = cut n st₂) :
    (eval fuel st₁ env e).1 = (eval fuel st₂ env e).1 ∧
    cut n (eval fuel st₁ env e).2 = cut n (eval fuel st₂ env e).2 := by
  have h1 := frozen_code_reads_only_local_frames T n S S' e st₁ env fuel hok hwf₁ hge hlt₁ hsure₁ htab₁
  have h2 := frozen_code_reads_only_local_frames T n S S' e st₂ env fuel hok hwf₂ hge hlt₂ hsure₂ htab₂
  rw [hcut] at h1
  have := h1.symm.trans h2
  exact ⟨(Prod.mk.inj this).1, (Prod.mk.inj this).2⟩


/-! ## non-vacuity: the frozen form of the stage-1 example program -/

section Examples
open Noulith.C17Preserve (stO prog)
open Noulith.C17Closed (lookOf)

/-- `prog` frozen in the scope `o = 5` (the five occurrences of `o` and the builtin `len` become `Frozen`
nodes), with the table of frozen values -/
def frozenProg : Option (Expr × List Val) :=
  match freezeExpr (lookOf stO 0) ⟨[], []⟩ prog with
  | .ok (e', s') => some (e', s'.tab)
  | .error _ => none

/-- the frozen code is local: every remaining identifier is surely declared by the code itself -/
example : (match frozenProg with | some (e', T) => (localOk T [] e').isSome | none => false) = true := by
  decide +kernel

/-- the ORIGINAL is not (it reads the outer `o`) -/
example : (localOk [] [] prog).isSome = false := by decide +kernel

/-- a call frame (frame 1) under an outer scope in which `o` holds `x` -/
def stCall (x : Int) (T : List Val) : State :=
  { frames := #[{ vars := [("o", .int x)], parent := none }, { vars := [], parent := some 0 }], out := [],
    frozenTab := T }

/-- the outer `o` was 5 at freeze time; at use time it is 5 in one store, 99 in the other.  The unfrozen
program sees the difference, the frozen one does not (kernel-evaluated) … -/
example : (eval 40 (stCall 5 []) 1 prog).1 matches .val (.list [.int 30, .int 2, .int 35, .int 1]) := by
  decide +kernel
example : (eval 40 (stCall 99 []) 1 prog).1 matches .val (.list [.int 594, .int 2, .int 693, .int 1]) := by
  decide +kernel
example : (match frozenProg with
    | some (e', T) => (match (eval 40 (stCall 5 T) 1 e').1, (eval 40 (stCall 99 T) 1 e').1 with
      | .val (.list [.int 30, .int 2, .int 35, .int 1]), .val (.list [.int 30, .int 2, .int 35, .int 1]) => true
      | _, _ => false)
    | none => false) = true := by decide +kernel

theorem wf_stCall (x : Int) (T : List Val) : WF (stCall x T) := by
  intro i fr p h hp
  have hi : i < 2 := by have := getElem?_lt_size h; simpa [stCall] using this
  have : i = 0 ∨ i = 1 := by omega
  rcases this with rfl | rfl
  · simp [stCall] at h; subst h; simp at hp
  · simp [stCall] at h; subst h; simp at hp; omega

/-- … as `frozen_code_insensitive` says it must: its hypotheses hold for these two stores, `n = 1` -/
example (e' : Expr) (T : List Val) (S' : List String) (hok : localOk T [] e' = some S') (fuel : Nat) :
    (eval fuel (stCall 5 T) 1 e').1 = (eval fuel (stCall 99 T) 1 e').1 :=
  (frozen_code_insensitive T 1 [] S' e' (stCall 5 T) (stCall 99 T) 1 fuel hok (wf_stCall _ _) (wf_stCall _ _)
    (Nat.le_refl _) (by simp [stCall]) (by simp [stCall]) (fun _ h => absurd h (by simp))
    (fun _ h => absurd h (by simp)) (List.prefix_refl _) (List.prefix_refl _)
    (cut_eq_of_agree 1 _ _ rfl
      (fun i hi => by
        rcases Nat.lt_or_ge i 2 with h | h
        · have : i = 1 := by omega
          subst this; rfl
        · simp [stCall, Array.getElem?_eq_none, h])
      (fun i fr₁ fr₂ hi h1 h2 => by
        have : i = 0 := by omega
        subst this
        simp [stCall] at h1 h2
        subst h1 h2; rfl)
      rfl rfl)).1

end Examples

/-! Not proved: the general bridge "the frozen form of `ScopeOK` code all of whose reads of bound names are
reads of surely declared names satisfies `localOk` for the table the freeze produced".  `localOk` is
decidable and is checked on the frozen tree itself (example above). -/

end Noulith.C17Insensitive
