/-
C17 (supplement, stage 3) — preservation for bodies that declare LOCAL FUNCTIONS and call them (recursion
included).  Fragment (`okC`, checked on the frozen code `e'`): the first-order forms of stages 1–2, plus
`f := \x1, …, xn -> body` (plain parameters, `f` one of the function names `Fn`) and calls `f(args)`;
closures live ONLY in function-name variables: a lambda occurs only as the right-hand side of such a
declaration, a function name occurs only as a callee.  Static scope condition, uniform for the whole code:
no name that is declared, bound by a pattern or a parameter, or assigned is one of the names `F` that freeze
resolved (this single condition excludes the known findings F20, F27, F30, F32, which all need a name that
is both local somewhere and free somewhere).

`unfreeze_commutes`: evaluating the frozen code `e'` in a store `st` and evaluating the un-frozen code
`unfz N e'` in the store `US st` (the same store, the bodies of the closures in function-name variables
un-frozen) give the same result — equal values — and stores related by `US` again.
-/
import NoulithModel.Theorems.C17Unfreeze

namespace Noulith.C17Closures
open Noulith Noulith.Core Noulith.C17Closed Noulith.C17Frames Noulith.C17Unfreeze
open Noulith.C17Insensitive (builtinAt localInto builtinAt_get)
open Noulith.C17Main (plainParams callState callFrame absorb callVal_plain)

/-- neither a function name nor a name that freeze resolved: the names local data may have -/
def dataName (Fn F : List String) (x : String) : Bool := !Fn.contains x && !F.contains x
def dataNames (Fn F : List String) (xs : List String) : Bool := xs.all (dataName Fn F)

def isPlain : Param → Bool
  | .mk _ none false none => true
  | _ => false

mutual
  def okC (Fn F : List String) (T : List Val) : Expr → Bool
    | .null => true
    | .int _ => true
    | .str _ => true
    | .cont _ => true
    | .frozen _ => true
    | .ident x => dataName Fn F x
    | .list xs => okCL Fn F T xs
    | .op _ a b => okC Fn F T a && okC Fn F T b
    | .index a b => okC Fn F T a && okC Fn F T b
    | .call (.frozen i) args => builtinAt T i && okCL Fn F T args
    | .call (.ident f) args => Fn.contains f && okCL Fn F T args
    | .and_ a b => okC Fn F T a && okC Fn F T b
    | .or_ a b => okC Fn F T a && okC Fn F T b
    | .coalesce a b => okC Fn F T a && okC Fn F T b
    | .seq xs _ => okCL Fn F T xs
    | .ite c t e => okC Fn F T c && okC Fn F T t && okCO Fn F T e
    | .while_ c b => okC Fn F T c && okC Fn F T b
    | .for_ its body => okCI Fn F T its && okCB Fn F T body
    | .declare (.ident f) (.lambda ps body) =>
      Fn.contains f && !F.contains f && ps.all isPlain && dataNames Fn F (ps.map Param.name) && okC Fn F T body
    | .declare p rhs => dataNames Fn F (Pat.idents p) && okC Fn F T rhs
    | .assign x rhs => dataName Fn F x && okC Fn F T rhs
    | .opassign x _ rhs => dataName Fn F x && okC Fn F T rhs
    | .brk _ e => okCO Fn F T e
    | .ret e => okCO Fn F T e
    | .throw_ e => okC Fn F T e
    | .try_ b p c => okC Fn F T b && dataNames Fn F (Pat.idents p) && okC Fn F T c
    | .switch_ sc arms => okC Fn F T sc && okCA Fn F T arms
    | _ => false
  def okCL (Fn F : List String) (T : List Val) : List Expr → Bool
    | [] => true
    | x :: xs => okC Fn F T x && okCL Fn F T xs
  def okCO (Fn F : List String) (T : List Val) : Option Expr → Bool
    | none => true
    | some x => okC Fn F T x
  def okCI (Fn F : List String) (T : List Val) : List ForIt → Bool
    | [] => true
    | .guard g :: rest => okC Fn F T g && okCI Fn F T rest
    | .iter _ p e :: rest => dataNames Fn F (Pat.idents p) && okC Fn F T e && okCI Fn F T rest
  def okCB (Fn F : List String) (T : List Val) : ForBody → Bool
    | .exec e => okC Fn F T e
    | .yield e into => okC Fn F T e && localInto T into
    | .yieldItem k v into => okC Fn F T k && okC Fn F T v && localInto T into
  def okCA (Fn F : List String) (T : List Val) : List SwitchArm → Bool
    | [] => true
    | .mk p body :: rest => dataNames Fn F (Pat.idents p) && okC Fn F T body && okCA Fn F T rest
end

/-! ## invariants -/

variable (Fn F : List String) (T : List Val) (look : String → Option Val) (n : Nat)

/-- a closure made by the code under consideration: plain data parameters, a body in the fragment, and a
defining scope among the frames created since frame `n` -/
def GoodClos (sz : Nat) (v : Val) : Prop :=
  ∃ (names : List String) (b : Expr) (cenv : Nat), v = .closure (plainParams names) b cenv ∧
    okC Fn F T b = true ∧ dataNames Fn F names = true ∧ n ≤ cenv ∧ cenv < sz

/-- the state invariant of the simulation (on the frozen-code run): every scope created since frame `n`
sees the freeze-time values of the names freeze resolved, and every function-name variable holds a good
closure -/
structure J (st : State) : Prop where
  wf : WF st
  agree : ∀ e, n ≤ e → e < st.frames.size → ∀ x, x ∈ F → lookOf st e x = look x
  fnInv : ∀ (i : Nat) (fr : Frame) (f : String) (v : Val), st.frames[i]? = some fr → f ∈ Fn →
    lookupIn fr.vars f = some v → GoodClos Fn F T n st.frames.size v
  tab : T <+: st.frozenTab

variable {Fn F T look n}

theorem GoodClos.mono {sz sz' : Nat} {v : Val} (h : GoodClos Fn F T n sz v) (hs : sz ≤ sz') :
    GoodClos Fn F T n sz' v := by
  obtain ⟨names, b, cenv, rfl, h1, h2, h3, h4⟩ := h
  exact ⟨names, b, cenv, rfl, h1, h2, h3, Nat.lt_of_lt_of_le h4 hs⟩

theorem lookOf_same {st st' : State} {e : Nat} {x : String} (hwf : WF st) (hlt : e < st.frames.size)
    (hlt' : e < st'.frames.size) (hs : SameAt x (e + 1) st.frames st'.frames) : lookOf st' e x = lookOf st e x := by
  apply C17Preserve.lookOf_congr
  unfold State.lookup
  exact lookup_congr x st.frames st'.frames hwf e _ _ (by omega) (by omega) hs

/-- a step that leaves the size alone and does not touch the variables named in `F` nor the function-name
variables -/
theorem J.of_same {st st' : State} (h : J Fn F T look n st) (hwf' : WF st')
    (hsz : st'.frames.size = st.frames.size) (htab : st'.frozenTab = st.frozenTab)
    (hF : ∀ x, x ∈ F → ∀ k, SameAt x k st.frames st'.frames)
    (hFn : ∀ f, f ∈ Fn → ∀ k, SameAt f k st.frames st'.frames) : J Fn F T look n st' := by
  refine ⟨hwf', fun e hge hlt x hx => ?_, fun i fr f v hfr hf hl => ?_, by rw [htab]; exact h.tab⟩
  · rw [hsz] at hlt
    rw [lookOf_same h.wf hlt (by rw [hsz]; exact hlt) (hF x hx _)]
    exact h.agree e hge hlt x hx
  · have hi : i < st.frames.size := by rw [← hsz]; exact getElem?_lt_size hfr
    have hs := hFn f hf (i + 1) i (Nat.lt_succ_self _)
    rw [hfr] at hs
    cases hfr0 : st.frames[i]? with
    | none => rw [hfr0] at hs; simp [SameFrame] at hs
    | some fr0 =>
      rw [hfr0] at hs
      simp only [SameFrame] at hs
      rw [hsz]
      exact h.fnInv i fr0 f v hfr0 hf (by rw [← hs.2]; exact hl)

theorem dataNames_mem {xs : List String} (h : dataNames Fn F xs = true) {x : String} (hx : x ∈ xs) :
    x ∉ Fn ∧ x ∉ F := by
  simp only [dataNames, List.all_eq_true] at h
  have := h x hx
  simp only [dataName, Bool.and_eq_true, Bool.not_eq_true', List.contains_eq_mem, decide_eq_false_iff_not] at this
  exact this

theorem dataName_iff {x : String} (h : dataName Fn F x = true) : x ∉ Fn ∧ x ∉ F := by
  simpa only [dataName, Bool.and_eq_true, Bool.not_eq_true', List.contains_eq_mem, decide_eq_false_iff_not] using h

/-- declaring data names in the current frame -/
theorem J.frameStep {st st' : State} {env : Nat} {Nm : List String} (h : J Fn F T look n st)
    (hfs : FrameStep st.frames st'.frames env Nm) (htab : st'.frozenTab = st.frozenTab)
    (hd : dataNames Fn F Nm = true) : J Fn F T look n st' :=
  h.of_same (hfs.wf h.wf) hfs.size htab
    (fun x hx k => hfs.other x (fun hm => (dataNames_mem hd hm).2 hx) k)
    (fun f hf k => hfs.other f (fun hm => (dataNames_mem hd hm).1 hf) k)

theorem J.declare {st : State} {env : Nat} {p : Pat} {v : Val} {fuel : Nat} (h : J Fn F T look n st)
    (hd : dataNames Fn F (Pat.idents p) = true) : J Fn F T look n (declarePat fuel st env p v).2 := by
  obtain ⟨hfs, htab, _, _⟩ := declarePat_step fuel st env p v
  exact h.frameStep hfs htab hd

theorem J.write {st : State} {env : Nat} {x : String} {fs : Array Frame} (h : J Fn F T look n st)
    (ws : WriteStep st.frames fs env x) (hx : x ∉ Fn ∧ x ∉ F) : J Fn F T look n { st with frames := fs } :=
  h.of_same ws.wf ws.size rfl (fun y hy k => ws.other y (fun e => hx.2 (e ▸ hy)) k)
    (fun f hf k => ws.other f (fun e => hx.1 (e ▸ hf)) k)

theorem J.frames_eq {st st' : State} (h : J Fn F T look n st) (hf : st'.frames = st.frames)
    (ht : st'.frozenTab = st.frozenTab) : J Fn F T look n st' :=
  h.of_same (by unfold WF; rw [hf]; exact h.wf) (by rw [hf]) ht (fun _ _ _ => by rw [hf]; exact SameAt.refl _ _ _)
    (fun _ _ _ => by rw [hf]; exact SameAt.refl _ _ _)

/-- a fresh child scope of a scope created since `n` -/
theorem J.fresh {st : State} {p : Nat} (h : J Fn F T look n st) (hge : n ≤ p) (hlt : p < st.frames.size) :
    J Fn F T look n (newFrame st p).1 := by
  have hwfN : WFf (newFrame st p).1.frames := push_wf st.frames h.wf [] p hlt []
  refine ⟨hwfN, fun e hge' hlt' x hx => ?_, fun i fr f v hfr hf hl => ?_, h.tab⟩
  · have hsz : (newFrame st p).1.frames.size = st.frames.size + 1 := by simp [newFrame]
    rcases Nat.lt_or_ge e st.frames.size with he | he
    · rw [lookOf_same h.wf he hlt' (push_sameAt x st.frames _ _ (by omega))]
      exact h.agree e hge' he x hx
    · have : e = st.frames.size := by omega
      subst this
      rw [← h.agree p hge hlt x hx]
      apply C17Preserve.lookOf_congr2
      unfold State.lookup
      exact lookup_new_frame x st.frames h.wf p hlt _ _ (by omega) (by simp [newFrame]; omega)
  · have hsz : (newFrame st p).1.frames.size = st.frames.size + 1 := by simp [newFrame]
    rw [hsz]
    simp only [newFrame, Array.getElem?_push] at hfr
    split at hfr
    · simp only [Option.some.injEq] at hfr; subst hfr; simp [lookupIn] at hl
    · exact (h.fnInv i fr f v hfr hf hl).mono (Nat.le_succ _)

/-- declaring a function name: `f := \… -> …` -/
theorem J.declareFn {st : State} {env : Nat} {f : String} {v : Val} {fs : Array Frame} (h : J Fn F T look n st)
    (hd : declareVar st.frames env f v = some fs) (hf : f ∈ Fn) (hfF : f ∉ F)
    (hv : GoodClos Fn F T n st.frames.size v) : J Fn F T look n { st with frames := fs } := by
  obtain ⟨fr, hfr, hl, rfl⟩ := declareVar_spec hd
  obtain ⟨hfs, _⟩ := declareVar_step hd
  have hlt := getElem?_lt_size hfr
  refine ⟨hfs.wf h.wf, fun e hge hlt' x hx => ?_, fun i fr' g w hfr' hg hlw => ?_, h.tab⟩
  · have hsz : (st.frames.setIfInBounds env { fr with vars := fr.vars ++ [(f, v)] }).size = st.frames.size := by simp
    have hlt0 : e < st.frames.size := by simpa using hlt'
    have hne : x ∉ [f] := by
      intro hm
      have : x = f := by simpa using hm
      exact hfF (this ▸ hx)
    rw [lookOf_same h.wf hlt0 hlt' (hfs.other x hne _)]
    exact h.agree e hge hlt0 x hx
  · have hsz : (st.frames.setIfInBounds env { fr with vars := fr.vars ++ [(f, v)] }).size = st.frames.size := by simp
    show GoodClos Fn F T n (st.frames.setIfInBounds env { fr with vars := fr.vars ++ [(f, v)] }).size w
    rw [hsz]
    by_cases hie : env = i
    · subst hie
      have e0 : (st.frames.setIfInBounds env { fr with vars := fr.vars ++ [(f, v)] })[env]? =
          some { fr with vars := fr.vars ++ [(f, v)] } := by simp [hlt]
      rw [show ({ st with frames := st.frames.setIfInBounds env { fr with vars := fr.vars ++ [(f, v)] } } : State).frames
        = st.frames.setIfInBounds env { fr with vars := fr.vars ++ [(f, v)] } from rfl, e0] at hfr'
      simp only [Option.some.injEq] at hfr'
      subst hfr'
      by_cases hgf : g = f
      · subst hgf
        rw [C05.lookupIn_append_new _ _ _ hl] at hlw
        simp only [Option.some.injEq] at hlw
        subst hlw
        exact hv
      · rw [C05.lookupIn_append_other _ _ _ _ hgf] at hlw
        exact h.fnInv env fr g w hfr hg hlw
    · have e0 : (st.frames.setIfInBounds env { fr with vars := fr.vars ++ [(f, v)] })[i]? = st.frames[i]? := by
        simp [Array.getElem?_setIfInBounds, hie]
      rw [show ({ st with frames := st.frames.setIfInBounds env { fr with vars := fr.vars ++ [(f, v)] } } : State).frames
        = st.frames.setIfInBounds env { fr with vars := fr.vars ++ [(f, v)] } from rfl, e0] at hfr'
      exact h.fnInv i fr' g w hfr' hg hlw

/-- the state in which the body of a called local function starts -/
theorem J.call {st : State} {cenv : Nat} {names : List String} (args : List Val) (h : J Fn F T look n st)
    (hge : n ≤ cenv) (hlt : cenv < st.frames.size) (hd : dataNames Fn F names = true) :
    J Fn F T look n (callState st cenv names args) :=
  (h.fresh hge hlt).frameStep (C17Main.callState_step st cenv names args) rfl hd

/-! ## calling a closure with plain parameters, all cases -/

theorem callVal_plain_one (st : State) (env cenv : Nat) (names : List String) (body : Expr) (args : List Val) :
    callVal 1 st env (.closure (plainParams names) body cenv) args = (.fuelOut, (newFrame st cenv).1) := by
  simp only [callVal, C17Main.plain_ann, evalList]

theorem callVal_plain_bad (fuel : Nat) (st : State) (env cenv : Nat) (names : List String) (body : Expr)
    (args : List Val) (hlen : args.length ≠ names.length) :
    callVal (fuel + 2) st env (.closure (plainParams names) body cenv) args = (.thrown .err, (newFrame st cenv).1) := by
  simp only [callVal, C17Main.plain_ann, evalList, C17Main.plain_defaults, C17Main.plain_any_splat,
    C17Main.plain_length, List.length_nil, Nat.add_zero, Bool.not_false, Bool.true_and]
  have : (names.length != args.length) = true := by
    simp only [bne_iff_ne, ne_eq]; exact fun h => hlen h.symm
  simp only [this, ↓reduceIte]

variable (Fn N) in
theorem callState_U (st : State) (cenv : Nat) (names : List String) (args : List Val)
    (hd : ∀ x, x ∈ names → x ∉ Fn) :
    callState (US Fn N st) cenv names args = US Fn N (callState st cenv names args) := by
  have hz : UVars Fn N (names.zip args) = names.zip args := by
    unfold UVars
    have : ∀ yv ∈ names.zip args, (yv.1, UVal Fn N yv.1 yv.2) = yv := by
      intro yv hyv
      have hm : yv.1 ∈ names := (List.of_mem_zip hyv).1
      rw [UVal_data (hd _ hm)]
    conv => rhs; rw [← List.map_id (names.zip args)]
    exact List.map_congr_left this
  simp only [callState, US, USF, Array.map_push, Array.size_map, UFrame, UVars, List.map_nil]
  congr 1
  rw [← USF, ← USF, USF_set]
  simp only [USF, Array.map_push, UFrame, callFrame, UVars, List.map_nil]
  congr 1
  simp only [Frame.mk.injEq, and_true, true_and]
  exact hz.symm

/-! ## the statements -/

variable (Fn F T look n) (N : Nat → Option String)

/-- after a step: the invariant again, and the store has not shrunk -/
def Q (st st1 : State) : Prop := J Fn F T look n st1 ∧ st.frames.size ≤ st1.frames.size

/-- the global hypotheses: function names and resolved names are different names, and `N` names only
resolved names whose table entry holds the freeze-time value -/
structure Hyp : Prop where
  disj : ∀ x, x ∈ F → x ∉ Fn
  names : ∀ i x, N i = some x → x ∈ F ∧ ∃ v, T[i]? = some v ∧ look x = some v

def CE3 (k : Nat) : Prop :=
  ∀ (e : Expr) (st : State) (env : Nat), okC Fn F T e = true → J Fn F T look n st → n ≤ env →
    env < st.frames.size →
    eval k (US Fn N st) env (unfz N e) = usR Fn N (eval k st env e) ∧ Q Fn F T look n st (eval k st env e).2

def CL3 (k : Nat) : Prop :=
  ∀ (es : List Expr) (st : State) (env : Nat), okCL Fn F T es = true → J Fn F T look n st → n ≤ env →
    env < st.frames.size →
    evalList k (US Fn N st) env (unfzL N es) = usRL Fn N (evalList k st env es) ∧
      Q Fn F T look n st (evalList k st env es).2

def CS3 (k : Nat) : Prop :=
  ∀ (es : List Expr) (st : State) (env : Nat), okCL Fn F T es = true → J Fn F T look n st → n ≤ env →
    env < st.frames.size →
    evalSeq k (US Fn N st) env (unfzL N es) = usR Fn N (evalSeq k st env es) ∧
      Q Fn F T look n st (evalSeq k st env es).2

def CSw3 (k : Nat) : Prop :=
  ∀ (arms : List SwitchArm) (st : State) (env : Nat) (v : Val), okCA Fn F T arms = true → J Fn F T look n st →
    n ≤ env → env < st.frames.size →
    evalSwitch k (US Fn N st) env v (unfzA N arms) = usR Fn N (evalSwitch k st env v arms) ∧
      Q Fn F T look n st (evalSwitch k st env v arms).2

def CW3 (k : Nat) : Prop :=
  ∀ (c b : Expr) (st : State) (env : Nat), okC Fn F T c = true → okC Fn F T b = true → J Fn F T look n st →
    n ≤ env → env < st.frames.size →
    evalWhile k (US Fn N st) env (unfz N c) (unfz N b) = usR Fn N (evalWhile k st env c b) ∧
      Q Fn F T look n st (evalWhile k st env c b).2

def CF3 (k : Nat) : Prop :=
  ∀ (its : List ForIt) (body : ForBody) (st : State) (env : Nat) (acc : ForAcc), okCI Fn F T its = true →
    okCB Fn F T body = true → J Fn F T look n st → n ≤ env → env < st.frames.size →
    evalFor k (US Fn N st) env (unfzI N its) (unfzB N body) acc = usR3 Fn N (evalFor k st env its body acc) ∧
      Q Fn F T look n st (evalFor k st env its body acc).2.1

def CI3 (k : Nat) : Prop :=
  ∀ (p : Pat) (items : List Val) (rest : List ForIt) (body : ForBody) (st : State) (env : Nat) (acc : ForAcc),
    dataNames Fn F (Pat.idents p) = true → okCI Fn F T rest = true → okCB Fn F T body = true →
    J Fn F T look n st → n ≤ env → env < st.frames.size →
    forItems k (US Fn N st) env p items (unfzI N rest) (unfzB N body) acc =
        usR3 Fn N (forItems k st env p items rest body acc) ∧
      Q Fn F T look n st (forItems k st env p items rest body acc).2.1

def CB3 (k : Nat) : Prop :=
  ∀ (body : ForBody) (st : State) (env : Nat) (acc : ForAcc), okCB Fn F T body = true → J Fn F T look n st →
    n ≤ env → env < st.frames.size →
    forBody k (US Fn N st) env (unfzB N body) acc = usR3 Fn N (forBody k st env body acc) ∧
      Q Fn F T look n st (forBody k st env body acc).2.1

/-- calling a good closure: the frozen-body closure in the store `st`, the un-frozen one in `US st` -/
def CC3 (k : Nat) : Prop :=
  ∀ (v : Val) (args : List Val) (st : State) (env0 : Nat), GoodClos Fn F T n st.frames.size v →
    J Fn F T look n st →
    callVal k (US Fn N st) env0 (Uclos N v) args = usR Fn N (callVal k st env0 v args) ∧
      Q Fn F T look n st (callVal k st env0 v args).2

structure Pres3 (k : Nat) : Prop where
  ev : CE3 Fn F T look n N k
  evList : CL3 Fn F T look n N k
  evSeq : CS3 Fn F T look n N k
  evSwitch : CSw3 Fn F T look n N k
  evWhile : CW3 Fn F T look n N k
  evFor : CF3 Fn F T look n N k
  fItems : CI3 Fn F T look n N k
  fBody : CB3 Fn F T look n N k
  call : CC3 Fn F T look n N k

variable {Fn F T look n N}

theorem Q.refl {st : State} (h : J Fn F T look n st) : Q Fn F T look n st st := ⟨h, Nat.le_refl _⟩

theorem Q.trans {a b c : State} (h1 : Q Fn F T look n a b) (h2 : Q Fn F T look n b c) : Q Fn F T look n a c :=
  ⟨h2.1, Nat.le_trans h1.2 h2.2⟩

theorem Q.lt {a b : State} {env : Nat} (h : Q Fn F T look n a b) (hlt : env < a.frames.size) :
    env < b.frames.size := Nat.lt_of_lt_of_le hlt h.2

theorem Pres3.zero : Pres3 Fn F T look n N 0 where
  ev := fun e st env _ j _ _ => ⟨by simp only [eval, usR], by simp only [eval]; exact Q.refl j⟩
  evList := fun es st env _ j _ _ => ⟨by simp only [evalList, usRL], by simp only [evalList]; exact Q.refl j⟩
  evSeq := fun es st env _ j _ _ => ⟨by simp only [evalSeq, usR], by simp only [evalSeq]; exact Q.refl j⟩
  evSwitch := fun arms st env v _ j _ _ =>
    ⟨by simp only [evalSwitch, usR], by simp only [evalSwitch]; exact Q.refl j⟩
  evWhile := fun c b st env _ _ j _ _ =>
    ⟨by simp only [evalWhile, usR], by simp only [evalWhile]; exact Q.refl j⟩
  evFor := fun its body st env acc _ _ j _ _ =>
    ⟨by simp only [evalFor, usR3], by simp only [evalFor]; exact Q.refl j⟩
  fItems := fun p items rest body st env acc _ _ _ j _ _ =>
    ⟨by simp only [forItems, usR3], by simp only [forItems]; exact Q.refl j⟩
  fBody := fun body st env acc _ j _ _ =>
    ⟨by simp only [forBody, usR3], by simp only [forBody]; exact Q.refl j⟩
  call := fun v args st env0 _ j => ⟨by simp only [callVal, usR], by simp only [callVal]; exact Q.refl j⟩

end Noulith.C17Closures
