/-
C05 (refinement, part 1) — completeness of the fuel-indexed evaluator (Impl/CoreEval.lean) for the relational
big-step semantics (Spec/CoreSem.lean): every derivation is found by the evaluator — there is a fuel from which
on the evaluator returns exactly the result and the state of the derivation (`BigStep.complete`, … one theorem
per judgment).  By structural recursion on the derivation, all eleven judgments simultaneously; `Evt P` is
"`P` holds from some fuel on", so that the fuels of the premises need not be compared.

Also here: the evaluator on function values restated in the vocabulary of the rules (`callVal_print`,
`callVal_builtin`, `callVal_not_callable`, `callVal_closure_bind`, `eval_freeze`).
Soundness is in C05RelSound.lean, the main statements and the documented laws in C05Rel.lean.
-/
import NoulithModel.Spec.CoreSem
import NoulithModel.Theorems.C05Fuel

set_option autoImplicit true
set_option relaxedAutoImplicit true

namespace Noulith.Core

/-! ## the evaluator on function values, in the vocabulary of the rules -/

theorem callVal_print (m : Nat) (st : State) (env : Nat) (args : List Val) :
    callVal (m + 1) st env (.builtin "print") args =
      (.val .null, { st with out := joinWith " " (args.map Val.display) :: st.out }) := by
  simp only [callVal]

theorem callVal_not_callable (m : Nat) (st : State) (env : Nat) (f : Val) (args : List Val)
    (h : f.isFunc = false) : callVal (m + 1) st env f args = (.thrown .err, st) := by
  cases f <;> first | (simp only [callVal]; done) | cases h

theorem callBuiltin_op (name : String) (args : List Val) (h2 : name ≠ "len") (h3 : name ≠ "sum") :
    callBuiltin name args = (if opNames.contains name then
      match args with
      | [a, b] => applyOp name a b
      | [.int a] => if name = "-" then .ok (.int (-a)) else .raise
      | _ => .raise
    else .raise) := by
  unfold callBuiltin
  split
  · exact absurd rfl h2
  · exact absurd rfl h3
  · rfl

theorem callVal_builtin (m : Nat) (st : State) (env : Nat) (name : String) (args : List Val)
    (h : name ≠ "print") :
    callVal (m + 1) st env (.builtin name) args =
      match callBuiltin name args with
      | .ok v => (.val v, st)
      | .raise => (.thrown .err, st) := by
  rw [callVal.eq_def]
  simp only []
  split
  · rename_i heq; cases heq
  · rename_i heq; cases heq; exact absurd rfl h
  · rename_i heq; cases heq
    simp only [callBuiltin]
    rcases args with _ | ⟨a, _ | ⟨b, rest⟩⟩
    · rfl
    · cases a <;> rfl
    · first | rfl | (cases a <;> rfl)
  · rename_i heq; cases heq
    simp only [callBuiltin, sumVals]
    rcases args with _ | ⟨a, _ | ⟨b, rest⟩⟩
    · rfl
    · cases a <;> try rfl
      dsimp only
      generalize List.foldl _ _ _ = o
      cases o <;> rfl
    · first | rfl | (cases a <;> rfl)
  · rename_i n h1 h2 h3 heq; cases heq
    rw [callBuiltin_op name args h2 h3]
    split
    · rcases args with _ | ⟨a, _ | ⟨b, _ | ⟨c, rest⟩⟩⟩
      · rfl
      · cases a <;> try rfl
        dsimp only
        split <;> rfl
      · dsimp only
        cases applyOp name a b <;> rfl
      · rfl
    · rfl
  · rename_i h5; exact absurd rfl (h5 name)

/-- a closure call after its annotations and defaults have been evaluated -/
theorem callVal_closure_bind (m : Nat) (st : State) (env : Nat) (params : List Param) (body : Expr) (cenv : Nat)
    (args : List Val) (st0 : State) (ee : Nat) (tvs : List Val) (st1 : State) (inPlay : List Expr)
    (dvs : List Val) (st2 : State)
    (hs : newFrame st cenv = (st0, ee))
    (h1 : evalList m st0 ee (params.filterMap Param.ann) = (.ok tvs, st1))
    (hd : defaultsInPlay args.length params 0 false [] = some inPlay)
    (ha : arityRefused params args.length inPlay = false)
    (h2 : evalList m st1 ee inPlay = (.ok dvs, st2)) :
    callVal (m + 1) st env (.closure params body cenv) args =
      match bindParams st2 ee params tvs args dvs with
      | none => (.thrown .err, st2)
      | some (false, st3) => (.thrown .err, st3)
      | some (true, st3) =>
        match eval m st3 ee body with
        | (.ret v, st4) => (.val v, st4)
        | r => r := by
  simp only [arityRefused] at ha
  simp only [callVal, hs, h1, hd, ha, h2, bindParams, Bool.false_eq_true, ↓reduceIte]
  cases bindArgs params args dvs with
  | none => rfl
  | some binds =>
    dsimp only
    cases st2.frames[ee]? with
    | none => rfl
    | some fr =>
      dsimp only
      rcases checkBinds (annSlots params tvs) binds [] [] with ⟨ok, vars, tys⟩
      cases ok <;> rfl

theorem State.assign_some {st : State} {env : Nat} {x : String} {v : Val} {st2 : State}
    (h : st.assign env x v = some st2) :
    ∃ fs, assignVar st.frames (st.frames.size + 1) env x v = some fs ∧ st2 = { st with frames := fs } := by
  simp only [State.assign] at h
  split at h
  · cases h; exact ⟨_, ‹_›, rfl⟩
  · cases h

theorem State.assign_none {st : State} {env : Nat} {x : String} {v : Val}
    (h : st.assign env x v = none) : assignVar st.frames (st.frames.size + 1) env x v = none := by
  simp only [State.assign] at h
  split at h
  · cases h
  · assumption

theorem State.drop_some {st : State} {env : Nat} {x : String} {st2 : State}
    (h : st.drop env x = some st2) :
    ∃ fs, dropVar st.frames (st.frames.size + 1) env x = some fs ∧ st2 = { st with frames := fs } := by
  simp only [State.drop] at h
  split at h
  · cases h; exact ⟨_, ‹_›, rfl⟩
  · cases h

theorem State.drop_none {st : State} {env : Nat} {x : String}
    (h : st.drop env x = none) : dropVar st.frames (st.frames.size + 1) env x = none := by
  simp only [State.drop] at h
  split at h
  · cases h
  · assumption

theorem eval_freeze (m : Nat) (st : State) (env : Nat) (e : Expr) :
    eval (m + 1) st env (.freeze e) =
      match freezeExpr (scopeLook st env) { bound := [], tab := st.frozenTab } e with
      | .ok (e', fs) => eval m { st with frozenTab := fs.tab } env e'
      | .error _ => (.thrown .err, st) := by
  simp only [eval]
  rfl

/-! ## completeness: every derivation is computed by the evaluator -/

/-- "from some fuel on" -/
def Evt (P : Nat → Prop) : Prop := ∃ f, ∀ m, f ≤ m → P m

theorem Evt.and {P Q : Nat → Prop} (h1 : Evt P) (h2 : Evt Q) : Evt (fun m => P m ∧ Q m) := by
  obtain ⟨f1, h1⟩ := h1; obtain ⟨f2, h2⟩ := h2
  exact ⟨f1 + f2, fun m hm => ⟨h1 m (by omega), h2 m (by omega)⟩⟩

/-- the step of every rule: if the premises hold at fuel `m`, the conclusion holds at fuel `m + 1` -/
theorem Evt.succ {P Q : Nat → Prop} (h1 : Evt P) (h : ∀ m, P m → Q (m + 1)) : Evt Q := by
  obtain ⟨f1, h1⟩ := h1
  refine ⟨f1 + 1, fun m hm => ?_⟩
  obtain ⟨m', rfl⟩ : ∃ m', m = m' + 1 := ⟨m - 1, by omega⟩
  exact h m' (h1 m' (by omega))

/-- axioms: rules without premises -/
theorem Evt.now {Q : Nat → Prop} (h : ∀ m, Q (m + 1)) : Evt Q :=
  ⟨1, fun m hm => by obtain ⟨m', rfl⟩ : ∃ m', m = m' + 1 := ⟨m - 1, by omega⟩; exact h m'⟩

/-- unfold one layer of the evaluator and rewrite the sub-calls with the given equations -/
syntax "csimp " "[" Lean.Parser.Tactic.simpLemma,* "]" : tactic
macro_rules
  | `(tactic| csimp [$ts,*]) => `(tactic|
      simp only [eval, evalSwitch, evalSeq, evalList, evalInto, evalWhile, evalFor, forItems, forBody,
        finishDict, Bool.false_eq_true, ↓reduceIte, Bool.not_true, Bool.not_false, Option.getD, $ts,*])

/-- split an exit `r` (`hr : r.isExit = true`) into its four shapes -/
syntax "exit_cases " ident ident : tactic
macro_rules
  | `(tactic| exit_cases $r $hr) => `(tactic| (cases $r:ident <;> cases $hr:ident))

/-- split the result `r` of the clauses of a `for` according to `hl : loopEnd r = …` -/
syntax "loop_cases " ident ident : tactic
macro_rules
  | `(tactic| loop_cases $r $hl) => `(tactic|
      (rcases $r:ident with _ | ⟨_ | _, _ | _⟩ | ⟨_ | _⟩ | _ | _ | _ <;> cases $hl:ident))

mutual

  theorem BigStep.complete : ∀ {st env e r st'}, BigStep st env e r st' → Evt fun m => eval m st env e = (r, st')
    | _, _, _, _, _, .null => .now fun m => by csimp []
    | _, _, _, _, _, .int => .now fun m => by csimp []
    | _, _, _, _, _, .str => .now fun m => by csimp []
    | _, _, _, _, _, .frozen h => .now fun m => by csimp [h]
    | _, _, _, _, _, .frozen_missing h => .now fun m => by csimp [h]
    | _, _, _, _, _, .ident h => .now fun m => by csimp [h]
    | _, _, _, _, _, .ident_builtin h hb => .now fun m => by csimp [h, hb]
    | _, _, _, _, _, .ident_undefined h hb => .now fun m => by csimp [h, hb]
    | _, _, _, _, _, .list h => h.complete.succ fun m h1 => by csimp [h1]
    | _, _, _, _, _, .list_exit h => h.complete.succ fun m h1 => by csimp [h1]
    | _, _, _, _, _, .op ha hb ho => (ha.complete.and hb.complete).succ fun m ⟨h1, h2⟩ => by csimp [h1, h2, ho]
    | _, _, _, _, _, .op_raise ha hb ho => (ha.complete.and hb.complete).succ fun m ⟨h1, h2⟩ => by csimp [h1, h2, ho]
    | _, _, _, r, _, .op_exit_left ha hr => ha.complete.succ fun m h1 => by exit_cases r hr <;> csimp [h1]
    | _, _, _, r, _, .op_exit_right ha hb hr =>
      (ha.complete.and hb.complete).succ fun m ⟨h1, h2⟩ => by exit_cases r hr <;> csimp [h1, h2]
    | _, _, _, _, _, .index ha hb ho => (ha.complete.and hb.complete).succ fun m ⟨h1, h2⟩ => by csimp [h1, h2, ho]
    | _, _, _, _, _, .index_raise ha hb ho =>
      (ha.complete.and hb.complete).succ fun m ⟨h1, h2⟩ => by csimp [h1, h2, ho]
    | _, _, _, r, _, .index_exit_left ha hr => ha.complete.succ fun m h1 => by exit_cases r hr <;> csimp [h1]
    | _, _, _, r, _, .index_exit_right ha hb hr =>
      (ha.complete.and hb.complete).succ fun m ⟨h1, h2⟩ => by exit_cases r hr <;> csimp [h1, h2]
    | _, _, _, _, _, .call hf ha hc =>
      ((hf.complete.and ha.complete).and hc.complete).succ fun m ⟨⟨h1, h2⟩, h3⟩ => by csimp [h1, h2, h3]
    | _, _, _, r, _, .call_exit_fn hf hr => hf.complete.succ fun m h1 => by exit_cases r hr <;> csimp [h1]
    | _, _, _, _, _, .call_exit_args hf ha => (hf.complete.and ha.complete).succ fun m ⟨h1, h2⟩ => by csimp [h1, h2]
    | _, _, _, _, _, .and_short ha ht => ha.complete.succ fun m h1 => by csimp [h1, ht]
    | _, _, _, _, _, .and_right ha ht hb => (ha.complete.and hb.complete).succ fun m ⟨h1, h2⟩ => by csimp [h1, ht, h2]
    | _, _, _, r, _, .and_exit ha hr => ha.complete.succ fun m h1 => by exit_cases r hr <;> csimp [h1]
    | _, _, _, _, _, .or_short ha ht => ha.complete.succ fun m h1 => by csimp [h1, ht]
    | _, _, _, _, _, .or_right ha ht hb => (ha.complete.and hb.complete).succ fun m ⟨h1, h2⟩ => by csimp [h1, ht, h2]
    | _, _, _, r, _, .or_exit ha hr => ha.complete.succ fun m h1 => by exit_cases r hr <;> csimp [h1]
    | _, _, _, _, _, .coalesce_short (va := va) ha hn => ha.complete.succ fun m h1 => by
        cases va <;> first | exact absurd rfl hn | csimp [h1]
    | _, _, _, _, _, .coalesce_right ha hb => (ha.complete.and hb.complete).succ fun m ⟨h1, h2⟩ => by csimp [h1, h2]
    | _, _, _, r, _, .coalesce_exit ha hr => ha.complete.succ fun m h1 => by exit_cases r hr <;> csimp [h1]
    | _, _, _, _, _, .seq h => h.complete.succ fun m h1 => by csimp [h1]
    | _, _, _, r, _, .seq_exit h hr => h.complete.succ fun m h1 => by exit_cases r hr <;> csimp [h1]
    | _, _, _, _, _, .ite_true hc ht hb => (hc.complete.and hb.complete).succ fun m ⟨h1, h2⟩ => by csimp [h1, ht, h2]
    | _, _, _, _, _, .ite_false hc ht hb => (hc.complete.and hb.complete).succ fun m ⟨h1, h2⟩ => by csimp [h1, ht, h2]
    | _, _, _, _, _, .ite_false_no_else hc ht => hc.complete.succ fun m h1 => by csimp [h1, ht]
    | _, _, _, r, _, .ite_exit hc hr => hc.complete.succ fun m h1 => by exit_cases r hr <;> csimp [h1]
    | _, _, _, _, _, .while_ h => h.complete.succ fun m h1 => by csimp [h1]
    | _, _, _, _, _, .for_completed (r := r) h hl => h.complete.succ fun m h1 => by loop_cases r hl <;> csimp [h1]
    | _, _, _, _, _, .for_broke (r := r) h hl => h.complete.succ fun m h1 => by loop_cases r hl <;> csimp [h1]
    | _, _, _, _, _, .for_exit (r := r) h hl => h.complete.succ fun m h1 => by loop_cases r hl <;> csimp [h1]
    | _, _, _, _, _, .yield_into_exit hi => hi.complete.succ fun m h1 => by csimp [h1]
    | _, _, _, _, _, .yield_exit (r := r) (post := post) hi hf hl =>
      (hi.complete.and hf.complete).succ fun m ⟨h1, h2⟩ => by
        loop_cases r hl <;> cases post <;> csimp [h1, h2]
    | _, _, _, _, _, .yield_finish_raise (r := r) (post := post) hi hf hl hfin =>
      (hi.complete.and hf.complete).succ fun m ⟨h1, h2⟩ => by
        loop_cases r hl <;> cases post <;> csimp [h1, h2, hfin]
    | _, _, _, _, _, .yield_completed (r := r) hi hf hl hfin =>
      (hi.complete.and hf.complete).succ fun m ⟨h1, h2⟩ => by loop_cases r hl <;> csimp [h1, h2, hfin]
    | _, _, _, _, _, .yield_completed_post (r := r) hi hf hl hfin hc =>
      ((hi.complete.and hf.complete).and hc.complete).succ fun m ⟨⟨h1, h2⟩, h3⟩ => by
        loop_cases r hl <;> csimp [h1, h2, hfin, h3]
    | _, _, _, _, _, .yield_broke (r := r) hi hf hl =>
      (hi.complete.and hf.complete).succ fun m ⟨h1, h2⟩ => by loop_cases r hl <;> csimp [h1, h2]
    | _, _, _, _, _, .yield_broke_post (r := r) hi hf hl hc =>
      ((hi.complete.and hf.complete).and hc.complete).succ fun m ⟨⟨h1, h2⟩, h3⟩ => by
        loop_cases r hl <;> csimp [h1, h2, h3]
    | _, _, _, _, _, .item_into_exit hi => hi.complete.succ fun m h1 => by csimp [h1]
    | _, _, _, _, _, .item_completed (r := r) (into := into) (post := post) hi hf hl hfin =>
      ((hi.complete.and hf.complete).and hfin.complete).succ fun m ⟨⟨h1, h2⟩, h3⟩ => by
        cases into <;> cases post <;> simp only [itemCata] at h2 <;> loop_cases r hl <;> csimp [h1, h2, h3]
    | _, _, _, _, _, .item_broke (r := r) (into := into) (post := post) hi hf hl =>
      (hi.complete.and hf.complete).succ fun m ⟨h1, h2⟩ => by
        cases into <;> cases post <;> simp only [itemCata] at h2 <;> loop_cases r hl <;> csimp [h1, h2]
    | _, _, _, _, _, .item_exit (r := r) (into := into) (post := post) hi hf hl =>
      (hi.complete.and hf.complete).succ fun m ⟨h1, h2⟩ => by
        cases into <;> cases post <;> simp only [itemCata] at h2 <;> loop_cases r hl <;> csimp [h1, h2]
    | _, _, _, _, _, .declare h hb => h.complete.succ fun m h1 => by
        simp only [bindPat] at hb; csimp [h1, hb]
    | _, _, _, _, _, .declare_refused h hb => h.complete.succ fun m h1 => by
        simp only [bindPat] at hb; csimp [h1, hb]
    | _, _, _, r, _, .declare_exit h hr => h.complete.succ fun m h1 => by exit_cases r hr <;> csimp [h1]
    | _, _, _, _, _, .assign h ha => h.complete.succ fun m h1 => by
        obtain ⟨fs, ha2, rfl⟩ := State.assign_some ha
        csimp [h1, ha2]
    | _, _, _, _, _, .assign_refused h ha => h.complete.succ fun m h1 => by
        csimp [h1, State.assign_none ha]
    | _, _, _, r, _, .assign_exit h hr => h.complete.succ fun m h1 => by exit_cases r hr <;> csimp [h1]
    | _, _, _, _, _, .opassign hl h hd ho ha => h.complete.succ fun m h1 => by
        obtain ⟨fs, hd2, rfl⟩ := State.drop_some hd
        obtain ⟨fs2, ha2, rfl⟩ := State.assign_some ha
        replace ha2 : assignVar fs (fs.size + 1) _ _ _ = _ := ha2
        csimp [hl, h1, hd2, ho, ha2]
    | _, _, _, _, _, .opassign_undeclared hl => .now fun m => by csimp [hl]
    | _, _, _, r, _, .opassign_exit hl h hr => h.complete.succ fun m h1 => by exit_cases r hr <;> csimp [hl, h1]
    | _, _, _, _, _, .opassign_drop_refused hl h hd => h.complete.succ fun m h1 => by
        csimp [hl, h1, State.drop_none hd]
    | _, _, _, _, _, .opassign_op_raise hl h hd ho => h.complete.succ fun m h1 => by
        obtain ⟨fs, hd2, rfl⟩ := State.drop_some hd
        csimp [hl, h1, hd2, ho]
    | _, _, _, _, _, .opassign_assign_refused hl h hd ho ha => h.complete.succ fun m h1 => by
        obtain ⟨fs, hd2, rfl⟩ := State.drop_some hd
        have ha2 : assignVar fs (fs.size + 1) _ _ _ = _ := State.assign_none ha
        csimp [hl, h1, hd2, ho, ha2]
    | _, _, _, _, _, .lambda => .now fun m => by csimp []
    | _, _, _, _, _, .brk => .now fun m => by csimp []
    | _, _, _, _, _, .brk_value h => h.complete.succ fun m h1 => by csimp [h1]
    | _, _, _, r, _, .brk_exit h hr => h.complete.succ fun m h1 => by exit_cases r hr <;> csimp [h1]
    | _, _, _, _, _, .cont => .now fun m => by csimp []
    | _, _, _, _, _, .ret => .now fun m => by csimp []
    | _, _, _, _, _, .ret_value h => h.complete.succ fun m h1 => by csimp [h1]
    | _, _, _, r, _, .ret_exit h hr => h.complete.succ fun m h1 => by exit_cases r hr <;> csimp [h1]
    | _, _, _, _, _, .throw_ h => h.complete.succ fun m h1 => by csimp [h1]
    | _, _, _, r, _, .throw_exit h hr => h.complete.succ fun m h1 => by exit_cases r hr <;> csimp [h1]
    | _, _, _, r, _, .try_pass h hr => h.complete.succ fun m h1 => by cases r <;> cases hr <;> csimp [h1]
    | _, _, _, _, _, .try_catch h hs hb hc => (h.complete.and hc.complete).succ fun m ⟨h1, h2⟩ => by
        simp only [bindPat] at hb; csimp [h1, hs, hb, h2]
    | _, _, _, _, _, .try_rethrow h hs hb => h.complete.succ fun m h1 => by
        simp only [bindPat] at hb; csimp [h1, hs, hb]
    | _, _, _, _, _, .switch_ h hs => (h.complete.and hs.complete).succ fun m ⟨h1, h2⟩ => by csimp [h1, h2]
    | _, _, _, r, _, .switch_exit h hr => h.complete.succ fun m h1 => by exit_cases r hr <;> csimp [h1]
    | _, _, _, _, _, .evalSrc h => h.complete.succ fun m h1 => by csimp [h1]
    | _, _, _, _, _, .freeze hf h => h.complete.succ fun m h1 => by
        simp only [eval_freeze, hf, h1]
    | _, _, _, _, _, .freeze_refused hf => .now fun m => by
        simp only [eval_freeze, hf]

  theorem SwitchStep.complete : ∀ {st env v arms r st'}, SwitchStep st env v arms r st' →
      Evt fun m => evalSwitch m st env v arms = (r, st')
    | _, _, _, _, _, _, .no_arm => .now fun m => by csimp []
    | _, _, _, _, _, _, .arm hs hb h => h.complete.succ fun m h1 => by
        simp only [bindPat] at hb; csimp [hs, hb, h1]
    | _, _, _, _, _, _, .next hs hb h => h.complete.succ fun m h1 => by
        simp only [bindPat] at hb; csimp [hs, hb, h1]

  theorem SeqStep.complete : ∀ {st env es r st'}, SeqStep st env es r st' →
      Evt fun m => evalSeq m st env es = (r, st')
    | _, _, _, _, _, .nil => .now fun m => by csimp []
    | _, _, _, _, _, .last h => h.complete.succ fun m h1 => by csimp [h1]
    | _, _, _, _, _, .cons h hs => (h.complete.and hs.complete).succ fun m ⟨h1, h2⟩ => by csimp [h1, h2]
    | _, _, _, r, _, .exit h hr => h.complete.succ fun m h1 => by exit_cases r hr <;> csimp [h1]

  theorem ListStep.complete : ∀ {st env es r st'}, ListStep st env es r st' →
      Evt fun m => evalList m st env es = (r, st')
    | _, _, _, _, _, .nil => .now fun m => by csimp []
    | _, _, _, _, _, .cons h hs => (h.complete.and hs.complete).succ fun m ⟨h1, h2⟩ => by csimp [h1, h2]
    | _, _, _, _, _, .exit_tail h hs => (h.complete.and hs.complete).succ fun m ⟨h1, h2⟩ => by csimp [h1, h2]
    | _, _, _, _, _, .exit_head (r := r) h hr => h.complete.succ fun m h1 => by exit_cases r hr <;> csimp [h1]

  theorem IntoStep.complete : ∀ {st env o r st'}, IntoStep st env o r st' →
      Evt fun m => evalInto m st env o = (r, st')
    | _, _, _, _, _, .none => .now fun m => by csimp []
    | _, _, _, _, _, .cata (f := f) h hc => h.complete.succ fun m h1 => by
        cases f <;> first | (cases hc; done) | (simp only [cataOfVal] at hc; csimp [h1, hc])
    | _, _, _, _, _, .func (f := f) h hc => h.complete.succ fun m h1 => by
        cases f <;> simp only [cataOfVal] at hc <;> csimp [h1, hc]
    | _, _, _, _, _, .exit (r := r) h hr => h.complete.succ fun m h1 => by exit_cases r hr <;> csimp [h1]

  theorem WhileStep.complete : ∀ {st env c b r st'}, WhileStep st env c b r st' →
      Evt fun m => evalWhile m st env c b = (r, st')
    | _, _, _, _, _, _, .done hs hc ht => hc.complete.succ fun m h1 => by csimp [hs, h1, ht]
    | _, _, _, _, r, _, .cond_exit hs hc hr => hc.complete.succ fun m h1 => by exit_cases r hr <;> csimp [hs, h1]
    | _, _, _, _, _, _, .next (rb := rb) hs hc ht hb hn hw =>
      ((hc.complete.and hb.complete).and hw.complete).succ fun m ⟨⟨h1, h2⟩, h3⟩ => by
        rcases rb with _ | _ | ⟨_ | _⟩ | _ | _ | _ <;> cases hn <;> csimp [hs, h1, ht, h2, h3]
    | _, _, _, _, _, _, .break_ hs hc ht hb => (hc.complete.and hb.complete).succ fun m ⟨h1, h2⟩ => by
        csimp [hs, h1, ht, h2]
    | _, _, _, _, _, _, .break_outer hs hc ht hb => (hc.complete.and hb.complete).succ fun m ⟨h1, h2⟩ => by
        csimp [hs, h1, ht, h2]
    | _, _, _, _, _, _, .continue_outer hs hc ht hb => (hc.complete.and hb.complete).succ fun m ⟨h1, h2⟩ => by
        csimp [hs, h1, ht, h2]
    | _, _, _, _, r, _, .pass hs hc ht hb hr => (hc.complete.and hb.complete).succ fun m ⟨h1, h2⟩ => by
        cases r <;> cases hr <;> csimp [hs, h1, ht, h2]

  theorem ForStep.complete : ∀ {st env its body acc r st' acc'}, ForStep st env its body acc r st' acc' →
      Evt fun m => evalFor m st env its body acc = (r, st', acc')
    | _, _, _, _, _, r, _, _, .body h hr => h.complete.succ fun m h1 => by
        rcases r with _ | _ | ⟨_ | _⟩ | _ | _ | _ <;> first | exact absurd rfl hr | csimp [h1]
    | _, _, _, _, _, _, _, _, .body_continue h => h.complete.succ fun m h1 => by csimp [h1]
    | _, _, _, _, _, _, _, _, .guard_true hg ht h => (hg.complete.and h.complete).succ fun m ⟨h1, h2⟩ => by
        csimp [h1, ht, h2]
    | _, _, _, _, _, _, _, _, .guard_false hg ht => hg.complete.succ fun m h1 => by csimp [h1, ht]
    | _, _, _, _, _, r, _, _, .guard_exit hg hr => hg.complete.succ fun m h1 => by exit_cases r hr <;> csimp [h1]
    | _, _, _, _, _, r, _, _, .iter_exit he hr => he.complete.succ fun m h1 => by exit_cases r hr <;> csimp [h1]
    | _, _, _, _, _, _, _, _, .declare he hs hb h => (he.complete.and h.complete).succ fun m ⟨h1, h2⟩ => by
        simp only [bindPat] at hb; csimp [h1, hs, hb, h2]
    | _, _, _, _, _, _, _, _, .declare_refused he hs hb => he.complete.succ fun m h1 => by
        simp only [bindPat] at hb; csimp [h1, hs, hb]
    | _, _, _, _, _, _, _, _, .each he hi h => (he.complete.and h.complete).succ fun m ⟨h1, h2⟩ => by
        csimp [h1, hi, h2]
    | _, _, _, _, _, _, _, _, .each_not_iterable he hi => he.complete.succ fun m h1 => by csimp [h1, hi]
    | _, _, _, _, _, _, _, _, .each_pair he hi h => (he.complete.and h.complete).succ fun m ⟨h1, h2⟩ => by
        csimp [h1, hi, h2]
    | _, _, _, _, _, _, _, _, .each_pair_not_iterable he hi => he.complete.succ fun m h1 => by csimp [h1, hi]

  theorem ItemsStep.complete : ∀ {st env p items its body acc r st' acc'},
      ItemsStep st env p items its body acc r st' acc' →
      Evt fun m => forItems m st env p items its body acc = (r, st', acc')
    | _, _, _, _, _, _, _, _, _, _, .done => .now fun m => by csimp []
    | _, _, _, _, _, _, _, _, _, _, .bind_refused hs hb => .now fun m => by
        simp only [bindPat] at hb; csimp [hs, hb]
    | _, _, _, _, _, _, _, _, _, _, .next hs hb hf h => (hf.complete.and h.complete).succ fun m ⟨h1, h2⟩ => by
        simp only [bindPat] at hb; csimp [hs, hb, h1, h2]
    | _, _, _, _, _, _, _, r, _, _, .exit hs hb hf hr => hf.complete.succ fun m h1 => by
        simp only [bindPat] at hb; exit_cases r hr <;> csimp [hs, hb, h1]

  theorem BodyStep.complete : ∀ {st env body acc r st' acc'}, BodyStep st env body acc r st' acc' →
      Evt fun m => forBody m st env body acc = (r, st', acc')
    | _, _, _, _, _, _, _, .exec h => h.complete.succ fun m h1 => by csimp [h1]
    | _, _, _, _, r, _, _, .exec_exit h hr => h.complete.succ fun m h1 => by exit_cases r hr <;> csimp [h1]
    | _, _, _, _, _, _, _, .yield h hg => h.complete.succ fun m h1 => by csimp [h1, hg]
    | _, _, _, _, _, _, _, .yield_stop h hg => h.complete.succ fun m h1 => by csimp [h1, hg]
    | _, _, _, _, _, _, _, .yield_raise h hg => h.complete.succ fun m h1 => by csimp [h1, hg]
    | _, _, _, _, r, _, _, .yield_exit h hr => h.complete.succ fun m h1 => by exit_cases r hr <;> csimp [h1]
    | _, _, _, _, r, _, _, .key_exit h hr => h.complete.succ fun m h1 => by exit_cases r hr <;> csimp [h1]
    | _, _, _, _, _, _, _, .key_is_function (vk := vk) h hk => h.complete.succ fun m h1 => by
        cases vk <;> cases hk <;> csimp [h1]
    | _, _, _, _, _, _, _, .key_closed (vk := vk) h hk hd => h.complete.succ fun m h1 => by
        cases vk <;> cases hk <;> csimp [h1, hd]
    | _, _, _, _, _, _, _, .key_open (vk := vk) h hk hd hv hg =>
      (h.complete.and hv.complete).succ fun m ⟨h1, h2⟩ => by cases vk <;> cases hk <;> csimp [h1, hd, h2, hg]
    | _, _, _, _, _, _, _, .key_open_stop (vk := vk) h hk hd hv hg =>
      (h.complete.and hv.complete).succ fun m ⟨h1, h2⟩ => by cases vk <;> cases hk <;> csimp [h1, hd, h2, hg]
    | _, _, _, _, _, _, _, .key_open_raise (vk := vk) h hk hd hv hg =>
      (h.complete.and hv.complete).succ fun m ⟨h1, h2⟩ => by cases vk <;> cases hk <;> csimp [h1, hd, h2, hg]
    | _, _, _, _, r, _, _, .key_open_exit (vk := vk) h hk hd hv hr =>
      (h.complete.and hv.complete).succ fun m ⟨h1, h2⟩ => by
        cases vk <;> cases hk <;> exit_cases r hr <;> csimp [h1, hd, h2]
    | _, _, _, _, _, _, _, .key_new (vk := vk) h hk hd hv hg =>
      (h.complete.and hv.complete).succ fun m ⟨h1, h2⟩ => by cases vk <;> cases hk <;> csimp [h1, hd, h2, hg]
    | _, _, _, _, _, _, _, .key_new_stop (vk := vk) h hk hd hv hg =>
      (h.complete.and hv.complete).succ fun m ⟨h1, h2⟩ => by cases vk <;> cases hk <;> csimp [h1, hd, h2, hg]
    | _, _, _, _, _, _, _, .key_new_raise (vk := vk) h hk hd hv hg =>
      (h.complete.and hv.complete).succ fun m ⟨h1, h2⟩ => by cases vk <;> cases hk <;> csimp [h1, hd, h2, hg]
    | _, _, _, _, r, _, _, .key_new_exit (vk := vk) h hk hd hv hr =>
      (h.complete.and hv.complete).succ fun m ⟨h1, h2⟩ => by
        cases vk <;> cases hk <;> exit_cases r hr <;> csimp [h1, hd, h2]

  theorem FinishStep.complete : ∀ {st env post d done r st'}, FinishStep st env post d done r st' →
      Evt fun m => finishDict m st env post d done = (r, st')
    | _, _, _, _, _, _, _, .done => .now fun m => by csimp []
    | _, _, _, _, _, _, _, .closed h => h.complete.succ fun m h1 => by csimp [h1]
    | _, _, _, _, _, _, _, .raise hf => .now fun m => by csimp [hf]
    | _, _, _, _, _, _, _, .open_ hf h => h.complete.succ fun m h1 => by csimp [hf, h1]
    | _, _, _, _, _, _, _, .post hf hc h => (hc.complete.and h.complete).succ fun m ⟨h1, h2⟩ => by csimp [hf, h1, h2]
    | _, _, _, _, _, r, _, .post_exit hf hc hr => hc.complete.succ fun m h1 => by
        exit_cases r hr <;> csimp [hf, h1]

  theorem CallStep.complete : ∀ {st env f args r st'}, CallStep st env f args r st' →
      Evt fun m => callVal m st env f args = (r, st')
    | _, _, _, _, _, _, .annotation_exit hs ha => ha.complete.succ fun m h1 => by
        simp only [callVal, hs, h1]
    | _, _, _, _, _, _, .defaults_refused hs ha hd => ha.complete.succ fun m h1 => by
        simp only [callVal, hs, h1, hd]
    | _, _, _, _, _, _, .arity_refused hs ha hd har => ha.complete.succ fun m h1 => by
        simp only [arityRefused] at har
        simp only [callVal, hs, h1, hd, har, ↓reduceIte]
    | _, _, _, _, _, _, .default_exit hs ha hd har hdv => (ha.complete.and hdv.complete).succ fun m ⟨h1, h2⟩ => by
        simp only [arityRefused] at har
        simp only [callVal, hs, h1, hd, har, Bool.false_eq_true, ↓reduceIte, h2]
    | _, _, _, _, _, _, .bind_refused hs ha hd har hdv hb => (ha.complete.and hdv.complete).succ fun m ⟨h1, h2⟩ => by
        rw [callVal_closure_bind m _ _ _ _ _ _ _ _ _ _ _ _ _ hs h1 hd har h2, hb]
    | _, _, _, _, _, _, .type_refused hs ha hd har hdv hb => (ha.complete.and hdv.complete).succ fun m ⟨h1, h2⟩ => by
        rw [callVal_closure_bind m _ _ _ _ _ _ _ _ _ _ _ _ _ hs h1 hd har h2, hb]
    | _, _, _, _, _, _, .returned hs ha hd har hdv hb h =>
      ((ha.complete.and hdv.complete).and h.complete).succ fun m ⟨⟨h1, h2⟩, h3⟩ => by
        rw [callVal_closure_bind m _ _ _ _ _ _ _ _ _ _ _ _ _ hs h1 hd har h2, hb]
        simp only [h3]
    | _, _, _, _, r, _, .body hs ha hd har hdv hb h hr =>
      ((ha.complete.and hdv.complete).and h.complete).succ fun m ⟨⟨h1, h2⟩, h3⟩ => by
        rw [callVal_closure_bind m _ _ _ _ _ _ _ _ _ _ _ _ _ hs h1 hd har h2, hb]
        cases r <;> cases hr <;> simp only [h3]
    | _, _, _, _, _, _, .print => .now fun m => callVal_print m _ _ _
    | _, _, _, _, _, _, .builtin hn hc => .now fun m => by rw [callVal_builtin m _ _ _ _ hn, hc]
    | _, _, _, _, _, _, .builtin_raise hn hc => .now fun m => by rw [callVal_builtin m _ _ _ _ hn, hc]
    | _, _, _, _, _, _, .not_callable hf => .now fun m => callVal_not_callable m _ _ _ _ hf

end

end Noulith.Core
