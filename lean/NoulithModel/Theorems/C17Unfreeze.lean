/-
C17 (supplement, stage 3) — un-freezing.  `unfz N e'` puts the identifier `N i` back in place of the node
`Frozen i` (for the indices `N` knows); `US` applies it to the bodies of the closures held by the
FUNCTION-NAME variables (`Fn`) of a store.  This file: the definitions and the commutation of the store
operations with `US`.  The simulation itself is in Theorems/C17Closures.lean.
-/
import NoulithModel.Theorems.C17Main

namespace Noulith.C17Unfreeze
open Noulith Noulith.Core Noulith.C17Frames

mutual
  /-- put the names back: `Frozen i ↦ ident (N i)` -/
  def unfz (N : Nat → Option String) : Expr → Expr
    | .frozen i => match N i with | some x => .ident x | none => .frozen i
    | .list xs => .list (unfzL N xs)
    | .op n a b => .op n (unfz N a) (unfz N b)
    | .index a b => .index (unfz N a) (unfz N b)
    | .call f args => .call (unfz N f) (unfzL N args)
    | .and_ a b => .and_ (unfz N a) (unfz N b)
    | .or_ a b => .or_ (unfz N a) (unfz N b)
    | .coalesce a b => .coalesce (unfz N a) (unfz N b)
    | .seq xs semi => .seq (unfzL N xs) semi
    | .ite c t e => .ite (unfz N c) (unfz N t) (unfzO N e)
    | .while_ c b => .while_ (unfz N c) (unfz N b)
    | .for_ its body => .for_ (unfzI N its) (unfzB N body)
    | .declare p rhs => .declare p (unfz N rhs)
    | .assign x rhs => .assign x (unfz N rhs)
    | .opassign x o rhs => .opassign x o (unfz N rhs)
    | .lambda ps body => .lambda ps (unfz N body)
    | .brk k e => .brk k (unfzO N e)
    | .ret e => .ret (unfzO N e)
    | .throw_ e => .throw_ (unfz N e)
    | .try_ b p c => .try_ (unfz N b) p (unfz N c)
    | .switch_ sc arms => .switch_ (unfz N sc) (unfzA N arms)
    | .null => .null
    | .int k => .int k
    | .str k => .str k
    | .ident x => .ident x
    | .cont k => .cont k
    | .evalSrc e => .evalSrc e
    | .freeze e => .freeze e
  def unfzL (N : Nat → Option String) : List Expr → List Expr
    | [] => []
    | x :: xs => unfz N x :: unfzL N xs
  def unfzO (N : Nat → Option String) : Option Expr → Option Expr
    | none => none
    | some x => some (unfz N x)
  def unfzI (N : Nat → Option String) : List ForIt → List ForIt
    | [] => []
    | .guard g :: rest => .guard (unfz N g) :: unfzI N rest
    | .iter k p e :: rest => .iter k p (unfz N e) :: unfzI N rest
  def unfzB (N : Nat → Option String) : ForBody → ForBody
    | .exec e => .exec (unfz N e)
    | .yield e into => .yield (unfz N e) (unfzO N into)
    | .yieldItem k v into => .yieldItem (unfz N k) (unfz N v) (unfzO N into)
  def unfzA (N : Nat → Option String) : List SwitchArm → List SwitchArm
    | [] => []
    | .mk p body :: rest => .mk p (unfz N body) :: unfzA N rest
end

variable (Fn : List String) (N : Nat → Option String)

/-- un-freeze the body of a closure value -/
def Uclos : Val → Val
  | .closure ps b env => .closure ps (unfz N b) env
  | v => v

/-- on a variable: only function-name variables are touched -/
def UVal (y : String) (v : Val) : Val := if Fn.contains y then Uclos N v else v

def UVars (vars : List (String × Val)) : List (String × Val) := vars.map fun yv => (yv.1, UVal Fn N yv.1 yv.2)

def UFrame (fr : Frame) : Frame := { fr with vars := UVars Fn N fr.vars }

def USF (fs : Array Frame) : Array Frame := fs.map (UFrame Fn N)

def US (st : State) : State := { st with frames := USF Fn N st.frames }

variable {Fn N}

theorem USF_size (fs : Array Frame) : (USF Fn N fs).size = fs.size := by simp [USF]

theorem USF_get (fs : Array Frame) (i : Nat) : (USF Fn N fs)[i]? = fs[i]?.map (UFrame Fn N) := by simp [USF]

theorem lookupIn_U (vars : List (String × Val)) (y : String) :
    lookupIn (UVars Fn N vars) y = (lookupIn vars y).map (UVal Fn N y) := by
  induction vars with
  | nil => rfl
  | cons kv rest ih =>
    obtain ⟨k, w⟩ := kv
    by_cases hk : k = y
    · subst hk; simp [UVars, lookupIn]
    · simp only [UVars, List.map_cons, lookupIn, hk, ↓reduceIte] at ih ⊢; exact ih

theorem setIn_U (vars : List (String × Val)) (y : String) (v : Val) :
    setIn (UVars Fn N vars) y (UVal Fn N y v) = UVars Fn N (setIn vars y v) := by
  induction vars with
  | nil => rfl
  | cons kv rest ih =>
    obtain ⟨k, w⟩ := kv
    by_cases hk : k = y
    · subst hk; simp [UVars, setIn]
    · simp only [UVars, List.map_cons, setIn, hk, ↓reduceIte, List.cons.injEq, true_and] at ih ⊢; exact ih

theorem hasType_closure (t : Val) (ps ps' : List Param) (b b' : Expr) (e e' : Nat) :
    hasType t (.closure ps b e) = hasType t (.closure ps' b' e') := by
  cases t with
  | builtin nm =>
    by_cases h1 : nm = "func"
    · subst h1; rfl
    · by_cases h2 : nm = "anything"
      · subst h2; rfl
      · have : ∀ ps b e, hasType (.builtin nm) (.closure ps b e) = false := by
          intro ps b e
          unfold hasType
          split <;> simp_all
        rw [this, this]
  | _ => rfl

theorem hasType_Uclos (t v : Val) : hasType t (Uclos N v) = hasType t v := by
  cases v with
  | closure ps b e => exact hasType_closure t ps ps _ b e e
  | _ => rfl

theorem typeOk_U (tys : List (String × Val)) (y : String) (v : Val) :
    typeOk tys y (UVal Fn N y v) = typeOk tys y v := by
  unfold typeOk UVal
  cases lookupIn tys y with
  | none => rfl
  | some t => dsimp only; split <;> simp [hasType_Uclos]

theorem lookupVar_U (fs : Array Frame) (y : String) : ∀ (fuel env : Nat),
    lookupVar (USF Fn N fs) fuel env y = (lookupVar fs fuel env y).map (UVal Fn N y) := by
  intro fuel
  induction fuel with
  | zero => intro env; rfl
  | succ k ih =>
    intro env
    unfold lookupVar
    rw [USF_get]
    cases fs[env]? with
    | none => rfl
    | some fr =>
      simp only [Option.map_some, UFrame, lookupIn_U]
      cases lookupIn fr.vars y with
      | some v => rfl
      | none =>
        simp only [Option.map_none]
        cases fr.parent with
        | none => rfl
        | some p => exact ih p

theorem USF_set (fs : Array Frame) (j : Nat) (fr : Frame) :
    USF Fn N (fs.setIfInBounds j fr) = (USF Fn N fs).setIfInBounds j (UFrame Fn N fr) := by
  apply Array.ext_getElem?
  intro i
  rw [USF_get, Array.getElem?_setIfInBounds, Array.getElem?_setIfInBounds, USF_size, USF_get]
  by_cases hji : j = i
  · subst hji
    by_cases hlt : j < fs.size
    · simp [hlt]
    · have : fs[j]? = none := Array.getElem?_eq_none (by omega)
      simp [hlt, this]
  · simp [hji]

theorem assignVar_U (fs : Array Frame) (y : String) (v : Val) : ∀ (fuel env : Nat),
    assignVar (USF Fn N fs) fuel env y (UVal Fn N y v) = (assignVar fs fuel env y v).map (USF Fn N) := by
  intro fuel
  induction fuel with
  | zero => intro env; rfl
  | succ k ih =>
    intro env
    unfold assignVar
    rw [USF_get]
    cases fs[env]? with
    | none => rfl
    | some fr =>
      simp only [Option.map_some, UFrame, lookupIn_U, typeOk_U]
      cases lookupIn fr.vars y with
      | some w =>
        simp only [Option.map_some]
        split
        · simp only [Option.map_some, USF_set, UFrame, setIn_U]
        · rfl
      | none =>
        simp only [Option.map_none]
        cases fr.parent with
        | none => rfl
        | some p => exact ih p

theorem UVal_null (y : String) : UVal Fn N y .null = .null := by
  unfold UVal; split <;> rfl

theorem dropVar_U (fs : Array Frame) (y : String) : ∀ (fuel env : Nat),
    dropVar (USF Fn N fs) fuel env y = (dropVar fs fuel env y).map (USF Fn N) := by
  intro fuel
  induction fuel with
  | zero => intro env; rfl
  | succ k ih =>
    intro env
    unfold dropVar
    rw [USF_get]
    cases fs[env]? with
    | none => rfl
    | some fr =>
      simp only [Option.map_some, UFrame, lookupIn_U]
      cases lookupIn fr.vars y with
      | some w =>
        simp only [Option.map_some, USF_set, UFrame]
        rw [← setIn_U fr.vars y .null, UVal_null]
      | none =>
        simp only [Option.map_none]
        cases fr.parent with
        | none => rfl
        | some p => exact ih p

theorem declareVar_U (fs : Array Frame) (env : Nat) (y : String) (v : Val) :
    declareVar (USF Fn N fs) env y (UVal Fn N y v) = (declareVar fs env y v).map (USF Fn N) := by
  unfold declareVar
  rw [USF_get]
  cases fs[env]? with
  | none => rfl
  | some fr =>
    simp only [Option.map_some, UFrame, lookupIn_U]
    cases lookupIn fr.vars y with
    | some w => rfl
    | none =>
      simp only [Option.map_none, Option.map_some, USF_set, UFrame]
      simp [UVars]

theorem newFrame_U (st : State) (env : Nat) :
    newFrame (US Fn N st) env = (US Fn N (newFrame st env).1, (newFrame st env).2) := by
  simp only [newFrame, US, USF, Array.map_push, Array.size_map, UFrame, UVars, List.map_nil]

theorem US_frames (st : State) : (US Fn N st).frames = USF Fn N st.frames := rfl

theorem lookup_U (st : State) (env : Nat) (y : String) :
    (US Fn N st).lookup env y = (st.lookup env y).map (UVal Fn N y) := by
  unfold State.lookup
  rw [US_frames, USF_size]
  exact lookupVar_U st.frames y _ env

theorem UVal_data {y : String} (h : y ∉ Fn) (v : Val) : UVal Fn N y v = v := by
  unfold UVal
  have : Fn.contains y = false := by simpa using h
  rw [this]; rfl

theorem UVal_fn {y : String} (h : y ∈ Fn) (v : Val) : UVal Fn N y v = Uclos N v := by
  unfold UVal
  have : Fn.contains y = true := by simpa using h
  rw [this]; rfl

theorem declarePat_go_U (fuel env : Nat)
    (ih : ∀ st p v, (∀ x, x ∈ Pat.idents p → x ∉ Fn) → declarePat fuel (US Fn N st) env p v =
      ((declarePat fuel st env p v).1, US Fn N (declarePat fuel st env p v).2)) :
    ∀ (ps : List Pat) (vs : List Val) (st : State), (∀ x, x ∈ Pat.idents.Pat.identsList ps → x ∉ Fn) →
      declarePat.go env fuel (US Fn N st) ps vs =
        ((declarePat.go env fuel st ps vs).1, US Fn N (declarePat.go env fuel st ps vs).2) := by
  intro ps
  induction ps with
  | nil => intro vs st _; cases vs <;> simp only [declarePat.go]
  | cons p ps ihps =>
    intro vs st hfn
    cases vs with
    | nil => simp only [declarePat.go]
    | cons v vs =>
      simp only [Pat.idents.Pat.identsList, List.mem_append] at hfn
      simp only [declarePat.go, ih st p v (fun x hx => hfn x (Or.inl hx))]
      rcases declarePat fuel st env p v with ⟨ok, st1⟩
      cases ok with
      | true => exact ihps vs st1 (fun x hx => hfn x (Or.inr hx))
      | false => rfl

/-- declaring a DATA pattern (none of its names is a function name) -/
theorem declarePat_U (env : Nat) : ∀ (fuel : Nat) (st : State) (p : Pat) (v : Val),
    (∀ x, x ∈ Pat.idents p → x ∉ Fn) →
    declarePat fuel (US Fn N st) env p v =
      ((declarePat fuel st env p v).1, US Fn N (declarePat fuel st env p v).2) := by
  intro fuel
  induction fuel with
  | zero => intro st p v _; simp only [declarePat]
  | succ k ih =>
    intro st p v hfn
    cases p with
    | underscore => simp only [declarePat]
    | lit m => simp only [declarePat]; cases v <;> rfl
    | ident x =>
      have hx : x ∉ Fn := hfn x (by simp [Pat.idents])
      have := declareVar_U (Fn := Fn) (N := N) st.frames env x v
      rw [UVal_data hx] at this
      simp only [declarePat, US_frames, this]
      cases declareVar st.frames env x v with
      | none => rfl
      | some fs => rfl
    | seq ps =>
      simp only [declarePat]
      cases v with
      | list vs =>
        dsimp only
        split
        · rfl
        · exact declarePat_go_U k env ih ps vs st (by simpa [Pat.idents] using hfn)
      | _ => rfl

/-- declaring a FUNCTION name -/
theorem declareFn_U (env : Nat) (fuel : Nat) (st : State) (f : String) (hf : f ∈ Fn) (v : Val) :
    declarePat (fuel + 1) (US Fn N st) env (.ident f) (Uclos N v) =
      ((declarePat (fuel + 1) st env (.ident f) v).1, US Fn N (declarePat (fuel + 1) st env (.ident f) v).2) := by
  have := declareVar_U (Fn := Fn) (N := N) st.frames env f v
  rw [UVal_fn hf] at this
  simp only [declarePat, US_frames, this]
  cases declareVar st.frames env f v with
  | none => rfl
  | some fs => rfl

def usR (Fn : List String) (N : Nat → Option String) (r : Res × State) : Res × State := (r.1, US Fn N r.2)
def usRL (Fn : List String) (N : Nat → Option String) (r : ResL × State) : ResL × State := (r.1, US Fn N r.2)
def usR3 (Fn : List String) (N : Nat → Option String) (r : Res × State × ForAcc) : Res × State × ForAcc :=
  (r.1, US Fn N r.2.1, r.2.2)

theorem callVal_builtin_U (fuel : Nat) (st : State) (env : Nat) (f : String) (args : List Val) :
    callVal fuel (US Fn N st) env (.builtin f) args = usR Fn N (callVal fuel st env (.builtin f) args) := by
  cases fuel with
  | zero => simp only [callVal, usR]
  | succ k =>
    unfold usR
    rw [callVal.eq_def, callVal.eq_def]
    simp only []
    split
    · rename_i h; exact absurd h (by simp)
    all_goals first
      | rfl
      | (split <;> first | rfl | (split <;> first | rfl | (split <;> rfl)))

open Noulith.C17Preserve in
theorem finishDict_U : ∀ (k : Nat) (st : State) (env : Nat) (post : Option Val)
    (d : List (Val × (Cata ⊕ Val))) (done : List (Val × Val)), PostFn post →
    finishDict k (US Fn N st) env post d done = usR Fn N (finishDict k st env post d done) := by
  intro k
  induction k with
  | zero => intro st env post d done _; simp only [finishDict, usR]
  | succ j ih =>
    intro st env post d done hpf
    cases d with
    | nil => simp only [finishDict, usR]
    | cons kv rest =>
      obtain ⟨key, c⟩ := kv
      cases c with
      | inr v => simp only [finishDict]; exact ih st env post rest _ hpf
      | inl c0 =>
        simp only [finishDict]
        cases c0.finish with
        | raise => rfl
        | ok v =>
          dsimp only
          rcases hpf with rfl | ⟨f, rfl⟩
          · exact ih st env none rest _ (Or.inl rfl)
          · dsimp only
            rw [callVal_builtin_U]
            rcases callVal j st env (.builtin f) [v] with ⟨rc, st1⟩
            cases rc with
            | val v' => exact ih st1 env (some (.builtin f)) rest _ (Or.inr ⟨f, rfl⟩)
            | _ => rfl

end Noulith.C17Unfreeze
