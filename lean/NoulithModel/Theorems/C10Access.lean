/-
C10 (continued) — the builtin accessors agree with the index / slice expression the property names.
Continues NoulithModel/Theorems/C10.lean (same namespace).
-/
import NoulithModel.Theorems.C10

namespace Noulith.C10
open Noulith Noulith.Index Noulith.PyIndex

/-! ## 6. `accessors_agree`: first … only, take/drop n, `!!`, `!?`, `!%` are the index / slice
expression the property names -/

/-- lib.rs `linear_index_isize` is `index` with that integer (every kind, also the infinite streams) -/
theorem linear_is_index (s : Val) (k : Int) (hk : inI64 k) :
    linearIndexIsize s k = Index.index s (.int k) := by
  cases s <;> simp [linearIndexIsize, Index.index, pythonicIndex, isNum, toIsize, hk,
    weirdStringAsBytesIndex]

theorem first_is_index (s : Val) (h : isSeq s = true) :
    Index.accessor1 "first" s = Index.index s (.int 0) := by
  simp [Index.accessor1, h, linear_is_index s 0 (by decide)]
theorem second_is_index (s : Val) (h : isSeq s = true) :
    Index.accessor1 "second" s = Index.index s (.int 1) := by
  simp [Index.accessor1, h, linear_is_index s 1 (by decide)]
theorem third_is_index (s : Val) (h : isSeq s = true) :
    Index.accessor1 "third" s = Index.index s (.int 2) := by
  simp [Index.accessor1, h, linear_is_index s 2 (by decide)]
theorem last_is_index (s : Val) (h : isSeq s = true) :
    Index.accessor1 "last" s = Index.index s (.int (-1)) := by
  simp [Index.accessor1, h, linear_is_index s (-1) (by decide)]
theorem tail_is_slice (s : Val) (h : isSeq s = true) :
    Index.accessor1 "tail" s = Index.slice s (some (.int 1)) none := by
  simp [Index.accessor1, h]
theorem butlast_is_slice (s : Val) (h : isSeq s = true) :
    Index.accessor1 "butlast" s = Index.slice s none (some (.int (-1))) := by
  simp [Index.accessor1, h]
theorem take_is_slice (s n : Val) : Index.accessor2 "take" s n = Index.slice s none (some n) := rfl
theorem drop_is_slice (s n : Val) : Index.accessor2 "drop" s n = Index.slice s (some n) none := rfl
theorem bangbang_is_index (s i : Val) : Index.accessor2 "!!" s i = Index.index s i := rfl

theorem isSeq_of_finite {s : Val} (h : isFinite s = true) : isSeq s = true := by
  cases s <;> simp [isFinite, items] at h <;> rfl

theorem sliceOf_butlast {α} (xs : List α) : sliceOf xs none (some (-1)) = xs.dropLast := by
  simp only [sliceOf, pySlice, pyClamp, List.dropLast_eq_take]
  have e : (max (if (-1 : Int) < 0 then max 0 ((xs.length : Int) + -1) else min (-1) (xs.length : Int)) 0 - 0).toNat
      = xs.length - 1 := by
    simp; omega
  rw [e]; simp

theorem elemOf_last {α} (xs : List α) : elemOf xs (-1) = xs.getLast? := by
  unfold elemOf pyIndex
  rw [List.getLast?_eq_getElem?]
  by_cases h : xs.length = 0
  · have := List.eq_nil_of_length_eq_zero h; subst this; simp
  · have h1 : ¬ (0 ≤ (-1 : Int) ∧ (-1 : Int) < (xs.length : Int)) := by omega
    have h2 : -(xs.length : Int) ≤ -1 ∧ (-1 : Int) < 0 := by omega
    simp only [h1, h2, if_false, if_true, and_self]
    congr 1
    omega

theorem elemOf_zero {α} (xs : List α) : elemOf xs 0 = xs.head? := by
  unfold elemOf pyIndex
  cases xs with
  | nil => simp
  | cons a t =>
    simp

@[simp] theorem bound_none : bound none = .ok none := rfl
@[simp] theorem bound_one : bound (some (.int 1)) = .ok (some 1) := by simp [bound]; decide
@[simp] theorem bound_negone : bound (some (.int (-1))) = .ok (some (-1)) := by simp [bound]; decide

theorem validUtf8_ascii (bs : List Nat) (h : ∀ b ∈ bs, b < 128) : validUtf8 bs = true := by
  induction bs with
  | nil => rfl
  | cons b rest ih =>
    have hb : b < 128 := h b (by simp)
    unfold validUtf8
    simp [hb]
    exact ih fun x hx => h x (by simp [hx])

/-- strings whose bytes are all ASCII (then bytes and chars coincide) -/
def asciiIfStr (s : Val) : Prop := ∀ bs, s = .str bs → ∀ b ∈ bs, b < 128

/-- `uncons(s) = [s[0], s[1:]]` on every finite kind (strings: ASCII) -/
theorem uncons_refines (s : Val) (hfin : isFinite s = true) (hstr : asciiIfStr s) :
    Index.uncons s = (PyIndex.index s (.int 0)).bind fun h =>
      (PyIndex.slice s (some (.int 1)) none).bind fun t => .ok (.list [h, t]) := by
  cases s with
  | list xs =>
    cases xs with
    | nil => simp [uncons, PyIndex.index, asInt, items, elemOf, pyIndex, ofOpt]
    | cons a t =>
      simp [uncons, removeAt, PyIndex.index, asInt, items, elemOf_zero, ofOpt, PyIndex.slice,
        sliceOf_suffix]
  | vec xs =>
    cases xs with
    | nil => simp [uncons, PyIndex.index, asInt, items, elemOf, pyIndex, ofOpt]
    | cons a t =>
      simp [uncons, removeAt, PyIndex.index, asInt, items, elemOf_zero, ofOpt, PyIndex.slice,
        sliceOf_suffix]
  | bytes bs =>
    cases bs with
    | nil => simp [uncons, PyIndex.index, asInt, items, elemOf, pyIndex, ofOpt]
    | cons a t =>
      simp [uncons, removeAt, PyIndex.index, asInt, items, elemOf_zero, ofOpt, PyIndex.slice,
        sliceOf_suffix]
  | stream xs =>
    cases xs with
    | nil => simp [uncons, PyIndex.index, asInt, items, elemOf, pyIndex, ofOpt]
    | cons a t =>
      simp [uncons, PyIndex.index, asInt, items, elemOf_zero, ofOpt, PyIndex.slice,
        sliceOf_suffix]
  | str bs =>
    have hb := hstr bs rfl
    cases bs with
    | nil => simp [uncons, PyIndex.index, asInt, items, elemOf, pyIndex, ofOpt]
    | cons a t =>
      have ha : a < 128 := hb a (by simp)
      have ht : validUtf8 t = true := validUtf8_ascii t fun x hx => hb x (by simp [hx])
      have h1 : validUtf8 [a] = true := validUtf8_ascii [a] (by simp [ha])
      have hl : leadLen a = 1 := by simp [leadLen, ha]
      simp [uncons, hl, PyIndex.index, asInt, items, elemOf_zero, ofOpt, PyIndex.slice,
        sliceOf_suffix, byteItem, softFromUtf8, h1, ht]
  | _ => simp [isFinite, items] at hfin

theorem popLast_eq {α} (xs : List α) :
    popLast xs = (xs.getLast?).map fun e => (xs.dropLast, e) := by
  unfold popLast; cases xs.getLast? <;> rfl

theorem lastCharLen_ascii (bs : List Nat) (h : ∀ b ∈ bs, b < 128) :
    lastCharLen bs = 1 := by
  unfold lastCharLen
  have : bs.reverse.takeWhile isCont = [] := by
    cases hr : bs.reverse with
    | nil => simp
    | cons b rest =>
      have : b ∈ bs := by rw [← List.mem_reverse, hr]; simp
      have hb := h b this
      have hc : isCont b = false := by simp [isCont]; omega
      simp [List.takeWhile, hc]
  simp [this]

/-- `unsnoc(s) = [s[:-1], s[-1]]` on every finite kind (strings: ASCII) -/
theorem unsnoc_refines (s : Val) (hfin : isFinite s = true) (hstr : asciiIfStr s) :
    Index.unsnoc s = (PyIndex.slice s none (some (.int (-1)))).bind fun t =>
      (PyIndex.index s (.int (-1))).bind fun e => .ok (.list [t, e]) := by
  cases s with
  | list xs =>
    simp only [unsnoc, popLast_eq, PyIndex.slice, PyIndex.index, asInt, items, bound_none, bound_negone,
      bind_ok, sliceOf_butlast, elemOf_last]
    cases xs.getLast? <;> simp [ofOpt]
  | vec xs =>
    simp only [unsnoc, popLast_eq, PyIndex.slice, PyIndex.index, asInt, items, bound_none, bound_negone,
      bind_ok, sliceOf_butlast, elemOf_last]
    cases xs.getLast? <;> simp [ofOpt]
  | stream xs =>
    simp only [unsnoc, popLast_eq, PyIndex.slice, PyIndex.index, asInt, items, bound_none, bound_negone,
      bind_ok, sliceOf_butlast, elemOf_last]
    cases xs.getLast? <;> simp [ofOpt]
  | bytes bs =>
    simp only [unsnoc, popLast_eq, PyIndex.slice, PyIndex.index, asInt, items, bound_none, bound_negone,
      bind_ok, sliceOf_butlast, elemOf_last, List.getLast?_map]
    cases bs.getLast? <;> simp [ofOpt]
  | str bs =>
    have hb := hstr bs rfl
    by_cases hne : bs = []
    · subst hne; simp [unsnoc, PyIndex.slice, PyIndex.index, asInt, items, elemOf, pyIndex, ofOpt]
    · have hl := lastCharLen_ascii bs hb
      have hd : validUtf8 (bs.take (bs.length - 1)) = true :=
        validUtf8_ascii _ fun x hx => hb x (List.mem_of_mem_take hx)
      obtain ⟨e, he⟩ : ∃ e, bs.getLast? = some e := by
        cases h : bs.getLast? with
        | none => simp [List.getLast?_eq_none_iff] at h; exact absurd h hne
        | some e => exact ⟨e, rfl⟩
      have hel : e < 128 := hb e (List.mem_of_getLast? he)
      have h1 : validUtf8 [e] = true := validUtf8_ascii [e] (by simp [hel])
      have hdrop : bs.drop (bs.length - 1) = [e] := by
        rw [List.getLast?_eq_getElem?] at he
        have hlen : bs.length - 1 < bs.length := by
          cases bs with
          | nil => exact absurd rfl hne
          | cons _ _ => simp
        rw [List.drop_eq_getElem_cons hlen]
        rw [List.getElem?_eq_getElem hlen] at he
        have : bs.length - 1 + 1 = bs.length := by omega
        simp [this, Option.some.inj he]
      have hempty : bs.isEmpty = false := by cases bs <;> simp_all
      simp [unsnoc, hempty, hl, PyIndex.slice, PyIndex.index, asInt, items, sliceOf_butlast, elemOf_last,
        List.getLast?_map, he, ofOpt, byteItem, softFromUtf8, hd, h1, hdrop, List.dropLast_eq_take]
  | _ => simp [isFinite, items] at hfin

/-- `only(s) = s[0]` when `len(s) = 1`, an error otherwise -/
theorem only_refines (s : Val) (hs : seqOk s) (hfin : isFinite s = true) :
    Index.accessor1 "only" s = PyIndex.accessor1 "only" s := by
  have hseq := isSeq_of_finite hfin
  have key : ∀ xs : List Val, items s = some xs → seqLen s = some xs.length := by
    intro xs h
    cases s <;> simp [items] at h <;> simp [seqLen, ← h]
  simp only [Index.accessor1, PyIndex.accessor1, hseq, Bool.not_true, Bool.false_eq_true, if_false]
  cases hi : items s with
  | none => simp [isFinite, hi] at hfin
  | some xs =>
    rw [key xs hi]
    by_cases h1 : xs.length = 1
    · simp [h1, linear_is_index s 0 (by decide), index_refines s _ hs hfin]
    · simp only [h1, if_false]
      split <;> simp_all

/-- **accessors_agree** (one-argument accessors): on every finite sequence — for strings: ASCII
strings, see `uncons_charwise_differs` — each of first, second, third, last, tail, butlast, uncons,
unsnoc, only equals the index / slice expression the property names for it. -/
theorem accessor1_refines (name : String) (s : Val) (hs : seqOk s) (hfin : isFinite s = true)
    (hstr : asciiIfStr s) :
    Index.accessor1 name s = PyIndex.accessor1 name s := by
  have hseq := isSeq_of_finite hfin
  by_cases h9 : name = "only"
  · subst h9; exact only_refines s hs hfin
  unfold Index.accessor1 PyIndex.accessor1
  simp only [hseq, Bool.not_true, Bool.false_eq_true, if_false]
  split
  · rw [linear_is_index s 0 (by decide)]; exact index_refines s _ hs hfin
  · rw [linear_is_index s 1 (by decide)]; exact index_refines s _ hs hfin
  · rw [linear_is_index s 2 (by decide)]; exact index_refines s _ hs hfin
  · rw [linear_is_index s (-1) (by decide)]; exact index_refines s _ hs hfin
  · exact slice_refines s _ _ hs hfin
  · exact slice_refines s _ _ hs hfin
  · exact uncons_refines s hfin hstr
  · simp only [hfin, if_true]; exact unsnoc_refines s hfin hstr
  · exact absurd rfl h9
  · split <;> simp_all

/-- the recorded deviation: on a string whose first char is not ASCII, `uncons` splits off the
whole char (`String::remove(0)`) while `s[0]` / `s[1:]` are byte-based -/
theorem uncons_charwise_differs :
    Index.accessor1 "uncons" (.str [0xC3, 0xA9]) = .ok (.list [.str [0xC3, 0xA9], .str []])
    ∧ PyIndex.accessor1 "uncons" (.str [0xC3, 0xA9]) = .ok (.list [.bytes [0xC3], .bytes [0xA9]]) :=
  ⟨rfl, rfl⟩
theorem unsnoc_charwise_differs :
    Index.accessor1 "unsnoc" (.str [0x61, 0xC3, 0xA9]) = .ok (.list [.str [0x61], .str [0xC3, 0xA9]])
    ∧ PyIndex.accessor1 "unsnoc" (.str [0x61, 0xC3, 0xA9])
        = .ok (.list [.bytes [0x61, 0xC3], .bytes [0xA9]]) :=
  ⟨rfl, rfl⟩

/-- the generic safe read of `!?` -/
theorem safe_eq {α} (xs : List α) (i : Val) (hl : lenOk xs.length) :
    safeIndexInner xs.length i = (match i with
      | .int n => if 0 ≤ n ∧ n < xs.length then some n else none
      | _ => none) := by
  unfold lenOk at hl
  cases i with
  | int n =>
    simp only [safeIndexInner, isNum, toUsize, if_true]
    by_cases h : inUsize n
    · unfold inUsize at h
      simp only [inUsize, h, and_self, if_true]
      by_cases h2 : n < xs.length
      · simp [h2, h.1]
      · simp [h2]
    · unfold inUsize at h
      have : ¬ (0 ≤ n ∧ n < (xs.length : Int)) := by omega
      simp [inUsize, h, this]
  | num t => simp [safeIndexInner, isNum, toUsize]
  | _ => simp [safeIndexInner, isNum]

/-- **`!?`**: `s !? i` is `s[i]` for `0 ≤ i < len` and null for every other index object -/
theorem safeIndex_refines (s i : Val) (hs : seqOk s) :
    Index.accessor2 "!?" s i = PyIndex.accessor2 "!?" s i := by
  simp only [Index.accessor2, PyIndex.accessor2, safeAt]
  cases s with
  | list xs =>
    simp only [safeIndex, safe_eq xs i hs, isStrict, items, if_true]
    cases i <;> simp [asInt]
    rename_i n
    by_cases h : 0 ≤ n ∧ n < (xs.length : Int)
    · simp [h, elemAt_eq xs n h.1 h.2]
    · simp [h]
  | vec xs =>
    simp only [safeIndex, safe_eq xs i hs, isStrict, items, if_true]
    cases i <;> simp [asInt]
    rename_i n
    by_cases h : 0 ≤ n ∧ n < (xs.length : Int)
    · simp [h, elemAt_eq xs n h.1 h.2]
    · simp [h]
  | bytes bs =>
    simp only [safeIndex, safe_eq bs i hs, isStrict, items, if_true]
    cases i <;> simp [asInt]
    rename_i n
    by_cases h : 0 ≤ n ∧ n < (bs.length : Int)
    · simp [h, elemAt_eq bs n h.1 h.2, ofOpt]
    · simp [h]
  | str bs =>
    simp only [safeIndex, safe_eq bs i hs, isStrict, items, if_true]
    cases i <;> simp [asInt]
    rename_i n
    by_cases h : 0 ≤ n ∧ n < (bs.length : Int)
    · simp [h, weird_eq bs n h.1 h.2, elemAt_eq bs n h.1 h.2, ofOpt]
    · simp [h]
  | null => simp [safeIndex]
  | _ => simp [safeIndex, isStrict]

/-- the generic cyclic read of `!%` -/
theorem cyclic_eq {α} (xs : List α) (i : Val) (hl : lenOk xs.length) :
    (cyclicIndex xs.length i).bind (fun k => elemAt xs k) = (match i with
      | .int n => if inI64 n ∧ xs.length ≠ 0 then ofOpt xs[(n % (xs.length : Int)).toNat]? else .throw
      | _ => .throw) := by
  unfold lenOk at hl
  cases i with
  | int n =>
    simp only [cyclicIndex, isNum, toIsize, if_true]
    by_cases h : inI64 n
    · simp only [h, if_true, true_and]
      by_cases h0 : xs.length = 0
      · simp [h0]
      · have hpos : (0 : Int) < xs.length := by omega
        have h1 := Int.emod_nonneg n (by omega : (xs.length : Int) ≠ 0)
        have h2 := Int.emod_lt_of_pos n hpos
        have h0' : ¬ ((xs.length : Int) = 0) := by omega
        have e : asUsize (n % (xs.length : Int)) = n % (xs.length : Int) := by
          unfold asUsize; omega
        simp [h0, h0', e, elemAt_eq xs _ h1 h2]
    · simp [h]
  | num t => simp [cyclicIndex, isNum, toIsize]
  | _ => simp [cyclicIndex, isNum]

theorem cyclic_in_bounds (len : Int) (i : Val) (k : Int) (hl : lenOk len)
    (h : cyclicIndex len i = .ok k) : 0 ≤ k ∧ k < len := by
  unfold lenOk at hl
  cases i with
  | int n =>
    simp only [cyclicIndex, isNum, toIsize, if_true] at h
    by_cases hn : inI64 n
    · simp only [hn, if_true] at h
      by_cases h0 : len = 0
      · simp [h0] at h
      · simp only [h0, if_false, Out.ok.injEq] at h
        have h1 := Int.emod_nonneg n h0
        have h2 := Int.emod_lt_of_pos n (by omega : 0 < len)
        unfold asUsize at h; omega
    · simp [hn] at h
  | num t => simp [cyclicIndex, isNum, toIsize] at h
  | _ => simp [cyclicIndex, isNum] at h

/-- **`!%`**: `s !% i` is `s[i mod len]` -/
theorem cyclicIndex_refines (s i : Val) (hs : seqOk s) :
    Index.accessor2 "!%" s i = PyIndex.accessor2 "!%" s i := by
  simp only [Index.accessor2, PyIndex.accessor2]
  cases s with
  | list xs =>
    simp only [objCyclicIndex, cyclic_eq xs i hs, isStrict, items, if_true]
    cases i <;> simp [asInt]
  | vec xs =>
    simp only [objCyclicIndex, cyclic_eq xs i hs, isStrict, items, if_true]
    cases i <;> simp [asInt]
  | bytes bs =>
    simp only [objCyclicIndex, isStrict, items, if_true, ← map_bind, cyclic_eq bs i hs]
    cases i <;> simp [asInt]
    split
    · rw [ofOpt_map]
    · rfl
  | str bs =>
    have : (cyclicIndex bs.length i).bind (fun k => weirdStringAsBytesIndex bs k)
        = (cyclicIndex bs.length i).bind (fun k => (elemAt bs k).map byteItem) := by
      cases h : cyclicIndex (bs.length : Int) i <;> simp
      have := cyclic_in_bounds _ i _ hs h
      exact weird_eq bs _ this.1 this.2
    simp only [objCyclicIndex, isStrict, items, if_true, this, ← map_bind, cyclic_eq bs i hs]
    cases i <;> simp [asInt]
    split
    · rw [ofOpt_map]
    · rfl
  | _ => simp [objCyclicIndex, isStrict]

/-- **accessors_agree** (two-argument accessors) on every finite sequence kind -/
theorem accessor2_refines (name : String) (s a : Val) (hs : seqOk s) (hfin : isFinite s = true) :
    Index.accessor2 name s a = PyIndex.accessor2 name s a := by
  by_cases h1 : name = "!?"
  · subst h1; exact safeIndex_refines s a hs
  by_cases h2 : name = "!%"
  · subst h2; exact cyclicIndex_refines s a hs
  by_cases h3 : name = "index?"
  · subst h3; exact safeIndex_refines s a hs
  unfold Index.accessor2 PyIndex.accessor2
  split
  · exact index_refines s a hs hfin
  · exact index_refines s a hs hfin
  · exact absurd rfl h1
  · exact absurd rfl h3
  · exact absurd rfl h2
  · exact slice_refines s _ _ hs hfin
  · exact slice_refines s _ _ hs hfin
  · split <;> simp_all

/-! ### strings, byte by byte -/

/-- the element of a string at one byte: a one-char string exactly for an ASCII byte (`< 0x80`),
a one-byte `bytes` value for every other byte (0x80 itself included) -/
theorem byteItem_eq (b : Nat) : byteItem b = if b < 0x80 then .str [b] else .bytes [b] := by
  unfold byteItem softFromUtf8
  by_cases h : b < 0x80
  · have : validUtf8 [b] = true := validUtf8_ascii [b] (by simp; omega)
    simp [h, this]
  · have : validUtf8 [b] = false := by
      unfold validUtf8
      simp only [h, if_false]
      split
      · rfl
      · split
        · rfl
        · split <;> rfl
    simp [h, this]

example : byteItem 0x7F = .str [0x7F] ∧ byteItem 0x80 = .bytes [0x80] ∧ byteItem 0xBF = .bytes [0xBF]
    ∧ byteItem 0xC2 = .bytes [0xC2] ∧ byteItem 0xF4 = .bytes [0xF4] := ⟨rfl, rfl, rfl, rfl, rfl⟩

/-- what `s[i]` is on a string: the byte at `pyIndex len i`, ASCII-or-not decided at `0x80` -/
theorem str_index_byte (bs : List Nat) (n k : Int) (hl : lenOk bs.length)
    (hk : pyIndex bs.length n = some k) :
    ∃ b, bs[k.toNat]? = some b ∧
      Index.index (.str bs) (.int n) = .ok (if b < 0x80 then .str [b] else .bytes [b]) := by
  have hr := pyIndex_range hk
  have hkl : k.toNat < bs.length := by omega
  refine ⟨bs[k.toNat], List.getElem?_eq_getElem hkl, ?_⟩
  rw [index_refines (.str bs) _ hl rfl]
  simp [PyIndex.index, asInt, items, elemOf, hk, hkl, ofOpt, byteItem_eq]

/-- **string index = width-1 slice**: for every string and every index that addresses a position,
`s[i]` is `s[k:k+1]` for that position `k` (so the two code paths — `weird_string_as_bytes_index`
and `slice_seq` — must classify every byte value alike) -/
theorem str_index_eq_unit_slice (bs : List Nat) (n k : Int) (hl : lenOk bs.length)
    (hk : pyIndex bs.length n = some k) :
    Index.index (.str bs) (.int n) = Index.slice (.str bs) (some (.int k)) (some (.int (k + 1))) := by
  have hr := pyIndex_range hk
  have hkl : k.toNat < bs.length := by omega
  have hl' := hl
  unfold lenOk at hl'
  have i1 : inI64 k := by unfold inI64; omega
  have i2 : inI64 (k + 1) := by unfold inI64; omega
  rw [index_refines (.str bs) _ hl rfl, slice_refines (.str bs) _ _ hl rfl]
  have e : (k + 1 - k).toNat = 1 := by omega
  have t : (bs.drop k.toNat).take 1 = [bs[k.toNat]] := by
    simp [List.take_one, List.head?_drop, List.getElem?_eq_getElem hkl]
  simp [PyIndex.index, PyIndex.slice, asInt, items, elemOf, hk, hkl, ofOpt, bound, i1, i2,
    sliceOf_nonneg bs k (k + 1) hr.1 (by omega), e, t, byteItem]

/-- … and the builtin accessors `first/second/third/last` (lib.rs `linear_index_isize`, which has
its own copy of the byte extraction) return the same element as `s[i]` -/
theorem str_linear_eq_index (bs : List Nat) (k : Int) (hk : inI64 k) :
    linearIndexIsize (.str bs) k = Index.index (.str bs) (.int k) := linear_is_index _ k hk

end Noulith.C10
