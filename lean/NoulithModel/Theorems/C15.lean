/-
C15 — Lexing and parsing are total and number/string literals decode exactly.

Property theorems about the Impl model of the lexer (`NoulithModel/Impl/Lex.lean`, a transcription of
`/repo/src/lex.rs` plus the literal arms of `Parser::atom`/`evaluate` and the brace scanner of
`parse_format_string`) against the Spec of literals (`NoulithModel/Spec/Literal.lean`).
All statements are for every input / every value / every radix — no bound on lengths or magnitudes.
Helper lemmas: `NoulithModel/Lemmas/C15Basic.lean`.
-/
import NoulithModel.Lemmas.C15Basic
import NoulithModel.Lemmas.C15Float
import NoulithModel.Impl.Parse
import NoulithModel.Lemmas.C15ParseFuel
import NoulithModel.Lemmas.C15Grammar

namespace Noulith.C15
open Noulith Noulith.Lex Noulith.LitSpec

/-! ## 1. The lexer is total and never panics

`lex` is defined in the model by well-founded recursion on the remaining input: Lean accepted the
definition only because `lexStep_suffix` proves that every iteration leaves a suffix of what followed
the character it consumed.  The theorems below restate that, bound the output, and show that no
place where the Rust could panic (`unwrap`, `to_digit` radix assertion) is ever reached. -/

/-- every iteration of the main loop consumes the character it looked at and continues on a suffix
of the rest: progress, and the lexer never invents or re-reads input -/
theorem lexStep_consumes (c : Char) (cs : List Char) :
    (lexStep c cs).rest <:+ cs ∧ (lexStep c cs).rest.length < (c :: cs).length := by
  have h := lexStep_suffix c cs
  exact ⟨h, by have := h.length_le; simp; omega⟩

/-- **`lex_total`**: the defining equations of `lex` hold for every input (the function is total:
no fuel, no `partial`) -/
theorem lex_total (cs : List Char) :
    lex cs = match cs with
      | [] => []
      | c :: cs' => if (lexStep c cs').stop then (lexStep c cs').toks
                    else (lexStep c cs').toks ++ lex (lexStep c cs').rest := by
  cases cs with
  | nil => exact lex_nil
  | cons c cs' => exact lex_cons c cs'

theorem lexStr_pre_le (e : Char) (cs : List Char) : (lexStr e cs).pre.length ≤ 1 := by
  fun_induction lexStr e cs <;> simp_all [strFail]

theorem lexStep_toks_le (c : Char) (cs : List Char) : (lexStep c cs).toks.length ≤ 2 := by
  have hs := lexStr_pre_le
  have hexp : ∀ a b, (lexExponent a b).toks.length ≤ 2 := by
    intro a b; unfold lexExponent; split <;> simp
  have hbase : ∀ r b, (lexBaseTok r b).toks.length ≤ 2 := by
    intro r b; unfold lexBaseTok; split <;> simp
  have hnum : (lexNumber c cs).toks.length ≤ 2 := by
    unfold lexNumber
    split
    · unfold lexAfterFraction
      repeat' split
      all_goals first | exact hexp _ _ | simp
    · simp
    · unfold lexAfterInt
      repeat' split
      all_goals first | exact hexp _ _ | exact hbase _ _ | simp
  have hid : ∀ a b, (lexIdentTail a b).toks.length ≤ 2 := by
    intro a b
    unfold lexIdentTail
    repeat' split
    all_goals first
      | (simp only [List.length_append, List.length_singleton]; have := hs ‹Char› ‹List Char›; omega)
      | simp
  have hop : (lexOp c cs).toks.length ≤ 2 := by
    unfold lexOp
    simp only
    repeat' split
    all_goals simp
  have hcom : (lexComment cs).toks.length ≤ 2 := by
    unfold lexComment
    repeat' split
    all_goals simp
  have hoth : (lexOther c cs).toks.length ≤ 2 := by
    unfold lexOther
    repeat' split
    all_goals first | exact hnum | exact hid _ _ | exact hop | simp
  unfold lexStep
  split
  all_goals (try split)
  all_goals first
    | (simp; done)
    | exact hcom
    | (simp only [List.length_append, List.length_singleton]; have := hs '\'' cs; omega)
    | (simp only [List.length_append, List.length_singleton]; have := hs '"' cs; omega)
    | exact hoth

/-- at most two tokens per input character: the token stream is finite and linearly bounded -/
theorem lex_length_le (cs : List Char) : (lex cs).length ≤ 2 * cs.length := by
  fun_induction lex cs with
  | case1 => simp
  | case2 c cs h => have := lexStep_toks_le c cs; simp; omega
  | case3 c cs h ih =>
    have h1 := lexStep_toks_le c cs
    have h2 := (lexStep_suffix c cs).length_le
    simp only [List.length_append, List.length_cons]
    omega

/-- **`lex_no_panic`**: for every input, the lexer never reaches a place where the Rust would panic
(`char::from_u32(..).unwrap()` in `\x`, `parse::<BigInt>().unwrap()`, `to_digit` with a radix > 36).
The `\u` accumulator is the saturating one of the fixed code (F17). -/
theorem lex_never_panics (cs : List Char) : (lex cs).any Token.isPanic = false := by
  rw [List.any_eq_false]
  intro t ht
  simp [lex_no_panic cs t ht]

/-- literal evaluation never panics either -/
theorem parseEvalLit_no_panic (cs : List Char) : parseEvalLit cs ≠ .panic := by
  unfold parseEvalLit
  simp only [lex_never_panics cs]
  simp only [Bool.false_eq_true, if_false]
  repeat' split
  all_goals simp

/-! ## 2. Integer literals: every syntax, every radix, every magnitude -/

/-- Spec law: positional notation round-trips -/
theorem ofDigits_digits_roundtrip (b n : Nat) (hb : 2 ≤ b) : ofDigits b (digits b n) = n :=
  ofDigits_digits b n hb

theorem lex_of_step (c : Char) (cs : List Char) (toks : List Token) (rest : List Char)
    (h : lexStep c cs = ⟨toks, rest, false⟩) : lex (c :: cs) = toks ++ lex rest := by
  rw [lex_cons, h]; simp

/-- **`int_literal_token`**: for every `n`, lexing the spelling of `n` in any integer syntax
(decimal, `0x` `0b` `0o` with either case of prefix and digits, `NrDIGITS` for every radix 2..36 with
either case, base-64 with either alphabet), followed by anything that does not continue the literal,
yields exactly the token `IntLit n` and continues after the literal -/
theorem int_literal_token (f : IntForm) (hf : f.valid = true) (n : Nat) (rest : List Char)
    (hs : IntStop f rest) : lex (renderInt f n ++ rest) = .intLit n :: lex rest := by
  obtain ⟨c, cs, h1, h2⟩ := lexStep_int f hf n rest hs
  rw [h1, lex_of_step c cs _ _ h2]; rfl

theorem stripComments_single (t : Token) (h : ∀ s, t ≠ .comment s) : (stripComments [t]).1 = [t] := by
  unfold stripComments
  cases t <;> simp_all

/-- **`int_literal_exact`**: a program that is one integer literal, in any syntax, evaluates to
exactly the integer its digits spell; it is held as `NInt::Small` iff it fits an `i64` -/
theorem int_literal_exact (f : IntForm) (hf : f.valid = true) (n : Nat) :
    parseEvalLit (renderInt f n) = .ok (.int n (decide (n ≤ 9223372036854775807))) := by
  have h := int_literal_token f hf n [] (intStop_nil f)
  rw [List.append_nil, lex_nil] at h
  unfold parseEvalLit
  simp only [h]
  have : ([Token.intLit n].any Token.isPanic) = false := rfl
  simp only [this, Bool.false_eq_true, if_false, stripComments_single (.intLit n) (by simp), atomLit]
  split <;> simp_all [evalLit]

/-- rational literals `Nq` / `NQ` -/
theorem rat_literal_token (n : Nat) (upper : Bool) (rest : List Char) :
    lex (decimal n ++ (if upper then 'Q' else 'q') :: rest) = .ratLit n :: lex rest := by
  obtain ⟨c, ds, hcd⟩ := List.exists_cons_of_ne_nil (decimal_ne_nil n)
  have hall := decimal_all n
  rw [hcd] at hall
  have hc : isDigit10 c = true := hall c (by simp)
  have hds : ∀ d ∈ ds, isDigit10 d = true := fun d hd => hall d (by simp [hd])
  have hstep : lexStep c (ds ++ (if upper then 'Q' else 'q') :: rest) = ⟨[.ratLit n], rest, false⟩ := by
    rw [lexStep_digit c _ hc,
      lexNumber_run_other c ds _ _ hds (by cases upper <;> decide) (by cases upper <;> decide), ← hcd]
    unfold lexAfterInt
    rw [if_neg (by cases upper <;> simp), if_neg (by cases upper <;> simp), if_neg (by cases upper <;> simp),
      if_neg (by cases upper <;> simp), if_neg (by cases upper <;> simp), if_pos (by cases upper <;> simp)]
    simp [ratLitTok, parseBigInt_decimal]
  rw [hcd, List.cons_append, lex_of_step _ _ _ _ hstep]; rfl

theorem rat_literal_exact (n : Nat) (upper : Bool) :
    parseEvalLit (decimal n ++ [if upper then 'Q' else 'q']) = .ok (.rat n) := by
  have h := rat_literal_token n upper []
  rw [lex_nil] at h
  unfold parseEvalLit
  simp only [h]
  have : ([Token.ratLit n].any Token.isPanic) = false := rfl
  simp only [this, Bool.false_eq_true, if_false, stripComments_single (.ratLit n) (by simp), atomLit, evalLit]

/-- non-vacuity: the literal `36rZz` (1295) in the middle of a program -/
example : lex ((renderInt (.radix 36 false true) 1295) ++ " + 1".toList) = .intLit 1295 :: lex " + 1".toList :=
  int_literal_token _ (by decide) 1295 _ (by simp [IntStop, Stops]; decide)

/-! ## 3. String, bytes and format-string literals: the escape table -/
/-! ### string bodies -/

/-- an item is spelled properly inside a literal delimited by `e` -/
def ItemOK (e : Char) : StrItem → Prop
  | .plain c => c ≠ e ∧ c ≠ '\\'
  | .hex d1 d2 => d1.val < 16 ∧ d2.val < 16
  | .uni b ds => (∀ d ∈ ds, d.val < 16) ∧ (b = .none → ds ≠ [])
  | _ => True

/-- a body is spelled properly: every item is, and an unbracketed `\uHH…` is not followed by a
character that would read as a further hex digit -/
def BodyOK (e : Char) : List StrItem → Prop
  | [] => True
  | it :: its =>
    ItemOK e it ∧ BodyOK e its ∧
      (∀ ds, it = .uni .none ds → ∀ c ∈ (renderBody its ++ [e]).head?, isHexDigit c = false)

theorem headOpt_append_cons (a : List Char) (e : Char) (rest : List Char) :
    (a ++ e :: rest).head? = (a ++ [e]).head? := by
  cases a <;> rfl

theorem push_mk (c : Char) (acc rest : List Char) :
    (StrRes.mk [] acc rest).push c = ⟨[], c :: acc, rest⟩ := rfl

theorem char_ofNat_toNat (c : Char) : Char.ofNat c.toNat = c := Char.ofNat_toNat c

/-- **the escape table is decoded exactly**: lexing the spelling of a well-formed body yields the
scalar values its items spell, consumes exactly the body and the closing delimiter, and emits no
`Invalid` token -/
theorem lexStr_body (e : Char) (he1 : e ≠ '\\') (its : List StrItem)
    (hok : BodyOK e its) (vs : List Nat) (hden : denoteBody its = some vs) (rest : List Char) :
    lexStr e (renderBody its ++ e :: rest) = ⟨[], vs.map Char.ofNat, rest⟩ := by
  induction its generalizing vs with
  | nil =>
    simp [denoteBody] at hden
    subst hden
    simp [renderBody, lexStr_delim]
  | cons it its ih =>
    obtain ⟨hit, hrest, hnext⟩ := hok
    unfold denoteBody at hden
    split at hden
    · rename_i v vs' hv hvs
      simp at hden
      subst hden
      have ih' := ih hrest vs' hvs
      have hrb : renderBody (it :: its) ++ e :: rest = it.render ++ (renderBody its ++ e :: rest) := by
        simp [renderBody]
      rw [hrb]
      cases it with
      | plain c =>
        simp [StrItem.denote] at hv
        subst hv
        simp only [StrItem.render, List.cons_append, List.nil_append]
        rw [lexStr_plain e c _ hit.1 hit.2, ih', push_mk, List.map_cons, char_ofNat_toNat]
      | nl =>
        simp [StrItem.denote] at hv; subst hv
        simp only [StrItem.render, List.cons_append, List.nil_append]
        rw [lexStr_esc_n e he1, ih', push_mk]; rfl
      | cr =>
        simp [StrItem.denote] at hv; subst hv
        simp only [StrItem.render, List.cons_append, List.nil_append]
        rw [lexStr_esc_r e he1, ih', push_mk]; rfl
      | tab =>
        simp [StrItem.denote] at hv; subst hv
        simp only [StrItem.render, List.cons_append, List.nil_append]
        rw [lexStr_esc_t e he1, ih', push_mk]; rfl
      | nul =>
        simp [StrItem.denote] at hv; subst hv
        simp only [StrItem.render, List.cons_append, List.nil_append]
        rw [lexStr_esc_0 e he1, ih', push_mk]; rfl
      | backslash =>
        simp [StrItem.denote] at hv; subst hv
        simp only [StrItem.render, List.cons_append, List.nil_append]
        rw [lexStr_esc_bs e he1, ih', push_mk]; rfl
      | squote =>
        simp [StrItem.denote] at hv; subst hv
        simp only [StrItem.render, List.cons_append, List.nil_append]
        rw [lexStr_esc_sq e he1, ih', push_mk]; rfl
      | dquote =>
        simp [StrItem.denote] at hv; subst hv
        simp only [StrItem.render, List.cons_append, List.nil_append]
        rw [lexStr_esc_dq e he1, ih', push_mk]; rfl
      | hex d1 d2 =>
        simp [StrItem.denote] at hv; subst hv
        simp only [StrItem.render, List.cons_append, List.nil_append]
        rw [lexStr_esc_x e he1 d1.char d2.char d1.val d2.val (toDigit_hexChar d1 hit.1) (toDigit_hexChar d2 hit.2)
          hit.1 hit.2, ih', push_mk, List.map_cons, Nat.mul_comm]
      | uni b ds =>
        simp only [StrItem.denote] at hv
        split at hv
        · rename_i hsc
          simp at hv
          subst hv
          have hvalid : validScalar (ofDigits 16 (ds.map HexDigit.val)) = true := hsc
          have hmin := min_eq_of_valid _ hvalid
          cases b with
          | none =>
            have hstop : Stops isHexDigit (renderBody its ++ e :: rest) := by
              intro c hc
              rw [headOpt_append_cons] at hc
              exact hnext ds rfl c hc
            obtain ⟨h1, h2, h3⟩ := u_parts_nobracket ds hit.1 (hit.2 rfl) _ hstop
            simp only [StrItem.render, Bracket.opening, Bracket.closing, List.cons_append, List.nil_append,
              List.append_nil]
            rw [lexStr_u_none e he1 _ h1, h2, h3, hmin, if_pos hvalid, ih', push_mk, List.map_cons]
          | brace =>
            obtain ⟨h1, h2, h3⟩ := u_parts_bracket '{' '}' (fun _ => rfl) (by decide) ds hit.1
              (renderBody its ++ e :: rest)
            simp only [StrItem.render, Bracket.opening, Bracket.closing, List.cons_append, List.nil_append,
              List.append_assoc]
            rw [lexStr_u_some e he1 _ '}' _ h1 h3, h2, hmin, if_pos hvalid, ih', push_mk, List.map_cons]
          | paren =>
            obtain ⟨h1, h2, h3⟩ := u_parts_bracket '(' ')' (fun _ => rfl) (by decide) ds hit.1
              (renderBody its ++ e :: rest)
            simp only [StrItem.render, Bracket.opening, Bracket.closing, List.cons_append, List.nil_append,
              List.append_assoc]
            rw [lexStr_u_some e he1 _ ')' _ h1 h3, h2, hmin, if_pos hvalid, ih', push_mk, List.map_cons]
          | square =>
            obtain ⟨h1, h2, h3⟩ := u_parts_bracket '[' ']' (fun _ => rfl) (by decide) ds hit.1
              (renderBody its ++ e :: rest)
            simp only [StrItem.render, Bracket.opening, Bracket.closing, List.cons_append, List.nil_append,
              List.append_assoc]
            rw [lexStr_u_some e he1 _ ']' _ h1 h3, h2, hmin, if_pos hvalid, ih', push_mk, List.map_cons]
          | angle =>
            obtain ⟨h1, h2, h3⟩ := u_parts_bracket '<' '>' (fun _ => rfl) (by decide) ds hit.1
              (renderBody its ++ e :: rest)
            simp only [StrItem.render, Bracket.opening, Bracket.closing, List.cons_append, List.nil_append,
              List.append_assoc]
            rw [lexStr_u_some e he1 _ '>' _ h1 h3, h2, hmin, if_pos hvalid, ih', push_mk, List.map_cons]
        · simp at hv
    · simp at hden


/-! ### the `\xHH` flags (`lexStrHex`) on a well-formed body -/

theorem lexStrHex_delim (e : Char) (cs : List Char) : lexStrHex e (e :: cs) = [] := by
  (conv => lhs; rw [lexStrHex.eq_def]); simp

theorem lexStrHex_plain (e c : Char) (cs : List Char) (h1 : c ≠ e) (h2 : c ≠ '\\') :
    lexStrHex e (c :: cs) = false :: lexStrHex e cs := by
  (conv => lhs; rw [lexStrHex.eq_def]); simp [h1, h2]

theorem lexStrHex_esc (e : Char) (he : e ≠ '\\') (c1 : Char)
    (hc : c1 = 'n' ∨ c1 = 'r' ∨ c1 = 't' ∨ c1 = '0' ∨ c1 = '\\' ∨ c1 = '\'' ∨ c1 = '"') (cs : List Char) :
    lexStrHex e ('\\' :: c1 :: cs) = false :: lexStrHex e cs := by
  have he' : ¬ ('\\' = e) := fun h => he h.symm
  rcases hc with rfl | rfl | rfl | rfl | rfl | rfl | rfl <;>
    ((conv => lhs; rw [lexStrHex.eq_def]); simp [he'])

theorem lexStrHex_esc_x (e : Char) (he : e ≠ '\\') (h1 h2 : Char) (d1 d2 : Nat)
    (hd1 : toDigit h1 16 = some d1) (hd2 : toDigit h2 16 = some d2) (hl1 : d1 < 16) (hl2 : d2 < 16)
    (cs : List Char) :
    lexStrHex e ('\\' :: 'x' :: h1 :: h2 :: cs) = true :: lexStrHex e cs := by
  have he' : ¬ ('\\' = e) := fun h => he h.symm
  (conv => lhs; rw [lexStrHex.eq_def])
  simp [he', hd1, hd2, validScalar_lt (d1 * 16 + d2) (by omega)]

theorem lexStrHex_u_none (e : Char) (he : e ≠ '\\') (cs1 : List Char) (hx : uExpected cs1 = none) :
    lexStrHex e ('\\' :: 'u' :: cs1) =
      if validScalar (uValue cs1) then false :: lexStrHex e (uAfter cs1) else [] := by
  have he' : ¬ ('\\' = e) := fun h => he h.symm
  (conv => lhs; rw [lexStrHex.eq_def])
  simp only [he', if_false, if_true]
  simp
  split
  · rename_i heq; rw [hx] at heq; cases heq
  · rfl

theorem lexStrHex_u_some (e : Char) (he : e ≠ '\\') (cs1 : List Char) (close : Char) (cs3 : List Char)
    (hx : uExpected cs1 = some close) (ha : uAfter cs1 = close :: cs3) :
    lexStrHex e ('\\' :: 'u' :: cs1) =
      if validScalar (uValue cs1) then false :: lexStrHex e cs3 else [] := by
  have he' : ¬ ('\\' = e) := fun h => he h.symm
  (conv => lhs; rw [lexStrHex.eq_def])
  simp only [he', if_false, if_true]
  simp
  split
  · rename_i cl heq
    rw [hx] at heq
    cases heq
    split
    · rename_i h0; rw [ha] at h0; cases h0
    · rename_i c2 cs3' h0
      rw [ha] at h0
      cases h0
      simp
  · rename_i heq; rw [hx] at heq; cases heq

/-- on a well-formed body the flags mark exactly the `\xHH` items -/
theorem lexStrHex_body (e : Char) (he1 : e ≠ '\\') (its : List StrItem)
    (hok : BodyOK e its) (vs : List Nat) (hden : denoteBody its = some vs) (rest : List Char) :
    lexStrHex e (renderBody its ++ e :: rest) = its.map StrItem.isHex := by
  induction its generalizing vs with
  | nil => simp [renderBody, lexStrHex_delim]
  | cons it its ih =>
    obtain ⟨hit, hrest, hnext⟩ := hok
    unfold denoteBody at hden
    split at hden
    · rename_i v vs' hv hvs
      have ih' := ih hrest vs' hvs
      have hrb : renderBody (it :: its) ++ e :: rest = it.render ++ (renderBody its ++ e :: rest) := by
        simp [renderBody]
      rw [hrb]
      cases it with
      | plain c =>
        simp only [StrItem.render, List.cons_append, List.nil_append]
        rw [lexStrHex_plain e c _ hit.1 hit.2, ih']; rfl
      | nl =>
        simp only [StrItem.render, List.cons_append, List.nil_append]
        rw [lexStrHex_esc e he1 _ (by simp), ih']; rfl
      | cr =>
        simp only [StrItem.render, List.cons_append, List.nil_append]
        rw [lexStrHex_esc e he1 _ (by simp), ih']; rfl
      | tab =>
        simp only [StrItem.render, List.cons_append, List.nil_append]
        rw [lexStrHex_esc e he1 _ (by simp), ih']; rfl
      | nul =>
        simp only [StrItem.render, List.cons_append, List.nil_append]
        rw [lexStrHex_esc e he1 _ (by simp), ih']; rfl
      | backslash =>
        simp only [StrItem.render, List.cons_append, List.nil_append]
        rw [lexStrHex_esc e he1 _ (by simp), ih']; rfl
      | squote =>
        simp only [StrItem.render, List.cons_append, List.nil_append]
        rw [lexStrHex_esc e he1 _ (by simp), ih']; rfl
      | dquote =>
        simp only [StrItem.render, List.cons_append, List.nil_append]
        rw [lexStrHex_esc e he1 _ (by simp), ih']; rfl
      | hex d1 d2 =>
        simp only [StrItem.render, List.cons_append, List.nil_append]
        rw [lexStrHex_esc_x e he1 d1.char d2.char d1.val d2.val (toDigit_hexChar d1 hit.1) (toDigit_hexChar d2 hit.2)
          hit.1 hit.2, ih']; rfl
      | uni b ds =>
        simp only [StrItem.denote] at hv
        split at hv
        · rename_i hsc
          have hvalid : validScalar (ofDigits 16 (ds.map HexDigit.val)) = true := hsc
          have hmin := min_eq_of_valid _ hvalid
          cases b with
          | none =>
            have hstop : Stops isHexDigit (renderBody its ++ e :: rest) := by
              intro c hc
              rw [headOpt_append_cons] at hc
              exact hnext ds rfl c hc
            obtain ⟨h1, h2, h3⟩ := u_parts_nobracket ds hit.1 (hit.2 rfl) _ hstop
            simp only [StrItem.render, Bracket.opening, Bracket.closing, List.cons_append, List.nil_append,
              List.append_nil]
            rw [lexStrHex_u_none e he1 _ h1, h2, h3, hmin, if_pos hvalid, ih']; rfl
          | brace =>
            obtain ⟨h1, h2, h3⟩ := u_parts_bracket '{' '}' (fun _ => rfl) (by decide) ds hit.1
              (renderBody its ++ e :: rest)
            simp only [StrItem.render, Bracket.opening, Bracket.closing, List.cons_append, List.nil_append,
              List.append_assoc]
            rw [lexStrHex_u_some e he1 _ '}' _ h1 h3, h2, hmin, if_pos hvalid, ih']; rfl
          | paren =>
            obtain ⟨h1, h2, h3⟩ := u_parts_bracket '(' ')' (fun _ => rfl) (by decide) ds hit.1
              (renderBody its ++ e :: rest)
            simp only [StrItem.render, Bracket.opening, Bracket.closing, List.cons_append, List.nil_append,
              List.append_assoc]
            rw [lexStrHex_u_some e he1 _ ')' _ h1 h3, h2, hmin, if_pos hvalid, ih']; rfl
          | square =>
            obtain ⟨h1, h2, h3⟩ := u_parts_bracket '[' ']' (fun _ => rfl) (by decide) ds hit.1
              (renderBody its ++ e :: rest)
            simp only [StrItem.render, Bracket.opening, Bracket.closing, List.cons_append, List.nil_append,
              List.append_assoc]
            rw [lexStrHex_u_some e he1 _ ']' _ h1 h3, h2, hmin, if_pos hvalid, ih']; rfl
          | angle =>
            obtain ⟨h1, h2, h3⟩ := u_parts_bracket '<' '>' (fun _ => rfl) (by decide) ds hit.1
              (renderBody its ++ e :: rest)
            simp only [StrItem.render, Bracket.opening, Bracket.closing, List.cons_append, List.nil_append,
              List.append_assoc]
            rw [lexStrHex_u_some e he1 _ '>' _ h1 h3, h2, hmin, if_pos hvalid, ih']; rfl
        · simp at hv
    · simp at hden

theorem lexStep_squote (cs : List Char) : lexStep '\'' cs =
    ⟨(lexStr '\'' cs).pre ++ [.stringLit (lexStr '\'' cs).acc], (lexStr '\'' cs).rest, false⟩ := rfl
theorem lexStep_dquote (cs : List Char) : lexStep '"' cs =
    ⟨(lexStr '"' cs).pre ++ [.stringLit (lexStr '"' cs).acc], (lexStr '"' cs).rest, false⟩ := rfl

/-- an upper-case ASCII letter that starts a prefixed literal (`B`, `F`, `R`) directly followed by a quote -/
theorem lexStep_prefix (p : Char) (hp : p = 'B' ∨ p = 'F' ∨ p = 'R') (q : Char) (hq : q = '\'' ∨ q = '"')
    (cs : List Char) : lexStep p (q :: cs) = lexIdentTail [p] (q :: cs) := by
  have h1 : lexStep p (q :: cs) = lexOther p (q :: cs) := by
    rcases hp with rfl | rfl | rfl <;> rfl
  have hws : Unicode.isWhitespace p = false := by rcases hp with rfl | rfl | rfl <;> decide
  have hdg : isDigit10 p = false := by rcases hp with rfl | rfl | rfl <;> decide
  have hal : Unicode.isAlphabetic p = true := by rcases hp with rfl | rfl | rfl <;> decide
  have hdr : (p = DRAGON) = False := by rcases hp with rfl | rfl | rfl <;> decide
  have hup : Unicode.isUppercase p = true := by rcases hp with rfl | rfl | rfl <;> decide
  have hlen : utf8Len p = 1 := by rcases hp with rfl | rfl | rfl <;> decide
  have hqc : isIdentCont q = (decide (q = '\'')) := by rcases hq with rfl | rfl <;> decide
  rw [h1]
  unfold lexOther
  rw [if_neg (by simp [hws]), if_neg (by simp [hdg]), if_pos (by simp [hal])]
  unfold lexIdent identSplit identStopEarly
  simp only [hdr, if_false, hup, hlen, Bool.and_true, beq_self_eq_true]
  rcases hq with rfl | rfl
  · simp
  · have : isIdentCont '"' = false := by decide
    simp [List.takeWhile_cons, List.dropWhile_cons, this]


/-- **`string_escape_exact`**: lexing a string literal whose body is a well-formed item list yields
exactly one `StringLit` token holding the scalar values the items spell -/
theorem string_escape_exact (e : Char) (he : e = '\'' ∨ e = '"') (its : List StrItem) (hok : BodyOK e its)
    (vs : List Nat) (hden : denoteBody its = some vs) (rest : List Char) :
    lex (e :: renderBody its ++ e :: rest) = .stringLit (vs.map Char.ofNat) :: lex rest := by
  have he1 : e ≠ '\\' := by rcases he with rfl | rfl <;> decide
  have hb := lexStr_body e he1 its hok vs hden rest
  have hstep : lexStep e (renderBody its ++ e :: rest) = ⟨[.stringLit (vs.map Char.ofNat)], rest, false⟩ := by
    rcases he with rfl | rfl
    · rw [lexStep_squote, hb]; rfl
    · rw [lexStep_dquote, hb]; rfl
  rw [List.cons_append, lex_of_step _ _ _ _ hstep]; rfl

/-- bytes literals `B"…"`: the token holds, for every decoded character, the byte `HH` if it was
written `\xHH` and its UTF-8 encoding otherwise -/
theorem bytes_literal_token (e : Char) (he : e = '\'' ∨ e = '"') (its : List StrItem) (hok : BodyOK e its)
    (vs : List Nat) (hden : denoteBody its = some vs) (rest : List Char) :
    lex ('B' :: e :: renderBody its ++ e :: rest) =
      .bytesLit (bytesOf (vs.map Char.ofNat) (its.map StrItem.isHex)) :: lex rest := by
  have he1 : e ≠ '\\' := by rcases he with rfl | rfl <;> decide
  have hb := lexStr_body e he1 its hok vs hden rest
  have hstep : lexStep 'B' (e :: (renderBody its ++ e :: rest)) =
      ⟨[.bytesLit (bytesOf (vs.map Char.ofNat) (its.map StrItem.isHex))], rest, false⟩ := by
    rw [lexStep_prefix 'B' (Or.inl rfl) e he]
    unfold lexIdentTail
    rw [if_pos rfl]
    simp only
    rw [if_pos he, hb, lexStrHex_body e he1 its hok vs hden rest]; rfl
  simp only [List.cons_append]
  rw [lex_of_step _ _ _ _ hstep]; rfl

/-- format strings `F"…"`: the token holds the decoded body (braces are interpreted later) -/
theorem format_literal_token (e : Char) (he : e = '\'' ∨ e = '"') (its : List StrItem) (hok : BodyOK e its)
    (vs : List Nat) (hden : denoteBody its = some vs) (rest : List Char) :
    lex ('F' :: e :: renderBody its ++ e :: rest) = .formatString (vs.map Char.ofNat) :: lex rest := by
  have he1 : e ≠ '\\' := by rcases he with rfl | rfl <;> decide
  have hb := lexStr_body e he1 its hok vs hden rest
  have hstep : lexStep 'F' (e :: (renderBody its ++ e :: rest)) =
      ⟨[.formatString (vs.map Char.ofNat)], rest, false⟩ := by
    rw [lexStep_prefix 'F' (Or.inr (Or.inl rfl)) e he]
    unfold lexIdentTail
    rw [if_neg (by decide), if_pos rfl]
    simp only
    rw [if_pos he, hb]; rfl
  simp only [List.cons_append]
  rw [lex_of_step _ _ _ _ hstep]; rfl


/-- a program that is one string literal evaluates to the string its escapes spell -/
theorem string_literal_exact (e : Char) (he : e = '\'' ∨ e = '"') (its : List StrItem) (hok : BodyOK e its)
    (vs : List Nat) (hden : denoteBody its = some vs) :
    parseEvalLit (e :: renderBody its ++ [e]) = .ok (.str (vs.map Char.ofNat)) := by
  have h := string_escape_exact e he its hok vs hden []
  rw [lex_nil] at h
  unfold parseEvalLit
  simp only [h]
  have : ([Token.stringLit (vs.map Char.ofNat)].any Token.isPanic) = false := rfl
  simp only [this, Bool.false_eq_true, if_false, stripComments_single (.stringLit _) (by simp), atomLit, evalLit]

/-- a `\u` escape that spells a number which is not a Unicode scalar value (a surrogate, or anything
above 0x10FFFF — with any number of digits: the accumulator saturates instead of overflowing) is
refused with the `Invalid` token "u result too big" followed by the string so far -/
theorem string_u_too_big (e : Char) (he : e ≠ '\\') (ds : List HexDigit) (hds : ∀ d ∈ ds, d.val < 16)
    (hbad : isScalar (ofDigits 16 (ds.map HexDigit.val)) = false) (rest : List Char) :
    lexStr e ('\\' :: 'u' :: '{' :: (ds.map HexDigit.char ++ '}' :: rest)) = strFail .uTooBig rest := by
  obtain ⟨h1, h2, h3⟩ := u_parts_bracket '{' '}' (fun _ => rfl) (by decide) ds hds rest
  rw [lexStr_u_some e he _ '}' _ h1 h3, h2, validScalar_min]
  have : validScalar (ofDigits 16 (ds.map HexDigit.val)) = false := hbad
  simp [this]

/-- non-vacuity of `string_u_too_big`: `"\u{fffffffff}"` (F17) -/
example : lexStr '"' ('\\' :: 'u' :: '{' :: ((List.replicate 9 (⟨15, false⟩ : HexDigit)).map HexDigit.char ++ '}' :: ['"']))
    = strFail .uTooBig ['"'] :=
  string_u_too_big '"' (by decide) _ (by decide) (by decide) _

/-! ## 4. Float and imaginary literals: the text handed to the `f64` parser -/

/-- **`float_token_text`** (see `float_step` in Lemmas/C15Float.lean) -/
theorem float_token_text (l : FloatLit) (hwf : l.wf = true) (rest : List Char) (hstop : FloatStop l rest) :
    lex (l.render ++ rest) = floatTok l :: lex rest := by
  obtain ⟨ip, frac, exp, suffix⟩ := l
  obtain ⟨c, cs, h1, h2⟩ := float_step ip frac exp suffix hwf rest hstop
  rw [h1, lex_of_step c cs _ _ h2]; rfl

theorem floatStop_nil (l : FloatLit) : FloatStop l [] := by
  unfold FloatStop
  repeat' split
  all_goals simp [Stops]

/-- a program that is one float / imaginary literal evaluates to the float whose decimal text is
the literal's digits (the decimal-to-binary conversion is `str::parse::<f64>`, external) -/
theorem float_literal_exact (l : FloatLit) (hwf : l.wf = true) :
    parseEvalLit l.render = .ok (if l.suffix.isImag then .imag l.text else .float l.text) := by
  have h := float_token_text l hwf [] (floatStop_nil l)
  rw [List.append_nil, lex_nil] at h
  unfold parseEvalLit
  simp only [h]
  cases hi : l.suffix.isImag
  · have : ([floatTok l].any Token.isPanic) = false := by simp [floatTok, hi, Token.isPanic]
    simp only [this, Bool.false_eq_true, if_false]
    rw [stripComments_single _ (by simp [floatTok, hi])]
    simp [floatTok, hi, atomLit, evalLit]
  · have : ([floatTok l].any Token.isPanic) = false := by simp [floatTok, hi, Token.isPanic]
    simp only [this, Bool.false_eq_true, if_false]
    rw [stripComments_single _ (by simp [floatTok, hi])]
    simp [floatTok, hi, atomLit, evalLit]

/-- non-vacuity: `12.5E-3` -/
example : lex "12.5E-3".toList = [.floatLit "12.5e-3".toList] := by
  have := float_token_text ⟨[1, 2], some [5], some (true, true, [3]), .none⟩ (by decide) [] (by simp [FloatStop, Stops])
  rw [lex_nil] at this
  exact this

/-! ## 5. Format strings: the brace scanner is total -/

/-- the nesting counter of the brace scanner never goes below zero -/
theorem fmtLoop_level_nonneg (st : FmtState) (cs : List Char) (h0 : 0 ≤ st.level) (st' : FmtState)
    (h : fmtLoop st cs = .ok st') : 0 ≤ st'.level := by
  fun_induction fmtLoop st cs <;> simp_all
  all_goals (rename_i ih; apply ih; omega)


theorem fmtFlagsOfComment_err (fl : FmtFlags) (cs : List Char) (e : FmtErr)
    (h : fmtFlagsOfComment fl cs = .error e) : e = .padLength := by
  fun_induction fmtFlagsOfComment fl cs <;> simp_all

theorem fmtFlagsOfComments_err (fl : FmtFlags) (cms : List (List Char)) (e : FmtErr)
    (h : fmtFlagsOfComments fl cms = .error e) : e = .padLength := by
  induction cms generalizing fl with
  | nil => simp [fmtFlagsOfComments] at h
  | cons c cms ih =>
    unfold fmtFlagsOfComments at h
    split at h
    · exact ih _ h
    · rename_i e' he
      cases h
      exact fmtFlagsOfComment_err _ _ _ he

/-- the nested lexer never panics, so `fmtExpr` never reports that -/
theorem fmtExpr_no_panic (acc : List Char) : fmtExpr acc ≠ .error .lexPanic := by
  unfold fmtExpr
  have h : (lex acc).any Token.isPanic = false := by
    rw [List.any_eq_false]; intro t ht; simp [lex_no_panic acc t ht]
  simp only [h, Bool.false_eq_true, if_false]
  split
  · simp
  · split
    · simp
    · rename_i e he
      have := fmtFlagsOfComments_err _ _ _ he
      subst this
      simp

theorem fmtLoop_no_panic (st : FmtState) (cs : List Char) : fmtLoop st cs ≠ .error .lexPanic := by
  fun_induction fmtLoop st cs <;> simp_all
  rename_i e he
  intro h
  subst h
  exact fmtExpr_no_panic _ he

/-- **`format_scanner_total`**: the brace scanner of `parse_format_string` always returns — the
parts, or one of its four syntax errors; it never fails because the nested lexer panicked, and
(`fmtLoop_level_nonneg`) its nesting counter never goes negative -/
theorem format_scanner_total (s : List Char) :
    (∃ parts, fmtScan s = .ok parts) ∨ fmtScan s = .error .unmatchedRight ∨ fmtScan s = .error .unmatchedLeft
      ∨ fmtScan s = .error .emptyExpr ∨ fmtScan s = .error .padLength := by
  have hnp := fmtLoop_no_panic {} s
  unfold fmtScan
  split
  · split
    · simp
    · simp
  · rename_i e he
    cases e <;> simp_all

/-- a body without braces is all literal characters -/
theorem fmtLoop_plain (acc : List Char) (ret : List FmtPart) (s : List Char) (h : ∀ c ∈ s, c ≠ '{' ∧ c ≠ '}') :
    fmtLoop ⟨0, acc, ret⟩ s = .ok ⟨0, acc, ret ++ s.map .lit⟩ := by
  induction s generalizing ret with
  | nil => simp [fmtLoop]
  | cons c cs ih =>
    have hc := h c (by simp)
    rw [fmtLoop]
    simp only [if_true, hc.1, hc.2, if_false]
    rw [ih _ (fun c' hc' => h c' (by simp [hc']))]
    simp

theorem fmtScan_plain (s : List Char) (h : ∀ c ∈ s, c ≠ '{' ∧ c ≠ '}') : fmtScan s = .ok (s.map .lit) := by
  unfold fmtScan
  have := fmtLoop_plain [] [] s h
  simp only [List.nil_append] at this
  rw [show ({} : FmtState) = ⟨0, [], []⟩ from rfl, this]
  simp

theorem fmtLiteralOnly_map (s : List Char) : fmtLiteralOnly (s.map .lit) = some s := by
  induction s with
  | nil => rfl
  | cons c cs ih => simp [fmtLiteralOnly, ih]


/-- a format string without braces evaluates to its decoded body -/
theorem format_literal_exact (e : Char) (he : e = '\'' ∨ e = '"') (its : List StrItem) (hok : BodyOK e its)
    (vs : List Nat) (hden : denoteBody its = some vs)
    (hnb : ∀ c ∈ vs.map Char.ofNat, c ≠ '{' ∧ c ≠ '}') :
    parseEvalLit ('F' :: e :: renderBody its ++ [e]) = .ok (.str (vs.map Char.ofNat)) := by
  have h := format_literal_token e he its hok vs hden []
  rw [lex_nil] at h
  unfold parseEvalLit
  simp only [h]
  have : ([Token.formatString (vs.map Char.ofNat)].any Token.isPanic) = false := rfl
  simp only [this, Bool.false_eq_true, if_false, stripComments_single (.formatString _) (by simp), atomLit,
    fmtScan_plain _ hnb, fmtLiteralOnly_map]
  rfl

/-! ## 6. Bytes literals: `\xHH` is the byte `HH`, everything else UTF-8 (F23 fixed) -/

theorem utf8Encode_ofNat (v : Nat) (h : v.isValidChar) : utf8Encode (Char.ofNat v) = utf8 v := by
  unfold utf8Encode utf8
  rw [toNat_ofNat v h]

theorem denote_valid (e : Char) (it : StrItem) (hok : ItemOK e it) (v : Nat) (h : it.denote = some v) :
    v.isValidChar := by
  cases it with
  | plain c => simp [StrItem.denote] at h; subst h; exact c.valid
  | hex d1 d2 =>
    simp [StrItem.denote] at h; subst h
    have := hok.1; have := hok.2
    exact Or.inl (by omega)
  | uni b ds =>
    simp only [StrItem.denote] at h
    split at h
    · rename_i hs
      simp at h; subst h
      simp [isScalar] at hs
      rcases hs with hs | hs
      · exact Or.inl hs
      · exact Or.inr ⟨by omega, by omega⟩
    · simp at h
  | _ => simp [StrItem.denote] at h; subst h; exact Or.inl (by omega)

/-- no `\xHH` escape with `HH ≥ 0x80` -/
def LowHex : List StrItem → Prop
  | [] => True
  | .hex d1 d2 :: its => 16 * d1.val + d2.val < 128 ∧ LowHex its
  | _ :: its => LowHex its

/-- bytes literals are exact when no hex escape is ≥ `\x80` -/
theorem bytes_of_body (e : Char) (its : List StrItem) (hok : BodyOK e its) (hlow : LowHex its)
    (vs : List Nat) (hden : denoteBody its = some vs) :
    denoteBodyBytes its = some ((vs.map Char.ofNat).flatMap utf8Encode) := by
  induction its generalizing vs with
  | nil => simp [denoteBody] at hden; subst hden; rfl
  | cons it its ih =>
    obtain ⟨hit, hrest, _⟩ := hok
    unfold denoteBody at hden
    split at hden
    · rename_i v vs' hv hvs
      simp at hden; subst hden
      have hvalid := denote_valid e it hit v hv
      have hl' : LowHex its := by cases it <;> simp_all [LowHex]
      have ih' := ih hrest hl' vs' hvs
      unfold denoteBodyBytes
      have hb : it.denoteBytes = some (utf8Encode (Char.ofNat v)) := by
        rw [utf8Encode_ofNat v hvalid]
        cases it with
        | hex d1 d2 =>
          simp [StrItem.denote] at hv; subst hv
          have : 16 * d1.val + d2.val < 128 := hlow.1
          simp [StrItem.denoteBytes, utf8, this]
        | _ => simp [StrItem.denoteBytes, hv]
      rw [hb, ih']
      simp
    · simp at hden


/-- the bytes the lexer builds are the bytes the items spell — for every well-formed body, hex
escapes ≥ `\x80` included (after the fix of F23) -/
theorem bytes_of_body_full (e : Char) (its : List StrItem) (hok : BodyOK e its)
    (vs : List Nat) (hden : denoteBody its = some vs) :
    denoteBodyBytes its = some (bytesOf (vs.map Char.ofNat) (its.map StrItem.isHex)) := by
  induction its generalizing vs with
  | nil => simp [denoteBody] at hden; subst hden; rfl
  | cons it its ih =>
    obtain ⟨hit, hrest, _⟩ := hok
    unfold denoteBody at hden
    split at hden
    · rename_i v vs' hv hvs
      simp at hden; subst hden
      have hvalid := denote_valid e it hit v hv
      have ih' := ih hrest vs' hvs
      unfold denoteBodyBytes
      rw [ih']
      cases it with
      | hex d1 d2 =>
        simp [StrItem.denote] at hv; subst hv
        have h1 := hit.1; have h2 := hit.2
        have hlt : 16 * d1.val + d2.val < 256 := by omega
        simp [StrItem.denoteBytes, StrItem.isHex, bytesOf, toNat_ofNat _ hvalid, Nat.mod_eq_of_lt hlt]
      | _ => simp [StrItem.denoteBytes, StrItem.isHex, bytesOf, hv, utf8Encode_ofNat v hvalid]
    · simp at hden

/-- the full-strength statement for bytes literals (what the property text asks for) -/
def bytes_literal_exact_statement : Prop :=
  ∀ (e : Char), (e = '\'' ∨ e = '"') → ∀ (its : List StrItem), BodyOK e its → ∀ bs, denoteBodyBytes its = some bs →
    parseEvalLit ('B' :: e :: renderBody its ++ [e]) = .ok (.bytes bs)

theorem denoteBody_of_bytes (its : List StrItem) (bs : List Nat) (h : denoteBodyBytes its = some bs) :
    ∃ vs, denoteBody its = some vs := by
  induction its generalizing bs with
  | nil => exact ⟨[], rfl⟩
  | cons it its ih =>
    unfold denoteBodyBytes at h
    split at h
    · rename_i b bs' hb hbs
      obtain ⟨vs', hvs'⟩ := ih bs' hbs
      have : ∃ v, it.denote = some v := by
        cases it <;> simp_all [StrItem.denoteBytes, StrItem.denote]
      obtain ⟨v, hv⟩ := this
      exact ⟨v :: vs', by simp [denoteBody, hv, hvs']⟩
    · simp at h

/-- **`bytes_literal_exact`** (F23 fixed): a program that is one bytes literal evaluates to exactly the
bytes its items spell: `\xHH` is the byte `HH` (also for `HH ≥ 0x80`), every other item the UTF-8
encoding of the character it spells -/
theorem bytes_literal_exact : bytes_literal_exact_statement := by
  intro e he its hok bs hbs
  obtain ⟨vs, hden⟩ := denoteBody_of_bytes its bs hbs
  have hb := bytes_of_body_full e its hok vs hden
  rw [hbs] at hb
  have hbs' : bs = bytesOf (vs.map Char.ofNat) (its.map StrItem.isHex) := by simpa using hb
  have h := bytes_literal_token e he its hok vs hden []
  rw [lex_nil] at h
  unfold parseEvalLit
  simp only [h]
  have : ([Token.bytesLit (bytesOf (vs.map Char.ofNat) (its.map StrItem.isHex))].any Token.isPanic) = false := rfl
  simp only [this, Bool.false_eq_true, if_false, stripComments_single (.bytesLit _) (by simp), atomLit, evalLit, hbs']

/-- **`bytes_literal_exact_partial`**: a bytes literal without `\xHH` escapes ≥ `\x80` denotes exactly
the bytes its items spell.  (Kept from before the fix of F23; now a corollary of `bytes_literal_exact`.) -/
theorem bytes_literal_exact_partial (e : Char) (he : e = '\'' ∨ e = '"') (its : List StrItem)
    (hok : BodyOK e its) (hlow : LowHex its) (vs : List Nat) (hden : denoteBody its = some vs) :
    ∃ bs, denoteBodyBytes its = some bs ∧ parseEvalLit ('B' :: e :: renderBody its ++ [e]) = .ok (.bytes bs) :=
  ⟨_, bytes_of_body e its hok hlow vs hden, bytes_literal_exact e he its hok _ (bytes_of_body e its hok hlow vs hden)⟩

/-- regression (F23): `B"\xff"` is the single byte 255 (it was `[195, 191]`, the UTF-8 of U+00FF) -/
example : parseEvalLit ['B', '"', '\\', 'x', 'f', 'f', '"'] = .ok (.bytes [255]) :=
  bytes_literal_exact '"' (Or.inr rfl) [.hex ⟨15, false⟩ ⟨15, false⟩] (by simp [BodyOK, ItemOK]) [255] (by decide)

/-! ## 7. The parser

`Impl/Parse.lean` is a recursive-descent recogniser with the control flow of `Parser` in core.rs; it
is total by construction (structural recursion on a fuel argument).  What is proved here is only that
the fuel `fuelFor` is always sufficient (`parse_terminates`), so the model decides every input. -/

/-- the full-strength termination statement for the parser model: with the linear fuel `fuelFor`
the recursive descent never runs out of fuel, for any source text -/
def parse_terminates_statement : Prop := ∀ code : List Char, Parse.parse code ≠ .outOfFuel

/-- **`parse_terminates`**: the parser model never answers `outOfFuel` — for every source text `parse`
returns `ok` or `err`.  Proof (Lemmas/C15ParseFuel.lean): by induction on the fuel, every function of
the mutual block is safe when fuel ≥ 10 · weight(remaining tokens) + its grammar level, because every
recursive call either is made on a strictly lighter token list or descends a grammar level; format-string
tokens weigh twice their body length (the body is lexed and parsed recursively, `pneed_fmtScan`), and
the token stream weighs at most twice the source length (`W_lex_le`). -/
theorem parse_terminates : parse_terminates_statement := parse_never_out_of_fuel

/-- the parser model is a total decision: every source text is accepted or rejected -/
theorem parse_decides (code : List Char) : Parse.parse code = .ok ∨ Parse.parse code = .err := by
  have h := parse_terminates code
  cases hp : Parse.parse code <;> simp_all

/-- the empty program (no tokens but comments and blanks) parses: `Ok(None)` -/
theorem parse_empty_program (code : List Char) (h : (stripComments (lex code)).1 = []) :
    Parse.parse code = .ok := by
  simp [Parse.parse, Parse.parseTokens, h]

/-- a program that is a single literal token parses (one step of `expression` … `atom`): the model
agrees with `parseEvalLit` that these are programs -/
theorem parse_int_literal (f : IntForm) (hf : f.valid = true) (n : Nat) :
    Parse.parse (renderInt f n) = .ok := by
  have h := int_literal_token f hf n [] (intStop_nil f)
  rw [List.append_nil, lex_nil] at h
  have hs : (stripComments (lex (renderInt f n))).1 = [.intLit n] := by
    rw [h]; exact stripComments_single _ (by simp)
  unfold Parse.parse
  simp only [hs]
  have hf : Parse.fuelFor (renderInt f n) = (32 * (renderInt f n).length + 44) + 20 := by
    unfold Parse.fuelFor; omega
  rw [hf]
  generalize 32 * (renderInt f n).length + 44 = m
  rfl

/-- tokens that are literals by themselves (format strings excluded: they are parsed further) -/
def isPlainLitTok : Token → Bool
  | .intLit _ => true | .ratLit _ => true | .floatLit _ => true | .imagLit _ => true
  | .stringLit _ => true | .bytesLit _ => true
  | _ => false

/-- a token list consisting of one literal token parses, with any fuel ≥ 20 -/
theorem parseTokens_single_literal (t : Token) (h : isPlainLitTok t = true) (m : Nat) :
    Parse.parseTokens (m + 20) [t] = .ok := by
  cases t <;> simp [isPlainLitTok] at h <;> rfl

/-- `to_lvalue_no_literals` succeeds only where `to_lvalue` does -/
theorem lvalueNoLitOk_imp_lvalueOk (e : Parse.PExpr) (h : Parse.lvalueNoLitOk e = true) : Parse.lvalueOk e = true := by
  unfold Parse.lvalueNoLitOk at h
  unfold Parse.lvalueOk
  split at h
  · rename_i i hi; simp [hi]
  · simp at h

/-- every literal syntax of section 2–4 is also a *program* for the parser model -/
theorem parse_float_literal (l : FloatLit) (hwf : l.wf = true) : Parse.parse l.render = .ok := by
  have h := float_token_text l hwf [] (floatStop_nil l)
  rw [List.append_nil, lex_nil] at h
  have hlit : isPlainLitTok (floatTok l) = true := by
    unfold floatTok; split <;> rfl
  have hs : (stripComments (lex l.render)).1 = [floatTok l] := by
    rw [h]; apply stripComments_single; intro s hc; rw [hc] at hlit; cases hlit
  unfold Parse.parse
  rw [hs]
  have hf : Parse.fuelFor l.render = (32 * l.render.length + 44) + 20 := by
    unfold Parse.fuelFor; omega
  rw [hf]
  exact parseTokens_single_literal _ hlit _

theorem parse_string_literal (e : Char) (he : e = '\'' ∨ e = '"') (its : List StrItem) (hok : BodyOK e its)
    (vs : List Nat) (hden : denoteBody its = some vs) :
    Parse.parse (e :: renderBody its ++ [e]) = .ok := by
  have h := string_escape_exact e he its hok vs hden []
  rw [lex_nil] at h
  have hs : (stripComments (lex (e :: renderBody its ++ [e]))).1 = [.stringLit (vs.map Char.ofNat)] := by
    rw [h]; exact stripComments_single _ (by simp)
  unfold Parse.parse
  rw [hs]
  have hf : Parse.fuelFor (e :: renderBody its ++ [e]) = (32 * (e :: renderBody its ++ [e]).length + 44) + 20 := by
    unfold Parse.fuelFor; omega
  rw [hf]
  exact parseTokens_single_literal _ rfl _


/-! ## 8. The accepted language: soundness on the expression fragment

Grammar (`D` in Lemmas/C15Grammar.lean), over literals, identifiers and `( ) [ ] ,`:

    Atom    ::= literal | ident | '(' Args ')' | '[' ']' | '[' Args ']'
    Operand ::= Atom | Operand '(' ')' | Operand '(' Args ')' | Operand '[' Chain ']'
    OpAtom  ::= ident | '(' OpAtom ')'
    Chain   ::= Operand | Operand Atom | Operand OpAtom Operand (OpAtom Operand)*
    Args    ::= Chain (',' Chain)* [',']
-/

/-- **`parse_sound_fragment`**: if the source lexes to a non-empty token list over the fragment's
alphabet and the parser model accepts it, the token list is an `Args` phrase of the grammar.
Together with `parse_terminates` this characterises acceptance on the fragment from one side:
accepted ⟹ derivable. -/
theorem parse_sound_fragment (code : List Char) (hf : AllFrag (stripComments (lex code)).1)
    (hne : (stripComments (lex code)).1 ≠ []) (h : Parse.parse code = .ok) :
    Lang .args (stripComments (lex code)).1 :=
  parseTokens_sound _ _ hf hne h

/-- non-vacuity: `f(x, [1])[0] + y` is accepted, hence derivable -/
example : Lang .args [.ident ['f'], .leftParen, .ident ['x'], .comma, .leftBracket, .intLit 1, .rightBracket,
    .rightParen, .leftBracket, .intLit 0, .rightBracket, .ident ['+'], .ident ['y']] :=
  parseTokens_sound 200 _ (by simp [frag_ident, frag_leftParen, frag_comma, frag_leftBracket, frag_intLit,
    frag_rightBracket, frag_rightParen]) (by simp) (by rfl)

/-- the operator position is tight: `a 1 b` (a non-identifier where an operator is expected) is not a
phrase of the grammar's `Chain` … and indeed the parser model rejects it -/
example : Parse.parseTokens 200 [.ident ['a'], .intLit 1, .ident ['b']] = .err := by rfl

/-! ## 9. No lexer state between tokens: literals in sequence decode as they do alone -/

inductive QKind where
  | str | bytes | fmt
  deriving DecidableEq, Repr

/-- a quoted literal: its kind (plain / `B` / `F`), delimiter and items -/
structure QLit where
  kind : QKind
  e : Char
  its : List StrItem

def QLit.render (l : QLit) : List Char :=
  (match l.kind with | .str => [] | .bytes => ['B'] | .fmt => ['F']) ++ l.e :: renderBody l.its ++ [l.e]

def QLit.WF (l : QLit) : Prop :=
  (l.e = '\'' ∨ l.e = '"') ∧ BodyOK l.e l.its ∧ ∃ vs, denoteBody l.its = some vs

theorem lex_space (cs : List Char) : lex (' ' :: cs) = lex cs := by
  have : lexStep ' ' cs = ⟨[], cs, false⟩ := rfl
  rw [lex_of_step _ _ _ _ this]; rfl

/-- what follows a literal does not influence its token, and the literal does not influence what follows -/
theorem lex_literal_append (l : QLit) (h : l.WF) (rest : List Char) :
    lex (l.render ++ rest) = lex l.render ++ lex rest := by
  obtain ⟨he, hok, vs, hden⟩ := h
  obtain ⟨kind, e, its⟩ := l
  cases kind
  · have h1 := string_escape_exact e he its hok vs hden rest
    have h2 := string_escape_exact e he its hok vs hden []
    simp only [QLit.render, List.nil_append, List.cons_append, List.append_assoc] at *
    rw [h1, h2, lex_nil]; rfl
  · have h1 := bytes_literal_token e he its hok vs hden rest
    have h2 := bytes_literal_token e he its hok vs hden []
    simp only [QLit.render, List.nil_append, List.cons_append, List.append_assoc] at *
    rw [h1, h2, lex_nil]; rfl
  · have h1 := format_literal_token e he its hok vs hden rest
    have h2 := format_literal_token e he its hok vs hden []
    simp only [QLit.render, List.nil_append, List.cons_append, List.append_assoc] at *
    rw [h1, h2, lex_nil]; rfl

/-- **`lex_tokens_independent`**: lexing a sequence of string / bytes / format-string literals
(separated by blanks) yields exactly the tokens each literal yields when lexed alone — the lexer
model carries no state from one token to the next (in particular no `\xHH` offsets) -/
theorem lex_tokens_independent (ls : List QLit) (h : ∀ l ∈ ls, l.WF) :
    lex (ls.flatMap fun l => l.render ++ [' ']) = ls.flatMap fun l => lex l.render := by
  induction ls with
  | nil => simp [lex_nil]
  | cons l ls ih =>
    simp only [List.flatMap_cons, List.append_assoc, List.singleton_append]
    rw [lex_literal_append l (h l (by simp)), lex_space, ih (fun l' hl' => h l' (by simp [hl']))]

/-- non-vacuity, the shape of the seeded defect a5: `'\x41bc' B'é' ` — the bytes literal yields the
tokens it yields alone whatever `\xHH` escapes precede it -/
example :
    let ls : List QLit := [⟨.str, '\'', [.hex ⟨4, false⟩ ⟨1, false⟩, .plain 'b', .plain 'c']⟩, ⟨.bytes, '\'', [.plain 'é']⟩]
    lex (ls.flatMap fun l => l.render ++ [' ']) = ls.flatMap fun l => lex l.render := by
  intro ls
  apply lex_tokens_independent
  intro l hl
  simp [ls] at hl
  rcases hl with rfl | rfl
  · exact ⟨Or.inl rfl, by simp [BodyOK, ItemOK], _, rfl⟩
  · exact ⟨Or.inl rfl, by simp [BodyOK, ItemOK], _, rfl⟩


end Noulith.C15
