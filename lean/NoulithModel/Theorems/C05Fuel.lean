/-
C05 (supplement) — fuel monotonicity of the core evaluator (Impl/CoreEval.lean).

The evaluator is a `mutual` block of eleven functions, structurally recursive on `fuel`; `Res.fuelOut`
means "not enough fuel".  Here: once a call does not run out of fuel, more fuel gives the SAME result
(value, state, accumulator), for all eleven functions simultaneously.  Consequently every statement about
`eval` that excludes `fuelOut` is independent of the fuel, and `runProgram` is deterministic across
fuels.

Proof organisation: `Mono n m` says "each of the eleven functions at fuel `m` agrees with fuel `n` unless
fuel `n` runs out" (as a disjunction, so that no hypothesis has to be threaded through the arms);
`Mono.step : Mono n m → Mono (n+1) (m+1)` is proved arm by arm (the observation used everywhere is that
`fuelOut` from a sub-call always propagates to the result), and `mono_succ : Mono n (n+1)` follows by
induction.
-/
import NoulithModel.Impl.CoreEval

namespace Noulith.C05Fuel
open Noulith Noulith.Core

/-- "the eleven functions at fuel `m` refine fuel `n`": equal results, or fuel `n` ran out.  Each field
is stated with the fuel-`n` result named (`∃ x, … = x ∧ …`) so that a proof can name it, rewrite both
calls to it and destructure it. -/
structure Mono (n m : Nat) : Prop where
  ev : ∀ st env e, ∃ x, eval n st env e = x ∧ (eval m st env e = x ∨ x.1 = .fuelOut)
  evSeq : ∀ st env es, ∃ x, evalSeq n st env es = x ∧ (evalSeq m st env es = x ∨ x.1 = .fuelOut)
  evList : ∀ st env es, ∃ x, evalList n st env es = x ∧ (evalList m st env es = x ∨ x.1 = .stop .fuelOut)
  evInto : ∀ st env o, ∃ x, evalInto n st env o = x ∧ (evalInto m st env o = x ∨ x.1 = .inr .fuelOut)
  evWhile : ∀ st env c b, ∃ x, evalWhile n st env c b = x ∧ (evalWhile m st env c b = x ∨ x.1 = .fuelOut)
  evFor : ∀ st env its body acc, ∃ x, evalFor n st env its body acc = x ∧
      (evalFor m st env its body acc = x ∨ x.1 = .fuelOut)
  fItems : ∀ st env p items its body acc, ∃ x, forItems n st env p items its body acc = x ∧
      (forItems m st env p items its body acc = x ∨ x.1 = .fuelOut)
  fBody : ∀ st env body acc, ∃ x, forBody n st env body acc = x ∧
      (forBody m st env body acc = x ∨ x.1 = .fuelOut)
  finDict : ∀ st env post d done, ∃ x, finishDict n st env post d done = x ∧
      (finishDict m st env post d done = x ∨ x.1 = .fuelOut)
  call : ∀ st env f args, ∃ x, callVal n st env f args = x ∧ (callVal m st env f args = x ∨ x.1 = .fuelOut)
  evSwitch : ∀ st env v arms, ∃ x, evalSwitch n st env v arms = x ∧
      (evalSwitch m st env v arms = x ∨ x.1 = .fuelOut)

/-- `fuel_sub h with r s`: `h` is one of the `Mono` fields applied to the arguments of a sub-call that
occurs in the goal `lhs = rhs ∨ rhs.1 = fuelOut`.  Closes the case "the sub-call ran out of fuel at `n`"
(then so does `rhs`), and leaves the case where both sub-calls are the same pair `(r, s)`. -/
syntax "fuel_sub " term " with " ident ident : tactic
macro_rules
  | `(tactic| fuel_sub $h with $r $s) => `(tactic|
      (try dsimp only
       obtain ⟨x, hx, hsub⟩ := $h
       rw [hx]
       rcases hsub with hsub | hsub
       rotate_left
       · obtain ⟨$r:ident, $s:ident⟩ := x; dsimp only at hsub; subst hsub; exact Or.inr rfl
       rw [hsub]; clear hsub hx; obtain ⟨$r:ident, $s:ident⟩ := x))

/-- the same for the functions returning a triple `Res × State × ForAcc` -/
syntax "fuel_sub3 " term " with " ident ident ident : tactic
macro_rules
  | `(tactic| fuel_sub3 $h with $r $s $a) => `(tactic|
      (try dsimp only
       obtain ⟨x, hx, hsub⟩ := $h
       rw [hx]
       rcases hsub with hsub | hsub
       rotate_left
       · obtain ⟨$r:ident, $s:ident, $a:ident⟩ := x; dsimp only at hsub; subst hsub; exact Or.inr rfl
       rw [hsub]; clear hsub hx; obtain ⟨$r:ident, $s:ident, $a:ident⟩ := x))

variable {n m : Nat}

/-! ## `eval`, arm by arm -/

abbrev EvGoal (n m : Nat) (st : State) (env : Nat) (e : Expr) : Prop :=
  eval (m + 1) st env e = eval (n + 1) st env e ∨ (eval (n + 1) st env e).1 = .fuelOut

/-- a sub-call in tail position -/
syntax "fuel_tail " term : tactic
macro_rules
  | `(tactic| fuel_tail $h) => `(tactic|
      (try dsimp only
       obtain ⟨x, hx, hsub⟩ := $h
       rw [hx]; exact hsub))

theorem ev_null (st env) : EvGoal n m st env .null := Or.inl (by simp only [eval])
theorem ev_int (st env k) : EvGoal n m st env (.int k) := Or.inl (by simp only [eval])
theorem ev_str (st env k) : EvGoal n m st env (.str k) := Or.inl (by simp only [eval])
theorem ev_frozen (st env k) : EvGoal n m st env (.frozen k) := Or.inl (by simp only [eval])
theorem ev_ident (st env k) : EvGoal n m st env (.ident k) := Or.inl (by simp only [eval])
theorem ev_lambda (st env ps b) : EvGoal n m st env (.lambda ps b) := Or.inl (by simp only [eval])
theorem ev_cont (st env k) : EvGoal n m st env (.cont k) := Or.inl (by simp only [eval])

theorem ev_list (ih : Mono n m) (st env xs) : EvGoal n m st env (.list xs) := by
  simp only [EvGoal, eval]
  fuel_sub (ih.evList st env xs) with r st1
  exact Or.inl rfl

theorem ev_op (ih : Mono n m) (st env name a b) : EvGoal n m st env (.op name a b) := by
  simp only [EvGoal, eval]
  fuel_sub (ih.ev st env a) with r st1
  cases r <;> try exact Or.inl rfl
  fuel_sub (ih.ev st1 env b) with r2 st2
  exact Or.inl rfl

theorem ev_index (ih : Mono n m) (st env a b) : EvGoal n m st env (.index a b) := by
  simp only [EvGoal, eval]
  fuel_sub (ih.ev st env a) with r st1
  cases r <;> try exact Or.inl rfl
  fuel_sub (ih.ev st1 env b) with r2 st2
  exact Or.inl rfl

theorem ev_call (ih : Mono n m) (st env f args) : EvGoal n m st env (.call f args) := by
  simp only [EvGoal, eval]
  fuel_sub (ih.ev st env f) with r st1
  cases r <;> try exact Or.inl rfl
  rename_i vf
  fuel_sub (ih.evList st1 env args) with r2 st2
  cases r2 <;> try exact Or.inl rfl
  rename_i vs
  fuel_tail (ih.call st2 env vf vs)

theorem ev_and (ih : Mono n m) (st env a b) : EvGoal n m st env (.and_ a b) := by
  simp only [EvGoal, eval]
  fuel_sub (ih.ev st env a) with r st1
  cases r <;> try exact Or.inl rfl
  rename_i va
  cases ht : va.truthy <;> simp only [ht, Bool.false_eq_true, ↓reduceIte]
  · exact Or.inl trivial
  · fuel_tail (ih.ev st1 env b)

theorem ev_or (ih : Mono n m) (st env a b) : EvGoal n m st env (.or_ a b) := by
  simp only [EvGoal, eval]
  fuel_sub (ih.ev st env a) with r st1
  cases r <;> try exact Or.inl rfl
  rename_i va
  cases ht : va.truthy <;> simp only [ht, Bool.false_eq_true, ↓reduceIte]
  · fuel_tail (ih.ev st1 env b)
  · exact Or.inl trivial

theorem ev_coalesce (ih : Mono n m) (st env a b) : EvGoal n m st env (.coalesce a b) := by
  simp only [EvGoal, eval]
  fuel_sub (ih.ev st env a) with r st1
  cases r <;> try exact Or.inl rfl
  rename_i va
  cases va <;> try exact Or.inl rfl
  fuel_tail (ih.ev st1 env b)

theorem ev_seq (ih : Mono n m) (st env xs semi) : EvGoal n m st env (.seq xs semi) := by
  simp only [EvGoal, eval]
  fuel_sub (ih.evSeq st env xs) with r st1
  exact Or.inl rfl

theorem ev_ite (ih : Mono n m) (st env c t e) : EvGoal n m st env (.ite c t e) := by
  simp only [EvGoal, eval]
  fuel_sub (ih.ev st env c) with r st1
  cases r <;> try exact Or.inl rfl
  rename_i vc
  cases ht : vc.truthy <;> simp only [ht, Bool.false_eq_true, ↓reduceIte]
  · cases e with
    | none => exact Or.inl rfl
    | some e => fuel_tail (ih.ev st1 env e)
  · fuel_tail (ih.ev st1 env t)

theorem ev_while (ih : Mono n m) (st env c b) : EvGoal n m st env (.while_ c b) := by
  simp only [EvGoal, eval]
  fuel_tail (ih.evWhile st env c b)

theorem ev_declare (ih : Mono n m) (st env p e) : EvGoal n m st env (.declare p e) := by
  simp only [EvGoal, eval]
  fuel_sub (ih.ev st env e) with r st1
  exact Or.inl rfl

theorem ev_assign (ih : Mono n m) (st env x e) : EvGoal n m st env (.assign x e) := by
  simp only [EvGoal, eval]
  fuel_sub (ih.ev st env e) with r st1
  exact Or.inl rfl

theorem ev_opassign (ih : Mono n m) (st env x opn e) : EvGoal n m st env (.opassign x opn e) := by
  simp only [EvGoal, eval]
  cases st.lookup env x with
  | none => exact Or.inl rfl
  | some old =>
    fuel_sub (ih.ev st env e) with r st1
    exact Or.inl rfl

theorem ev_brk (ih : Mono n m) (st env k e) : EvGoal n m st env (.brk k e) := by
  cases e with
  | none => exact Or.inl (by simp only [eval])
  | some e =>
    simp only [EvGoal, eval]
    fuel_sub (ih.ev st env e) with r st1
    exact Or.inl rfl

theorem ev_ret (ih : Mono n m) (st env e) : EvGoal n m st env (.ret e) := by
  cases e with
  | none => exact Or.inl (by simp only [eval])
  | some e =>
    simp only [EvGoal, eval]
    fuel_sub (ih.ev st env e) with r st1
    exact Or.inl rfl

theorem ev_throw (ih : Mono n m) (st env e) : EvGoal n m st env (.throw_ e) := by
  simp only [EvGoal, eval]
  fuel_sub (ih.ev st env e) with r st1
  exact Or.inl rfl

theorem ev_switch (ih : Mono n m) (st env sc arms) : EvGoal n m st env (.switch_ sc arms) := by
  simp only [EvGoal, eval]
  fuel_sub (ih.ev st env sc) with r st1
  cases r <;> try exact Or.inl rfl
  rename_i v
  fuel_tail (ih.evSwitch st1 env v arms)

theorem ev_evalSrc (ih : Mono n m) (st env e) : EvGoal n m st env (.evalSrc e) := by
  simp only [EvGoal, eval]
  fuel_tail (ih.ev st env e)

theorem ev_try (ih : Mono n m) (st env b p c) : EvGoal n m st env (.try_ b p c) := by
  simp only [EvGoal, eval]
  fuel_sub (ih.ev st env b) with r st1
  cases r <;> try exact Or.inl rfl
  rename_i v
  simp only [newFrame]
  generalize declarePat _ _ _ _ _ = y
  obtain ⟨ok, st2⟩ := y
  cases ok
  · exact Or.inl rfl
  · fuel_tail (ih.ev st2 _ c)

theorem ev_freeze (ih : Mono n m) (st env e) : EvGoal n m st env (.freeze e) := by
  simp only [EvGoal, eval]
  generalize freezeExpr _ _ _ = y
  cases y with
  | error err => exact Or.inl rfl
  | ok p =>
    obtain ⟨e', fs⟩ := p
    fuel_tail (ih.ev _ env e')

theorem ev_for_exec (ih : Mono n m) (st env its e) : EvGoal n m st env (.for_ its (.exec e)) := by
  simp only [EvGoal, eval]
  fuel_sub3 (ih.evFor st env its (.exec e) default) with r st1 acc
  exact Or.inl rfl

theorem ev_for_yield (ih : Mono n m) (st env its e into) : EvGoal n m st env (.for_ its (.yield e into)) := by
  simp only [EvGoal, eval]
  fuel_sub (ih.evInto st env into) with r st1
  cases r <;> try exact Or.inl rfl
  rename_i cp
  obtain ⟨cata0, post⟩ := cp
  cases post with
  | none =>
    fuel_sub3 (ih.evFor st1 env its (.yield e into) { cata := cata0, dict := [] }) with r st2 acc
    exact Or.inl rfl
  | some f =>
    fuel_sub3 (ih.evFor st1 env its (.yield e into) { cata := cata0, dict := [] }) with r st2 acc
    have hfin : ∀ st' : State,
        ((match some f, ((match acc.cata.finish with | .ok v => Res.val v | .raise => Res.thrown Val.err), st') with
            | some f, (Res.val v, st) => callVal m st env f [v]
            | _, r => r) =
          (match some f, ((match acc.cata.finish with | .ok v => Res.val v | .raise => Res.thrown Val.err), st') with
            | some f, (Res.val v, st) => callVal n st env f [v]
            | _, r => r)) ∨
        (match some f, ((match acc.cata.finish with | .ok v => Res.val v | .raise => Res.thrown Val.err), st') with
            | some f, (Res.val v, st) => callVal n st env f [v]
            | _, r => r).1 = Res.fuelOut := by
      intro st'
      cases acc.cata.finish with
      | raise => exact Or.inl rfl
      | ok v' => fuel_tail (ih.call st' env f [v'])
    cases r with
    | val v => exact hfin st2
    | brk k v =>
      cases k with
      | zero =>
        cases v with
        | none => exact hfin st2
        | some v' => fuel_tail (ih.call st2 env f [v'])
      | succ k => exact Or.inl rfl
    | cont k => cases k <;> exact Or.inl rfl
    | ret v => exact Or.inl rfl
    | thrown v => exact Or.inl rfl
    | fuelOut => exact Or.inl rfl

theorem ev_for_yieldItem (ih : Mono n m) (st env its k v into) :
    EvGoal n m st env (.for_ its (.yieldItem k v into)) := by
  simp only [EvGoal, eval]
  fuel_sub (ih.evInto st env into) with r st1
  cases r <;> try exact Or.inl rfl
  rename_i cp
  obtain ⟨cata0, post⟩ := cp
  dsimp only
  generalize (ForAcc.mk _ []) = acc0
  fuel_sub3 (ih.evFor st1 env its (.yieldItem k v into) acc0) with r st2 acc
  cases r with
  | val v => fuel_tail (ih.finDict st2 env post acc.dict [])
  | brk k v =>
    cases k with
    | zero =>
      cases v with
      | none => fuel_tail (ih.finDict st2 env post acc.dict [])
      | some v' => exact Or.inl rfl
    | succ k => exact Or.inl rfl
  | cont k => cases k <;> exact Or.inl rfl
  | ret v => exact Or.inl rfl
  | thrown v => exact Or.inl rfl
  | fuelOut => exact Or.inl rfl

theorem ev_all (ih : Mono n m) (st env e) : EvGoal n m st env e := by
  cases e with
  | null => exact ev_null ..
  | int k => exact ev_int ..
  | str k => exact ev_str ..
  | ident x => exact ev_ident ..
  | list xs => exact ev_list ih ..
  | op name a b => exact ev_op ih ..
  | index a i => exact ev_index ih ..
  | call f args => exact ev_call ih ..
  | and_ a b => exact ev_and ih ..
  | or_ a b => exact ev_or ih ..
  | coalesce a b => exact ev_coalesce ih ..
  | seq xs semi => exact ev_seq ih ..
  | ite c t e => exact ev_ite ih ..
  | while_ c b => exact ev_while ih ..
  | for_ its body =>
    cases body with
    | exec e => exact ev_for_exec ih ..
    | yield e into => exact ev_for_yield ih ..
    | yieldItem k v into => exact ev_for_yieldItem ih ..
  | declare p e => exact ev_declare ih ..
  | assign x e => exact ev_assign ih ..
  | opassign x opn e => exact ev_opassign ih ..
  | lambda ps b => exact ev_lambda ..
  | brk k e => exact ev_brk ih ..
  | cont k => exact ev_cont ..
  | ret e => exact ev_ret ih ..
  | throw_ e => exact ev_throw ih ..
  | try_ b p c => exact ev_try ih ..
  | switch_ sc arms => exact ev_switch ih ..
  | evalSrc e => exact ev_evalSrc ih ..
  | frozen v => exact ev_frozen ..
  | freeze e => exact ev_freeze ih ..

/-! ## the other ten functions -/

theorem step_evSwitch (ih : Mono n m) (st env v arms) :
    evalSwitch (m + 1) st env v arms = evalSwitch (n + 1) st env v arms ∨
      (evalSwitch (n + 1) st env v arms).1 = .fuelOut := by
  match arms with
  | [] => exact Or.inl (by simp only [evalSwitch])
  | .mk p body :: rest =>
    simp only [evalSwitch, newFrame]
    generalize declarePat _ _ _ _ _ = y
    obtain ⟨ok, st2⟩ := y
    cases ok
    · fuel_tail (ih.evSwitch st2 env v rest)
    · fuel_tail (ih.ev st2 _ body)

theorem step_evSeq (ih : Mono n m) (st env es) :
    evalSeq (m + 1) st env es = evalSeq (n + 1) st env es ∨ (evalSeq (n + 1) st env es).1 = .fuelOut := by
  match es with
  | [] => exact Or.inl (by simp only [evalSeq])
  | [x] => simp only [evalSeq]; fuel_tail (ih.ev st env x)
  | x :: y :: ys =>
    simp only [evalSeq]
    fuel_sub (ih.ev st env x) with r st1
    cases r <;> try exact Or.inl rfl
    fuel_tail (ih.evSeq st1 env (y :: ys))

theorem step_evList (ih : Mono n m) (st env es) :
    evalList (m + 1) st env es = evalList (n + 1) st env es ∨ (evalList (n + 1) st env es).1 = .stop .fuelOut := by
  match es with
  | [] => exact Or.inl (by simp only [evalList])
  | x :: xs =>
    simp only [evalList]
    fuel_sub (ih.ev st env x) with r st1
    cases r <;> try exact Or.inl rfl
    fuel_sub (ih.evList st1 env xs) with r2 st2
    exact Or.inl rfl

theorem step_evInto (ih : Mono n m) (st env o) :
    evalInto (m + 1) st env o = evalInto (n + 1) st env o ∨ (evalInto (n + 1) st env o).1 = .inr .fuelOut := by
  match o with
  | none => exact Or.inl (by simp only [evalInto])
  | some e =>
    simp only [evalInto]
    fuel_sub (ih.ev st env e) with r st1
    exact Or.inl rfl

theorem step_evWhile (ih : Mono n m) (st env c b) :
    evalWhile (m + 1) st env c b = evalWhile (n + 1) st env c b ∨ (evalWhile (n + 1) st env c b).1 = .fuelOut := by
  simp only [evalWhile, newFrame]
  fuel_sub (ih.ev _ _ c) with r st1
  cases r <;> try exact Or.inl rfl
  rename_i vc
  cases ht : vc.truthy <;> simp only [ht, Bool.false_eq_true, ↓reduceIte, Bool.not_true, Bool.not_false]
  · exact Or.inl trivial
  · fuel_sub (ih.ev st1 _ b) with r2 st2
    cases r2 with
    | val v => fuel_tail (ih.evWhile st2 env c b)
    | brk k v => cases k <;> exact Or.inl rfl
    | cont k =>
      cases k with
      | zero => fuel_tail (ih.evWhile st2 env c b)
      | succ k => exact Or.inl rfl
    | ret v => exact Or.inl rfl
    | thrown v => exact Or.inl rfl
    | fuelOut => exact Or.inl rfl

theorem step_evFor (ih : Mono n m) (st env its body acc) :
    evalFor (m + 1) st env its body acc = evalFor (n + 1) st env its body acc ∨
      (evalFor (n + 1) st env its body acc).1 = .fuelOut := by
  match its with
  | [] =>
    simp only [evalFor]
    fuel_sub3 (ih.fBody st env body acc) with r st1 acc1
    exact Or.inl rfl
  | .guard g :: rest =>
    simp only [evalFor]
    fuel_sub (ih.ev st env g) with r st1
    cases r <;> try exact Or.inl rfl
    rename_i v
    cases ht : v.truthy <;> simp only [ht, Bool.false_eq_true, ↓reduceIte]
    · exact Or.inl trivial
    · fuel_tail (ih.evFor st1 env rest body acc)
  | .iter kind p e :: rest =>
    simp only [evalFor]
    fuel_sub (ih.ev st env e) with r st1
    cases r <;> try exact Or.inl rfl
    rename_i v
    cases kind with
    | declare =>
      simp only [newFrame]
      generalize declarePat _ _ _ _ _ = y
      obtain ⟨ok, st2⟩ := y
      cases ok
      · exact Or.inl rfl
      · fuel_tail (ih.evFor st2 _ rest body acc)
    | normal =>
      dsimp only
      cases iterValues v with
      | none => exact Or.inl rfl
      | some items => fuel_tail (ih.fItems st1 env p items rest body acc)
    | item =>
      dsimp only
      cases iterPairs v with
      | none => exact Or.inl rfl
      | some items => fuel_tail (ih.fItems st1 env p items rest body acc)

theorem step_fItems (ih : Mono n m) (st env p items its body acc) :
    forItems (m + 1) st env p items its body acc = forItems (n + 1) st env p items its body acc ∨
      (forItems (n + 1) st env p items its body acc).1 = .fuelOut := by
  match items with
  | [] => exact Or.inl (by simp only [forItems])
  | x :: xs =>
    simp only [forItems, newFrame]
    generalize declarePat _ _ _ _ _ = y
    obtain ⟨ok, st2⟩ := y
    cases ok
    · exact Or.inl rfl
    · fuel_sub3 (ih.evFor st2 _ its body acc) with r st3 acc3
      cases r <;> try exact Or.inl rfl
      fuel_tail (ih.fItems st3 env p xs its body acc3)

theorem step_fBody (ih : Mono n m) (st env body acc) :
    forBody (m + 1) st env body acc = forBody (n + 1) st env body acc ∨
      (forBody (n + 1) st env body acc).1 = .fuelOut := by
  match body with
  | .exec e =>
    simp only [forBody]
    fuel_sub (ih.ev st env e) with r st1
    exact Or.inl rfl
  | .yield e into =>
    simp only [forBody]
    fuel_sub (ih.ev st env e) with r st1
    exact Or.inl rfl
  | .yieldItem k v into =>
    simp only [forBody]
    fuel_sub (ih.ev st env k) with r st1
    cases r <;> try exact Or.inl rfl
    rename_i vk
    cases vk <;> try exact Or.inl rfl
    all_goals
      dsimp only
      generalize dictFind _ _ = d
      cases d with
      | none =>
        fuel_sub (ih.ev st1 env v) with r2 st2
        exact Or.inl rfl
      | some c =>
        cases c with
        | inr b => exact Or.inl rfl
        | inl c =>
          fuel_sub (ih.ev st1 env v) with r2 st2
          exact Or.inl rfl

theorem step_finDict (ih : Mono n m) (st env post d done) :
    finishDict (m + 1) st env post d done = finishDict (n + 1) st env post d done ∨
      (finishDict (n + 1) st env post d done).1 = .fuelOut := by
  match d with
  | [] => exact Or.inl (by simp only [finishDict])
  | (k, .inr v) :: rest =>
    simp only [finishDict]
    fuel_tail (ih.finDict st env post rest _)
  | (k, .inl c) :: rest =>
    simp only [finishDict]
    cases c.finish with
    | raise => exact Or.inl rfl
    | ok v =>
      cases post with
      | none => fuel_tail (ih.finDict st env none rest _)
      | some f =>
        fuel_sub (ih.call st env f [v]) with r st1
        cases r <;> try exact Or.inl rfl
        fuel_tail (ih.finDict st1 env (some f) rest _)

/-- builtins do not look at the fuel (beyond its being non-zero) -/
theorem callVal_nonclosure (m n : Nat) (st env f args) (hf : ∀ p b c, f ≠ .closure p b c) :
    callVal (m + 1) st env f args = callVal (n + 1) st env f args := by
  rw [callVal.eq_def, callVal.eq_def]
  simp only []
  split
  · exact absurd rfl (hf _ _ _)
  all_goals rfl

theorem step_call_closure (ih : Mono n m) (st env ps body cenv args) :
    callVal (m + 1) st env (.closure ps body cenv) args = callVal (n + 1) st env (.closure ps body cenv) args ∨
      (callVal (n + 1) st env (.closure ps body cenv) args).1 = .fuelOut := by
  simp only [callVal, newFrame]
  -- the parameter annotations
  fuel_sub (ih.evList _ _ _) with r0 st0
  cases r0 with
  | stop r => exact Or.inl rfl
  | ok tvs =>
    dsimp only
    cases defaultsInPlay args.length ps 0 false [] with
    | none => exact Or.inl rfl
    | some inPlay =>
      dsimp only
      split
      · exact Or.inl rfl
      · -- the defaults in play
        fuel_sub (ih.evList _ _ _) with r st1
        cases r with
        | stop r => exact Or.inl rfl
        | ok dvs =>
          dsimp only
          cases bindArgs ps args dvs with
          | none => exact Or.inl rfl
          | some binds =>
            dsimp only
            cases st1.frames[st.frames.size]? with
            | none => exact Or.inl rfl
            | some fr =>
              dsimp only
              obtain ⟨okb, vars, tys⟩ := checkBinds (annSlots ps tvs) binds [] []
              cases okb with
              | false => exact Or.inl rfl
              | true =>
                fuel_sub (ih.ev _ _ body) with r2 st2
                exact Or.inl rfl

theorem step_call (ih : Mono n m) (st env f args) :
    callVal (m + 1) st env f args = callVal (n + 1) st env f args ∨
      (callVal (n + 1) st env f args).1 = .fuelOut := by
  cases f with
  | closure ps body cenv => exact step_call_closure ih ..
  | null => exact Or.inl (callVal_nonclosure _ _ _ _ _ _ (by intros; simp))
  | int k => exact Or.inl (callVal_nonclosure _ _ _ _ _ _ (by intros; simp))
  | str k => exact Or.inl (callVal_nonclosure _ _ _ _ _ _ (by intros; simp))
  | list k => exact Or.inl (callVal_nonclosure _ _ _ _ _ _ (by intros; simp))
  | dict k => exact Or.inl (callVal_nonclosure _ _ _ _ _ _ (by intros; simp))
  | builtin k => exact Or.inl (callVal_nonclosure _ _ _ _ _ _ (by intros; simp))
  | err => exact Or.inl (callVal_nonclosure _ _ _ _ _ _ (by intros; simp))

/-! ## assembling -/

theorem Mono.step (ih : Mono n m) : Mono (n + 1) (m + 1) where
  ev st env e := ⟨_, rfl, ev_all ih st env e⟩
  evSeq st env es := ⟨_, rfl, step_evSeq ih st env es⟩
  evList st env es := ⟨_, rfl, step_evList ih st env es⟩
  evInto st env o := ⟨_, rfl, step_evInto ih st env o⟩
  evWhile st env c b := ⟨_, rfl, step_evWhile ih st env c b⟩
  evFor st env its body acc := ⟨_, rfl, step_evFor ih st env its body acc⟩
  fItems st env p items its body acc := ⟨_, rfl, step_fItems ih st env p items its body acc⟩
  fBody st env body acc := ⟨_, rfl, step_fBody ih st env body acc⟩
  finDict st env post d done := ⟨_, rfl, step_finDict ih st env post d done⟩
  call st env f args := ⟨_, rfl, step_call ih st env f args⟩
  evSwitch st env v arms := ⟨_, rfl, step_evSwitch ih st env v arms⟩

/-- with no fuel everything is `fuelOut` -/
theorem Mono.zero (m : Nat) : Mono 0 m where
  ev st env e := ⟨_, rfl, Or.inr (by simp only [eval])⟩
  evSeq st env es := ⟨_, rfl, Or.inr (by simp only [evalSeq])⟩
  evList st env es := ⟨_, rfl, Or.inr (by simp only [evalList])⟩
  evInto st env o := ⟨_, rfl, Or.inr (by simp only [evalInto])⟩
  evWhile st env c b := ⟨_, rfl, Or.inr (by simp only [evalWhile])⟩
  evFor st env its body acc := ⟨_, rfl, Or.inr (by simp only [evalFor])⟩
  fItems st env p items its body acc := ⟨_, rfl, Or.inr (by simp only [forItems])⟩
  fBody st env body acc := ⟨_, rfl, Or.inr (by simp only [forBody])⟩
  finDict st env post d done := ⟨_, rfl, Or.inr (by simp only [finishDict])⟩
  call st env f args := ⟨_, rfl, Or.inr (by simp only [callVal])⟩
  evSwitch st env v arms := ⟨_, rfl, Or.inr (by simp only [evalSwitch])⟩

/-- the simultaneous statement: one more unit of fuel changes nothing unless the fuel ran out -/
theorem mono_succ : ∀ n, Mono n (n + 1)
  | 0 => Mono.zero 1
  | n + 1 => (mono_succ n).step

/-! ## fuel monotonicity, function by function -/

theorem eval_fuel_mono (n st env e) (h : (eval n st env e).1 ≠ .fuelOut) :
    eval (n + 1) st env e = eval n st env e := by
  obtain ⟨x, hx, hs⟩ := (mono_succ n).ev st env e
  subst hx; exact hs.resolve_right h

theorem evalSeq_fuel_mono (n st env es) (h : (evalSeq n st env es).1 ≠ .fuelOut) :
    evalSeq (n + 1) st env es = evalSeq n st env es := by
  obtain ⟨x, hx, hs⟩ := (mono_succ n).evSeq st env es
  subst hx; exact hs.resolve_right h

theorem evalList_fuel_mono (n st env es) (h : (evalList n st env es).1 ≠ .stop .fuelOut) :
    evalList (n + 1) st env es = evalList n st env es := by
  obtain ⟨x, hx, hs⟩ := (mono_succ n).evList st env es
  subst hx; exact hs.resolve_right h

theorem evalInto_fuel_mono (n st env o) (h : (evalInto n st env o).1 ≠ .inr .fuelOut) :
    evalInto (n + 1) st env o = evalInto n st env o := by
  obtain ⟨x, hx, hs⟩ := (mono_succ n).evInto st env o
  subst hx; exact hs.resolve_right h

theorem evalWhile_fuel_mono (n st env c b) (h : (evalWhile n st env c b).1 ≠ .fuelOut) :
    evalWhile (n + 1) st env c b = evalWhile n st env c b := by
  obtain ⟨x, hx, hs⟩ := (mono_succ n).evWhile st env c b
  subst hx; exact hs.resolve_right h

theorem evalFor_fuel_mono (n st env its body acc) (h : (evalFor n st env its body acc).1 ≠ .fuelOut) :
    evalFor (n + 1) st env its body acc = evalFor n st env its body acc := by
  obtain ⟨x, hx, hs⟩ := (mono_succ n).evFor st env its body acc
  subst hx; exact hs.resolve_right h

theorem forItems_fuel_mono (n st env p items its body acc)
    (h : (forItems n st env p items its body acc).1 ≠ .fuelOut) :
    forItems (n + 1) st env p items its body acc = forItems n st env p items its body acc := by
  obtain ⟨x, hx, hs⟩ := (mono_succ n).fItems st env p items its body acc
  subst hx; exact hs.resolve_right h

theorem forBody_fuel_mono (n st env body acc) (h : (forBody n st env body acc).1 ≠ .fuelOut) :
    forBody (n + 1) st env body acc = forBody n st env body acc := by
  obtain ⟨x, hx, hs⟩ := (mono_succ n).fBody st env body acc
  subst hx; exact hs.resolve_right h

theorem finishDict_fuel_mono (n st env post d done) (h : (finishDict n st env post d done).1 ≠ .fuelOut) :
    finishDict (n + 1) st env post d done = finishDict n st env post d done := by
  obtain ⟨x, hx, hs⟩ := (mono_succ n).finDict st env post d done
  subst hx; exact hs.resolve_right h

theorem callVal_fuel_mono (n st env f args) (h : (callVal n st env f args).1 ≠ .fuelOut) :
    callVal (n + 1) st env f args = callVal n st env f args := by
  obtain ⟨x, hx, hs⟩ := (mono_succ n).call st env f args
  subst hx; exact hs.resolve_right h

theorem evalSwitch_fuel_mono (n st env v arms) (h : (evalSwitch n st env v arms).1 ≠ .fuelOut) :
    evalSwitch (n + 1) st env v arms = evalSwitch n st env v arms := by
  obtain ⟨x, hx, hs⟩ := (mono_succ n).evSwitch st env v arms
  subst hx; exact hs.resolve_right h

/-- all eleven at once, in the form the brief states it -/
theorem fuel_mono_all (n : Nat) :
    (∀ st env e, (eval n st env e).1 ≠ .fuelOut → eval (n + 1) st env e = eval n st env e) ∧
    (∀ st env es, (evalSeq n st env es).1 ≠ .fuelOut → evalSeq (n + 1) st env es = evalSeq n st env es) ∧
    (∀ st env es, (evalList n st env es).1 ≠ .stop .fuelOut → evalList (n + 1) st env es = evalList n st env es) ∧
    (∀ st env o, (evalInto n st env o).1 ≠ .inr .fuelOut → evalInto (n + 1) st env o = evalInto n st env o) ∧
    (∀ st env c b, (evalWhile n st env c b).1 ≠ .fuelOut → evalWhile (n + 1) st env c b = evalWhile n st env c b) ∧
    (∀ st env its body acc, (evalFor n st env its body acc).1 ≠ .fuelOut →
      evalFor (n + 1) st env its body acc = evalFor n st env its body acc) ∧
    (∀ st env p items its body acc, (forItems n st env p items its body acc).1 ≠ .fuelOut →
      forItems (n + 1) st env p items its body acc = forItems n st env p items its body acc) ∧
    (∀ st env body acc, (forBody n st env body acc).1 ≠ .fuelOut →
      forBody (n + 1) st env body acc = forBody n st env body acc) ∧
    (∀ st env post d done, (finishDict n st env post d done).1 ≠ .fuelOut →
      finishDict (n + 1) st env post d done = finishDict n st env post d done) ∧
    (∀ st env f args, (callVal n st env f args).1 ≠ .fuelOut →
      callVal (n + 1) st env f args = callVal n st env f args) ∧
    (∀ st env v arms, (evalSwitch n st env v arms).1 ≠ .fuelOut →
      evalSwitch (n + 1) st env v arms = evalSwitch n st env v arms) :=
  ⟨eval_fuel_mono n, evalSeq_fuel_mono n, evalList_fuel_mono n, evalInto_fuel_mono n, evalWhile_fuel_mono n,
   evalFor_fuel_mono n, forItems_fuel_mono n, forBody_fuel_mono n, finishDict_fuel_mono n, callVal_fuel_mono n,
   evalSwitch_fuel_mono n⟩

/-! ## any larger fuel -/

theorem Mono.refl (n : Nat) : Mono n n where
  ev _ _ _ := ⟨_, rfl, Or.inl rfl⟩
  evSeq _ _ _ := ⟨_, rfl, Or.inl rfl⟩
  evList _ _ _ := ⟨_, rfl, Or.inl rfl⟩
  evInto _ _ _ := ⟨_, rfl, Or.inl rfl⟩
  evWhile _ _ _ _ := ⟨_, rfl, Or.inl rfl⟩
  evFor _ _ _ _ _ := ⟨_, rfl, Or.inl rfl⟩
  fItems _ _ _ _ _ _ _ := ⟨_, rfl, Or.inl rfl⟩
  fBody _ _ _ _ := ⟨_, rfl, Or.inl rfl⟩
  finDict _ _ _ _ _ := ⟨_, rfl, Or.inl rfl⟩
  call _ _ _ _ := ⟨_, rfl, Or.inl rfl⟩
  evSwitch _ _ _ _ := ⟨_, rfl, Or.inl rfl⟩

/-- helper for transitivity, on one field -/
theorem trans_field {α : Type} {P : α → Prop} {a b c : α}
    (h1 : ∃ x, a = x ∧ (b = x ∨ P x)) (h2 : ∃ x, b = x ∧ (c = x ∨ P x)) : ∃ x, a = x ∧ (c = x ∨ P x) := by
  obtain ⟨x, rfl, h1⟩ := h1
  obtain ⟨y, rfl, h2⟩ := h2
  refine ⟨_, rfl, ?_⟩
  rcases h1 with h1 | h1
  · rw [← h1]; exact h2
  · exact Or.inr h1

theorem Mono.trans {a b c : Nat} (h1 : Mono a b) (h2 : Mono b c) : Mono a c where
  ev st env e := trans_field (h1.ev st env e) (h2.ev st env e)
  evSeq st env es := trans_field (h1.evSeq st env es) (h2.evSeq st env es)
  evList st env es := trans_field (h1.evList st env es) (h2.evList st env es)
  evInto st env o := trans_field (h1.evInto st env o) (h2.evInto st env o)
  evWhile st env c b := trans_field (h1.evWhile st env c b) (h2.evWhile st env c b)
  evFor st env its body acc := trans_field (h1.evFor st env its body acc) (h2.evFor st env its body acc)
  fItems st env p items its body acc :=
    trans_field (h1.fItems st env p items its body acc) (h2.fItems st env p items its body acc)
  fBody st env body acc := trans_field (h1.fBody st env body acc) (h2.fBody st env body acc)
  finDict st env post d done := trans_field (h1.finDict st env post d done) (h2.finDict st env post d done)
  call st env f args := trans_field (h1.call st env f args) (h2.call st env f args)
  evSwitch st env v arms := trans_field (h1.evSwitch st env v arms) (h2.evSwitch st env v arms)

/-- all eleven functions, any two fuels `n ≤ m` -/
theorem mono_le {n m : Nat} (h : n ≤ m) : Mono n m := by
  obtain ⟨k, rfl⟩ := Nat.le.dest h
  induction k with
  | zero => exact Mono.refl n
  | succ k ih => exact (ih (Nat.le_add_right _ _)).trans (mono_succ (n + k))

theorem eval_fuel_mono_add (n k st env e) (h : (eval n st env e).1 ≠ .fuelOut) :
    eval (n + k) st env e = eval n st env e := by
  induction k with
  | zero => rfl
  | succ k ih =>
    have : eval (n + k + 1) st env e = eval (n + k) st env e := eval_fuel_mono _ _ _ _ (by rw [ih]; exact h)
    rw [← Nat.add_assoc, this, ih]

/-- the corollary every other statement about `eval` relies on: once `eval` terminates with fuel `n`,
every larger fuel gives the same result and the same final state -/
theorem eval_fuel_mono_le {n m : Nat} (st env e) (hnm : n ≤ m) (h : (eval n st env e).1 ≠ .fuelOut) :
    eval m st env e = eval n st env e := by
  obtain ⟨k, rfl⟩ := Nat.le.dest hnm
  exact eval_fuel_mono_add n k st env e h

theorem callVal_fuel_mono_le {n m : Nat} (st env f args) (hnm : n ≤ m)
    (h : (callVal n st env f args).1 ≠ .fuelOut) : callVal m st env f args = callVal n st env f args := by
  obtain ⟨k, rfl⟩ := Nat.le.dest hnm
  induction k with
  | zero => rfl
  | succ k ih =>
    have ih' := ih (Nat.le_add_right _ _)
    have : callVal (n + k + 1) st env f args = callVal (n + k) st env f args :=
      callVal_fuel_mono _ _ _ _ _ (by rw [ih']; exact h)
    rw [← Nat.add_assoc, this, ih']

/-- two fuels that both suffice give the same answer (result and state) -/
theorem eval_deterministic {n m : Nat} (st env e)
    (hn : (eval n st env e).1 ≠ .fuelOut) (hm : (eval m st env e).1 ≠ .fuelOut) :
    eval n st env e = eval m st env e := by
  rcases Nat.le_total n m with h | h
  · exact (eval_fuel_mono_le st env e h hn).symm
  · exact eval_fuel_mono_le st env e h hm

theorem runProgram_deterministic {n m : Nat} (e : Expr)
    (hn : (runProgram n e).1 ≠ .fuelOut) (hm : (runProgram m e).1 ≠ .fuelOut) :
    runProgram n e = runProgram m e :=
  eval_deterministic _ _ _ hn hm

/-- "terminates" is upward closed in the fuel -/
theorem eval_terminates_mono {n m : Nat} (st env e) (hnm : n ≤ m) (h : (eval n st env e).1 ≠ .fuelOut) :
    (eval m st env e).1 ≠ .fuelOut := by
  rw [eval_fuel_mono_le st env e hnm h]; exact h

/-! ## non-vacuity: a program with a loop, a closure call, a `switch` and a `for … yield` terminates with fuel 40
(so the hypotheses above are satisfiable on non-trivial programs), and does run out with fuel 3 -/

/-- Boolean test used to discharge `≠ .fuelOut` hypotheses by kernel evaluation -/
def isFuelOut : Res → Bool
  | .fuelOut => true
  | _ => false

theorem ne_fuelOut_of {r : Res} (h : isFuelOut r = false) : r ≠ .fuelOut := by
  intro hr; subst hr; exact absurd h (by decide)

def sampleProg : Expr :=
  .seq [
    .declare (.ident "i") (.int 0),
    .declare (.ident "f") (.lambda [.mk "a" none false none] (.op "+" (.ident "a") (.int 1))),
    .while_ (.op "<" (.ident "i") (.int 3)) (.assign "i" (.call (.ident "f") [.ident "i"])),
    .for_ [.iter .normal (.ident "x") (.list [.int 1, .int 2])]
      (.yield (.switch_ (.ident "x") [.mk (.lit 1) (.ident "i"), .mk (.ident "y") (.op "*" (.ident "y") (.ident "i"))])
        none)
  ] false

example : (runProgram 40 sampleProg).1 matches .val (.list [.int 3, .int 6]) := by decide +kernel
example : (runProgram 40 sampleProg).1 ≠ .fuelOut := ne_fuelOut_of (by decide +kernel)
example : (runProgram 3 sampleProg).1 matches .fuelOut := by decide +kernel
/-- hence, by the theorem and without further computation, fuel 1000 gives the same answer -/
example : runProgram 1000 sampleProg = runProgram 40 sampleProg :=
  eval_fuel_mono_le _ _ _ (by decide) (ne_fuelOut_of (by decide +kernel))

end Noulith.C05Fuel
