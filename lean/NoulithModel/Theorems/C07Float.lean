/-
C07, float level — IEEE-754 binary64 as exact mathematics.

1. `F64.ofRatRNE q` (Impl/F64Ieee.lean) is a NEAREST binary64 value to `q` among all finite bit
   patterns (`ofRatRNE_nearest`, discharging `C07.ofRatRNE_nearest_statement`), with ties to the even
   significand, overflow to ±∞ exactly from 2^1024 − 2^970 on, gradual underflow, the sign of `q`.
2. The tower's float level with `F64.ieeeOps` (IEEE `+ - * /` = exact rational result rounded once;
   `%` = the exact truncated remainder; `div_euclid` / `rem_euclid` = the standard library's
   compositions) refines "compute in ℚ, then round": the abstract `FloatOps` theorems of
   Theorems/C07.lean are instantiated, and the float arm of `+ - * / % // %%` is characterised on all
   operands (`tower_float_arm`, `tower_float_rounds`, `tower_float_arm_mod`).
Core Lean only.
-/
import NoulithModel.Theorems.C07

namespace Noulith.C07F
open Noulith F64 NNum TowerSpec

/-! ## 1. powers of two in ℚ -/

theorem two_ne_zero : (2 : Rat) ≠ 0 := by decide

theorem natCast_two_pow (n : Nat) : ((2 ^ n : Nat) : Rat) = (2 : Rat) ^ n := by
  rw [Rat.natCast_pow]; rfl

theorem pow2_eq_zpow (k : Int) : pow2 k = (2 : Rat) ^ k := by
  unfold pow2
  by_cases h : 0 ≤ k
  · rw [if_pos h, natCast_two_pow]
    have : k = (k.toNat : Int) := by omega
    conv => rhs; rw [this]
    rfl
  · rw [if_neg h]
    have : k = -((-k).toNat : Int) := by omega
    conv => rhs; rw [this]
    rw [Rat.zpow_neg, Rat.zpow_natCast, Rat.mkRat_eq_div, natCast_two_pow, Rat.div_def]
    simp [Rat.one_mul]

theorem pow2_pos (k : Int) : 0 < pow2 k := by
  rw [pow2_eq_zpow]; exact Rat.zpow_pos (by decide)

theorem pow2_add (a b : Int) : pow2 (a + b) = pow2 a * pow2 b := by
  simp only [pow2_eq_zpow]; exact Rat.zpow_add two_ne_zero a b

theorem pow2_zero : pow2 0 = 1 := by rw [pow2_eq_zpow]; exact Rat.zpow_zero 2

theorem pow2_one : pow2 1 = 2 := by rw [pow2_eq_zpow]; exact Rat.zpow_one 2

theorem pow2_succ (a : Int) : pow2 (a + 1) = 2 * pow2 a := by
  rw [pow2_add, pow2_one, Rat.mul_comm]

theorem pow2_natCast (n : Nat) : pow2 (n : Int) = ((2 ^ n : Nat) : Rat) := by
  rw [pow2_eq_zpow, natCast_two_pow]; rfl

theorem pow2_mul_neg (a : Int) : pow2 a * pow2 (-a) = 1 := by
  rw [← pow2_add, Int.add_right_neg, pow2_zero]

theorem pow2_le_of_le {a b : Int} (h : a ≤ b) : pow2 a ≤ pow2 b := by
  have hb : b = a + ((b - a).toNat : Int) := by omega
  rw [hb, pow2_add, pow2_natCast]
  have h1 : (1 : Rat) ≤ ((2 ^ (b - a).toNat : Nat) : Rat) := by
    have : 1 ≤ 2 ^ (b - a).toNat := Nat.one_le_two_pow
    exact_mod_cast this
  have hp := pow2_pos a
  have := Rat.mul_le_mul_of_nonneg_left h1 (Rat.le_of_lt hp)
  rw [Rat.mul_one] at this
  exact this

theorem pow2_lt_of_lt {a b : Int} (h : a < b) : pow2 a < pow2 b := by
  have h1 : pow2 (a + 1) ≤ pow2 b := pow2_le_of_le (by omega)
  rw [pow2_succ] at h1
  have hp := pow2_pos a
  grind


/-! ## 2. the binary exponent of a positive rational -/

theorem rat_mul_den (a : Rat) : a * ((a.den : Nat) : Rat) = (a.num : Rat) := by
  have h := C07.rat_eq_num_div_den a
  have hd := C07.den_cast_ne_zero a
  have e : ((a.den : Int) : Rat) = ((a.den : Nat) : Rat) := rfl
  rw [e] at h hd
  have h2 : a * ((a.den : Nat) : Rat) = (a.num : Rat) / ((a.den : Nat) : Rat) * ((a.den : Nat) : Rat) := by
    rw [← h]
  exact h2.trans (Rat.div_mul_cancel hd)

theorem expOf_bracket (a : Rat) (ha : 0 < a) :
    pow2 (expOf a) ≤ a ∧ a < pow2 (expOf a + 1) := by
  have hnum : 0 < a.num := by
    have := Rat.num_nonneg.mpr (Rat.le_of_lt ha)
    have h0 : a.num ≠ 0 := fun h => Rat.ne_of_gt ha (Rat.num_eq_zero.mp h)
    omega
  have hn0 : a.num.toNat ≠ 0 := by omega
  have hd0 : a.den ≠ 0 := a.den_nz
  have n1 := Nat.log2_self_le hn0
  have n2 := @Nat.lt_log2_self a.num.toNat
  have d1 := Nat.log2_self_le hd0
  have d2 := @Nat.lt_log2_self a.den
  generalize hln : a.num.toNat.log2 = ln at *
  generalize hld : a.den.log2 = ld at *
  have hmul := rat_mul_den a
  have hnumcast : (a.num : Rat) = ((a.num.toNat : Nat) : Rat) := by
    have : a.num = (a.num.toNat : Int) := by omega
    conv => lhs; rw [this]
    rfl
  rw [hnumcast] at hmul
  -- casts of the four Nat inequalities
  have n1' : ((2 ^ ln : Nat) : Rat) ≤ ((a.num.toNat : Nat) : Rat) := Rat.natCast_le_natCast.mpr n1
  have n2' : ((a.num.toNat : Nat) : Rat) < ((2 ^ (ln + 1) : Nat) : Rat) := Rat.natCast_lt_natCast.mpr n2
  have d1' : ((2 ^ ld : Nat) : Rat) ≤ ((a.den : Nat) : Rat) := Rat.natCast_le_natCast.mpr d1
  have d2' : ((a.den : Nat) : Rat) < ((2 ^ (ld + 1) : Nat) : Rat) := Rat.natCast_lt_natCast.mpr d2
  rw [← pow2_natCast] at n1' n2' d1' d2'
  -- upper: a < pow2 (ln + 1 - ld)
  have up : a < pow2 ((ln : Int) - (ld : Int) + 1) := by
    have h1 : a * pow2 (ld : Int) ≤ a * ((a.den : Nat) : Rat) :=
      Rat.mul_le_mul_of_nonneg_left d1' (Rat.le_of_lt ha)
    have h2 : a * pow2 (ld : Int) < pow2 ((ln + 1 : Nat) : Int) := by grind
    have h3 := Rat.mul_lt_mul_of_pos_right h2 (pow2_pos (-(ld : Int)))
    rw [Rat.mul_assoc, pow2_mul_neg, Rat.mul_one, ← pow2_add] at h3
    have : ((ln + 1 : Nat) : Int) + -(ld : Int) = (ln : Int) - (ld : Int) + 1 := by omega
    rw [this] at h3; exact h3
  have lo : pow2 ((ln : Int) - (ld : Int) - 1) < a := by
    have h1 : a * ((a.den : Nat) : Rat) < a * pow2 ((ld + 1 : Nat) : Int) :=
      Rat.mul_lt_mul_of_pos_left d2' ha
    have h2 : pow2 (ln : Int) < a * pow2 ((ld + 1 : Nat) : Int) := by grind
    have h3 := Rat.mul_lt_mul_of_pos_right h2 (pow2_pos (-((ld + 1 : Nat) : Int)))
    rw [Rat.mul_assoc, pow2_mul_neg, Rat.mul_one, ← pow2_add] at h3
    have : (ln : Int) + -((ld + 1 : Nat) : Int) = (ln : Int) - (ld : Int) - 1 := by omega
    rw [this] at h3; exact h3
  unfold expOf
  simp only [hln, hld]
  split
  · rename_i h; exact ⟨h, up⟩
  · rename_i h
    refine ⟨Rat.le_of_lt lo, ?_⟩
    have : (ln : Int) - (ld : Int) - 1 + 1 = (ln : Int) - (ld : Int) := by omega
    rw [this]; exact Rat.not_le.mp h


/-! ## 3. rounding to the nearest integer, ties to even -/

theorem abs_def (x : Rat) : x.abs = if 0 ≤ x then x else -x := rfl

theorem floor_bounds (x : Rat) : (x.floor : Rat) ≤ x ∧ x < (x.floor : Rat) + 1 := by
  have h := Rat.lt_floor_add_one x
  rw [Rat.intCast_add] at h
  exact ⟨Rat.floor_le x, h⟩

theorem rhe_cases (x : Rat) :
    (roundHalfEven x = x.floor ∧ x - (x.floor : Rat) ≤ 1 / 2) ∨
    (roundHalfEven x = x.floor + 1 ∧ 1 / 2 ≤ x - (x.floor : Rat)) := by
  unfold roundHalfEven
  simp only
  split
  · right; exact ⟨rfl, by grind⟩
  · split
    · left; exact ⟨rfl, by grind⟩
    · split
      · left; exact ⟨rfl, by grind⟩
      · right; exact ⟨rfl, by grind⟩

theorem int_le_or_succ_le (k f : Int) : (k : Rat) ≤ (f : Rat) ∨ (f : Rat) + 1 ≤ (k : Rat) := by
  by_cases h : k ≤ f
  · left; exact Rat.intCast_le_intCast.mpr h
  · right
    have : f + 1 ≤ k := by omega
    have := Rat.intCast_le_intCast.mpr this
    rw [Rat.intCast_add] at this; exact this

/-- the rounded value is a nearest integer -/
theorem rhe_nearest (x : Rat) (k : Int) :
    (x - (roundHalfEven x : Rat)).abs ≤ (x - (k : Rat)).abs := by
  have ⟨h1, h2⟩ := floor_bounds x
  have hk := int_le_or_succ_le k x.floor
  simp only [abs_def]
  rcases rhe_cases x with ⟨hm, hr⟩ | ⟨hm, hr⟩ <;> rw [hm]
  · split <;> split <;> grind
  · rw [Rat.intCast_add]; split <;> split <;> grind

theorem rhe_half (x : Rat) : (x - (roundHalfEven x : Rat)).abs ≤ 1 / 2 := by
  have ⟨h1, h2⟩ := floor_bounds x
  simp only [abs_def]
  rcases rhe_cases x with ⟨hm, hr⟩ | ⟨hm, hr⟩ <;> rw [hm]
  · split <;> grind
  · rw [Rat.intCast_add]; split <;> grind

/-- rounding stays between integer bounds of the argument -/
theorem rhe_bounds (x : Rat) (lo hi : Int) (h1 : (lo : Rat) ≤ x) (h2 : x ≤ (hi : Rat)) :
    lo ≤ roundHalfEven x ∧ roundHalfEven x ≤ hi := by
  have ⟨f1, f2⟩ := floor_bounds x
  have hlo : lo ≤ x.floor := Rat.le_floor_iff.mpr h1
  rcases rhe_cases x with ⟨hm, hr⟩ | ⟨hm, hr⟩ <;> rw [hm]
  · refine ⟨hlo, ?_⟩
    have : (x.floor : Rat) ≤ (hi : Rat) := by grind
    exact Rat.intCast_le_intCast.mp this
  · refine ⟨by omega, ?_⟩
    have : (x.floor : Rat) < (hi : Rat) := by grind
    have := Rat.intCast_lt_intCast.mp this
    omega

/-- ties go to the even integer -/
theorem rhe_tie_even (x : Rat) (h : x - (x.floor : Rat) = 1 / 2) : roundHalfEven x % 2 = 0 := by
  unfold roundHalfEven
  simp only
  rw [h]
  simp only [Rat.lt_irrefl, if_false]
  split <;> omega

/-- an integer is rounded to itself -/
theorem rhe_intCast (k : Int) : roundHalfEven (k : Rat) = k := by
  have h := rhe_half (k : Rat)
  have hn := rhe_nearest (k : Rat) k
  simp only [abs_def] at hn
  have : ((k : Rat) - (roundHalfEven (k : Rat) : Rat)) = 0 := by
    split at hn <;> grind
  have h2 : ((roundHalfEven (k : Rat) : Int) : Rat) = (k : Rat) := by grind
  exact Rat.intCast_inj.mp h2



/-! ## 4. decoding bit patterns -/

theorem pow2_neg_eq_inv (a : Int) : pow2 (-a) = (pow2 a)⁻¹ := by
  have h := pow2_mul_neg a
  exact (Rat.inv_eq_of_mul_eq_one h).symm

/-- a significand and a biased exponent denote `sig · 2^(ex − 1075)` -/
theorem magValue_eq (sig ex : Nat) : magValue sig ex = (sig : Rat) * pow2 ((ex : Int) - 1075) := by
  unfold magValue
  split
  · rename_i h
    rw [Rat.natCast_mul, ← pow2_natCast]
    congr 2; omega
  · rename_i h
    have e : (ex : Int) - 1075 = -((1075 - ex : Nat) : Int) := by omega
    rw [Rat.mkRat_eq_div, e, pow2_neg_eq_inv, pow2_natCast, Rat.div_def]
    rfl


/-- every finite bit pattern denotes `± sig · 2^(ex − 1075)` with a 53-bit `sig` and `1 ≤ ex ≤ 2046` -/
theorem viewBits_fin (b : Nat) (q : Rat) (h : viewBits b = .fin q) :
    ∃ (sig ex : Nat) (neg : Bool), sig < 2 ^ 53 ∧ 1 ≤ ex ∧ ex ≤ 2046 ∧
      q = (if neg then -1 else 1) * ((sig : Rat) * pow2 ((ex : Int) - 1075)) := by
  unfold viewBits at h
  simp only at h
  split at h
  · split at h <;> simp at h
  · rename_i he
    injection h with h
    refine ⟨if b / 2 ^ 52 % 2048 = 0 then b % 2 ^ 52 else 2 ^ 52 + b % 2 ^ 52,
      if b / 2 ^ 52 % 2048 = 0 then 1 else b / 2 ^ 52 % 2048, decide (b / 2 ^ 63 % 2 = 1), ?_, ?_, ?_, ?_⟩
    · split <;> omega
    · split <;> omega
    · split <;> omega
    · rw [← h, magValue_eq]
      by_cases hs : b / 2 ^ 63 % 2 = 1
      · simp only [hs, if_true, decide_true]; grind
      · simp only [hs, if_false, decide_false]; grind


/-- decoding the magnitude bits `(ex + 1022)·2^52 + m` the encoder produces (with or without the
sign bit): the value is `± m · 2^(ex − 52)`, whether `m` is a subnormal significand (`m < 2^52`,
`ex = -1022`), a normal one, or the carry `m = 2^53` into the next binade -/
theorem viewBits_encode (neg : Bool) (ex m : Int) (hex : -1022 ≤ ex) (hm0 : 0 ≤ m)
    (hm1 : m ≤ 2 ^ 53) (hnorm : 2 ^ 52 ≤ m ∨ ex = -1022)
    (hlt : (ex + 1022) * 2 ^ 52 + m < 0x7FF0000000000000) :
    viewBits ((if neg then 2 ^ 63 else 0) + ((ex + 1022) * 2 ^ 52 + m).toNat) =
      .fin ((if neg then -1 else 1) * ((m : Rat) * pow2 (ex - 52))) := by
  generalize hB : ((ex + 1022) * 2 ^ 52 + m).toNat = B
  have hBv : (B : Int) = (ex + 1022) * 2 ^ 52 + m := by omega
  generalize hb : (if neg then 2 ^ 63 else 0) + B = b
  have hs : b / 2 ^ 63 % 2 = if neg then 1 else 0 := by cases neg <;> simp at hb ⊢ <;> omega
  have hmant : b % 2 ^ 52 = B % 2 ^ 52 := by cases neg <;> simp at hb <;> omega
  have hexp : b / 2 ^ 52 % 2048 = B / 2 ^ 52 := by cases neg <;> simp at hb <;> omega
  have hne : B / 2 ^ 52 ≠ 2047 := by omega
  unfold viewBits
  simp only [hs, hmant, hexp, if_neg hne]
  -- the magnitude
  have key : magValue (if B / 2 ^ 52 = 0 then B % 2 ^ 52 else 2 ^ 52 + B % 2 ^ 52)
      (if B / 2 ^ 52 = 0 then 1 else B / 2 ^ 52) = (m : Rat) * pow2 (ex - 52) := by
    rw [magValue_eq]
    by_cases h1 : m < 2 ^ 52
    · -- subnormal
      have hex' : ex = -1022 := by omega
      have e0 : B / 2 ^ 52 = 0 := by omega
      have em : ((B % 2 ^ 52 : Nat) : Int) = m := by omega
      simp only [e0, if_true]
      have : ((B % 2 ^ 52 : Nat) : Rat) = (m : Rat) := by
        rw [← em]; rfl
      rw [this, hex']; rfl
    · by_cases h2 : m < 2 ^ 53
      · have e0 : ((B / 2 ^ 52 : Nat) : Int) = ex + 1023 := by omega
        have e0' : B / 2 ^ 52 ≠ 0 := by omega
        have em : ((2 ^ 52 + B % 2 ^ 52 : Nat) : Int) = m := by omega
        simp only [e0', if_false]
        have : ((2 ^ 52 + B % 2 ^ 52 : Nat) : Rat) = (m : Rat) := by
          rw [← em]; rfl
        rw [this, e0]
        congr 2; omega
      · have hm : m = 2 ^ 53 := by omega
        have e0 : ((B / 2 ^ 52 : Nat) : Int) = ex + 1024 := by omega
        have e0' : B / 2 ^ 52 ≠ 0 := by omega
        have em : B % 2 ^ 52 = 0 := by omega
        simp only [e0', if_false, em, Nat.add_zero, e0, hm]
        have : (ex + 1024 - 1075 : Int) = (ex - 52) + 1 := by omega
        rw [this, pow2_succ]
        have c1 : ((2 ^ 52 : Nat) : Rat) = 4503599627370496 := by decide +kernel
        have c2 : (((2 : Int) ^ 53 : Int) : Rat) = 9007199254740992 := by decide +kernel
        rw [c1, c2]
        grind
  rw [key]
  cases neg <;> simp <;> grind


/-! ## 5. the encoder: exponent, significand, magnitude bits -/

theorem div_pow2 (a : Rat) (k : Int) : a / pow2 k = a * pow2 (-k) := by
  rw [Rat.div_def, pow2_neg_eq_inv]

theorem clampExp_ge (e : Int) : -1022 ≤ clampExp e := by unfold clampExp; split <;> omega

theorem pow2_52 : pow2 52 = 4503599627370496 := by decide +kernel
theorem pow2_53 : pow2 53 = 9007199254740992 := by decide +kernel

/-- the scaled argument `x = a · 2^(52 − ex)` of the significand rounding lies in `[2^52, 2^53)` for a
normal result and in `(0, 2^52)` for a subnormal one -/
theorem scaled_range (a : Rat) (ha : 0 < a) :
    let ex := clampExp (expOf a)
    let x := a * pow2 (52 - ex)
    0 < x ∧ x < 9007199254740992 ∧ ((4503599627370496 : Rat) ≤ x ∨ (ex = -1022 ∧ x < 4503599627370496)) := by
  intro ex x
  have ⟨b1, b2⟩ := expOf_bracket a ha
  have hw := pow2_pos (52 - ex)
  have hx0 : 0 < x := Rat.mul_pos ha hw
  by_cases he : expOf a < -1022
  · have hex : ex = -1022 := by simp [ex, clampExp, he]
    have h1 : pow2 (expOf a + 1) ≤ pow2 (-1022) := pow2_le_of_le (by omega)
    have h2 : a < pow2 (-1022) := by grind
    have h3 := Rat.mul_lt_mul_of_pos_right h2 hw
    rw [← pow2_add, hex] at h3
    have : (-1022 : Int) + (52 - -1022) = 52 := by omega
    rw [this, pow2_52] at h3
    have hx : x < 4503599627370496 := by simpa [x, hex] using h3
    exact ⟨hx0, by grind, Or.inr ⟨hex, hx⟩⟩
  · have hex : ex = expOf a := by simp [ex, clampExp, he]
    have h3 := Rat.mul_le_mul_of_nonneg_right b1 (Rat.le_of_lt hw)
    have h4 := Rat.mul_lt_mul_of_pos_right b2 hw
    rw [← pow2_add, hex] at h3 h4
    have e1 : expOf a + (52 - expOf a) = 52 := by omega
    have e2 : expOf a + 1 + (52 - expOf a) = 53 := by omega
    rw [e1, pow2_52] at h3
    rw [e2, pow2_53] at h4
    have hx1 : (4503599627370496 : Rat) ≤ x := by simpa [x, hex] using h3
    have hx2 : x < 9007199254740992 := by simpa [x, hex] using h4
    exact ⟨hx0, hx2, Or.inl hx1⟩

/-- the rounded significand is in range: `≤ 2^53`, and `≥ 2^52` unless the result is subnormal -/
theorem signif_range (a : Rat) (ha : 0 < a) :
    let ex := clampExp (expOf a)
    let m := roundHalfEven (a * pow2 (52 - ex))
    0 ≤ m ∧ m ≤ 2 ^ 53 ∧ (2 ^ 52 ≤ m ∨ ex = -1022) := by
  intro ex m
  have ⟨h0, h1, h2⟩ := scaled_range a ha
  have hb0 := rhe_bounds (a * pow2 (52 - ex)) 0 (2 ^ 53)
    (by have : ((0 : Int) : Rat) = 0 := rfl
        rw [this]; exact Rat.le_of_lt h0)
    (by have : (((2 : Int) ^ 53 : Int) : Rat) = 9007199254740992 := by decide +kernel
        rw [this]; exact Rat.le_of_lt h1)
  refine ⟨hb0.1, hb0.2, ?_⟩
  rcases h2 with h2 | h2
  · left
    have := rhe_bounds (a * pow2 (52 - ex)) (2 ^ 52) (2 ^ 53)
      (by have : (((2 : Int) ^ 52 : Int) : Rat) = 4503599627370496 := by decide +kernel
          rw [this]; exact h2)
      (by have : (((2 : Int) ^ 53 : Int) : Rat) = 9007199254740992 := by decide +kernel
          rw [this]; exact Rat.le_of_lt h1)
    exact this.1
  · right; exact h2.1

theorem magRNE_eq (a : Rat) :
    magRNE a =
      (let ex := clampExp (expOf a)
       let m := roundHalfEven (a * pow2 (52 - ex))
       if 0x7FF0000000000000 ≤ (ex + 1022) * 2 ^ 52 + m then 0x7FF0000000000000
       else ((ex + 1022) * 2 ^ 52 + m).toNat) := by
  unfold magRNE
  simp only [div_pow2]
  have : ∀ ex : Int, -(ex - 52) = 52 - ex := by intro ex; omega
  simp only [this]


/-! ## 6. `ofRatRNE` is a nearest binary64 -/

theorem abs_mul_pos (c u : Rat) (hu : 0 < u) : (c * u).abs = c.abs * u := by
  simp only [abs_def]
  by_cases hc : 0 ≤ c
  · have : 0 ≤ c * u := Rat.mul_nonneg hc (Rat.le_of_lt hu)
    simp [hc, this]
  · have hc' : c < 0 := Rat.not_le.mp hc
    have : c * u < 0 := by
      have := Rat.mul_lt_mul_of_pos_right hc' hu
      rw [Rat.zero_mul] at this; exact this
    have h2 : ¬ 0 ≤ c * u := Rat.not_le.mpr this
    simp [hc, h2, Rat.neg_mul]

/-- sign bookkeeping, integer case: if `m` is at least as close to `x` as `K` and `-K` are, then
`σ m` is at least as close to `σ x` as `σb K`, for signs `σ, σb = ±1` -/
theorem near_int (x m K σ σb : Rat) (hσ : σ = 1 ∨ σ = -1) (hσb : σb = 1 ∨ σb = -1)
    (n1 : (x - m).abs ≤ (x - K).abs) (n2 : (x - m).abs ≤ (x - -K).abs) :
    (σ * (x - m)).abs ≤ (σ * x - σb * K).abs := by
  simp only [abs_def] at n1 n2 ⊢
  rcases hσ with rfl | rfl <;> rcases hσb with rfl | rfl <;>
    (repeat' split at n1) <;> (repeat' split at n2) <;> (repeat' split) <;> grind

/-- sign bookkeeping, small case: a value `t` below `B ≤ x` is farther from `x` than `m` if `m` is
at least as close to `x` as `B` -/
theorem near_small (x m t B σ σb : Rat) (hσ : σ = 1 ∨ σ = -1) (hσb : σb = 1 ∨ σb = -1)
    (hB : B ≤ x) (ht0 : 0 ≤ t) (ht1 : t < B) (n1 : (x - m).abs ≤ (x - B).abs) :
    (σ * (x - m)).abs ≤ (σ * x - σb * t).abs := by
  simp only [abs_def] at n1 ⊢
  rcases hσ with rfl | rfl <;> rcases hσb with rfl | rfl <;>
    (repeat' split at n1) <;> (repeat' split) <;> grind

/-- the value the encoder's magnitude bits decode to, and its distance property, for `a > 0`:
either the result is the overflow pattern, or it decodes to `m · 2^(ex−52)` -/
theorem magRNE_decode (neg : Bool) (a : Rat) (ha : 0 < a)
    (hfin : magRNE a ≠ 0x7FF0000000000000) :
    viewBits ((if neg then 2 ^ 63 else 0) + magRNE a) =
      .fin ((if neg then -1 else 1) *
        ((roundHalfEven (a * pow2 (52 - clampExp (expOf a))) : Rat) * pow2 (clampExp (expOf a) - 52))) := by
  have ⟨m0, m1, mn⟩ := signif_range a ha
  rw [magRNE_eq] at hfin ⊢
  simp only at hfin ⊢ m0 m1 mn
  split at hfin
  · exact absurd rfl hfin
  · rename_i hlt
    rw [if_neg hlt]
    exact viewBits_encode neg _ _ (clampExp_ge _) m0 m1 mn (by omega)

/-- The anatomy of one rounding, relative to any other finite float `qb`: with `u = 2^(ex−52)` the
unit in the last place of the result's binade, `a = x·u`, the result is `σ·m·u` with
`m = roundHalfEven x`, and `qb = σb·t·u` where `t` is an integer, or `0 ≤ t < 2^52 ≤ x` -/
theorem enc_analysis (neg : Bool) (a : Rat) (ha : 0 < a) (hfin : magRNE a ≠ 0x7FF0000000000000)
    (b : Nat) (qb : Rat) (hb : viewBits b = .fin qb) :
    ∃ (ex : Int) (x t σb : Rat),
      0 < pow2 (ex - 52) ∧ (σb = 1 ∨ σb = -1) ∧ a = x * pow2 (ex - 52) ∧ 0 ≤ roundHalfEven x ∧
      magRNE a = ((ex + 1022) * 2 ^ 52 + roundHalfEven x).toNat ∧
      viewBits ((if neg then 2 ^ 63 else 0) + magRNE a) =
        .fin ((if neg then -1 else 1) * ((roundHalfEven x : Rat) * pow2 (ex - 52))) ∧
      qb = σb * t * pow2 (ex - 52) ∧
      ((∃ K : Int, (K : Rat) = t) ∨ (0 ≤ t ∧ t < 4503599627370496 ∧ (4503599627370496 : Rat) ≤ x)) := by
  have hdec := magRNE_decode neg a ha hfin
  obtain ⟨sig, exb, nb, hsig, hexb1, hexb2, hqb⟩ := viewBits_fin b qb hb
  have ⟨x0, x1, xn⟩ := scaled_range a ha
  have ⟨m0, _, _⟩ := signif_range a ha
  have hmag := magRNE_eq a
  simp only at hmag
  generalize hex : clampExp (expOf a) = ex at *
  have hexge : -1022 ≤ ex := hex ▸ clampExp_ge _
  generalize hx : a * pow2 (52 - ex) = x at *
  have hu := pow2_pos (ex - 52)
  have ha' : a = x * pow2 (ex - 52) := by
    rw [← hx, Rat.mul_assoc, ← pow2_add]
    have : (52 - ex) + (ex - 52) = 0 := by omega
    rw [this, pow2_zero, Rat.mul_one]
  have hmag' : magRNE a = ((ex + 1022) * 2 ^ 52 + roundHalfEven x).toNat := by
    rw [hmag]; split
    · rename_i h; rw [hmag, if_pos h] at hfin; exact absurd rfl hfin
    · rfl
  have hsplit : pow2 ((exb : Int) - 1075) = pow2 ((exb : Int) - 1023 - ex) * pow2 (ex - 52) := by
    rw [← pow2_add]; congr 1; omega
  refine ⟨ex, x, (sig : Rat) * pow2 ((exb : Int) - 1023 - ex), if nb then -1 else 1,
    hu, by cases nb <;> simp, ha', m0, hmag', hdec, by rw [hqb, hsplit]; grind, ?_⟩
  by_cases hcase : 0 ≤ (exb : Int) - 1023 - ex
  · left
    refine ⟨(sig * 2 ^ ((exb : Int) - 1023 - ex).toNat : Nat), ?_⟩
    have : (exb : Int) - 1023 - ex = (((exb : Int) - 1023 - ex).toNat : Int) := by omega
    rw [this, pow2_natCast, Int.toNat_natCast]
    rw [show (((sig * 2 ^ ((exb : Int) - 1023 - ex).toNat : Nat) : Int) : Rat)
        = ((sig * 2 ^ ((exb : Int) - 1023 - ex).toNat : Nat) : Rat) from rfl, Rat.natCast_mul]
  · right
    have hneg : (exb : Int) - 1023 - ex ≤ -1 := by omega
    have hexn : ex ≠ -1022 := by omega
    have hx52 : (4503599627370496 : Rat) ≤ x := by
      rcases xn with h | h
      · exact h
      · exact absurd h.1 hexn
    have hs0 : (0 : Rat) ≤ (sig : Rat) := Rat.natCast_nonneg
    refine ⟨Rat.mul_nonneg hs0 (Rat.le_of_lt (pow2_pos _)), ?_, hx52⟩
    have hp : pow2 ((exb : Int) - 1023 - ex) ≤ pow2 (-1) := pow2_le_of_le hneg
    have hhalf : pow2 (-1) = 1 / 2 := by decide +kernel
    have hs : (sig : Rat) < 9007199254740992 := by
      have : ((sig : Nat) : Rat) < ((2 ^ 53 : Nat) : Rat) := Rat.natCast_lt_natCast.mpr hsig
      have c : ((2 ^ 53 : Nat) : Rat) = 9007199254740992 := by decide +kernel
      rw [c] at this; exact this
    have h1 := Rat.mul_le_mul_of_nonneg_left hp hs0
    rw [hhalf] at h1
    grind

theorem overflow_not_fin (neg : Bool) (q' : Rat) :
    viewBits ((if neg then 2 ^ 63 else 0) + 0x7FF0000000000000) ≠ .fin q' := by
  intro h
  cases neg <;> simp at h
  · have := C07.viewBits_inf.1; rw [this] at h; cases h
  · have := C07.viewBits_inf.2.1; rw [this] at h; cases h

theorem c52 : (((2 : Int) ^ 52 : Int) : Rat) = 4503599627370496 := by decide +kernel

theorem nearest_pos (neg : Bool) (a : Rat) (ha : 0 < a) (q' : Rat)
    (h : viewBits ((if neg then 2 ^ 63 else 0) + magRNE a) = .fin q') (b : Nat) (qb : Rat)
    (hb : viewBits b = .fin qb) :
    ((if neg then -1 else 1) * a - q').abs ≤ ((if neg then -1 else 1) * a - qb).abs := by
  have hfin : magRNE a ≠ 0x7FF0000000000000 := by
    intro hov; rw [hov] at h; exact overflow_not_fin neg q' h
  obtain ⟨ex, x, t, σb, hu, hσb', ha', _, _, hdec, hqb, hcase⟩ := enc_analysis neg a ha hfin b qb hb
  rw [hdec] at h
  injection h with h
  generalize hσ : (if neg then (-1 : Rat) else 1) = σ at *
  have hσ' : σ = 1 ∨ σ = -1 := by cases neg <;> simp at hσ <;> simp [← hσ]
  generalize hm : roundHalfEven x = m at *
  have e1 : σ * a - q' = (σ * (x - (m : Rat))) * pow2 (ex - 52) := by
    rw [← h, ha']; grind
  have e2 : σ * a - qb = (σ * x - σb * t) * pow2 (ex - 52) := by
    rw [hqb, ha']; grind
  rw [e1, e2, abs_mul_pos _ _ hu, abs_mul_pos _ _ hu]
  apply Rat.mul_le_mul_of_nonneg_right _ (Rat.le_of_lt hu)
  rcases hcase with ⟨K, hK⟩ | ⟨ht0, ht1, hx52⟩
  · have n1 := rhe_nearest x K
    have n2 := rhe_nearest x (-K)
    rw [Rat.intCast_neg] at n2
    rw [hm, hK] at n1 n2
    exact near_int x m t σ σb hσ' hσb' n1 n2
  · have n1 := rhe_nearest x (2 ^ 52)
    rw [hm, c52] at n1
    exact near_small x m t _ σ σb hσ' hσb' hx52 ht0 ht1 n1

/-- **nearest**: whenever `ofRatRNE q` is finite, no finite binary64 value (no bit pattern at all,
of any width) is closer to `q` than it is -/
theorem ofRatRNE_nearest_any (q q' : Rat) (h : viewBits (ofRatRNE q) = .fin q') (b : Nat) (qb : Rat)
    (hb : viewBits b = .fin qb) : (q - q').abs ≤ (q - qb).abs := by
  unfold ofRatRNE at h
  by_cases h0 : q = 0
  · subst h0
    rw [if_pos rfl, C07.viewBits_zeros.1] at h
    injection h with h
    subst h
    simp only [abs_def]; (repeat' split) <;> grind
  · rw [if_neg h0] at h
    by_cases hn : q < 0
    · rw [if_pos hn] at h
      have ha : 0 < -q := by grind
      have := nearest_pos true (-q) ha q' (by simpa using h) b qb hb
      have e : (-1 : Rat) * -q = q := by grind
      simp only [if_true] at this
      rw [e] at this
      exact this
    · rw [if_neg hn] at h
      have ha : 0 < q := by grind
      have := nearest_pos false q ha q' (by simpa using h) b qb hb
      simpa [Rat.one_mul] using this



/-- the statement kept unproved in Theorems/C07.lean until now -/
theorem ofRatRNE_nearest : C07.ofRatRNE_nearest_statement :=
  fun q q' h b qb _ hb => ofRatRNE_nearest_any q q' h b qb hb

/-! ## 7. ties to even, sign, overflow threshold, exactness on representable values -/

theorem magRNE_le (a : Rat) : magRNE a ≤ 0x7FF0000000000000 := by
  rw [magRNE_eq]; simp only; split <;> omega

/-- the sign bit of the result is the sign of the argument (`-0` is never produced from a rational) -/
theorem ofRatRNE_sign (q : Rat) : signBit (ofRatRNE q) = decide (q < 0) := by
  unfold ofRatRNE signBit
  by_cases h0 : q = 0
  · subst h0; simp
  · rw [if_neg h0]
    by_cases hn : q < 0
    · have := magRNE_le (-q)
      simp [hn]; omega
    · have := magRNE_le q
      simp [hn]; omega

/-- two different integers at the same distance from `x`: `x` is half-way and both are adjacent -/
theorem tie_is_half (x : Rat) (m K : Int) (hne : K ≠ m)
    (hm : (x - (m : Rat)).abs ≤ 1 / 2) (heq : (x - (K : Rat)).abs = (x - (m : Rat)).abs) :
    x - (x.floor : Rat) = 1 / 2 := by
  have ⟨f1, f2⟩ := floor_bounds x
  -- |m - K| ≤ 1, so they are adjacent and x is their midpoint
  have hKm : (K : Rat) ≠ (m : Rat) := fun h => hne (Rat.intCast_inj.mp h)
  simp only [abs_def] at hm heq
  have hmid : x = ((m : Rat) + (K : Rat)) / 2 := by
    (repeat' split at heq) <;> (repeat' split at hm) <;> grind
  have hd : (K : Rat) - (m : Rat) = 1 ∨ (K : Rat) - (m : Rat) = -1 := by
    have h1 : ((K - m : Int) : Rat) = (K : Rat) - (m : Rat) := Rat.intCast_sub K m
    have hle : ((K : Rat) - (m : Rat)) ≤ 1 ∧ -1 ≤ ((K : Rat) - (m : Rat)) := by
      (repeat' split at hm) <;> constructor <;> grind
    rw [← h1] at hle
    have c1 : ((1 : Int) : Rat) = 1 := rfl
    have cm1 : ((-1 : Int) : Rat) = -1 := rfl
    have a1 : K - m ≤ 1 := Rat.intCast_le_intCast.mp (by rw [c1]; exact hle.1)
    have a2 : -1 ≤ K - m := Rat.intCast_le_intCast.mp (by rw [cm1]; exact hle.2)
    have a3 : K - m ≠ 0 := by omega
    have : K - m = 1 ∨ K - m = -1 := by omega
    rcases this with h | h
    · left; rw [← h1, h]; rfl
    · right; rw [← h1, h]; rfl
  -- the floor is the smaller of the two
  rcases hd with hd | hd
  · have hfl : x.floor = m := by
      apply Int.le_antisymm
      · have : (x.floor : Rat) < (m : Rat) + 1 := by grind
        have h2 : ((m + 1 : Int) : Rat) = (m : Rat) + 1 := Rat.intCast_add m 1
        rw [← h2] at this
        have := Rat.intCast_lt_intCast.mp this; omega
      · exact Rat.le_floor_iff.mpr (by grind)
    rw [hfl]; grind
  · have hfl : x.floor = K := by
      apply Int.le_antisymm
      · have : (x.floor : Rat) < (K : Rat) + 1 := by grind
        have h2 : ((K + 1 : Int) : Rat) = (K : Rat) + 1 := Rat.intCast_add K 1
        rw [← h2] at this
        have := Rat.intCast_lt_intCast.mp this; omega
      · exact Rat.le_floor_iff.mpr (by grind)
    rw [hfl]; grind


theorem ties_pos (neg : Bool) (a : Rat) (ha : 0 < a) (q' : Rat)
    (h : viewBits ((if neg then 2 ^ 63 else 0) + magRNE a) = .fin q') (b : Nat) (qb : Rat)
    (hb : viewBits b = .fin qb) (hne : qb ≠ q')
    (htie : ((if neg then -1 else 1) * a - qb).abs = ((if neg then -1 else 1) * a - q').abs) :
    magRNE a % 2 = 0 := by
  have hfin : magRNE a ≠ 0x7FF0000000000000 := by
    intro hov; rw [hov] at h; exact overflow_not_fin neg q' h
  obtain ⟨ex, x, t, σb, hu, hσb', ha', m0, hmag, hdec, hqb, hcase⟩ := enc_analysis neg a ha hfin b qb hb
  rw [hdec] at h
  injection h with h
  generalize hσ : (if neg then (-1 : Rat) else 1) = σ at *
  have hσ' : σ = 1 ∨ σ = -1 := by cases neg <;> simp at hσ <;> simp [← hσ]
  generalize hm : roundHalfEven x = m at *
  have e1 : σ * a - q' = (σ * (x - (m : Rat))) * pow2 (ex - 52) := by
    rw [← h, ha']; grind
  have e2 : σ * a - qb = (σ * x - σb * t) * pow2 (ex - 52) := by
    rw [hqb, ha']; grind
  rw [e1, e2, abs_mul_pos _ _ hu, abs_mul_pos _ _ hu] at htie
  have hune := Rat.ne_of_gt hu
  have htie' : (σ * x - σb * t).abs = (σ * (x - (m : Rat))).abs := by
    have := congrArg (· * (pow2 (ex - 52))⁻¹) htie
    simp only [Rat.mul_assoc, Rat.mul_inv_cancel _ hune, Rat.mul_one] at this
    exact this
  have hhalf := rhe_half x
  rw [hm] at hhalf
  rcases hcase with ⟨K, hK⟩ | ⟨ht0, ht1, hx52⟩
  · -- the other float is the integer σ σb K in units of u
    have hK' : ∃ K' : Int, (K' : Rat) = σ * σb * t := by
      rcases hσ' with rfl | rfl <;> rcases hσb' with rfl | rfl
      · exact ⟨K, by rw [hK]; grind⟩
      · exact ⟨-K, by rw [Rat.intCast_neg, hK]; grind⟩
      · exact ⟨-K, by rw [Rat.intCast_neg, hK]; grind⟩
      · exact ⟨K, by rw [hK]; grind⟩
    obtain ⟨K', hK'⟩ := hK'
    have hKne : K' ≠ m := by
      intro hEq
      apply hne
      rw [hqb, ← h]
      have : σb * t = σ * (m : Rat) := by
        rw [← hEq, hK']
        rcases hσ' with rfl | rfl <;> grind
      rw [this]; grind
    have heq : (x - (K' : Rat)).abs = (x - (m : Rat)).abs := by
      rw [hK']
      simp only [abs_def] at htie' ⊢
      rcases hσ' with rfl | rfl <;> rcases hσb' with rfl | rfl <;>
        (repeat' split at htie') <;> (repeat' split) <;> grind
    have hx := tie_is_half x m K' hKne hhalf heq
    have hev := rhe_tie_even x hx
    rw [hm] at hev
    rw [hmag]; omega
  · -- a float below the binade cannot tie
    exfalso
    have n1 := rhe_nearest x (2 ^ 52)
    rw [hm, c52] at n1
    simp only [abs_def] at htie' n1
    rcases hσ' with rfl | rfl <;> rcases hσb' with rfl | rfl <;>
      (repeat' split at htie') <;> (repeat' split at n1) <;> grind

/-- **ties to even**: if another finite float is exactly as close to `q` as the result, the result
is the one with the even bit pattern (even significand) -/
theorem ofRatRNE_ties_even (q q' : Rat) (h : viewBits (ofRatRNE q) = .fin q') (b : Nat) (qb : Rat)
    (hb : viewBits b = .fin qb) (hne : qb ≠ q') (htie : (q - qb).abs = (q - q').abs) :
    ofRatRNE q % 2 = 0 := by
  unfold ofRatRNE at h ⊢
  by_cases h0 : q = 0
  · simp [h0]
  · rw [if_neg h0] at h ⊢
    by_cases hn : q < 0
    · rw [if_pos hn] at h ⊢
      have ha : 0 < -q := by grind
      have e : (-1 : Rat) * -q = q := by grind
      have := ties_pos true (-q) ha q' (by simpa using h) b qb hb hne (by simp only [if_true]; rw [e]; exact htie)
      omega
    · rw [if_neg hn] at h ⊢
      have ha : 0 < q := by grind
      exact ties_pos false q ha q' (by simpa using h) b qb hb hne (by simpa [Rat.one_mul] using htie)



/-- rounding reaches an even integer `N` exactly from `N − 1/2` on (the tie goes up to the even `N`) -/
theorem rhe_ge_even (x : Rat) (N : Int) (hN : N % 2 = 0) :
    N ≤ roundHalfEven x ↔ (N : Rat) - 1 / 2 ≤ x := by
  have ⟨f1, f2⟩ := floor_bounds x
  constructor
  · intro h
    rcases rhe_cases x with ⟨hm, hr⟩ | ⟨hm, hr⟩
    · rw [hm] at h
      have := Rat.intCast_le_intCast.mpr h
      grind
    · rw [hm] at h
      have h' : N - 1 ≤ x.floor := by omega
      have := Rat.intCast_le_intCast.mpr h'
      rw [Rat.intCast_sub] at this
      have c1 : ((1 : Int) : Rat) = 1 := rfl
      grind
  · intro h
    by_cases hx : (N : Rat) ≤ x
    · have : N ≤ x.floor := Rat.le_floor_iff.mpr hx
      rcases rhe_cases x with ⟨hm, _⟩ | ⟨hm, _⟩ <;> omega
    · have hfl : x.floor = N - 1 := by
        apply Int.le_antisymm
        · have : (x.floor : Rat) < (N : Rat) := by grind
          have := Rat.intCast_lt_intCast.mp this; omega
        · apply Rat.le_floor_iff.mpr
          rw [Rat.intCast_sub]
          have c1 : ((1 : Int) : Rat) = 1 := rfl
          grind
      have hr : 1 / 2 ≤ x - (x.floor : Rat) := by
        rw [hfl, Rat.intCast_sub]
        have c1 : ((1 : Int) : Rat) = 1 := rfl
        grind
      unfold roundHalfEven
      simp only
      split
      · omega
      · split
        · grind
        · split <;> omega

/-- the overflow threshold: the largest finite value plus half an ulp -/
def overflowThreshold : Rat := pow2 1024 - pow2 970

theorem threshold_eq : overflowThreshold = (9007199254740992 - 1 / 2) * pow2 971 := by
  unfold overflowThreshold
  have h1 : pow2 1024 = pow2 53 * pow2 971 := by rw [← pow2_add]; rfl
  have h2 : pow2 971 = 2 * pow2 970 := pow2_succ 970
  rw [h1, pow2_53]; grind

/-- **overflow**: the magnitude bits are the ∞ pattern exactly from `2^1024 − 2^970` on -/
theorem magRNE_overflow_iff (a : Rat) (ha : 0 < a) :
    magRNE a = 0x7FF0000000000000 ↔ overflowThreshold ≤ a := by
  have ⟨b1, b2⟩ := expOf_bracket a ha
  have ⟨m0, m1, mn⟩ := signif_range a ha
  have hmag := magRNE_eq a
  simp only at hmag m0 m1 mn
  have hcl : clampExp (expOf a) = if expOf a < -1022 then -1022 else expOf a := rfl
  generalize hex : clampExp (expOf a) = ex at *
  generalize hm : roundHalfEven (a * pow2 (52 - ex)) = m at *
  have hmagiff : magRNE a = 0x7FF0000000000000 ↔ 0x7FF0000000000000 ≤ (ex + 1022) * 2 ^ 52 + m := by
    rw [hmag]; split <;> omega
  rw [hmagiff, threshold_eq]
  have hp971 := pow2_pos 971
  by_cases hbig : 1024 ≤ ex
  · -- a ≥ 2^1024
    have hexe : ex = expOf a := by split at hcl <;> omega
    have : pow2 1024 ≤ a := Rat.le_trans (pow2_le_of_le (by omega)) b1
    have h1 : pow2 1024 = pow2 53 * pow2 971 := by rw [← pow2_add]; rfl
    rw [h1, pow2_53] at this
    constructor
    · intro _; grind
    · intro _; rcases mn with h | h <;> omega
  · by_cases h1023 : ex = 1023
    · have hN := rhe_ge_even (a * pow2 (52 - ex)) (2 ^ 53) (by decide)
      rw [hm] at hN
      have c : (((2 : Int) ^ 53 : Int) : Rat) = 9007199254740992 := by decide +kernel
      rw [c, h1023] at hN
      have hw : pow2 (52 - 1023) * pow2 971 = 1 := by rw [← pow2_add]; exact pow2_zero
      have hw0 := pow2_pos (52 - 1023)
      constructor
      · intro h
        have : (2 : Int) ^ 53 ≤ m := by omega
        have h2 := hN.mp this
        have h3 := Rat.mul_le_mul_of_nonneg_right h2 (Rat.le_of_lt hp971)
        rw [Rat.mul_assoc, hw, Rat.mul_one] at h3
        exact h3
      · intro h
        have h3 := Rat.mul_le_mul_of_nonneg_right h (Rat.le_of_lt hw0)
        rw [Rat.mul_assoc, Rat.mul_comm (pow2 971), hw, Rat.mul_one] at h3
        have := hN.mpr h3
        omega
    · -- a < 2^1023
      have hlt : a < pow2 1023 := by
        have : expOf a + 1 ≤ 1023 := by split at hcl <;> omega
        have := pow2_le_of_le this
        grind
      have h1 : pow2 1023 = pow2 52 * pow2 971 := by rw [← pow2_add]; rfl
      rw [h1, pow2_52] at hlt
      constructor
      · intro h; omega
      · intro h; exfalso; grind


/-- **overflow to ±∞**: from `2^1024 − 2^970` (the largest finite float plus half an ulp) on, the
result is the infinity of the argument's sign -/
theorem ofRatRNE_overflow (q : Rat) (h : overflowThreshold ≤ q.abs) :
    ofRatRNE q = INF (decide (q < 0)) := by
  have hth : 0 < overflowThreshold := by
    rw [threshold_eq]; have := pow2_pos 971; grind
  unfold ofRatRNE INF
  simp only [abs_def] at h
  by_cases h0 : q = 0
  · subst h0; simp at h; grind
  · rw [if_neg h0]
    by_cases hn : q < 0
    · have ha : 0 < -q := by grind
      have : overflowThreshold ≤ -q := by split at h <;> grind
      rw [if_pos hn, (magRNE_overflow_iff (-q) ha).mpr this]; simp [hn]
    · have ha : 0 < q := by grind
      have : overflowThreshold ≤ q := by split at h <;> grind
      rw [if_neg hn, (magRNE_overflow_iff q ha).mpr this]; simp [hn]

/-- below the threshold the result is a finite float -/
theorem ofRatRNE_finite (q : Rat) (h : q.abs < overflowThreshold) :
    ∃ q', viewBits (ofRatRNE q) = .fin q' := by
  unfold ofRatRNE
  simp only [abs_def] at h
  by_cases h0 : q = 0
  · subst h0; exact ⟨0, by simp [C07.viewBits_zeros.1]⟩
  · rw [if_neg h0]
    by_cases hn : q < 0
    · have ha : 0 < -q := by grind
      have hlt : ¬ overflowThreshold ≤ -q := by split at h <;> grind
      have hfin : magRNE (-q) ≠ 0x7FF0000000000000 := fun e => hlt ((magRNE_overflow_iff (-q) ha).mp e)
      rw [if_pos hn]
      exact ⟨_, by simpa using magRNE_decode true (-q) ha hfin⟩
    · have ha : 0 < q := by grind
      have hlt : ¬ overflowThreshold ≤ q := by split at h <;> grind
      have hfin : magRNE q ≠ 0x7FF0000000000000 := fun e => hlt ((magRNE_overflow_iff q ha).mp e)
      rw [if_neg hn]
      exact ⟨_, by simpa using magRNE_decode false q ha hfin⟩

/-- every finite float is below the overflow threshold -/
theorem finite_below_threshold (b : Nat) (q : Rat) (hb : viewBits b = .fin q) :
    q.abs < overflowThreshold := by
  obtain ⟨sig, ex, nb, hsig, hex1, hex2, hq⟩ := viewBits_fin b q hb
  have hs : (sig : Rat) ≤ 9007199254740991 := by
    have : sig ≤ 2 ^ 53 - 1 := by omega
    have := (Rat.natCast_le_natCast (a := sig) (b := 2 ^ 53 - 1)).mpr this
    have c : ((2 ^ 53 - 1 : Nat) : Rat) = 9007199254740991 := by decide +kernel
    rw [c] at this; exact this
  have hs0 : (0 : Rat) ≤ (sig : Rat) := Rat.natCast_nonneg
  have hp : pow2 ((ex : Int) - 1075) ≤ pow2 971 := pow2_le_of_le (by omega)
  have hp0 := pow2_pos ((ex : Int) - 1075)
  have h971 := pow2_pos 971
  have h1 : (sig : Rat) * pow2 ((ex : Int) - 1075) ≤ 9007199254740991 * pow2 971 := by
    have a1 := Rat.mul_le_mul_of_nonneg_left hp hs0
    have a2 := Rat.mul_le_mul_of_nonneg_right hs (Rat.le_of_lt h971)
    grind
  have h0 : 0 ≤ (sig : Rat) * pow2 ((ex : Int) - 1075) := Rat.mul_nonneg hs0 (Rat.le_of_lt hp0)
  rw [threshold_eq, hq]
  generalize (sig : Rat) * pow2 ((ex : Int) - 1075) = v at *
  simp only [abs_def]
  cases nb <;> simp <;> split <;> grind

/-- **exactness**: a rational that is the value of a finite float is converted without error (so
in particular subnormals and the largest finite float are reached) -/
theorem ofRatRNE_exact (b : Nat) (q : Rat) (hb : viewBits b = .fin q) :
    viewBits (ofRatRNE q) = .fin q := by
  obtain ⟨q', hq'⟩ := ofRatRNE_finite q (finite_below_threshold b q hb)
  have h := ofRatRNE_nearest_any q q' hq' b q hb
  rw [hq']
  have : q' = q := by
    simp only [abs_def] at h
    (repeat' split at h) <;> grind
  rw [this]


/-! ## 8. IEEE-754 `+ - * /` = the exact rational result, rounded once -/

theorem viewBits_ZERO (s : Bool) : viewBits (ZERO s) = .fin 0 := by
  cases s
  · exact C07.viewBits_zeros.1
  · exact C07.viewBits_zeros.2

/-- a correctly rounded result: `r` is the float (bit pattern) IEEE-754 prescribes for the exact
value `v`: the infinity of `v`'s sign from the overflow threshold on, otherwise a finite float that
no other finite float is closer to `v` than -/
def CorrectlyRounded (v : Rat) (r : Nat) : Prop :=
  (overflowThreshold ≤ v.abs → r = INF (decide (v < 0))) ∧
  (v.abs < overflowThreshold → ∃ q', viewBits r = .fin q' ∧
    ∀ (b : Nat) (qb : Rat), viewBits b = .fin qb → (v - q').abs ≤ (v - qb).abs)

theorem ofRatRNE_correctlyRounded (v : Rat) : CorrectlyRounded v (ofRatRNE v) := by
  refine ⟨ofRatRNE_overflow v, fun h => ?_⟩
  obtain ⟨q', hq'⟩ := ofRatRNE_finite v h
  exact ⟨q', hq', fun b qb hb => ofRatRNE_nearest_any v q' hq' b qb hb⟩

theorem roundSigned_correctlyRounded (v : Rat) (s : Bool) : CorrectlyRounded v (roundSigned v s) := by
  unfold roundSigned
  split
  · rename_i h0; subst h0
    refine ⟨fun h => ?_, fun _ => ⟨0, viewBits_ZERO s, fun b qb _ => ?_⟩⟩
    · exfalso
      have hth : 0 < overflowThreshold := by rw [threshold_eq]; have := pow2_pos 971; grind
      simp only [abs_def] at h; split at h <;> grind
    · simp only [abs_def]; (repeat' split) <;> grind
  · exact ofRatRNE_correctlyRounded v

/-- **IEEE addition of finite floats** is the exact sum, correctly rounded -/
theorem add_finite (a b : Nat) (x y : Rat) (ha : viewBits a = .fin x) (hb : viewBits b = .fin y) :
    F64.add a b = roundSigned (x + y) (signBit a && signBit b) ∧
    CorrectlyRounded (x + y) (F64.add a b) := by
  have : F64.add a b = roundSigned (x + y) (signBit a && signBit b) := by simp [F64.add, ha, hb]
  exact ⟨this, this ▸ roundSigned_correctlyRounded _ _⟩

theorem mul_finite (a b : Nat) (x y : Rat) (ha : viewBits a = .fin x) (hb : viewBits b = .fin y) :
    F64.mul a b = roundSigned (x * y) (signBit a != signBit b) ∧
    CorrectlyRounded (x * y) (F64.mul a b) := by
  have : F64.mul a b = roundSigned (x * y) (signBit a != signBit b) := by simp [F64.mul, ha, hb]
  exact ⟨this, this ▸ roundSigned_correctlyRounded _ _⟩

theorem div_finite (a b : Nat) (x y : Rat) (ha : viewBits a = .fin x) (hb : viewBits b = .fin y)
    (hy : y ≠ 0) :
    F64.div a b = roundSigned (x / y) (signBit a != signBit b) ∧
    CorrectlyRounded (x / y) (F64.div a b) := by
  have : F64.div a b = roundSigned (x / y) (signBit a != signBit b) := by simp [F64.div, ha, hb, hy]
  exact ⟨this, this ▸ roundSigned_correctlyRounded _ _⟩

/-- the decoding as a function of the three fields -/
def viewFields (s e m : Nat) : FView :=
  if e = 2047 then (if m = 0 then .inf (s == 1) else .nan)
  else
    let sig : Nat := if e = 0 then m else 2 ^ 52 + m
    let ex : Nat := if e = 0 then 1 else e
    .fin (if s = 1 then -(magValue sig ex) else magValue sig ex)

theorem viewBits_eq_fields (b : Nat) :
    viewBits b = viewFields (b / 2 ^ 63 % 2) (b / 2 ^ 52 % 2048) (b % 2 ^ 52) := rfl

theorem viewFields_flip (s e m : Nat) (hs : s = 0 ∨ s = 1) :
    viewFields (1 - s) e m = match viewFields s e m with
      | .nan => .nan
      | .inf t => .inf (!t)
      | .fin y => .fin (-y) := by
  unfold viewFields
  rcases hs with rfl | rfl <;> simp only <;> split <;> (try split) <;> simp_all [Rat.neg_neg]

/-- flipping the sign bit negates the value -/
theorem viewBits_neg (b : Nat) (hb : b < 2 ^ 64) :
    viewBits (F64.neg b) = match viewBits b with
      | .nan => .nan
      | .inf s => .inf (!s)
      | .fin y => .fin (-y) := by
  have hs : b / 2 ^ 63 % 2 = 0 ∨ b / 2 ^ 63 % 2 = 1 := by omega
  rw [viewBits_eq_fields (F64.neg b), viewBits_eq_fields b, ← viewFields_flip _ _ _ hs]
  unfold F64.neg signBit
  rcases hs with h | h
  · have hne : ¬ ((b / 2 ^ 63 % 2 == 1) = true) := by simp [h]
    have e1 : (b + 2 ^ 63) / 2 ^ 63 % 2 = 1 - b / 2 ^ 63 % 2 := by omega
    have e2 : (b + 2 ^ 63) / 2 ^ 52 % 2048 = b / 2 ^ 52 % 2048 := by omega
    have e3 : (b + 2 ^ 63) % 2 ^ 52 = b % 2 ^ 52 := by omega
    rw [if_neg hne, e1, e2, e3]
  · have hne : ((b / 2 ^ 63 % 2 == 1) = true) := by simp [h]
    have e1 : (b - 2 ^ 63) / 2 ^ 63 % 2 = 1 - b / 2 ^ 63 % 2 := by omega
    have e2 : (b - 2 ^ 63) / 2 ^ 52 % 2048 = b / 2 ^ 52 % 2048 := by omega
    have e3 : (b - 2 ^ 63) % 2 ^ 52 = b % 2 ^ 52 := by omega
    rw [if_pos hne, e1, e2, e3]

theorem sub_finite (a b : Nat) (x y : Rat) (hb64 : b < 2 ^ 64) (ha : viewBits a = .fin x)
    (hb : viewBits b = .fin y) :
    CorrectlyRounded (x - y) (F64.sub a b) := by
  have hn := viewBits_neg b hb64
  rw [hb] at hn
  have := (add_finite a (F64.neg b) x (-y) ha hn).2
  rw [← Rat.sub_eq_add_neg] at this
  exact this

/-! ### special values -/

theorem add_nan (a b : Nat) (h : viewBits a = .nan ∨ viewBits b = .nan) : F64.add a b = NAN := by
  unfold F64.add; rcases h with h | h <;> rw [h] <;> cases viewBits _ <;> rfl
theorem mul_nan (a b : Nat) (h : viewBits a = .nan ∨ viewBits b = .nan) : F64.mul a b = NAN := by
  unfold F64.mul; rcases h with h | h <;> rw [h] <;> cases viewBits _ <;> rfl
theorem div_nan (a b : Nat) (h : viewBits a = .nan ∨ viewBits b = .nan) : F64.div a b = NAN := by
  unfold F64.div; rcases h with h | h <;> rw [h] <;> cases viewBits _ <;> rfl

/-- `∞ − ∞`, `0 · ∞`, `0 / 0`, `∞ / ∞` are NaN; `x / 0` is ±∞ -/
theorem invalid_operations (a b : Nat) (s t : Bool) (x : Rat) :
    (viewBits a = .inf s → viewBits b = .inf (!s) → F64.add a b = NAN) ∧
    (viewBits a = .fin 0 → viewBits b = .inf t → F64.mul a b = NAN) ∧
    (viewBits a = .fin 0 → viewBits b = .fin 0 → F64.div a b = NAN) ∧
    (viewBits a = .inf s → viewBits b = .inf t → F64.div a b = NAN) ∧
    (viewBits a = .fin x → x ≠ 0 → viewBits b = .fin 0 →
      F64.div a b = INF (signBit a != signBit b)) := by
  refine ⟨?_, ?_, ?_, ?_, ?_⟩
  · intro h1 h2; simp [F64.add, h1, h2]
  · intro h1 h2; simp [F64.mul, h1, h2]
  · intro h1 h2; simp [F64.div, h1, h2]
  · intro h1 h2; simp [F64.div, h1, h2]
  · intro h1 hx h2; simp [F64.div, h1, h2, hx]


variable {C : Type}

/-! ## 9. the tower with IEEE-754 floats: compute in ℚ, then round

`ieeeOps R` is the float structure whose `+ - * /`, unary minus, conversions and decoding are the
IEEE ones of Impl/F64Ieee.lean (everything else comes from an arbitrary `R`).  Every theorem of
Theorems/C07.lean holds for it by instantiation; the float arm becomes concrete. -/

/-- all of C07 for the IEEE structure -/
theorem C07_holds_ieee (R : FloatOps Nat C) :
    (∀ op A B, Vectorize.binop (ieeeOps R) op A B = TowerSpec.vbinop (ieeeOps R) op A B) ∧
    (∀ op A, Vectorize.unop (ieeeOps R) op A = TowerSpec.vunop (ieeeOps R) op A) :=
  ⟨(C07.C07_holds Nat C (ieeeOps R)).1, (C07.C07_holds Nat C (ieeeOps R)).2.1⟩

/-- the float an operand is converted to at the float level: the correctly rounded value of an
int / rational, the float itself -/
theorem toF_ieee (R : FloatOps Nat C) (a : NNum Nat C) :
    toF (ieeeOps R) a = match a with
      | .int i => some (ofRatRNE (i : Rat))
      | .rat r => some (ofRatRNE r)
      | .float f => some f
      | .complex _ => none := by
  cases a <;> rfl

/-- the IEEE operation behind an operator name -/
def ieeeOp : String → Option (Nat → Nat → Nat)
  | "+" => some F64.add
  | "-" => some F64.sub
  | "*" => some F64.mul
  | "/" => some F64.div
  | _ => none

/-- **float arm of the tower**: when both operands are real and at least one is a float, `+ - * /`
apply the IEEE operation to the operands converted to float (ints and rationals are rounded
first — two roundings in all, as the level rule says) -/
theorem tower_float_arm (R : FloatOps Nat C) (name : String) (f : Nat → Nat → Nat)
    (hop : ieeeOp name = some f) (a b : NNum Nat C) (fa fb : Nat)
    (ha : toF (ieeeOps R) a = some fa) (hb : toF (ieeeOps R) b = some fb)
    (hfl : exact a = none ∨ exact b = none) :
    NNum.binop (ieeeOps R) name a b = .ok (.float (f fa fb)) := by
  rw [C07.binop_refines]
  unfold ieeeOp at hop
  split at hop <;> simp at hop <;> subst hop
  all_goals
    cases a <;> cases b <;> simp [exact] at hfl <;> simp [toF] at ha hb <;> subst ha hb <;>
      simp [TowerSpec.binop, arith, divide, inexactDiv, exact, toF, fOp, ieeeOps]

/-- **the float arm refines "exact result in ℚ, rounded once"**: with finite converted operands
`x`, `y` the result of `+ - *` (and `/` for `y ≠ 0`) is the correctly rounded value of
`x + y`, `x − y`, `x · y`, `x / y`: ±∞ from the overflow threshold on, otherwise a float that no
finite float is closer to the exact result than -/
theorem tower_float_rounds (R : FloatOps Nat C) (a b : NNum Nat C) (fa fb : Nat) (x y : Rat)
    (ha : toF (ieeeOps R) a = some fa) (hb : toF (ieeeOps R) b = some fb)
    (hfl : exact a = none ∨ exact b = none) (hfb : fb < 2 ^ 64)
    (hx : viewBits fa = .fin x) (hy : viewBits fb = .fin y) :
    (∃ r, NNum.binop (ieeeOps R) "+" a b = .ok (.float r) ∧ CorrectlyRounded (x + y) r) ∧
    (∃ r, NNum.binop (ieeeOps R) "-" a b = .ok (.float r) ∧ CorrectlyRounded (x - y) r) ∧
    (∃ r, NNum.binop (ieeeOps R) "*" a b = .ok (.float r) ∧ CorrectlyRounded (x * y) r) ∧
    (y ≠ 0 → ∃ r, NNum.binop (ieeeOps R) "/" a b = .ok (.float r) ∧ CorrectlyRounded (x / y) r) := by
  refine ⟨⟨_, tower_float_arm R "+" _ rfl a b fa fb ha hb hfl, (add_finite fa fb x y hx hy).2⟩,
    ⟨_, tower_float_arm R "-" _ rfl a b fa fb ha hb hfl, sub_finite fa fb x y hfb hx hy⟩,
    ⟨_, tower_float_arm R "*" _ rfl a b fa fb ha hb hfl, (mul_finite fa fb x y hx hy).2⟩,
    fun hy0 => ⟨_, tower_float_arm R "/" _ rfl a b fa fb ha hb hfl, (div_finite fa fb x y hx hy hy0).2⟩⟩

/-- the conversion of an exact operand is itself correctly rounded -/
theorem tower_conversion_rounds (R : FloatOps Nat C) (a : NNum Nat C) (p : Rat)
    (ha : exact a = some p) :
    ∃ fa, toF (ieeeOps R) a = some fa ∧ CorrectlyRounded p fa := by
  cases a <;> simp [exact] at ha <;> subst ha
  · exact ⟨_, rfl, ofRatRNE_correctlyRounded _⟩
  · exact ⟨_, rfl, ofRatRNE_correctlyRounded _⟩

/-- `float(x)` of the tower is the correctly rounded value of an int / rational -/
theorem float_builtin_rounds (R : FloatOps Nat C) (a : NNum Nat C) (p : Rat) (ha : exact a = some p) :
    ∃ r, NNum.unop (ieeeOps R) "float" a = .ok (.float r) ∧ CorrectlyRounded p r := by
  obtain ⟨fa, hfa, hr⟩ := tower_conversion_rounds R a p ha
  exact ⟨fa, by rw [C07.unop_refines]; simp [TowerSpec.unop, hfa], hr⟩

/-- NaN propagates through the float arm -/
theorem tower_nan_propagates (R : FloatOps Nat C) (a b : NNum Nat C) (fa fb : Nat)
    (ha : toF (ieeeOps R) a = some fa) (hb : toF (ieeeOps R) b = some fb)
    (hfl : exact a = none ∨ exact b = none)
    (hnan : viewBits fa = .nan ∨ viewBits fb = .nan) :
    NNum.binop (ieeeOps R) "+" a b = .ok (.float NAN) ∧
    NNum.binop (ieeeOps R) "*" a b = .ok (.float NAN) ∧
    NNum.binop (ieeeOps R) "/" a b = .ok (.float NAN) := by
  rw [tower_float_arm R "+" _ rfl a b fa fb ha hb hfl, tower_float_arm R "*" _ rfl a b fa fb ha hb hfl,
    tower_float_arm R "/" _ rfl a b fa fb ha hb hfl, add_nan _ _ hnan, mul_nan _ _ hnan, div_nan _ _ hnan]
  exact ⟨rfl, rfl, rfl⟩

/-! ### non-vacuity (kernel evaluation) -/

example : F64.add 0x3FF0000000000000 0x3CA0000000000000 = 0x3FF0000000000000 := by decide +kernel  -- 1 + 2^-53: tie, to even
example : F64.add 0x3FF0000000000001 0x3CA0000000000000 = 0x3FF0000000000002 := by decide +kernel  -- odd + half ulp: up
example : F64.add 0x7FEFFFFFFFFFFFFF 0x7C90000000000000 = 0x7FF0000000000000 := by decide +kernel  -- MAX + 2^970 = +inf
example : F64.add 0x7FEFFFFFFFFFFFFF 0x7C80000000000000 = 0x7FEFFFFFFFFFFFFF := by decide +kernel  -- MAX + 2^969 = MAX
example : F64.mul 0x0000000000000001 0x3FE0000000000000 = 0 := by decide +kernel                   -- min subnormal / 2: tie, to 0
example : F64.mul 0x0000000000000003 0x3FE0000000000000 = 2 := by decide +kernel                   -- 1.5 min: tie, to even
example : F64.mul 0x8000000000000001 0x3FE0000000000000 = 0x8000000000000000 := by decide +kernel  -- underflow keeps the sign
example : F64.add 0x8000000000000000 0x8000000000000000 = 0x8000000000000000 ∧
    F64.add 0 0x8000000000000000 = 0 ∧ F64.sub 0x3FF0000000000000 0x3FF0000000000000 = 0 := by decide +kernel
example : F64.div 0x3FF0000000000000 0x4008000000000000 = 0x3FD5555555555555 := by decide +kernel  -- 1/3
example : F64.div 0x3FF0000000000000 0x8000000000000000 = 0xFFF0000000000000 ∧
    F64.div 0 0 = NAN ∧ F64.sub 0x7FF0000000000000 0x7FF0000000000000 = NAN := by decide +kernel


/-! ### `%`, `//`, `%%` at the float level -/

/-- `x % y` on finite floats (`y ≠ 0`) is the truncated remainder `x − y·trunc(x/y)` of the exact
values, correctly rounded (it is in fact exactly representable, so nothing is lost) -/
theorem rem_finite (a b : Nat) (x y : Rat) (ha : viewBits a = .fin x) (hb : viewBits b = .fin y)
    (hy : y ≠ 0) :
    CorrectlyRounded (x - y * ((truncQ (x / y) : Int) : Rat)) (F64.rem a b) := by
  have : F64.rem a b = roundSigned (x - y * ((truncQ (x / y) : Int) : Rat)) (signBit a) := by
    simp [F64.rem, ha, hb, hy]
  exact this ▸ roundSigned_correctlyRounded _ _

/-- the float-level `%` computes the same mathematical function as the exact levels' `%` -/
theorem truncQ_eq_trunc (q : Rat) : truncQ q = TowerSpec.trunc q := rfl

/-- **float arm of `% // %%`**: the IEEE remainder, and the standard library's `div_euclid` /
`rem_euclid` compositions, applied to the converted operands; a zero divisor is an error for `//`
and `%%` (and gives NaN for `%`) -/
theorem tower_float_arm_mod (R : FloatOps Nat C) (a b : NNum Nat C) (fa fb : Nat)
    (ha : toF (ieeeOps R) a = some fa) (hb : toF (ieeeOps R) b = some fb)
    (hfl : exact a = none ∨ exact b = none) :
    NNum.binop (ieeeOps R) "%" a b = .ok (.float (F64.rem fa fb)) ∧
    (isZero (ieeeOps R) b = false →
      NNum.binop (ieeeOps R) "//" a b = .ok (.float (F64.divEuclid fa fb)) ∧
      NNum.binop (ieeeOps R) "%%" a b = .ok (.float (F64.remEuclid fa fb))) ∧
    (isZero (ieeeOps R) b = true →
      NNum.binop (ieeeOps R) "//" a b = .throw ∧ NNum.binop (ieeeOps R) "%%" a b = .throw) := by
  simp only [C07.binop_refines, TowerSpec.binop]
  cases a <;> cases b <;> simp [exact] at hfl <;> simp [toF] at ha hb <;> subst ha hb <;>
    refine ⟨?_, ?_, ?_⟩ <;> (try intro hz) <;>
    simp_all [arith, exact, toF, fOp, ieeeOps]

example : F64.rem 0x401C000000000000 0xC000000000000000 = 0x3FF0000000000000 ∧       -- 7 % -2 = 1
    F64.divEuclid 0x401C000000000000 0xC000000000000000 = 0xC008000000000000 ∧      -- 7 // -2 = -3 (euclid)
    F64.remEuclid 0xC01C000000000000 0x4000000000000000 = 0x3FF0000000000000 ∧      -- -7 %% 2 = 1
    F64.rem 0xC010000000000000 0x4000000000000000 = 0x8000000000000000 := by        -- -4 % 2 = -0
  decide +kernel


end Noulith.C07F
