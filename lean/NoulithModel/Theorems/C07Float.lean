/-
C07, float level — IEEE-754 binary64 as exact mathematics.

1. `F64.ofRatRNE q` (Impl/F64Ieee.lean) is a NEAREST binary64 value to `q` among all finite bit
   patterns (`ofRatRNE_nearest`, discharging `C07.ofRatRNE_nearest_statement`), with ties to the even
   significand, overflow to ±∞ exactly from 2^1024 − 2^970 on, gradual underflow, the sign of `q`.
2. The tower's float level with `F64.ieeeOps` (IEEE `+ - * /` = exact rational result rounded once)
   refines "compute in ℚ, then round": the abstract `FloatOps` theorems of Theorems/C07.lean are
   instantiated, and the float arm of `+ - * /` is characterised on all operands.
Core Lean only.
-/
import NoulithModel.Theorems.C07

namespace Noulith.C07F
open Noulith F64

/-! ## 1. powers of two in ℚ -/

theorem two_ne_zero : (2 : Rat) ≠ 0 := by decide

theorem natCast_two_pow (n : Nat) : ((2 ^ n : Nat) : Rat) = (2 : Rat) ^ n := by
  rw [Rat.natCast_pow]; rfl

theorem pow2_eq_zpow (k : Int) : pow2 k = (2 : Rat) ^ k := by
  unfold pow2
  by_cases h : 0 ≤ k
  · rw [if_pos h, natCast_two_pow]
    have : k = (k.toNat : Int) := by omega
    conv => rhs; rw [this]
    rfl
  · rw [if_neg h]
    have : k = -((-k).toNat : Int) := by omega
    conv => rhs; rw [this]
    rw [Rat.zpow_neg, Rat.zpow_natCast, Rat.mkRat_eq_div, natCast_two_pow, Rat.div_def]
    simp [Rat.one_mul]

theorem pow2_pos (k : Int) : 0 < pow2 k := by
  rw [pow2_eq_zpow]; exact Rat.zpow_pos (by decide)

theorem pow2_add (a b : Int) : pow2 (a + b) = pow2 a * pow2 b := by
  simp only [pow2_eq_zpow]; exact Rat.zpow_add two_ne_zero a b

theorem pow2_zero : pow2 0 = 1 := by rw [pow2_eq_zpow]; exact Rat.zpow_zero 2

theorem pow2_one : pow2 1 = 2 := by rw [pow2_eq_zpow]; exact Rat.zpow_one 2

theorem pow2_succ (a : Int) : pow2 (a + 1) = 2 * pow2 a := by
  rw [pow2_add, pow2_one, Rat.mul_comm]

theorem pow2_natCast (n : Nat) : pow2 (n : Int) = ((2 ^ n : Nat) : Rat) := by
  rw [pow2_eq_zpow, natCast_two_pow]; rfl

theorem pow2_mul_neg (a : Int) : pow2 a * pow2 (-a) = 1 := by
  rw [← pow2_add, Int.add_right_neg, pow2_zero]

theorem pow2_le_of_le {a b : Int} (h : a ≤ b) : pow2 a ≤ pow2 b := by
  have hb : b = a + ((b - a).toNat : Int) := by omega
  rw [hb, pow2_add, pow2_natCast]
  have h1 : (1 : Rat) ≤ ((2 ^ (b - a).toNat : Nat) : Rat) := by
    have : 1 ≤ 2 ^ (b - a).toNat := Nat.one_le_two_pow
    exact_mod_cast this
  have hp := pow2_pos a
  have := Rat.mul_le_mul_of_nonneg_left h1 (Rat.le_of_lt hp)
  rw [Rat.mul_one] at this
  exact this

theorem pow2_lt_of_lt {a b : Int} (h : a < b) : pow2 a < pow2 b := by
  have h1 : pow2 (a + 1) ≤ pow2 b := pow2_le_of_le (by omega)
  rw [pow2_succ] at h1
  have hp := pow2_pos a
  grind


/-! ## 2. the binary exponent of a positive rational -/

theorem rat_mul_den (a : Rat) : a * ((a.den : Nat) : Rat) = (a.num : Rat) := by
  have h := C07.rat_eq_num_div_den a
  have hd := C07.den_cast_ne_zero a
  have e : ((a.den : Int) : Rat) = ((a.den : Nat) : Rat) := rfl
  rw [e] at h hd
  have h2 : a * ((a.den : Nat) : Rat) = (a.num : Rat) / ((a.den : Nat) : Rat) * ((a.den : Nat) : Rat) := by
    rw [← h]
  exact h2.trans (Rat.div_mul_cancel hd)

theorem expOf_bracket (a : Rat) (ha : 0 < a) :
    pow2 (expOf a) ≤ a ∧ a < pow2 (expOf a + 1) := by
  have hnum : 0 < a.num := by
    have := Rat.num_nonneg.mpr (Rat.le_of_lt ha)
    have h0 : a.num ≠ 0 := fun h => Rat.ne_of_gt ha (Rat.num_eq_zero.mp h)
    omega
  have hn0 : a.num.toNat ≠ 0 := by omega
  have hd0 : a.den ≠ 0 := a.den_nz
  have n1 := Nat.log2_self_le hn0
  have n2 := @Nat.lt_log2_self a.num.toNat
  have d1 := Nat.log2_self_le hd0
  have d2 := @Nat.lt_log2_self a.den
  generalize hln : a.num.toNat.log2 = ln at *
  generalize hld : a.den.log2 = ld at *
  have hmul := rat_mul_den a
  have hnumcast : (a.num : Rat) = ((a.num.toNat : Nat) : Rat) := by
    have : a.num = (a.num.toNat : Int) := by omega
    conv => lhs; rw [this]
    rfl
  rw [hnumcast] at hmul
  -- casts of the four Nat inequalities
  have n1' : ((2 ^ ln : Nat) : Rat) ≤ ((a.num.toNat : Nat) : Rat) := Rat.natCast_le_natCast.mpr n1
  have n2' : ((a.num.toNat : Nat) : Rat) < ((2 ^ (ln + 1) : Nat) : Rat) := Rat.natCast_lt_natCast.mpr n2
  have d1' : ((2 ^ ld : Nat) : Rat) ≤ ((a.den : Nat) : Rat) := Rat.natCast_le_natCast.mpr d1
  have d2' : ((a.den : Nat) : Rat) < ((2 ^ (ld + 1) : Nat) : Rat) := Rat.natCast_lt_natCast.mpr d2
  rw [← pow2_natCast] at n1' n2' d1' d2'
  -- upper: a < pow2 (ln + 1 - ld)
  have up : a < pow2 ((ln : Int) - (ld : Int) + 1) := by
    have h1 : a * pow2 (ld : Int) ≤ a * ((a.den : Nat) : Rat) :=
      Rat.mul_le_mul_of_nonneg_left d1' (Rat.le_of_lt ha)
    have h2 : a * pow2 (ld : Int) < pow2 ((ln + 1 : Nat) : Int) := by grind
    have h3 := Rat.mul_lt_mul_of_pos_right h2 (pow2_pos (-(ld : Int)))
    rw [Rat.mul_assoc, pow2_mul_neg, Rat.mul_one, ← pow2_add] at h3
    have : ((ln + 1 : Nat) : Int) + -(ld : Int) = (ln : Int) - (ld : Int) + 1 := by omega
    rw [this] at h3; exact h3
  have lo : pow2 ((ln : Int) - (ld : Int) - 1) < a := by
    have h1 : a * ((a.den : Nat) : Rat) < a * pow2 ((ld + 1 : Nat) : Int) :=
      Rat.mul_lt_mul_of_pos_left d2' ha
    have h2 : pow2 (ln : Int) < a * pow2 ((ld + 1 : Nat) : Int) := by grind
    have h3 := Rat.mul_lt_mul_of_pos_right h2 (pow2_pos (-((ld + 1 : Nat) : Int)))
    rw [Rat.mul_assoc, pow2_mul_neg, Rat.mul_one, ← pow2_add] at h3
    have : (ln : Int) + -((ld + 1 : Nat) : Int) = (ln : Int) - (ld : Int) - 1 := by omega
    rw [this] at h3; exact h3
  unfold expOf
  simp only [hln, hld]
  split
  · rename_i h; exact ⟨h, up⟩
  · rename_i h
    refine ⟨Rat.le_of_lt lo, ?_⟩
    have : (ln : Int) - (ld : Int) - 1 + 1 = (ln : Int) - (ld : Int) := by omega
    rw [this]; exact Rat.not_le.mp h


/-! ## 3. rounding to the nearest integer, ties to even -/

theorem abs_def (x : Rat) : x.abs = if 0 ≤ x then x else -x := rfl

theorem floor_bounds (x : Rat) : (x.floor : Rat) ≤ x ∧ x < (x.floor : Rat) + 1 := by
  have h := Rat.lt_floor_add_one x
  rw [Rat.intCast_add] at h
  exact ⟨Rat.floor_le x, h⟩

theorem rhe_cases (x : Rat) :
    (roundHalfEven x = x.floor ∧ x - (x.floor : Rat) ≤ 1 / 2) ∨
    (roundHalfEven x = x.floor + 1 ∧ 1 / 2 ≤ x - (x.floor : Rat)) := by
  unfold roundHalfEven
  simp only
  split
  · right; exact ⟨rfl, by grind⟩
  · split
    · left; exact ⟨rfl, by grind⟩
    · split
      · left; exact ⟨rfl, by grind⟩
      · right; exact ⟨rfl, by grind⟩

theorem int_le_or_succ_le (k f : Int) : (k : Rat) ≤ (f : Rat) ∨ (f : Rat) + 1 ≤ (k : Rat) := by
  by_cases h : k ≤ f
  · left; exact Rat.intCast_le_intCast.mpr h
  · right
    have : f + 1 ≤ k := by omega
    have := Rat.intCast_le_intCast.mpr this
    rw [Rat.intCast_add] at this; exact this

/-- the rounded value is a nearest integer -/
theorem rhe_nearest (x : Rat) (k : Int) :
    (x - (roundHalfEven x : Rat)).abs ≤ (x - (k : Rat)).abs := by
  have ⟨h1, h2⟩ := floor_bounds x
  have hk := int_le_or_succ_le k x.floor
  simp only [abs_def]
  rcases rhe_cases x with ⟨hm, hr⟩ | ⟨hm, hr⟩ <;> rw [hm]
  · split <;> split <;> grind
  · rw [Rat.intCast_add]; split <;> split <;> grind

theorem rhe_half (x : Rat) : (x - (roundHalfEven x : Rat)).abs ≤ 1 / 2 := by
  have ⟨h1, h2⟩ := floor_bounds x
  simp only [abs_def]
  rcases rhe_cases x with ⟨hm, hr⟩ | ⟨hm, hr⟩ <;> rw [hm]
  · split <;> grind
  · rw [Rat.intCast_add]; split <;> grind

/-- rounding stays between integer bounds of the argument -/
theorem rhe_bounds (x : Rat) (lo hi : Int) (h1 : (lo : Rat) ≤ x) (h2 : x ≤ (hi : Rat)) :
    lo ≤ roundHalfEven x ∧ roundHalfEven x ≤ hi := by
  have ⟨f1, f2⟩ := floor_bounds x
  have hlo : lo ≤ x.floor := Rat.le_floor_iff.mpr h1
  rcases rhe_cases x with ⟨hm, hr⟩ | ⟨hm, hr⟩ <;> rw [hm]
  · refine ⟨hlo, ?_⟩
    have : (x.floor : Rat) ≤ (hi : Rat) := by grind
    exact Rat.intCast_le_intCast.mp this
  · refine ⟨by omega, ?_⟩
    have : (x.floor : Rat) < (hi : Rat) := by grind
    have := Rat.intCast_lt_intCast.mp this
    omega

/-- ties go to the even integer -/
theorem rhe_tie_even (x : Rat) (h : x - (x.floor : Rat) = 1 / 2) : roundHalfEven x % 2 = 0 := by
  unfold roundHalfEven
  simp only
  rw [h]
  simp only [Rat.lt_irrefl, if_false]
  split <;> omega

/-- an integer is rounded to itself -/
theorem rhe_intCast (k : Int) : roundHalfEven (k : Rat) = k := by
  have h := rhe_half (k : Rat)
  have hn := rhe_nearest (k : Rat) k
  simp only [abs_def] at hn
  have : ((k : Rat) - (roundHalfEven (k : Rat) : Rat)) = 0 := by
    split at hn <;> grind
  have h2 : ((roundHalfEven (k : Rat) : Int) : Rat) = (k : Rat) := by grind
  exact Rat.intCast_inj.mp h2


end Noulith.C07F
