/-
C17 — freeze preserves meaning and binds free variables eagerly.

Theorems about the Impl model of `freeze` (Impl/Freeze.lean) and its evaluation (Impl/CoreEval.lean):
the binding discipline (which names count as bound where, and that inner scopes do not leak), the
exact failure conditions per construct, and the base cases of semantic preservation (a resolved free
identifier evaluates, at any later time and in any state of the outer variables, to the value it had
when frozen).  The full preservation statement is kept as `freeze_preserves_statement`; it is false
on the real code for forward references (known findings F20 / F27) and is not proved here in general.
-/
import NoulithModel.Impl.CoreEval

namespace Noulith.C17
open Noulith Noulith.Core

variable {V : Type}

theorem mem_of_contains {l : List String} {x : String} (h : l.contains x = true) : x ∈ l := by simpa using h
theorem not_mem_of_contains {l : List String} {x : String} (h : l.contains x = false) : x ∉ l := by simpa using h

/-- parameter lists without type annotations and without defaults are left unchanged by `freezeParams` -/
theorem freezeParams_no_defaults (look : String → Option V) (s : FState V) (ps : List Param)
    (hp : ∀ p ∈ ps, p.dflt = none) (ha : ∀ p ∈ ps, p.ann = none) : freezeParams look s ps = .ok (ps, s) := by
  induction ps generalizing s with
  | nil => simp [freezeParams]
  | cons p rest ih =>
    obtain ⟨n, d, sp, a⟩ := p
    have hd : d = none := by simpa [Param.dflt] using hp (.mk n d sp a) (List.mem_cons_self ..)
    have had : a = none := by simpa [Param.ann] using ha (.mk n d sp a) (List.mem_cons_self ..)
    subst hd had
    have := ih s (fun q hq => hp q (List.mem_cons_of_mem _ hq)) (fun q hq => ha q (List.mem_cons_of_mem _ hq))
    simp [freezeParams, freezeOpt, this]

/-! ## 1. identifiers: bound names stay, free names are resolved NOW, unknown names fail NOW -/

theorem freeze_ident_bound (look : String → Option V) (s : FState V) (x : String)
    (h : s.bound.contains x = true) : freezeExpr look s (.ident x) = .ok (.ident x, s) := by
  simp [freezeExpr, mem_of_contains h]

/-- a free identifier that exists outside is replaced by (a reference to) its CURRENT value -/
theorem freeze_ident_free (look : String → Option V) (s : FState V) (x : String) (v : V)
    (h : s.bound.contains x = false) (hv : look x = some v) :
    freezeExpr look s (.ident x) = .ok (.frozen s.tab.length, { s with tab := s.tab ++ [v] }) := by
  simp [freezeExpr, not_mem_of_contains h, hv]

/-- a free identifier that does not exist outside makes the freeze fail immediately (name error) -/
theorem freeze_ident_unbound_fails (look : String → Option V) (s : FState V) (x : String)
    (h : s.bound.contains x = false) (hv : look x = none) :
    freezeExpr look s (.ident x) = .error (.unboundFree x) := by
  simp [freezeExpr, not_mem_of_contains h, hv]

/-! ## 2. frozen code cannot write to an outside variable -/

theorem freeze_assign_outer_fails (look : String → Option V) (s : FState V) (x : String) (rhs : Expr)
    (h : s.bound.contains x = false) : freezeExpr look s (.assign x rhs) = .error (.assignOuter x) := by
  simp [freezeExpr, not_mem_of_contains h]

theorem freeze_opassign_outer_fails (look : String → Option V) (s : FState V) (x opn : String) (rhs : Expr)
    (h : s.bound.contains x = false) : freezeExpr look s (.opassign x opn rhs) = .error (.assignOuter x) := by
  simp [freezeExpr, not_mem_of_contains h]

/-- assignment to a name declared inside the frozen expression is fine -/
theorem freeze_assign_local_ok (look : String → Option V) (s s' : FState V) (x : String) (rhs rhs' : Expr)
    (h : s.bound.contains x = true) (hr : freezeExpr look s rhs = .ok (rhs', s')) :
    freezeExpr look s (.assign x rhs) = .ok (.assign x rhs', s') := by
  simp [freezeExpr, mem_of_contains h, hr]

/-! ## 3. the scope discipline: what binds, and what does not leak -/

/-- `p := e` binds the names of `p` for everything that follows in the same scope -/
theorem freeze_declare_binds (look : String → Option V) (s s' : FState V) (p : Pat) (rhs rhs' : Expr)
    (hr : freezeExpr look { s with bound := s.bound ++ Pat.idents p } rhs = .ok (rhs', s')) :
    freezeExpr look s (.declare p rhs) = .ok (.declare p rhs', s') := by
  simp [freezeExpr, hr]

/-- names bound inside a lambda (its parameters, its local declarations) do not leak out -/
theorem freeze_lambda_does_not_leak (look : String → Option V) (s s' : FState V) (ps : List Param)
    (body : Expr) (e' : Expr) (h : freezeExpr look s (.lambda ps body) = .ok (e', s')) :
    s'.bound = s.bound := by
  simp only [freezeExpr] at h
  split at h
  · simp at h
  · split at h
    · simp at h
    · simp only [Except.ok.injEq, Prod.mk.injEq] at h; rw [← h.2]

theorem freeze_while_does_not_leak (look : String → Option V) (s s' : FState V) (c b e' : Expr)
    (h : freezeExpr look s (.while_ c b) = .ok (e', s')) : s'.bound = s.bound := by
  simp only [freezeExpr] at h
  split at h
  · simp at h
  · split at h
    · simp at h
    · simp only [Except.ok.injEq, Prod.mk.injEq] at h; rw [← h.2]

theorem freeze_for_does_not_leak (look : String → Option V) (s s' : FState V) (its : List ForIt)
    (body : ForBody) (e' : Expr) (h : freezeExpr look s (.for_ its body) = .ok (e', s')) :
    s'.bound = s.bound := by
  simp only [freezeExpr] at h
  split at h
  · simp at h
  · split at h
    · simp at h
    · simp only [Except.ok.injEq, Prod.mk.injEq] at h; rw [← h.2]

/-- the names bound by a `catch` pattern are visible in the catch clause only; declarations made in the
`try` BODY do persist (the body runs in the enclosing scope) -/
theorem freeze_try_scope (look : String → Option V) (s s1 s3 : FState V) (b b' c c' : Expr) (p : Pat)
    (hb : freezeExpr look s b = .ok (b', s1))
    (hc : freezeExpr look { s1 with bound := s1.bound ++ Pat.idents p } c = .ok (c', s3)) :
    freezeExpr look s (.try_ b p c) = .ok (.try_ b' p c', { s1 with tab := s3.tab }) := by
  simp [freezeExpr, hb, hc]

/-- `if` does not open a scope: bindings made in the branches persist -/
theorem freeze_if_shares_scope (look : String → Option V) (s s1 s2 : FState V) (c c' t t' : Expr)
    (hc : freezeExpr look s c = .ok (c', s1)) (ht : freezeExpr look s1 t = .ok (t', s2)) :
    freezeExpr look s (.ite c t none) = .ok (.ite c' t' none, s2) := by
  simp [freezeExpr, hc, ht, freezeOpt]

/-- a `for` clause resolves its iteratee BEFORE binding its own names (`for (x <- x)` reads the outer x) -/
theorem freeze_for_clause_order (look : String → Option V) (s s1 s2 : FState V) (k : IterKind) (p : Pat)
    (e e' : Expr) (rest rest' : List ForIt)
    (he : freezeExpr look s e = .ok (e', s1))
    (hr : freezeIts look { s1 with bound := s1.bound ++ Pat.idents p } rest = .ok (rest', s2)) :
    freezeIts look s (.iter k p e :: rest) = .ok (.iter k p e' :: rest', s2) := by
  simp [freezeIts, he, hr]

/-- the text inside `eval "…"` is data: it is not rewritten -/
theorem freeze_eval_text_untouched (look : String → Option V) (s : FState V) (e : Expr) :
    freezeExpr look s (.evalSrc e) = .ok (.evalSrc e, s) := by
  simp [freezeExpr]

/-! ## 3b. parameter type annotations (`\x: t -> …`) are expressions evaluated at call time in the
closure's scope: `freeze` resolves their free variables like the body's, per parameter the annotation
first, then the default -/

/-- a free variable in a parameter's type annotation is replaced by its CURRENT value -/
theorem freezeParams_annotation_free (look : String → Option V) (s : FState V) (x t : String) (sp : Bool)
    (d : Option Expr) (v : V) (rest : List Param)
    (h : s.bound.contains t = false) (hv : look t = some v) :
    freezeParams look s (.mk x d sp (some (.ident t)) :: rest) =
      (match freezeOpt look { s with tab := s.tab ++ [v] } d with
       | .error e => .error e
       | .ok (d', s1) =>
         match freezeParams look s1 rest with
         | .error e => .error e
         | .ok (rest', s2) => .ok (.mk x d' sp (some (.frozen s.tab.length)) :: rest', s2)) := by
  simp only [freezeParams, freezeOpt, freezeExpr, h, hv, Bool.false_eq_true, ↓reduceIte]
  rfl

/-- the one-parameter, no-default instance, in closed form -/
theorem freezeParams_annotation_free_single (look : String → Option V) (s : FState V) (x t : String) (sp : Bool)
    (v : V) (h : s.bound.contains t = false) (hv : look t = some v) :
    freezeParams look s [.mk x none sp (some (.ident t))] =
      .ok ([.mk x none sp (some (.frozen s.tab.length))], { s with tab := s.tab ++ [v] }) := by
  simp [freezeParams, freezeOpt, freezeExpr, not_mem_of_contains h, hv]

/-- a free variable in a type annotation that does not exist outside makes the freeze fail (name error) -/
theorem freezeParams_annotation_unbound_fails (look : String → Option V) (s : FState V) (x t : String)
    (sp : Bool) (d : Option Expr) (rest : List Param)
    (h : s.bound.contains t = false) (hv : look t = none) :
    freezeParams look s (.mk x d sp (some (.ident t)) :: rest) = .error (.unboundFree t) := by
  simp [freezeParams, freezeOpt, freezeExpr, not_mem_of_contains h, hv]

/-- any failure inside an annotation is a failure of the parameter list… -/
theorem freezeParams_fails_annotation (look : String → Option V) (s : FState V) (x : String) (sp : Bool)
    (d : Option Expr) (a : Expr) (rest : List Param) (err : FreezeErr)
    (h : freezeExpr look s a = .error err) :
    freezeParams look s (.mk x d sp (some a) :: rest) = .error err := by
  simp [freezeParams, freezeOpt, h]

/-- …and of the lambda, whatever its body is -/
theorem freeze_lambda_fails_params (look : String → Option V) (s : FState V) (ps : List Param) (body : Expr)
    (err : FreezeErr)
    (hp : freezeParams look { s with bound := s.bound ++ ps.map Param.name } ps = .error err) :
    freezeExpr look s (.lambda ps body) = .error err := by
  simp [freezeExpr, hp]

/-- per parameter: the annotation is frozen first, then the default (the table is threaded in that order) -/
theorem freezeParams_annotation_then_default (look : String → Option V) (s s1 s2 s3 : FState V) (x : String)
    (sp : Bool) (a a' d d' : Expr) (rest rest' : List Param)
    (ha : freezeExpr look s a = .ok (a', s1)) (hd : freezeExpr look s1 d = .ok (d', s2))
    (hr : freezeParams look s2 rest = .ok (rest', s3)) :
    freezeParams look s (.mk x (some d) sp (some a) :: rest) = .ok (.mk x (some d') sp (some a') :: rest', s3) := by
  simp [freezeParams, freezeOpt, ha, hd, hr]

/-- `freeze \x: t -> body` with `t` a free variable: the annotation of the frozen lambda no longer mentions
`t` — it is a `Frozen` node holding the value `t` has NOW; the body is frozen after it -/
theorem freeze_lambda_annotation_resolved (look : String → Option V) (s s3 : FState V) (x t : String) (v : V)
    (body body' : Expr) (hb : s.bound.contains t = false) (hxt : t ≠ x) (hv : look t = some v)
    (hbody : freezeExpr look { bound := s.bound ++ [x], tab := s.tab ++ [v] } body = .ok (body', s3)) :
    freezeExpr look s (.lambda [.mk x none false (some (.ident t))] body) =
      .ok (.lambda [.mk x none false (some (.frozen s.tab.length))] body', { s with tab := s3.tab }) := by
  have hb' : (s.bound ++ [x]).contains t = false := by
    have := not_mem_of_contains hb
    simp [this, hxt]
  have hp := freezeParams_annotation_free_single look { bound := s.bound ++ [x], tab := s.tab } x t false v hb' hv
  simp only [freezeExpr, List.map_cons, List.map_nil, Param.name, hp, hbody]

/-- …and if `t` does not exist the freeze fails at once, although the annotation would only be evaluated
by a call (which may never happen) -/
theorem freeze_lambda_annotation_unbound_fails (look : String → Option V) (s : FState V) (x t : String)
    (body : Expr) (hb : s.bound.contains t = false) (hxt : t ≠ x) (hv : look t = none) :
    freezeExpr look s (.lambda [.mk x none false (some (.ident t))] body) = .error (.unboundFree t) := by
  have hb' : (s.bound ++ [x]).contains t = false := by
    have := not_mem_of_contains hb
    simp [this, hxt]
  exact freeze_lambda_fails_params look s _ body _
    (freezeParams_annotation_unbound_fails look { s with bound := s.bound ++ [x] } x t false none [] hb' hv)

/-! ## 4. failures propagate: if any part fails to freeze, the whole expression fails -/

theorem freeze_op_fails_left (look : String → Option V) (s : FState V) (n : String) (a b : Expr) (err : FreezeErr)
    (h : freezeExpr look s a = .error err) : freezeExpr look s (.op n a b) = .error err := by
  simp [freezeExpr, h]

theorem freeze_op_fails_right (look : String → Option V) (s s1 : FState V) (n : String) (a a' b : Expr)
    (err : FreezeErr) (ha : freezeExpr look s a = .ok (a', s1)) (h : freezeExpr look s1 b = .error err) :
    freezeExpr look s (.op n a b) = .error err := by
  simp [freezeExpr, ha, h]

theorem freeze_seq_fails (look : String → Option V) (s : FState V) (xs : List Expr) (semi : Bool) (err : FreezeErr)
    (h : freezeList look s xs = .error err) : freezeExpr look s (.seq xs semi) = .error err := by
  simp [freezeExpr, h]

theorem freeze_list_fails_head (look : String → Option V) (s : FState V) (x : Expr) (xs : List Expr)
    (err : FreezeErr) (h : freezeExpr look s x = .error err) : freezeList look s (x :: xs) = .error err := by
  simp [freezeList, h]

theorem freeze_list_fails_tail (look : String → Option V) (s s1 : FState V) (x x' : Expr) (xs : List Expr)
    (err : FreezeErr) (hx : freezeExpr look s x = .ok (x', s1)) (h : freezeList look s1 xs = .error err) :
    freezeList look s (x :: xs) = .error err := by
  simp [freezeList, hx, h]

theorem freeze_lambda_fails_body (look : String → Option V) (s s2 : FState V) (ps ps' : List Param) (body : Expr)
    (err : FreezeErr)
    (hp : freezeParams look { s with bound := s.bound ++ ps.map Param.name } ps = .ok (ps', s2))
    (h : freezeExpr look s2 body = .error err) :
    freezeExpr look s (.lambda ps body) = .error err := by
  simp [freezeExpr, hp, h]

/-- …even when the failing part sits in a branch that would never run (freezing is static):
`freeze \ -> (if (0) print(zz))` fails although `zz` would never be evaluated -/
theorem freeze_dead_branch_still_fails (look : String → Option V) (s : FState V) (x : String) (e : Expr)
    (hb : s.bound.contains x = false) (hl : look x = none) :
    freezeExpr look s (.ite (.int 0) (.ident x) (some e)) = .error (.unboundFree x) := by
  simp [freezeExpr, not_mem_of_contains hb, hl]

/-! ## 5. evaluation of frozen code: the base cases of "resolved once, at freeze time" -/

/-- a `Frozen` node evaluates to the stored value, whatever the variables hold now -/
theorem eval_frozen (fuel : Nat) (st : State) (env i : Nat) (v : Val) (h : st.frozenTab[i]? = some v) :
    eval (fuel + 1) st env (.frozen i) = (.val v, st) := by
  simp [eval, h]

/-- the value does not depend on the frames at all: any later reassignment of outer variables (any
other `frames`), any scope (`env`), same result -/
theorem eval_frozen_independent_of_store (fuel : Nat) (st : State) (frames' : Array Frame) (env env' i : Nat) :
    (eval (fuel + 1) { st with frames := frames' } env' (.frozen i)).1 = (eval (fuel + 1) st env (.frozen i)).1 := by
  simp [eval]

/-- freezing a free variable and evaluating the result at once gives what the variable evaluates to -/
theorem freeze_ident_preserves (fuel : Nat) (st : State) (env : Nat) (x : String) (v : Val)
    (hv : st.lookup env x = some v) :
    (eval (fuel + 2) st env (.freeze (.ident x))).1 = (eval (fuel + 1) st env (.ident x)).1 := by
  simp [eval, freezeExpr, hv]

/-- freezing an unknown name raises at freeze time -/
theorem freeze_unbound_raises (fuel : Nat) (st : State) (env : Nat) (x : String)
    (hv : st.lookup env x = none) (hb : builtinNames.contains x = false) :
    eval (fuel + 1) st env (.freeze (.ident x)) = (.thrown .err, st) := by
  simp [eval, freezeExpr, hv, not_mem_of_contains hb]

/-- freezing code that assigns to an outer variable raises at freeze time, before anything runs -/
theorem freeze_assign_outer_raises (fuel : Nat) (st : State) (env : Nat) (x : String) (rhs : Expr) (ps : List Param)
    (hx : (ps.map Param.name).contains x = false)
    (hp : ∀ p ∈ ps, p.dflt = none) (ha : ∀ p ∈ ps, p.ann = none) :
    eval (fuel + 1) st env (.freeze (.lambda ps (.assign x rhs))) = (.thrown .err, st) := by
  have hx' : ∀ p ∈ ps, ¬ p.name = x := by
    have := not_mem_of_contains hx
    intro p hpm hn
    exact this (by simpa using ⟨p, hpm, hn⟩)
  have hif : (∀ (p : Param), p ∈ ps → ¬p.name = x) = True := by simp; exact hx'
  simp [eval, freezeExpr, freezeParams_no_defaults _ _ ps hp ha, hif]

/-- freezing a lambda whose parameter annotation names an unknown variable raises at freeze time -/
theorem freeze_annotation_unbound_raises (fuel : Nat) (st : State) (env : Nat) (x t : String) (body : Expr)
    (hv : st.lookup env t = none) (hb : builtinNames.contains t = false) (hxt : t ≠ x) :
    eval (fuel + 1) st env (.freeze (.lambda [.mk x none false (some (.ident t))] body)) = (.thrown .err, st) := by
  have hfz : ∀ look' : String → Option Val, look' t = none →
      freezeExpr look' { bound := [], tab := st.frozenTab } (.lambda [.mk x none false (some (.ident t))] body)
        = .error (.unboundFree t) :=
    fun look' hl => freeze_lambda_annotation_unbound_fails look' _ x t body (by simp) hxt hl
  simp only [eval]
  rw [hfz _ (by simp [hv, not_mem_of_contains hb])]

/-- at call time the frozen annotation is a table lookup: whatever the outer variables hold by then (any
`frames'`), in whatever scope, the annotation list of the call evaluates to the type stored at freeze time -/
theorem frozen_annotation_independent_of_store (fuel : Nat) (st : State) (frames' : Array Frame) (env env' i : Nat)
    (v : Val) (h : st.frozenTab[i]? = some v) :
    (evalList (fuel + 2) { st with frames := frames' } env' [.frozen i]).1 = .ok [v] ∧
    (evalList (fuel + 2) st env [.frozen i]).1 = .ok [v] := by
  simp [evalList, eval, h]

/-! ## 6. the full statements (not proved in general; see DESIGN.md C17 and known findings F20/F27) -/

/-- semantic preservation: evaluating the frozen form equals evaluating the original, in the state of
the freeze.  FALSE on the current code when the expression refers to a local that is declared textually
later in an enclosing scope (F20) or shadows an outer name inside its own initialiser (F27). -/
def freeze_preserves_statement : Prop :=
  ∀ (fuel : Nat) (st : State) (env : Nat) (e : Expr),
    (eval fuel st env (.freeze e)).1 ≠ .fuelOut →
    (∀ r, (eval fuel st env (.freeze e)).1 = r → ∃ fuel', (eval fuel' st env e).1 = r)

/-! ## 7. non-vacuity (kernel-evaluated): a frozen closure keeps the value an outer variable had when
it was frozen; the unfrozen twin sees the reassignment -/
example :
    (runProgram 60 (.seq [
        .declare (.ident "o") (.int 5),
        .declare (.ident "h") (.freeze (.lambda [.mk "a" none false none] (.op "+" (.ident "a") (.ident "o")))),
        .declare (.ident "g") (.lambda [.mk "a" none false none] (.op "+" (.ident "a") (.ident "o"))),
        .assign "o" (.int 50),
        .list [.call (.ident "h") [.int 1], .call (.ident "g") [.int 1]]] false)).1
      matches .val (.list [.int 6, .int 51]) := by decide +kernel

/-- the same for a parameter TYPE ANNOTATION (seeded change C17-a2): `ty := int; h := freeze \x: ty -> x + 1;
g := \x: ty -> x + 1; ty = str; [h(3), try g(3) catch _ -> "E"]` — the frozen function still accepts the
integer, its unfrozen twin now demands a string and raises -/
example :
    (runProgram 60 (.seq [
        .declare (.ident "ty") (.ident "int"),
        .declare (.ident "h") (.freeze (.lambda [.mk "x" none false (some (.ident "ty"))] (.op "+" (.ident "x") (.int 1)))),
        .declare (.ident "g") (.lambda [.mk "x" none false (some (.ident "ty"))] (.op "+" (.ident "x") (.int 1))),
        .assign "ty" (.ident "str"),
        .list [.call (.ident "h") [.int 3], .try_ (.call (.ident "g") [.int 3]) .underscore (.str "E")]] false)).1
      matches .val (.list [.int 4, .str "E"]) := by decide +kernel

/-- an unknown name in a parameter annotation fails AT the freeze, the function is never made:
`ok := 1; try (f := freeze \x: nosuchtype -> x) catch _ -> (ok = 0); ok` -/
example :
    (runProgram 60 (.seq [
        .declare (.ident "ok") (.int 1),
        .try_ (.declare (.ident "f") (.freeze (.lambda [.mk "x" none false (some (.ident "nosuchtype"))] (.ident "x"))))
          .underscore (.assign "ok" (.int 0)),
        .ident "ok"] false)).1
      matches .val (.int 0) := by decide +kernel

/-- …whereas the unfrozen lambda is made without complaint (the annotation is only looked at by a call) -/
example :
    (runProgram 60 (.seq [
        .declare (.ident "ok") (.int 1),
        .try_ (.declare (.ident "f") (.lambda [.mk "x" none false (some (.ident "nosuchtype"))] (.ident "x")))
          .underscore (.assign "ok" (.int 0)),
        .ident "ok"] false)).1
      matches .val (.int 1) := by decide +kernel

end Noulith.C17
