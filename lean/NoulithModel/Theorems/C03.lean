/-
C03 — Infix chains group by the operators' runtime precedence and associativity.

Objects (see the files for the transcription notes):
  Impl   `Noulith.Chain.evalChain`  = ChainEvaluator::{new, give, finish}   (Impl/Chain.lean)
         `Noulith.Chain.chainArm`   = the `Expr::Chain` arm of `evaluate`
         `Noulith.Chain.runChainSection` = `Func::ChainSection` in `Func::run`
  Spec   `Noulith.Chain.Valid`      = declarative grouping predicate on trees (Spec/ChainTree.lean)
         `Noulith.Chain.climb`      = precedence climbing (second, executable spec)
         `Noulith.Chain.semM`       = bottom-up value of a tree (post-order, first failure wins)

Everything is proved for EVERY chain length, EVERY assignment of precedences (ties and NaN
included), EVERY mix of associativities, EVERY `tryChain : F → F → Option F` and EVERY
interpretation `run : F → List V → Out V` of the operators (including failing ones).
-/
import NoulithModel.Lemmas.C03Arm
import NoulithModel.Lemmas.C03ArmS
import NoulithModel.Lemmas.C03Climb
import NoulithModel.Generated.C03Tables
import NoulithModel.Spec.ChainTables

namespace Noulith.Chain.C03
open Noulith Noulith.Chain Noulith.Chain.Tree

/-! ## 1. the tightness test -/

/-- comparable precedences: strictly greater wins, a tie is decided by the LEFT operator's
associativity -/
theorem tighter_fin (a b : Int) (x y : Assoc) :
    tighter ⟨.fin a, x⟩ ⟨.fin b, y⟩ = (decide (a > b) || (decide (a = b) && decide (x = .left))) := by
  unfold tighter Prec.partialCmp
  simp only [compare, compareOfLessAndEq]
  by_cases h1 : a < b
  · have : ¬ a > b := by omega
    have : ¬ a = b := by omega
    simp [*]
  · by_cases h2 : a = b
    · subst h2; cases x <;> simp
    · have : a > b := by omega
      simp [*]

/-- NaN on either side: only the left operator's associativity decides ("oh my god nan as a
precedence") -/
theorem tighter_nan_left (o : Precedence) (x : Assoc) :
    tighter ⟨.nan, x⟩ o = decide (x = .left) := by
  unfold tighter Prec.partialCmp; cases x <;> simp
theorem tighter_nan_right (p : Prec) (x y : Assoc) :
    tighter ⟨p, x⟩ ⟨.nan, y⟩ = decide (x = .left) := by
  unfold tighter Prec.partialCmp; cases p <;> cases x <;> simp

/-- the right operator's associativity never matters -/
theorem tighter_right_assoc_irrelevant (s : Precedence) (p : Prec) (y y' : Assoc) :
    tighter s ⟨p, y⟩ = tighter s ⟨p, y'⟩ := rfl

/-- only the ORDER of the precedence values matters (this is what licenses modelling the `f64`
by its rank): any strictly monotone relabelling leaves `tighter` unchanged -/
def Prec.relabel (φ : Int → Int) : Prec → Prec
  | .nan => .nan
  | .fin r => .fin (φ r)
theorem tighter_order_only (φ : Int → Int) (hφ : ∀ a b, a < b ↔ φ a < φ b) (s o : Precedence) :
    tighter ⟨Prec.relabel φ s.p, s.a⟩ ⟨Prec.relabel φ o.p, o.a⟩ = tighter s o := by
  obtain ⟨sp, sa⟩ := s
  obtain ⟨op, oa⟩ := o
  cases sp with
  | nan => simp [Prec.relabel, tighter_nan_left]
  | fin a =>
    cases op with
    | nan => simp [Prec.relabel, tighter_nan_right]
    | fin b =>
      simp only [Prec.relabel, tighter_fin]
      have h1 : (φ a > φ b) ↔ (a > b) := (hφ b a).symm
      have h2 : (φ a = φ b) ↔ (a = b) := by
        constructor
        · intro h
          have := hφ a b; have := hφ b a; omega
        · intro h; rw [h]
      simp [h1, h2]

/-! ## 2. the evaluator groups by `Valid`, and `Valid` determines the tree -/

section main
variable {F L V : Type} (run : F → List V → Out V) (tc : F → F → Option F) (lv : L → V)

/-- **shunt_valid**.  For every chain and every interpretation, `ChainEvaluator` returns the
bottom-up value of a tree that (a) satisfies the declarative grouping predicate and (b) has
exactly the chain as its in-order yield. -/
theorem shunt_valid (c : ChainOf F L) :
    ∃ t : Tree F L, Valid tc t ∧ yield t = c.syms ∧
      evalChain run tc (lv c.first) (givenOps lv c.rest) = semM run tc lv t :=
  ⟨shunt tc c, shunt_is_valid tc c, shunt_yield tc c, evalChain_eq_sem run tc lv c⟩

/-- **valid_unique**.  The grouping predicate determines the tree: two valid trees over the same
chain are equal — for an arbitrary `tryChain` and all precedences (no transitivity of `tighter`
is used, so NaN is covered). -/
theorem valid_unique (t₁ t₂ : Tree F L) (h₁ : Valid tc t₁) (h₂ : Valid tc t₂)
    (hy : yield t₁ = yield t₂) : t₁ = t₂ := by
  have hc : chain t₁ = chain t₂ := by
    apply syms_inj
    rw [← yield_eq_syms, ← yield_eq_syms, hy]
  rw [← shunt_of_valid tc t₁ h₁, ← shunt_of_valid tc t₂ h₂, hc]

/-- hence: the evaluator computes the value of THE valid tree of the chain -/
theorem evalChain_is_the_valid_tree (t : Tree F L) (hv : Valid tc t) :
    evalChain run tc (lv (first t)) (givenOps lv (rest t)) = semM run tc lv t := by
  have := evalChain_eq_sem run tc lv (chain t)
  rw [shunt_of_valid tc t hv] at this
  exact this

/-- **reduction order is post-order**: `semM` applies the operators bottom-up, operands left to
right, and stops at the first failing application; the evaluator — whose applications happen
while later operators are still arriving — produces the same outcome for every (failing)
interpretation, i.e. the first application to fail and its failure class coincide. -/
theorem reduction_order_is_postorder (c : ChainOf F L) :
    evalChain run tc (lv c.first) (givenOps lv c.rest) = semM run tc lv (shunt tc c) :=
  evalChain_eq_sem run tc lv c

/-- precedence climbing and the declarative predicate agree (all precedences, NaN included) -/
theorem valid_iff_climb (t : Tree F L) :
    Valid tc t ↔ climbTree tc (chain t) = t := by
  constructor
  · intro hv; exact climbTree_of_valid tc t hv
  · intro h
    have : climbTree tc (chain t) = shunt tc (chain t) := climbTree_eq_shunt tc (chain t)
    rw [← h, this]; exact shunt_is_valid tc _

/-- so the harness's oracle (`climbTree` + `semM`) is the evaluator, for every input -/
theorem evalChain_eq_climb (c : ChainOf F L) :
    evalChain run tc (lv c.first) (givenOps lv c.rest) = semM run tc lv (climbTree tc c) := by
  rw [climbTree_eq_shunt]; exact evalChain_eq_sem run tc lv c

end main

/-- **well_behaved_corollary**: with comparable (non-NaN) precedences the context test of the
climbing spec is the textbook one — stop when the next operator binds less than the context, or
equally and the context is left-associative — and then `Valid` ⇔ textbook climbing. -/
theorem stops_textbook {F : Type} (p q : Int) (a : Assoc) (h : Op F) (hq : h.prec.p = .fin q) :
    stops (some ⟨.fin p, a⟩) h = (decide (q < p) || (decide (q = p) && decide (a = .left))) := by
  obtain ⟨fn, ⟨hp, ha⟩⟩ := h
  simp only at hq
  subst hq
  simp only [stops, tighter_fin]
  have : (p = q) ↔ (q = p) := eq_comm
  simp [this]

theorem well_behaved_corollary {F L : Type} (tc : F → F → Option F) (t : Tree F L) :
    (Valid tc t ↔ climbTree tc (chain t) = t) ∧
    (∀ (p q : Int) (a : Assoc) (h : Op F), h.prec.p = .fin q →
      stops (some ⟨.fin p, a⟩) h = (decide (q < p) || (decide (q = p) && decide (a = .left)))) :=
  ⟨valid_iff_climb tc t, fun p q a h hq => stops_textbook p q a h hq⟩

/-! ## 3. the `Expr::Chain` arm -/

/-- without `_` operands the expected trace is simply every sub-expression -/
theorem flatMap_no_holes {E F V : Type} (I : Lang E F V) : ∀ (ops : List (E × E)),
    ops.any (fun p => I.isUnderscore p.2) = false →
    ops.flatMap (fun p => if I.isUnderscore p.2 then [p.1] else [p.1, p.2]) =
      ops.flatMap (fun p => [p.1, p.2]) := by
  intro ops
  induction ops with
  | nil => intro _; rfl
  | cons p ops ih =>
    intro h
    simp only [List.any_cons, Bool.or_eq_false_iff] at h
    simp [h.1, ih h.2]

section arm
variable {E F V : Type} (I : Lang E F V)

/-- the trace of the arm is always a prefix of "every non-hole sub-expression once, in source
order" … -/
theorem each_operand_at_most_once_in_order (op1 : E) (ops : List (E × E)) :
    (chainArm I op1 ops).1 <+: expectedTrace I op1 ops := by
  unfold chainArm expectedTrace
  by_cases hs : (I.isUnderscore op1 || ops.any (fun p => I.isUnderscore p.2)) = true
  · simp only [hs, if_true, sectionPath]
    cases hu : I.isUnderscore op1
    · simp only [Bool.false_eq_true, if_false, List.cons_append, List.nil_append]
      rw [show (Tr.bind (Tr.bind (evalT I op1) fun v => Tr.pure (some v)) fun v1 =>
            Tr.bind (sectionOps I ops) fun acc => Tr.pure (I.mkSection v1 acc)) =
          Tr.bind (evalT I op1) fun v => Tr.bind (sectionOps I ops) fun acc =>
            Tr.pure (I.mkSection (some v) acc) by
        unfold evalT Tr.bind; cases I.evaluate op1 <;> simp [Tr.pure]]
      apply evalT_bind_prefix
      intro v
      have := sectionOps_prefix I ops
      rcases hso : sectionOps I ops with ⟨l, o⟩
      rw [hso] at this
      cases o <;> simpa [Tr.bind, Tr.pure] using this
    · simp only [if_true, Tr.bind_pure, List.nil_append]
      have := sectionOps_prefix I ops
      rcases hso : sectionOps I ops with ⟨l, o⟩
      rw [hso] at this
      cases o <;> simpa [Tr.bind, Tr.pure] using this
  · simp only [hs, Bool.false_eq_true, if_false]
    simp only [Bool.or_eq_true, not_or, Bool.not_eq_true] at hs
    obtain ⟨h1, h2⟩ := hs
    have hflat : ops.flatMap (fun p => if I.isUnderscore p.2 then [p.1] else [p.1, p.2]) =
        ops.flatMap (fun p => [p.1, p.2]) := by
      exact flatMap_no_holes I ops h2
    simp only [h1, Bool.false_eq_true, if_false, hflat, List.cons_append, List.nil_append]
    split
    · -- fast path
      rename_i oper opd
      simp only [fastPath, List.flatMap_cons, List.flatMap_nil, List.append_nil]
      apply evalT_bind_prefix; intro lhs
      apply evalT_bind_prefix; intro oprr
      cases I.asFunc oprr with
      | none => simp [Tr.fail]
      | some bp =>
        simp only
        apply evalT_bind_prefix; intro oprd
        simp [Tr.lift]
    · simp only [generalPath]
      apply evalT_bind_prefix; intro v1
      exact generalLoop_prefix I ops _

/-- … and when the chain produces a value it is exactly that: **every operand and operator
expression is evaluated exactly once, left to right**. -/
theorem each_operand_once_in_order (op1 : E) (ops : List (E × E)) (r : V)
    (h : (chainArm I op1 ops).2 = .ok r) :
    (chainArm I op1 ops).1 = expectedTrace I op1 ops := by
  unfold chainArm expectedTrace at *
  by_cases hs : (I.isUnderscore op1 || ops.any (fun p => I.isUnderscore p.2)) = true
  · simp only [hs, if_true, sectionPath] at h ⊢
    cases hu : I.isUnderscore op1
    · simp only [hu, Bool.false_eq_true, if_false, List.cons_append, List.nil_append] at h ⊢
      have hre : (Tr.bind (Tr.bind (evalT I op1) fun v => Tr.pure (some v)) fun v1 =>
            Tr.bind (sectionOps I ops) fun acc => Tr.pure (I.mkSection v1 acc)) =
          Tr.bind (evalT I op1) fun v => Tr.bind (sectionOps I ops) fun acc =>
            Tr.pure (I.mkSection (some v) acc) := by
        unfold evalT Tr.bind; cases I.evaluate op1 <;> simp [Tr.pure]
      rw [hre] at h ⊢
      apply evalT_bind_complete I op1 _ _ r _ h
      intro v h1
      have := sectionOps_complete I ops
      rcases hso : sectionOps I ops with ⟨l, o⟩
      rw [hso] at this h1
      cases o with
      | ok acc => simpa [Tr.bind, Tr.pure] using this acc rfl
      | throw => simp [Tr.bind] at h1
      | panic => simp [Tr.bind] at h1
    · simp only [hu, if_true, Tr.bind_pure, List.nil_append] at h ⊢
      have := sectionOps_complete I ops
      rcases hso : sectionOps I ops with ⟨l, o⟩
      rw [hso] at this h
      cases o with
      | ok acc => simpa [Tr.bind, Tr.pure] using this acc rfl
      | throw => simp [Tr.bind] at h
      | panic => simp [Tr.bind] at h
  · simp only [hs, Bool.false_eq_true, if_false] at h ⊢
    simp only [Bool.or_eq_true, not_or, Bool.not_eq_true] at hs
    obtain ⟨h1, h2⟩ := hs
    have hflat : ops.flatMap (fun p => if I.isUnderscore p.2 then [p.1] else [p.1, p.2]) =
        ops.flatMap (fun p => [p.1, p.2]) := by
      exact flatMap_no_holes I ops h2
    simp only [h1, Bool.false_eq_true, if_false, hflat, List.cons_append, List.nil_append]
    split at h
    · rename_i oper opd
      simp only [fastPath, List.flatMap_cons, List.flatMap_nil, List.append_nil] at h ⊢
      apply evalT_bind_complete I op1 _ _ r _ h; intro lhs h3
      apply evalT_bind_complete I oper _ _ r _ h3; intro oprr h4
      cases hf : I.asFunc oprr with
      | none => simp [hf, Tr.fail] at h4
      | some bp =>
        simp only [hf] at h4 ⊢
        apply evalT_bind_complete I opd _ _ r _ h4; intro oprd _
        simp [Tr.lift]
    · simp only [generalPath] at h ⊢
      apply evalT_bind_complete I op1 _ _ r _ h; intro v1 h3
      exact generalLoop_complete I ops _ r h3

/-- **fast_path_agrees**: the one-operator micro-optimisation (`run2`, precedence ignored) is the
general path, provided `run2 f a b` is `run f [a, b]` (the `Builtin` trait's default; C04's
subject for the builtins that override it). -/
theorem fast_path_agrees (hrun2 : ∀ f a b, I.run2 f a b = I.run f [a, b]) (op1 oper opd : E) :
    fastPath I op1 oper opd = generalPath I op1 [(oper, opd)] := by
  unfold fastPath generalPath
  congr 1; funext lhs
  simp only [generalLoop]
  congr 1; funext oprr
  cases I.asFunc oprr with
  | none => rfl
  | some bp =>
    obtain ⟨b, prec⟩ := bp
    simp only
    congr 1; funext oprd
    simp [CE.give, CE.new, giveLoop, CE.finish, finishLoop, runTopPopped, hrun2,
      Out.bind_ok_right]

/-- the arm never depends on which of the two non-section paths is taken -/
theorem chainArm_eq_generalPath (hrun2 : ∀ f a b, I.run2 f a b = I.run f [a, b]) (op1 : E)
    (ops : List (E × E))
    (hno : (I.isUnderscore op1 || ops.any (fun p => I.isUnderscore p.2)) = false) :
    chainArm I op1 ops = generalPath I op1 ops := by
  unfold chainArm
  simp only [hno, Bool.false_eq_true, if_false]
  split
  · exact fast_path_agrees I hrun2 _ _ _
  · rfl

/-- **section_agrees**: a section applied to as many arguments as it has holes runs the general
evaluator on the chain with the holes filled left to right … -/
theorem section_agrees_some (x : V) (ops : List (F × Precedence × Option V)) (args : List V)
    (h : args.length = holesOf ops) :
    runChainSection I (some x) ops args = evalChain I.run I.tryChain x (fillOps ops args) := by
  unfold runChainSection evalChain
  simp only
  rw [sectionGives_enough I ops args _ (by omega), Out.bind_assoc]
  congr 1; funext ce'
  rw [Out.bind_ok, List.drop_eq_nil_of_le (by omega)]
theorem section_agrees_none (a : V) (ops : List (F × Precedence × Option V)) (args : List V)
    (h : args.length = holesOf ops) :
    runChainSection I none ops (a :: args) = evalChain I.run I.tryChain a (fillOps ops args) := by
  unfold runChainSection evalChain
  simp only
  rw [sectionGives_enough I ops args _ (by omega), Out.bind_assoc]
  congr 1; funext ce'
  rw [Out.bind_ok, List.drop_eq_nil_of_le (by omega)]

/-- … and with any other number of arguments it never produces a value -/
theorem section_wrong_arity (seed : Option V) (ops : List (F × Precedence × Option V))
    (args : List V)
    (h : args.length ≠ holesOf ops + (if seed.isNone then 1 else 0)) :
    ∀ v, runChainSection I seed ops args ≠ .ok v := by
  intro v
  have key : ∀ (x : V) (it : List V), it.length ≠ holesOf ops →
      ((sectionGives I ops it (CE.new x)).bind fun (p : CE F V × List V) =>
        match p.2 with
        | [] => p.1.finish I.run
        | _ :: _ => .throw) ≠ .ok v := by
    intro x it hne
    by_cases hlt : it.length < holesOf ops
    · cases hsg : sectionGives I ops it (CE.new x) with
      | ok r => exact absurd hsg (sectionGives_few I ops it _ hlt r)
      | throw => simp
      | panic => simp
    · rw [sectionGives_enough I ops it _ (by omega), Out.bind_assoc]
      cases hg : giveAll I.run I.tryChain (fillOps ops it) (CE.new x) with
      | ok ce' =>
        simp only [Out.bind_ok]
        have : it.drop (holesOf ops) ≠ [] := by
          intro hd
          have := List.drop_eq_nil_iff.mp hd
          omega
        cases hdr : it.drop (holesOf ops) with
        | nil => exact absurd hdr this
        | cons _ _ => simp
      | throw => simp
      | panic => simp
  unfold runChainSection
  cases seed with
  | some x =>
    simp only [Option.isNone_some, Bool.false_eq_true, if_false, Nat.add_zero] at h
    exact key x args h
  | none =>
    cases args with
    | nil => simp
    | cons a it =>
      simp only [Option.isNone_none, if_true, List.length_cons] at h
      exact key a it (by omega)

/-- the value of a direct chain whose sub-expressions all evaluate: the evaluator on the
evaluated operators and operands (hence, by `shunt_valid`, the value of the valid tree) -/
theorem direct_chain_value (hrun2 : ∀ f a b, I.run2 f a b = I.run f [a, b]) (op1 : E)
    (ops : List (E × E)) (v1 : V) (acc : List (F × Precedence × Option V))
    (hno : (I.isUnderscore op1 || ops.any (fun p => I.isUnderscore p.2)) = false)
    (h1 : I.evaluate op1 = .ok v1) (hops : evalOps I ops = some acc) :
    (chainArm I op1 ops).2 = evalChain I.run I.tryChain v1 (fillOps acc []) := by
  rw [chainArm_eq_generalPath I hrun2 op1 ops hno]
  simp only [Bool.or_eq_false_iff] at hno
  unfold generalPath evalT Tr.bind
  simp only [h1]
  rw [generalLoop_value I ops acc _ hno.2 hops]
  rfl

/-- a chain with `_` operands evaluates its other sub-expressions and yields the section -/
theorem section_value (op1 : E) (ops : List (E × E)) (acc : List (F × Precedence × Option V))
    (seed : Option V)
    (hsec : (I.isUnderscore op1 || ops.any (fun p => I.isUnderscore p.2)) = true)
    (h1 : if I.isUnderscore op1 then seed = none else I.evaluate op1 = .ok (seed.getD (I.mkSection none [])) ∧ seed.isSome)
    (hops : evalOps I ops = some acc) :
    (chainArm I op1 ops).2 = .ok (I.mkSection seed acc) := by
  unfold chainArm
  simp only [hsec, if_true, sectionPath]
  have hso := sectionOps_value I ops acc hops
  rcases hs : sectionOps I ops with ⟨l, o⟩
  rw [hs] at hso
  simp only at hso
  subst hso
  cases hu : I.isUnderscore op1
  · simp only [hu, Bool.false_eq_true, if_false] at h1 ⊢
    obtain ⟨he, hsome⟩ := h1
    cases seed with
    | none => simp at hsome
    | some x =>
      simp only [Option.getD_some] at he
      simp [evalT, Tr.bind, Tr.pure, he]
  · simp only [hu, if_true] at h1 ⊢
    subst h1
    simp [Tr.bind, Tr.pure]

end arm

/-! ## 3b. operands with effects: every operator is looked up at its position

`chainArmS` is the arm with an interpreter state threaded through `evaluate` (an operand may
reassign an operator of its own chain, or its `::precedence`). -/

section armS
variable {σ E F V : Type} (J : LangS σ E F V)

/-- **each_operator_looked_up_at_its_position**.  A direct chain is the evaluator run on the
(function, precedence, operand) triples of `resolveOps`: the operator of position `i` is the value
its expression has in the state left by `e0 f1 e1 … e(i-1)` — after operand `i-1`, before operand
`i`, evaluated afresh at every position (nothing is carried over from an earlier occurrence of
the same identifier) — and, by `shunt_valid`, the chain's value is the value of the valid tree over
THOSE operators.  If a value results, the final state is the one after the last operand. -/
theorem each_operator_looked_up_at_its_position
    (hrun2 : ∀ f a b, J.run2 f a b = J.run f [a, b]) (op1 : E) (ops : List (E × E))
    (s s1 s2 : σ) (v1 : V) (ts : List (F × Precedence × V))
    (hno : (J.isUnderscore op1 || ops.any (fun p => J.isUnderscore p.2)) = false)
    (h1 : J.evaluate op1 s = (.ok v1, s1)) (hr : resolveOps J ops s1 = (some ts, s2)) :
    (chainArmS J op1 ops s).1 = evalChain J.run J.tryChain v1 ts ∧
    (∀ r, (chainArmS J op1 ops s).1 = .ok r → (chainArmS J op1 ops s).2 = s2) :=
  chainArmS_resolved J hrun2 op1 ops s s1 s2 v1 ts hno h1 hr

/-- **lookup order = operator order interleaved with operand order**: recording every call of
`evaluate` in the state, a chain that produces a value has made exactly the calls
`e0, f1, e1, f2, e2, …` in this order — one lookup per operator position -/
theorem lookup_order_is_source_order
    (hrun2 : ∀ f a b, J.run2 f a b = J.run f [a, b]) (op1 : E) (ops : List (E × E))
    (s s1 s2 : σ) (v1 : V) (ts : List (F × Precedence × V)) (r : V)
    (hno : (J.isUnderscore op1 || ops.any (fun p => J.isUnderscore p.2)) = false)
    (h1 : J.evaluate op1 s = (.ok v1, s1)) (hr : resolveOps J ops s1 = (some ts, s2))
    (hok : (chainArmS J.traced op1 ops (s, [])).1 = .ok r) :
    (chainArmS J.traced op1 ops (s, [])).2 = (s2, op1 :: ops.flatMap (fun p => [p.1, p.2])) := by
  have h1' : J.traced.evaluate op1 (s, []) = (.ok v1, (s1, [op1])) := by
    simp [LangS.traced, h1]
  have hr' := resolve_traced J ops s1 s2 ts [op1] hr
  have := (chainArmS_resolved J.traced hrun2 op1 ops (s, []) (s1, [op1])
    (s2, [op1] ++ ops.flatMap (fun p => [p.1, p.2])) v1 ts hno h1' hr').2 r hok
  simpa using this

/-- the stateless transcription (sections 3 above) is the special case of an `evaluate` that
does not depend on the state -/
theorem stateless_arm_is_special_case (I : Lang E F V) (op1 : E) (ops : List (E × E)) (s : σ) :
    chainArmS (I.toS (σ := σ)) op1 ops s = ((chainArm I op1 ops).2, s) :=
  chainArmS_of_pure I op1 ops s

/-- the fast path and the general path agree in the stateful arm too -/
theorem fast_path_agrees_stateful (hrun2 : ∀ f a b, J.run2 f a b = J.run f [a, b])
    (op1 oper opd : E) : fastPathS J op1 oper opd = generalPathS J op1 [(oper, opd)] :=
  fast_path_agrees_S J hrun2 op1 oper opd

end armS

/-! ## 3c. op-assignments on a precedence -/

/-- **failed_precedence_opassign_preserves**: an op-assignment `f::precedence op= v` that does not
complete (its operator function raises or panics, or its result is not a number) leaves the
operator with the precedence — and associativity — it had -/
theorem failed_precedence_opassign_preserves (pr : Precedence)
    (combine : Prec → Precedence → Out (Option Prec))
    (h : (precedenceOpAssign pr combine).1 ≠ .ok ()) : (precedenceOpAssign pr combine).2 = pr := by
  unfold precedenceOpAssign at *
  simp only [setPrecedence] at *
  cases hc : combine pr.p pr with
  | ok o => cases o with
    | none => simp
    | some p => simp [hc] at h
  | throw => simp
  | panic => simp

/-- while the operator function of the op-assignment runs, the operator still carries its OLD
precedence (dropping a precedence is a no-op), and a completed op-assignment stores exactly the
function's result, keeping the associativity -/
theorem opassign_operator_sees_old_precedence (pr : Precedence)
    (combine : Prec → Precedence → Out (Option Prec)) :
    precedenceOpAssign pr combine =
      match combine pr.p pr with
      | .ok (some p) => (.ok (), ⟨p, pr.a⟩)
      | .ok none => (.throw, pr)
      | .throw => (.throw, pr)
      | .panic => (.panic, pr) := by
  unfold precedenceOpAssign
  simp only [setPrecedence]
  cases combine pr.p pr with
  | ok o => cases o <;> rfl
  | throw => rfl
  | panic => rfl

-- non-vacuity: a failing and a succeeding op-assignment on precedence 5
example : precedenceOpAssign ⟨.fin 5, .right⟩ (fun _ _ => .throw) = (.throw, ⟨.fin 5, .right⟩) := rfl
example : precedenceOpAssign ⟨.fin 5, .right⟩ (fun old _ => .ok (some (match old with | .fin r => .fin (r + 2) | .nan => .nan)))
    = (.ok (), ⟨.fin 7, .right⟩) := rfl

/-! ## 4. `LvalueChainEvaluator` is the same evaluator -/

/-- destructuring chains group exactly like expression chains (C12 uses this) -/
theorem lvalue_chain_groups_alike {B A L : Type} (tc : LFunc B → LFunc B → Option (LFunc B))
    (lv : L → ELvalue B A) (c : ChainOf (LFunc B) L) :
    evalLvalueChain tc (lv c.first) (givenOps lv c.rest) = semM lvalueRun tc lv (climbTree tc c) :=
  evalChain_eq_climb lvalueRun tc lv c

/-! ## 4b. the property, in one statement -/

/-- C03 at full strength over the transcription: (a) grouping — the evaluator's outcome under
any interpretation is the bottom-up value of THE tree over the chain that satisfies the declarative
predicate, which is also what precedence climbing builds; (b) every sub-expression is evaluated
exactly once, left to right; (c) a direct chain is the evaluator on the evaluated operands; (d) a
section applied later is the evaluator on the chain with the holes filled. -/
def C03_statement : Prop :=
  (∀ (F L V : Type) (run : F → List V → Out V) (tc : F → F → Option F) (lv : L → V)
      (c : ChainOf F L),
    ∃ t : Tree F L, Valid tc t ∧ yield t = c.syms ∧
      (∀ t', Valid tc t' → yield t' = c.syms → t' = t) ∧ climbTree tc c = t ∧
      evalChain run tc (lv c.first) (givenOps lv c.rest) = semM run tc lv t) ∧
  (∀ (E F V : Type) (I : Lang E F V) (op1 : E) (ops : List (E × E)) (r : V),
    (chainArm I op1 ops).2 = .ok r → (chainArm I op1 ops).1 = expectedTrace I op1 ops) ∧
  (∀ (E F V : Type) (I : Lang E F V), (∀ f a b, I.run2 f a b = I.run f [a, b]) →
    ∀ (op1 : E) (ops : List (E × E)) (v1 : V) (acc : List (F × Precedence × Option V)),
      (I.isUnderscore op1 || ops.any (fun p => I.isUnderscore p.2)) = false →
      I.evaluate op1 = .ok v1 → evalOps I ops = some acc →
      (chainArm I op1 ops).2 = evalChain I.run I.tryChain v1 (fillOps acc [])) ∧
  (∀ (E F V : Type) (I : Lang E F V) (ops : List (F × Precedence × Option V)) (args : List V),
    args.length = holesOf ops →
    (∀ x, runChainSection I (some x) ops args = evalChain I.run I.tryChain x (fillOps ops args)) ∧
    (∀ a, runChainSection I none ops (a :: args) = evalChain I.run I.tryChain a (fillOps ops args)))

theorem C03_holds : C03_statement := by
  refine ⟨?_, ?_, ?_, ?_⟩
  · intro F L V run tc lv c
    refine ⟨shunt tc c, shunt_is_valid tc c, shunt_yield tc c, ?_, climbTree_eq_shunt tc c,
      evalChain_eq_sem run tc lv c⟩
    intro t' hv hy
    exact valid_unique tc t' (shunt tc c) hv (shunt_is_valid tc c) (by rw [hy, shunt_yield])
  · intro E F V I op1 ops r h; exact each_operand_once_in_order I op1 ops r h
  · intro E F V I hrun2 op1 ops v1 acc hno h1 hops
    exact direct_chain_value I hrun2 op1 ops v1 acc hno h1 hops
  · intro E F V I ops args h
    exact ⟨fun x => section_agrees_some I x ops args h, fun a => section_agrees_none I a ops args h⟩

/-! ## 5. registration facts, re-checked against the regenerated tables -/

section tables
open Gen

/-- every `env.insert_*builtin*` call was classified by the extractor -/
theorem all_registrations_classified : registrations.all (·.known) = true := by decide +kernel

/-- the generated constants are the ones the model's `default_precedence` uses -/
theorem constants_agree :
    (Gen.DEFAULT_PRECEDENCE, Gen.COMPARISON_PRECEDENCE, Gen.STRING_PRECEDENCE, Gen.OR_PRECEDENCE,
      Gen.PLUS_PRECEDENCE, Gen.MULTIPLY_PRECEDENCE, Gen.EXPONENT_PRECEDENCE, Gen.INDEX_PRECEDENCE,
      Gen.DOT_PRECEDENCE) = (0, 1, 2, 3, 4, 5, 6, 7, 8) ∧ charDefault = 8 := ⟨rfl, rfl⟩

def isAsciiName (s : String) : Bool := s.toList.all (fun c => c.toNat < 128)

/-- the effective precedence of a registration -/
def effective (r : Reg) : Int :=
  match r.explicit with
  | some e => e
  | none => defaultPrecedence charTable charDefault r.name

/-- **every registration agrees with the hand-written Spec tables** (README character rule with
the `<<`/`>>` exception, associativity, `builtin_name` of aliases) — including the rows behind
`#[cfg(feature …)]` -/
theorem registrations_match_spec :
    registrations.all (fun r =>
      effective r == SpecTables.specPrecedence r.name &&
      (r.rassoc == SpecTables.specRassoc r.name) &&
      (r.bname == SpecTables.specBuiltinName r.name)) = true := by decide +kernel

/-- the chain-compatibility table read from the `try_chain` bodies is the Spec's -/
theorem chain_table_matches_spec :
    chainTable =
      registrations.filterMap (fun r =>
        if SpecTables.comparisonNames.contains r.name then some (r.name, true, [])
        else if SpecTables.specAccepts r.name != [] then some (r.name, false, SpecTables.specAccepts r.name)
        else none) := by decide +kernel

/-- the non-ASCII names and their precedences (the README does not list them) -/
theorem unicode_names :
    (registrations.filter (fun r => !isAsciiName r.name)).map (fun r => (r.name, effective r)) =
      [("⊕", 4), ("≤", 1), ("≥", 1), ("∈", 1), ("∉", 1), ("∋", 1), ("∌", 1), ("∘", 1), ("⧺", 4),
       ("×", 5)] := by decide +kernel

/-- "the only exceptions to this rule are `<<` and `>>`, which have precedence like `^`" -/
theorem shifts_have_exponent_precedence :
    (registrations.filter (fun r => r.explicit.isSome)).map (fun r => (r.name, r.explicit, r.rassoc)) =
      [("<<", some 6, false), (">>", some 6, false)] ∧
    (registrations.filter (fun r => r.name == "^")).map effective = [6] := by decide +kernel

/-- the right-associative builtins are exactly `^` and list prepend; so `^` is the only
right-associative arithmetic one -/
theorem right_associative_builtins :
    (registrations.filter (·.rassoc)).map (·.name) = ["^", "prepend", ".+"] := by decide +kernel

/-- the chain-compatibility lists: comparisons with comparisons; `zip`/`ziplongest`/`lazy_zip`/
`merge` with themselves and `with`; `**`, `&&&`, `***`, `equals` with themselves; `til`/`to`/
`split`/`rsplit`/`split_re` with `by`; `fold`/`scan` with `from`; `replace`/`rearrange` with `with` -/
theorem chain_compatibility :
    chainTable =
      [("==", true, []), ("!=", true, []), ("=~", true, []), ("!~", true, []), ("<", true, []),
       (">", true, []), ("<=", true, []), ("≤", true, []), (">=", true, []), ("≥", true, []),
       ("til", false, ["by"]), ("to", false, ["by"]), ("zip", false, ["zip", "with"]),
       ("ziplongest", false, ["ziplongest", "with"]), ("lazy_zip", false, ["lazy_zip", "with"]),
       ("***", false, ["***"]), ("&&&", false, ["&&&"]), ("equals", false, ["equals"]),
       ("rearrange", false, ["with"]), ("merge", false, ["merge", "with"]),
       ("fold", false, ["from"]), ("scan", false, ["from"]), ("replace", false, ["with"]),
       ("**", false, ["**"]), ("×", false, ["**"]), ("split", false, ["by"]),
       ("rsplit", false, ["by"]), ("split_re", false, ["by"])] ∧
    unregisteredChainStructs = [] := by decide +kernel

/-- the comparison operators: all left-associative, all on the comparison level except `!~`
(whose `~` puts it on the `+` level by the character rule) — so a run of `== != < > <= >= =~`
always merges into one n-ary comparison -/
theorem comparison_levels :
    (registrations.filter (fun r => r.struct == "ComparisonOperator")).map
      (fun r => (r.name, effective r, r.rassoc)) =
      [("==", 1, false), ("!=", 1, false), ("=~", 1, false), ("!~", 4, false), ("<", 1, false),
       (">", 1, false), ("<=", 1, false), ("≤", 1, false), (">=", 1, false), ("≥", 1, false)] := by
  decide +kernel

end tables

/-! ## 6. non-vacuity: concrete instances -/

section examples
/-- operators as in the README: `+` (4, left), `*` (5, left), `^` (6, right), `<`/`<=` (1, left,
chaining with each other by concatenating their names) -/
def plus : Op String := ⟨"+", ⟨.fin 4, .left⟩⟩
def times : Op String := ⟨"*", ⟨.fin 5, .left⟩⟩
def pow : Op String := ⟨"^", ⟨.fin 6, .right⟩⟩
def lt : Op String := ⟨"<", ⟨.fin 1, .left⟩⟩
def nanop : Op String := ⟨"?", ⟨.nan, .right⟩⟩
def tcCmp (a b : String) : Option String :=
  if a.startsWith "<" && b.startsWith "<" then some (a ++ "," ++ b) else none

/-- `1 + 2 * 3 < 4 < 5 ^ 6 ^ 7` groups as `(<,<)(1 + (2 * 3), 4, 5 ^ (6 ^ 7))` -/
def exTree : Tree String Nat :=
  .ext (.bin (.bin (.leaf 1) plus (.bin (.leaf 2) times (.leaf 3))) lt (.leaf 4)) lt
    (.bin (.leaf 5) pow (.bin (.leaf 6) pow (.leaf 7)))

example : Valid tcCmp exTree := by decide +kernel
example : climbTree tcCmp (chain exTree) = exTree := by decide +kernel
example : shunt tcCmp (chain exTree) = exTree := by decide +kernel
-- the left-nested alternative for `^` is not valid (right-associativity) …
example : ¬ Valid tcCmp (.bin (.bin (.leaf 5) pow (.leaf 6)) pow (.leaf 7) : Tree String Nat) := by
  decide +kernel
-- … and neither is leaving the comparisons unmerged
example : ¬ Valid tcCmp (.bin (.bin (.leaf 1) lt (.leaf 2)) lt (.leaf 3) : Tree String Nat) := by
  decide +kernel
-- a NaN, right-associative operator between two others: still exactly one valid tree
example : Valid tcCmp (.bin (.leaf 1) nanop (.bin (.bin (.leaf 2) plus (.leaf 3)) nanop (.leaf 4)) :
    Tree String Nat) := by decide +kernel
-- the interpretation "build a string" evaluates the example tree bottom-up
example :
    evalChain (fun f (xs : List String) => Out.ok ("(" ++ f ++ " " ++ joinWith " " xs ++ ")")) tcCmp
      "1" (givenOps (fun n : Nat => toString n) (rest exTree)) =
      .ok "(<,< (+ 1 (* 2 3)) 4 (^ 5 (^ 6 7)))" := by decide +kernel
/-- a toy interpreter for the arm: expressions are numbers evaluating to themselves, `0` is `_`,
numbers >= 100 are functions with precedence = last digit, applying `f` adds `f` to the sum of the
arguments -/
def exLang : Lang Nat Nat Nat where
  evaluate := fun e => .ok e
  isUnderscore := fun e => e == 0
  asFunc := fun v => if v ≥ 100 then some (v, ⟨.fin (v % 10), .left⟩) else none
  mkSection := fun _ _ => 0
  run := fun f args => .ok (f + args.sum)
  run2 := fun f a b => .ok (f + [a, b].sum)
  tryChain := fun _ _ => none

-- hypotheses of `direct_chain_value` / `fast_path_agrees` / `each_operand_once_in_order` are satisfiable:
example : ∀ f a b, exLang.run2 f a b = exLang.run f [a, b] := fun _ _ _ => rfl
example : chainArm exLang 1 [(104, 2), (105, 3)] = ([1, 104, 2, 105, 3], .ok (104 + (1 + ((105 + (2 + (3 + 0))) + 0)))) := by
  decide +kernel
example : evalOps exLang [(104, 2), (105, 3)] = some [(104, ⟨.fin 4, .left⟩, some 2), (105, ⟨.fin 5, .left⟩, some 3)] := by
  decide +kernel
-- a section (`_ 104 2`) applied to one argument, and to the wrong number of arguments
example : runChainSection exLang none [(104, ⟨.fin 4, .left⟩, some 2)] [7] = .ok (104 + (7 + (2 + 0))) := by
  decide +kernel
example : runChainSection exLang none [(104, ⟨.fin 4, .left⟩, some 2)] [7, 8] = .throw := by decide +kernel
example : runChainSection exLang none [(104, ⟨.fin 4, .left⟩, none)] [7] = .throw := by decide +kernel
/-! the README-style example with an effect: `1 + (+::precedence = 6; 2) + 3 * 4` is
`1 + ((2 + 3) * 4) = 21` — the state is the precedence of `+`, `*` has 5 -/
inductive XE where
  | lit (n : Nat)
  | litSetPlus (n : Nat) (p : Int)
  | plus
  | times
  deriving DecidableEq
inductive XV where
  | num (n : Nat)
  | fn (isPlus : Bool) (p : Int)
  deriving DecidableEq
def xnum : XV → Nat
  | .num n => n
  | _ => 0
def exLangS : LangS Int XE Bool XV where
  evaluate
    | .lit n, s => (.ok (.num n), s)
    | .litSetPlus n p, _ => (.ok (.num n), p)
    | .plus, s => (.ok (.fn true s), s)
    | .times, s => (.ok (.fn false 5), s)
  isUnderscore := fun _ => false
  asFunc | .fn b p => some (b, ⟨.fin p, .left⟩) | .num _ => none
  mkSection := fun _ _ => .num 0
  run := fun f args => .ok (.num (if f then (args.map xnum).sum else (args.map xnum).foldl (· * ·) 1))
  run2 := fun f a b => .ok (.num (if f then ([a, b].map xnum).sum else ([a, b].map xnum).foldl (· * ·) 1))
  tryChain := fun _ _ => none

example : chainArmS exLangS (.lit 1) [(.plus, .litSetPlus 2 6), (.plus, .lit 3), (.times, .lit 4)] 4
    = (.ok (.num 21), 6) := by decide +kernel
-- without the assignment the same chain is `(1 + 2) + (3 * 4) = 15`
example : chainArmS exLangS (.lit 1) [(.plus, .lit 2), (.plus, .lit 3), (.times, .lit 4)] 4
    = (.ok (.num 15), 4) := by decide +kernel
example : resolveOps exLangS [(.plus, .litSetPlus 2 6), (.plus, .lit 3), (.times, .lit 4)] 4
    = (some [(true, ⟨.fin 4, .left⟩, .num 2), (true, ⟨.fin 6, .left⟩, .num 3),
             (false, ⟨.fin 5, .left⟩, .num 4)], 6) := by decide +kernel
end examples

end Noulith.Chain.C03
