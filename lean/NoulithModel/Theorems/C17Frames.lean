/-
C17 (supplement, part 1 of the preservation proof) — facts about the store of frames of
Impl/CoreEval.lean that the preservation theorem (Theorems/C17Preserve.lean) needs:

* `WF`: a frame's parent is older than the frame (`Env::with_parent` only links to existing scopes);
* `SameAt y k fs fs'`: the frames with id `< k` agree on their parent link and on the variable `y`;
  `lookup_congr`: a lookup of `y` from scope `env` only depends on the frames `≤ env` at `y`;
* what `newFrame`, `declareVar`, `declarePat`, `assignVar`, `dropVar` change;
* `OnChain`, `DeclAbove`: "the variable has a declaration on the scope chain in a frame not older than `n`".
-/
import NoulithModel.Impl.CoreEval
import NoulithModel.Theorems.C05

namespace Noulith.C17Frames
open Noulith Noulith.Core

/-- a frame's parent is an older frame -/
def WFf (fs : Array Frame) : Prop :=
  ∀ (i : Nat) (fr : Frame) (p : Nat), fs[i]? = some fr → fr.parent = some p → p < i

/-- frame `i` is the same in both stores as far as the parent link and the variable `y` go -/
def SameFrame (y : String) (a b : Option Frame) : Prop :=
  match a, b with
  | some fr, some fr' => fr'.parent = fr.parent ∧ lookupIn fr'.vars y = lookupIn fr.vars y
  | none, none => True
  | _, _ => False

def SameAt (y : String) (k : Nat) (fs fs' : Array Frame) : Prop := ∀ i, i < k → SameFrame y fs[i]? fs'[i]?

theorem SameFrame.refl (y : String) (a : Option Frame) : SameFrame y a a := by
  cases a <;> simp [SameFrame]

theorem SameFrame.trans {y : String} {a b c : Option Frame} (h1 : SameFrame y a b) (h2 : SameFrame y b c) :
    SameFrame y a c := by
  cases a <;> cases b <;> cases c <;> simp_all [SameFrame]

theorem SameAt.refl (y : String) (k : Nat) (fs : Array Frame) : SameAt y k fs fs :=
  fun _ _ => SameFrame.refl _ _

theorem SameAt.trans {y : String} {k : Nat} {a b c : Array Frame} (h1 : SameAt y k a b) (h2 : SameAt y k b c) :
    SameAt y k a c := fun i hi => (h1 i hi).trans (h2 i hi)

theorem SameAt.mono {y : String} {k k' : Nat} {a b : Array Frame} (h : SameAt y k a b) (hk : k' ≤ k) :
    SameAt y k' a b := fun i hi => h i (Nat.lt_of_lt_of_le hi hk)

/-- a lookup of `y` from `env` only looks at the frames `≤ env`, at `y` (and is independent of the fuel
once the fuel exceeds `env`) -/
theorem lookup_congr (y : String) (fs fs' : Array Frame) (hwf : WFf fs) :
    ∀ (env fuel fuel' : Nat), env < fuel → env < fuel' → SameAt y (env + 1) fs fs' →
      lookupVar fs' fuel' env y = lookupVar fs fuel env y := by
  intro env
  induction env using Nat.strongRecOn with
  | _ env ih =>
    intro fuel fuel' hf hf' hs
    obtain ⟨k, rfl⟩ : ∃ k, fuel = k + 1 := ⟨fuel - 1, by omega⟩
    obtain ⟨k', rfl⟩ : ∃ k', fuel' = k' + 1 := ⟨fuel' - 1, by omega⟩
    have h0 := hs env (Nat.lt_succ_self _)
    unfold lookupVar
    cases hfr : fs[env]? with
    | none =>
      cases hfr' : fs'[env]? with
      | none => rfl
      | some fr' => simp [SameFrame, hfr, hfr'] at h0
    | some fr =>
      cases hfr' : fs'[env]? with
      | none => simp [SameFrame, hfr, hfr'] at h0
      | some fr' =>
        simp only [SameFrame, hfr, hfr'] at h0
        simp only [h0.2]
        cases lookupIn fr.vars y with
        | some v => rfl
        | none =>
          simp only [h0.1]
          cases hp : fr.parent with
          | none => rfl
          | some p =>
            have hlt : p < env := hwf env fr p hfr hp
            exact ih p hlt k k' (by omega) (by omega) (hs.mono (by omega))

theorem lookup_fuel (y : String) (fs : Array Frame) (hwf : WFf fs) (env fuel fuel' : Nat)
    (h : env < fuel) (h' : env < fuel') : lookupVar fs fuel' env y = lookupVar fs fuel env y :=
  lookup_congr y fs fs hwf env fuel fuel' h h' (SameAt.refl _ _ _)

/-! ### growth of the store -/

/-- the store only grows: frames keep their id and parent, and never lose a variable -/
def ExtF (fs fs' : Array Frame) : Prop :=
  fs.size ≤ fs'.size ∧ ∀ (i : Nat) (fr : Frame), fs[i]? = some fr →
    ∃ fr', fs'[i]? = some fr' ∧ fr'.parent = fr.parent ∧
      ∀ x, (lookupIn fr.vars x).isSome → (lookupIn fr'.vars x).isSome

theorem ExtF.refl (fs : Array Frame) : ExtF fs fs :=
  ⟨Nat.le_refl _, fun _ fr h => ⟨fr, h, rfl, fun _ hx => hx⟩⟩

theorem ExtF.trans {a b c : Array Frame} (h1 : ExtF a b) (h2 : ExtF b c) : ExtF a c := by
  refine ⟨Nat.le_trans h1.1 h2.1, fun i fr h => ?_⟩
  obtain ⟨fr1, hb, hp1, hn1⟩ := h1.2 i fr h
  obtain ⟨fr2, hc, hp2, hn2⟩ := h2.2 i fr1 hb
  exact ⟨fr2, hc, hp2.trans hp1, fun x hx => hn2 x (hn1 x hx)⟩

theorem getElem?_lt_size {fs : Array Frame} {i : Nat} {fr : Frame} (h : fs[i]? = some fr) : i < fs.size := by
  rcases Nat.lt_or_ge i fs.size with h' | h'
  · exact h'
  · rw [Array.getElem?_eq_none h'] at h; exact absurd h (by simp)

/-- replacing one frame by one with the same parent -/
theorem set_sameAt_below (y : String) (fs : Array Frame) (j : Nat) (fr' : Frame) (k : Nat) (hk : k ≤ j) :
    SameAt y k fs (fs.setIfInBounds j fr') := by
  intro i hi
  have : j ≠ i := by omega
  simp [this, SameFrame.refl]

theorem set_sameAt_var (y : String) (fs : Array Frame) (j : Nat) (fr fr' : Frame) (hfr : fs[j]? = some fr)
    (hp : fr'.parent = fr.parent) (hy : lookupIn fr'.vars y = lookupIn fr.vars y) (k : Nat) :
    SameAt y k fs (fs.setIfInBounds j fr') := by
  intro i _
  by_cases hji : j = i
  · subst hji
    have hlt := getElem?_lt_size hfr
    have e : (fs.setIfInBounds j fr')[j]? = some fr' := by simp [hlt]
    rw [hfr, e]
    exact ⟨hp, hy⟩
  · simp [hji, SameFrame.refl]

theorem set_extF (fs : Array Frame) (j : Nat) (fr fr' : Frame) (hfr : fs[j]? = some fr)
    (hp : fr'.parent = fr.parent) (hn : ∀ x, (lookupIn fr.vars x).isSome → (lookupIn fr'.vars x).isSome) :
    ExtF fs (fs.setIfInBounds j fr') := by
  refine ⟨by simp, fun i fri hi => ?_⟩
  by_cases hji : j = i
  · subst hji
    have hlt := getElem?_lt_size hfr
    rw [hfr] at hi
    simp only [Option.some.injEq] at hi
    subst hi
    exact ⟨fr', by simp [Array.getElem?_setIfInBounds, hlt], hp, hn⟩
  · exact ⟨fri, by simp [Array.getElem?_setIfInBounds, hji, hi], rfl, fun _ h => h⟩

theorem set_wf (fs : Array Frame) (hwf : WFf fs) (j : Nat) (fr fr' : Frame) (hfr : fs[j]? = some fr)
    (hp : fr'.parent = fr.parent) : WFf (fs.setIfInBounds j fr') := by
  intro i fri p hi hpi
  by_cases hji : j = i
  · subst hji
    have hlt := getElem?_lt_size hfr
    simp [Array.getElem?_setIfInBounds, hlt] at hi
    subst hi
    exact hwf j fr p hfr (hp ▸ hpi)
  · simp [Array.getElem?_setIfInBounds, hji] at hi
    exact hwf i fri p hi hpi

/-! ### the scope chain -/

/-- frame `i` is on the parent chain of scope `env` -/
inductive OnChain (fs : Array Frame) : Nat → Nat → Prop where
  | here (env : Nat) : OnChain fs env env
  | up {env p i : Nat} {fr : Frame} : fs[env]? = some fr → fr.parent = some p → OnChain fs p i → OnChain fs env i

theorem OnChain.le {fs : Array Frame} (hwf : WFf fs) {env i : Nat} (h : OnChain fs env i) : i ≤ env := by
  induction h with
  | here => exact Nat.le_refl _
  | up hfr hp _ ih => exact Nat.le_trans ih (Nat.le_of_lt (hwf _ _ _ hfr hp))

theorem OnChain.ext {fs fs' : Array Frame} (hx : ExtF fs fs') {env i : Nat} (h : OnChain fs env i) :
    OnChain fs' env i := by
  induction h with
  | here => exact .here _
  | up hfr hp _ ih =>
    obtain ⟨fr', hfr', hp', _⟩ := hx.2 _ _ hfr
    exact .up hfr' (hp'.trans hp) ih

/-- `x` has a declaration on the scope chain of `env`, in a frame not older than `n` -/
def DeclAbove (fs : Array Frame) (env n : Nat) (x : String) : Prop :=
  ∃ (i : Nat) (fr : Frame), OnChain fs env i ∧ n ≤ i ∧ fs[i]? = some fr ∧ (lookupIn fr.vars x).isSome

theorem DeclAbove.ext {fs fs' : Array Frame} (hx : ExtF fs fs') {env n : Nat} {x : String}
    (h : DeclAbove fs env n x) : DeclAbove fs' env n x := by
  obtain ⟨i, fr, hc, hn, hfr, hd⟩ := h
  obtain ⟨fr', hfr', _, hnames⟩ := hx.2 _ _ hfr
  exact ⟨i, fr', hc.ext hx, hn, hfr', hnames x hd⟩


/-! ### what the store operations change -/

theorem lookupIn_append_isSome (vars : List (String × Val)) (x z : String) (v : Val)
    (h : (lookupIn vars z).isSome) : (lookupIn (vars ++ [(x, v)]) z).isSome := by
  induction vars with
  | nil => simp [lookupIn] at h
  | cons kv rest ih =>
    obtain ⟨k, w⟩ := kv
    by_cases hk : k = z
    · simp [lookupIn, hk]
    · simp only [lookupIn, hk, ↓reduceIte, List.cons_append] at h ⊢; exact ih h

theorem lookupIn_setIn_isSome (vars : List (String × Val)) (x z : String) (v : Val)
    (h : (lookupIn vars z).isSome) : (lookupIn (setIn vars x v) z).isSome := by
  by_cases hz : z = x
  · subst hz; rw [C05.lookupIn_setIn_same _ _ _ h]; rfl
  · rw [C05.lookupIn_setIn_other _ _ _ _ hz]; exact h

/-- `newFrame`: pushing an empty frame -/
theorem push_extF (fs : Array Frame) (fr : Frame) : ExtF fs (fs.push fr) := by
  refine ⟨by simp, fun i fri hi => ⟨fri, ?_, rfl, fun _ h => h⟩⟩
  have := getElem?_lt_size hi
  simp [Array.getElem?_push, Nat.ne_of_lt this, hi]

theorem push_wf (fs : Array Frame) (hwf : WFf fs) (vars : List (String × Val)) (p : Nat) (hp : p < fs.size)
    (tys : List (String × Val)) : WFf (fs.push { vars := vars, parent := some p, tys := tys }) := by
  intro i fri q hi hq
  rw [Array.getElem?_push] at hi
  split at hi
  · simp only [Option.some.injEq] at hi; subst hi; simp only [Option.some.injEq] at hq; omega
  · exact hwf i fri q hi hq

theorem push_sameAt (y : String) (fs : Array Frame) (fr : Frame) (k : Nat) (hk : k ≤ fs.size) :
    SameAt y k fs (fs.push fr) := by
  intro i hi
  have : ¬ i = fs.size := by omega
  simp [Array.getElem?_push, this, SameFrame.refl]

/-- a lookup from the fresh empty frame goes to its parent -/
theorem lookup_new_frame (y : String) (fs : Array Frame) (hwf : WFf fs) (p : Nat) (hp : p < fs.size)
    (fuel fuel' : Nat) (hf : p < fuel) (hf' : fs.size < fuel') :
    lookupVar (fs.push { vars := [], parent := some p }) fuel' fs.size y = lookupVar fs fuel p y := by
  obtain ⟨k', rfl⟩ : ∃ k', fuel' = k' + 1 := ⟨fuel' - 1, by omega⟩
  conv => lhs; unfold lookupVar
  simp only [Array.getElem?_push, ↓reduceIte, lookupIn]
  exact lookup_congr y fs _ hwf p fuel k' hf (by omega) (push_sameAt y fs _ _ (by omega))

/-- `declareVar`: one variable appended to the current frame -/
theorem declareVar_spec {fs fs' : Array Frame} {env : Nat} {x : String} {v : Val}
    (h : declareVar fs env x v = some fs') :
    ∃ fr, fs[env]? = some fr ∧ lookupIn fr.vars x = none ∧
      fs' = fs.setIfInBounds env { fr with vars := fr.vars ++ [(x, v)] } := by
  unfold declareVar at h
  cases hfr : fs[env]? with
  | none => simp [hfr] at h
  | some fr =>
    simp only [hfr] at h
    cases hl : lookupIn fr.vars x with
    | some _ => simp [hl] at h
    | none => simp only [hl, Option.some.injEq] at h; exact ⟨fr, rfl, hl, h.symm⟩

/-- `assignVar` / `dropVar`: the value of `x` is replaced in the FIRST frame of the chain that declares it -/
theorem assignVar_spec (fs : Array Frame) (hwf : WFf fs) (x : String) (v : Val) :
    ∀ (fuel env : Nat) (fs' : Array Frame), assignVar fs fuel env x v = some fs' →
      ∃ j fr, OnChain fs env j ∧ fs[j]? = some fr ∧ (lookupIn fr.vars x).isSome ∧
        fs' = fs.setIfInBounds j { fr with vars := setIn fr.vars x v } ∧
        ∀ i fri, OnChain fs env i → fs[i]? = some fri → (lookupIn fri.vars x).isSome → i ≤ j := by
  intro fuel
  induction fuel with
  | zero => intro env fs' h; simp [assignVar] at h
  | succ n ih =>
    intro env fs' h
    unfold assignVar at h
    cases hfr : fs[env]? with
    | none => simp [hfr] at h
    | some fr =>
      simp only [hfr] at h
      cases hl : lookupIn fr.vars x with
      | some w =>
        simp only [hl] at h
        split at h
        · simp only [Option.some.injEq] at h
          refine ⟨env, fr, .here _, hfr, by simp [hl], h.symm, fun i _ hc _ _ => hc.le hwf⟩
        · exact absurd h (by simp)
      | none =>
        simp only [hl] at h
        cases hp : fr.parent with
        | none => simp [hp] at h
        | some p =>
          simp only [hp] at h
          obtain ⟨j, frj, hc, hj, hd, he, hfirst⟩ := ih p fs' h
          refine ⟨j, frj, .up hfr hp hc, hj, hd, he, fun i fri hci hi hdi => ?_⟩
          cases hci with
          | here => rw [hfr] at hi; simp only [Option.some.injEq] at hi; subst hi; simp [hl] at hdi
          | up hfr2 hp2 hc2 =>
            rw [hfr] at hfr2; simp only [Option.some.injEq] at hfr2; subst hfr2
            rw [hp] at hp2; simp only [Option.some.injEq] at hp2; subst hp2
            exact hfirst i fri hc2 hi hdi

theorem dropVar_spec (fs : Array Frame) (hwf : WFf fs) (x : String) :
    ∀ (fuel env : Nat) (fs' : Array Frame), dropVar fs fuel env x = some fs' →
      ∃ j fr, OnChain fs env j ∧ fs[j]? = some fr ∧ (lookupIn fr.vars x).isSome ∧
        fs' = fs.setIfInBounds j { fr with vars := setIn fr.vars x .null } ∧
        ∀ i fri, OnChain fs env i → fs[i]? = some fri → (lookupIn fri.vars x).isSome → i ≤ j := by
  intro fuel
  induction fuel with
  | zero => intro env fs' h; simp [dropVar] at h
  | succ n ih =>
    intro env fs' h
    unfold dropVar at h
    cases hfr : fs[env]? with
    | none => simp [hfr] at h
    | some fr =>
      simp only [hfr] at h
      cases hl : lookupIn fr.vars x with
      | some w =>
        simp only [hl, Option.some.injEq] at h
        refine ⟨env, fr, .here _, hfr, by simp [hl], h.symm, fun i _ hc _ _ => hc.le hwf⟩
      | none =>
        simp only [hl] at h
        cases hp : fr.parent with
        | none => simp [hp] at h
        | some p =>
          simp only [hp] at h
          obtain ⟨j, frj, hc, hj, hd, he, hfirst⟩ := ih p fs' h
          refine ⟨j, frj, .up hfr hp hc, hj, hd, he, fun i fri hci hi hdi => ?_⟩
          cases hci with
          | here => rw [hfr] at hi; simp only [Option.some.injEq] at hi; subst hi; simp [hl] at hdi
          | up hfr2 hp2 hc2 =>
            rw [hfr] at hfr2; simp only [Option.some.injEq] at hfr2; subst hfr2
            rw [hp] at hp2; simp only [Option.some.injEq] at hp2; subst hp2
            exact hfirst i fri hc2 hi hdi


/-! ### a step of the store that only ADDS declarations of names in `N` to frame `env` -/

structure FrameStep (fs fs' : Array Frame) (env : Nat) (N : List String) : Prop where
  ext : ExtF fs fs'
  wf : WFf fs → WFf fs'
  size : fs'.size = fs.size
  other : ∀ y, y ∉ N → ∀ k, SameAt y k fs fs'
  below : ∀ k, k ≤ env → ∀ y, SameAt y k fs fs'

theorem FrameStep.refl (fs : Array Frame) (env : Nat) (N : List String) : FrameStep fs fs env N :=
  ⟨ExtF.refl _, id, rfl, fun _ _ _ => SameAt.refl _ _ _, fun _ _ _ => SameAt.refl _ _ _⟩

theorem FrameStep.trans {a b c : Array Frame} {env : Nat} {N1 N2 : List String}
    (h1 : FrameStep a b env N1) (h2 : FrameStep b c env N2) : FrameStep a c env (N1 ++ N2) :=
  ⟨h1.ext.trans h2.ext, fun h => h2.wf (h1.wf h), h2.size.trans h1.size,
   fun y hy k => (h1.other y (fun h => hy (List.mem_append_left _ h)) k).trans
      (h2.other y (fun h => hy (List.mem_append_right _ h)) k),
   fun k hk y => (h1.below k hk y).trans (h2.below k hk y)⟩

theorem FrameStep.mono {a b : Array Frame} {env : Nat} {N N' : List String} (h : FrameStep a b env N)
    (hN : ∀ x, x ∈ N → x ∈ N') : FrameStep a b env N' :=
  ⟨h.ext, h.wf, h.size, fun y hy k => h.other y (fun hx => hy (hN y hx)) k, h.below⟩

theorem declareVar_step {fs fs' : Array Frame} {env : Nat} {x : String} {v : Val}
    (h : declareVar fs env x v = some fs') :
    FrameStep fs fs' env [x] ∧ ∃ fr', fs'[env]? = some fr' ∧ (lookupIn fr'.vars x).isSome := by
  obtain ⟨fr, hfr, hl, rfl⟩ := declareVar_spec h
  have hlt := getElem?_lt_size hfr
  refine ⟨⟨set_extF fs env fr _ hfr rfl (fun z hz => lookupIn_append_isSome _ _ _ _ hz),
    fun hwf => set_wf fs hwf env fr _ hfr rfl, by simp, fun y hy k => ?_,
    fun k hk y => set_sameAt_below y fs env _ k hk⟩, ?_⟩
  · have hyx : y ≠ x := by simpa using hy
    exact set_sameAt_var y fs env fr { fr with vars := fr.vars ++ [(x, v)] } hfr rfl
      (C05.lookupIn_append_other _ _ _ _ hyx) k
  · refine ⟨{ fr with vars := fr.vars ++ [(x, v)] }, by simp [hlt], ?_⟩
    simp [C05.lookupIn_append_new _ _ _ hl]

/-- frame `env` declares every name of `N` -/
def DeclaredIn (fs : Array Frame) (env : Nat) (N : List String) : Prop :=
  ∀ x, x ∈ N → ∃ fr, fs[env]? = some fr ∧ (lookupIn fr.vars x).isSome

theorem DeclaredIn.ext {fs fs' : Array Frame} {env : Nat} {N : List String} (hx : ExtF fs fs')
    (h : DeclaredIn fs env N) : DeclaredIn fs' env N := by
  intro x hxN
  obtain ⟨fr, hfr, hd⟩ := h x hxN
  obtain ⟨fr', hfr', _, hn⟩ := hx.2 _ _ hfr
  exact ⟨fr', hfr', hn x hd⟩


/-- the effect of a pattern declaration: declarations of the pattern's names in the current frame only -/
def PatStep (st : State) (env : Nat) (N : List String) (r : Bool × State) : Prop :=
  FrameStep st.frames r.2.frames env N ∧ r.2.frozenTab = st.frozenTab ∧ r.2.out = st.out ∧
    (r.1 = true → DeclaredIn r.2.frames env N)

theorem PatStep.refl_false (st : State) (env : Nat) (N : List String) : PatStep st env N (false, st) :=
  ⟨FrameStep.refl _ _ _, rfl, rfl, fun h => absurd h (by simp)⟩

theorem declarePat_go_step (fuel env : Nat)
    (ih : ∀ st p v, PatStep st env (Pat.idents p) (declarePat fuel st env p v)) :
    ∀ (ps : List Pat) (vs : List Val) (st : State),
      PatStep st env (Pat.idents.Pat.identsList ps) (declarePat.go env fuel st ps vs) := by
  intro ps
  induction ps with
  | nil =>
    intro vs st
    cases vs with
    | nil =>
      simp only [declarePat.go, Pat.idents.Pat.identsList]
      exact ⟨FrameStep.refl _ _ _, rfl, rfl, fun _ x hx => absurd hx (by simp)⟩
    | cons v vs => simp only [declarePat.go]; exact PatStep.refl_false _ _ _
  | cons p ps ihps =>
    intro vs st
    cases vs with
    | nil => simp only [declarePat.go]; exact PatStep.refl_false _ _ _
    | cons v vs =>
      simp only [declarePat.go, Pat.idents.Pat.identsList]
      have h1 := ih st p v
      rcases hr : declarePat fuel st env p v with ⟨ok, st1⟩
      rw [hr] at h1
      cases ok with
      | false =>
        dsimp only
        obtain ⟨hs, ht, ho, _⟩ := h1
        exact ⟨hs.mono (fun x hx => List.mem_append_left _ hx), ht, ho, fun h => absurd h (by simp)⟩
      | true =>
        dsimp only
        have h2 := ihps vs st1
        obtain ⟨hs1, ht1, ho1, hd1⟩ := h1
        obtain ⟨hs2, ht2, ho2, hd2⟩ := h2
        refine ⟨hs1.trans hs2, ht2.trans ht1, ho2.trans ho1, fun hok x hx => ?_⟩
        rcases List.mem_append.mp hx with hx | hx
        · exact (hd1 rfl).ext hs2.ext x hx
        · exact hd2 hok x hx

theorem declarePat_step : ∀ (fuel : Nat) (st : State) (env : Nat) (p : Pat) (v : Val),
    PatStep st env (Pat.idents p) (declarePat fuel st env p v) := by
  intro fuel
  induction fuel with
  | zero => intro st env p v; simp only [declarePat]; exact PatStep.refl_false _ _ _
  | succ n ih =>
    intro st env p v
    cases p with
    | underscore =>
      simp only [declarePat, Pat.idents]
      exact ⟨FrameStep.refl _ _ _, rfl, rfl, fun _ x hx => absurd hx (by simp)⟩
    | lit k =>
      simp only [declarePat, Pat.idents]
      cases v <;> exact ⟨FrameStep.refl _ _ _, rfl, rfl, fun _ x hx => absurd hx (by simp)⟩
    | ident x =>
      simp only [declarePat, Pat.idents]
      cases hd : declareVar st.frames env x v with
      | none => exact PatStep.refl_false _ _ _
      | some fs =>
        obtain ⟨hs, fr', hfr', hx⟩ := declareVar_step hd
        exact ⟨hs, rfl, rfl, fun _ y hy => by
          have : y = x := by simpa using hy
          subst this; exact ⟨fr', hfr', hx⟩⟩
    | seq ps =>
      simp only [declarePat, Pat.idents]
      cases v with
      | list vs =>
        dsimp only
        split
        · exact PatStep.refl_false _ _ _
        · exact declarePat_go_step n env (fun st p v => ih st env p v) ps vs st
      | _ => exact PatStep.refl_false _ _ _


/-- the effect of a write to `x` from scope `env` (`assignVar` / `dropVar`): only the value of `x` changes,
and if `x` has a declaration on the chain in a frame not older than `n`, no frame older than `n` changes -/
structure WriteStep (fs fs' : Array Frame) (env : Nat) (x : String) : Prop where
  ext : ExtF fs fs'
  wf : WFf fs'
  size : fs'.size = fs.size
  other : ∀ y, y ≠ x → ∀ k, SameAt y k fs fs'
  above : ∀ n, DeclAbove fs env n x → ∀ k, k ≤ n → ∀ y, SameAt y k fs fs'

theorem writeStep_of_spec (fs : Array Frame) (hwf : WFf fs) (env : Nat) (x : String) (w : Val) (fs' : Array Frame)
    (h : ∃ j fr, OnChain fs env j ∧ fs[j]? = some fr ∧ (lookupIn fr.vars x).isSome ∧
        fs' = fs.setIfInBounds j { fr with vars := setIn fr.vars x w } ∧
        ∀ i fri, OnChain fs env i → fs[i]? = some fri → (lookupIn fri.vars x).isSome → i ≤ j) :
    WriteStep fs fs' env x := by
  obtain ⟨j, fr, _, hfr, hd, rfl, hfirst⟩ := h
  refine ⟨set_extF fs j fr _ hfr rfl (fun z hz => lookupIn_setIn_isSome _ _ _ _ hz),
    set_wf fs hwf j fr _ hfr rfl, by simp, fun y hy k => ?_, fun n hda k hk y => ?_⟩
  · exact set_sameAt_var y fs j fr { fr with vars := setIn fr.vars x w } hfr rfl
      (C05.lookupIn_setIn_other _ _ _ _ hy) k
  · obtain ⟨i, fri, hci, hni, hfri, hdi⟩ := hda
    have := hfirst i fri hci hfri hdi
    exact set_sameAt_below y fs j _ k (by omega)

theorem assignVar_step (fs : Array Frame) (hwf : WFf fs) (x : String) (v : Val) (fuel env : Nat)
    (fs' : Array Frame) (h : assignVar fs fuel env x v = some fs') : WriteStep fs fs' env x :=
  writeStep_of_spec fs hwf env x v fs' (assignVar_spec fs hwf x v fuel env fs' h)

theorem dropVar_step (fs : Array Frame) (hwf : WFf fs) (x : String) (fuel env : Nat)
    (fs' : Array Frame) (h : dropVar fs fuel env x = some fs') : WriteStep fs fs' env x :=
  writeStep_of_spec fs hwf env x .null fs' (dropVar_spec fs hwf x fuel env fs' h)

/-! ### state-level notions -/

def WF (st : State) : Prop := WFf st.frames

/-- the store only grows and the table of frozen values is untouched -/
def Ext (st st' : State) : Prop := ExtF st.frames st'.frames ∧ st'.frozenTab = st.frozenTab

theorem Ext.refl (st : State) : Ext st st := ⟨ExtF.refl _, rfl⟩
theorem Ext.trans {a b c : State} (h1 : Ext a b) (h2 : Ext b c) : Ext a c :=
  ⟨h1.1.trans h2.1, h2.2.trans h1.2⟩

/-- the frames older than `n` are unchanged, except possibly at the variables named in `B` -/
def OldKept (st st' : State) (n : Nat) (B : List String) : Prop :=
  ∀ y, y ∉ B → SameAt y n st.frames st'.frames

theorem OldKept.refl (st : State) (n : Nat) (B : List String) : OldKept st st n B :=
  fun _ _ => SameAt.refl _ _ _
theorem OldKept.trans {a b c : State} {n : Nat} {B : List String} (h1 : OldKept a b n B) (h2 : OldKept b c n B) :
    OldKept a c n B := fun y hy => (h1 y hy).trans (h2 y hy)
theorem OldKept.mono {a b : State} {n n' : Nat} {B : List String} (h : OldKept a b n B) (hn : n' ≤ n) :
    OldKept a b n' B := fun y hy => (h y hy).mono hn

/-- every name of `S` is either in `B` or has a declaration on the chain of `env` in a frame `≥ n`:
a write to it from `env` cannot touch a variable outside `B` in a frame older than `n` -/
def SafeFor (S : List String) (st : State) (env n : Nat) (B : List String) : Prop :=
  ∀ x, x ∈ S → x ∈ B ∨ DeclAbove st.frames env n x

theorem SafeFor.ext {S : List String} {st st' : State} {env n : Nat} {B : List String}
    (h : SafeFor S st env n B) (hx : Ext st st') : SafeFor S st' env n B := by
  intro x hxS
  rcases h x hxS with hb | hd
  · exact Or.inl hb
  · exact Or.inr (hd.ext hx.1)

theorem SafeFor.mono {S S' : List String} {st : State} {env n : Nat} {B : List String}
    (h : SafeFor S st env n B) (hS : ∀ x, x ∈ S' → x ∈ S) : SafeFor S' st env n B :=
  fun x hx => h x (hS x hx)

/-- names declared in the current frame are safe for every older threshold -/
theorem SafeFor.add_declared {S N : List String} {st : State} {env n : Nat} {B : List String}
    (h : SafeFor S st env n B) (hn : n ≤ env) (hd : DeclaredIn st.frames env N) : SafeFor (S ++ N) st env n B := by
  intro x hx
  rcases List.mem_append.mp hx with hx | hx
  · exact h x hx
  · obtain ⟨fr, hfr, hdx⟩ := hd x hx
    exact Or.inr ⟨env, fr, .here _, hn, hfr, hdx⟩

/-- lookups from a scope older than `n` are unaffected by a change that keeps the frames older than `n` -/
theorem lookup_oldKept {st st' : State} {n : Nat} {B : List String} (hwf : WF st) (hk : OldKept st st' n B)
    (env : Nat) (henv : env < n) (hsz : env < st.frames.size) (hsz' : env < st'.frames.size) (y : String)
    (hy : y ∉ B) : st'.lookup env y = st.lookup env y := by
  unfold State.lookup
  exact lookup_congr y st.frames st'.frames hwf env _ _ (by omega) (by omega) ((hk y hy).mono (by omega))


end Noulith.C17Frames
