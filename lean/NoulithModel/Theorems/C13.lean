/-
C13 — The sequence library matches its executable specification.

For every function: `Impl.f = Spec.f` for ALL finite inputs — every length, every element value,
arbitrary callbacks `α → Out β` (raising / panicking ones included).  `Impl` = the Rust loops of
lib.rs / streams.rs transcribed in Impl/SeqLib.lean; `Spec` = the one-line definitions of
Spec/SeqLibSpec.lean.  Then the laws the property names: `sort` is a stable ordered permutation,
`unique` keeps first occurrences, the kind rule of the `multi!` family, and the enumeration
theorems of the combinatorial streams.  Statements not (yet) proved are kept as
`def …_statement : Prop` and listed in tools/props.d/C13.json.
-/
import NoulithModel.Spec.SeqLibCall
set_option linter.unusedSimpArgs false
set_option linter.unusedVariables false

namespace Noulith.C13
open Noulith Noulith.SeqLib
variable {α β γ κ : Type}

/-! ## 0. outcome plumbing -/
@[simp] theorem out_map_map (x : Out α) (f : α → β) (g : β → γ) : (x.map f).map g = x.map (g ∘ f) := by
  cases x <;> rfl
@[simp] theorem out_map_id (x : Out α) : x.map (fun a => a) = x := by cases x <;> rfl

/-! ## 1. traversals with a callback: the Rust accumulator loops equal the textbook recursions -/

theorem filteredGo_eq (p : α → Out Bool) (neg : Bool) (acc xs : List α) :
    filteredGo p neg acc xs = (SeqSpec.filterE p neg xs).map (acc ++ ·) := by
  induction xs generalizing acc with
  | nil => simp [filteredGo, SeqSpec.filterE]
  | cons x xs ih =>
    simp only [filteredGo, SeqSpec.filterE]
    cases hp : p x with
    | ok b =>
      simp only [SeqSpec.bind_ok]
      by_cases hb : (b != neg) = true
      · simp only [hb, if_true, ih]
        cases SeqSpec.filterE p neg xs <;> simp [SeqSpec.bind, Out.map]
      · simp only [hb, ih]
        cases SeqSpec.filterE p neg xs <;> simp [SeqSpec.bind, Out.map]
    | throw => simp [SeqSpec.bind, Out.map]
    | panic => simp [SeqSpec.bind, Out.map]

theorem filtered_eq (p : α → Out Bool) (xs : List α) (neg : Bool) :
    filtered p xs neg = SeqSpec.filterE p neg xs := by
  simp [filtered, filteredGo_eq]


theorem mapGo_eq (f : α → Out β) (acc : List β) (xs : List α) :
    mapGo f acc xs = (SeqSpec.mapE f xs).map (acc ++ ·) := by
  induction xs generalizing acc with
  | nil => simp [mapGo, SeqSpec.mapE]
  | cons x xs ih =>
    simp only [mapGo, SeqSpec.mapE]
    cases f x <;> simp [SeqSpec.bind, Out.map, ih]
    cases SeqSpec.mapE f xs <;> simp [SeqSpec.bind, Out.map]

theorem map_eq (f : α → Out β) (xs : List α) : map f xs = SeqSpec.mapE f xs := by
  simp [map, mapGo_eq]

theorem each_eq (f : α → Out β) (xs : List α) : each f xs = SeqSpec.eachE f xs := by
  induction xs with
  | nil => rfl
  | cons x xs ih =>
    simp only [each, SeqSpec.eachE, SeqSpec.mapE] at *
    cases f x <;> simp [SeqSpec.bind, ih]
    cases SeqSpec.mapE f xs <;> simp [SeqSpec.bind]

theorem flatMapGo_eq (f : α → Out (List β)) (acc : List β) (xs : List α) :
    flatMapGo f acc xs = (SeqSpec.flatMapE f xs).map (acc ++ ·) := by
  induction xs generalizing acc with
  | nil => simp [flatMapGo, SeqSpec.flatMapE, SeqSpec.mapE]
  | cons x xs ih =>
    simp only [flatMapGo, SeqSpec.flatMapE, SeqSpec.mapE] at *
    cases f x <;> simp [SeqSpec.bind, Out.map, ih]
    cases SeqSpec.mapE f xs <;> simp [SeqSpec.bind, Out.map]

theorem flatMap_eq (f : α → Out (List β)) (xs : List α) : flatMap f xs = SeqSpec.flatMapE f xs := by
  simp [flatMap, flatMapGo_eq]

theorem takeWhileGo_eq (p : α → Out Bool) (acc xs : List α) :
    takeWhileGo p acc xs = (SeqSpec.takeWhileE p xs).map (acc ++ ·) := by
  induction xs generalizing acc with
  | nil => simp [takeWhileGo, SeqSpec.takeWhileE]
  | cons x xs ih =>
    simp only [takeWhileGo, SeqSpec.takeWhileE]
    cases hp : p x with
    | ok b =>
      cases b <;> simp [SeqSpec.bind, Out.map, ih]
      cases SeqSpec.takeWhileE p xs <;> simp [SeqSpec.bind, Out.map]
    | throw => simp [SeqSpec.bind, Out.map]
    | panic => simp [SeqSpec.bind, Out.map]

theorem takeWhile_eq (p : α → Out Bool) (xs : List α) : takeWhile p xs = SeqSpec.takeWhileE p xs := by
  simp [takeWhile, takeWhileGo_eq]

theorem dropWhile_eq (p : α → Out Bool) (xs : List α) : dropWhile p xs = SeqSpec.dropWhileE p xs := by
  induction xs with
  | nil => rfl
  | cons x xs ih =>
    simp only [dropWhile, SeqSpec.dropWhileE]
    cases hp : p x with
    | ok b => cases b <;> simp [SeqSpec.bind, ih]
    | throw => simp [SeqSpec.bind]
    | panic => simp [SeqSpec.bind]

theorem find_eq (p : α → Out Bool) (xs : List α) : find p xs = SeqSpec.findE p xs := by
  induction xs with
  | nil => rfl
  | cons x xs ih =>
    simp only [find, SeqSpec.findE]
    cases hp : p x with
    | ok b => cases b <;> simp [SeqSpec.bind, ih]
    | throw => simp [SeqSpec.bind]
    | panic => simp [SeqSpec.bind]

theorem locateGo_eq (p : α → Out Bool) (i : Nat) (xs : List α) :
    locateGo p i xs = (SeqSpec.locateE p xs).map (fun r => r.map (· + i)) := by
  induction xs generalizing i with
  | nil => rfl
  | cons x xs ih =>
    simp only [locateGo, SeqSpec.locateE]
    cases hp : p x with
    | ok b =>
      cases b <;> simp [SeqSpec.bind, Out.map, ih]
      cases SeqSpec.locateE p xs with
      | ok r => cases r <;> simp [SeqSpec.bind, Out.map]; omega
      | throw => simp [SeqSpec.bind, Out.map]
      | panic => simp [SeqSpec.bind, Out.map]
    | throw => simp [SeqSpec.bind, Out.map]
    | panic => simp [SeqSpec.bind, Out.map]

theorem locate_eq (p : α → Out Bool) (xs : List α) : locate p xs = SeqSpec.locateE p xs := by
  simp only [locate, locateGo_eq]
  cases SeqSpec.locateE p xs with
  | ok r => cases r <;> simp [Out.map]
  | throw => rfl
  | panic => rfl

theorem countGo_eq (p : α → Out Bool) (c : Nat) (xs : List α) :
    countGo p c xs = (SeqSpec.countE p xs).map (c + ·) := by
  induction xs generalizing c with
  | nil => simp [countGo, SeqSpec.countE, SeqSpec.mapE, SeqSpec.bind, Out.map]
  | cons x xs ih =>
    simp only [countGo, SeqSpec.countE, SeqSpec.mapE] at *
    cases hp : p x with
    | ok b =>
      cases b <;> simp [SeqSpec.bind, Out.map, ih]
      all_goals cases SeqSpec.mapE p xs <;> simp [SeqSpec.bind, Out.map, List.count_cons]
      omega
    | throw => simp [SeqSpec.bind, Out.map]
    | panic => simp [SeqSpec.bind, Out.map]

theorem count_eq (p : α → Out Bool) (xs : List α) : count p xs = SeqSpec.countE p xs := by
  simp only [count, countGo_eq]
  cases SeqSpec.countE p xs <;> simp [Out.map]

theorem any_eq (p : α → Out Bool) (xs : List α) : any p xs = SeqSpec.anyE p xs := by
  unfold any seqFold
  induction xs with
  | nil => rfl
  | cons x xs ih =>
    simp only [seqFoldGo, SeqSpec.anyE]
    cases hp : p x with
    | ok b => cases b <;> simp [SeqSpec.bind, anyBody, ih]
    | throw => simp [SeqSpec.bind]
    | panic => simp [SeqSpec.bind]

theorem all_eq (p : α → Out Bool) (xs : List α) : all p xs = SeqSpec.allE p xs := by
  unfold all seqFold
  induction xs with
  | nil => rfl
  | cons x xs ih =>
    simp only [seqFoldGo, SeqSpec.allE]
    cases hp : p x with
    | ok b => cases b <;> simp [SeqSpec.bind, allBody, ih]
    | throw => simp [SeqSpec.bind]
    | panic => simp [SeqSpec.bind]

theorem sumLike_eq (zero : γ) (op : γ → γ → Out γ) (f : α → Out γ) (xs : List α) :
    sumLike zero op f xs = SeqSpec.sumE zero op f xs := by
  unfold sumLike seqFold SeqSpec.sumE
  induction xs generalizing zero with
  | nil => rfl
  | cons x xs ih =>
    simp only [seqFoldGo, SeqSpec.foldlE]
    cases hf : f x with
    | ok y =>
      simp only [SeqSpec.bind_ok, arithBody]
      cases hop : op zero y <;> simp [SeqSpec.bind, ih]
    | throw => simp [SeqSpec.bind]
    | panic => simp [SeqSpec.bind]

theorem foldGo_eq (f : β → α → Out β) (cur : β) (xs : List α) :
    foldGo f cur xs = SeqSpec.foldlE f cur xs := by
  induction xs generalizing cur with
  | nil => rfl
  | cons x xs ih =>
    simp only [foldGo, SeqSpec.foldlE]
    cases f cur x <;> simp [SeqSpec.bind, ih]

theorem foldFrom_eq (f : β → α → Out β) (cur : β) (xs : List α) :
    foldFrom f cur xs = SeqSpec.foldlE f cur xs := foldGo_eq f cur xs

theorem fold1_eq (f : α → α → Out α) (xs : List α) : fold1 f xs = SeqSpec.fold1E f xs := by
  cases xs <;> simp [fold1, SeqSpec.fold1E, foldGo_eq]

theorem scanGo_eq (f : β → α → Out β) (cur : β) (acc : List β) (xs : List α) :
    scanGo f cur (acc ++ [cur]) xs = (SeqSpec.scanlE f cur xs).map (acc ++ ·) := by
  induction xs generalizing cur acc with
  | nil => simp [scanGo, SeqSpec.scanlE]
  | cons x xs ih =>
    simp only [scanGo, SeqSpec.scanlE]
    cases hf : f cur x with
    | ok r =>
      simp only [SeqSpec.bind_ok]
      rw [ih r (acc ++ [cur])]
      cases SeqSpec.scanlE f r xs <;> simp [SeqSpec.bind, Out.map]
    | throw => simp [SeqSpec.bind, Out.map]
    | panic => simp [SeqSpec.bind, Out.map]

theorem scanFrom_eq (f : β → α → Out β) (cur : β) (xs : List α) :
    scanFrom f cur xs = SeqSpec.scanlE f cur xs := by
  have := scanGo_eq f cur [] xs
  simp at this
  simpa [scanFrom] using this

theorem scan1_eq (f : α → α → Out α) (xs : List α) : scan1 f xs = SeqSpec.scan1E f xs := by
  cases xs with
  | nil => rfl
  | cons x xs =>
    have := scanGo_eq f x [] xs
    simp at this
    simpa [scan1, SeqSpec.scan1E] using this


theorem partitionGo_eq (p : α → Out Bool) (accT accF xs : List α) :
    partitionGo p accT accF xs = (SeqSpec.partitionE p xs).map (fun r => (accT ++ r.1, accF ++ r.2)) := by
  induction xs generalizing accT accF with
  | nil => simp [partitionGo, SeqSpec.partitionE, SeqSpec.mapE, SeqSpec.bind, Out.map]
  | cons x xs ih =>
    simp only [partitionGo, SeqSpec.partitionE, SeqSpec.mapE] at *
    cases hp : p x with
    | ok b =>
      cases b <;> simp [SeqSpec.bind, Out.map, ih]
      all_goals cases SeqSpec.mapE p xs <;> simp [SeqSpec.bind, Out.map]
    | throw => simp [SeqSpec.bind, Out.map]
    | panic => simp [SeqSpec.bind, Out.map]

theorem partition_eq (p : α → Out Bool) (xs : List α) : partition p xs = SeqSpec.partitionE p xs := by
  simp only [partition, partitionGo_eq]
  cases SeqSpec.partitionE p xs <;> simp [Out.map]

theorem pairwiseGo_eq (f : α → α → Out β) (a : α) (acc : List β) (xs : List α) :
    pairwiseGo f (some a) acc xs
      = (SeqSpec.mapE (fun p => f p.1 p.2) ((a :: xs).zip xs)).map (acc ++ ·) := by
  induction xs generalizing a acc with
  | nil => simp [pairwiseGo, SeqSpec.mapE]
  | cons y ys ih =>
    simp only [pairwiseGo, List.zip_cons_cons, SeqSpec.mapE]
    cases hf : f a y with
    | ok r =>
      simp only [SeqSpec.bind_ok, ih]
      cases SeqSpec.mapE (fun p => f p.1 p.2) ((y :: ys).zip ys) <;> simp [SeqSpec.bind, Out.map]
    | throw => simp [SeqSpec.bind, Out.map]
    | panic => simp [SeqSpec.bind, Out.map]

theorem pairwise_eq (f : α → α → Out β) (xs : List α) : pairwise f xs = SeqSpec.pairwiseE f xs := by
  cases xs with
  | nil => rfl
  | cons x xs =>
    simp only [pairwise, pairwiseGo, SeqSpec.pairwiseE, List.tail_cons, pairwiseGo_eq]
    cases SeqSpec.mapE (fun p => f p.1 p.2) ((x :: xs).zip xs) <;> simp [Out.map]

theorem enumerateGo_eq (k : Nat) (acc : List (Nat × α)) (xs : List α) :
    enumerateGo k acc xs = acc ++ (List.range' k xs.length).zip xs := by
  induction xs generalizing k acc with
  | nil => simp [enumerateGo]
  | cons x xs ih => simp [enumerateGo, ih, List.range'_succ]

theorem enumerate_eq (xs : List α) : enumerate xs = SeqSpec.enumerate xs := by
  simp [enumerate, SeqSpec.enumerate, enumerateGo_eq, List.range_eq_range']

theorem extremumGo_eq (cmp : α → α → Out Ordering) (bias : Ordering) (r : α) (xs : List α) :
    extremumGo cmp bias (some r) xs
      = (SeqSpec.foldlE (fun r b => SeqSpec.bind (cmp b r) fun o => .ok (if o == bias then b else r)) r xs).map some := by
  induction xs generalizing r with
  | nil => rfl
  | cons b xs ih =>
    simp only [extremumGo, SeqSpec.foldlE]
    cases hc : cmp b r with
    | ok o =>
      simp only [SeqSpec.bind_ok]
      by_cases h : (o == bias) = true <;> simp [h, ih]
    | throw => simp [SeqSpec.bind, Out.map]
    | panic => simp [SeqSpec.bind, Out.map]

theorem extremum_eq (cmp : α → α → Out Ordering) (bias : Ordering) (xs : List α) :
    extremum cmp bias xs = SeqSpec.extremumE cmp bias xs := by
  cases xs with
  | nil => rfl
  | cons x xs =>
    simp only [extremum, extremumGo, SeqSpec.extremumE, SeqSpec.fold1E, extremumGo_eq]
    cases SeqSpec.foldlE _ x xs <;> simp [Out.map]

theorem replicateGo_eq (seq : List α) (k : Nat) (acc : List α) :
    replicateGo seq k acc = acc ++ (List.replicate k seq).flatten := by
  induction k generalizing acc with
  | zero => simp [replicateGo]
  | succ k ih => simp [replicateGo, ih, List.replicate_succ]

theorem cartesianScalar_eq (seq : List α) (s : Int) : cartesianScalar seq s = SeqSpec.repeatSeq seq s := by
  simp [cartesianScalar, SeqSpec.repeatSeq, replicateGo_eq]

theorem prefixesGo_eq (pre : List α) (acc : List (List α)) (xs : List α) :
    prefixesGo pre acc xs = acc ++ (List.range xs.length).map (fun i => pre ++ xs.take (i + 1)) := by
  induction xs generalizing pre acc with
  | nil => simp [prefixesGo]
  | cons x xs ih =>
    simp [prefixesGo, ih, List.range_succ_eq_map, List.map_map, Function.comp_def]

theorem prefixes_eq (xs : List α) : prefixes xs = SeqSpec.prefixes xs := by
  simp [prefixes, SeqSpec.prefixes, prefixesGo_eq, List.range_succ_eq_map, List.map_map, Function.comp_def]

theorem reversedPrefixesGo_eq (pre : List α) (acc : List (List α)) (xs : List α) :
    reversedPrefixesGo pre acc xs
      = acc ++ (List.range xs.length).map (fun i => (pre ++ xs.take (i + 1)).reverse) := by
  induction xs generalizing pre acc with
  | nil => simp [reversedPrefixesGo]
  | cons x xs ih =>
    simp [reversedPrefixesGo, ih, List.range_succ_eq_map, List.map_map, Function.comp_def]

theorem suffixes_eq (xs : List α) : suffixes xs = SeqSpec.suffixes xs := by
  simp only [suffixes, reversedPrefixes, reversedPrefixesGo_eq, SeqSpec.suffixes, List.length_reverse,
    List.nil_append, List.range_succ_eq_map, List.map_cons, List.map_map, Function.comp_def]
  simp only [Nat.sub_zero, List.drop_length, List.singleton_append, List.cons.injEq, true_and]
  apply List.map_congr_left
  intro i hi
  simp only [List.mem_range] at hi
  rw [List.take_reverse, List.reverse_reverse]


/-! window -/
theorem window_head (ys : List α) (n : Nat) (hn : 0 < n) (h : n ≤ ys.length) :
    SeqSpec.window ys n = ys.take n :: SeqSpec.window ys.tail n := by
  cases ys with
  | nil => simp at h; omega
  | cons y ys =>
    simp only [SeqSpec.window, List.length_cons, List.tail_cons]
    have e : ys.length + 1 + 1 - n = (ys.length + 1 - n) + 1 := by simp at h; omega
    rw [e, List.range_succ_eq_map]
    simp [List.map_map, Function.comp_def]

theorem windowSlide_eq (w : List α) (acc : List (List α)) (rest : List α) (hw : 0 < w.length) :
    windowSlide w acc rest = acc ++ (SeqSpec.window (w ++ rest) w.length).tail := by
  induction rest generalizing w acc with
  | nil =>
    simp [windowSlide, SeqSpec.window]
  | cons x rest ih =>
    simp only [windowSlide]
    have hw' : 0 < (w.drop 1 ++ [x]).length := by simp
    rw [ih _ _ hw']
    have hlen : (w.drop 1 ++ [x]).length = w.length := by simp; omega
    rw [hlen]
    have h1 : w.length ≤ (w ++ x :: rest).length := by simp
    rw [window_head (w ++ x :: rest) w.length hw h1]
    have htail : (w ++ x :: rest).tail = (w.drop 1 ++ [x]) ++ rest := by
      cases w with
      | nil => simp at hw
      | cons a w => simp
    rw [htail]
    have h2 : w.length ≤ ((w.drop 1 ++ [x]) ++ rest).length := by simp; omega
    rw [window_head _ _ hw h2]
    have h3 : ((w.drop 1 ++ [x]) ++ rest).take w.length = w.drop 1 ++ [x] := List.take_left' hlen
    rw [h3, List.tail_cons, List.tail_cons, List.append_assoc]
    rfl

theorem windowFill_eq (k : Nat) (w xs : List α) :
    windowFill k w xs = if k ≤ xs.length then some (w ++ xs.take k, xs.drop k) else none := by
  induction k generalizing w xs with
  | zero => simp [windowFill]
  | succ k ih =>
    cases xs with
    | nil => simp [windowFill]
    | cons x xs =>
      simp only [windowFill, ih, List.length_cons, Nat.add_le_add_iff_right]
      split <;> simp

theorem windowed_eq (xs : List α) (n : Nat) (hn : 0 < n) : windowed xs n = SeqSpec.window xs n := by
  simp only [windowed, windowFill_eq, List.nil_append]
  by_cases h : n ≤ xs.length
  · simp only [h, if_true]
    have hl : (xs.take n).length = n := by simp; omega
    have hw : 0 < (xs.take n).length := by omega
    rw [windowSlide_eq _ _ _ hw, List.take_append_drop, hl, window_head xs n hn h]
    simp
  · simp only [h, if_false, SeqSpec.window]
    have : xs.length + 1 - n = 0 := by omega
    simp [this]

/-! join -/
theorem intercalate_cons_cons (sep : List γ) (a b : List γ) (rest : List (List γ)) :
    sep.intercalate (a :: b :: rest) = a ++ sep ++ sep.intercalate (b :: rest) := by
  simp [List.intercalate, List.intersperse]

theorem joinGo_started (joiner : List γ) (disp : α → List γ) (acc : List γ) (xs : List α) :
    joinGo joiner disp true acc xs = acc ++ (xs.map (fun x => joiner ++ disp x)).flatten := by
  induction xs generalizing acc with
  | nil => simp [joinGo]
  | cons x xs ih => simp [joinGo, ih]

theorem intercalate_eq_flatten (sep : List γ) (a : List γ) (rest : List (List γ)) :
    sep.intercalate (a :: rest) = a ++ (rest.map (fun x => sep ++ x)).flatten := by
  induction rest generalizing a with
  | nil => simp [List.intercalate, List.intersperse]
  | cons b rest ih => rw [intercalate_cons_cons, ih]; simp

theorem join_eq (joiner : List γ) (disp : α → List γ) (xs : List α) :
    join joiner disp xs = SeqSpec.join joiner disp xs := by
  cases xs with
  | nil => simp [join, joinGo, SeqSpec.join, List.intercalate]
  | cons x xs =>
    simp [join, joinGo, SeqSpec.join, joinGo_started, intercalate_eq_flatten, List.map_map, Function.comp_def]

/-! cartesian product -/
theorem cartesianForeach_eq (acc : List α) (seqs : List (List α)) (ret : List (List α)) :
    cartesianForeach acc seqs ret = ret ++ (SeqSpec.product seqs).map (acc ++ ·) := by
  induction seqs generalizing acc ret with
  | nil => simp [cartesianForeach, SeqSpec.product]
  | cons a rest ih =>
    simp only [cartesianForeach, SeqSpec.product]
    have key : ∀ (a : List α) (ret : List (List α)),
        a.foldl (fun ret e => cartesianForeach (acc ++ [e]) rest ret) ret
          = ret ++ a.flatMap fun x => (SeqSpec.product rest).map (fun t => acc ++ x :: t) := by
      intro a
      induction a with
      | nil => simp
      | cons e a iha =>
        intro ret
        simp only [List.foldl_cons, iha, ih]
        simp [List.flatMap_cons, List.flatMap_def]
    rw [key a ret, List.map_flatMap]
    simp [List.map_map, Function.comp_def]

theorem cartesianProduct_eq (seqs : List (List α)) : cartesianProduct seqs = SeqSpec.product seqs := by
  simp [cartesianProduct, cartesianForeach_eq]


/-! chunks -/
theorem chunks_nil (n : Nat) (hn : 0 < n) : SeqSpec.chunks ([] : List α) n = [] := by
  simp only [SeqSpec.chunks, List.length_nil, Nat.zero_add]
  have : (n - 1) / n = 0 := Nat.div_eq_of_lt (by omega)
  simp [this]

theorem chunks_step (ys : List α) (n : Nat) (hn : 0 < n) (hy : ys ≠ []) :
    SeqSpec.chunks ys n = ys.take n :: SeqSpec.chunks (ys.drop n) n := by
  have hlen : 0 < ys.length := List.length_pos_iff.mpr hy
  simp only [SeqSpec.chunks, List.length_drop]
  have e : (ys.length + n - 1) / n = (ys.length - n + n - 1) / n + 1 := by
    by_cases h : n ≤ ys.length
    · have : ys.length + n - 1 = (ys.length - n + n - 1) + n := by omega
      rw [this, Nat.add_div_right _ hn]
    · have h1 : ys.length - n + n - 1 = n - 1 := by omega
      have h2 : ys.length + n - 1 = (ys.length - 1) + n := by omega
      rw [h1, h2, Nat.add_div_right _ hn, Nat.div_eq_of_lt (by omega : n - 1 < n),
        Nat.div_eq_of_lt (by omega : ys.length - 1 < n)]
  rw [e, List.range_succ_eq_map]
  simp only [List.map_cons, Nat.zero_mul, List.drop_zero, List.map_map, Function.comp_def, List.cons.injEq, true_and]
  apply List.map_congr_left
  intro i _
  rw [List.drop_drop]
  congr 2
  rw [Nat.succ_mul]; omega

theorem groupedGo_eq (n : Nat) (strict : Bool) (hn : 0 < n) (acc : List (List α)) (group : List α) (i : Nat)
    (xs : List α) (hi : 0 < i) (hg : group.length + i = n) :
    groupedGo n strict acc group i xs = (SeqSpec.chunksE (group ++ xs) n strict).map (acc ++ ·) := by
  induction xs generalizing acc group i with
  | nil =>
    simp only [groupedGo, List.append_nil, SeqSpec.chunksE]
    cases group with
    | nil => simp [chunks_nil n hn, Out.map]
    | cons g gs =>
      have hl : (g :: gs).length < n := by omega
      have hmod : (g :: gs).length % n = (g :: gs).length := Nat.mod_eq_of_lt hl
      have hne : ((g :: gs).length != n) = true := by
        simp only [bne_iff_ne, ne_eq]; omega
      have hne0 : ((g :: gs).length % n != 0) = true := by
        simp only [bne_iff_ne, ne_eq]; rw [hmod]; simp
      rw [chunks_step _ n hn (by simp)]
      have hd : (g :: gs).drop n = [] := List.drop_eq_nil_of_le (by omega)
      have ht : (g :: gs).take n = g :: gs := List.take_of_length_le (by omega)
      rw [hd, ht, chunks_nil n hn, hne, hne0]
      cases strict <;> simp [Out.map]
  | cons x xs ih =>
    cases i with
    | zero => omega
    | succ i =>
      simp only [groupedGo]
      by_cases h0 : i = 0
      · subst h0
        simp only [if_true]
        have hfull : (group ++ [x]).length = n := by simp; omega
        rw [ih (acc ++ [group ++ [x]]) [] n hn (by simp)]
        simp only [List.nil_append, SeqSpec.chunksE]
        have hsplit : group ++ x :: xs = (group ++ [x]) ++ xs := by simp
        rw [hsplit, chunks_step ((group ++ [x]) ++ xs) n hn (by simp)]
        have ht : ((group ++ [x]) ++ xs).take n = group ++ [x] := List.take_left' hfull
        have hd : ((group ++ [x]) ++ xs).drop n = xs := List.drop_left' hfull
        have hm : ((group ++ [x]) ++ xs).length % n = xs.length % n := by
          rw [List.length_append, hfull, Nat.add_mod_left]
        rw [ht, hd, hm]
        split <;> simp [Out.map]
      · simp only [h0, if_false]
        rw [ih acc (group ++ [x]) i (by omega) (by simp; omega)]
        simp

theorem grouped_eq (xs : List α) (n : Nat) (strict : Bool) (hn : 0 < n) :
    grouped xs n strict = SeqSpec.chunksE xs n strict := by
  simp only [grouped]
  rw [groupedGo_eq n strict hn [] [] n xs hn (by simp)]
  simp only [List.nil_append]
  cases SeqSpec.chunksE xs n strict <;> simp [Out.map]

/-! group by adjacent relation -/
def mergeHead (g : List α) : List (List α) → List (List α)
  | h :: t => (g ++ h) :: t
  | [] => [g]

theorem groupByE_ne_nil (f : α → α → Out Bool) (x : α) (xs : List α) (r : List (List α)) :
    SeqSpec.groupByE f (x :: xs) = .ok r → r ≠ [] := by
  cases xs with
  | nil => simp [SeqSpec.groupByE]; intro h; subst h; simp
  | cons y ys =>
    simp only [SeqSpec.groupByE]
    cases f x y with
    | ok b =>
      cases SeqSpec.groupByE f (y :: ys) with
      | ok r' =>
        simp only [SeqSpec.bind_ok]
        intro h
        injection h with h
        subst h
        cases b <;> cases r' <;> simp
      | throw => simp [SeqSpec.bind]
      | panic => simp [SeqSpec.bind]
    | throw => simp [SeqSpec.bind]
    | panic => simp [SeqSpec.bind]

theorem groupedByGo_eq (f : α → α → Out Bool) (acc : List (List α)) (g : List α) (prev : α) (xs : List α) :
    groupedByGo f acc (g ++ [prev]) xs
      = (SeqSpec.groupByE f (prev :: xs)).map (fun r => acc ++ mergeHead g r) := by
  induction xs generalizing acc g prev with
  | nil => simp [groupedByGo, SeqSpec.groupByE, Out.map, mergeHead]
  | cons y ys ih =>
    simp only [groupedByGo, List.getLast?_append, List.getLast?_singleton, SeqSpec.groupByE]
    simp only [Option.some_or]
    cases hf : f prev y with
    | ok b =>
      simp only [SeqSpec.bind_ok]
      cases b with
      | true =>
        simp only []
        have := ih acc (g ++ [prev]) y
        simp only [List.append_assoc] at this ⊢
        rw [this]
        cases hr : SeqSpec.groupByE f (y :: ys) with
        | ok r =>
          cases r with
          | nil => exact absurd rfl (groupByE_ne_nil f y ys [] hr)
          | cons h t => simp [SeqSpec.bind, Out.map, mergeHead]
        | throw => simp [SeqSpec.bind, Out.map]
        | panic => simp [SeqSpec.bind, Out.map]
      | false =>
        simp only []
        have := ih (acc ++ [g ++ [prev]]) [] y
        simp only [List.nil_append] at this
        rw [this]
        cases hr : SeqSpec.groupByE f (y :: ys) with
        | ok r =>
          cases r with
          | nil => exact absurd rfl (groupByE_ne_nil f y ys [] hr)
          | cons h t => simp [SeqSpec.bind, Out.map, mergeHead]
        | throw => simp [SeqSpec.bind, Out.map]
        | panic => simp [SeqSpec.bind, Out.map]
    | throw => simp [SeqSpec.bind, Out.map]
    | panic => simp [SeqSpec.bind, Out.map]

theorem groupedBy_eq (f : α → α → Out Bool) (xs : List α) : groupedBy f xs = SeqSpec.groupByE f xs := by
  cases xs with
  | nil => rfl
  | cons x xs =>
    simp only [groupedBy, groupedByGo, List.getLast?_nil, List.nil_append]
    have := groupedByGo_eq f [] [] x xs
    simp only [List.nil_append] at this
    rw [this]
    cases hr : SeqSpec.groupByE f (x :: xs) with
    | ok r =>
      cases r with
      | nil => exact absurd rfl (groupByE_ne_nil f x xs [] hr)
      | cons h t => simp [Out.map, mergeHead]
    | throw => rfl
    | panic => rfl


/-! unique -/
theorem elem_append_singleton [BEq κ] (a b : κ) (l : List κ) :
    (l ++ [b]).elem a = (l.elem a || a == b) := by
  induction l with
  | nil => simp [List.elem]
  | cons c l ih =>
    simp only [List.cons_append, List.elem_cons]
    cases a == c <;> simp [ih]

theorem elem_of_beq [BEq κ] [PartialEquivBEq κ] (a b : κ) (l : List κ) (hab : (a == b) = true)
    (hb : l.elem b = true) : l.elem a = true := by
  induction l with
  | nil => simp [List.elem] at hb
  | cons c l ih =>
    simp only [List.elem_cons] at hb ⊢
    cases hbc : b == c with
    | true => have := PartialEquivBEq.trans hab hbc; simp [this]
    | false =>
      simp only [hbc] at hb
      have := ih hb
      cases a == c <;> simp [this]

theorem uniquedGo_eq [BEq κ] [PartialEquivBEq κ] (key : α → κ) (seen : List κ) (ret xs : List α) :
    uniquedGo (fun x => .ok (key x)) seen ret xs
      = .ok (ret ++ (SeqSpec.uniqueBy key xs).filter (fun y => !seen.elem (key y))) := by
  induction xs generalizing seen ret with
  | nil => simp [uniquedGo, SeqSpec.uniqueBy]
  | cons x xs ih =>
    simp only [uniquedGo, SeqSpec.uniqueBy]
    by_cases hk : seen.elem (key x) = true
    · simp only [hk, if_true, ih, List.filter_cons, Bool.not_true, Bool.false_eq_true, if_false,
        List.filter_filter]
      congr 2
      apply List.filter_congr
      intro y _
      cases hy : seen.elem (key y) with
      | true => simp
      | false =>
        simp only [Bool.not_false, Bool.true_and, Bool.not_eq_true']
        cases hyk : key y == key x with
        | false => rfl
        | true => rw [elem_of_beq _ _ _ hyk hk] at hy; cases hy
    · have hk' : seen.elem (key x) = false := by simpa using hk
      simp only [hk', Bool.false_eq_true, if_false, ih, List.filter_cons, Bool.not_false, if_true,
        List.filter_filter, List.append_assoc, List.singleton_append]
      congr 3
      apply List.filter_congr
      intro y _
      rw [elem_append_singleton]
      cases seen.elem (key y) <;> simp

theorem uniqued_eq [BEq κ] [PartialEquivBEq κ] (key : α → κ) (xs : List α) :
    uniqued (fun x => .ok (key x)) xs = .ok (SeqSpec.uniqueBy key xs) := by
  simp [uniqued, uniquedGo_eq, List.elem]

/-! sort -/
theorem pairs_cons (x : α) (r : List α) : SeqSpec.pairs (x :: r) = r.map (fun y => (x, y)) ++ SeqSpec.pairs r := rfl

theorem cmpFailure_eq (cmp : α → α → Out Ordering) (xs : List α) :
    cmpFailure cmp xs
      = (SeqSpec.pairs xs).findSome? fun p =>
          (SeqSpec.failureOf (cmp p.1 p.2)).or (SeqSpec.failureOf (cmp p.2 p.1)) := by
  induction xs with
  | nil => rfl
  | cons x r ih =>
    simp only [cmpFailure, pairs_cons, List.findSome?_append, List.findSome?_map, ih]
    have : pairFailure cmp x
      = ((fun p : α × α => (SeqSpec.failureOf (cmp p.1 p.2)).or (SeqSpec.failureOf (cmp p.2 p.1))) ∘ fun y => (x, y)) := by
      funext y
      simp only [Function.comp, pairFailure]
      cases cmp x y <;> cases cmp y x <;> rfl
    rw [this]
    cases List.findSome? _ r <;> rfl

/-- the comparator answers consistently in both directions -/
def SwapConsistent (cmp : α → α → Out Ordering) (xs : List α) : Prop :=
  ∀ a ∈ xs, ∀ b ∈ xs, ∀ o, cmp a b = .ok o → cmp b a = .ok o.swap

theorem leOf_eq_specLe (cmp : α → α → Out Ordering) (xs : List α) (h : SwapConsistent cmp xs)
    (a : α) (ha : a ∈ xs) (b : α) (hb : b ∈ xs) :
    leOf cmp a b = SeqSpec.leOfCmp cmp a b := by
  unfold leOf SeqSpec.leOfCmp
  cases hab : cmp a b with
  | ok o =>
    rw [h a ha b hb o hab]
    cases o <;> rfl
  | throw =>
    cases hba : cmp b a with
    | ok o => have := h b hb a ha o hba; rw [hab] at this; cases this
    | throw => rfl
    | panic => rfl
  | panic =>
    cases hba : cmp b a with
    | ok o => have := h b hb a ha o hba; rw [hab] at this; cases this
    | throw => rfl
    | panic => rfl

theorem sortWith_eq (cmp : α → α → Out Ordering) (xs : List α) (h : SwapConsistent cmp xs) :
    sortWith cmp xs = SeqSpec.sortE cmp xs := by
  simp only [sortWith, SeqSpec.sortE, cmpFailure_eq, SeqSpec.sort]
  have := List.map_mergeSort (f := id) (l := xs) (r := leOf cmp)
    (s := SeqSpec.leOfCmp cmp)
    (by intro a ha b hb; exact leOf_eq_specLe cmp xs h a ha b hb)
  simp only [List.map_id] at this
  rw [this]
  generalize List.findSome? _ (SeqSpec.pairs xs) = o
  cases o with
  | none => rfl
  | some e => cases e <;> rfl

theorem keyedGo_eq (key : α → Out κ) (w : List (κ × α)) (xs : List α) :
    keyedGo key w xs = (SeqSpec.mapE key xs).map (fun ks => w ++ ks.zip xs) := by
  induction xs generalizing w with
  | nil => simp [keyedGo, SeqSpec.mapE]
  | cons x xs ih =>
    simp only [keyedGo, SeqSpec.mapE]
    cases key x with
    | ok k =>
      simp only [SeqSpec.bind_ok, ih]
      cases SeqSpec.mapE key xs <;> simp [SeqSpec.bind, Out.map]
    | throw => simp [SeqSpec.bind, Out.map]
    | panic => simp [SeqSpec.bind, Out.map]

theorem sortedOn_eq (key : α → Out κ) (kcmp : κ → κ → Out Ordering) (xs : List α)
    (h : ∀ a b o, kcmp a b = .ok o → kcmp b a = .ok o.swap) :
    sortedOn key kcmp xs = SeqSpec.sortOnE key kcmp xs := by
  simp only [sortedOn, SeqSpec.sortOnE, keyedGo_eq, List.nil_append]
  cases SeqSpec.mapE key xs with
  | ok ks =>
    simp only [Out.map, andThen_ok, SeqSpec.bind_ok]
    rw [sortWith_eq _ _ (by intro a _ b _ o; exact h a.1 b.1 o)]
    cases SeqSpec.sortE _ (ks.zip xs) <;> rfl
  | throw => rfl
  | panic => rfl


/-! zip / ziplongest / transpose -/
theorem column_cons (l : List α) (rest : List (List α)) (i : Nat) :
    SeqSpec.column (l :: rest) i = (match l[i]? with | some x => [x] | none => []) ++ SeqSpec.column rest i := by
  simp only [SeqSpec.column, List.filterMap_cons]
  cases l[i]? <;> rfl

theorem column_tail (its : List (List α)) (i : Nat) :
    SeqSpec.column (its.map List.tail) i = SeqSpec.column its (i + 1) := by
  induction its with
  | nil => rfl
  | cons l rest ih =>
    simp only [List.map_cons, column_cons, ih]
    cases l <;> simp

theorem longestBatch_eq (its : List (List α)) :
    longestBatch its = (SeqSpec.column its 0, its.map List.tail) := by
  induction its with
  | nil => rfl
  | cons l rest ih =>
    cases l <;> simp [longestBatch, ih, column_cons]

theorem maxLen_tail (its : List (List α)) :
    SeqSpec.maxLen (its.map List.tail) = SeqSpec.maxLen its - 1 := by
  induction its with
  | nil => rfl
  | cons l rest ih =>
    simp only [List.map_cons, SeqSpec.maxLen, ih, List.length_tail]
    omega

theorem column_zero_nil (its : List (List α)) : SeqSpec.column its 0 = [] ↔ SeqSpec.maxLen its = 0 := by
  induction its with
  | nil => simp [SeqSpec.column, SeqSpec.maxLen]
  | cons l rest ih =>
    rw [column_cons]
    cases l with
    | nil => simp [SeqSpec.maxLen, ih]
    | cons x xs => simp [SeqSpec.maxLen] <;> omega

theorem zipLongestGo_eq (f : List α → Out β) (fuel : Nat) (ret : List β) (its : List (List α))
    (h : SeqSpec.maxLen its < fuel) :
    zipLongestGo f fuel ret its
      = (SeqSpec.mapE f ((List.range (SeqSpec.maxLen its)).map (SeqSpec.column its))).map (ret ++ ·) := by
  induction fuel generalizing ret its with
  | zero => omega
  | succ fuel ih =>
    simp only [zipLongestGo, longestBatch_eq]
    cases hc : SeqSpec.column its 0 with
    | nil =>
      have := (column_zero_nil its).mp hc
      simp [this, SeqSpec.mapE]
    | cons b bs =>
      have hne : SeqSpec.maxLen its ≠ 0 := fun h0 => by
        have := (column_zero_nil its).mpr h0; rw [hc] at this; cases this
      obtain ⟨m, hm⟩ : ∃ m, SeqSpec.maxLen its = m + 1 := ⟨SeqSpec.maxLen its - 1, by omega⟩
      simp only [hm, List.range_succ_eq_map, List.map_cons, List.map_map, SeqSpec.mapE, hc]
      cases hf : f (b :: bs) with
      | ok r =>
        simp only [SeqSpec.bind_ok]
        have hm' : SeqSpec.maxLen (its.map List.tail) = m := by rw [maxLen_tail, hm]; rfl
        rw [ih (ret ++ [r]) (its.map List.tail) (by omega), hm']
        have : (List.range m).map (SeqSpec.column (its.map List.tail))
            = (List.range m).map (SeqSpec.column its ∘ Nat.succ) := by
          apply List.map_congr_left; intro i _; exact column_tail its i
        rw [this]
        cases SeqSpec.mapE f _ <;> simp [SeqSpec.bind, Out.map]
      | throw => simp [SeqSpec.bind, Out.map]
      | panic => simp [SeqSpec.bind, Out.map]

theorem implMaxLen_foldl (m : Nat) (its : List (List α)) :
    its.foldl (fun m l => max m l.length) m = max m (SeqSpec.maxLen its) := by
  induction its generalizing m with
  | nil => simp [SeqSpec.maxLen]
  | cons l rest ih => simp only [List.foldl_cons, ih, SeqSpec.maxLen]; omega

theorem implMaxLen_eq (its : List (List α)) : maxLen its = SeqSpec.maxLen its := by
  simp [maxLen, implMaxLen_foldl]

theorem zipLongest_eq (f : List α → Out β) (its : List (List α)) :
    zipLongest f its = SeqSpec.mapE f (SeqSpec.zipLongest its) := by
  simp only [zipLongest, SeqSpec.zipLongest]
  rw [zipLongestGo_eq f _ [] its (by rw [implMaxLen_eq]; omega)]
  cases SeqSpec.mapE f _ <;> simp [Out.map]

theorem minLen_cons_cons (r r' : List α) (rs : List (List α)) :
    SeqSpec.minLen (r :: r' :: rs) = min r.length (SeqSpec.minLen (r' :: rs)) := rfl

theorem zipBatch_eq (its : List (List α)) :
    zipBatch its = if its.any List.isEmpty then none else some (SeqSpec.column its 0, its.map List.tail) := by
  induction its with
  | nil => rfl
  | cons l rest ih =>
    cases l with
    | nil => simp [zipBatch]
    | cons x xs =>
      simp only [zipBatch, ih]
      by_cases h : rest.any List.isEmpty = true
      · simp [h]
      · have h' : rest.any List.isEmpty = false := by cases hb : rest.any List.isEmpty <;> simp_all
        simp [h', column_cons]

theorem minLen_zero_iff (its : List (List α)) (hne : its ≠ []) :
    SeqSpec.minLen its = 0 ↔ its.any List.isEmpty = true := by
  induction its with
  | nil => exact absurd rfl hne
  | cons l rest ih =>
    cases rest with
    | nil => cases l <;> simp [SeqSpec.minLen]
    | cons r' rs =>
      rw [minLen_cons_cons, List.any_cons]
      have := ih (by simp)
      cases l with
      | nil => simp
      | cons x xs => simp only [List.length_cons, List.isEmpty_cons, Bool.false_or, ← this]; omega

theorem minLen_tail (its : List (List α)) (hne : its ≠ []) :
    SeqSpec.minLen (its.map List.tail) = SeqSpec.minLen its - 1 := by
  induction its with
  | nil => exact absurd rfl hne
  | cons l rest ih =>
    cases rest with
    | nil => simp [SeqSpec.minLen]
    | cons r' rs =>
      have := ih (by simp)
      simp only [List.map_cons] at this ⊢
      rw [minLen_cons_cons, minLen_cons_cons, this, List.length_tail]
      omega

theorem zipGo_eq (f : List α → Out β) (fuel : Nat) (ret : List β) (its : List (List α)) (hne : its ≠ [])
    (h : SeqSpec.minLen its < fuel) :
    zipGo f fuel ret its
      = (SeqSpec.mapE f ((List.range (SeqSpec.minLen its)).map (SeqSpec.column its))).map (ret ++ ·) := by
  induction fuel generalizing ret its with
  | zero => omega
  | succ fuel ih =>
    simp only [zipGo, zipBatch_eq]
    by_cases hany : its.any List.isEmpty = true
    · have := (minLen_zero_iff its hne).mpr hany
      simp [hany, this, SeqSpec.mapE]
    · have hm0 : SeqSpec.minLen its ≠ 0 := fun h0 => hany ((minLen_zero_iff its hne).mp h0)
      obtain ⟨m, hm⟩ : ∃ m, SeqSpec.minLen its = m + 1 := ⟨SeqSpec.minLen its - 1, by omega⟩
      have hany' : its.any List.isEmpty = false := by cases hb : its.any List.isEmpty <;> simp_all
      simp only [hany', Bool.false_eq_true, if_false, hm, List.range_succ_eq_map, List.map_cons, List.map_map, SeqSpec.mapE]
      cases hf : f (SeqSpec.column its 0) with
      | ok r =>
        simp only [SeqSpec.bind_ok]
        have hm' : SeqSpec.minLen (its.map List.tail) = m := by rw [minLen_tail its hne, hm]; rfl
        rw [ih (ret ++ [r]) (its.map List.tail) (by simpa using hne) (by omega), hm']
        have : (List.range m).map (SeqSpec.column (its.map List.tail))
            = (List.range m).map (SeqSpec.column its ∘ Nat.succ) := by
          apply List.map_congr_left; intro i _; exact column_tail its i
        rw [this]
        cases SeqSpec.mapE f _ <;> simp [SeqSpec.bind, Out.map]
      | throw => simp [SeqSpec.bind, Out.map]
      | panic => simp [SeqSpec.bind, Out.map]

theorem minLen_le_head (l : List α) (rest : List (List α)) : SeqSpec.minLen (l :: rest) ≤ l.length := by
  cases rest with
  | nil => simp [SeqSpec.minLen]
  | cons r rs => rw [minLen_cons_cons]; omega

theorem zip_eq (f : List α → Out β) (its : List (List α)) :
    zip f its = if its.isEmpty then .throw else SeqSpec.mapE f (SeqSpec.zip its) := by
  cases its with
  | nil => rfl
  | cons l rest =>
    simp only [zip, SeqSpec.zip, List.isEmpty_cons, Bool.false_eq_true, if_false]
    rw [zipGo_eq f _ [] (l :: rest) (by simp) (by have := minLen_le_head l rest; omega)]
    cases SeqSpec.mapE f _ <;> simp [Out.map]


/-! ## sort is the stable ordered permutation -/

/-- `le` is a total preorder on the elements of `xs` (what "comparable elements" means) -/
structure TotalPreorderOn (le : α → α → Bool) (xs : List α) : Prop where
  trans : ∀ a ∈ xs, ∀ b ∈ xs, ∀ c ∈ xs, le a b = true → le b c = true → le a c = true
  total : ∀ a ∈ xs, ∀ b ∈ xs, (le a b || le b a) = true

theorem mergeSort_attach (le : α → α → Bool) (xs : List α) :
    (xs.attach.mergeSort (fun p q => le p.1 q.1)).map Subtype.val = xs.mergeSort le := by
  have := List.map_mergeSort (f := (Subtype.val : {a // a ∈ xs} → α)) (l := xs.attach)
    (r := fun p q => le p.1 q.1) (s := le) (by intros; rfl)
  rw [this, List.attach_map_subtype_val]

/-- **sort_stable_perm.**  For a comparison that is a total preorder on the input, `sort` returns
(1) an ordered list, (2) a permutation of the input, and (3) is stable: every subsequence of the
input that is already in order — in particular any two elements with equal keys, in their input
order — is still a subsequence of the result. -/
theorem sort_stable_perm (le : α → α → Bool) (xs : List α) (h : TotalPreorderOn le xs) :
    List.Pairwise (fun a b => le a b = true) (SeqSpec.sort le xs)
    ∧ (SeqSpec.sort le xs).Perm xs
    ∧ ∀ ys : List α, List.Pairwise (fun a b => le a b = true) ys → ys.Sublist xs → ys.Sublist (SeqSpec.sort le xs) := by
  let le' : {a // a ∈ xs} → {a // a ∈ xs} → Bool := fun p q => le p.1 q.1
  have tr : ∀ a b c, le' a b = true → le' b c = true → le' a c = true :=
    fun a b c => h.trans a.1 a.2 b.1 b.2 c.1 c.2
  have to : ∀ a b, (le' a b || le' b a) = true := fun a b => h.total a.1 a.2 b.1 b.2
  have e := mergeSort_attach le xs
  unfold SeqSpec.sort
  refine ⟨?_, ?_, ?_⟩
  · rw [← e, List.pairwise_map]
    exact List.pairwise_mergeSort tr to xs.attach
  · rw [← e]
    have := (List.mergeSort_perm xs.attach le').map Subtype.val
    rwa [List.attach_map_subtype_val] at this
  · intro ys hp hs
    rw [← List.attach_map_subtype_val xs] at hs
    obtain ⟨ys', hs', rfl⟩ := List.sublist_map_iff.mp hs
    rw [← e]
    apply List.Sublist.map
    apply List.sublist_mergeSort tr to _ hs'
    rwa [List.pairwise_map] at hp

/-- stability in the usual wording: two elements that compare equal keep their input order -/
theorem sort_stable_pair (le : α → α → Bool) (xs : List α) (h : TotalPreorderOn le xs) (a b : α)
    (hab : le a b = true) (hs : [a, b].Sublist xs) : [a, b].Sublist (SeqSpec.sort le xs) :=
  (sort_stable_perm le xs h).2.2 [a, b] (by simp [hab]) hs

/-- non-vacuity: `x % 3` is a total preorder on `[4, 5, 3, 1, 2]`, so 4 stays before 1 (both ≡ 1) -/
theorem mod3_total : TotalPreorderOn (fun a b : Nat => decide (a % 3 ≤ b % 3)) [4, 5, 3, 1, 2] :=
  ⟨by intro a _ b _ c _; simp only [decide_eq_true_eq]; omega,
   by intro a _ b _; simp only [Bool.or_eq_true, decide_eq_true_eq]; omega⟩
example : [4, 1].Sublist (SeqSpec.sort (fun a b : Nat => decide (a % 3 ≤ b % 3)) [4, 5, 3, 1, 2]) :=
  sort_stable_pair _ _ mod3_total 4 1 (by decide) (by decide)

/-- the Impl side: when the Noulith comparator is a total preorder on the input (answers for every
pair, consistently in both directions, transitively), `sort` does not raise and returns that
stable ordered permutation -/
theorem sortWith_total (cmp : α → α → Out Ordering) (xs : List α)
    (hok : ∀ a ∈ xs, ∀ b ∈ xs, ∃ o, cmp a b = .ok o) (hsw : SwapConsistent cmp xs) :
    sortWith cmp xs = .ok (SeqSpec.sort (SeqSpec.leOfCmp cmp) xs) := by
  rw [sortWith_eq cmp xs hsw]
  unfold SeqSpec.sortE
  have : (SeqSpec.pairs xs).findSome?
      (fun p => (SeqSpec.failureOf (cmp p.1 p.2)).or (SeqSpec.failureOf (cmp p.2 p.1))) = none := by
    rw [List.findSome?_eq_none_iff]
    intro p hp
    have hmem : p.1 ∈ xs ∧ p.2 ∈ xs := by
      clear hok hsw
      induction xs with
      | nil => simp [SeqSpec.pairs] at hp
      | cons x r ih =>
        rw [pairs_cons, List.mem_append] at hp
        rcases hp with hp | hp
        · obtain ⟨y, hy, rfl⟩ := List.mem_map.mp hp
          simp [hy]
        · have := ih hp
          simp [this.1, this.2]
    obtain ⟨o1, h1⟩ := hok p.1 hmem.1 p.2 hmem.2
    obtain ⟨o2, h2⟩ := hok p.2 hmem.2 p.1 hmem.1
    simp [h1, h2, SeqSpec.failureOf]
  rw [this]


/-! ## the `…E` specifications collapse to the plain `List` functions for callbacks that never fail -/

theorem mapE_pure (g : α → β) (xs : List α) : SeqSpec.mapE (fun x => .ok (g x)) xs = .ok (xs.map g) := by
  induction xs with
  | nil => rfl
  | cons x xs ih => simp [SeqSpec.mapE, ih]

theorem filterE_pure (p : α → Bool) (neg : Bool) (xs : List α) :
    SeqSpec.filterE (fun x => .ok (p x)) neg xs = .ok (xs.filter fun x => p x != neg) := by
  induction xs with
  | nil => rfl
  | cons x xs ih => simp only [SeqSpec.filterE, ih, SeqSpec.bind_ok, List.filter_cons]

theorem filter_pure (p : α → Bool) (xs : List α) :
    filtered (fun x => .ok (p x)) xs false = .ok (xs.filter p) := by
  rw [filtered_eq, filterE_pure]; simp

theorem reject_pure (p : α → Bool) (xs : List α) :
    filtered (fun x => .ok (p x)) xs true = .ok (xs.filter (fun x => !p x)) := by
  rw [filtered_eq, filterE_pure]; congr 2; funext x; cases p x <;> rfl

theorem takeWhileE_pure (p : α → Bool) (xs : List α) :
    SeqSpec.takeWhileE (fun x => .ok (p x)) xs = .ok (xs.takeWhile p) := by
  induction xs with
  | nil => rfl
  | cons x xs ih => simp only [SeqSpec.takeWhileE, ih, SeqSpec.bind_ok, List.takeWhile_cons]; split <;> rfl

theorem dropWhileE_pure (p : α → Bool) (xs : List α) :
    SeqSpec.dropWhileE (fun x => .ok (p x)) xs = .ok (xs.dropWhile p) := by
  induction xs with
  | nil => rfl
  | cons x xs ih => simp only [SeqSpec.dropWhileE, ih, SeqSpec.bind_ok, List.dropWhile_cons]; split <;> rfl

theorem anyE_pure (p : α → Bool) (xs : List α) : SeqSpec.anyE (fun x => .ok (p x)) xs = .ok (xs.any p) := by
  induction xs with
  | nil => rfl
  | cons x xs ih => simp only [SeqSpec.anyE, ih, SeqSpec.bind_ok, List.any_cons]; cases p x <;> rfl

theorem allE_pure (p : α → Bool) (xs : List α) : SeqSpec.allE (fun x => .ok (p x)) xs = .ok (xs.all p) := by
  induction xs with
  | nil => rfl
  | cons x xs ih => simp only [SeqSpec.allE, ih, SeqSpec.bind_ok, List.all_cons]; cases p x <;> rfl

theorem findE_pure (p : α → Bool) (xs : List α) : SeqSpec.findE (fun x => .ok (p x)) xs = .ok (xs.find? p) := by
  induction xs with
  | nil => rfl
  | cons x xs ih => simp only [SeqSpec.findE, ih, SeqSpec.bind_ok, List.find?_cons]; cases p x <;> rfl

theorem locateE_pure (p : α → Bool) (xs : List α) :
    SeqSpec.locateE (fun x => .ok (p x)) xs = .ok (xs.findIdx? p) := by
  induction xs with
  | nil => rfl
  | cons x xs ih =>
    simp only [SeqSpec.locateE, ih, SeqSpec.bind_ok, List.findIdx?_cons]
    cases p x <;> simp

theorem countE_pure (p : α → Bool) (xs : List α) :
    SeqSpec.countE (fun x => .ok (p x)) xs = .ok (xs.countP p) := by
  simp only [SeqSpec.countE, mapE_pure, SeqSpec.bind_ok]
  congr 1
  induction xs with
  | nil => rfl
  | cons x xs ih => simp only [List.map_cons, List.count_cons, ih, List.countP_cons]; cases p x <;> simp

theorem partitionE_pure (p : α → Bool) (xs : List α) :
    SeqSpec.partitionE (fun x => .ok (p x)) xs = .ok (xs.filter p, xs.filter (fun x => !p x)) := by
  simp only [SeqSpec.partitionE, mapE_pure, SeqSpec.bind_ok]
  congr 2
  · induction xs with
    | nil => rfl
    | cons x xs ih => simp only [List.map_cons, List.zip_cons_cons, List.filter_cons]; cases p x <;> simp [ih]
  · induction xs with
    | nil => rfl
    | cons x xs ih => simp only [List.map_cons, List.zip_cons_cons, List.filter_cons]; cases p x <;> simp [ih]

theorem foldlE_pure (g : β → α → β) (s : β) (xs : List α) :
    SeqSpec.foldlE (fun s x => .ok (g s x)) s xs = .ok (xs.foldl g s) := by
  induction xs generalizing s with
  | nil => rfl
  | cons x xs ih => simp [SeqSpec.foldlE, ih]

theorem scanlE_pure (g : β → α → β) (s : β) (xs : List α) :
    SeqSpec.scanlE (fun s x => .ok (g s x)) s xs = .ok (xs.scanl g s) := by
  induction xs generalizing s with
  | nil => rfl
  | cons x xs ih => simp [SeqSpec.scanlE, ih, List.scanl_cons]

theorem pairwiseE_pure (g : α → α → β) (xs : List α) :
    SeqSpec.pairwiseE (fun a b => .ok (g a b)) xs = .ok (List.zipWith g xs xs.tail) := by
  simp only [SeqSpec.pairwiseE, mapE_pure]
  congr 1
  generalize xs.tail = ys
  induction xs generalizing ys with
  | nil => rfl
  | cons x xs ih => cases ys <;> simp [ih]

theorem flatMapE_pure (g : α → List β) (xs : List α) :
    SeqSpec.flatMapE (fun x => .ok (g x)) xs = .ok (xs.flatMap g) := by
  simp [SeqSpec.flatMapE, mapE_pure, List.flatMap_def]

/-! ## unique keeps first occurrences, in order -/

theorem uniqueBy_sublist [BEq κ] (key : α → κ) (xs : List α) : (SeqSpec.uniqueBy key xs).Sublist xs := by
  induction xs with
  | nil => exact List.Sublist.slnil
  | cons x xs ih =>
    simp only [SeqSpec.uniqueBy]
    exact List.Sublist.cons_cons x (List.Sublist.trans List.filter_sublist ih)

/-- no two kept elements have equal keys -/
theorem uniqueBy_distinct [BEq κ] [PartialEquivBEq κ] (key : α → κ) (xs : List α) :
    (SeqSpec.uniqueBy key xs).Pairwise (fun a b => (key a == key b) = false) := by
  induction xs with
  | nil => exact List.Pairwise.nil
  | cons x xs ih =>
    simp only [SeqSpec.uniqueBy, List.pairwise_cons]
    refine ⟨?_, List.Pairwise.sublist List.filter_sublist ih⟩
    intro y hy
    have := (List.mem_filter.mp hy).2
    cases h : key x == key y with
    | false => rfl
    | true => rw [PartialEquivBEq.symm h] at this; cases this

/-- every input element is represented, and by the FIRST element of its class: an element with no
equal-keyed predecessor is kept -/
theorem uniqueBy_first_kept [BEq κ] [PartialEquivBEq κ] (key : α → κ) (pre : List α) (x : α) (post : List α)
    (h : ∀ y ∈ pre, (key x == key y) = false) : x ∈ SeqSpec.uniqueBy key (pre ++ x :: post) := by
  induction pre with
  | nil => simp [SeqSpec.uniqueBy]
  | cons p pre ih =>
    simp only [List.cons_append, SeqSpec.uniqueBy, List.mem_cons, List.mem_filter]
    right
    refine ⟨ih (fun y hy => h y (List.mem_cons_of_mem _ hy)), ?_⟩
    simp [h p (List.mem_cons_self)]

theorem uniqueBy_covers [BEq κ] [EquivBEq κ] (key : α → κ) (xs : List α) (x : α) (hx : x ∈ xs) :
    ∃ y ∈ SeqSpec.uniqueBy key xs, (key y == key x) = true := by
  induction xs with
  | nil => cases hx
  | cons a xs ih =>
    simp only [SeqSpec.uniqueBy]
    rcases List.mem_cons.mp hx with rfl | hx
    · exact ⟨x, List.mem_cons_self, BEq.refl _⟩
    · obtain ⟨y, hy, hyx⟩ := ih hx
      cases hya : key y == key a with
      | true => exact ⟨a, List.mem_cons_self, PartialEquivBEq.trans (PartialEquivBEq.symm hya) hyx⟩
      | false => exact ⟨y, List.mem_cons_of_mem _ (List.mem_filter.mpr ⟨hy, by simp [hya]⟩), hyx⟩


/-! ## filter-like functions return the sequence kind they were given -/

theorem pack_kind (k : Kind) (xs : List Val) : (Val.pack (kindRule k) xs).kind? = some (kindRule k) := by
  cases k <;> rfl

/-- everything implemented through `multi!`: the result kind is `kindRule` of the input kind —
the same kind for list / string / vector / bytes, a list for dict and stream -/
theorem multi_kind (s : Val) (g : List Val → Out (List Val)) (r : Val) (k : Kind)
    (hk : s.kind? = some k) (h : multi s g = .ok r) : r.kind? = some (kindRule k) := by
  unfold multi at h
  rw [hk] at h
  cases he : s.forced? with
  | none => rw [he] at h; cases h
  | some xs =>
    rw [he] at h
    simp only at h
    cases hg : g xs with
    | ok ys => rw [hg] at h; simp [Out.map] at h; subst h; exact pack_kind k ys
    | throw => rw [hg] at h; cases h
    | panic => rw [hg] at h; cases h

/-- and the groups produced through `multimulti!` (group, window, prefixes, suffixes, …) all have
that kind -/
theorem multimulti_kind (s : Val) (g : List Val → Out (List (List Val))) (r : Val) (k : Kind)
    (hk : s.kind? = some k) (h : multimulti s g = .ok r) :
    ∃ groups, r = .list groups ∧ ∀ v ∈ groups, v.kind? = some (kindRule k) := by
  unfold multimulti at h
  rw [hk] at h
  cases he : s.elems? with
  | none => rw [he] at h; cases h
  | some xs =>
    rw [he] at h
    simp only at h
    cases hg : g xs with
    | ok ys =>
      rw [hg] at h; simp [Out.map] at h; subst h
      refine ⟨_, rfl, ?_⟩
      intro v hv
      obtain ⟨y, _, rfl⟩ := List.mem_map.mp hv
      exact pack_kind k y
    | throw => rw [hg] at h; cases h
    | panic => rw [hg] at h; cases h

/-- **filter_kind_preserving**, on the call table itself: for `filter`, `reject`, `sort` (both
forms), `sort_on`, `unique`, `reverse` and `take` with a predicate, a successful call on a
sequence of kind `k` returns a sequence of kind `kindRule k` -/
theorem filter_kind_preserving (L : Lib) (s : Val) (f : Fn) (r : Val) (k : Kind) (hk : s.kind? = some k) :
    (call L "filter" [.v s, .f f] = .ok r → r.kind? = some (kindRule k))
    ∧ (call L "reject" [.v s, .f f] = .ok r → r.kind? = some (kindRule k))
    ∧ (call L "sort" [.v s] = .ok r → r.kind? = some (kindRule k))
    ∧ (call L "sort" [.v s, .f f] = .ok r → r.kind? = some (kindRule k))
    ∧ (call L "sort_on" [.v s, .f f] = .ok r → r.kind? = some (kindRule k))
    ∧ (call L "unique" [.v s] = .ok r → r.kind? = some (kindRule k))
    ∧ (call L "reverse" [.v s] = .ok r → r.kind? = some (kindRule k))
    ∧ (call L "take" [.v s, .f f] = .ok r → r.kind? = some (kindRule k)) := by
  refine ⟨?_, ?_, ?_, ?_, ?_, ?_, ?_, ?_⟩ <;> (intro h; exact multi_kind s _ r k hk h)

/-- `drop` with a predicate has its own dispatch: a stream stays a stream -/
theorem drop_kind (L : Lib) (s : Val) (f : Fn) (r : Val) (k : Kind) (hk : s.kind? = some k)
    (h : call L "drop" [.v s, .f f] = .ok r) :
    r.kind? = some (if k = .stream then .stream else kindRule k) := by
  cases s with
  | stream xs =>
    simp only [Val.kind?] at hk
    injection hk with hk; subst hk
    change (L.dropWhile f.pred xs).map Val.stream = .ok r at h
    cases hd : L.dropWhile f.pred xs with
    | ok ys => rw [hd] at h; simp [Out.map] at h; subst h; rfl
    | throw => rw [hd] at h; cases h
    | panic => rw [hd] at h; cases h
  | wrapped items pos =>
    simp only [Val.kind?] at hk
    injection hk with hk; subst hk
    change (L.dropWhile f.pred (Val.wIter items pos)).map Val.stream = .ok r at h
    cases hd : L.dropWhile f.pred (Val.wIter items pos) with
    | ok ys => rw [hd] at h; simp [Out.map] at h; subst h; rfl
    | throw => rw [hd] at h; cases h
    | panic => rw [hd] at h; cases h
  | null => cases hk
  | int i => cases hk
  | frac b t => cases hk
  | str cs =>
    injection hk with hk; subst hk
    change multi (.str cs) (L.dropWhile f.pred) = .ok r at h
    exact multi_kind _ _ r _ rfl h
  | list xs =>
    injection hk with hk; subst hk
    change multi (.list xs) (L.dropWhile f.pred) = .ok r at h
    exact multi_kind _ _ r _ rfl h
  | bytes bs =>
    injection hk with hk; subst hk
    change multi (.bytes bs) (L.dropWhile f.pred) = .ok r at h
    exact multi_kind _ _ r _ rfl h
  | vec ns =>
    injection hk with hk; subst hk
    change multi (.vec ns) (L.dropWhile f.pred) = .ok r at h
    exact multi_kind _ _ r _ rfl h
  | dkeys ks =>
    injection hk with hk; subst hk
    change multi (.dkeys ks) (L.dropWhile f.pred) = .ok r at h
    exact multi_kind _ _ r _ rfl h
  | dict a b c =>
    injection hk with hk; subst hk
    change multi (.dict a b c) (L.dropWhile f.pred) = .ok r at h
    exact multi_kind _ _ r _ rfl h

/-- non-vacuity: filtering the string "héllo" gives a string, filtering dict keys gives a list -/
example : (call implLib "filter" [.v (.str "héllo".toList), .f ⟨"eq", .str ['l']⟩]).map Val.render
    = .ok "s:6c6c" := by decide +kernel
example : (call implLib "filter" [.v (.dkeys [.int 1, .int 2]), .f ⟨"k1", .null⟩]).map Val.kind?
    = .ok (some .list) := by decide +kernel


/-! ## classify / group_all / frequencies: the result as a finite map
The entries come out of a `HashMap`, so their order is unspecified; what is specified is the map:
the group stored under `k` is `xs.filter (key · == k)` (input order), and the count is its length. -/

/-- push all (element, key) pairs into the association list -/
def pushAll [BEq κ] (m : List (κ × List α)) (ps : List (α × κ)) : List (κ × List α) :=
  ps.foldl (fun m p => entryPush p.2 p.1 m) m

theorem classifiedGo_eq [BEq κ] (key : α → Out κ) (m : List (κ × List α)) (xs : List α) :
    classifiedGo key m xs = SeqSpec.bind (SeqSpec.mapE key xs) fun ks => .ok (pushAll m (xs.zip ks)) := by
  induction xs generalizing m with
  | nil => simp [classifiedGo, SeqSpec.mapE, pushAll]
  | cons x xs ih =>
    simp only [classifiedGo, SeqSpec.mapE]
    cases key x with
    | ok k =>
      simp only [SeqSpec.bind_ok, ih]
      cases SeqSpec.mapE key xs <;> simp [SeqSpec.bind, pushAll]
    | throw => rfl
    | panic => rfl

/-- what the map holds under `k` after more elements arrive -/
def combine (o : Option (List α)) (l : List α) : Option (List α) :=
  if l.isEmpty then o else some (o.getD [] ++ l)

theorem lookup_entryPush [BEq κ] [LawfulBEq κ] (k k' : κ) (i : α) (m : List (κ × List α)) :
    (entryPush k' i m).lookup k = if k == k' then some ((m.lookup k).getD [] ++ [i]) else m.lookup k := by
  induction m with
  | nil =>
    simp only [entryPush, List.lookup]
    cases h : k == k' <;> simp
  | cons e m ih =>
    obtain ⟨k2, g⟩ := e
    simp only [entryPush]
    by_cases h2 : (k2 == k') = true
    · have e2 : k2 = k' := by simpa using h2
      subst e2
      simp only [BEq.rfl, if_true, List.lookup]
      cases h : k == k2 <;> simp
    · have h2' : (k2 == k') = false := by simpa using h2
      simp only [h2', Bool.false_eq_true, if_false, List.lookup, ih]
      cases h : k == k2 with
      | false => rfl
      | true =>
        have : k = k2 := by simpa using h
        subst this
        simp [h2']

theorem lookup_pushAll [BEq κ] [LawfulBEq κ] (k : κ) (m : List (κ × List α)) (ps : List (α × κ)) :
    (pushAll m ps).lookup k = combine (m.lookup k) ((ps.filter (·.2 == k)).map (·.1)) := by
  induction ps generalizing m with
  | nil => simp [pushAll, combine]
  | cons p ps ih =>
    have : pushAll m (p :: ps) = pushAll (entryPush p.2 p.1 m) ps := rfl
    rw [this, ih, lookup_entryPush]
    simp only [List.filter_cons]
    by_cases h : (p.2 == k) = true
    · have e : p.2 = k := by simpa using h
      subst e
      simp [combine]
    · have h' : (p.2 == k) = false := by simpa using h
      have h'' : (k == p.2) = false := by
        cases hk : k == p.2 with
        | false => rfl
        | true => have : k = p.2 := by simpa using hk
                  subst this; simp at h'
      simp [h', h'']

/-- **classify / group_all as a finite map**: for a key function that never fails, the entry under
`k` is exactly the elements with key `k`, in input order (absent iff there is none) -/
theorem classified_lookup [BEq κ] [LawfulBEq κ] (key : α → κ) (xs : List α) (k : κ) :
    ∃ m, classifiedWith (fun x => .ok (key x)) xs = .ok m
      ∧ m.lookup k = (if (xs.filter (key · == k)).isEmpty then none else some (xs.filter (key · == k))) := by
  refine ⟨pushAll [] (xs.zip (xs.map key)), ?_, ?_⟩
  · simp [classifiedWith, classifiedGo_eq, mapE_pure]
  · rw [lookup_pushAll]
    have : ((xs.zip (xs.map key)).filter (·.2 == k)).map (·.1) = xs.filter (key · == k) := by
      induction xs with
      | nil => rfl
      | cons x xs ih =>
        simp only [List.map_cons, List.zip_cons_cons, List.filter_cons]
        cases key x == k <;> simp [ih]
    rw [this]
    simp [combine, List.lookup]

/-- the Spec's `groupAll` denotes the same finite map -/
theorem groupAll_lookup [BEq κ] [LawfulBEq κ] (key : α → κ) (xs : List α) (k : κ) :
    (SeqSpec.groupAll key xs).lookup k
      = (if (xs.filter (key · == k)).isEmpty then none else some (xs.filter (key · == k))) := by
  unfold SeqSpec.groupAll
  generalize hks : xs.map key = ks
  have hmem : ∀ k, k ∈ ks ↔ ∃ x ∈ xs, key x = k := by
    intro k; rw [← hks]; simp
  have hl : ∀ ks : List κ,
      ((SeqSpec.uniqueBy id ks).map fun k => (k, xs.filter fun x => key x == k)).lookup k
        = if k ∈ ks then some (xs.filter fun x => key x == k) else none := by
    intro ks
    induction ks with
    | nil => simp [SeqSpec.uniqueBy, List.lookup]
    | cons a ks ih =>
      simp only [SeqSpec.uniqueBy, List.map_cons, List.lookup, id]
      cases hka : k == a with
      | true =>
        have : k = a := by simpa using hka
        subst this; simp
      | false =>
        have hne : k ≠ a := by simpa using hka
        simp only [List.mem_cons, hne, false_or]
        rw [← ih]
        -- filtering out `a` does not change the lookup of `k ≠ a`
        generalize SeqSpec.uniqueBy id ks = us
        induction us with
        | nil => rfl
        | cons u us ihu =>
          simp only [List.filter_cons, id]
          cases hua : u == a with
          | true =>
            have : u = a := by simpa using hua
            subst this
            simp only [Bool.not_true, Bool.false_eq_true, if_false, List.map_cons, List.lookup, hka, ihu]
          | false =>
            simp only [Bool.not_false, if_true, List.map_cons, List.lookup, ihu]
  rw [hl ks]
  by_cases hk : k ∈ ks
  · obtain ⟨x, hx, rfl⟩ := (hmem k).mp hk
    have : (xs.filter fun y => key y == key x) ≠ [] := by
      intro h0
      have : x ∈ xs.filter fun y => key y == key x := List.mem_filter.mpr ⟨hx, by simp⟩
      rw [h0] at this; cases this
    simp [hk, this]
  · have : (xs.filter fun y => key y == k) = [] := by
      rw [List.filter_eq_nil_iff]
      intro x hx h
      exact hk ((hmem k).mpr ⟨x, hx, by simpa using h⟩)
    simp [hk, this]

/-- `frequencies`: the count stored under `k` is the number of elements equal to `k` -/
theorem lookup_entryIncr [BEq κ] [LawfulBEq κ] (k k' : κ) (m : List (κ × Nat)) :
    (entryIncr k' m).lookup k = if k == k' then some ((m.lookup k).getD 0 + 1) else m.lookup k := by
  induction m with
  | nil =>
    simp only [entryIncr, List.lookup]
    cases h : k == k' <;> simp
  | cons e m ih =>
    obtain ⟨k2, c⟩ := e
    simp only [entryIncr]
    by_cases h2 : (k2 == k') = true
    · have e2 : k2 = k' := by simpa using h2
      subst e2
      simp only [BEq.rfl, if_true, List.lookup]
      cases h : k == k2 <;> simp
    · have h2' : (k2 == k') = false := by simpa using h2
      simp only [h2', Bool.false_eq_true, if_false, List.lookup, ih]
      cases h : k == k2 with
      | false => rfl
      | true =>
        have : k = k2 := by simpa using h
        subst this
        simp [h2']

theorem frequenciesGo_lookup [BEq κ] [LawfulBEq κ] (key : α → κ) (c : List (κ × Nat)) (xs : List α) (k : κ) :
    ∃ m, frequenciesGo (fun x => .ok (key x)) c xs = .ok m
      ∧ (m.lookup k).getD 0 = (c.lookup k).getD 0 + (xs.filter (key · == k)).length
      ∧ ((m.lookup k).isSome = ((c.lookup k).isSome || !(xs.filter (key · == k)).isEmpty)) := by
  induction xs generalizing c with
  | nil => exact ⟨c, rfl, by simp, by simp⟩
  | cons x xs ih =>
    obtain ⟨m, hm, hcount, hsome⟩ := ih (entryIncr (key x) c)
    refine ⟨m, by simp [frequenciesGo, hm], ?_, ?_⟩
    · rw [hcount, lookup_entryIncr, List.filter_cons]
      cases h : k == key x with
      | true =>
        have : k = key x := by simpa using h
        subst this; simp; omega
      | false =>
        have : (key x == k) = false := by
          cases h2 : key x == k with
          | false => rfl
          | true => have : key x = k := by simpa using h2
                    subst this; simp at h
        simp [this]
    · rw [hsome, lookup_entryIncr, List.filter_cons]
      cases h : k == key x with
      | true =>
        have : k = key x := by simpa using h
        subst this; simp
      | false =>
        have : (key x == k) = false := by
          cases h2 : key x == k with
          | false => rfl
          | true => have : key x = k := by simpa using h2
                    subst this; simp at h
        simp [this]

/-- **frequencies as a finite map** -/
theorem frequencies_lookup [BEq κ] [LawfulBEq κ] (key : α → κ) (xs : List α) (k : κ) :
    ∃ m, frequencies (fun x => .ok (key x)) xs = .ok m
      ∧ m.lookup k = (if (xs.filter (key · == k)).isEmpty then none else some (xs.filter (key · == k)).length) := by
  obtain ⟨m, hm, hcount, hsome⟩ := frequenciesGo_lookup key [] xs k
  refine ⟨m, hm, ?_⟩
  simp only [List.lookup, Option.getD_none, Nat.zero_add, Option.isSome_none, Bool.false_or] at hcount hsome
  cases hl : m.lookup k with
  | none =>
    rw [hl] at hsome
    have : (xs.filter (key · == k)).isEmpty = true := by simpa using hsome.symm
    simp [this]
  | some n =>
    rw [hl] at hsome hcount
    have : (xs.filter (key · == k)).isEmpty = false := by simpa using hsome.symm
    simp only [Option.getD_some] at hcount
    simp [this, hcount]


theorem frequenciesSpec_eq [BEq κ] (key : α → κ) (xs : List α) :
    SeqSpec.frequencies key xs = (SeqSpec.groupAll key xs).map fun e => (e.1, e.2.length) := by
  simp [SeqSpec.frequencies, SeqSpec.groupAll, List.map_map, Function.comp_def]

/-! ## strings: split / words / lines -/

def consHead (cur : List γ) : List (List γ) → List (List γ)
  | h :: t => (cur ++ h) :: t
  | [] => [cur]

theorem stripPrefix_eq [BEq γ] (pat s : List γ) :
    stripPrefix? pat s = if pat.isPrefixOf s then some (s.drop pat.length) else none := by
  induction pat generalizing s with
  | nil => simp [stripPrefix?]
  | cons p ps ih =>
    cases s with
    | nil => simp [stripPrefix?, List.isPrefixOf]
    | cons c cs =>
      simp only [stripPrefix?, List.isPrefixOf, ih, List.length_cons, List.drop_succ_cons]
      cases p == c <;> simp

theorem splitPat_ne_nil [BEq γ] (pat : List γ) (fuel : Nat) (s : List γ) : SeqSpec.splitPat pat fuel s ≠ [] := by
  cases fuel with
  | zero => simp [SeqSpec.splitPat]
  | succ fuel =>
    cases s with
    | nil => simp [SeqSpec.splitPat]
    | cons c cs =>
      simp only [SeqSpec.splitPat]
      split
      · simp
      · split <;> simp

theorem splitGo_eq [BEq γ] (pat : List γ) (fuel : Nat) (cur s : List γ) :
    splitGo pat fuel cur s = consHead cur (SeqSpec.splitPat pat fuel s) := by
  induction fuel generalizing cur s with
  | zero => simp [splitGo, SeqSpec.splitPat, consHead]
  | succ fuel ih =>
    cases s with
    | nil => simp [splitGo, SeqSpec.splitPat, consHead]
    | cons c cs =>
      simp only [splitGo, SeqSpec.splitPat, stripPrefix_eq]
      by_cases hp : pat.isPrefixOf (c :: cs) = true
      · simp only [hp, if_true, ih, consHead, List.append_nil]
        cases h : SeqSpec.splitPat pat fuel (List.drop pat.length (c :: cs)) with
        | nil => exact absurd h (splitPat_ne_nil _ _ _)
        | cons a b => simp [consHead]
      · have hp' : pat.isPrefixOf (c :: cs) = false := by simpa using hp
        simp only [hp', Bool.false_eq_true, if_false, ih]
        cases h : SeqSpec.splitPat pat fuel cs with
        | nil => exact absurd h (splitPat_ne_nil _ _ _)
        | cons a b => simp [consHead]

theorem split_eq [BEq γ] (s pat : List γ) : split s pat = SeqSpec.split s pat := by
  simp only [split, SeqSpec.split, splitGo_eq]
  split
  · rfl
  · cases h : SeqSpec.splitPat pat (s.length + 1) s with
    | nil => exact absurd h (splitPat_ne_nil _ _ _)
    | cons a b => simp [consHead]

theorem splitOnP_ne_nil (p : γ → Bool) (s : List γ) : SeqSpec.splitOnP p s ≠ [] := by
  cases s with
  | nil => simp [SeqSpec.splitOnP]
  | cons c cs =>
    simp only [SeqSpec.splitOnP]
    split
    · simp
    · split <;> simp

theorem wordsGo_eq (isWs : γ → Bool) (cur s : List γ) :
    wordsGo isWs cur s = (consHead cur (SeqSpec.splitOnP isWs s)).filter (!·.isEmpty) := by
  induction s generalizing cur with
  | nil => cases cur <;> simp [wordsGo, SeqSpec.splitOnP, consHead]
  | cons c cs ih =>
    simp only [wordsGo, SeqSpec.splitOnP]
    by_cases hw : isWs c = true
    · simp only [hw, if_true, ih, consHead, List.append_nil, List.nil_append]
      cases h : SeqSpec.splitOnP isWs cs with
      | nil => exact absurd h (splitOnP_ne_nil _ _)
      | cons a b => cases cur <;> simp [consHead, List.filter_cons]
    · have hw' : isWs c = false := by simpa using hw
      simp only [hw', Bool.false_eq_true, if_false, ih]
      cases h : SeqSpec.splitOnP isWs cs with
      | nil => exact absurd h (splitOnP_ne_nil _ _)
      | cons a b => simp [consHead]

theorem words_eq (isWs : γ → Bool) (s : List γ) : words isWs s = SeqSpec.words isWs s := by
  simp only [words, SeqSpec.words, wordsGo_eq]
  cases h : SeqSpec.splitOnP isWs s with
  | nil => exact absurd h (splitOnP_ne_nil _ _)
  | cons a b => simp [consHead]

theorem splitPat_single [BEq γ] [LawfulBEq γ] (nl : γ) (fuel : Nat) (s : List γ) (h : s.length < fuel) :
    SeqSpec.splitPat [nl] fuel s = SeqSpec.splitOnP (· == nl) s := by
  induction fuel generalizing s with
  | zero => omega
  | succ fuel ih =>
    cases s with
    | nil => simp [SeqSpec.splitPat, SeqSpec.splitOnP]
    | cons c cs =>
      simp only [SeqSpec.splitPat, SeqSpec.splitOnP, List.isPrefixOf, List.length_singleton, List.drop_succ_cons,
        List.drop_zero, Bool.and_true]
      have hc : (nl == c) = (c == nl) := by
        cases h1 : nl == c <;> cases h2 : c == nl <;> simp_all
      rw [hc, ih cs (by simp at h; omega)]

theorem lines_eq [BEq γ] [LawfulBEq γ] (nl : γ) (s : List γ) : lines nl s = SeqSpec.lines nl s := by
  simp only [lines, SeqSpec.lines, split_eq, SeqSpec.split, List.isEmpty_cons, Bool.false_eq_true, if_false]
  rw [splitPat_single nl _ s (by omega)]
  generalize SeqSpec.splitOnP (· == nl) s = parts
  cases h : parts.getLast? with
  | none => simp
  | some l => cases l <;> simp


/-! ## the combinatorial enumerations: exactly the documented sets -/

/-- `subsequences xs` lists exactly the sublists of `xs` -/
theorem subsequences_mem (xs l : List α) : l ∈ SeqSpec.subsequences xs ↔ l.Sublist xs := by
  induction xs generalizing l with
  | nil => simp [SeqSpec.subsequences]
  | cons x xs ih =>
    simp only [SeqSpec.subsequences, List.mem_append, List.mem_map, ih, List.sublist_cons_iff]
    constructor
    · rintro (h | ⟨r, hr, rfl⟩)
      · exact Or.inl h
      · exact Or.inr ⟨r, rfl, hr⟩
    · rintro (h | ⟨r, rfl, hr⟩)
      · exact Or.inl h
      · exact Or.inr ⟨r, hr, rfl⟩

/-- … each of them once per choice of positions: there are `2 ^ n` entries -/
theorem subsequences_length (xs : List α) : (SeqSpec.subsequences xs).length = 2 ^ xs.length := by
  induction xs with
  | nil => rfl
  | cons x xs ih => simp [SeqSpec.subsequences, ih, Nat.pow_succ]; omega

/-- no duplicates when the input has none (duplicate-free in index space) -/
theorem subsequences_nodup (xs : List α) (h : xs.Nodup) : (SeqSpec.subsequences xs).Nodup := by
  induction xs with
  | nil => simp [SeqSpec.subsequences]
  | cons x xs ih =>
    have hx : x ∉ xs := (List.nodup_cons.mp h).1
    have hxs := ih (List.nodup_cons.mp h).2
    simp only [SeqSpec.subsequences]
    rw [List.nodup_append]
    refine ⟨hxs, ?_, ?_⟩
    · exact List.Pairwise.map _ (fun a b hab h => hab (by injection h)) hxs
    · intro a ha b hb hab
      subst hab
      obtain ⟨r, _, rfl⟩ := List.mem_map.mp hb
      have := (subsequences_mem xs (x :: r)).mp ha
      exact hx (this.subset List.mem_cons_self)

/-- `product`: exactly the ways to pick one element from each factor -/
theorem product_mem (seqs : List (List α)) (l : List α) :
    l ∈ SeqSpec.product seqs ↔ l.length = seqs.length ∧ ∀ p ∈ l.zip seqs, p.1 ∈ p.2 := by
  induction seqs generalizing l with
  | nil => cases l <;> simp [SeqSpec.product]
  | cons s rest ih =>
    simp only [SeqSpec.product, List.mem_flatMap, List.mem_map, ih]
    constructor
    · rintro ⟨x, hx, t, ⟨hl, hall⟩, rfl⟩
      refine ⟨by simp [hl], ?_⟩
      intro p hp
      simp only [List.zip_cons_cons, List.mem_cons] at hp
      rcases hp with rfl | hp
      · exact hx
      · exact hall p hp
    · rintro ⟨hl, hall⟩
      cases l with
      | nil => simp at hl
      | cons a l =>
        refine ⟨a, hall (a, s) (by simp), l, ⟨by simpa using hl, ?_⟩, rfl⟩
        intro p hp
        exact hall p (by simp [hp])

theorem product_length (seqs : List (List α)) :
    (SeqSpec.product seqs).length = (seqs.map List.length).foldr (· * ·) 1 := by
  induction seqs with
  | nil => rfl
  | cons s rest ih =>
    simp only [SeqSpec.product, List.map_cons, List.foldr_cons, ← ih]
    induction s with
    | nil => simp
    | cons x xs ihs => simp [List.flatMap_cons, ihs, Nat.succ_mul]; omega

/-- `xs ^^ n`: exactly the length-`n` tuples over `xs`; there are `|xs| ^ n` of them; in particular
`xs ^^ 0 = [[]]` for every `xs`, the empty one included (F21) -/
theorem power_succ (xs : List α) (n : Nat) :
    SeqSpec.power xs (n + 1) = xs.flatMap fun x => (SeqSpec.power xs n).map (x :: ·) := rfl

theorem power_mem (xs : List α) (n : Nat) (l : List α) :
    l ∈ SeqSpec.power xs n ↔ l.length = n ∧ ∀ a ∈ l, a ∈ xs := by
  induction n generalizing l with
  | zero => cases l <;> simp [SeqSpec.power, SeqSpec.product]
  | succ n ih =>
    simp only [power_succ, List.mem_flatMap, List.mem_map, ih]
    constructor
    · rintro ⟨x, hx, t, ⟨hl, hall⟩, rfl⟩
      exact ⟨by simp [hl], by intro a ha; rcases List.mem_cons.mp ha with rfl | ha; exact hx; exact hall a ha⟩
    · rintro ⟨hl, hall⟩
      cases l with
      | nil => simp at hl
      | cons a l =>
        exact ⟨a, hall a (by simp), l, ⟨by simpa using hl, fun b hb => hall b (by simp [hb])⟩, rfl⟩

theorem power_length (xs : List α) (n : Nat) : (SeqSpec.power xs n).length = xs.length ^ n := by
  induction n with
  | zero => rfl
  | succ n ih =>
    rw [power_succ, Nat.pow_succ]
    have : ∀ ys : List α, (ys.flatMap fun x => (SeqSpec.power xs n).map (x :: ·)).length = ys.length * xs.length ^ n := by
      intro ys
      induction ys with
      | nil => simp
      | cons y ys ihy => simp [List.flatMap_cons, ihy, ih, Nat.succ_mul]; omega
    rw [this, Nat.mul_comm]

theorem power_zero (xs : List α) : SeqSpec.power xs 0 = [[]] := rfl

/-- `combinations xs k`: exactly the sublists of length `k` -/
theorem combinations_mem (xs : List α) (k : Nat) (l : List α) :
    l ∈ SeqSpec.combinations xs k ↔ l.Sublist xs ∧ l.length = k := by
  induction xs generalizing k l with
  | nil =>
    cases k with
    | zero => simp [SeqSpec.combinations]
    | succ k => simp [SeqSpec.combinations]; intro h; subst h; simp
  | cons x xs ih =>
    cases k with
    | zero =>
      simp only [SeqSpec.combinations, List.mem_singleton]
      constructor
      · rintro rfl; simp
      · rintro ⟨_, h⟩; exact List.length_eq_zero_iff.mp h
    | succ k =>
      simp only [SeqSpec.combinations, List.mem_append, List.mem_map, ih, List.sublist_cons_iff]
      constructor
      · rintro (⟨r, ⟨hr, hl⟩, rfl⟩ | ⟨h, hl⟩)
        · exact ⟨Or.inr ⟨r, rfl, hr⟩, by simp [hl]⟩
        · exact ⟨Or.inl h, hl⟩
      · rintro ⟨h | ⟨r, rfl, hr⟩, hl⟩
        · exact Or.inr ⟨h, hl⟩
        · exact Or.inl ⟨r, ⟨hr, by simpa using hl⟩, rfl⟩

/-- `permutations`: `n!` entries, each a permutation of the input -/
theorem picks_perm (xs : List α) (p : α × List α) (h : p ∈ SeqSpec.picks xs) : (p.1 :: p.2).Perm xs := by
  induction xs generalizing p with
  | nil => cases h
  | cons x xs ih =>
    simp only [SeqSpec.picks, List.mem_cons, List.mem_map] at h
    rcases h with rfl | ⟨q, hq, rfl⟩
    · exact List.Perm.refl _
    · exact (List.Perm.swap _ _ _).trans ((ih q hq).cons x)

theorem picks_length (xs : List α) (p : α × List α) (h : p ∈ SeqSpec.picks xs) : p.2.length + 1 = xs.length := by
  have := (picks_perm xs p h).length_eq
  simpa using this

theorem permsN_perm (n : Nat) (xs : List α) (hn : xs.length = n) (l : List α) (h : l ∈ SeqSpec.permsN n xs) :
    l.Perm xs := by
  induction n generalizing xs l with
  | zero =>
    simp only [SeqSpec.permsN, List.mem_singleton] at h
    subst h
    rw [List.length_eq_zero_iff.mp hn]
  | succ n ih =>
    simp only [SeqSpec.permsN, List.mem_flatMap, List.mem_map] at h
    obtain ⟨p, hp, t, ht, rfl⟩ := h
    have hl := picks_length xs p hp
    exact ((ih p.2 (by omega) t ht).cons p.1).trans (picks_perm xs p hp)

theorem permutations_perm (xs l : List α) (h : l ∈ SeqSpec.permutations xs) : l.Perm xs :=
  permsN_perm xs.length xs rfl l h

theorem permutations_nil : SeqSpec.permutations ([] : List α) = [[]] := rfl


/-! ## the combinatorial streams of streams.rs: Impl iterator = Spec enumeration
The iterator models (`powerIncr`, `subseqIncr`, `combIncr`, `permIncr` driven by `forceGo`) are
executable and compared with the Spec enumerations (and with the real interpreter) on every run of
the check.  `cartesianPower_eq`, `subsequences_eq` and `combinations_eq` are proved below; the
equation for `permutations` is NOT proved here and is kept as a statement. -/

def permutations_statement : Prop :=
  ∀ (α : Type) (xs : List α), permutations xs = SeqSpec.permutations xs

/-! ## the call table: `implLib` and `specLib` agree field by field
(the fields whose equation needs no side condition; `grouped` / `windowed` need `0 < n`, which
`call` checks before using them; `sortWith` / `sortedOn` need a direction-consistent comparator;
`unique`, `classified`, `frequencies` are characterised above as first-occurrence list / finite
maps) -/

theorem lib_filter : implLib.filter = specLib.filter := by
  funext p neg xs; exact filtered_eq p xs neg
theorem lib_groupedBy : implLib.groupedBy = specLib.groupedBy := by
  funext f xs; exact groupedBy_eq f xs
theorem lib_prefixes : implLib.prefixes = specLib.prefixes := by funext xs; exact prefixes_eq xs
theorem lib_suffixes : implLib.suffixes = specLib.suffixes := by funext xs; exact suffixes_eq xs
theorem lib_takeWhile : implLib.takeWhile = specLib.takeWhile := by funext p xs; exact takeWhile_eq p xs
theorem lib_dropWhile : implLib.dropWhile = specLib.dropWhile := by funext p xs; exact dropWhile_eq p xs
theorem lib_map : implLib.map = specLib.map := by funext f xs; exact map_eq f xs
theorem lib_each : implLib.each = specLib.each := by funext f xs; exact each_eq f xs
theorem lib_flatMap : implLib.flatMap = specLib.flatMap := by funext f xs; exact flatMap_eq f xs
theorem lib_partition : implLib.partition = specLib.partition := by funext p xs; exact partition_eq p xs
theorem lib_pairwise : implLib.pairwise = specLib.pairwise := by funext f xs; exact pairwise_eq f xs
theorem lib_enumerate : implLib.enumerate = specLib.enumerate := by funext xs; exact enumerate_eq xs
theorem lib_find : implLib.find = specLib.find := by funext p xs; exact find_eq p xs
theorem lib_locate : implLib.locate = specLib.locate := by funext p xs; exact locate_eq p xs
theorem lib_count : implLib.count = specLib.count := by funext p xs; exact count_eq p xs
theorem lib_any : implLib.any = specLib.any := by funext p xs; exact any_eq p xs
theorem lib_all : implLib.all = specLib.all := by funext p xs; exact all_eq p xs
theorem lib_sumLike : implLib.sumLike = specLib.sumLike := by
  funext z op f xs; exact sumLike_eq z op f xs
theorem lib_extremum : implLib.extremum = specLib.extremum := by
  funext c b xs; exact extremum_eq c b xs
theorem lib_foldFrom : implLib.foldFrom = specLib.foldFrom := by funext f z xs; exact foldFrom_eq f z xs
theorem lib_fold1 : implLib.fold1 = specLib.fold1 := by funext f xs; exact fold1_eq f xs
theorem lib_scanFrom : implLib.scanFrom = specLib.scanFrom := by funext f z xs; exact scanFrom_eq f z xs
theorem lib_scan1 : implLib.scan1 = specLib.scan1 := by funext f xs; exact scan1_eq f xs
theorem lib_zip : implLib.zip = specLib.zip := by funext f its; exact zip_eq f its
theorem lib_zipLongest : implLib.zipLongest = specLib.zipLongest := by
  funext f its; exact zipLongest_eq f its
theorem lib_product : implLib.product = specLib.product := by funext s; exact cartesianProduct_eq s
theorem lib_repeatSeq : implLib.repeatSeq = specLib.repeatSeq := by funext s n; exact cartesianScalar_eq s n
theorem lib_join : implLib.join = specLib.join := by funext j d xs; exact join_eq j d xs
theorem lib_split : implLib.split = specLib.split := by funext s p; exact split_eq s p
theorem lib_words : implLib.words = specLib.words := by funext s; exact words_eq _ s
theorem lib_lines : implLib.lines = specLib.lines := by funext s; exact lines_eq _ s

/-- and therefore whole calls agree, e.g. (all input kinds, every closure of the family): -/
theorem call_filter (s : Val) (f : Fn) :
    call implLib "filter" [.v s, .f f] = call specLib "filter" [.v s, .f f] := by
  show multi s (implLib.filter f.pred false) = multi s (specLib.filter f.pred false)
  rw [lib_filter]
theorem call_reject (s : Val) (f : Fn) :
    call implLib "reject" [.v s, .f f] = call specLib "reject" [.v s, .f f] := by
  show multi s (implLib.filter f.pred true) = multi s (specLib.filter f.pred true)
  rw [lib_filter]
theorem call_take (s : Val) (f : Fn) :
    call implLib "take" [.v s, .f f] = call specLib "take" [.v s, .f f] := by
  show multi s (implLib.takeWhile f.pred) = multi s (specLib.takeWhile f.pred)
  rw [lib_takeWhile]
theorem call_map (s : Val) (f : Fn) :
    call implLib "map" [.v s, .f f] = call specLib "map" [.v s, .f f] := by
  show andThen s.iter (fun xs => (implLib.map f.call1 xs).map Val.list)
     = andThen s.iter (fun xs => (specLib.map f.call1 xs).map Val.list)
  rw [lib_map]
theorem call_window (s : Val) (n : Int) :
    call implLib "window" [.v s, .v (.int n)] = call specLib "window" [.v s, .v (.int n)] := by
  show andThen (usizeOf n) (fun n => if n = 0 then .throw else multimulti s fun xs => .ok (implLib.windowed xs n))
     = andThen (usizeOf n) (fun n => if n = 0 then .throw else multimulti s fun xs => .ok (specLib.windowed xs n))
  congr 1
  funext m
  by_cases hm : m = 0
  · simp [hm]
  · simp only [hm, if_false]
    congr 1
    funext xs
    show Out.ok (windowed xs m) = Out.ok (SeqSpec.window xs m)
    rw [windowed_eq xs m (by omega)]
theorem call_group_n (s : Val) (n : Int) :
    call implLib "group" [.v s, .v (.int n)] = call specLib "group" [.v s, .v (.int n)] := by
  show andThen (usizeOf n) (fun n => if n = 0 then .throw else multimulti s fun xs => implLib.grouped xs n false)
     = andThen (usizeOf n) (fun n => if n = 0 then .throw else multimulti s fun xs => specLib.grouped xs n false)
  congr 1
  funext m
  by_cases hm : m = 0
  · simp [hm]
  · simp only [hm, if_false]
    congr 1
    funext xs
    exact grouped_eq xs m false (by omega)


/-! ## stream iterators: a generic "the states form a chain" argument -/

/-- the states `L` are linked by `next`, and the last one's successor is `e` -/
def Links (next : σ → Option σ) : List σ → Option σ → Prop
  | [], _ => False
  | [s], e => next s = e
  | s :: t :: r, e => next s = some t ∧ Links next (t :: r) e

theorem Links_append (next : σ → Option σ) (L1 L2 : List σ) (h2 : σ) (t2 : List σ) (e : Option σ)
    (hL2 : L2 = h2 :: t2) (a : Links next L1 (some h2)) (b : Links next L2 e) : Links next (L1 ++ L2) e := by
  subst hL2
  induction L1 with
  | nil => cases a
  | cons s r ih =>
    cases r with
    | nil => exact ⟨a, b⟩
    | cons t r' => exact ⟨a.1, ih a.2⟩

/-- `force` over a chain of states that ends (`none`) collects the items of exactly those states -/
theorem forceGo_links (step : σ → β × Option σ) (L : List σ) (s : σ) (r : List σ) (hL : L = s :: r)
    (h : Links (fun s => (step s).2) L none) (fuel : Nat) (hf : L.length ≤ fuel) (acc : List β) :
    forceGo step fuel (some s) acc = acc ++ L.map (fun s => (step s).1) := by
  subst hL
  induction r generalizing s fuel acc with
  | nil =>
    cases fuel with
    | zero => simp at hf
    | succ fuel =>
      have h' : (step s).2 = none := h
      simp only [forceGo, h']
      cases fuel <;> simp [forceGo]
  | cons t r ih =>
    cases fuel with
    | zero => simp at hf
    | succ fuel =>
      have h1 : (step s).2 = some t := h.1
      simp only [forceGo, h1]
      rw [ih t fuel _ h.2 (by simp at hf ⊢; omega)]
      simp

/-! ### subsequences -/

theorem subseq_go_snoc (l : List Bool) (b : Bool) :
    subseqIncr.go (l ++ [b]) = match subseqIncr.go l with
      | some w => some (w ++ [b])
      | none => if !b then some (List.replicate l.length false ++ [true]) else none := by
  induction l with
  | nil => cases b <;> simp [subseqIncr.go]
  | cons x l ih =>
    simp only [List.cons_append, subseqIncr.go, ih]
    cases x with
    | false => simp
    | true =>
      simp only [Bool.not_true, Bool.false_eq_true, if_false]
      cases subseqIncr.go l with
      | some w => simp
      | none => cases b <;> simp [List.replicate_succ]

/-- `next` seen from the front: bump the tail if it can be bumped, else flip the head -/
def consNext (b : Bool) (n : Nat) (e : Option (List Bool)) : Option (List Bool) :=
  match e with
  | some v' => some (b :: v')
  | none => if !b then some (true :: List.replicate n false) else none

theorem subseqIncr_cons (b : Bool) (v : List Bool) :
    subseqIncr (b :: v) = consNext b v.length (subseqIncr v) := by
  simp only [subseqIncr, List.reverse_cons, subseq_go_snoc, consNext]
  cases subseqIncr.go v.reverse with
  | some w => simp
  | none => cases b <;> simp

def flagsAll : Nat → List (List Bool)
  | 0 => [[]]
  | n + 1 => (flagsAll n).map (false :: ·) ++ (flagsAll n).map (true :: ·)

theorem flagsAll_length_mem (n : Nat) : ∀ v ∈ flagsAll n, v.length = n := by
  induction n with
  | zero => simp [flagsAll]
  | succ n ih =>
    intro v hv
    simp only [flagsAll, List.mem_append, List.mem_map] at hv
    rcases hv with ⟨w, hw, rfl⟩ | ⟨w, hw, rfl⟩ <;> simp [ih w hw]

theorem flagsAll_head (n : Nat) : ∃ t, flagsAll n = List.replicate n false :: t := by
  induction n with
  | zero => exact ⟨[], rfl⟩
  | succ n ih =>
    obtain ⟨t, ht⟩ := ih
    exact ⟨t.map (false :: ·) ++ (flagsAll n).map (true :: ·), by simp [flagsAll, ht, List.replicate_succ]⟩

theorem flagsAll_length (n : Nat) : (flagsAll n).length = 2 ^ n := by
  induction n with
  | zero => rfl
  | succ n ih => simp [flagsAll, ih, Nat.pow_succ]; omega

theorem links_map_cons (b : Bool) (n : Nat) (A : List (List Bool)) (e : Option (List Bool))
    (hlen : ∀ v ∈ A, v.length = n) (h : Links subseqIncr A e) :
    Links subseqIncr (A.map (b :: ·)) (consNext b n e) := by
  induction A with
  | nil => cases h
  | cons s r ih =>
    cases r with
    | nil =>
      simp only [List.map_cons, List.map_nil, Links] at h ⊢
      rw [subseqIncr_cons, hlen s (by simp), h]
    | cons t r' =>
      obtain ⟨h1, h2⟩ := h
      refine ⟨?_, ih (fun v hv => hlen v (List.mem_cons_of_mem _ hv)) h2⟩
      rw [subseqIncr_cons, h1]
      rfl

theorem flagsAll_links (n : Nat) : Links subseqIncr (flagsAll n) none := by
  induction n with
  | zero => simp [flagsAll, Links, subseqIncr, subseqIncr.go]
  | succ n ih =>
    obtain ⟨t, ht⟩ := flagsAll_head n
    have h1 := links_map_cons false n (flagsAll n) none (flagsAll_length_mem n) ih
    have h2 := links_map_cons true n (flagsAll n) none (flagsAll_length_mem n) ih
    simp only [consNext, Bool.not_false, if_true, Bool.not_true, Bool.false_eq_true, if_false] at h1 h2
    exact Links_append subseqIncr _ _ (true :: List.replicate n false) (t.map (true :: ·)) none
      (by rw [ht]; rfl) h1 h2

theorem pickFlags_flagsAll (xs : List α) :
    (flagsAll xs.length).map (fun v => pickFlags v xs) = SeqSpec.subsequences xs := by
  induction xs with
  | nil => rfl
  | cons x xs ih =>
    simp only [List.length_cons, flagsAll, List.map_append, List.map_map, SeqSpec.subsequences, ← ih]
    congr 1 <;> (apply List.map_congr_left; intro v _; simp [pickFlags])

/-- **subsequences**: the `Subsequences` iterator of streams.rs enumerates exactly the Spec's
binary-counter order, for every input -/
theorem subsequences_eq (xs : List α) : subsequences xs = SeqSpec.subsequences xs := by
  obtain ⟨t, ht⟩ := flagsAll_head xs.length
  have hl := flagsAll_links xs.length
  have := forceGo_links (fun v => (pickFlags v xs, subseqIncr v)) (flagsAll xs.length) _ t ht hl
    (2 ^ xs.length + 1) (by rw [flagsAll_length]; omega) []
  simp only [subsequences, this, List.nil_append]
  exact pickFlags_flagsAll xs



/-! ### cartesian power -/

theorem powerGo_snoc (m : Nat) (l : List Nat) (d : Nat) :
    powerGo m (l ++ [d]) = match powerGo m l with
      | some w => some (w ++ [d])
      | none => if d + 1 == m then none else some (List.replicate l.length 0 ++ [d + 1]) := by
  induction l with
  | nil => simp only [List.nil_append, powerGo]; split <;> simp
  | cons x l ih =>
    simp only [List.cons_append, powerGo, ih]
    by_cases hx : (x + 1 == m) = true
    · simp only [hx, if_true]
      cases powerGo m l with
      | some w => simp
      | none =>
        simp only [Option.map_none]
        split <;> simp [List.replicate_succ]
    · have hx' : (x + 1 == m) = false := by simpa using hx
      simp [hx']

/-- `next` seen from the front: bump the tail if it can be bumped, else bump the head and reset -/
def consNextP (m d n : Nat) (e : Option (List Nat)) : Option (List Nat) :=
  match e with
  | some v' => some (d :: v')
  | none => if d + 1 == m then none else some ((d + 1) :: List.replicate n 0)

theorem powerIncr_cons (m d : Nat) (v : List Nat) :
    powerIncr m (d :: v) = consNextP m d v.length (powerIncr m v) := by
  simp only [powerIncr, List.reverse_cons, powerGo_snoc, consNextP]
  cases powerGo m v.reverse with
  | some w => simp
  | none => simp only [Option.map_none, List.length_reverse]; split <;> simp

def idxAll (m : Nat) : Nat → List (List Nat)
  | 0 => [[]]
  | n + 1 => (List.range m).flatMap fun d => (idxAll m n).map (d :: ·)

theorem idxAll_length_mem (m n : Nat) : ∀ v ∈ idxAll m n, v.length = n := by
  induction n with
  | zero => simp [idxAll]
  | succ n ih =>
    intro v hv
    simp only [idxAll, List.mem_flatMap, List.mem_map] at hv
    obtain ⟨d, _, w, hw, rfl⟩ := hv
    simp [ih w hw]

theorem links_map_consP (m d n : Nat) (A : List (List Nat)) (e : Option (List Nat))
    (hlen : ∀ v ∈ A, v.length = n) (h : Links (powerIncr m) A e) :
    Links (powerIncr m) (A.map (d :: ·)) (consNextP m d n e) := by
  induction A with
  | nil => cases h
  | cons s r ih =>
    cases r with
    | nil =>
      simp only [List.map_cons, List.map_nil, Links] at h ⊢
      rw [powerIncr_cons, hlen s (by simp), h]
    | cons t r' =>
      obtain ⟨h1, h2⟩ := h
      refine ⟨?_, ih (fun v hv => hlen v (List.mem_cons_of_mem _ hv)) h2⟩
      rw [powerIncr_cons, h1]
      rfl

/-- the blocks `d, d+1, …, m-1` (each block: all tails, prefixed with the digit) form a chain -/
theorem blocks_links (m n : Nat) (A : List (List Nat)) (a : List Nat) (t : List (List Nat)) (hA : A = a :: t)
    (ha : a = List.replicate n 0) (hlen : ∀ v ∈ A, v.length = n) (h : Links (powerIncr m) A none)
    (k d : Nat) (hk : d + (k + 1) = m) :
    Links (powerIncr m) ((List.range' d (k + 1)).flatMap fun d => A.map (d :: ·)) none
    ∧ ∃ t', ((List.range' d (k + 1)).flatMap fun d => A.map (d :: ·)) = (d :: List.replicate n 0) :: t' := by
  induction k generalizing d with
  | zero =>
    have hb := links_map_consP m d n A none hlen h
    have hd : (d + 1 == m) = true := by simp; omega
    simp only [consNextP, hd, if_true] at hb
    refine ⟨by simpa [List.range'] using hb, ?_⟩
    subst hA; subst ha
    exact ⟨t.map (d :: ·), by simp [List.range']⟩
  | succ k ih =>
    obtain ⟨ih1, t', ih2⟩ := ih (d + 1) (by omega)
    have hb := links_map_consP m d n A none hlen h
    have hd : (d + 1 == m) = false := by simp; omega
    simp only [consNextP, hd, Bool.false_eq_true, if_false] at hb
    have hr : List.range' d (k + 1 + 1) = d :: List.range' (d + 1) (k + 1) := by simp [List.range'_succ]
    rw [hr, List.flatMap_cons]
    refine ⟨Links_append _ _ _ _ t' none ih2 hb ih1, ?_⟩
    subst hA; subst ha
    refine ⟨t.map (d :: ·) ++ (List.range' (d + 1) (k + 1)).flatMap
      (fun d => (List.replicate n 0 :: t).map (d :: ·)), ?_⟩
    simp

theorem idxAll_links (m n : Nat) (hm : 0 < m) :
    Links (powerIncr m) (idxAll m n) none ∧ ∃ t, idxAll m n = List.replicate n 0 :: t := by
  induction n with
  | zero => exact ⟨by simp [idxAll, Links, powerIncr, powerGo], ⟨[], rfl⟩⟩
  | succ n ih =>
    obtain ⟨ih1, t, ih2⟩ := ih
    obtain ⟨k, hk⟩ : ∃ k, m = k + 1 := ⟨m - 1, by omega⟩
    have := blocks_links m n (idxAll m n) _ t ih2 rfl (idxAll_length_mem m n) ih1 k 0 (by omega)
    simp only [idxAll, List.range_eq_range', hk]
    rw [← hk]
    refine ⟨by simpa [hk] using this.1, ?_⟩
    obtain ⟨t', ht'⟩ := this.2
    exact ⟨t', by simpa [hk, List.replicate_succ] using ht'⟩

theorem idxAll_length (m n : Nat) : (idxAll m n).length = m ^ n := by
  induction n with
  | zero => rfl
  | succ n ih =>
    simp only [idxAll, Nat.pow_succ]
    have : ∀ ds : List Nat, (ds.flatMap fun d => (idxAll m n).map (d :: ·)).length = ds.length * m ^ n := by
      intro ds
      induction ds with
      | nil => simp
      | cons d ds ihd => simp [List.flatMap_cons, ihd, ih, Nat.succ_mul]; omega
    rw [this, List.length_range, Nat.mul_comm]

theorem flatMap_by_index (xs : List α) (f : α → List β) :
    xs.flatMap f = (List.range xs.length).flatMap fun d => match xs[d]? with | some x => f x | none => [] := by
  induction xs with
  | nil => rfl
  | cons x xs ih =>
    simp only [List.length_cons, List.range_succ_eq_map, List.flatMap_cons, List.flatMap_map, ih]
    simp

theorem pick_idxAll (xs : List α) (n : Nat) :
    (idxAll xs.length n).map (pick xs) = SeqSpec.power xs n := by
  induction n with
  | zero => rfl
  | succ n ih =>
    rw [power_succ, ← ih, flatMap_by_index]
    simp only [idxAll, List.map_flatMap, List.map_map]
    simp only [List.flatMap_def]
    congr 1
    apply List.map_congr_left
    intro d hd
    have hd' : d < xs.length := by simpa using hd
    simp only [List.getElem?_eq_getElem hd']
    apply List.map_congr_left
    intro v _
    simp [pick, List.getElem?_eq_getElem hd']

/-- **xs ^^ n**: the `CartesianPower` iterator (post-fix form of F21) enumerates exactly the
Spec's `n`-fold product in lexicographic order, for every input -/
theorem cartesianPower_eq (xs : List α) (n : Nat) : cartesianPower xs n = SeqSpec.power xs n := by
  by_cases hx : xs = []
  · subst hx
    cases n with
    | zero => simp [cartesianPower, forceGo, pick, SeqSpec.power, SeqSpec.product, powerIncr, powerGo]
    | succ n => simp [cartesianPower, forceGo, power_succ]
  · have hm : 0 < xs.length := List.length_pos_iff.mpr hx
    have hemp : xs.isEmpty = false := by cases xs <;> simp_all
    obtain ⟨hl, t, ht⟩ := idxAll_links xs.length n hm
    have := forceGo_links (fun v => (pick xs v, powerIncr xs.length v)) (idxAll xs.length n) _ t ht hl
      (xs.length ^ n + 1) (by rw [idxAll_length]; omega) []
    simp only [cartesianPower, hemp, Bool.false_and, Bool.false_eq_true, if_false, this, List.nil_append]
    exact pick_idxAll xs n


/-! ### combinations -/

theorem combGo_snoc (last : Nat) (l : List Nat) (a : Nat) :
    combGo last (l ++ [a]) = match combGo last l with
      | some (d, ds) => some (d, ds ++ [a])
      | none => if a + 1 < last - l.length then some (a + 1, []) else none := by
  induction l generalizing last with
  | nil => simp [combGo]
  | cons x l ih =>
    simp only [List.cons_append, combGo, ih, List.length_cons]
    by_cases hx : x + 1 < last
    · simp [hx]
    · simp only [hx, if_false]
      have : last - 1 - l.length = last - (l.length + 1) := by omega
      rw [this]

/-- `next` seen from the front -/
def consNextC (n a len : Nat) (e : Option (List Nat)) : Option (List Nat) :=
  match e with
  | some v' => some (a :: v')
  | none => if a + 1 + len < n then some (List.range' (a + 1) (len + 1)) else none

theorem combIncr_cons (n a : Nat) (v : List Nat) :
    combIncr n (a :: v) = consNextC n a v.length (combIncr n v) := by
  simp only [combIncr, List.reverse_cons, combGo_snoc, consNextC]
  cases h : combGo n v.reverse with
  | some p =>
    obtain ⟨d, ds⟩ := p
    simp only [List.reverse_append, List.reverse_cons, List.reverse_nil, List.nil_append, List.length_cons,
      List.length_append, List.length_reverse, List.length_singleton, List.singleton_append, List.cons_append,
      List.length_nil]
    have : v.length + 1 - (ds.length + 1) - 1 = v.length - ds.length - 1 := by omega
    rw [this]
  | none =>
    simp only [List.length_reverse]
    by_cases hc : a + 1 < n - v.length
    · have hc' : a + 1 + v.length < n := by omega
      simp only [hc, hc', if_true, List.reverse_nil, List.nil_append, List.length_nil, List.length_cons,
        Nat.sub_zero, Nat.add_sub_cancel, List.singleton_append, List.range'_succ]
      try (congr 2
           rw [List.range'_eq_map_range]
           try (apply List.map_congr_left; intro j _; omega))
    · have hc' : ¬ (a + 1 + v.length < n) := by omega
      simp [hc, hc']

theorem combinations_len_mem (xs : List α) (k : Nat) : ∀ l ∈ SeqSpec.combinations xs k, l.length = k :=
  fun l hl => ((combinations_mem xs k l).mp hl).2

theorem combinations_short (xs : List α) (k : Nat) (h : xs.length < k) : SeqSpec.combinations xs k = [] := by
  induction xs generalizing k with
  | nil => cases k with
    | zero => simp at h
    | succ k => rfl
  | cons x xs ih =>
    cases k with
    | zero => simp at h
    | succ k =>
      simp only [SeqSpec.combinations, ih k (by simp at h; omega), ih (k + 1) (by simp at h; omega)]
      rfl

theorem links_map_consC (n a k : Nat) (A : List (List Nat)) (e : Option (List Nat))
    (hlen : ∀ v ∈ A, v.length = k) (h : Links (combIncr n) A e) :
    Links (combIncr n) (A.map (a :: ·)) (consNextC n a k e) := by
  induction A with
  | nil => cases h
  | cons s r ih =>
    cases r with
    | nil =>
      simp only [List.map_cons, List.map_nil, Links] at h ⊢
      rw [combIncr_cons, hlen s (by simp), h]
    | cons t r' =>
      obtain ⟨h1, h2⟩ := h
      refine ⟨?_, ih (fun v hv => hlen v (List.mem_cons_of_mem _ hv)) h2⟩
      rw [combIncr_cons, h1]
      rfl

/-- the index combinations over `lo, lo+1, …, n-1` form a chain starting at `lo, …, lo+k-1` -/
theorem combIdx_links (n m : Nat) : ∀ (lo k : Nat), lo + m = n → k ≤ m →
    Links (combIncr n) (SeqSpec.combinations (List.range' lo m) k) none
    ∧ ∃ t, SeqSpec.combinations (List.range' lo m) k = List.range' lo k :: t := by
  induction m with
  | zero =>
    intro lo k _ hk
    have : k = 0 := by omega
    subst this
    exact ⟨by simp [SeqSpec.combinations, Links, combIncr, combGo], ⟨[], rfl⟩⟩
  | succ m ih =>
    intro lo k hn hk
    cases k with
    | zero => exact ⟨by simp [SeqSpec.combinations, Links, combIncr, combGo], ⟨[], by simp [SeqSpec.combinations]⟩⟩
    | succ k =>
      simp only [List.range'_succ, SeqSpec.combinations]
      obtain ⟨l1, t1, h1⟩ := ih (lo + 1) k (by omega) (by omega)
      have hb := links_map_consC n lo k _ none (combinations_len_mem _ k) l1
      simp only [consNextC] at hb
      by_cases hkm : k + 1 ≤ m
      · obtain ⟨l2, t2, h2⟩ := ih (lo + 1) (k + 1) (by omega) hkm
        have hc : lo + 1 + k < n := by omega
        simp only [hc, if_true] at hb
        refine ⟨Links_append _ _ _ _ t2 none h2 hb l2, ?_⟩
        rw [h1]
        exact ⟨t1.map (lo :: ·) ++ SeqSpec.combinations (List.range' (lo + 1) m) (k + 1), by simp [List.range'_succ]⟩
      · have hshort : SeqSpec.combinations (List.range' (lo + 1) m) (k + 1) = [] :=
          combinations_short _ _ (by simp; omega)
        have hc : ¬ (lo + 1 + k < n) := by omega
        simp only [hc, if_false] at hb
        rw [hshort, List.append_nil]
        refine ⟨hb, ?_⟩
        rw [h1]
        exact ⟨t1.map (lo :: ·), by simp [List.range'_succ]⟩

theorem combinations_map (f : α → β) (xs : List α) (k : Nat) :
    SeqSpec.combinations (xs.map f) k = (SeqSpec.combinations xs k).map (List.map f) := by
  induction xs generalizing k with
  | nil => cases k <;> rfl
  | cons x xs ih =>
    cases k with
    | zero => rfl
    | succ k => simp [SeqSpec.combinations, ih, List.map_map, Function.comp_def]

theorem combinations_length_le (xs : List α) (k : Nat) : (SeqSpec.combinations xs k).length ≤ 2 ^ xs.length := by
  induction xs generalizing k with
  | nil => cases k <;> simp [SeqSpec.combinations]
  | cons x xs ih =>
    cases k with
    | zero => simp [SeqSpec.combinations]; exact Nat.one_le_two_pow
    | succ k =>
      simp only [SeqSpec.combinations, List.length_append, List.length_map, List.length_cons, Nat.pow_succ]
      have := ih k; have := ih (k + 1); omega

theorem map_getElem_range (xs : List α) : (List.range xs.length).filterMap (xs[·]?) = xs := by
  induction xs with
  | nil => rfl
  | cons x xs ih =>
    simp only [List.length_cons, List.range_succ_eq_map, List.filterMap_cons, List.getElem?_cons_zero,
      List.filterMap_map]
    have : ((fun i => (x :: xs)[i]?) ∘ Nat.succ) = fun i => xs[i]? := by funext i; simp
    rw [this, ih]

theorem combinations_filterMap (f : β → Option α) (ys : List β) (k : Nat) (hf : ∀ y ∈ ys, (f y).isSome) :
    SeqSpec.combinations (ys.filterMap f) k = (SeqSpec.combinations ys k).map (List.filterMap f) := by
  induction ys generalizing k with
  | nil => cases k <;> rfl
  | cons y ys ih =>
    have hy := hf y (by simp)
    obtain ⟨a, ha⟩ := Option.isSome_iff_exists.mp hy
    have hrest : ∀ y ∈ ys, (f y).isSome := fun z hz => hf z (List.mem_cons_of_mem _ hz)
    cases k with
    | zero => simp [SeqSpec.combinations]
    | succ k =>
      simp only [List.filterMap_cons, ha, SeqSpec.combinations, ih _ hrest, List.map_append, List.map_map]
      congr 1
      apply List.map_congr_left
      intro l _
      simp [ha]

/-- **combinations**: the `Combinations` iterator of streams.rs enumerates exactly the Spec's
`k`-element sublists in lexicographic index order, for every input and every `k` -/
theorem combinations_eq (xs : List α) (k : Nat) : combinations xs k = SeqSpec.combinations xs k := by
  by_cases hk : k > xs.length
  · simp [combinations, hk, combinations_short xs k hk]
  · have hk' : k ≤ xs.length := by omega
    obtain ⟨hl, t, ht⟩ := combIdx_links xs.length xs.length 0 k (by omega) hk'
    have hr : List.range' 0 k = List.range k := (List.range_eq_range').symm
    rw [hr] at ht
    have := forceGo_links (fun v => (pick xs v, combIncr xs.length v))
      (SeqSpec.combinations (List.range' 0 xs.length) k) _ t ht hl
      (2 ^ xs.length + 1) (by have := combinations_length_le (List.range' 0 xs.length) k; simp at this; omega) []
    simp only [combinations, hk, if_false, this, List.nil_append]
    have hx : xs = (List.range' 0 xs.length).filterMap (xs[·]?) := by
      rw [← List.range_eq_range']; exact (map_getElem_range xs).symm
    conv => rhs; rw [hx]
    rw [combinations_filterMap]
    · rfl
    · intro i hi
      simp only [List.mem_range'_1] at hi
      have hi' : i < xs.length := by omega
      simp [List.getElem?_eq_getElem hi']


theorem lib_power : implLib.power = specLib.power := by funext xs n; exact cartesianPower_eq xs n
theorem lib_subsequences : implLib.subsequences = specLib.subsequences := by
  funext xs; exact subsequences_eq xs
theorem lib_combinations : implLib.combinations = specLib.combinations := by
  funext xs k; exact combinations_eq xs k

/-! ## the concrete value equality is a partial equivalence
(so the `unique` theorems apply to the values of the differential run; it is not reflexive:
streams are never equal, as in `Seq::eq`) -/

theorem val_beq_symm : (∀ a b : Val, Val.beq a b = Val.beq b a) ∧ (∀ a b : List Val, Val.beqList a b = Val.beqList b a) := by
  have beq_comm : ∀ {τ : Type} [BEq τ] [LawfulBEq τ] (a b : τ), (a == b) = (b == a) := by
    intro τ _ _ a b
    exact Bool.eq_iff_iff.mpr ⟨fun h => by simpa using (by simpa using h : a = b).symm,
      fun h => by simpa using (by simpa using h : b = a).symm⟩
  apply Val.beq.mutual_induct (motive_1 := fun a b => Val.beq a b = Val.beq b a)
    (motive_2 := fun a b => Val.beqList a b = Val.beqList b a)
  case case1 => rfl
  case case2 => intro a b; simp only [Val.beq]; exact beq_comm a b
  case case3 => intro a _ b; simp only [Val.beq]; exact beq_comm _ _
  case case4 => intro _ a b; simp only [Val.beq]; exact beq_comm _ _
  case case5 => intro _ a _ b; simp only [Val.beq]; exact beq_comm a b
  case case6 => intro a b; simp only [Val.beq]; exact beq_comm a b
  case case7 => intro a b h; simpa only [Val.beq] using h
  case case8 => intro a b; simp only [Val.beq]; exact beq_comm a b
  case case9 => intro a b; simp only [Val.beq]; exact beq_comm a b
  case case10 => intro a b h; simpa only [Val.beq] using h
  case case11 =>
    intro t x h1 h2 h3 h4 h5 h6 h7 h8 h9 h10
    cases t <;> cases x <;> first
      | rfl
      | exact (h1 rfl rfl).elim
      | exact (h2 _ _ rfl rfl).elim
      | exact (h3 _ _ _ rfl rfl).elim
      | exact (h4 _ _ _ rfl rfl).elim
      | exact (h5 _ _ _ _ rfl rfl).elim
      | exact (h6 _ _ rfl rfl).elim
      | exact (h7 _ _ rfl rfl).elim
      | exact (h8 _ _ rfl rfl).elim
      | exact (h9 _ _ rfl rfl).elim
      | exact (h10 _ _ rfl rfl).elim
  case case12 => rfl
  case case13 => intro x xs y ys h1 h2; simp only [Val.beqList, h1, h2]
  case case14 =>
    intro t x h1 h2
    cases t <;> cases x <;> first
      | rfl
      | exact (h1 rfl rfl).elim
      | exact (h2 _ _ _ _ rfl rfl).elim

theorem val_beq_trans :
    (∀ a b : Val, ∀ c, Val.beq a b = true → Val.beq b c = true → Val.beq a c = true)
    ∧ (∀ a b : List Val, ∀ c, Val.beqList a b = true → Val.beqList b c = true → Val.beqList a c = true) := by
  apply Val.beq.mutual_induct
    (motive_1 := fun a b => ∀ c, Val.beq a b = true → Val.beq b c = true → Val.beq a c = true)
    (motive_2 := fun a b => ∀ c, Val.beqList a b = true → Val.beqList b c = true → Val.beqList a c = true)
  case case1 => intro c _ h; exact h
  case case2 =>
    intro a b c h1 h2
    cases c <;> simp only [Val.beq, beq_iff_eq] at h1 h2 ⊢ <;> first | omega | cases h2
  case case3 =>
    intro a _ b c h1 h2
    cases c <;> simp only [Val.beq, beq_iff_eq] at h1 h2 ⊢ <;> first | omega | cases h2
  case case4 =>
    intro _ a b c h1 h2
    cases c <;> simp only [Val.beq, beq_iff_eq] at h1 h2 ⊢ <;> first | omega | cases h2
  case case5 =>
    intro _ a _ b c h1 h2
    cases c <;> simp only [Val.beq, beq_iff_eq] at h1 h2 ⊢ <;> first | omega | cases h2
  case case6 =>
    intro a b c h1 h2
    have : a = b := by simpa [Val.beq] using h1
    subst this; exact h2
  case case7 =>
    intro a b ih c h1 h2
    cases c <;> simp only [Val.beq] at h1 h2 ⊢ <;> first | exact ih _ h1 h2 | cases h2
  case case8 =>
    intro a b c h1 h2
    have : a = b := by simpa [Val.beq] using h1
    subst this; exact h2
  case case9 =>
    intro a b c h1 h2
    have : a = b := by simpa [Val.beq] using h1
    subst this; exact h2
  case case10 =>
    intro a b ih c h1 h2
    cases c <;> simp only [Val.beq] at h1 h2 ⊢ <;> first | exact ih _ h1 h2 | cases h2
  case case11 =>
    intro t x h1 h2 h3 h4 h5 h6 h7 h8 h9 h10 c hb _
    exfalso
    cases t <;> cases x <;> first
      | exact h1 rfl rfl
      | exact h2 _ _ rfl rfl
      | exact h3 _ _ _ rfl rfl
      | exact h4 _ _ _ rfl rfl
      | exact h5 _ _ _ _ rfl rfl
      | exact h6 _ _ rfl rfl
      | exact h7 _ _ rfl rfl
      | exact h8 _ _ rfl rfl
      | exact h9 _ _ rfl rfl
      | exact h10 _ _ rfl rfl
      | (simp only [Val.beq] at hb; cases hb)
  case case12 => intro c _ h; exact h
  case case13 =>
    intro x xs y ys ih1 ih2 c h1 h2
    cases c with
    | nil => simp only [Val.beqList] at h2; cases h2
    | cons z zs =>
      simp only [Val.beqList, Bool.and_eq_true] at h1 h2 ⊢
      exact ⟨ih1 z h1.1 h2.1, ih2 zs h1.2 h2.2⟩
  case case14 =>
    intro t x h1 h2 c hb _
    exfalso
    cases t <;> cases x <;> first
      | exact h1 rfl rfl
      | exact h2 _ _ _ _ rfl rfl
      | (simp only [Val.beqList] at hb; cases hb)

instance : PartialEquivBEq Val where
  symm := by
    intro a b h
    have : Val.beq a b = true := h
    show Val.beq b a = true
    rw [← val_beq_symm.1 a b]; exact this
  trans := by
    intro a b c h1 h2
    exact val_beq_trans.1 a b c h1 h2

/-- `unique` on the values of the differential run: the Rust loop returns the first occurrences -/
theorem unique_val (xs : List Val) : implLib.unique xs = specLib.unique xs :=
  uniqued_eq (fun x => x) xs


theorem lib_unique : implLib.unique = specLib.unique := by funext xs; exact unique_val xs
theorem call_unique (s : Val) : call implLib "unique" [.v s] = call specLib "unique" [.v s] := by
  show multi s implLib.unique = multi s specLib.unique
  rw [lib_unique]

/-! ## positioned streams (`stream(seq)`, core.rs `WrappedVec`) and chained infix forms -/

theorem wIterGo_eq_drop (items : List Val) (fuel pos : Nat) (h : items.length - pos ≤ fuel) :
    Val.wIterGo items fuel pos = items.drop pos := by
  induction fuel generalizing pos with
  | zero =>
    have : items.length ≤ pos := by omega
    simp [Val.wIterGo, List.drop_eq_nil_of_le this]
  | succ fuel ih =>
    simp only [Val.wIterGo]
    cases hx : items[pos]? with
    | none =>
      have : items.length ≤ pos := by simpa using hx
      simp [List.drop_eq_nil_of_le this]
    | some x =>
      have hlt : pos < items.length := by
        rcases Nat.lt_or_ge pos items.length with h1 | h1
        · exact h1
        · rw [List.getElem?_eq_none h1] at hx; cases hx
      rw [ih (pos + 1) (by omega)]
      have hx' : items[pos] = x := by
        rw [List.getElem?_eq_getElem hlt] at hx; injection hx
      rw [← hx']
      exact (List.drop_eq_getElem_cons hlt).symm

/-- **the two views of a positioned stream agree**: what iteration (`next` from the read
position, used by map / fold / zip / window / …) sees is what `force` (used by the `multi!`
family, `reverse`, `suffixes`) returns: the elements from the position on, never the consumed
prefix -/
theorem wrapped_views_agree (items : List Val) (pos : Nat) :
    Val.wIter items pos = Val.wForce items pos :=
  wIterGo_eq_drop items _ pos (Nat.le_refl _)

theorem wrapped_elems_forced (items : List Val) (pos : Nat) :
    (Val.wrapped items pos).elems? = (Val.wrapped items pos).forced? := by
  simp [Val.elems?, Val.forced?, wrapped_views_agree]

/-- so every builtin sees an advanced `stream(seq)` exactly as the fresh stream of the remaining
elements -/
theorem multi_wrapped (items : List Val) (pos : Nat) (g : List Val → Out (List Val)) :
    multi (.wrapped items pos) g = multi (.stream (items.drop pos)) g := rfl

theorem multimulti_wrapped (items : List Val) (pos : Nat) (g : List Val → Out (List (List Val))) :
    multimulti (.wrapped items pos) g = multimulti (.stream (items.drop pos)) g := by
  simp [multimulti, Val.kind?, Val.elems?, wrapped_views_agree, Val.wForce]

/-- a chain of one self-chaining operator is ONE n-ary call: `a zip b zip c = zip(a, b, c)`,
likewise `ziplongest` and `**`, for chains of every length -/
theorem evalChainGo_merge (L : Lib) (f : String) (hf : chains f f = true) (args : List Arg) (rest : List Arg) :
    evalChainGo L f args (rest.map fun x => (f, x)) = call L f (args ++ rest) := by
  induction rest generalizing args with
  | nil => simp [evalChainGo]
  | cons x rest ih => simp [evalChainGo, hf, ih]

theorem evalChain_merge (L : Lib) (f : String) (hf : chains f f = true) (x0 x1 : Arg) (rest : List Arg) :
    evalChain L x0 ((x1 :: rest).map fun x => (f, x)) = call L f (x0 :: x1 :: rest) := by
  simp [evalChain, evalChainGo_merge L f hf]

/-- a trailing `with g` adds the function to the same call -/
theorem evalChainGo_with (L : Lib) (f : String) (hf : chains f "with" = true) (args : List Arg) (g : Arg) :
    evalChainGo L f args [("with", g)] = call L f (args ++ [g]) := by
  simp [evalChainGo, hf]

/-- operators that do not chain are nested binary calls: `a zip b ziplongest c = ziplongest(zip(a, b), c)` -/
theorem evalChain_nomerge (L : Lib) (f g : String) (h : chains f g = false) (x0 x1 x2 : Arg) :
    evalChain L x0 [(f, x1), (g, x2)] = andThen (call L f [x0, x1]) fun r => call L g [.v r, x2] := by
  simp [evalChain, evalChainGo, h]

example : chains "zip" "zip" = true ∧ chains "ziplongest" "ziplongest" = true ∧ chains "**" "**" = true
    ∧ chains "ziplongest" "zip" = false ∧ chains "zip" "ziplongest" = false := by decide

/-! ## uncons / unsnoc, substring search, bounded and right-to-left split -/

theorem lib_uncons : implLib.uncons = specLib.uncons := by
  funext xs; cases xs <;> rfl

theorem lib_unsnoc : implLib.unsnoc = specLib.unsnoc := by
  funext xs
  show unsnoc xs = (match xs.getLast? with | some e => some (xs.dropLast, e) | none => none)
  simp only [unsnoc]
  cases h : xs.getLast? <;> rfl

theorem findSubGo_eq [BEq γ] (pat : List γ) (i : Nat) (s : List γ) :
    findSubGo pat i s = (SeqSpec.findSub pat s).map (· + i) := by
  induction s generalizing i with
  | nil =>
    cases pat <;> simp [findSubGo, SeqSpec.findSub, List.isPrefixOf, List.range_succ_eq_map]
  | cons c cs ih =>
    simp only [findSubGo, SeqSpec.findSub, List.length_cons]
    rw [List.range_succ_eq_map, List.find?_cons]
    simp only [List.drop_zero]
    by_cases hp : pat.isPrefixOf (c :: cs) = true
    · simp [hp]
    · have hp' : pat.isPrefixOf (c :: cs) = false := by simpa using hp
      simp only [hp', Bool.false_eq_true, if_false, ih, SeqSpec.findSub, List.find?_map, Option.map_map]
      congr 1
      funext j; simp; omega

theorem findSub_eq [BEq γ] (pat s : List γ) : findSub pat s = SeqSpec.findSub pat s := by
  simp [findSub, findSubGo_eq]

/-- the bounded-split formula on a list of pieces -/
def boundPieces (pat : List γ) (ps : List (List γ)) (n : Nat) : List (List γ) :=
  if n = 0 then [] else if ps.length ≤ n then ps else ps.take (n - 1) ++ [pat.intercalate (ps.drop (n - 1))]

theorem intercalate_singleton (sep a : List γ) : sep.intercalate [a] = a := by
  simp [List.intercalate, List.intersperse]

theorem intercalate_consHead (sep cur : List γ) (h : List γ) (t : List (List γ)) :
    sep.intercalate (consHead cur (h :: t)) = cur ++ sep.intercalate (h :: t) := by
  cases t with
  | nil => simp [consHead, intercalate_singleton]
  | cons b t => simp [consHead, intercalate_cons_cons]

theorem isPrefixOf_split [BEq γ] [LawfulBEq γ] (pat s : List γ) (h : pat.isPrefixOf s = true) :
    pat ++ s.drop pat.length = s := by
  induction pat generalizing s with
  | nil => simp
  | cons p ps ih =>
    cases s with
    | nil => simp [List.isPrefixOf] at h
    | cons c cs =>
      simp only [List.isPrefixOf, Bool.and_eq_true, beq_iff_eq] at h
      obtain ⟨rfl, h2⟩ := h
      simp [ih cs h2]

/-- **join inverts split**: `join sep (split s sep) = s` -/
theorem intercalate_splitPat [BEq γ] [LawfulBEq γ] (pat : List γ) (hp : pat ≠ []) (fuel : Nat) (s : List γ)
    (hf : s.length < fuel) : pat.intercalate (SeqSpec.splitPat pat fuel s) = s := by
  induction fuel generalizing s with
  | zero => omega
  | succ fuel ih =>
    cases s with
    | nil => simp [SeqSpec.splitPat, intercalate_singleton]
    | cons c cs =>
      simp only [SeqSpec.splitPat]
      by_cases hm : pat.isPrefixOf (c :: cs) = true
      · simp only [hm, if_true]
        have hlen : ((c :: cs).drop pat.length).length < fuel := by
          have : 0 < pat.length := List.length_pos_iff.mpr hp
          simp only [List.length_drop, List.length_cons] at hf ⊢; omega
        have hrec := ih _ hlen
        cases hq : SeqSpec.splitPat pat fuel ((c :: cs).drop pat.length) with
        | nil => exact absurd hq (splitPat_ne_nil _ _ _)
        | cons a b =>
          rw [hq] at hrec
          rw [intercalate_cons_cons, hrec]
          simpa using isPrefixOf_split pat (c :: cs) hm
      · have hm' : pat.isPrefixOf (c :: cs) = false := by cases hb : pat.isPrefixOf (c :: cs) <;> simp_all
        simp only [hm', Bool.false_eq_true, if_false]
        have hrec := ih cs (by simp at hf; omega)
        cases hq : SeqSpec.splitPat pat fuel cs with
        | nil => exact absurd hq (splitPat_ne_nil _ _ _)
        | cons a b =>
          rw [hq] at hrec
          have := intercalate_consHead pat [c] a b
          simp only [consHead, List.singleton_append] at this
          rw [this, hrec]

theorem consHead_consHead (a b : List γ) (ps : List (List γ)) (h : ps ≠ []) :
    consHead a (consHead b ps) = consHead (a ++ b) ps := by
  cases ps with
  | nil => exact absurd rfl h
  | cons x t => simp [consHead]

theorem boundPieces_cons (pat cur : List γ) (Q : List (List γ)) (n : Nat) :
    boundPieces pat (cur :: Q) (n + 2) = cur :: boundPieces pat Q (n + 1) := by
  simp only [boundPieces, List.length_cons]
  by_cases h : Q.length ≤ n + 1
  · have h' : Q.length + 1 ≤ n + 2 := by omega
    simp [h, h']
  · have h' : ¬ (Q.length + 1 ≤ n + 2) := by omega
    simp [h, h']

theorem splitnGo_eq [BEq γ] [LawfulBEq γ] (pat : List γ) (hp : pat ≠ []) (fuel n : Nat) (cur s : List γ)
    (hf : s.length < fuel) :
    splitnGo pat fuel n cur s = boundPieces pat (consHead cur (SeqSpec.splitPat pat fuel s)) n := by
  induction fuel generalizing n cur s with
  | zero => omega
  | succ fuel ih =>
    match n with
    | 0 => simp [splitnGo, boundPieces]
    | 1 =>
      simp only [splitnGo, boundPieces]
      have hr := intercalate_splitPat pat hp (fuel + 1) s hf
      cases hq : SeqSpec.splitPat pat (fuel + 1) s with
      | nil => exact absurd hq (splitPat_ne_nil _ _ _)
      | cons a b =>
        rw [hq] at hr
        cases b with
        | nil =>
          rw [intercalate_singleton] at hr
          simp [consHead, hr]
        | cons b0 b1 =>
          have := intercalate_consHead pat cur a (b0 :: b1)
          simp only [consHead] at this
          simp [consHead, this, hr]
    | n + 2 =>
      cases s with
      | nil => simp [splitnGo, SeqSpec.splitPat, consHead, boundPieces]
      | cons c cs =>
        simp only [splitnGo, SeqSpec.splitPat, stripPrefix_eq]
        by_cases hm : pat.isPrefixOf (c :: cs) = true
        · simp only [hm, if_true]
          have hlen : ((c :: cs).drop pat.length).length < fuel := by
            have : 0 < pat.length := List.length_pos_iff.mpr hp
            simp only [List.length_drop, List.length_cons] at hf ⊢; omega
          rw [ih (n + 1) [] _ hlen]
          cases hq : SeqSpec.splitPat pat fuel ((c :: cs).drop pat.length) with
          | nil => exact absurd hq (splitPat_ne_nil _ _ _)
          | cons a b =>
            simp only [consHead, List.nil_append, List.append_nil]
            rw [boundPieces_cons]
        · have hm' : pat.isPrefixOf (c :: cs) = false := by cases hb : pat.isPrefixOf (c :: cs) <;> simp_all
          simp only [hm', Bool.false_eq_true, if_false]
          rw [ih (n + 2) (cur ++ [c]) cs (by simp at hf; omega)]
          have hne := splitPat_ne_nil pat fuel cs
          cases hq : SeqSpec.splitPat pat fuel cs with
          | nil => exact absurd hq hne
          | cons a b => simp [consHead]

theorem intercalate_nil (ps : List (List γ)) : ([] : List γ).intercalate ps = ps.flatten := by
  induction ps with
  | nil => rfl
  | cons a t ih =>
    cases t with
    | nil => simp [intercalate_singleton]
    | cons b t => rw [intercalate_cons_cons, ih]; simp

/-- **split with a limit**: at most `n` pieces, the last one being the rest of the text, i.e.
the remaining pieces joined by the separator again -/
theorem splitn_eq [BEq γ] [LawfulBEq γ] (s pat : List γ) (n : Nat) : splitn s pat n = SeqSpec.splitn s pat n := by
  by_cases hp : pat = []
  · subst hp
    simp [splitn, SeqSpec.splitn, SeqSpec.split, intercalate_nil]
  · have hp' : pat.isEmpty = false := by cases pat <;> simp_all
    simp only [splitn, SeqSpec.splitn, SeqSpec.split, hp', Bool.false_eq_true, if_false]
    rw [splitnGo_eq pat hp _ n [] s (by omega)]
    cases hq : SeqSpec.splitPat pat (s.length + 1) s with
    | nil => exact absurd hq (splitPat_ne_nil _ _ _)
    | cons a b =>
      simp only [consHead, boundPieces, List.nil_append, List.length_cons]
      by_cases h0 : n = 0
      · simp [h0]
      · by_cases h1 : b.length + 1 ≤ n <;> simp [h0, h1]

theorem rsplit_eq [BEq γ] (s pat : List γ) : rsplit s pat = SeqSpec.rsplit s pat := by
  simp [rsplit, SeqSpec.rsplit, split_eq]

theorem rsplitn_eq [BEq γ] [LawfulBEq γ] (s pat : List γ) (n : Nat) : rsplitn s pat n = SeqSpec.rsplitn s pat n := by
  simp [rsplitn, SeqSpec.rsplitn, splitn_eq]

theorem lib_findSub : implLib.findSub = specLib.findSub := by funext p s; exact findSub_eq p s
theorem lib_splitn : implLib.splitn = specLib.splitn := by funext s p n; exact splitn_eq s p n
theorem lib_rsplit : implLib.rsplit = specLib.rsplit := by funext s p; exact rsplit_eq s p
theorem lib_rsplitn : implLib.rsplitn = specLib.rsplitn := by funext s p n; exact rsplitn_eq s p n



/-! ## merge as a finite map
`merge(d1, d2, …[, f])`: under each key, the values the dictionaries hold for it, left to right,
combined with `f` (without `f`: the last one wins).  The entry order comes out of a `HashMap`. -/

/-- the combining step of `merge` for a callback that never fails (`none` = overwrite) -/
def mergeOp (g : Option (β → β → β)) (old v : β) : β :=
  match g with
  | none => v
  | some g => g old v

def liftOp (g : Option (β → β → β)) : Option (β → β → Out β) := g.map fun g a b => .ok (g a b)

/-- what the map holds under `k` after `(k', v)` arrives -/
theorem mergeEntry_pure [BEq κ] [LawfulBEq κ] (g : Option (β → β → β)) (k' : κ) (v : β) (m : List (κ × β)) :
    ∃ m', mergeEntry (liftOp g) k' v m = .ok m' ∧
      ∀ k, m'.lookup k = if k == k' then some (match m.lookup k with
                                              | some old => mergeOp g old v
                                              | none => v) else m.lookup k := by
  induction m with
  | nil =>
    refine ⟨[(k', v)], rfl, ?_⟩
    intro k
    simp only [List.lookup]
    cases h : k == k' <;> simp
  | cons e m ih =>
    obtain ⟨k2, old⟩ := e
    obtain ⟨m', hm', hl⟩ := ih
    by_cases h2 : (k2 == k') = true
    · have e2 : k2 = k' := by simpa using h2
      subst e2
      cases g with
      | none =>
        refine ⟨(k2, v) :: m, by simp [mergeEntry, liftOp], ?_⟩
        intro k
        simp only [List.lookup]
        cases h : k == k2 <;> simp [mergeOp]
      | some g =>
        refine ⟨(k2, g old v) :: m, by simp [mergeEntry, liftOp], ?_⟩
        intro k
        simp only [List.lookup]
        cases h : k == k2 <;> simp [mergeOp]
    · have h2' : (k2 == k') = false := by cases hb : k2 == k' <;> simp_all
      refine ⟨(k2, old) :: m', by simp [mergeEntry, h2', hm'], ?_⟩
      intro k
      simp only [List.lookup, hl k]
      cases h : k == k2 with
      | false => rfl
      | true =>
        have : k = k2 := by simpa using h
        subst this
        simp [h2']

def foldVals (g : Option (β → β → β)) (cur : Option β) (v : Option β) : Option β :=
  match v with
  | none => cur
  | some v => some (match cur with
                    | some old => mergeOp g old v
                    | none => v)

theorem mergeDict_pure [BEq κ] [LawfulBEq κ] (g : Option (β → β → β)) (ret d : List (κ × β))
    (hd : (d.map (·.1)).Nodup) :
    ∃ r, mergeDict (liftOp g) ret d = .ok r ∧ ∀ k, r.lookup k = foldVals g (ret.lookup k) (d.lookup k) := by
  induction d generalizing ret with
  | nil => exact ⟨ret, rfl, fun k => by simp [foldVals, List.lookup]⟩
  | cons e d ih =>
    obtain ⟨k1, v1⟩ := e
    obtain ⟨m', hm', hl⟩ := mergeEntry_pure g k1 v1 ret
    have hnd := List.nodup_cons.mp hd
    obtain ⟨r, hr, hrl⟩ := ih m' hnd.2
    refine ⟨r, by simp [mergeDict, hm', hr], ?_⟩
    intro k
    rw [hrl k, hl k]
    simp only [List.lookup]
    cases h : k == k1 with
    | false => rfl
    | true =>
      have : k = k1 := by simpa using h
      subst this
      have hnone : d.lookup k = none := by
        rw [List.lookup_eq_none_iff]
        intro p hp
        cases hk : k == p.1 with
        | false => simp [bne, hk]
        | true =>
          have hkp : k = p.1 := by simpa using hk
          have hmem : p.1 ∈ d.map (·.1) := List.mem_map_of_mem (f := fun x : κ × β => x.1) hp
          rw [← hkp] at hmem
          exact absurd hmem hnd.1
      simp [hnone, foldVals]

theorem mergeAll_pure [BEq κ] [LawfulBEq κ] (g : Option (β → β → β)) (ret : List (κ × β)) (ds : List (List (κ × β)))
    (hd : ∀ d ∈ ds, (d.map (·.1)).Nodup) :
    ∃ r, mergeAll (liftOp g) ret ds = .ok r ∧
      ∀ k, r.lookup k = (ds.map fun d => d.lookup k).foldl (foldVals g) (ret.lookup k) := by
  induction ds generalizing ret with
  | nil => exact ⟨ret, rfl, fun k => rfl⟩
  | cons d ds ih =>
    obtain ⟨r1, h1, l1⟩ := mergeDict_pure g ret d (hd d (by simp))
    obtain ⟨r, h2, l2⟩ := ih r1 (fun x hx => hd x (List.mem_cons_of_mem _ hx))
    refine ⟨r, by simp [mergeAll, h1, h2], ?_⟩
    intro k
    rw [l2 k, l1 k]
    rfl

/-- **merge as a finite map**: the value under `k` is the fold of the values the dictionaries
hold for `k`, left to right (absent iff no dictionary has `k`) -/
theorem merge_lookup [BEq κ] [LawfulBEq κ] (g : Option (β → β → β)) (ds : List (List (κ × β)))
    (hd : ∀ d ∈ ds, (d.map (·.1)).Nodup) :
    ∃ r, merge (liftOp g) ds = .ok r ∧
      ∀ k, r.lookup k = (ds.map fun d => d.lookup k).foldl (foldVals g) none := by
  obtain ⟨r, h, l⟩ := mergeAll_pure g [] ds hd
  exact ⟨r, h, fun k => by simpa [List.lookup] using l k⟩

/-- non-vacuity: `merge({1: 2, 3: 4}, {1: 10, 5: 6}, -)` -/
example : merge (liftOp (some fun a b : Int => a - b)) [[(1, 2), (3, 4)], [(1, 10), (5, 6)]]
    = .ok [((1 : Nat), (-8 : Int)), (3, 4), (5, 6)] := by decide


/-! ## join with pieces that are converted on the way (bytes separator) -/

theorem joinGoE_started (sep : List γ) (disp : α → Out (List γ)) (acc : List γ) (xs : List α) :
    joinGoE sep disp true acc xs
      = (SeqSpec.mapE disp xs).map fun ps => acc ++ (ps.map (fun p => sep ++ p)).flatten := by
  induction xs generalizing acc with
  | nil => simp [joinGoE, SeqSpec.mapE]
  | cons x xs ih =>
    simp only [joinGoE, SeqSpec.mapE, if_true]
    cases disp x with
    | ok p =>
      simp only [SeqSpec.bind_ok, ih]
      cases SeqSpec.mapE disp xs <;> simp [SeqSpec.bind, Out.map]
    | throw => rfl
    | panic => rfl

/-- **join = intercalate, also when the pieces are converted** (bytes separator and bytes /
list / vector pieces; empty pieces anywhere, the leading ones included, still get their
separators) -/
theorem joinE_eq (sep : List γ) (disp : α → Out (List γ)) (xs : List α) :
    joinE sep disp xs = SeqSpec.joinE sep disp xs := by
  cases xs with
  | nil => simp [joinE, joinGoE, SeqSpec.joinE, SeqSpec.mapE, List.intercalate]
  | cons x xs =>
    simp only [joinE, joinGoE, SeqSpec.joinE, SeqSpec.mapE, Bool.false_eq_true, if_false, List.nil_append]
    cases disp x with
    | ok p =>
      simp only [SeqSpec.bind_ok, joinGoE_started]
      cases SeqSpec.mapE disp xs <;> simp [SeqSpec.bind, Out.map, intercalate_eq_flatten]
    | throw => rfl
    | panic => rfl

theorem lib_joinE : implLib.joinE = specLib.joinE := by funext s d xs; exact joinE_eq s d xs

/-- in particular an empty piece in front keeps its separator: `join([B[], B[1]], B[0]) = B[0, 1]` -/
example : joinE [0] (fun p : List Nat => .ok p) [[], [1]] = .ok [0, 1] := by decide

/-! ## min / max: the FIRST of several equal extrema wins -/

/-- the fold behind `min` / `max` for a comparison that never fails: `b` replaces the current
extremum `r` only if it beats it -/
def pickStep (beats : α → α → Bool) (r b : α) : α := if beats b r then b else r

theorem extremumE_pure (cmp : α → α → Ordering) (bias : Ordering) (x : α) (xs : List α) :
    SeqSpec.extremumE (fun a b => .ok (cmp a b)) bias (x :: xs)
      = .ok (xs.foldl (pickStep fun b r => cmp b r == bias) x) := by
  simp only [SeqSpec.extremumE, SeqSpec.fold1E, SeqSpec.bind_ok]
  have := foldlE_pure (pickStep fun b r => cmp b r == bias) x xs
  simpa [pickStep] using this

/-- the invariant of the fold: everything before the current extremum is beaten by it, nothing
after it (so far) beats it -/
theorem pick_first (beats : α → α → Bool) (L : List α)
    (htr : ∀ a ∈ L, ∀ b ∈ L, ∀ c ∈ L, beats a b = true → beats b c = true → beats a c = true)
    (hneg : ∀ a ∈ L, ∀ b ∈ L, ∀ c ∈ L, beats a b = true → beats c b = false → beats a c = true) :
    ∀ (xs pre : List α) (c : α) (mid : List α), L = pre ++ c :: mid ++ xs →
      (∀ y ∈ pre, beats c y = true) → (∀ y ∈ mid, beats y c = false) →
      ∃ pre' post, L = pre' ++ xs.foldl (pickStep beats) c :: post
        ∧ (∀ y ∈ pre', beats (xs.foldl (pickStep beats) c) y = true)
        ∧ (∀ y ∈ post, beats y (xs.foldl (pickStep beats) c) = false) := by
  intro xs
  induction xs with
  | nil =>
    intro pre c mid hL h1 h2
    exact ⟨pre, mid, by simpa using hL, h1, h2⟩
  | cons b xs ih =>
    intro pre c mid hL h1 h2
    have hc : c ∈ L := by rw [hL]; simp
    have hb : b ∈ L := by rw [hL]; simp
    simp only [List.foldl_cons]
    by_cases hbc : beats b c = true
    · have hstep : pickStep beats c b = b := by simp [pickStep, hbc]
      rw [hstep]
      apply ih (pre ++ c :: mid) b [] (by rw [hL]; simp)
      · intro y hy
        rcases List.mem_append.mp hy with hy | hy
        · exact htr b hb c hc y (by rw [hL]; simp [hy]) hbc (h1 y hy)
        · rcases List.mem_cons.mp hy with rfl | hy
          · exact hbc
          · exact hneg b hb c hc y (by rw [hL]; simp [hy]) hbc (h2 y hy)
      · intro y hy; cases hy
    · have hbc' : beats b c = false := by simpa using hbc
      have hstep : pickStep beats c b = c := by simp [pickStep, hbc']
      rw [hstep]
      apply ih pre c (mid ++ [b]) (by rw [hL]; simp) h1
      intro y hy
      rcases List.mem_append.mp hy with hy | hy
      · exact h2 y hy
      · simp at hy; subst hy; exact hbc'

/-- **max_first_of_ties** (and `min`): for a comparison that is a strict weak order on the input
(`beats` transitive and negatively transitive), the result of `min` / `max` — in every call form,
they all run this loop — splits the input as `pre ++ r :: post` where `r` beats every element of
`pre` and no element of `post` beats `r`: of several equal extrema the FIRST one is returned, with
its own representation (`max([1, 1.0]) = 1`, `max([1.0, 1]) = 1.0`) -/
theorem max_first_of_ties (cmp : α → α → Ordering) (bias : Ordering) (xs : List α) (r : α)
    (htr : ∀ a ∈ xs, ∀ b ∈ xs, ∀ c ∈ xs, cmp a b = bias → cmp b c = bias → cmp a c = bias)
    (hneg : ∀ a ∈ xs, ∀ b ∈ xs, ∀ c ∈ xs, cmp a b = bias → cmp c b ≠ bias → cmp a c = bias)
    (h : extremum (fun a b => .ok (cmp a b)) bias xs = .ok r) :
    ∃ pre post, xs = pre ++ r :: post ∧ (∀ y ∈ pre, cmp r y = bias) ∧ (∀ y ∈ post, cmp y r ≠ bias) := by
  rw [extremum_eq] at h
  cases xs with
  | nil => simp [SeqSpec.extremumE, SeqSpec.fold1E] at h
  | cons x xs =>
    rw [extremumE_pure] at h
    injection h with h
    have key := pick_first (fun b r => cmp b r == bias) (x :: xs)
      (by intro a ha b hb c hc h1 h2; simp only [beq_iff_eq] at *; exact htr a ha b hb c hc h1 h2)
      (by intro a ha b hb c hc h1 h2; simp only [beq_iff_eq, beq_eq_false_iff_ne] at *; exact hneg a ha b hb c hc h1 h2)
      xs [] x [] (by simp) (by intro y hy; cases hy) (by intro y hy; cases hy)
    rw [h] at key
    obtain ⟨pre, post, e, h1, h2⟩ := key
    exact ⟨pre, post, e, fun y hy => by simpa using h1 y hy, fun y hy => by simpa using h2 y hy⟩


theorem pairwise_of_forall_mem (R : α → α → Prop) (l : List α) (h : ∀ a ∈ l, ∀ b ∈ l, R a b) : l.Pairwise R := by
  induction l with
  | nil => exact List.Pairwise.nil
  | cons x l ih =>
    rw [List.pairwise_cons]
    exact ⟨fun b hb => h x (by simp) b (by simp [hb]),
      ih fun a ha b hb => h a (by simp [ha]) b (by simp [hb])⟩

/-- the head of the stable sort is the FIRST minimal element of the input -/
theorem head_sort_first_min (le : α → α → Bool) (xs : List α) (h : TotalPreorderOn le xs) :
    (SeqSpec.sort le xs).head? = (xs.filter fun y => xs.all fun z => le y z).head? := by
  obtain ⟨hsorted, hperm, hstab⟩ := sort_stable_perm le xs h
  generalize hS : SeqSpec.sort le xs = S at *
  let isMin := fun y => xs.all fun z => le y z
  cases S with
  | nil =>
    have : xs = [] := List.length_eq_zero_iff.mp (by simpa using hperm.length_eq.symm)
    subst this; rfl
  | cons hd T =>
    have hhd : hd ∈ xs := hperm.mem_iff.mp (by simp)
    have hmin : isMin hd = true := by
      simp only [isMin, List.all_eq_true]
      intro z hz
      have hz' : z ∈ hd :: T := hperm.mem_iff.mpr hz
      rcases List.mem_cons.mp hz' with rfl | hz'
      · have := h.total z hz z hz; simpa using this
      · exact (List.pairwise_cons.mp hsorted).1 z hz'
    have hys : (xs.filter isMin).Pairwise (fun a b => le a b = true) := by
      apply pairwise_of_forall_mem
      intro a ha b hb
      have ha' := (List.mem_filter.mp ha).2
      simp only [isMin, List.all_eq_true] at ha'
      exact ha' b (List.mem_filter.mp hb).1
    have hsub := hstab (xs.filter isMin) hys List.filter_sublist
    have hlen : ((hd :: T).filter isMin).length = (xs.filter isMin).length := (hperm.filter isMin).length_eq
    have hne : xs.filter isMin ≠ [] := by
      intro h0
      have : hd ∈ xs.filter isMin := List.mem_filter.mpr ⟨hhd, hmin⟩
      rw [h0] at this; cases this
    cases hy : xs.filter isMin with
    | nil => exact absurd hy hne
    | cons m ys' =>
      rw [hy] at hsub hlen
      show some hd = some m
      rcases List.sublist_cons_iff.mp hsub with hT | ⟨r, hr, _⟩
      · exfalso
        have h1 := hT.filter isMin
        have hall : (m :: ys').filter isMin = m :: ys' := by
          rw [← hy, List.filter_filter]; simp
        rw [hall] at h1
        have h2 := h1.length_le
        simp only [List.filter_cons, hmin, if_true, List.length_cons] at hlen
        simp only [List.length_cons] at h2
        omega
      · injection hr with hr _
        rw [hr]

/-- **min(xs) = first(sort(xs))**, representation included: for a comparison that is a total
preorder on the input, the fold of `min` returns exactly the head of the stable sort -/
theorem min_eq_head_sort (le : α → α → Bool) (x0 : α) (rest : List α) (h : TotalPreorderOn le (x0 :: rest)) :
    (SeqSpec.sort le (x0 :: rest)).head? = some (rest.foldl (pickStep fun b r => !(le r b)) x0) := by
  rw [head_sort_first_min le _ h]
  have htot : ∀ a ∈ x0 :: rest, ∀ b ∈ x0 :: rest, le a b = false → le b a = true := by
    intro a ha b hb hab
    have := h.total a ha b hb
    simpa [hab] using this
  obtain ⟨pre, post, e, h1, h2⟩ := pick_first (fun b r => !(le r b)) (x0 :: rest)
    (by
      intro a ha b hb c hc hab hbc
      simp only [Bool.not_eq_true'] at *
      cases hca : le c a with
      | false => rfl
      | true =>
        have hab' := htot b hb a ha hab
        have := h.trans c hc a ha b hb hca hab'
        rw [this] at hbc; cases hbc)
    (by
      intro a ha b hb c hc hab hcb
      simp only [Bool.not_eq_true', Bool.not_eq_false'] at *
      cases hca : le c a with
      | false => rfl
      | true =>
        have := h.trans b hb c hc a ha hcb hca
        rw [this] at hab; cases hab)
    rest [] x0 [] (by simp) (by intro y hy; cases hy) (by intro y hy; cases hy)
  generalize rest.foldl (pickStep fun b r => !(le r b)) x0 = r at *
  have hr : r ∈ x0 :: rest := by rw [e]; simp
  have hmin : ((x0 :: rest).all fun z => le r z) = true := by
    rw [List.all_eq_true]
    intro z hz
    rw [e] at hz
    rcases List.mem_append.mp hz with hz | hz
    · have := h1 z hz
      simp only [Bool.not_eq_true'] at this
      exact htot z (by rw [e]; simp [hz]) r hr this
    · rcases List.mem_cons.mp hz with rfl | hz
      · have := h.total z hr z hr; simpa using this
      · have := h2 z hz; simpa using this
  have hpre : pre.filter (fun y => (x0 :: rest).all fun z => le y z) = [] := by
    rw [List.filter_eq_nil_iff]
    intro y hy hall
    rw [List.all_eq_true] at hall
    have := h1 y hy
    simp only [Bool.not_eq_true'] at this
    rw [hall r hr] at this; cases this
  have hsplit : (x0 :: rest).filter (fun y => (x0 :: rest).all fun z => le y z)
      = (pre ++ r :: post).filter (fun y => (x0 :: rest).all fun z => le y z) :=
    congrArg (List.filter fun y => (x0 :: rest).all fun z => le y z) e
  rw [hsplit, List.filter_append, hpre, List.nil_append, List.filter_cons, hmin]
  rfl


/-- the same on the Impl side: with a comparator that answers consistently in both directions and is
a total preorder on the input, `min(xs)` (any call form) is `first(sort(xs))` -/
theorem min_impl_eq_head_sort (cmp : α → α → Ordering) (hsw : ∀ a b, cmp b a = (cmp a b).swap)
    (x0 : α) (rest : List α)
    (h : TotalPreorderOn (SeqSpec.leOfCmp fun a b => .ok (cmp a b)) (x0 :: rest)) :
    (extremum (fun a b => .ok (cmp a b)) .lt (x0 :: rest)).map some
      = .ok (SeqSpec.sort (SeqSpec.leOfCmp fun a b => .ok (cmp a b)) (x0 :: rest)).head? := by
  rw [extremum_eq, extremumE_pure, min_eq_head_sort _ x0 rest h]
  have : (pickStep fun b r => cmp b r == Ordering.lt)
      = (pickStep fun b r => !(SeqSpec.leOfCmp (fun a b => Out.ok (cmp a b)) r b)) := by
    funext r b
    have hb : (cmp b r == Ordering.lt) = !(SeqSpec.leOfCmp (fun a b => Out.ok (cmp a b)) r b) := by
      simp only [SeqSpec.leOfCmp, hsw r b]
      cases cmp r b <;> rfl
    simp only [pickStep, hb]
  rw [this]
  rfl

/-- non-vacuity: `min([1.5, 3/2])` is the float, `sort` puts it first too (ties keep input order) -/
example : SeqSpec.extremumE (fun a b : Nat × Bool => .ok (compare a.1 b.1)) .lt [(3, true), (3, false), (5, true)]
    = .ok (3, true) := by decide


/-! ## dictionary-building loops keep the FIRST spelling of a key
(`1`, `1.0` and `1/1` are one key; `frequencies`, `classify` / `group_all`, `set` and `merge` store
the representation that arrived first — an existing entry is updated in place, never re-keyed) -/

theorem entryIncr_keys [BEq κ] (k : κ) (m : List (κ × Nat)) :
    (entryIncr k m).map (·.1) = if m.any (·.1 == k) then m.map (·.1) else m.map (·.1) ++ [k] := by
  induction m with
  | nil => rfl
  | cons e m ih =>
    obtain ⟨k', c⟩ := e
    simp only [entryIncr, List.any_cons, List.map_cons]
    cases h : k' == k with
    | true => simp [h]
    | false =>
      simp only [h, Bool.false_eq_true, if_false, List.map_cons, Bool.false_or, ih]
      split <;> rfl

theorem entryPush_keys [BEq κ] (k : κ) (i : α) (m : List (κ × List α)) :
    (entryPush k i m).map (·.1) = if m.any (·.1 == k) then m.map (·.1) else m.map (·.1) ++ [k] := by
  induction m with
  | nil => rfl
  | cons e m ih =>
    obtain ⟨k', g⟩ := e
    simp only [entryPush, List.any_cons, List.map_cons]
    cases h : k' == k with
    | true => simp [h]
    | false =>
      simp only [h, Bool.false_eq_true, if_false, List.map_cons, Bool.false_or, ih]
      split <;> rfl

theorem mergeEntry_keys [BEq κ] (f : Option (β → β → Out β)) (k : κ) (v : β) (m m' : List (κ × β))
    (h : mergeEntry f k v m = .ok m') :
    m'.map (·.1) = if m.any (·.1 == k) then m.map (·.1) else m.map (·.1) ++ [k] := by
  induction m generalizing m' with
  | nil => simp [mergeEntry] at h; subst h; rfl
  | cons e m ih =>
    obtain ⟨k', old⟩ := e
    simp only [mergeEntry] at h
    cases hk : k' == k with
    | true =>
      simp only [hk, if_true] at h
      cases f with
      | none => injection h with h; subst h; simp [hk]
      | some f =>
        simp only at h
        cases hf : f old v with
        | ok r => rw [hf] at h; injection h with h; subst h; simp [hk]
        | throw => rw [hf] at h; cases h
        | panic => rw [hf] at h; cases h
    | false =>
      simp only [hk, Bool.false_eq_true, if_false] at h
      cases hm : mergeEntry f k v m with
      | ok m2 =>
        rw [hm] at h; injection h with h; subst h
        simp only [List.map_cons, List.any_cons, hk, Bool.false_or, ih m2 hm]
        split <;> simp
      | throw => rw [hm] at h; cases h
      | panic => rw [hm] at h; cases h


/-! ## early exit: the callback is not called after the deciding element
(`SeqAndMappedFoldBuiltin::run` / `run1` / `run2` are the same loop: whatever the call form —
`any(xs, f)`, `xs any f`, a longer chain, `any(f)(xs)`, `flip(any)(f, xs)`, `x any= f` — the number
of calls of `f` is the index of the deciding element + 1) -/

/-- the instrumented loop computes the same result as the loop -/
theorem seqFoldGoN_fst (f : α → Out β) (body : γ → β → Step γ) (s : γ) (n : Nat) (xs : List α) :
    (seqFoldGoN f body s n xs).1 = seqFoldGo f body s xs := by
  induction xs generalizing s n with
  | nil => rfl
  | cons x xs ih =>
    simp only [seqFoldGoN, seqFoldGo]
    cases f x with
    | ok y => simp only []; cases hb : body s y <;> simp [ih]
    | throw => rfl
    | panic => rfl

/-- **any_short_circuits**: when `p` is false on `pre` and true on `x`, `any` answers true after
exactly `pre.length + 1` calls — whatever follows (`post` is never evaluated: it may even contain
elements on which `p` raises) -/
theorem any_short_circuits (p : α → Out Bool) (pre : List α) (x : α) (post : List α)
    (hpre : ∀ y ∈ pre, p y = .ok false) (hx : p x = .ok true) (n : Nat) :
    seqFoldGoN p anyBody false n (pre ++ x :: post) = (.ok true, n + pre.length + 1) := by
  induction pre generalizing n with
  | nil => simp [seqFoldGoN, hx, anyBody]
  | cons y pre ih =>
    have hy := hpre y (by simp)
    simp only [List.cons_append, seqFoldGoN, hy, anyBody, Bool.false_eq_true, if_false]
    rw [ih (fun z hz => hpre z (by simp [hz])) (n + 1)]
    simp; omega

/-- **all_short_circuits** -/
theorem all_short_circuits (p : α → Out Bool) (pre : List α) (x : α) (post : List α)
    (hpre : ∀ y ∈ pre, p y = .ok true) (hx : p x = .ok false) (n : Nat) :
    seqFoldGoN p allBody true n (pre ++ x :: post) = (.ok false, n + pre.length + 1) := by
  induction pre generalizing n with
  | nil => simp [seqFoldGoN, hx, allBody]
  | cons y pre ih =>
    have hy := hpre y (by simp)
    simp only [List.cons_append, seqFoldGoN, hy, allBody, Bool.not_true, Bool.false_eq_true, if_false]
    rw [ih (fun z hz => hpre z (by simp [hz])) (n + 1)]
    simp; omega

/-- a raising element stops the fold as well, after being called once -/
theorem any_stops_at_failure (p : α → Out Bool) (pre : List α) (x : α) (post : List α)
    (hpre : ∀ y ∈ pre, p y = .ok false) (hx : p x = .throw) (n : Nat) :
    seqFoldGoN p anyBody false n (pre ++ x :: post) = (.throw, n + pre.length + 1) := by
  induction pre generalizing n with
  | nil => simp [seqFoldGoN, hx]
  | cons y pre ih =>
    have hy := hpre y (by simp)
    simp only [List.cons_append, seqFoldGoN, hy, anyBody, Bool.false_eq_true, if_false]
    rw [ih (fun z hz => hpre z (by simp [hz])) (n + 1)]
    simp; omega

/-- without a deciding element every element is visited once -/
theorem any_visits_all (p : α → Out Bool) (xs : List α) (h : ∀ y ∈ xs, p y = .ok false) (n : Nat) :
    seqFoldGoN p anyBody false n xs = (.ok false, n + xs.length) := by
  induction xs generalizing n with
  | nil => rfl
  | cons y xs ih =>
    have hy := h y (by simp)
    simp only [seqFoldGoN, hy, anyBody, Bool.false_eq_true, if_false]
    rw [ih (fun z hz => h z (by simp [hz])) (n + 1)]
    simp; omega

/-- the results do not depend on what follows the deciding element -/
theorem any_ignores_tail (p : α → Out Bool) (pre : List α) (x : α) (post : List α)
    (hpre : ∀ y ∈ pre, p y = .ok false) (hx : p x = .ok true) : any p (pre ++ x :: post) = .ok true := by
  have := congrArg Prod.fst (any_short_circuits p pre x post hpre hx 0)
  rw [seqFoldGoN_fst] at this
  exact this

theorem all_ignores_tail (p : α → Out Bool) (pre : List α) (x : α) (post : List α)
    (hpre : ∀ y ∈ pre, p y = .ok true) (hx : p x = .ok false) : all p (pre ++ x :: post) = .ok false := by
  have := congrArg Prod.fst (all_short_circuits p pre x post hpre hx 0)
  rw [seqFoldGoN_fst] at this
  exact this

theorem find_ignores_tail (p : α → Out Bool) (pre : List α) (x : α) (post : List α)
    (hpre : ∀ y ∈ pre, p y = .ok false) (hx : p x = .ok true) : find p (pre ++ x :: post) = .ok (some x) := by
  induction pre with
  | nil => simp [find, hx]
  | cons y pre ih => simp [find, hpre y (by simp), ih (fun z hz => hpre z (by simp [hz]))]

theorem locate_ignores_tail (p : α → Out Bool) (pre : List α) (x : α) (post : List α)
    (hpre : ∀ y ∈ pre, p y = .ok false) (hx : p x = .ok true) (i : Nat) :
    locateGo p i (pre ++ x :: post) = .ok (some (i + pre.length)) := by
  induction pre generalizing i with
  | nil => simp [locateGo, hx]
  | cons y pre ih =>
    simp only [List.cons_append, locateGo, hpre y (by simp)]
    rw [ih (fun z hz => hpre z (by simp [hz])) (i + 1)]
    simp; omega

theorem takeWhile_ignores_tail (p : α → Out Bool) (pre : List α) (x : α) (post : List α)
    (hpre : ∀ y ∈ pre, p y = .ok true) (hx : p x = .ok false) : takeWhile p (pre ++ x :: post) = .ok pre := by
  rw [takeWhile_eq]
  induction pre with
  | nil => simp [SeqSpec.takeWhileE, hx]
  | cons y pre ih =>
    simp [SeqSpec.takeWhileE, hpre y (by simp), ih (fun z hz => hpre z (by simp [hz]))]

theorem dropWhile_ignores_tail (p : α → Out Bool) (pre : List α) (x : α) (post : List α)
    (hpre : ∀ y ∈ pre, p y = .ok true) (hx : p x = .ok false) : dropWhile p (pre ++ x :: post) = .ok (x :: post) := by
  induction pre with
  | nil => simp [dropWhile, hx]
  | cons y pre ih => simp [dropWhile, hpre y (by simp), ih (fun z hz => hpre z (by simp [hz]))]

/-- the stop rule of the other early-exit builtins, as a count: index of the deciding element + 1 -/
theorem callsUntil_decided (stop : Out β → Bool) (f : α → Out β) (pre : List α) (x : α) (post : List α)
    (hpre : ∀ y ∈ pre, stop (f y) = false) (hx : stop (f x) = true) :
    callsUntil stop f (pre ++ x :: post) = pre.length + 1 := by
  induction pre with
  | nil => simp [callsUntil, hx]
  | cons y pre ih =>
    simp only [List.cons_append, callsUntil, hpre y (by simp), Bool.false_eq_true, if_false,
      ih (fun z hz => hpre z (by simp [hz])), List.length_cons]
    omega


theorem callsUntil_eq (stop : Out β → Bool) (f : α → Out β) (xs : List α) :
    callsUntil stop f xs = (match xs.findIdx? fun x => stop (f x) with
                            | some i => i + 1
                            | none => xs.length) := by
  induction xs with
  | nil => rfl
  | cons x xs ih =>
    simp only [callsUntil, List.findIdx?_cons]
    cases h : stop (f x) with
    | true => simp
    | false =>
      simp only [Bool.false_eq_true, if_false, ih]
      cases hq : List.findIdx? (fun x => stop (f x)) xs with
      | none => simp [Nat.add_comm]
      | some i => simp [Nat.add_comm]

/-- the instrumented `any` loop counts exactly "up to and including the first element that is
not plainly false" -/
theorem any_calls (p : α → Out Bool) (xs : List α) (n : Nat) :
    (seqFoldGoN p anyBody false n xs).2 = n + callsUntil (fun o => !isOkFalse o) p xs := by
  induction xs generalizing n with
  | nil => rfl
  | cons x xs ih =>
    simp only [seqFoldGoN, callsUntil]
    cases hp : p x with
    | ok b =>
      cases b with
      | false => simp [anyBody, isOkFalse, ih]; omega
      | true => simp [anyBody, isOkFalse]
    | throw => simp [isOkFalse]
    | panic => simp [isOkFalse]

theorem all_calls (p : α → Out Bool) (xs : List α) (n : Nat) :
    (seqFoldGoN p allBody true n xs).2 = n + callsUntil (fun o => !isOkTrue o) p xs := by
  induction xs generalizing n with
  | nil => rfl
  | cons x xs ih =>
    simp only [seqFoldGoN, callsUntil]
    cases hp : p x with
    | ok b =>
      cases b with
      | true => simp [allBody, isOkTrue, ih]; omega
      | false => simp [allBody, isOkTrue]
    | throw => simp [isOkTrue]
    | panic => simp [isOkTrue]

/-- non-vacuity: `[1, 'a'] any (> 0)` is true although `'a' > 0` raises -/
example : any (fun x : Option Nat => match x with | some n => .ok (decide (n > 0)) | none => .throw)
    [some 1, none] = .ok true := by decide


/-! ## words / trim: "runs of whitespace" means `char::is_whitespace` (Unicode `White_Space`) -/

theorem splitOnP_no_sep (p : γ → Bool) (s : List γ) : ∀ w ∈ SeqSpec.splitOnP p s, ∀ c ∈ w, p c = false := by
  induction s with
  | nil => intro w hw; simp [SeqSpec.splitOnP] at hw; subst hw; intro c hc; cases hc
  | cons x xs ih =>
    intro w hw
    simp only [SeqSpec.splitOnP] at hw
    by_cases hx : p x = true
    · simp only [hx, if_true, List.mem_cons] at hw
      rcases hw with rfl | hw
      · intro c hc; cases hc
      · exact ih w hw
    · have hx' : p x = false := by simpa using hx
      simp only [hx', Bool.false_eq_true, if_false] at hw
      cases hq : SeqSpec.splitOnP p xs with
      | nil => rw [hq] at hw; simp at hw; subst hw; intro c hc; simp at hc; subst hc; exact hx'
      | cons a b =>
        rw [hq] at hw
        rcases List.mem_cons.mp hw with rfl | hw
        · intro c hc
          rcases List.mem_cons.mp hc with rfl | hc
          · exact hx'
          · exact ih a (by rw [hq]; simp) c hc
        · exact ih w (by rw [hq]; simp [hw])

/-- every word is non-empty and contains no whitespace character -/
theorem words_pieces (p : γ → Bool) (s : List γ) :
    ∀ w ∈ words p s, w ≠ [] ∧ ∀ c ∈ w, p c = false := by
  intro w hw
  rw [words_eq] at hw
  simp only [SeqSpec.words, List.mem_filter] at hw
  exact ⟨by intro h; rw [h] at hw; simp at hw, splitOnP_no_sep p s w hw.1⟩

/-- `trim_start` removes exactly the leading whitespace run; `trim_end` the trailing one -/
theorem trimStart_spec (s : List Char) :
    s.takeWhile isWs ++ trimStart s = s ∧ (∀ c, (trimStart s).head? = some c → isWs c = false) := by
  refine ⟨List.takeWhile_append_dropWhile, ?_⟩
  intro c hc
  unfold trimStart at hc
  induction s with
  | nil => simp at hc
  | cons x xs ih =>
    simp only [List.dropWhile_cons] at hc
    by_cases hx : isWs x = true
    · simp only [hx, if_true] at hc; exact ih hc
    · have hx' : isWs x = false := by simpa using hx
      simp only [hx', Bool.false_eq_true, if_false, List.head?_cons, Option.some.injEq] at hc
      subst hc; exact hx'

theorem trimEnd_spec (s : List Char) : trimEnd s ++ (s.reverse.takeWhile isWs).reverse = s := by
  unfold trimEnd
  rw [← List.reverse_append, List.takeWhile_append_dropWhile, List.reverse_reverse]

/-- the table: the ASCII blanks 9–13, space, NEL, NBSP, the U+2000 block, line / paragraph separator,
U+3000 are whitespace; ZERO WIDTH SPACE, the BOM and U+001C are not -/
example : ([' ', '\t', '\n', '\r', '\u000b', '\u000c', '\u0085', ' ', ' ', ' ', ' ',
    ' ', ' ', ' ', ' ', '　'].all isWs) = true
    ∧ (['a', '​', '﻿', '\u001c', '᠎'].any isWs) = false := by decide


end Noulith.C13
