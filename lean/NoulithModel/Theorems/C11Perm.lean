/-
C11, part 5 — Permutations.

`Permutations::len` is a closed form in the factorial number system
(`1 + Σ_{i=1}^{n-1} i! · #{j > n-1-i : v[j] > v[n-1-i]}`); `next` is the lexicographic successor found by
a left-to-right scan.  This file proves
* the machine-word loop of `len` equals the closed form for base lists of length ≤ 20 (beyond that
  `cur *= i` overflows a `usize`);
* the reduction: *if* the successor decreases the closed form by exactly one on index vectors
  without repetition (`perm_step_statement`), *then* every reachable state of `permutations(xs)` is
  coherent (`perm_coherent_of_step`);
* a kernel-checked test of the step lemma for every index vector of length ≤ 5.
The step statement itself (`perm_step_statement`) is proved in `C11PermStep.lean` (`perm_step`), which
gives `perm_coherent` / `perm_len_is_count` without hypotheses.
-/
import NoulithModel.Theorems.C11Adapt

namespace Noulith.C11
open Noulith Noulith.Stream Noulith.StreamSpec

namespace PermT

/-! ### the `usize` loop of `Permutations::len` -/

theorem fact_pos (n : Nat) : 0 < fact n := by
  induction n with
  | zero => decide
  | succ n ih => simp only [fact]; exact Nat.mul_pos (by omega) ih

theorem fact_mono {a b : Nat} (h : a ≤ b) : fact a ≤ fact b := by
  induction h with
  | refl => exact Nat.le_refl _
  | step _ ih =>
    rename_i m _
    simp only [fact]
    have := fact_pos m
    calc fact a ≤ fact m := ih
      _ ≤ (m + 1) * fact m := Nat.le_mul_of_pos_left _ (by omega)

theorem laterLarger_le (v : List Nat) (i : Nat) : Perm.laterLarger v i ≤ i := by
  unfold Perm.laterLarger
  calc _ ≤ (List.range' (v.length - i) i).length := List.length_filter_le _ _
    _ = i := by simp

/-- the sum the loop accumulates over the indices `is` -/
def terms (v : List Nat) (is : List Nat) : Nat :=
  (is.map fun i => fact i * Perm.laterLarger v i).sum

theorem lenLoop_ok (v : List Nat) : ∀ (m k sum : Nat), 1 ≤ k →
    sum + 1 ≤ fact k → fact (k + m) ≤ 18446744073709551615 →
    Perm.lenLoop v (List.range' k m) (fact (k - 1)) sum = .ok (sum + terms v (List.range' k m) + 1) := by
  intro m
  induction m with
  | zero =>
    intro k sum _ h1 h2
    have : sum + 1 ≤ 18446744073709551615 := by simp at h2; omega
    simp [Perm.lenLoop, addUsize, terms, this]
  | succ m ih =>
    intro k sum hk h1 h2
    have hk1 : fact (k - 1) * k = fact k := by
      obtain ⟨j, rfl⟩ : ∃ j, k = j + 1 := ⟨k - 1, by omega⟩
      simp [fact, Nat.mul_comm]
    have hle : fact (k + 1) ≤ fact (k + (m + 1)) := fact_mono (by omega)
    have hfk : fact (k + 1) = (k + 1) * fact k := rfl
    have hll := laterLarger_le v k
    have hterm : fact k * Perm.laterLarger v k ≤ fact k * k := Nat.mul_le_mul_left _ hll
    have hexp : (k + 1) * fact k = fact k * k + fact k := by
      rw [Nat.add_mul, Nat.one_mul, Nat.mul_comm]
    have h3 : fact k ≤ 18446744073709551615 := by
      have := fact_mono (show k ≤ k + (m + 1) by omega); omega
    have h4 : fact k * Perm.laterLarger v k ≤ 18446744073709551615 := by omega
    have h5 : sum + fact k * Perm.laterLarger v k ≤ 18446744073709551615 := by omega
    have hrec := ih (k + 1) (sum + fact k * Perm.laterLarger v k) (by omega) (by omega)
      (by rw [show k + 1 + m = k + (m + 1) by omega]; exact h2)
    simp only [Nat.add_sub_cancel] at hrec
    simp only [List.range'_succ, Perm.lenLoop, mulUsize, addUsize, hk1, h3, h4, h5, if_true, R.bind,
      hrec, terms, List.map_cons, List.sum_cons]
    congr 1
    omega

theorem lenNat_eq_terms (v : List Nat) : Perm.lenNat v = 1 + terms v (List.range' 1 (v.length - 1)) := rfl

/-- for index vectors of length ≤ 20 the `usize` loop returns the closed form -/
theorem len_ok (v : List Nat) (hn : v.length ≤ 20) :
    Perm.lenLoop v (List.range' 1 (v.length - 1)) 1 0 = .ok (Perm.lenNat v) := by
  have h20 : fact 20 ≤ 18446744073709551615 := by decide
  have := lenLoop_ok v (v.length - 1) 1 0 (Nat.le_refl _) (by decide)
    (Nat.le_trans (fact_mono (by omega)) h20)
  simp only [Nat.sub_self, fact, Nat.zero_add] at this
  rw [this, lenNat_eq_terms]
  congr 1
  omega

/-! ### the reduction to the step lemma -/

/-- the successor decreases the closed form by exactly one, and keeps the entries distinct -/
def StepOk (v : List Nat) : Prop :=
  (∀ v', Perm.advance v = some v' → Perm.lenNat v = Perm.lenNat v' + 1 ∧ v'.Nodup ∧ v'.length = v.length) ∧
  (Perm.advance v = none → Perm.lenNat v = 1)

def cnt {α : Type} (p : Idx α) : Nat :=
  match p.idx with
  | none => 0
  | some v => Perm.lenNat v

/-- reachable states: the index vector has no repetition -/
def WF {α : Type} (p : Idx α) : Prop := ∀ v, p.idx = some v → v.Nodup

theorem unfolds_of_step (hstep : ∀ v : List Nat, v.Nodup → StepOk v) {α : Type} (p : Idx α) (hwf : WF p) :
    ∃ l, Unfolds Perm.next p l ∧ l.length = cnt p := by
  refine unfolds_of_measure (next := Perm.next) cnt WF ?_ ?_ (cnt p) p hwf rfl
  · intro s v s' hw h
    obtain ⟨base, idx⟩ := s
    cases idx with
    | none => simp [Perm.next] at h
    | some w =>
      simp only [Perm.next, Option.some.injEq, Prod.mk.injEq] at h
      obtain ⟨_, rfl⟩ := h
      have hs := hstep w (hw w rfl)
      simp only [cnt]
      cases ha : Perm.advance w with
      | none =>
        refine ⟨by intro v hv; simp at hv, ?_⟩
        simp [hs.2 ha]
      | some w' =>
        obtain ⟨e1, e2, _⟩ := hs.1 w' ha
        refine ⟨?_, by simp [e1]⟩
        intro v hv
        simp only [Option.some.injEq] at hv
        subst hv
        exact e2
  · intro s _ h
    obtain ⟨base, idx⟩ := s
    cases idx with
    | none => rfl
    | some w => simp [Perm.next] at h

theorem mk_wf {α : Type} (base : List α) : WF (Perm.mk base) := by
  intro v hv
  simp only [Perm.mk, Option.some.injEq] at hv
  subst hv
  exact List.nodup_range

theorem wf_next (hstep : ∀ v : List Nat, v.Nodup → StepOk v) {α : Type} (p : Idx α) (v : List α)
    (p' : Idx α) (hw : WF p) (h : Perm.next p = some (v, p')) : WF p' := by
  obtain ⟨base, idx⟩ := p
  cases idx with
  | none => simp [Perm.next] at h
  | some w =>
    simp only [Perm.next, Option.some.injEq, Prod.mk.injEq] at h
    obtain ⟨_, rfl⟩ := h
    intro v' hv'
    simp only at hv'
    exact ((hstep w (hw w rfl)).1 v' hv').2.1

theorem length_next (hstep : ∀ v : List Nat, v.Nodup → StepOk v) {α : Type} (p : Idx α) (v : List α)
    (p' : Idx α) (hw : WF p) (n : Nat) (hn : ∀ w, p.idx = some w → w.length = n)
    (h : Perm.next p = some (v, p')) : ∀ w, p'.idx = some w → w.length = n := by
  obtain ⟨base, idx⟩ := p
  cases idx with
  | none => simp [Perm.next] at h
  | some w =>
    simp only [Perm.next, Option.some.injEq, Prod.mk.injEq] at h
    obtain ⟨_, rfl⟩ := h
    intro v' hv'
    simp only at hv'
    rw [((hstep w (hw w rfl)).1 v' hv').2.2]
    exact hn w rfl

end PermT

/-- the successor step statement (proved as `perm_step` in C11PermStep.lean): the successor computed by
`Permutations::next` (last ascent, swap with the last larger entry, reverse the suffix) decreases
the closed form of `Permutations::len` by exactly one -/
def perm_step_statement : Prop := ∀ v : List Nat, v.Nodup → PermT.StepOk v

/-- full strength of `len_is_count` for permutations (follows from `perm_step_statement` by
`perm_coherent_of_step`) -/
def perm_len_is_count_statement : Prop :=
  ∀ (base : List Nat), base.length ≤ 20 →
    ∃ l, Coherent Perm.ops (Perm.mk base) l ∧ l.length = PermT.cnt (Perm.mk base)

theorem perm_peekNext {α : Type} : PeekNext (Perm.ops (α := α)) := by
  intro p
  obtain ⟨base, idx⟩ := p
  cases idx <;> rfl

/-- **len_is_count for `Permutations`, reduced to the step lemma**: if the successor decreases the
closed form by one, every reachable state (index vector without repetition, length ≤ 20) is
coherent with the list it unfolds to, whose length is the closed form -/
theorem perm_coherent_of_step (hstep : ∀ v : List Nat, v.Nodup → PermT.StepOk v) {α : Type}
    (p : Idx α) (hwf : PermT.WF p) (hn : ∀ v, p.idx = some v → v.length ≤ 20) :
    ∃ l, Coherent Perm.ops p l ∧ l.length = PermT.cnt p := by
  obtain ⟨l, hu, hlen⟩ := PermT.unfolds_of_step hstep p hwf
  refine ⟨l, ?_, hlen⟩
  unfold Perm.ops
  obtain ⟨base, idx⟩ := p
  refine coherent_withLen hu ⟨PermT.cnt ⟨base, idx⟩, ?_, by omega⟩ ?_ ?_
  · cases idx <;> rfl
  · cases idx with
    | none => simp [Perm.len, hlen, PermT.cnt]
    | some v =>
      simp only [Perm.len, PermT.len_ok v (hn v rfl), R.map, R.bind, hlen, PermT.cnt]
  · rw [← unfolds_head hu]
    cases idx <;> rfl

/-! ### a kernel-checked test of the step lemma for every index vector of length ≤ 5
(a test, *not* the unbounded claim) -/

/-- all successive index states from the identity until exhaustion satisfy: closed form = number of
states left -/
def permCheckFrom : Nat → Option (List Nat) → Nat → Bool
  | 0, st, left => st.isNone && left == 0
  | _ + 1, none, left => left == 0
  | fuel + 1, some v, left =>
    Perm.lenNat v == left && permCheckFrom fuel (Perm.advance v) (left - 1)

def permCheck (n : Nat) : Bool := permCheckFrom (fact n + 1) (some (List.range n)) (fact n)

theorem perm_len_is_count_upto5 : ∀ n, n ≤ 5 → permCheck n = true := by
  decide +kernel

/-- `perm_len_is_count_statement` follows from the step statement -/
theorem perm_len_is_count_of_step (h : perm_step_statement) : perm_len_is_count_statement := by
  intro base hb
  refine perm_coherent_of_step h (Perm.mk base) (PermT.mk_wf base) ?_
  intro v hv
  simp only [Perm.mk, Option.some.injEq] at hv
  subst hv
  simpa using hb

end Noulith.C11
