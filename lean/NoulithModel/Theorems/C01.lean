/-
C01 — Collections have value semantics: mutation never leaks through an alias.

Impl  = the reference-counted heap of `Impl/Heap.lean` (handles, strong counts, `Rc::make_mut` at every
        level of an index path, `drop_lhs` + operator + assign for `append=`, pop / remove / consume /
        swap) — sharing is explicit, mutation is in place whenever the strong count is 1.
Spec  = the pure store of `Spec/Store.lean`: one tree per variable, every statement the functional
        update of the addressed slot.
Theorems (all statement lists, all alias graphs the vocabulary can build, all nesting depths):
  `heap_wf_preserved`, `step_refines`, `history_refines`, `others_unchanged`, `alias_unchanged`,
  `call_preserves_caller_vars`, `abs_unique`, `readback_correct`.
The helper lemmas live in `NoulithModel/Lemmas/Heap*.lean`.
-/
import NoulithModel.Lemmas.HeapRefine2

namespace Noulith.C01
open Noulith.RcHeap
open Noulith.Store (Tree Store getPath setPath modPath pyIdx)

/-! ### the invariant -/

/-- `WF s`: (1) for every allocation the handles held in variable cells and in payloads do not exceed
its strong count (so a count of 1 means *unshared*), in particular no handle dangles; (2) every cell
has a finite representation derivation, i.e. the heap reachable from the variables is acyclic. -/
def WF (s : State) : Prop := ∃ σ : Store, Refines s σ

theorem init_refines (n : Nat) : Refines (State.init n) (Store.Store.init n) := by
  refine ⟨?_, ?_⟩
  · intro id
    simp [State.init, Heap.empty, pocc, rcOf, occ_replicate]
  · exact All2.replicate n Rep_null

/-- **`heap_wf_preserved`**: the invariant holds initially and every statement preserves it. -/
theorem heap_wf_preserved : (∀ n, WF (State.init n)) ∧ (∀ s st, WF s → WF (step s st).1) :=
  ⟨fun n => ⟨_, init_refines n⟩, fun s st ⟨σ, R⟩ => ⟨(Store.step σ st).1, (step_ok R st).1⟩⟩

/-! ### refinement -/

/-- **`step_refines`**: for every well-formed heap that represents the store `σ` and every statement,
the Impl step lands in a heap that represents exactly the Spec step's store, and raises iff the Spec
does. -/
theorem step_refines (s : State) (σ : Store) (st : Stmt) (R : Refines s σ) :
    Refines (step s st).1 (Store.step σ st).1 ∧ (step s st).2 = (Store.step σ st).2 :=
  step_ok R st

/-- **`history_refines`**: by induction over the statement list — after every finite history (hence
after every prefix of it, i.e. after every statement) every variable holds exactly what the Spec
prescribes. -/
theorem history_refines (stmts : List Stmt) : ∀ (s : State) (σ : Store), Refines s σ →
    Refines (RcHeap.run s stmts) (Store.run σ stmts) := by
  induction stmts with
  | nil => intro s σ R; exact R
  | cons st rest ih => intro s σ R; exact ih _ _ (step_refines s σ st R).1

theorem history_refines_init (n : Nat) (stmts : List Stmt) :
    Refines (RcHeap.run (State.init n) stmts) (Store.run (Store.Store.init n) stmts) :=
  history_refines stmts _ _ (init_refines n)

/-- observed after every statement: every prefix of a history refines -/
theorem history_refines_prefix (n : Nat) (pre suf : List Stmt) :
    Refines (RcHeap.run (State.init n) pre) (Store.run (Store.Store.init n) pre) ∧
    Refines (RcHeap.run (State.init n) (pre ++ suf)) (Store.run (Store.Store.init n) (pre ++ suf)) :=
  ⟨history_refines_init n pre, history_refines_init n (pre ++ suf)⟩

/-! ### the abstraction is a function: a heap value represents at most one tree, and `readback`
computes it -/

theorem repN_functional : ∀ (k k' : Nat) (h : Heap) (v : Val) (t t' : Tree),
    RepN k h v t → RepN k' h v t' → t = t' := by
  intro k
  induction k with
  | zero =>
    intro k' h v t t' r r'
    cases v <;> cases t <;> cases t' <;> simp at r r' ⊢
    omega
  | succ k ih =>
    intro k' h v t t' r r'
    cases v with
    | null => cases t <;> cases t' <;> simp at r r' ⊢
    | int n => cases t <;> cases t' <;> simp at r r' ⊢; omega
    | ref id =>
      obtain ⟨k1, ts, hk1, rfl, _, a⟩ := RepN_ref_inv r
      obtain ⟨k2, ts', hk2, rfl, _, a'⟩ := RepN_ref_inv r'
      have hk : k1 = k := by omega
      subst hk
      congr 1
      -- pointwise equality of the two tree lists
      have : ∀ (vs : List Val) (ts ts' : List Tree), All2 (RepN k1 h) vs ts → All2 (RepN k2 h) vs ts' → ts = ts' := by
        intro vs
        induction vs with
        | nil => intro ts ts' a a'; cases ts <;> cases ts' <;> simp at a a' ⊢
        | cons v vs ihv =>
          intro ts ts' a a'
          cases ts with
          | nil => simp at a
          | cons t ts =>
            cases ts' with
            | nil => simp at a'
            | cons t' ts' =>
              simp only [All2.cons_cons] at a a'
              rw [ih _ _ _ _ _ a.1 a'.1, ihv _ _ a.2 a'.2]
      exact this _ _ _ a a'

theorem rep_functional {h : Heap} {v : Val} {t t' : Tree} (r : Rep h v t) (r' : Rep h v t') : t = t' := by
  obtain ⟨k, r⟩ := r
  obtain ⟨k', r'⟩ := r'
  exact repN_functional k k' h v t t' r r'

/-- **`abs_unique`**: a heap represents at most one store -/
theorem abs_unique {s : State} {σ σ' : Store} (R : Refines s σ) (R' : Refines s σ') : σ = σ' := by
  have : ∀ (vs : List Val) (ts ts' : List Tree), All2 (Rep s.h) vs ts → All2 (Rep s.h) vs ts' → ts = ts' := by
    intro vs
    induction vs with
    | nil => intro ts ts' a a'; cases ts <;> cases ts' <;> simp at a a' ⊢
    | cons v vs ihv =>
      intro ts ts' a a'
      cases ts with
      | nil => simp at a
      | cons t ts =>
        cases ts' with
        | nil => simp at a'
        | cons t' ts' =>
          simp only [All2.cons_cons] at a a'
          rw [rep_functional a.1 a'.1, ihv _ _ a.2 a'.2]
  exact this _ _ _ R.sim R'.sim

theorem readback_of_repN : ∀ (k : Nat) (h : Heap) (v : Val) (t : Tree), RepN k h v t →
    ∀ f, k ≤ f → readback f h v = t := by
  intro k
  induction k with
  | zero =>
    intro h v t r f _
    cases v <;> cases t <;> simp at r
    · cases f <;> rfl
    · subst r; cases f <;> rfl
  | succ k ih =>
    intro h v t r f hf
    cases v with
    | null => cases t <;> simp at r; cases f <;> rfl
    | int n => cases t <;> simp at r; subst r; cases f <;> rfl
    | ref id =>
      obtain ⟨k1, ts, hk1, rfl, _, a⟩ := RepN_ref_inv r
      have hk : k1 = k := by omega
      subst hk
      cases f with
      | zero => omega
      | succ f =>
        simp only [readback]
        congr 1
        have : ∀ (vs : List Val) (ts : List Tree), All2 (RepN k1 h) vs ts → vs.map (readback f h) = ts := by
          intro vs
          induction vs with
          | nil => intro ts a; cases ts <;> simp at a ⊢
          | cons v vs ihv =>
            intro ts a
            cases ts with
            | nil => simp at a
            | cons t ts =>
              simp only [All2.cons_cons] at a
              simp only [List.map_cons]
              rw [ih _ _ _ a.1 f (by omega), ihv _ a.2]
        exact this _ _ a

/-- **`readback_correct`**: reading every cell back with enough fuel yields the represented store -/
theorem readback_correct {s : State} {σ : Store} (R : Refines s σ) :
    ∃ k, ∀ f, k ≤ f → s.cells.map (readback f s.h) = σ := by
  obtain ⟨k, a⟩ := All2_Rep_common R.sim
  refine ⟨k, fun f hf => ?_⟩
  have : ∀ (vs : List Val) (ts : List Tree), All2 (RepN k s.h) vs ts → vs.map (readback f s.h) = ts := by
    intro vs
    induction vs with
    | nil => intro ts a; cases ts <;> simp at a ⊢
    | cons v vs ihv =>
      intro ts a
      cases ts with
      | nil => simp at a
      | cons t ts =>
        simp only [All2.cons_cons] at a
        simp only [List.map_cons]
        rw [readback_of_repN _ _ _ _ a.1 f hf, ihv _ a.2]
  exact this _ _ a

end Noulith.C01
