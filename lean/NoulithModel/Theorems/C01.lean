/-
C01 — Collections have value semantics: mutation never leaks through an alias.

Impl  = the reference-counted heap of `Impl/Heap.lean` (handles, strong counts, list AND dict
        allocations, `Rc::make_mut` at every level of an index path, insertion of a new dict key at the
        last level, `drop_lhs` + operator + assign for `append=`, pop / remove / consume / swap) —
        sharing is explicit, mutation is in place whenever the strong count is 1.
Spec  = the pure store of `Spec/Store.lean`: one tree per variable, every statement the functional
        update of the addressed slot.
Theorems (all statement lists, all alias graphs the vocabulary can build, all nesting depths):
  `heap_wf_preserved`, `step_refines`, `history_refines`, `others_unchanged`, `alias_unchanged`,
  `call_preserves_caller_vars`, `abs_unique`, `readback_correct`.
The helper lemmas live in `NoulithModel/Lemmas/Heap*.lean`.
-/
import NoulithModel.Lemmas.HeapRefine2

namespace Noulith.C01
open Noulith.RcHeap
open Noulith.Store (Tree Store getPath setPath modPath pyIdx)

/-! ### the invariant -/

/-- `WF s`: (1) for every allocation the handles held in variable cells and in payloads do not exceed
its strong count (so a count of 1 means *unshared*), in particular no handle dangles; (2) every cell
has a finite representation derivation, i.e. the heap reachable from the variables is acyclic. -/
def WF (s : State) : Prop := ∃ σ : Store, Refines s σ

theorem init_refines (n : Nat) : Refines (State.init n) (Store.Store.init n) := by
  refine ⟨?_, ?_⟩
  · intro id
    simp [State.init, Heap.empty, pocc, rcOf, occ_replicate]
  · exact All2.replicate n Rep_null

/-- **`heap_wf_preserved`**: the invariant holds initially and every statement preserves it. -/
theorem heap_wf_preserved : (∀ n, WF (State.init n)) ∧ (∀ s st, WF s → WF (step s st).1) :=
  ⟨fun n => ⟨_, init_refines n⟩, fun s st ⟨σ, R⟩ => ⟨(Store.step σ st).1, (step_ok R st).1⟩⟩

/-! ### refinement -/

/-- **`step_refines`**: for every well-formed heap that represents the store `σ` and every statement,
the Impl step lands in a heap that represents exactly the Spec step's store, and raises iff the Spec
does. -/
theorem step_refines (s : State) (σ : Store) (st : Stmt) (R : Refines s σ) :
    Refines (step s st).1 (Store.step σ st).1 ∧ (step s st).2 = (Store.step σ st).2 :=
  step_ok R st

/-- **`history_refines`**: by induction over the statement list — after every finite history (hence
after every prefix of it, i.e. after every statement) every variable holds exactly what the Spec
prescribes. -/
theorem history_refines (stmts : List Stmt) : ∀ (s : State) (σ : Store), Refines s σ →
    Refines (RcHeap.run s stmts) (Store.run σ stmts) := by
  induction stmts with
  | nil => intro s σ R; exact R
  | cons st rest ih => intro s σ R; exact ih _ _ (step_refines s σ st R).1

theorem history_refines_init (n : Nat) (stmts : List Stmt) :
    Refines (RcHeap.run (State.init n) stmts) (Store.run (Store.Store.init n) stmts) :=
  history_refines stmts _ _ (init_refines n)

/-- observed after every statement: every prefix of a history refines -/
theorem history_refines_prefix (n : Nat) (pre suf : List Stmt) :
    Refines (RcHeap.run (State.init n) pre) (Store.run (Store.Store.init n) pre) ∧
    Refines (RcHeap.run (State.init n) (pre ++ suf)) (Store.run (Store.Store.init n) (pre ++ suf)) :=
  ⟨history_refines_init n pre, history_refines_init n (pre ++ suf)⟩

/-! ### the abstraction is a function: a heap value represents at most one tree, and `readback`
computes it -/

theorem Tree.cont_ext {t t' : Tree} (hc : t.isCont = true) (hc' : t'.isCont = true)
    (hk : t.keysT = t'.keysT) (hkids : t.kids = t'.kids) : t = t' := by
  cases t <;> cases t' <;> simp_all [Tree.isCont, Tree.keysT, Tree.kids]

theorem repN_functional : ∀ (k k' : Nat) (h : Heap) (v : Val) (t t' : Tree),
    RepN k h v t → RepN k' h v t' → t = t' := by
  intro k
  induction k with
  | zero =>
    intro k' h v t t' r r'
    cases v <;> simp at r r' <;> rw [r, r']
  | succ k ih =>
    intro k' h v t t' r r'
    cases v with
    | null => simp at r r'; rw [r, r']
    | int n => simp at r r'; rw [r, r']
    | ref id =>
      obtain ⟨k1, hk1, hc, _, hkk, _, a⟩ := RepN_ref_inv r
      obtain ⟨k2, hk2, hc', _, hkk', _, a'⟩ := RepN_ref_inv r'
      have hk : k1 = k := by omega
      subst hk
      refine Tree.cont_ext hc hc' (by rw [← hkk, ← hkk']) ?_
      -- pointwise equality of the two tree lists
      have : ∀ (vs : List Val) (ts ts' : List Tree), All2 (RepN k1 h) vs ts → All2 (RepN k2 h) vs ts' → ts = ts' := by
        intro vs
        induction vs with
        | nil => intro ts ts' a a'; cases ts <;> cases ts' <;> simp at a a' ⊢
        | cons v vs ihv =>
          intro ts ts' a a'
          cases ts with
          | nil => simp at a
          | cons t ts =>
            cases ts' with
            | nil => simp at a'
            | cons t' ts' =>
              simp only [All2.cons_cons] at a a'
              rw [ih _ _ _ _ _ a.1 a'.1, ihv _ _ a.2 a'.2]
      exact this _ _ _ a a'

theorem rep_functional {h : Heap} {v : Val} {t t' : Tree} (r : Rep h v t) (r' : Rep h v t') : t = t' := by
  obtain ⟨k, r⟩ := r
  obtain ⟨k', r'⟩ := r'
  exact repN_functional k k' h v t t' r r'

/-- **`abs_unique`**: a heap represents at most one store -/
theorem abs_unique {s : State} {σ σ' : Store} (R : Refines s σ) (R' : Refines s σ') : σ = σ' := by
  have : ∀ (vs : List Val) (ts ts' : List Tree), All2 (Rep s.h) vs ts → All2 (Rep s.h) vs ts' → ts = ts' := by
    intro vs
    induction vs with
    | nil => intro ts ts' a a'; cases ts <;> cases ts' <;> simp at a a' ⊢
    | cons v vs ihv =>
      intro ts ts' a a'
      cases ts with
      | nil => simp at a
      | cons t ts =>
        cases ts' with
        | nil => simp at a'
        | cons t' ts' =>
          simp only [All2.cons_cons] at a a'
          rw [rep_functional a.1 a'.1, ihv _ _ a.2 a'.2]
  exact this _ _ _ R.sim R'.sim

theorem readback_of_repN : ∀ (k : Nat) (h : Heap) (v : Val) (t : Tree), RepN k h v t →
    ∀ f, k ≤ f → readback f h v = t := by
  intro k
  induction k with
  | zero =>
    intro h v t r f _
    cases v <;> simp at r <;> subst r <;> cases f <;> rfl
  | succ k ih =>
    intro h v t r f hf
    cases v with
    | null => simp at r; subst r; cases f <;> rfl
    | int n => simp at r; subst r; cases f <;> rfl
    | ref id =>
      obtain ⟨k1, hk1, hc, _, hkk, _, a⟩ := RepN_ref_inv r
      have hk : k1 = k := by omega
      subst hk
      cases f with
      | zero => omega
      | succ f =>
        have hkids : (payloadOf h id).map (readback f h) = t.kids := by
          have : ∀ (vs : List Val) (ts : List Tree), All2 (RepN k1 h) vs ts → vs.map (readback f h) = ts := by
            intro vs
            induction vs with
            | nil => intro ts a; cases ts <;> simp at a ⊢
            | cons v vs ihv =>
              intro ts a
              cases ts with
              | nil => simp at a
              | cons t ts =>
                simp only [All2.cons_cons] at a
                simp only [List.map_cons]
                rw [ih _ _ _ a.1 f (by omega), ihv _ a.2]
          exact this _ _ a
        simp only [readback, hkk, hkids]
        cases t with
        | null => simp at hc
        | int n => simp at hc
        | list ts => rfl
        | dict ks vs => rfl

/-- **`readback_correct`**: reading every cell back with enough fuel yields the represented store -/
theorem readback_correct {s : State} {σ : Store} (R : Refines s σ) :
    ∃ k, ∀ f, k ≤ f → s.cells.map (readback f s.h) = σ := by
  obtain ⟨k, a⟩ := All2_Rep_common R.sim
  refine ⟨k, fun f hf => ?_⟩
  have : ∀ (vs : List Val) (ts : List Tree), All2 (RepN k s.h) vs ts → vs.map (readback f s.h) = ts := by
    intro vs
    induction vs with
    | nil => intro ts a; cases ts <;> simp at a ⊢
    | cons v vs ihv =>
      intro ts a
      cases ts with
      | nil => simp at a
      | cons t ts =>
        simp only [All2.cons_cons] at a
        simp only [List.map_cons]
        rw [readback_of_repN _ _ _ _ a.1 f hf, ihv _ a.2]
  exact this _ _ a

/-! ### nothing else changes -/

/-- the variables a statement may write -/
def targets : Stmt → List Nat
  | .assign x _ => [x]
  | .setIdx x _ _ => [x]
  | .append x _ _ => [x]
  | .pop y x _ => [x, y]
  | .remove y x _ _ => [x, y]
  | .consume y x _ => [x, y]
  | .swap x _ y _ => [x, y]
  | .update y _ _ _ => [y]
  | .callAppend y _ _ => [y]
  | .appendPop x _ y _ => [x, y]

theorem get_set_ne (σ : Store) (x z : Nat) (t : Tree) (h : z ≠ x) : Store.get (σ.set x t) z = Store.get σ z := by
  simp [Store.get, List.getD, List.getElem?_set_ne (Ne.symm h)]

theorem spec_extract_others (σ : Store) (φ : Store.LeafT) (y x z : Nat) (path : List Int)
    (hx : z ≠ x) (hy : z ≠ y) : Store.get (Store.extract σ φ y x path).1 z = Store.get σ z := by
  unfold Store.extract
  split
  · split
    · rfl
    · simp only [get_set_ne _ _ _ _ hy, get_set_ne _ _ _ _ hx]
  · rfl

theorem spec_appendFinish_others (σ : Store) (x z : Nat) (path : List Int) (tl tv : Tree) (hx : z ≠ x) :
    Store.get (Store.appendFinish σ x path tl tv).1 z = Store.get σ z := by
  unfold Store.appendFinish
  split <;> split <;> simp [get_set_ne _ _ _ _ hx]

/-- Spec level: a statement writes only its target variables -/
theorem spec_others_unchanged (σ : Store) (st : Stmt) (z : Nat) (hz : z ∉ targets st) :
    Store.get (Store.step σ st).1 z = Store.get σ z := by
  cases st with
  | assign x r =>
    have hx : z ≠ x := by simpa [targets] using hz
    simp only [Store.step]; split <;> simp [get_set_ne _ _ _ _ hx]
  | setIdx x path r =>
    have hx : z ≠ x := by simpa [targets] using hz
    simp only [Store.step]
    split
    · split <;> simp [get_set_ne _ _ _ _ hx]
    · rfl
  | append x path r =>
    have hx : z ≠ x := by simpa [targets] using hz
    simp only [Store.step]
    split
    · split
      · rfl
      · exact spec_appendFinish_others σ x z path _ _ hx
    · rfl
  | pop y x path =>
    have h : z ≠ x ∧ z ≠ y := by simpa [targets] using hz
    exact spec_extract_others σ _ y x z path h.1 h.2
  | remove y x path i =>
    have h : z ≠ x ∧ z ≠ y := by simpa [targets] using hz
    exact spec_extract_others σ _ y x z path h.1 h.2
  | consume y x path =>
    have h : z ≠ x ∧ z ≠ y := by simpa [targets] using hz
    exact spec_extract_others σ _ y x z path h.1 h.2
  | swap x px y py =>
    have h : z ≠ x ∧ z ≠ y := by simpa [targets] using hz
    simp only [Store.step]
    split
    · split
      · split
        · rfl
        · split <;> simp [get_set_ne _ _ _ _ h.1, get_set_ne _ _ _ _ h.2]
      · rfl
    · rfl
  | update y x i a =>
    have hy : z ≠ y := by simpa [targets] using hz
    simp only [Store.step]
    split
    · split <;> simp [get_set_ne _ _ _ _ hy]
    · rfl
  | callAppend y x a =>
    have hy : z ≠ y := by simpa [targets] using hz
    simp only [Store.step]
    split
    · split <;> simp [get_set_ne _ _ _ _ hy]
    · rfl
  | appendPop x path y ypath =>
    have h : z ≠ x ∧ z ≠ y := by simpa [targets] using hz
    simp only [Store.step]
    split
    · split
      · rfl
      · split
        · rfl
        · rw [spec_appendFinish_others _ x z path _ _ h.1, get_set_ne _ _ _ _ h.2]
    · rfl

theorem cell_rep {s : State} {σ : Store} (R : Refines s σ) (z : Nat) : Rep s.h (cellOf s z) (Store.get σ z) := by
  rcases Nat.lt_or_ge z s.cells.length with hz | hz
  · exact All2.getD z _ _ R.sim hz
  · have e1 : cellOf s z = .null := by simp [cellOf, List.getD, List.getElem?_eq_none hz]
    have e2 : Store.get σ z = .null := by
      have := R.len
      simp [Store.get, List.getD, List.getElem?_eq_none (by omega : σ.length ≤ z)]
    rw [e1, e2]; exact Rep_null

/-- **`others_unchanged`**: after any statement, every variable the statement does not address still
represents exactly the tree it represented before — whatever it shares with the mutated variable. -/
theorem others_unchanged (s : State) (σ : Store) (st : Stmt) (R : Refines s σ) (z : Nat) (hz : z ∉ targets st) :
    Rep (step s st).1.h (cellOf (step s st).1 z) (Store.get σ z) := by
  have := cell_rep (step_refines s σ st R).1 z
  rwa [spec_others_unchanged σ st z hz] at this

/-- **`alias_unchanged`** (the README promise): make `y` an alias of `x` (`y = x`, the two cells now
share one allocation), then mutate `x` by ANY statement that does not name `y`: `y` still holds the old
value of `x`. -/
theorem alias_unchanged (s : State) (σ : Store) (x y : Nat) (st : Stmt) (R : Refines s σ)
    (hy : y < s.cells.length) (hz : y ∉ targets st) :
    Rep (step (step s (.assign y (.atom (.var x)))).1 st).1.h
      (cellOf (step (step s (.assign y (.atom (.var x)))).1 st).1 y) (Store.get σ x) := by
  have R1 := (step_refines s σ (.assign y (.atom (.var x))) R).1
  have := others_unchanged _ _ st R1 y hz
  have hy' : y < σ.length := by rw [← R.len]; exact hy
  have e : Store.get (Store.step σ (.assign y (.atom (.var x)))).1 y = Store.get σ x := by
    simp [Store.step, Store.declared, hy', Store.evalRhs, Store.evalAtom, Store.get, List.getD]
  rwa [e] at this

/-- Spec level, one level of an index path: the transformed list has the same length and every
sibling of the addressed element is unchanged -/
theorem modPath_siblings (φ : Store.LeafT) (ts : List Tree) (i : Int) (rest : List Int)
    (t' r : Tree) (h : modPath φ (.list ts) (i :: rest) = some (t', r)) :
    ∃ j ts', pyIdx ts.length i = some j ∧ t' = .list ts' ∧ ts'.length = ts.length ∧
      ∀ k, k ≠ j → ts'.getD k .null = ts.getD k .null := by
  rw [modPath_list_cons] at h
  cases hp : pyIdx ts.length i with
  | none => rw [hp] at h; simp at h
  | some j =>
    rw [hp] at h
    dsimp only at h
    cases hm : modPath φ (ts.getD j .null) rest with
    | none => rw [hm] at h; simp at h
    | some tr =>
      obtain ⟨t2, r2⟩ := tr
      rw [hm] at h
      simp only [Option.some.injEq, Prod.mk.injEq] at h
      refine ⟨j, ts.set j t2, rfl, h.1.symm, by simp, fun k hk => ?_⟩
      exact getD_set_ne _ _ _ _ _ (Ne.symm hk)

/-! ### function calls leave the caller's variables alone -/

/-- any heap operation that keeps the frame of variable cells stable preserves every variable -/
theorem frame_preserves_vars {s : State} {σ : Store} {h' : Heap} (R : Refines s σ)
    (i : Inv h' s.cells) (st : Stable s.h h' s.cells) : Refines ⟨h', s.cells⟩ σ :=
  ⟨i, sim_stable (T := []) R.sim (by simpa using st)⟩

/-- **`call_preserves_caller_vars`** for the modelled "mutating-style" builtin: evaluating
`append(x, b)` (the argument is a clone of the variable's handle, so the variable keeps a reference while
the callee runs, so the callee's `make_mut` copies) leaves every variable — `x` included — unchanged,
and returns the extended list. -/
theorem call_preserves_caller_vars (s : State) (σ : Store) (x : Nat) (b : Atom) (R : Refines s σ) :
    Refines ⟨(appendOp (evalAtom s (readVar s x).1 b).1 (readVar s x).2 (evalAtom s (readVar s x).1 b).2).1, s.cells⟩ σ ∧
    (match Store.get σ x with
     | .list ts => ∃ c, (appendOp (evalAtom s (readVar s x).1 b).1 (readVar s x).2 (evalAtom s (readVar s x).1 b).2).2 = some c ∧
         Rep (appendOp (evalAtom s (readVar s x).1 b).1 (readVar s x).2 (evalAtom s (readVar s x).1 b).2).1 c
           (.list (ts ++ [Store.evalAtom σ b]))
     | _ => (appendOp (evalAtom s (readVar s x).1 b).1 (readVar s x).2 (evalAtom s (readVar s x).1 b).2).2 = none) := by
  obtain ⟨i1, e1, r1⟩ := evalAtom_spec (s := s) (T := []) (.var x) (by simpa using R.inv) R.sim
  simp only [evalAtom, Store.evalAtom] at i1 e1 r1
  have sim1 : All2 (Rep (dup s.h (cellOf s x))) s.cells σ := All2.mono (fun _ _ _ r => r.ext e1) R.sim
  obtain ⟨i2, e2, r2⟩ := evalAtom_spec (s := s) (h := dup s.h (cellOf s x)) (T := [cellOf s x]) b (by simpa using i1) sim1
  simp only [readVar]
  obtain ⟨tx, htx⟩ : ∃ tx, Store.get σ x = tx := ⟨_, rfl⟩
  rw [htx] at r1
  simp only [htx]
  have A := appendOp_spec (F := s.cells) (by simpa using i2.congr (fun k => by simp [occ_cons, occ_append]; omega))
    (r1.ext e2) r2
  have st0 : Stable s.h (evalAtom s (dup s.h (cellOf s x)) b).1 s.cells := (e1.trans e2).stable _
  cases tx with
  | null =>
    exact ⟨frame_preserves_vars R (by simpa using A.2.inv) (st0.trans A.2.stable), A.1⟩
  | int n =>
    exact ⟨frame_preserves_vars R (by simpa using A.2.inv) (st0.trans A.2.stable), A.1⟩
  | dict ks vs =>
    exact ⟨frame_preserves_vars R (by simpa using A.2.inv) (st0.trans A.2.stable), A.1⟩
  | list ts =>
    obtain ⟨c, hc, tr, rc⟩ := A
    refine ⟨frame_preserves_vars R (tr.inv.weaken (fun k => by simp [occ_cons])) (st0.trans tr.stable), c, hc, rc⟩

/-! ### non-vacuity: the README's matrix

`matrix = [[0] ** 10] ** 10; matrix[1][2] = 3` — all ten rows are handles to ONE allocation (strong
count 10 + the temporary); the assignment copies the outer list's row 1 only. -/

def readmeMatrix : List Stmt :=
  [ .assign 0 (.rep (.int 0) 10),          -- row := [0] ** 10
    .assign 1 (.rep (.var 0) 10),          -- matrix := [row] ** 10   (ten aliases of one payload)
    .setIdx 1 [1, 2] (.atom (.int 3)) ]    -- matrix[1][2] = 3

/-- the Impl really shares: after building the matrix, the row allocation has strong count 11 -/
example : rcOf (RcHeap.run (State.init 2) (readmeMatrix.take 2)).h 1 = 11 := by decide

/-- … and after the assignment only row 1 of the matrix changed (read back from the heap) -/
example : (abs (RcHeap.run (State.init 2) readmeMatrix)).map Tree.render =
    ["[0,0,0,0,0,0,0,0,0,0]",
     "[[0,0,0,0,0,0,0,0,0,0],[0,0,3,0,0,0,0,0,0,0],[0,0,0,0,0,0,0,0,0,0],[0,0,0,0,0,0,0,0,0,0],[0,0,0,0,0,0,0,0,0,0],[0,0,0,0,0,0,0,0,0,0],[0,0,0,0,0,0,0,0,0,0],[0,0,0,0,0,0,0,0,0,0],[0,0,0,0,0,0,0,0,0,0],[0,0,0,0,0,0,0,0,0,0]]"] := by
  decide +kernel

/-- the hypotheses of `step_refines` are met by that state (it is reachable), and the theorem's
conclusion is the non-trivial one: the Impl mutated a 10-fold shared payload, the Spec a plain tree -/
example : Refines (RcHeap.run (State.init 2) readmeMatrix) (Store.run (Store.Store.init 2) readmeMatrix) :=
  history_refines_init 2 readmeMatrix

/-- in-place case (count 1): no allocation is made by `x[0] = 5` on an unshared list -/
example : (RcHeap.run (State.init 1) [.assign 0 (.list [.int 1, .int 2]), .setIdx 0 [0] (.atom (.int 5))]).h.allocs.length = 1 := by
  decide

/-- order of an operator-assignment whose right-hand side mutates the same variable:
`x := [1,2,3]; x append= pop x` gives `[1,2,3,3]` — the old left-hand value is read BEFORE the pop
(reading it after the right-hand side would give `[1,2,3]`).  `step_refines` covers `.appendPop` for all
paths and alias graphs; this is the concrete instance. -/
example : (abs (RcHeap.run (State.init 1) [.assign 0 (.list [.int 1, .int 2, .int 3]), .appendPop 0 [] 0 []])).map Tree.render
    = ["[1,2,3,3]"] := by decide

/-- … and through an alias: `y = x; x append= pop y` gives x = [1,2,3,3], y = [1,2] -/
example : (abs (RcHeap.run (State.init 2)
    [.assign 0 (.list [.int 1, .int 2, .int 3]), .assign 1 (.atom (.var 0)), .appendPop 0 [] 1 []])).map Tree.render
    = ["[1,2,3,3]", "[1,2]"] := by decide

/-! ### dicts: value semantics through keys

`d = {1: 5, 2: 6}; e = d; d[3] = 7` — inserting a NEW key goes through `set_index`'s dict arm
(`make_mut` — the dict is shared with `e`, so it is copied — then `insert`); `e` keeps its two entries.
`step_refines` covers index assignment, operator-assignment, remove, consume, update through dict keys
at any depth (lists of dicts of lists …); these are concrete instances. -/

example : (abs (RcHeap.run (State.init 2)
    [.assign 0 (.dict [(1, .int 5), (2, .int 6)]), .assign 1 (.atom (.var 0)),
     .setIdx 0 [3] (.atom (.int 7)), .setIdx 0 [1] (.atom (.int 9))])).map Tree.renderRaw
    = ["{1:9,2:6,3:7}", "{1:5,2:6}"] := by decide +kernel

/-- `c = [d, e]; c[0][3] = [1]; c[0][3] append= 2; r = remove c[0][1]` with `d` still bound: only the
copy inside `c` changes -/
example : (abs (RcHeap.run (State.init 3)
    [.assign 0 (.dict [(1, .int 9), (3, .int 7)]), .assign 2 (.list [.var 0, .null]),
     .setIdx 2 [0, 3] (.list [.int 1]), .append 2 [0, 3] (.atom (.int 2)),
     .remove 1 2 [0] 1])).map Tree.renderRaw
    = ["{1:9,3:7}", "9", "[{3:[1,2]},null]"] := by decide +kernel

end Noulith.C01
