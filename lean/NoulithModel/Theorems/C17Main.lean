/-
C17 (supplement) — the property in its own words, for first-order lambda bodies: `freeze_first_order_main`.
-/
import NoulithModel.Theorems.C17Bridge
import NoulithModel.Theorems.C17

namespace Noulith.C17Main
open Noulith Noulith.Core Noulith.C17Closed Noulith.C17Frames Noulith.C17Preserve Noulith.C17Insensitive
open Noulith.C17Cut Noulith.C17Bridge

/-! ## calling a function with plain parameters -/

def plainParams (names : List String) : List Param := names.map fun x => Param.mk x none false none

theorem plain_ann (names : List String) : (plainParams names).filterMap Param.ann = [] := by
  induction names with
  | nil => rfl
  | cons x xs ih => simpa [plainParams, Param.ann] using ih

theorem plain_names (names : List String) : (plainParams names).map Param.name = names := by
  induction names with
  | nil => rfl
  | cons x xs ih => simpa [plainParams, Param.name] using ih

theorem plain_splat (names : List String) : (plainParams names).filter Param.isSplat = [] := by
  induction names with
  | nil => rfl
  | cons x xs ih => simpa [plainParams, Param.isSplat] using ih

theorem plain_any_splat (names : List String) : (plainParams names).any Param.isSplat = false := by
  induction names with
  | nil => rfl
  | cons x xs ih => simpa [plainParams, Param.isSplat] using ih

theorem plain_length (names : List String) : (plainParams names).length = names.length := by
  simp [plainParams]

theorem plain_defaults (nargs : Nat) (names : List String) : ∀ i, defaultsInPlay nargs (plainParams names) i false [] = some [] := by
  induction names with
  | nil => intro i; rfl
  | cons x xs ih =>
    intro i
    simp only [plainParams, List.map_cons, defaultsInPlay, Param.isSplat, Param.dflt, Bool.false_eq_true,
      ↓reduceIte, List.isEmpty_nil]
    exact ih (i + 1)

theorem plain_annSlots (names : List String) : ∀ sl, sl ∈ annSlots (plainParams names) [] → sl = none := by
  induction names with
  | nil => intro sl h; simp [plainParams, annSlots] at h
  | cons x xs ih =>
    intro sl h
    simp only [plainParams, List.map_cons, annSlots, Param.ann, List.mem_cons] at h
    rcases h with h | h
    · exact h
    · exact ih sl h

theorem checkBinds_none (binds : List (String × Val)) : ∀ (slots : List (Option Val)) (vars tys : List (String × Val)),
    (∀ sl, sl ∈ slots → sl = none) → checkBinds slots binds vars tys = (true, vars ++ binds, tys) := by
  induction binds with
  | nil => intro slots vars tys _; simp [checkBinds]
  | cons b rest ih =>
    intro slots vars tys h
    obtain ⟨x, v⟩ := b
    cases slots with
    | nil => simp only [checkBinds]; rw [ih [] _ _ (fun _ h => absurd h (by simp))]; simp
    | cons sl slots =>
      have : sl = none := h sl (List.mem_cons_self ..)
      subst this
      simp only [checkBinds]
      rw [ih slots _ _ (fun sl hs => h sl (List.mem_cons_of_mem _ hs))]; simp

/-- the state in which the body of a called function starts: a fresh child frame of the closure's scope
holding the parameters -/
def callFrame (cenv : Nat) (names : List String) (args : List Val) : Frame :=
  { vars := names.zip args, parent := some cenv, tys := [] }

def callState (st : State) (cenv : Nat) (names : List String) (args : List Val) : State :=
  { st with
    frames := (st.frames.push { vars := [], parent := some cenv }).setIfInBounds st.frames.size
                (callFrame cenv names args) }

/-- `Closure::run` turns the body's `return v` into the value `v` -/
def absorb : Res × State → Res × State
  | (.ret v, s) => (.val v, s)
  | r => r

theorem absorb_fst {r₁ r₂ : Res × State} (h : r₁.1 = r₂.1) : (absorb r₁).1 = (absorb r₂).1 := by
  obtain ⟨a, s1⟩ := r₁
  obtain ⟨b, s2⟩ := r₂
  simp only at h
  subst h
  cases a <;> rfl

/-- calling a closure with plain parameters and the right number of arguments runs its body in
`callState`, in the new frame, and absorbs `return` -/
theorem callVal_plain (fuel : Nat) (st : State) (env cenv : Nat) (names : List String) (body : Expr)
    (args : List Val) (hlen : args.length = names.length) :
    callVal (fuel + 2) st env (.closure (plainParams names) body cenv) args =
      absorb (eval (fuel + 1) (callState st cenv names args) st.frames.size body) := by
  have hb : bindArgs (plainParams names) args [] = some (names.zip args) := by
    simp only [bindArgs, plain_splat, List.length_nil, List.append_nil, plain_length, hlen, plain_names]
    simp
  simp only [callVal, newFrame, plain_ann, evalList, plain_defaults, plain_any_splat, plain_length, hlen,
    List.length_nil, hb]
  simp only [Bool.not_false, Bool.true_and, Nat.add_zero, bne_self_eq_false, Bool.false_eq_true, ↓reduceIte,
    Array.getElem?_push, checkBinds_none _ _ _ _ (plain_annSlots names), List.nil_append, callState, callFrame, absorb]
  rfl

/-! ## the call state -/

theorem lookupIn_zip_none (names : List String) (args : List Val) (x : String) (h : x ∉ names) :
    lookupIn (names.zip args) x = none := by
  induction names generalizing args with
  | nil => simp [lookupIn]
  | cons y ys ih =>
    cases args with
    | nil => simp [lookupIn]
    | cons a as =>
      have hy : ¬ y = x := fun e => h (e ▸ List.mem_cons_self ..)
      simp only [List.zip_cons_cons, lookupIn, hy, ↓reduceIte]
      exact ih as (fun hm => h (List.mem_cons_of_mem _ hm))

theorem lookupIn_zip_isSome (names : List String) (args : List Val) (x : String) (h : x ∈ names)
    (hlen : args.length = names.length) : (lookupIn (names.zip args) x).isSome := by
  induction names generalizing args with
  | nil => simp at h
  | cons y ys ih =>
    cases args with
    | nil => simp at hlen
    | cons a as =>
      simp only [List.zip_cons_cons, lookupIn]
      by_cases hy : y = x
      · simp [hy]
      · simp only [hy, ↓reduceIte]
        rcases List.mem_cons.mp h with h | h
        · exact absurd h.symm hy
        · exact ih as h (by simpa using hlen)

theorem callState_step (st : State) (cenv : Nat) (names : List String) (args : List Val) :
    FrameStep (newFrame st cenv).1.frames (callState st cenv names args).frames (newFrame st cenv).2 names := by
  have hfr : (newFrame st cenv).1.frames[st.frames.size]? = some { vars := [], parent := some cenv } := by
    simp [newFrame]
  refine ⟨set_extF _ _ _ _ hfr rfl (fun x hx => by simp [lookupIn] at hx),
    fun hwf => set_wf _ hwf _ _ _ hfr rfl, by simp [callState, newFrame], fun y hy k => ?_,
    fun k hk y => set_sameAt_below y _ _ _ k hk⟩
  exact set_sameAt_var y _ _ _ (callFrame cenv names args) hfr rfl
    (by simp only [callFrame, lookupIn]; exact lookupIn_zip_none names args y hy) k

theorem callState_tab (st : State) (cenv : Nat) (names : List String) (args : List Val) :
    (callState st cenv names args).frozenTab = st.frozenTab := rfl

theorem callState_frame (st : State) (cenv : Nat) (names : List String) (args : List Val) :
    (callState st cenv names args).frames[st.frames.size]? = some (callFrame cenv names args) := by
  simp [callState]

theorem callState_wf {st : State} {cenv : Nat} (names : List String) (args : List Val) (hwf : WF st)
    (hlt : cenv < st.frames.size) : WF (callState st cenv names args) :=
  (callState_step st cenv names args).wf (push_wf st.frames hwf [] cenv hlt [])

theorem callState_size (st : State) (cenv : Nat) (names : List String) (args : List Val) :
    (callState st cenv names args).frames.size = st.frames.size + 1 := by simp [callState]


/-! ## the property, for first-order lambda bodies -/

theorem plain_no_dflt (names : List String) : ∀ p, p ∈ plainParams names → p.dflt = none := by
  intro p hp
  simp only [plainParams, List.mem_map] at hp
  obtain ⟨x, _, rfl⟩ := hp
  rfl

theorem plain_no_ann (names : List String) : ∀ p, p ∈ plainParams names → p.ann = none := by
  intro p hp
  simp only [plainParams, List.mem_map] at hp
  obtain ⟨x, _, rfl⟩ := hp
  rfl

/-- `freeze \x1, …, xn -> body` evaluates to a closure over the CURRENT scope whose body is the frozen body;
the only change of the state is that the table of frozen values has grown -/
theorem eval_freeze_lambda (k : Nat) (st : State) (env : Nat) (names : List String) (body body' : Expr)
    (s3 : FState Val)
    (hfb : freezeExpr (lookOf st env) { bound := names, tab := st.frozenTab } body = .ok (body', s3)) :
    eval (k + 2) st env (.freeze (.lambda (plainParams names) body)) =
      (.val (.closure (plainParams names) body' env), { st with frozenTab := s3.tab }) := by
  rw [eval_freeze_unfold]
  have hp := Noulith.C17.freezeParams_no_defaults (lookOf st env)
    { bound := ([] : List String) ++ (plainParams names).map Param.name, tab := st.frozenTab }
    (plainParams names) (plain_no_dflt names) (plain_no_ann names)
  have hb : ([] : List String) ++ (plainParams names).map Param.name = names := by
    rw [List.nil_append, plain_names]
  rw [hb] at hp
  simp only [freezeExpr, hb, hp, hfb]
  simp only [eval]

/-- **Main theorem (first-order lambda bodies).**  Let `h` be the closure that
`freeze \x1, …, xn -> body` evaluates to in a scope that shadows no builtin, `body` satisfying the strict
side condition.  At ANY later time (state `stU`, and `stA` / `stB` below), with arguments of the right
number:

1. *freeze preserves meaning*: if the free names of the lambda still resolve to what they resolved to
   when it was frozen, `h(args)` is exactly `(\x1, …, xn -> body)(args)` — same result, same state;
2. *free variables are bound eagerly*: in two stores of the same shape (same frames, same parent links,
   same output and table) that differ ARBITRARILY in the values of all their variables — so whatever was
   assigned to the outer variables since the freeze — `h(args)` has the same result. -/
theorem freeze_first_order_main (st : State) (env : Nat) (names : List String) (body body' : Expr)
    (s3 : FState Val) (args : List Val)
    (hfb : freezeExpr (lookOf st env) { bound := names, tab := st.frozenTab } body = .ok (body', s3))
    (hst : ScopeStrict names body)
    (hb : ∀ f, f ∈ builtinNames → (st.lookup env f).isNone = true)
    (hlen : args.length = names.length) :
    -- the closure `freeze` produces
    (∀ k, eval (k + 2) st env (.freeze (.lambda (plainParams names) body)) =
      (.val (.closure (plainParams names) body' env), { st with frozenTab := s3.tab })) ∧
    -- 1. preservation
    (∀ (stU : State) (env0 fuel : Nat), WF stU → env < stU.frames.size → s3.tab <+: stU.frozenTab →
      (∀ x, x ∉ names → lookOf stU env x = lookOf st env x) →
      callVal (fuel + 2) stU env0 (.closure (plainParams names) body' env) args =
        callVal (fuel + 2) stU env0 (.closure (plainParams names) body env) args) ∧
    -- 2. insensitivity
    (∀ (stA stB : State) (env0 fuel : Nat), WF stA → WF stB → env < stA.frames.size →
      stA.frames.size = stB.frames.size →
      (∀ (i : Nat) (frA frB : Frame), stA.frames[i]? = some frA → stB.frames[i]? = some frB →
        frA.parent = frB.parent) →
      stA.out = stB.out → stA.frozenTab = stB.frozenTab → s3.tab <+: stA.frozenTab →
      (callVal (fuel + 2) stA env0 (.closure (plainParams names) body' env) args).1 =
        (callVal (fuel + 2) stB env0 (.closure (plainParams names) body' env) args).1) := by
  have hB : HBuiltins (lookOf st env) := hbuiltins_lookOf st env hb
  refine ⟨fun k => eval_freeze_lambda k st env names body body' s3 hfb, ?_, ?_⟩
  · intro stU env0 fuel hwf hlt htab hun
    rw [callVal_plain fuel stU env0 env names body' args hlen, callVal_plain fuel stU env0 env names body args hlen]
    have hpU : Pre (lookOf st env) names stU env := ⟨hwf, hlt, fun x hx => hun x hx⟩
    have hpC := pre_clone (bI := names) hpU (callState_step stU env names args) (fun _ h => h) (fun _ h => h)
    rw [freeze_preserves_first_order (lookOf st env) hB { bound := names, tab := st.frozenTab } s3 body body'
      (callState stU env names args) stU.frames.size (fuel + 1) hfb (scopeStrict_scopeOK hst) hpC.wf hpC.lt
      hpC.agree htab]
  · intro stA stB env0 fuel hwfA hwfB hltA hsz hpar hout htabEq htab
    have hltB : env < stB.frames.size := hsz ▸ hltA
    rw [callVal_plain fuel stA env0 env names body' args hlen, callVal_plain fuel stB env0 env names body' args hlen]
    apply absorb_fst
    obtain ⟨S', hS'⟩ := Option.isSome_iff_exists.mp
      (freeze_output_local hB { bound := names, tab := st.frozenTab } s3 body body' s3.tab hfb hst
        (List.prefix_refl _))
    have hsure : ∀ (stX : State), Sure names (callState stX env names args) stX.frames.size stX.frames.size :=
      fun stX x hx => ⟨stX.frames.size, callFrame env names args, .here _, Nat.le_refl _,
        callState_frame stX env names args, lookupIn_zip_isSome names args x hx hlen⟩
    have hcut : cut stA.frames.size (callState stA env names args) = cut stA.frames.size (callState stB env names args) := by
      apply cut_eq_of_agree
      · rw [callState_size, callState_size, hsz]
      · intro i hi
        rcases Nat.lt_or_ge stA.frames.size i with h | h
        · rw [Array.getElem?_eq_none (by rw [callState_size]; omega),
            Array.getElem?_eq_none (by rw [callState_size]; omega)]
        · have : i = stA.frames.size := by omega
          subst this
          rw [callState_frame]
          have := callState_frame stB env names args
          rw [← hsz] at this
          rw [this]
      · intro i fr₁ fr₂ hi h1 h2
        have e1 : (callState stA env names args).frames[i]? = stA.frames[i]? := by
          simp [callState, Array.getElem?_setIfInBounds, Array.getElem?_push, Nat.ne_of_gt hi, Nat.ne_of_lt hi]
        have e2 : (callState stB env names args).frames[i]? = stB.frames[i]? := by
          have hi' : i < stB.frames.size := hsz ▸ hi
          simp [callState, Array.getElem?_setIfInBounds, Array.getElem?_push, Nat.ne_of_gt hi', Nat.ne_of_lt hi']
        rw [e1] at h1
        rw [e2] at h2
        exact hpar i fr₁ fr₂ h1 h2
      · exact hout
      · exact htabEq
    have h := frozen_code_insensitive s3.tab stA.frames.size names S' body' (callState stA env names args)
      (callState stB env names args) stA.frames.size (fuel + 1) hS' (callState_wf names args hwfA hltA)
      (callState_wf names args hwfB hltB) (Nat.le_refl _) (by rw [callState_size]; omega)
      (by rw [callState_size, ← hsz]; omega) (hsure stA) (by rw [hsz]; exact hsure stB) htab
      (by rw [callState_tab, ← htabEq]; exact htab) hcut
    rw [← hsz]
    exact h.1

/-! ## non-vacuity -/

section Examples

/-- `t := a * o; (for (i <- [1, 2]) (t = t + i * o)); [t, len([o])]` -/
def lamBody : Expr :=
  .seq [
    .declare (.ident "t") (.op "*" (.ident "a") (.ident "o")),
    .for_ [.iter .normal (.ident "i") (.list [.int 1, .int 2])]
      (.exec (.assign "t" (.op "+" (.ident "t") (.op "*" (.ident "i") (.ident "o"))))),
    .list [.ident "t", .call (.ident "len") [.list [.ident "o"]]]] false

example : ScopeStrict ["a"] lamBody := by decide

/-- the hypotheses of `freeze_first_order_main` are satisfiable: in the scope `o = 5`, for the argument `2` -/
example : ∃ body' s3, freezeExpr (lookOf C17Preserve.stO 0) { bound := ["a"], tab := [] } lamBody = .ok (body', s3) ∧
    ∀ k, eval (k + 2) C17Preserve.stO 0 (.freeze (.lambda (plainParams ["a"]) lamBody)) =
      (.val (.closure (plainParams ["a"]) body' 0), { C17Preserve.stO with frozenTab := s3.tab }) := by
  obtain ⟨body', s3, h⟩ := (freeze_succeeds_iff (lookOf C17Preserve.stO 0) { bound := ["a"], tab := [] } lamBody).mpr
    (by decide +kernel)
  exact ⟨body', s3, h, (freeze_first_order_main C17Preserve.stO 0 ["a"] lamBody body' s3 [.int 2] h (by decide) (by decide) rfl).1⟩

/-- the whole story as one program (kernel-evaluated):
`o := 5; h := freeze \a -> body; g := \a -> body; r1 := h(2); u1 := g(2); o = 99; [r1, u1, h(2), g(2)]`
— frozen = unfrozen while `o` is unchanged, the frozen function does not notice the reassignment, the
unfrozen one does -/
example :
    (runProgram 80 (.seq [
        .declare (.ident "o") (.int 5),
        .declare (.ident "h") (.freeze (.lambda (plainParams ["a"]) lamBody)),
        .declare (.ident "g") (.lambda (plainParams ["a"]) lamBody),
        .declare (.ident "r1") (.call (.ident "h") [.int 2]),
        .declare (.ident "u1") (.call (.ident "g") [.int 2]),
        .assign "o" (.int 99),
        .list [.ident "r1", .ident "u1", .call (.ident "h") [.int 2], .call (.ident "g") [.int 2]]] false)).1
      matches .val (.list [.list [.int 25, .int 1], .list [.int 25, .int 1], .list [.int 25, .int 1],
        .list [.int 495, .int 1]]) := by decide +kernel

end Examples

end Noulith.C17Main
