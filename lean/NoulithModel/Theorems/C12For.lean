/-
C12 — patterns in `for` clauses: the pattern is evaluated for every element.

* `assign_declare_tail`: a declaring binding writes only to the innermost frame (so a refused
  element leaves nothing behind once its scope is dropped);
* `for_eq_spec`: the interpreter's loop (`forClauses`) = the documented fold (`specClauses`);
* `for_pattern_evaluated_per_element`, `for_empty_iteratee`: the unfolding law itself;
* `hoisting_is_observable`: evaluating the pattern once per loop is a different function.
-/
import NoulithModel.Theorems.C12
import NoulithModel.Spec.MatchFor

namespace Noulith.C12

/-! ## A declaring binding stays in its frame -/

theorem insertDeclare_tail (e : Env) (x : Nat) (T : Ty) (v : Val) :
    (insertDeclare e x T v).1.tail = e.tail := by
  unfold insertDeclare Env.insert
  repeat' split
  all_goals simp

theorem stepItems_tail (t : Env) (r : Env × Out Unit) (k : Env → Env × Out Unit)
    (h : r.1.tail = t) (hk : ∀ e', e'.tail = t → (k e').1.tail = t) : (stepItems r k).1.tail = t := by
  obtain ⟨e', o⟩ := r
  cases o with
  | ok u => exact hk e' h
  | throw => exact h
  | panic => exact h

theorem arranged_tail (t e : Env) (ss : List Pat) (rt' : Option Ty) (n : Nat) (items : List Val)
    (he : e.tail = t) (ih : ∀ arr : List Val, (assignItems e ss rt' arr).1.tail = t) :
    (match arrange ss n items with
      | .ok arranged => assignItems e ss rt' arranged
      | .throw => (e, .throw)
      | .panic => (e, .panic)).1.tail = t := by
  cases arrange ss n items with
  | ok arr => exact ih arr
  | throw => exact he
  | panic => exact he

mutual
/-- **a declaring `assign` (some declared-type context) never writes outside the innermost
frame**, whether it completes or raises -/
theorem assign_declare_tail (t : Env) : ∀ (p : Pat) (T : Ty) (v : Val) (e : Env), e.tail = t →
    (assign e p (some T) v).1.tail = t
  | .underscore, T, v, e, he => by
      unfold assign
      simp only []
      cases isType T v with
      | ok b => cases b <;> exact he
      | throw => exact he
      | panic => exact he
  | .ident x ixs, T, v, e, he => by
      unfold assign
      cases ixs with
      | nil => simp only []; rw [insertDeclare_tail]; exact he
      | cons i is => exact he
  | .anno s ann, T, v, e, he => by
      unfold assign
      cases ann with
      | none => exact assign_declare_tail t s _ v e he
      | some a =>
        simp only []
        cases toType a with
        | ok ty => exact assign_declare_tail t s _ v e he
        | throw => exact he
        | panic => exact he
  | .withDefault s _, T, v, e, he => by
      unfold assign; exact assign_declare_tail t s T v e he
  | .seq ss d, T, v, e, he => by
      have fin : ∀ T' : Ty, (match patLen v, seqItems v with
            | some len, some items =>
              (match arrange ss len items with
               | .ok arranged => assignItems e ss (some T') arranged
               | .throw => (e, .throw)
               | .panic => (e, .panic))
            | _, _ => (e, .throw)).1.tail = t := by
        intro T'
        split
        · exact arranged_tail t e ss _ _ _ he (fun arr => assignItems_declare_tail t ss T' arr e he)
        · exact he
      unfold assign
      cases d with
      | false => simp only [Bool.false_eq_true, if_false]; exact fin T
      | true =>
        cases hty : isType T v with
        | ok b =>
          cases b with
          | true => simp only [hty, if_true]; exact fin _
          | false => simp only [hty]; exact he
        | throw => simp only [hty]; exact he
        | panic => simp only [hty]; exact he
  | .splat _, _, _, e, he => by unfold assign; exact he
  | .or a b, T, v, e, he => by
      unfold assign
      have ha := assign_declare_tail t a T v e he
      rcases hr : assign e a (some T) v with ⟨e', o⟩
      rw [hr] at ha
      cases o with
      | ok u => exact ha
      | throw => exact assign_declare_tail t b T v e' ha
      | panic => exact ha
  | .and a b, T, v, e, he => by
      unfold assign
      have ha := assign_declare_tail t a T v e he
      rcases hr : assign e a (some T) v with ⟨e', o⟩
      rw [hr] at ha
      cases o with
      | ok u => exact assign_declare_tail t b T v e' ha
      | throw => exact ha
      | panic => exact ha
  | .lit l, _, v, e, he => by unfold assign; split <;> exact he
  | .destr f args, T, v, e, he => by
      unfold assign
      cases destructure f v (args.map knownOf) with
      | ok res =>
        simp only []
        split
        · exact arranged_tail t e args _ _ _ he (fun arr => assignItems_declare_tail t args T arr e he)
        · exact he
      | throw => exact he
      | panic => exact he
  | .destrStruct sid args, T, v, e, he => by
      unfold assign
      cases v with
      | inst sid' fields =>
        simp only []
        split
        · exact arranged_tail t e args _ _ _ he (fun arr => assignItems_declare_tail t args T arr e he)
        · exact he
      | _ => exact he
theorem assignItems_declare_tail (t : Env) : ∀ (ps : List Pat) (T : Ty) (vs : List Val) (e : Env),
    e.tail = t → (assignItems e ps (some T) vs).1.tail = t
  | [], T, vs, e, he => by rw [assignItems_nil]; exact he
  | _ :: _, _, [], e, he => by rw [assignItems_cons_nil]; exact he
  | p :: ps, T, v :: vs, e, he => by
      have rest : ∀ e', e'.tail = t → (assignItems e' ps (some T) vs).1.tail = t :=
        fun e' he' => assignItems_declare_tail t ps T vs e' he'
      cases p with
      | splat inner =>
        rw [assignItems_splat]
        exact stepItems_tail t _ _ (assign_declare_tail t inner T v e he) rest
      | anno q ann =>
        cases q with
        | splat inner =>
          rw [assignItems_annoSplat]
          apply stepItems_tail t _ _ _ rest
          cases ann with
          | none => exact assign_declare_tail t inner _ v e he
          | some a =>
            simp only []
            cases toType a with
            | ok ty => exact assign_declare_tail t inner _ v e he
            | throw => exact he
            | panic => exact he
        | _ =>
          rw [assignItems_other _ _ _ _ _ _ (by simp [isSplatItem])]
          exact stepItems_tail t _ _ (assign_declare_tail t _ T v e he) rest
      | _ =>
        rw [assignItems_other _ _ _ _ _ _ (by simp [isSplatItem])]
        exact stepItems_tail t _ _ (assign_declare_tail t _ T v e he) rest
end

/-! ## What `eval_lvalue` yields for a `for` pattern -/

mutual
/-- no `or` can come out of a `for` pattern, so the transactional reference applies -/
theorem evalU_orClean : ∀ (u : UPat) (e e1 : Env) (q : Pat), evalU e u = (e1, .ok q) → orClean q = true
  | .underscore, e, e1, q, h => by
      simp only [evalU, Prod.mk.injEq, Out.ok.injEq] at h; rw [← h.2]; rfl
  | .ident x, e, e1, q, h => by
      simp only [evalU, Prod.mk.injEq, Out.ok.injEq] at h; rw [← h.2]; rfl
  | .anno p t, e, e1, q, h => by
      unfold evalU at h
      rcases hp : evalU e p with ⟨e', o⟩
      rw [hp] at h
      cases o with
      | ok q' =>
        simp only [] at h
        rcases ht : evalPE e' t with ⟨e'', ov⟩
        rw [ht] at h
        cases ov with
        | ok v =>
          simp only [Prod.mk.injEq, Out.ok.injEq] at h
          rw [← h.2]; simp only [orClean]; exact evalU_orClean p e e' q' hp
        | throw => simp at h
        | panic => simp at h
      | throw => simp at h
      | panic => simp at h
  | .seq ps d, e, e1, q, h => by
      unfold evalU at h
      rcases hp : evalUs e ps with ⟨e', o⟩
      rw [hp] at h
      cases o with
      | ok qs =>
        simp only [Prod.mk.injEq, Out.ok.injEq] at h
        rw [← h.2]; simp only [orClean]; exact evalUs_orClean ps e e' qs hp
      | throw => simp at h
      | panic => simp at h
  | .splat p, e, e1, q, h => by
      unfold evalU at h
      rcases hp : evalU e p with ⟨e', o⟩
      rw [hp] at h
      cases o with
      | ok q' =>
        simp only [Prod.mk.injEq, Out.ok.injEq] at h
        rw [← h.2]; simp only [orClean]; exact evalU_orClean p e e' q' hp
      | throw => simp at h
      | panic => simp at h
  | .call f args, e, e1, q, h => by
      unfold evalU at h
      rcases hf : evalPE e f with ⟨e', ov⟩
      rw [hf] at h
      cases ov with
      | ok fv =>
        simp only [] at h
        cases hc : calleeOf fv with
        | none => simp [hc] at h
        | some c =>
          rcases ha : evalUs e' args with ⟨e'', o⟩
          cases c with
          | inl b =>
            simp only [hc, ha] at h
            cases o with
            | ok qs =>
              simp only [Prod.mk.injEq, Out.ok.injEq] at h
              rw [← h.2]; simp only [orClean]; exact evalUs_orClean args e' e'' qs ha
            | throw => simp at h
            | panic => simp at h
          | inr sid =>
            simp only [hc, ha] at h
            cases o with
            | ok qs =>
              simp only [Prod.mk.injEq, Out.ok.injEq] at h
              rw [← h.2]; simp only [orClean]; exact evalUs_orClean args e' e'' qs ha
            | throw => simp at h
            | panic => simp at h
      | throw => simp at h
      | panic => simp at h
theorem evalUs_orClean : ∀ (us : List UPat) (e e1 : Env) (qs : List Pat),
    evalUs e us = (e1, .ok qs) → orCleanL qs = true
  | [], e, e1, qs, h => by
      simp only [evalUs, Prod.mk.injEq, Out.ok.injEq] at h; rw [← h.2]; rfl
  | u :: us, e, e1, qs, h => by
      unfold evalUs at h
      rcases hp : evalU e u with ⟨e', o⟩
      rw [hp] at h
      cases o with
      | ok q =>
        simp only [] at h
        rcases hr : evalUs e' us with ⟨e'', o2⟩
        rw [hr] at h
        cases o2 with
        | ok qs' =>
          simp only [Prod.mk.injEq, Out.ok.injEq] at h
          rw [← h.2]; simp only [orCleanL, Bool.and_eq_true]
          exact ⟨evalU_orClean u e e' q hp, evalUs_orClean us e' e'' qs' hr⟩
        | throw => simp at h
        | panic => simp at h
      | throw => simp at h
      | panic => simp at h
end

/-! ## The loop is the documented fold -/

/-- **the unfolding law**: the first element is bound to the pattern as evaluated *now* (in a fresh
child frame of the current environment); the remaining elements are handled by the same law in the
environment the first iteration leaves behind — so for them the pattern is evaluated again. -/
theorem for_pattern_evaluated_per_element (k : Env → Env × Out Unit) (pat : UPat) (e : Env)
    (x : Val) (xs : List Val) :
    forItems k pat e (x :: xs) =
      match evalU ([] :: e) pat with
      | (e1, .ok p) =>
        (match assign e1 p (some .any) x with
         | (e2, .ok ()) =>
           (match k e2 with
            | (e3, .ok ()) => forItems k pat e3.tail xs
            | (e3, o) => (e3.tail, o))
         | (e2, o) => (e2.tail, o))
      | (e1, .throw) => (e1.tail, .throw)
      | (e1, .panic) => (e1.tail, .panic) := by
  rw [forItems, forElement]
  rcases evalU ([] :: e) pat with ⟨e1, o⟩
  cases o with
  | ok p =>
    simp only []
    rcases assign e1 p (some .any) x with ⟨e2, o2⟩
    cases o2 with
    | ok u =>
      simp only []
      rcases k e2 with ⟨e3, o3⟩
      cases o3 <;> rfl
    | throw => rfl
    | panic => rfl
  | throw => rfl
  | panic => rfl

/-- an empty iteratee evaluates nothing of the pattern: no side effect, no raise -/
theorem for_empty_iteratee (k : Env → Env × Out Unit) (pat : UPat) (e : Env) :
    forItems k pat e [] = (e, .ok ()) := rfl

theorem okB_ok (e : Env) : okB (e, .ok ()) = (e, true) := rfl
theorem okB_throw (e : Env) : okB (e, .throw) = (e, false) := rfl
theorem okB_panic (e : Env) : okB (e, .panic) = (e, false) := rfl

/-- one element: interpreter = reference -/
theorem forElement_eq_spec (k : Env → Env × Out Unit) (k' : Env → Env × Bool)
    (hk : ∀ e, okB (k e) = k' e) (pat : UPat) (e : Env) (x : Val) :
    okB (forElement k pat e x) = specElement k' pat e x := by
  unfold forElement specElement
  rcases hu : evalU ([] :: e) pat with ⟨e1, o⟩
  cases o with
  | ok p =>
    simp only []
    have hc := evalU_orClean pat _ _ _ hu
    have hs := assign_eq_spec e1 p (some .any) x hc
    cases hsp : specAssign e1 p (some .any) x with
    | some e2 =>
      rw [hs.1 e2 hsp]
      simp only []
      rw [← hk e2]
      rcases k e2 with ⟨e3, o3⟩
      cases o3 <;> rfl
    | none =>
      have ht := hs.2 hsp
      have htl := assign_declare_tail e1.tail p .any x e1 rfl
      rcases ha : assign e1 p (some .any) x with ⟨e2, o2⟩
      rw [ha] at ht htl
      simp only [] at ht htl
      subst ht
      simp only [okB, htl]
  | throw => rfl
  | panic => rfl

theorem specItems_nil (k' : Env → Env × Bool) (pat : UPat) (e : Env) :
    specItems k' pat e [] = (e, true) := rfl

theorem specItems_stuck (k' : Env → Env × Bool) (pat : UPat) (e : Env) (xs : List Val) :
    xs.foldl (fun st x => if st.2 then specElement k' pat st.1 x else st) (e, false) = (e, false) := by
  induction xs with
  | nil => rfl
  | cons x xs ih => simpa [List.foldl] using ih

theorem specItems_cons (k' : Env → Env × Bool) (pat : UPat) (e : Env) (x : Val) (xs : List Val) :
    specItems k' pat e (x :: xs) =
      (if (specElement k' pat e x).2 then specItems k' pat (specElement k' pat e x).1 xs
       else specElement k' pat e x) := by
  unfold specItems
  simp only [List.foldl, if_true]
  rcases specElement k' pat e x with ⟨e1, b⟩
  cases b with
  | true => rfl
  | false => simpa using specItems_stuck k' pat e1 xs

theorem forItems_eq_spec (k : Env → Env × Out Unit) (k' : Env → Env × Bool)
    (hk : ∀ e, okB (k e) = k' e) (pat : UPat) : ∀ (xs : List Val) (e : Env),
    okB (forItems k pat e xs) = specItems k' pat e xs
  | [], e => rfl
  | x :: xs, e => by
      rw [specItems_cons, ← forElement_eq_spec k k' hk pat e x, forItems]
      rcases forElement k pat e x with ⟨e1, o⟩
      cases o with
      | ok u => simp only [okB, if_true]; exact forItems_eq_spec k k' hk pat xs e1
      | throw => simp [okB]
      | panic => simp [okB]

/-- **`for_eq_spec`**: for every body, every list of `<-` / `<<-` clauses and every environment the
interpreter's loop is the documented one: same completion, same environment afterwards (also when
an element is refused or a pattern expression raises half-way). -/
theorem for_eq_spec (body : List BStmt) : ∀ (cs : List Clause) (e : Env),
    okB (forClauses body cs e) = specClauses body cs e
  | [], e => rfl
  | c :: cs, e => by
      unfold forClauses specClauses
      cases evalIter e c.iter with
      | ok v =>
        simp only []
        cases clauseItems c.item v with
        | some items =>
          exact forItems_eq_spec _ _ (fun e' => for_eq_spec body cs e') c.pat items e
        | none => rfl
      | throw => rfl
      | panic => rfl


/-! ## Evaluating the pattern once per loop is a different function -/

/-- `ts := [int, str]; i := 0; n := 0; r := []` -/
def forDemoEnv : Env :=
  [[{ name := 0, ty := .any, val := .list [] }, { name := 1, ty := .any, val := .int 0 },
    { name := 2, ty := .any, val := .int 0 },
    { name := 3, ty := .any, val := .list [.type .int, .type .string] }]]

/-- the body `(i += 1; r append= x)` -/
def forDemoBody (e : Env) : Env × Out Unit :=
  runBody e [.stmt (.opAssign (.ident 1 []) .plus (.int 1)), .log 0 10]

/-- `x: ts[i]` -/
def forDemoPat : UPat := .anno (.ident 10) (.index 3 1)

/-- `x: t()` with `t := \ -> (n += 1; int)` -/
def forDemoCounted : UPat := .anno (.ident 10) (.counted 2 (.const (.type .int)))

/-- **`hoisting_is_observable`**: `for (x: ts[i] <- [1, 'a']) (i += 1; r append= x)` completes
when the annotation is evaluated for every element (1 is an int, 'a' is a str) and raises when the
pattern is evaluated once before the loop ('a' is not an int). -/
theorem hoisting_is_observable :
    (forItems forDemoBody forDemoPat forDemoEnv [.int 1, .str [97]]).2 = .ok () ∧
    (forClauseHoisted forDemoBody forDemoPat forDemoEnv [.int 1, .str [97]]).2 = .throw := by
  decide +kernel

/-- the converse direction: `[1, 2]` has to be refused at its second element (2 is not a str), and
the once-per-loop form accepts it -/
theorem hoisting_accepts_wrong_type :
    (forItems forDemoBody forDemoPat forDemoEnv [.int 1, .int 2]).2 = .throw ∧
    (forClauseHoisted forDemoBody forDemoPat forDemoEnv [.int 1, .int 2]).2 = .ok () := by
  decide +kernel

/-- the annotation expression runs once per binding: three elements, three calls; no element, no
call (the once-per-loop form calls it once in both cases) -/
theorem annotation_runs_once_per_binding :
    (((forItems (fun e => (e, .ok ())) forDemoCounted forDemoEnv [.int 1, .int 2, .int 3]).1.get? 2).map
        fun c => c.val matches .int 3) = some true ∧
    (((forItems (fun e => (e, .ok ())) forDemoCounted forDemoEnv []).1.get? 2).map
        fun c => c.val matches .int 0) = some true ∧
    (((forClauseHoisted (fun e => (e, .ok ())) forDemoCounted forDemoEnv []).1.get? 2).map
        fun c => c.val matches .int 1) = some true := by
  decide +kernel


end Noulith.C12
