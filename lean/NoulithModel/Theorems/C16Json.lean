/-
C16, JSON text layer — the hypothesis `h_text` of `C16.json_value_roundtrip` replaced by a model.

`Impl/JsonText.lean` models serde_json's compact writer (`writeJson`), its `Map` (`mapOfList`,
`canonJ`) and its parser (`parseJson`, with the recursion limit of 128).  Here:

* `parseStrBody_escapeStr`  — the parser undoes the writer's string escaping, every string;
* `parseNumber_posInt/negInt` — integers are read back exactly (u64 / i64 classification);
* `json_text_roundtrip` — `parseJson (writeJson j) = some j` for every `Value` whose numbers are in
  range, whose objects are sorted maps and whose nesting is below the parser's limit;
* `json_value_roundtrip_text` — `json_decode(json_encode(v)) == v` through the TEXT for JSON-shaped
  values (no text-layer hypothesis any more);
* floats: the writer's and parser's float conversions stay parameters (`FloatText`); the only
  hypothesis is `FloatOK`: the parser reads back the float the writer wrote.
-/
import NoulithModel.Theorems.C16
import NoulithModel.Impl.JsonText

namespace Noulith.C16
open Noulith Noulith.Codec Noulith.CodecSpec

/-! ## 1. strings: the parser undoes the writer's escaping -/

theorem psb_plain (c : Nat) (tail s r : Str) (h32 : ¬ c < 32) (h34 : c ≠ 34) (h92 : c ≠ 92)
    (ht : parseStrBody tail = some (s, r)) : parseStrBody (c :: tail) = some (c :: s, r) := by
  rw [parseStrBody.eq_def]
  simp only [h34, h32, h92, if_false, ht]

theorem psb_quote (tail : Str) : parseStrBody (34 :: tail) = some ([], tail) := by
  rw [parseStrBody.eq_def]; simp

theorem psb_esc (e x : Nat) (tail s r : Str) (he : e ≠ 117)
    (hd : (if e = 34 then some 34 else if e = 92 then some 92 else if e = 47 then some 47
            else if e = 98 then some 8 else if e = 102 then some 12 else if e = 110 then some 10
            else if e = 114 then some 13 else if e = 116 then some 9 else none) = some x)
    (ht : parseStrBody tail = some (s, r)) :
    parseStrBody (92 :: e :: tail) = some (x :: s, r) := by
  rw [parseStrBody.eq_def]
  simp only [he, if_false, hd, ht]
  simp

theorem psb_u (a b c d n : Nat) (tail s r : Str) (hh : hex4 a b c d = some n)
    (hn : n < 55296) (ht : parseStrBody tail = some (s, r)) :
    parseStrBody (92 :: 117 :: a :: b :: c :: d :: tail) = some (n :: s, r) := by
  rw [parseStrBody.eq_def]
  have h1 : ¬ (56320 ≤ n ∧ n ≤ 57343) := by omega
  have h2 : ¬ (55296 ≤ n ∧ n ≤ 56319) := by omega
  simp only [if_true, hh, h1, h2, if_false, ht]
  simp

theorem hex4_control (c : Nat) (h : c < 32) : hex4 48 48 (digitChar (c / 16)) (digitChar (c % 16)) = some c := by
  unfold hex4
  have h0 : hexVal 48 = some 0 := by decide
  have h1 := hexVal_hexNibble (show c / 16 < 16 by omega)
  have h2 := hexVal_hexNibble (show c % 16 < 16 by omega)
  unfold hexNibble at h1 h2
  simp only [h0, h1, h2, Option.some.injEq]
  omega

/-- one character: whatever the writer emits for it, the parser turns back into it -/
theorem psb_escapeChar (c : Nat) (tail s r : Str) (ht : parseStrBody tail = some (s, r)) :
    parseStrBody (escapeChar c ++ tail) = some (c :: s, r) := by
  unfold escapeChar
  by_cases h1 : c = 34
  · subst h1; simp only [if_true, List.cons_append, List.nil_append]
    exact psb_esc 34 34 tail s r (by decide) (by decide) ht
  by_cases h2 : c = 92
  · subst h2; simp only [h1, if_false, if_true, List.cons_append, List.nil_append]
    exact psb_esc 92 92 tail s r (by decide) (by decide) ht
  by_cases h3 : c = 8
  · subst h3; simp only [h1, h2, if_false, if_true, List.cons_append, List.nil_append]
    exact psb_esc 98 8 tail s r (by decide) (by decide) ht
  by_cases h4 : c = 12
  · subst h4; simp only [h1, h2, h3, if_false, if_true, List.cons_append, List.nil_append]
    exact psb_esc 102 12 tail s r (by decide) (by decide) ht
  by_cases h5 : c = 10
  · subst h5; simp only [h1, h2, h3, h4, if_false, if_true, List.cons_append, List.nil_append]
    exact psb_esc 110 10 tail s r (by decide) (by decide) ht
  by_cases h6 : c = 13
  · subst h6; simp only [h1, h2, h3, h4, h5, if_false, if_true, List.cons_append, List.nil_append]
    exact psb_esc 114 13 tail s r (by decide) (by decide) ht
  by_cases h7 : c = 9
  · subst h7; simp only [h1, h2, h3, h4, h5, h6, if_false, if_true, List.cons_append, List.nil_append]
    exact psb_esc 116 9 tail s r (by decide) (by decide) ht
  by_cases h8 : c < 32
  · simp only [h1, h2, h3, h4, h5, h6, h7, h8, if_false, if_true, List.cons_append, List.nil_append]
    exact psb_u 48 48 _ _ c tail s r (hex4_control c h8) (by omega) ht
  · simp only [h1, h2, h3, h4, h5, h6, h7, h8, if_false, List.cons_append, List.nil_append]
    exact psb_plain c tail s r h8 h1 h2 ht

/-- **strings round-trip through the text**: for EVERY string (control characters, quotes,
backslashes, DEL, non-ASCII, astral characters), parsing the writer's escaped contents up to the
closing quote gives the string back and stops right after the quote -/
theorem parseStrBody_escapeStr (s rest : Str) : parseStrBody (escapeStr s ++ 34 :: rest) = some (s, rest) := by
  induction s with
  | nil => exact psb_quote rest
  | cons c t ih =>
    simp only [escapeStr, List.append_assoc]
    exact psb_escapeChar c _ t rest ih

theorem parseStr_writeStr (s rest : Str) :
    ∃ tail, writeStr s ++ rest = 34 :: tail ∧ parseStrBody tail = some (s, rest) := by
  refine ⟨escapeStr s ++ 34 :: rest, ?_, parseStrBody_escapeStr s rest⟩
  simp [writeStr]

/-! ## 2. `serde_json::Map`: inserting the members of a sorted object in order rebuilds it -/

theorem strLt_irrefl : ∀ s : Str, strLt s s = false
  | [] => rfl
  | a :: t => by simp [strLt, strLt_irrefl t]

theorem strLt_asymm : ∀ s t : Str, strLt s t = true → strLt t s = false
  | [], [], h => by simp [strLt] at h
  | [], _ :: _, _ => rfl
  | _ :: _, [], h => by simp [strLt] at h
  | a :: s, b :: t, h => by
    simp only [strLt, Bool.or_eq_true, decide_eq_true_eq, Bool.and_eq_true, beq_iff_eq] at h
    simp only [strLt, Bool.or_eq_false_iff, decide_eq_false_iff_not, Bool.and_eq_false_iff]
    rcases h with h | ⟨h1, h2⟩
    · exact ⟨by omega, Or.inl (by simp; omega)⟩
    · subst h1
      exact ⟨by omega, Or.inr (strLt_asymm s t h2)⟩

/-- keys strictly increasing -/
def KeysSorted {α : Type} : List (Str × α) → Prop
  | [] => True
  | (k, _) :: rest => (∀ p ∈ rest, strLt k p.1 = true) ∧ KeysSorted rest

theorem mapInsert_append {α : Type} (k : Str) (v : α) : ∀ (m : List (Str × α)),
    (∀ p ∈ m, strLt p.1 k = true) → mapInsert k v m = m ++ [(k, v)] := by
  intro m
  induction m with
  | nil => intro _; rfl
  | cons p t ih =>
    intro h
    obtain ⟨k', v'⟩ := p
    have hk : strLt k' k = true := h (k', v') (by simp)
    have h1 : strLt k k' = false := strLt_asymm k' k hk
    have h2 : ¬ k = k' := by
      intro e; subst e; rw [strLt_irrefl] at hk; cases hk
    simp only [mapInsert, h1, Bool.false_eq_true, if_false, h2, List.cons_append]
    rw [ih (fun q hq => h q (by simp [hq]))]

theorem foldl_mapInsert_sorted {α : Type} : ∀ (suf pre : List (Str × α)),
    (∀ p ∈ pre, ∀ q ∈ suf, strLt p.1 q.1 = true) → KeysSorted suf →
    suf.foldl (fun m kv => mapInsert kv.1 kv.2 m) pre = pre ++ suf := by
  intro suf
  induction suf with
  | nil => intro pre _ _; simp
  | cons q t ih =>
    intro pre hps hs
    obtain ⟨k, v⟩ := q
    simp only [List.foldl_cons]
    rw [mapInsert_append k v pre (fun p hp => hps p hp (k, v) (by simp))]
    rw [ih (pre ++ [(k, v)]) ?_ hs.2]
    · simp
    · intro p hp q hq
      rw [List.mem_append] at hp
      rcases hp with hp | hp
      · exact hps p hp q (by simp [hq])
      · simp at hp; subst hp; exact hs.1 q hq

/-- a sorted object is its own map -/
theorem mapOfList_sorted {α : Type} (kvs : List (Str × α)) (h : KeysSorted kvs) : mapOfList kvs = kvs := by
  unfold mapOfList
  have := foldl_mapInsert_sorted kvs [] (by simp) h
  simpa using this

/-! ## 3. numbers -/

/-- what may follow a value inside JSON text written by the compact writer: nothing, `,`, `]` or `}` -/
def Delim (rest : Str) : Prop := rest = [] ∨ ∃ c r, rest = c :: r ∧ (c = 44 ∨ c = 93 ∨ c = 125)

theorem takeDigits_digitText (ds : List Nat) (rest : Str) (h : ∀ x ∈ ds, x < 10) (hd : Delim rest) :
    takeDigits (digitText ds ++ rest) = (digitText ds, rest) := by
  induction ds with
  | nil =>
    simp only [digitText, List.map_nil, List.nil_append]
    rcases hd with hd | ⟨c, r, hd, hc⟩
    · subst hd; rfl
    · subst hd
      have : isAsciiDigit c = false := by simp [isAsciiDigit]; omega
      simp [takeDigits, this]
  | cons d t ih =>
    have hd0 : d < 10 := h d (by simp)
    have ih' := ih (fun x hx => h x (by simp [hx]))
    simp only [digitText, List.map_cons, List.cons_append] at ih' ⊢
    have : isAsciiDigit (48 + d) = true := by simp [isAsciiDigit]; omega
    simp only [takeDigits, this, if_true, ih', Prod.map]
    rfl

theorem decVal_digitText_aux (ds : List Nat) (acc : Nat) :
    (digitText ds).foldl (fun acc c => 10 * acc + (c - 48)) acc = ds.foldl (fun acc d => 10 * acc + d) acc := by
  induction ds generalizing acc with
  | nil => rfl
  | cons d t ih =>
    simp only [digitText, List.map_cons, List.foldl_cons] at ih ⊢
    rw [ih]; congr 2; omega

theorem decVal_digitText (ds : List Nat) : decVal (digitText ds) = ofDigits 10 ds :=
  decVal_digitText_aux ds 0

theorem natRadix10_eq (n : Nat) : natRadix false 10 n = digitText (digits 10 n) := by
  rw [natRadix_eq_spec (by decide), showNat10_eq_digitText]

theorem scanFrac_delim (rest : Str) (hd : Delim rest) : scanFrac rest = some ([], rest) := by
  rcases hd with hd | ⟨c, r, hd, hc⟩
  · subst hd; rfl
  · subst hd
    have : ¬ c = 46 := by omega
    simp [scanFrac, this]

theorem scanExp_delim (rest : Str) (hd : Delim rest) : scanExp rest = some ([], rest) := by
  rcases hd with hd | ⟨c, r, hd, hc⟩
  · subst hd; rfl
  · subst hd
    have : ¬ (c = 101 ∨ c = 69) := by omega
    simp [scanExp, this]

theorem delim_no_digit (rest : Str) (hd : Delim rest) : headIsDigit rest = false := by
  rcases hd with hd | ⟨c, r, hd, hc⟩
  · subst hd; rfl
  · subst hd; simp [headIsDigit, isAsciiDigit]; omega

/-- the integer part of a number token written in decimal: scanned whole, with its value -/
theorem scanInt_digits (n : Nat) (rest : Str) (hd : Delim rest) :
    ∃ c cs, digitText (digits 10 n) ++ rest = c :: cs ∧ isAsciiDigit c = true ∧ c ≠ 45 ∧
      scanInt c cs = some (digitText (digits 10 n), rest) := by
  rcases Nat.eq_zero_or_pos n with h0 | h0
  · subst h0
    refine ⟨48, rest, ?_, by decide, by decide, ?_⟩
    · rw [digits_small (by decide)]; rfl
    · rw [digits_small (by decide)]
      simp only [scanInt, if_true, delim_no_digit rest hd, Bool.false_eq_true, if_false]
      rfl
  · obtain ⟨d, t, e, hpos⟩ := digits_head (by decide : 2 ≤ 10) n h0
    have hlt := digits_lt (by decide : 2 ≤ 10) n
    rw [e] at hlt ⊢
    have hd10 : d < 10 := hlt d (by simp)
    refine ⟨48 + d, digitText t ++ rest, by simp [digitText], by simp [isAsciiDigit]; omega, by omega, ?_⟩
    have : ¬ (48 + d = 48) := by omega
    simp only [scanInt, this, if_false, takeDigits_digitText t rest (fun x hx => hlt x (by simp [hx])) hd]
    simp [digitText]

/-- **unsigned integers**: `write_u64` then `parse_any_number` is the identity on every `u64` -/
theorem parseNumber_posInt (ft : FloatText) (n : Nat) (rest : Str) (hn : n ≤ 18446744073709551615)
    (hd : Delim rest) : parseNumber ft (natRadix false 10 n ++ rest) = some (.posInt n, rest) := by
  rw [natRadix10_eq]
  obtain ⟨c, cs, e, hdig, hc45, hip⟩ := scanInt_digits n rest hd
  unfold parseNumber
  rw [e]
  have hneg : startsWith 45 (c :: cs) = false := by simp [startsWith, hc45]
  simp only [hneg, Bool.false_eq_true, if_false, hdig, Bool.not_true, hip, scanFrac_delim rest hd,
    scanExp_delim rest hd, decVal_digitText, ofDigits_digits (by decide : 2 ≤ 10)]
  simp [hn]

/-- **negative integers**: `write_i64` then `parse_any_number` is the identity on −2^63..−1 -/
theorem parseNumber_negInt (ft : FloatText) (v : Int) (rest : Str) (h1 : v < 0) (h2 : -9223372036854775808 ≤ v)
    (hd : Delim rest) : parseNumber ft (45 :: natRadix false 10 v.natAbs ++ rest) = some (.negInt v, rest) := by
  rw [natRadix10_eq]
  obtain ⟨c, cs, e, hdig, hc45, hip⟩ := scanInt_digits v.natAbs rest hd
  have e' : 45 :: digitText (digits 10 v.natAbs) ++ rest = 45 :: c :: cs := by
    rw [← e]; rfl
  rw [e']
  unfold parseNumber
  have hneg : startsWith 45 (45 :: c :: cs) = true := by simp [startsWith]
  simp only [hneg, if_true, List.tail_cons, hdig, Bool.not_true, Bool.false_eq_true, if_false, hip,
    scanFrac_delim rest hd, scanExp_delim rest hd, decVal_digitText, ofDigits_digits (by decide : 2 ≤ 10)]
  have a : 1 ≤ v.natAbs ∧ v.natAbs ≤ 9223372036854775808 := by omega
  have b : (-(v.natAbs : Int)) = v := by omega
  simp [a, b]

/-- the float hypothesis, the only thing assumed about the external float text functions: a finite
float written by the writer and followed by a delimiter is read back by the parser as that float
(it is a number token with a fraction or an exponent, and the decimal-to-binary conversion inverts
the shortest-round-trip formatting) -/
def FloatOK (ft : FloatText) : Prop :=
  ∀ (f : F64) (rest : Str), f.finite = true → Delim rest → parseNumber ft (ft.fmt f ++ rest) = some (.float f, rest)

theorem parseNumber_none_of_delim (ft : FloatText) (rest : Str) (hd : Delim rest) : parseNumber ft rest = none := by
  rcases hd with hd | ⟨c, r, hd, hc⟩
  · subst hd; rfl
  · subst hd
    have h45 : startsWith 45 (c :: r) = false := by simp [startsWith]; omega
    have hdg : isAsciiDigit c = false := by simp [isAsciiDigit]; omega
    unfold parseNumber
    simp [h45, hdg]

/-- under `FloatOK` the float text starts with `-` or a digit (so `deserialize_any` dispatches to
the number parser) -/
theorem floatText_head (ft : FloatText) (hft : FloatOK ft) (f : F64) (hf : f.finite = true) :
    ∃ c cs, ft.fmt f = c :: cs ∧ (c = 45 ∨ isAsciiDigit c = true) := by
  have h := hft f [] hf (Or.inl rfl)
  cases hx : ft.fmt f with
  | nil =>
    rw [hx] at h; simp [parseNumber] at h
  | cons c cs =>
    refine ⟨c, cs, rfl, ?_⟩
    by_cases h45 : c = 45
    · exact Or.inl h45
    · right
      rw [hx] at h
      cases hdg : isAsciiDigit c with
      | true => rfl
      | false =>
        have hs : startsWith 45 (c :: cs) = false := by simp [startsWith, h45]
        unfold parseNumber at h
        simp [hs, hdg] at h

/-! ## 4. values -/

mutual
/-- nesting of arrays / objects -/
def jdepth : JV → Nat
  | .arr xs => 1 + jdepths xs
  | .obj kvs => 1 + jdepthKVs kvs
  | _ => 0
def jdepths : List JV → Nat
  | [] => 0
  | x :: xs => max (jdepth x) (jdepths xs)
def jdepthKVs : List (Str × JV) → Nat
  | [] => 0
  | (_, x) :: xs => max (jdepth x) (jdepthKVs xs)
end

mutual
/-- recursion fuel the model parser needs for the text of a value -/
def need : JV → Nat
  | .arr xs => 1 + needs xs
  | .obj kvs => 1 + needKVs kvs
  | _ => 1
def needs : List JV → Nat
  | [] => 0
  | x :: xs => 1 + need x + needs xs
def needKVs : List (Str × JV) → Nat
  | [] => 0
  | (_, x) :: xs => 1 + need x + needKVs xs
end

/-- a `serde_json::Number` as the crate can hold it: `PosInt` is a u64, `NegInt` a negative i64,
`Float` is finite -/
def JNumOK : JNum → Prop
  | .posInt n => n ≤ 18446744073709551615
  | .negInt v => v < 0 ∧ -9223372036854775808 ≤ v
  | .float f => f.finite = true

mutual
/-- a `serde_json::Value` as the crate can hold it: numbers in range, objects are sorted maps -/
def JWF : JV → Prop
  | .num n => JNumOK n
  | .arr xs => JWFs xs
  | .obj kvs => KeysSorted kvs ∧ JWFKVs kvs
  | _ => True
def JWFs : List JV → Prop
  | [] => True
  | x :: xs => JWF x ∧ JWFs xs
def JWFKVs : List (Str × JV) → Prop
  | [] => True
  | (_, x) :: xs => JWF x ∧ JWFKVs xs
end

theorem skipWs_nonws (c : Nat) (r : Str) (h : isJsonWs c = false) : skipWs (c :: r) = c :: r := by
  simp [skipWs, h]

/-- dispatch of `deserialize_any` on a number -/
theorem parseValue_number (ft : FloatText) (fuel depth c : Nat) (cs rest : Str) (n : JNum)
    (hc : c = 45 ∨ isAsciiDigit c = true) (hp : parseNumber ft (c :: cs) = some (n, rest)) :
    parseValue ft (fuel + 1) depth (c :: cs) = some (.num n, rest) := by
  have hr : c = 45 ∨ (48 ≤ c ∧ c ≤ 57) := by
    rcases hc with h | h
    · exact Or.inl h
    · right; simpa [isAsciiDigit] using h
  have hws : isJsonWs c = false := by simp [isJsonWs]; omega
  rw [parseValue, skipWs_nonws c cs hws]
  have a1 : ¬ c = 110 := by omega
  have a2 : ¬ c = 116 := by omega
  have a3 : ¬ c = 102 := by omega
  have a4 : ¬ c = 34 := by omega
  simp only [a1, a2, a3, a4, if_false, hc, if_true, hp, Option.map_some]

/-- every written value starts with a character that is not white space and not a closing bracket -/
theorem writeJson_head (ft : FloatText) (hft : FloatOK ft) (j : JV) (hj : JWF j) :
    ∃ c cs, writeJson ft j = c :: cs ∧ isJsonWs c = false ∧ c ≠ 93 ∧ c ≠ 125 := by
  cases j with
  | null => exact ⟨110, _, rfl, by decide, by decide, by decide⟩
  | bool b => cases b <;> exact ⟨_, _, rfl, by decide, by decide, by decide⟩
  | str s => exact ⟨34, _, rfl, by decide, by decide, by decide⟩
  | arr xs => exact ⟨91, _, rfl, by decide, by decide, by decide⟩
  | obj kvs => exact ⟨123, _, rfl, by decide, by decide, by decide⟩
  | num n =>
    cases n with
    | posInt n =>
      obtain ⟨c, cs, e, hd, _, _⟩ := scanInt_digits n [] (Or.inl rfl)
      simp only [List.append_nil] at e
      have hr : 48 ≤ c ∧ c ≤ 57 := by simpa [isAsciiDigit] using hd
      refine ⟨c, cs, by simp only [writeJson, writeNum]; rw [natRadix10_eq, e], by simp [isJsonWs]; omega, by omega, by omega⟩
    | negInt v => exact ⟨45, _, rfl, by decide, by decide, by decide⟩
    | float f =>
      obtain ⟨c, cs, e, hc⟩ := floatText_head ft hft f hj
      have hr : c = 45 ∨ (48 ≤ c ∧ c ≤ 57) := by
        rcases hc with h | h
        · exact Or.inl h
        · right; simpa [isAsciiDigit] using h
      exact ⟨c, cs, by simp only [writeJson, writeNum]; exact e, by simp [isJsonWs]; omega, by omega, by omega⟩

theorem writeStr_cons (s : Str) : writeStr s = 34 :: (escapeStr s ++ [34]) := rfl

mutual
/-- the parser reads back a written value and stops exactly behind it -/
theorem parseValue_write (ft : FloatText) (hft : FloatOK ft) : ∀ (j : JV), JWF j →
    ∀ (fuel depth : Nat) (rest : Str), need j ≤ fuel → jdepth j < depth → Delim rest →
    parseValue ft fuel depth (writeJson ft j ++ rest) = some (j, rest)
  | .null, _, fuel, depth, rest, hf, _, _ => by
    cases fuel with
    | zero => simp [need] at hf
    | succ fuel => simp [writeJson, parseValue, skipWs, isJsonWs, parseIdent]
  | .bool true, _, fuel, depth, rest, hf, _, _ => by
    cases fuel with
    | zero => simp [need] at hf
    | succ fuel => simp [writeJson, parseValue, skipWs, isJsonWs, parseIdent]
  | .bool false, _, fuel, depth, rest, hf, _, _ => by
    cases fuel with
    | zero => simp [need] at hf
    | succ fuel => simp [writeJson, parseValue, skipWs, isJsonWs, parseIdent]
  | .str s, _, fuel, depth, rest, hf, _, _ => by
    cases fuel with
    | zero => simp [need] at hf
    | succ fuel =>
      simp only [writeJson, writeStr_cons, List.cons_append, List.append_assoc]
      rw [parseValue, skipWs_nonws 34 _ (by decide)]
      simp [parseStrBody_escapeStr]
  | .num (.posInt n), hj, fuel, depth, rest, hf, _, hd => by
    cases fuel with
    | zero => simp [need] at hf
    | succ fuel =>
      have hp := parseNumber_posInt ft n rest hj hd
      obtain ⟨c, cs, e, hdig, _, _⟩ := scanInt_digits n rest hd
      simp only [writeJson, writeNum]
      rw [natRadix10_eq] at hp ⊢
      rw [e] at hp ⊢
      exact parseValue_number ft fuel depth c cs rest _ (Or.inr hdig) hp
  | .num (.negInt v), hj, fuel, depth, rest, hf, _, hd => by
    cases fuel with
    | zero => simp [need] at hf
    | succ fuel =>
      have hp := parseNumber_negInt ft v rest hj.1 hj.2 hd
      simp only [writeJson, writeNum]
      exact parseValue_number ft fuel depth 45 _ rest _ (Or.inl rfl) hp
  | .num (.float f), hj, fuel, depth, rest, hf, _, hd => by
    cases fuel with
    | zero => simp [need] at hf
    | succ fuel =>
      have hp := hft f rest hj hd
      obtain ⟨c, cs, e, hc⟩ := floatText_head ft hft f hj
      simp only [writeJson, writeNum]
      rw [e] at hp ⊢
      exact parseValue_number ft fuel depth c _ rest _ hc hp
  | .arr [], _, fuel, depth, rest, hf, hdp, _ => by
    cases fuel with
    | zero => simp [need] at hf
    | succ fuel =>
      simp only [jdepth, jdepths] at hdp
      have hd1 : ¬ depth ≤ 1 := by omega
      simp only [writeJson, writeElems, List.nil_append, List.cons_append]
      rw [parseValue, skipWs_nonws 91 _ (by decide)]
      simp [hd1, skipWs, isJsonWs, isAsciiDigit]
  | .arr (x :: xs), hj, fuel, depth, rest, hf, hdp, hd => by
    cases fuel with
    | zero => simp [need] at hf
    | succ fuel =>
      simp only [jdepth] at hdp
      simp only [need] at hf
      have hd1 : ¬ depth ≤ 1 := by omega
      have ih := parseElems_write ft hft (x :: xs) (by simp) hj fuel (depth - 1) rest (by omega) (by omega) hd
      obtain ⟨c, cs, e, hws, h93, _⟩ := writeJson_head ft hft x hj.1
      have hhead : ∃ tl, writeElems ft (x :: xs) ++ 93 :: rest = c :: tl := by
        cases xs with
        | nil => exact ⟨cs ++ 93 :: rest, by simp [writeElems, e]⟩
        | cons y t => exact ⟨cs ++ 44 :: writeElems ft (y :: t) ++ 93 :: rest, by simp [writeElems, e]⟩
      obtain ⟨tl, etl⟩ := hhead
      have hx : writeJson ft (.arr (x :: xs)) ++ rest = 91 :: c :: tl := by
        simp only [writeJson, List.cons_append, List.append_assoc, List.cons.injEq, true_and]
        rw [← etl]; simp
      rw [hx, parseValue, skipWs_nonws 91 _ (by decide)]
      rw [etl] at ih
      simp [hd1, skipWs_nonws c tl hws, h93, ih, isAsciiDigit]
  | .obj [], _, fuel, depth, rest, hf, hdp, _ => by
    cases fuel with
    | zero => simp [need] at hf
    | succ fuel =>
      simp only [jdepth, jdepthKVs] at hdp
      have hd1 : ¬ depth ≤ 1 := by omega
      simp only [writeJson, writeMembers, List.nil_append, List.cons_append]
      rw [parseValue, skipWs_nonws 123 _ (by decide)]
      simp [hd1, skipWs, isJsonWs, isAsciiDigit]
  | .obj (kv :: kvs), hj, fuel, depth, rest, hf, hdp, hd => by
    cases fuel with
    | zero => simp [need] at hf
    | succ fuel =>
      simp only [jdepth] at hdp
      simp only [need] at hf
      have hd1 : ¬ depth ≤ 1 := by omega
      have ih := parseMembers_write ft hft (kv :: kvs) (by simp) hj.2 fuel (depth - 1) rest (by omega) (by omega) hd
      obtain ⟨k, x⟩ := kv
      have hhead : ∃ tl, writeMembers ft ((k, x) :: kvs) ++ 125 :: rest = 34 :: tl := by
        cases kvs with
        | nil => exact ⟨_, by simp [writeMembers, writeStr_cons]; rfl⟩
        | cons y t => obtain ⟨k2, y2⟩ := y; exact ⟨_, by simp [writeMembers, writeStr_cons]; rfl⟩
      obtain ⟨tl, etl⟩ := hhead
      have hx : writeJson ft (.obj ((k, x) :: kvs)) ++ rest = 123 :: 34 :: tl := by
        simp only [writeJson, List.cons_append, List.append_assoc, List.cons.injEq, true_and]
        rw [← etl]; simp
      rw [hx, parseValue, skipWs_nonws 123 _ (by decide)]
      rw [etl] at ih
      simp [hd1, skipWs_nonws 34 tl (by decide), ih, mapOfList_sorted _ hj.1, isAsciiDigit]
/-- … a non-empty element list up to the closing bracket -/
theorem parseElems_write (ft : FloatText) (hft : FloatOK ft) : ∀ (xs : List JV), xs ≠ [] → JWFs xs →
    ∀ (fuel depth : Nat) (rest : Str), needs xs ≤ fuel → jdepths xs < depth → Delim rest →
    parseElems ft fuel depth (writeElems ft xs ++ 93 :: rest) = some (xs, rest)
  | [], hne, _, _, _, _, _, _, _ => absurd rfl hne
  | [x], _, hj, fuel, depth, rest, hf, hdp, hd => by
    cases fuel with
    | zero => simp [needs] at hf
    | succ fuel =>
      simp only [needs] at hf
      simp only [jdepths] at hdp
      have ih := parseValue_write ft hft x hj.1 fuel depth (93 :: rest) (by omega) (by omega)
        (Or.inr ⟨93, rest, rfl, by decide⟩)
      simp only [writeElems]
      rw [parseElems, ih]
      simp [skipWs, isJsonWs]
  | x :: y :: t, _, hj, fuel, depth, rest, hf, hdp, hd => by
    cases fuel with
    | zero => simp [needs] at hf
    | succ fuel =>
      simp only [needs] at hf
      simp only [jdepths] at hdp
      have ih1 := parseValue_write ft hft x hj.1 fuel depth (44 :: (writeElems ft (y :: t) ++ 93 :: rest))
        (by omega) (by omega) (Or.inr ⟨44, _, rfl, by decide⟩)
      have ih2 := parseElems_write ft hft (y :: t) (by simp) hj.2 fuel depth rest
        (by simp only [needs]; omega) (by simp only [jdepths]; omega) hd
      simp only [writeElems, List.append_assoc, List.cons_append]
      rw [parseElems, ih1]
      simp [skipWs, isJsonWs, ih2]
/-- … a non-empty member list up to the closing brace, members in text order -/
theorem parseMembers_write (ft : FloatText) (hft : FloatOK ft) : ∀ (kvs : List (Str × JV)), kvs ≠ [] → JWFKVs kvs →
    ∀ (fuel depth : Nat) (rest : Str), needKVs kvs ≤ fuel → jdepthKVs kvs < depth → Delim rest →
    parseMembers ft fuel depth (writeMembers ft kvs ++ 125 :: rest) = some (kvs, rest)
  | [], hne, _, _, _, _, _, _, _ => absurd rfl hne
  | [(k, x)], _, hj, fuel, depth, rest, hf, hdp, hd => by
    cases fuel with
    | zero => simp [needKVs] at hf
    | succ fuel =>
      simp only [needKVs] at hf
      simp only [jdepthKVs] at hdp
      have ih := parseValue_write ft hft x hj.1 fuel depth (125 :: rest) (by omega) (by omega)
        (Or.inr ⟨125, rest, rfl, by decide⟩)
      simp only [writeMembers, writeStr_cons, List.cons_append, List.append_assoc]
      rw [parseMembers, skipWs_nonws 34 _ (by decide)]
      simp [parseStrBody_escapeStr, skipWs, isJsonWs, ih]
  | (k, x) :: y :: t, _, hj, fuel, depth, rest, hf, hdp, hd => by
    cases fuel with
    | zero => simp [needKVs] at hf
    | succ fuel =>
      simp only [needKVs] at hf
      simp only [jdepthKVs] at hdp
      have ih1 := parseValue_write ft hft x hj.1 fuel depth (44 :: (writeMembers ft (y :: t) ++ 125 :: rest))
        (by omega) (by omega) (Or.inr ⟨44, _, rfl, by decide⟩)
      have ih2 := parseMembers_write ft hft (y :: t) (by simp) hj.2 fuel depth rest
        (by obtain ⟨k2, y2⟩ := y; simp only [needKVs] at hf ⊢; omega)
        (by obtain ⟨k2, y2⟩ := y; simp only [jdepthKVs] at hdp ⊢; omega) hd
      simp only [writeMembers, writeStr_cons, List.cons_append, List.append_assoc]
      rw [parseMembers, skipWs_nonws 34 _ (by decide)]
      simp [parseStrBody_escapeStr, skipWs, isJsonWs, ih1, ih2]
end

/-! ## 5. the whole text -/

mutual
theorem need_le (ft : FloatText) : ∀ j : JV, need j ≤ 2 * (writeJson ft j).length + 1
  | .null => by simp [need]
  | .bool _ => by simp [need]
  | .num _ => by simp [need]
  | .str _ => by simp [need]
  | .arr xs => by
    have := needs_le ft xs
    simp only [need, writeJson, List.length_cons, List.length_append, List.length_nil]
    omega
  | .obj kvs => by
    have := needKVs_le ft kvs
    simp only [need, writeJson, List.length_cons, List.length_append, List.length_nil]
    omega
theorem needs_le (ft : FloatText) : ∀ xs : List JV, needs xs ≤ 2 * (writeElems ft xs).length + 2
  | [] => by simp [needs]
  | [x] => by
    have := need_le ft x
    simp only [needs, writeElems]; omega
  | x :: y :: t => by
    have h1 := need_le ft x
    have h2 := needs_le ft (y :: t)
    simp only [needs, writeElems, List.length_append, List.length_cons] at h2 ⊢
    omega
theorem needKVs_le (ft : FloatText) : ∀ kvs : List (Str × JV), needKVs kvs ≤ 2 * (writeMembers ft kvs).length + 2
  | [] => by simp [needKVs]
  | [(k, x)] => by
    have := need_le ft x
    simp only [needKVs, writeMembers, List.length_append, List.length_cons]; omega
  | (k, x) :: y :: t => by
    have h1 := need_le ft x
    have h2 := needKVs_le ft (y :: t)
    obtain ⟨k2, y2⟩ := y
    simp only [needKVs, writeMembers, List.length_append, List.length_cons] at h2 ⊢
    omega
end

/-- **json_text_roundtrip**: serde_json's parser reads back what its compact writer writes —
`parseJson (writeJson j) = some j` — for EVERY value the crate can hold (numbers in range, objects
as sorted maps, strings arbitrary) nested less than 128 deep (the parser's recursion limit; the
writer has none — finding F31).  The only hypothesis about external code is `FloatOK`. -/
theorem json_text_roundtrip (ft : FloatText) (hft : FloatOK ft) (j : JV) (hj : JWF j) (hd : jdepth j ≤ 127) :
    parseJson ft (writeJson ft j) = some j := by
  unfold parseJson
  have h := parseValue_write ft hft j hj (2 * (writeJson ft j).length + 2) 128 []
    (by have := need_le ft j; omega) (by omega) (Or.inl rfl)
  simp only [List.append_nil] at h
  rw [h]
  simp [skipWs]

/-- the recursion limit is real: the text of a value nested 128 deep is NOT read back (witness:
128 nested empty arrays would need `remaining_depth` to go below 1) -/
theorem parseValue_depth_limit (ft : FloatText) (fuel : Nat) (s : Str) :
    parseValue ft fuel 1 (91 :: s) = none := by
  cases fuel with
  | zero => rfl
  | succ fuel =>
    rw [parseValue, skipWs_nonws 91 _ (by decide)]
    simp [isAsciiDigit]

/-! ## 6. `serde_json::Map` in general: any member order, duplicates -/

theorem strLt_trans : ∀ a b c : Str, strLt a b = true → strLt b c = true → strLt a c = true
  | [], [], _, h, _ => by simp [strLt] at h
  | [], _ :: _, [], _, h => by simp [strLt] at h
  | [], _ :: _, _ :: _, _, _ => rfl
  | _ :: _, [], _, h, _ => by simp [strLt] at h
  | _ :: _, _ :: _, [], _, h => by simp [strLt] at h
  | x :: a, y :: b, z :: c, h1, h2 => by
    simp only [strLt, Bool.or_eq_true, decide_eq_true_eq, Bool.and_eq_true, beq_iff_eq] at h1 h2 ⊢
    rcases h1 with h1 | ⟨e1, h1⟩ <;> rcases h2 with h2 | ⟨e2, h2⟩
    · left; omega
    · left; omega
    · left; omega
    · right; exact ⟨by omega, strLt_trans a b c h1 h2⟩

theorem strLt_total : ∀ a b : Str, strLt a b = false → a ≠ b → strLt b a = true
  | [], [], _, h => absurd rfl h
  | [], _ :: _, h, _ => by simp [strLt] at h
  | _ :: _, [], _, _ => rfl
  | x :: a, y :: b, h, hne => by
    simp only [strLt, Bool.or_eq_false_iff, decide_eq_false_iff_not, Bool.and_eq_false_iff] at h
    simp only [strLt, Bool.or_eq_true, decide_eq_true_eq, Bool.and_eq_true, beq_iff_eq]
    obtain ⟨h1, h2⟩ := h
    by_cases hxy : x = y
    · subst hxy
      right
      refine ⟨rfl, strLt_total a b ?_ (fun e => hne (by rw [e]))⟩
      rcases h2 with h2 | h2
      · simp at h2
      · exact h2
    · left; omega

theorem mem_mapInsert {α : Type} (k : Str) (v : α) : ∀ (m : List (Str × α)) (p : Str × α),
    p ∈ mapInsert k v m → p = (k, v) ∨ p ∈ m := by
  intro m
  induction m with
  | nil => intro p h; simp [mapInsert] at h; exact Or.inl h
  | cons q t ih =>
    intro p h
    obtain ⟨k', v'⟩ := q
    simp only [mapInsert] at h
    split at h
    · simp only [List.mem_cons] at h ⊢
      rcases h with h | h | h
      · exact Or.inl h
      · exact Or.inr (Or.inl h)
      · exact Or.inr (Or.inr h)
    · split at h
      · simp only [List.mem_cons] at h ⊢
        rcases h with h | h
        · exact Or.inl h
        · exact Or.inr (Or.inr h)
      · simp only [List.mem_cons] at h ⊢
        rcases h with h | h
        · exact Or.inr (Or.inl h)
        · rcases ih p h with h | h
          · exact Or.inl h
          · exact Or.inr (Or.inr h)

theorem mapInsert_sorted {α : Type} (k : Str) (v : α) : ∀ (m : List (Str × α)), KeysSorted m →
    KeysSorted (mapInsert k v m) := by
  intro m
  induction m with
  | nil => intro _; simp [mapInsert, KeysSorted]
  | cons q t ih =>
    intro hs
    obtain ⟨k', v'⟩ := q
    obtain ⟨hgt, hst⟩ := hs
    simp only [mapInsert]
    by_cases h1 : strLt k k' = true
    · simp only [h1, if_true]
      refine ⟨?_, hgt, hst⟩
      intro p hp
      simp only [List.mem_cons] at hp
      rcases hp with hp | hp
      · subst hp; exact h1
      · exact strLt_trans k k' p.1 h1 (hgt p hp)
    · simp only [h1, if_false]
      by_cases h2 : k = k'
      · subst h2
        simp only [if_true]
        exact ⟨hgt, hst⟩
      · simp only [h2, if_false]
        have h3 : strLt k' k = true := strLt_total k k' (by simpa using h1) h2
        refine ⟨?_, ih hst⟩
        intro p hp
        rcases mem_mapInsert k v t p hp with hp | hp
        · subst hp; exact h3
        · exact hgt p hp

theorem foldl_mapInsert_inv {α : Type} (P : List (Str × α) → Prop)
    (step : ∀ k v m, P m → P (mapInsert k v m)) : ∀ (l m : List (Str × α)), P m →
    P (l.foldl (fun m kv => mapInsert kv.1 kv.2 m) m) := by
  intro l
  induction l with
  | nil => intro m h; exact h
  | cons q t ih => intro m h; exact ih _ (step q.1 q.2 m h)

/-- a map is always sorted -/
theorem mapOfList_keysSorted {α : Type} (l : List (Str × α)) : KeysSorted (mapOfList l) :=
  foldl_mapInsert_inv KeysSorted (fun k v m h => mapInsert_sorted k v m h) l [] (by simp [KeysSorted])

/-- ... and holds only members that were put in -/
theorem mem_mapOfList {α : Type} (l : List (Str × α)) : ∀ p ∈ mapOfList l, p ∈ l := by
  have h : ∀ (l m : List (Str × α)) (p : Str × α),
      p ∈ l.foldl (fun m kv => mapInsert kv.1 kv.2 m) m → p ∈ l ∨ p ∈ m := by
    intro l
    induction l with
    | nil => intro m p h; exact Or.inr h
    | cons q t ih =>
      intro m p h
      rcases ih _ p h with h | h
      · exact Or.inl (by simp [h])
      · rcases mem_mapInsert q.1 q.2 m p h with h | h
        · exact Or.inl (by simp [h])
        · exact Or.inr h
  intro p hp
  rcases h l [] p hp with h | h
  · exact h
  · simp at h

mutual
/-- the numbers of a value are ones the crate can hold (no condition on member order) -/
def JNums : JV → Prop
  | .num n => JNumOK n
  | .arr xs => JNumsL xs
  | .obj kvs => JNumsKVs kvs
  | _ => True
def JNumsL : List JV → Prop
  | [] => True
  | x :: xs => JNums x ∧ JNumsL xs
def JNumsKVs : List (Str × JV) → Prop
  | [] => True
  | (_, x) :: xs => JNums x ∧ JNumsKVs xs
end

theorem JWFKVs_iff (l : List (Str × JV)) : JWFKVs l ↔ ∀ p ∈ l, JWF p.2 := by
  induction l with
  | nil => simp [JWFKVs]
  | cons q t ih => obtain ⟨k, x⟩ := q; simp [JWFKVs, ih]

theorem jdepthKVs_le_iff (l : List (Str × JV)) (d : Nat) : jdepthKVs l ≤ d ↔ ∀ p ∈ l, jdepth p.2 ≤ d := by
  induction l with
  | nil => simp [jdepthKVs]
  | cons q t ih =>
    obtain ⟨k, x⟩ := q
    simp only [jdepthKVs, List.mem_cons, forall_eq_or_imp, ← ih]
    omega

mutual
/-- collecting objects into maps yields a value the crate can hold, no deeper than before -/
theorem canonJ_wf : ∀ j : JV, JNums j → JWF (canonJ j) ∧ jdepth (canonJ j) ≤ jdepth j
  | .null, _ => by simp [canonJ, JWF, jdepth]
  | .bool _, _ => by simp [canonJ, JWF, jdepth]
  | .num n, h => by simp only [canonJ, JWF, jdepth]; exact ⟨h, Nat.le_refl _⟩
  | .str _, _ => by simp [canonJ, JWF, jdepth]
  | .arr xs, h => by
    have := canonJs_wf xs h
    simp only [canonJ, JWF, jdepth]
    exact ⟨this.1, by omega⟩
  | .obj kvs, h => by
    have ih := canonJKVs_wf kvs h
    simp only [canonJ, JWF, jdepth]
    refine ⟨⟨mapOfList_keysSorted _, ?_⟩, ?_⟩
    · rw [JWFKVs_iff]
      intro p hp
      exact (JWFKVs_iff _).mp ih.1 p (mem_mapOfList _ p hp)
    · have h1 : jdepthKVs (mapOfList (canonJKVs kvs)) ≤ jdepthKVs (canonJKVs kvs) := by
        rw [jdepthKVs_le_iff]
        intro p hp
        exact (jdepthKVs_le_iff _ _).mp (Nat.le_refl _) p (mem_mapOfList _ p hp)
      omega
theorem canonJs_wf : ∀ xs : List JV, JNumsL xs → JWFs (canonJs xs) ∧ jdepths (canonJs xs) ≤ jdepths xs
  | [], _ => by simp [canonJs, JWFs, jdepths]
  | x :: xs, h => by
    have h1 := canonJ_wf x h.1
    have h2 := canonJs_wf xs h.2
    simp only [canonJs, JWFs, jdepths]
    exact ⟨⟨h1.1, h2.1⟩, by omega⟩
theorem canonJKVs_wf : ∀ kvs : List (Str × JV), JNumsKVs kvs →
    JWFKVs (canonJKVs kvs) ∧ jdepthKVs (canonJKVs kvs) ≤ jdepthKVs kvs
  | [], _ => by simp [canonJKVs, JWFKVs, jdepthKVs]
  | (k, x) :: xs, h => by
    have h1 := canonJ_wf x h.1
    have h2 := canonJKVs_wf xs h.2
    simp only [canonJKVs, JWFKVs, jdepthKVs]
    exact ⟨⟨h1.1, h2.1⟩, by omega⟩
end

/-- **json_text_roundtrip, any member order**: whatever order (and duplicates) the members of the
objects arrive in, the text written for the resulting `Value` is read back as that `Value` -/
theorem json_text_roundtrip_canon (ft : FloatText) (hft : FloatOK ft) (j : JV) (hj : JNums j) (hd : jdepth j ≤ 127) :
    parseJson ft (writeJson ft (canonJ j)) = some (canonJ j) := by
  have h := canonJ_wf j hj
  exact json_text_roundtrip ft hft (canonJ j) h.1 (by omega)

/-! ## 7. `json_decode(json_encode(v))` through the text -/

mutual
def vdepth : Val → Nat
  | .list xs => 1 + vdepths xs
  | .dict kvs => 1 + vdepthKVs kvs
  | _ => 0
def vdepths : List Val → Nat
  | [] => 0
  | x :: xs => max (vdepth x) (vdepths xs)
def vdepthKVs : List (Str × Val) → Nat
  | [] => 0
  | (_, x) :: xs => max (vdepth x) (vdepthKVs xs)
end

mutual
/-- the value with every dict listed in key order (a dict is a HashMap: its order is immaterial,
this is the representative `json_decode(json_encode(·))` hands back in the model) -/
def canonV : Val → Val
  | .list xs => .list (canonVs xs)
  | .dict kvs => .dict (mapOfList (canonVKVs kvs))
  | v => v
def canonVs : List Val → List Val
  | [] => []
  | x :: xs => canonV x :: canonVs xs
def canonVKVs : List (Str × Val) → List (Str × Val)
  | [] => []
  | (k, x) :: xs => (k, canonV x) :: canonVKVs xs
end

mutual
/-- dict entries already in key order, at every level -/
def ValSorted : Val → Prop
  | .list xs => ValSortedL xs
  | .dict kvs => KeysSorted kvs ∧ ValSortedKVs kvs
  | _ => True
def ValSortedL : List Val → Prop
  | [] => True
  | x :: xs => ValSorted x ∧ ValSortedL xs
def ValSortedKVs : List (Str × Val) → Prop
  | [] => True
  | (_, x) :: xs => ValSorted x ∧ ValSortedKVs xs
end

theorem decodeKVs_mapInsert (k : Str) (j : JV) : ∀ m : List (Str × JV),
    decodeKVs (mapInsert k j m) = mapInsert k (decodeV j) (decodeKVs m) := by
  intro m
  induction m with
  | nil => simp [mapInsert, decodeKVs]
  | cons q t ih =>
    obtain ⟨k', x⟩ := q
    simp only [mapInsert, decodeKVs]
    split
    · simp [decodeKVs]
    · split
      · simp [decodeKVs]
      · simp [decodeKVs, ih]

theorem decodeKVs_foldl : ∀ (l m : List (Str × JV)),
    decodeKVs (l.foldl (fun m kv => mapInsert kv.1 kv.2 m) m)
      = (decodeKVs l).foldl (fun m kv => mapInsert kv.1 kv.2 m) (decodeKVs m) := by
  intro l
  induction l with
  | nil => intro m; simp [decodeKVs]
  | cons q t ih =>
    intro m
    obtain ⟨k, x⟩ := q
    simp only [List.foldl_cons, decodeKVs]
    rw [ih, decodeKVs_mapInsert]

theorem decodeKVs_mapOfList (l : List (Str × JV)) : decodeKVs (mapOfList l) = mapOfList (decodeKVs l) := by
  unfold mapOfList
  have := decodeKVs_foldl l []
  simpa [decodeKVs] using this

mutual
/-- decoding commutes with collecting objects into maps -/
theorem decode_canon : ∀ j : JV, decodeV (canonJ j) = canonV (decodeV j)
  | .null => rfl
  | .bool _ => rfl
  | .num (.posInt n) => by
    simp only [canonJ, decodeV]
    split <;> rfl
  | .num (.negInt _) => rfl
  | .num (.float _) => rfl
  | .str _ => rfl
  | .arr xs => by simp only [canonJ, decodeV, canonV, decode_canons xs]
  | .obj kvs => by simp only [canonJ, decodeV, canonV, decodeKVs_mapOfList, decode_canonKVs kvs]
theorem decode_canons : ∀ xs : List JV, decodeVs (canonJs xs) = canonVs (decodeVs xs)
  | [] => rfl
  | x :: xs => by simp only [canonJs, decodeVs, canonVs, decode_canon x, decode_canons xs]
theorem decode_canonKVs : ∀ kvs : List (Str × JV), decodeKVs (canonJKVs kvs) = canonVKVs (decodeKVs kvs)
  | [] => rfl
  | (k, x) :: xs => by simp only [canonJKVs, decodeKVs, canonVKVs, decode_canon x, decode_canonKVs xs]
end

mutual
/-- `json_encode` of a JSON-shaped value: succeeds with numbers the crate can hold, the same
nesting depth, and a `Value` that decodes back to the input -/
theorem encodeV_shaped : ∀ v : Val, JsonShaped v →
    ∃ j, encodeV v = .ok j ∧ JNums j ∧ jdepth j = vdepth v ∧ decodeV j = v
  | .null, _ => ⟨.null, rfl, trivial, rfl, rfl⟩
  | .int v, h => by
    have h' : inI64 v := h
    by_cases hv : 0 ≤ v
    · refine ⟨.num (.posInt v.toNat), by simp only [encodeV, h', if_true, hv], ?_, rfl, ?_⟩
      · simp only [JNums, JNumOK]; unfold inI64 at h'; omega
      · rw [decodeV]
        have : ((v.toNat : Nat) : Int) ≤ I64_MAX := by unfold inI64 at h'; unfold I64_MAX; omega
        simp only [this, if_true]
        congr 1; omega
    · refine ⟨.num (.negInt v), by simp only [encodeV, h', if_true, hv, if_false], ?_, rfl, by rw [decodeV]⟩
      simp only [JNums, JNumOK]; unfold inI64 at h'; omega
  | .float f, h => by
    have h' : f.finite = true := h
    exact ⟨.num (.float f), by simp only [encodeV, jvOfF64, h', if_true], h', rfl, by rw [decodeV]⟩
  | .str s, _ => ⟨.str s, rfl, trivial, rfl, rfl⟩
  | .bytes _, h => absurd h (by simp [JsonShaped])
  | .func, h => absurd h (by simp [JsonShaped])
  | .list xs, h => by
    obtain ⟨js, e, hn, hd, hdec⟩ := encodeVs_shaped xs h
    exact ⟨.arr js, by simp only [encodeV, e, Out.map], hn, by simp only [jdepth, vdepth, hd],
      by simp only [decodeV, hdec]⟩
  | .dict kvs, h => by
    obtain ⟨js, e, hn, hd, hdec⟩ := encodeKVs_shaped kvs h
    exact ⟨.obj js, by simp only [encodeV, e, Out.map], hn, by simp only [jdepth, vdepth, hd],
      by simp only [decodeV, hdec]⟩
theorem encodeVs_shaped : ∀ xs : List Val, JsonShapedList xs →
    ∃ js, encodeVs xs = .ok js ∧ JNumsL js ∧ jdepths js = vdepths xs ∧ decodeVs js = xs
  | [], _ => ⟨[], rfl, trivial, rfl, rfl⟩
  | x :: xs, h => by
    obtain ⟨j, e1, n1, d1, c1⟩ := encodeV_shaped x h.1
    obtain ⟨js, e2, n2, d2, c2⟩ := encodeVs_shaped xs h.2
    exact ⟨j :: js, by simp only [encodeVs, e1, e2, Out.map], ⟨n1, n2⟩, by simp only [jdepths, vdepths, d1, d2],
      by simp only [decodeVs, c1, c2]⟩
theorem encodeKVs_shaped : ∀ kvs : List (Str × Val), JsonShapedKVs kvs →
    ∃ js, encodeKVs kvs = .ok js ∧ JNumsKVs js ∧ jdepthKVs js = vdepthKVs kvs ∧ decodeKVs js = kvs
  | [], _ => ⟨[], rfl, trivial, rfl, rfl⟩
  | (k, x) :: xs, h => by
    obtain ⟨j, e1, n1, d1, c1⟩ := encodeV_shaped x h.1
    obtain ⟨js, e2, n2, d2, c2⟩ := encodeKVs_shaped xs h.2
    exact ⟨(k, j) :: js, by simp only [encodeKVs, e1, e2, Out.map], ⟨n1, n2⟩,
      by simp only [jdepthKVs, vdepthKVs, d1, d2], by simp only [decodeKVs, c1, c2]⟩
end

/-- **json_value_roundtrip through the text** — no text-layer hypothesis any more.  For every
JSON-shaped value (null, 64-bit integers, finite floats, strings, lists, string-keyed dicts)
nested less than 128 deep, `json_decode(json_encode(v))` is `v` with its dicts listed in key
order (`canonV v`; a dict is a HashMap, so this is the same dict).  Writer, `Map`, parser and
both converters are the models of the real code; the only assumption is `FloatOK` on the two
external float text functions. -/
theorem json_value_roundtrip_text (ft : FloatText) (hft : FloatOK ft) (v : Val) (hv : JsonShaped v)
    (hd : vdepth v ≤ 127) : (jsonEncodeText ft v).bind (jsonDecodeText ft) = .ok (canonV v) := by
  obtain ⟨j, e, hn, hdj, hdec⟩ := encodeV_shaped v hv
  have ht := json_text_roundtrip_canon ft hft j hn (by omega)
  simp only [jsonEncodeText, e, Out.map, Out.bind, jsonDecodeText, ht, decode_canon, hdec]

mutual
theorem canonV_sorted : ∀ v : Val, ValSorted v → canonV v = v
  | .null, _ => rfl
  | .int _, _ => rfl
  | .float _, _ => rfl
  | .str _, _ => rfl
  | .bytes _, _ => rfl
  | .func, _ => rfl
  | .list xs, h => by simp only [canonV, canonVs_sorted xs h]
  | .dict kvs, h => by simp only [canonV, canonVKVs_sorted kvs h.2, mapOfList_sorted kvs h.1]
theorem canonVs_sorted : ∀ xs : List Val, ValSortedL xs → canonVs xs = xs
  | [], _ => rfl
  | x :: xs, h => by simp only [canonVs, canonV_sorted x h.1, canonVs_sorted xs h.2]
theorem canonVKVs_sorted : ∀ kvs : List (Str × Val), ValSortedKVs kvs → canonVKVs kvs = kvs
  | [], _ => rfl
  | (k, x) :: xs, h => by simp only [canonVKVs, canonV_sorted x h.1, canonVKVs_sorted xs h.2]
end

/-- on the key-ordered representative the round trip is the identity on the nose -/
theorem json_value_roundtrip_text_sorted (ft : FloatText) (hft : FloatOK ft) (v : Val) (hv : JsonShaped v)
    (hs : ValSorted v) (hd : vdepth v ≤ 127) : (jsonEncodeText ft v).bind (jsonDecodeText ft) = .ok v := by
  rw [json_value_roundtrip_text ft hft v hv hd, canonV_sorted v hs]

/-- `json_text_roundtrip_statement` (Theorems/C16.lean) as a theorem, with the model's writer
(after the `Map` construction) and parser in place of the abstract `print` / `parse`: for every
`Value` that `json_encode` produces from a JSON-shaped input nested less than 128 deep.  Modulo
the float parameter (`FloatOK`); the two restrictions are what the real code needs as well
(objects are maps; the parser's recursion limit, finding F31). -/
theorem json_text_roundtrip_holds (ft : FloatText) (hft : FloatOK ft) (v : Val) (j : JV) (hv : JsonShaped v)
    (hd : vdepth v ≤ 127) (he : encodeV v = .ok j) :
    parseJson ft (writeJson ft (canonJ j)) = some (canonJ j) := by
  obtain ⟨j', e, hn, hdj, _⟩ := encodeV_shaped v hv
  rw [he] at e; injection e with e; subst e
  exact json_text_roundtrip_canon ft hft j hn (by omega)

/-- non-vacuity: a value with an unsorted dict, a control character, a quote and a negative integer -/
example : JsonShaped (.dict [([98], .list [.int (-5), .str [10, 34]]), ([97], .null)]) ∧
    vdepth (.dict [([98], .list [.int (-5), .str [10, 34]]), ([97], .null)]) ≤ 127 := by
  simp [JsonShaped, JsonShapedList, JsonShapedKVs, inI64, vdepth, vdepths, vdepthKVs]

/-! ## 8. the float hypothesis in primitive form: token shape + value round trip -/

/-- a JSON number token with a fraction and / or an exponent (what a float formatter writes):
`-? digits (. digits)? (e [+-]? digits)?`, no superfluous leading zero -/
structure FloatTok where
  neg : Bool
  ip : List Nat                              -- integer digits
  frac : List Nat                            -- digits after the point; `[]`: no point
  exp : Option (Option Bool × List Nat)      -- `e`, optional sign, digits
  deriving Repr

def FloatTok.WF (t : FloatTok) : Prop :=
  t.ip ≠ [] ∧ (∀ d ∈ t.ip, d < 10) ∧ (t.ip.length > 1 → t.ip.head? ≠ some 0) ∧ (∀ d ∈ t.frac, d < 10) ∧
  (∀ s ds, t.exp = some (s, ds) → ds ≠ [] ∧ ∀ d ∈ ds, d < 10) ∧ (t.frac ≠ [] ∨ t.exp.isSome = true)

def FloatTok.fracText (t : FloatTok) : Str := if t.frac = [] then [] else 46 :: digitText t.frac
def FloatTok.expText (t : FloatTok) : Str :=
  match t.exp with
  | none => []
  | some (s, ds) => 101 :: (signText s ++ digitText ds)
def FloatTok.render (t : FloatTok) : Str :=
  (if t.neg then [45] else []) ++ (digitText t.ip ++ (t.fracText ++ t.expText))

theorem takeDigits_digitText' (ds : List Nat) (tail : Str) (h : ∀ x ∈ ds, x < 10) (ht : headIsDigit tail = false) :
    takeDigits (digitText ds ++ tail) = (digitText ds, tail) := by
  induction ds with
  | nil =>
    simp only [digitText, List.map_nil, List.nil_append]
    cases tail with
    | nil => rfl
    | cons c r =>
      have : isAsciiDigit c = false := by simpa [headIsDigit] using ht
      simp [takeDigits, this]
  | cons d t ih =>
    have hd0 : d < 10 := h d (by simp)
    have ih' := ih (fun x hx => h x (by simp [hx]))
    simp only [digitText, List.map_cons, List.cons_append] at ih' ⊢
    have : isAsciiDigit (48 + d) = true := by simp [isAsciiDigit]; omega
    simp only [takeDigits, this, if_true, ih', Prod.map]
    rfl

theorem headIsDigit_delim (rest : Str) (hd : Delim rest) : headIsDigit rest = false := delim_no_digit rest hd

theorem headIsDigit_cons (c : Nat) (r : Str) (h : ¬ (48 ≤ c ∧ c ≤ 57)) : headIsDigit (c :: r) = false := by
  simp [headIsDigit, isAsciiDigit]; omega

theorem expText_head (t : FloatTok) (rest : Str) (hd : Delim rest) : headIsDigit (t.expText ++ rest) = false := by
  unfold FloatTok.expText
  cases t.exp with
  | none => simpa using headIsDigit_delim rest hd
  | some p => obtain ⟨s, ds⟩ := p; exact headIsDigit_cons 101 _ (by omega)

theorem fracExp_head (t : FloatTok) (rest : Str) (hd : Delim rest) :
    headIsDigit (t.fracText ++ (t.expText ++ rest)) = false := by
  unfold FloatTok.fracText
  by_cases hf : t.frac = []
  · simp only [hf, if_true, List.nil_append]; exact expText_head t rest hd
  · simp only [hf, if_false, List.cons_append]; exact headIsDigit_cons 46 _ (by omega)

theorem scanFrac_tok (t : FloatTok) (hw : t.WF) (rest : Str) (hd : Delim rest) :
    scanFrac (t.fracText ++ (t.expText ++ rest)) = some (t.fracText, t.expText ++ rest) := by
  unfold FloatTok.fracText
  by_cases hf : t.frac = []
  · simp only [hf, if_true, List.nil_append]
    unfold FloatTok.expText
    cases he : t.exp with
    | none => simpa using scanFrac_delim rest hd
    | some p => obtain ⟨s, ds⟩ := p; simp [scanFrac]
  · simp only [hf, if_false, List.cons_append]
    have htd := takeDigits_digitText' t.frac (t.expText ++ rest) hw.2.2.2.1 (expText_head t rest hd)
    have hne : ¬ digitText t.frac = [] := fun e => hf ((digitText_eq_nil _).mp e)
    simp [scanFrac, htd, hne]

theorem scanExp_tok (t : FloatTok) (hw : t.WF) (rest : Str) (hd : Delim rest) :
    scanExp (t.expText ++ rest) = some (t.expText, rest) := by
  unfold FloatTok.expText
  cases he : t.exp with
  | none => simpa using scanExp_delim rest hd
  | some p =>
    obtain ⟨s, ds⟩ := p
    obtain ⟨hne, hds⟩ := hw.2.2.2.2.1 s ds he
    have htd := takeDigits_digitText' ds rest hds (headIsDigit_delim rest hd)
    have hne' : ¬ digitText ds = [] := fun e => hne ((digitText_eq_nil _).mp e)
    cases ds with
    | nil => exact absurd rfl hne
    | cons d t' =>
      have hd0 : d < 10 := hds d (by simp)
      rcases s with _ | _ | _
      · have n1 : ¬ (48 + d = 43 ∨ 48 + d = 45) := by omega
        simp only [signText, List.nil_append, List.cons_append, scanExp, true_or, if_true]
        simp only [digitText, List.map_cons, List.cons_append] at htd hne' ⊢
        simp [n1, htd]
      · simp only [signText, List.cons_append, List.nil_append, scanExp, true_or, if_true, htd]
        simp [hne']
      · simp only [signText, List.cons_append, List.nil_append, scanExp, true_or, or_true, if_true, htd]
        simp [hne']

theorem scanInt_tok (t : FloatTok) (hw : t.WF) (tail : Str) (ht : headIsDigit tail = false) :
    ∃ c cs, digitText t.ip ++ tail = c :: cs ∧ isAsciiDigit c = true ∧ c ≠ 45 ∧
      scanInt c cs = some (digitText t.ip, tail) := by
  obtain ⟨hne, hds, hlead, _⟩ := hw
  cases hip : t.ip with
  | nil => exact absurd hip hne
  | cons d t' =>
    rw [hip] at hds hlead
    have hd0 : d < 10 := hds d (by simp)
    refine ⟨48 + d, digitText t' ++ tail, by simp [digitText], by simp [isAsciiDigit]; omega, by omega, ?_⟩
    by_cases hz : d = 0
    · subst hz
      have ht' : t' = [] := by
        cases t' with
        | nil => rfl
        | cons a b => exact absurd rfl (hlead (by simp))
      subst ht'
      simp [scanInt, digitText, ht]
    · have : ¬ (48 + d = 48) := by omega
      simp only [scanInt, this, if_false, takeDigits_digitText' t' tail (fun x hx => hds x (by simp [hx])) ht]
      simp [digitText]

/-- a float token followed by a delimiter is scanned whole and handed to the float conversion -/
theorem parseNumber_floatTok (ft : FloatText) (t : FloatTok) (hw : t.WF) (rest : Str) (hd : Delim rest) (f : F64)
    (hp : ft.parse t.render = some f) : parseNumber ft (t.render ++ rest) = some (.float f, rest) := by
  obtain ⟨c, cs, e, hdig, hc45, hip⟩ := scanInt_tok t hw (t.fracText ++ (t.expText ++ rest)) (fracExp_head t rest hd)
  have hnotint : ¬ (t.fracText = [] ∧ t.expText = []) := by
    intro ⟨h1, h2⟩
    rcases hw.2.2.2.2.2 with h | h
    · unfold FloatTok.fracText at h1; simp [h] at h1
    · unfold FloatTok.expText at h2
      cases he : t.exp with
      | none => simp [he] at h
      | some p => obtain ⟨s, ds⟩ := p; simp [he] at h2
  have hbody : digitText t.ip ++ (t.fracText ++ t.expText) ++ rest = c :: cs := by
    rw [← e]; simp
  unfold parseNumber
  cases hn : t.neg with
  | false =>
    have hr : t.render ++ rest = c :: cs := by
      unfold FloatTok.render; simp only [hn, Bool.false_eq_true, if_false, List.nil_append]; exact hbody
    have hren : t.render = digitText t.ip ++ (t.fracText ++ t.expText) := by
      unfold FloatTok.render; simp [hn]
    rw [hr]
    have hneg : startsWith 45 (c :: cs) = false := by simp [startsWith, hc45]
    simp only [hneg, Bool.false_eq_true, if_false, hdig, Bool.not_true, hip, scanFrac_tok t hw rest hd,
      scanExp_tok t hw rest hd]
    have htok : ([] : Str) ++ digitText t.ip ++ t.fracText ++ t.expText = t.render := by rw [hren]; simp
    simp only [htok, hp]
    simp
    intro h1 h2
    exact absurd ⟨h1, h2⟩ hnotint
  | true =>
    have hr : t.render ++ rest = 45 :: c :: cs := by
      unfold FloatTok.render; simp only [hn, if_true, List.cons_append, List.nil_append]; rw [hbody]
    have hren : t.render = 45 :: (digitText t.ip ++ (t.fracText ++ t.expText)) := by
      unfold FloatTok.render; simp [hn]
    rw [hr]
    have hneg : startsWith 45 (45 :: c :: cs) = true := by simp [startsWith]
    simp only [hneg, if_true, List.tail_cons, hdig, Bool.not_true, Bool.false_eq_true, if_false, hip,
      scanFrac_tok t hw rest hd, scanExp_tok t hw rest hd]
    have htok : [45] ++ digitText t.ip ++ t.fracText ++ t.expText = t.render := by rw [hren]; simp
    simp only [htok, hp]
    simp
    intro h1 h2
    exact absurd ⟨h1, h2⟩ hnotint

/-- **the float hypothesis, primitive form**: it is enough that (a) the writer's text of every finite
float is a JSON number token with a fraction or an exponent, and (b) the parser's conversion of that
text gives the float back (shortest-round-trip formatting + correctly rounded parsing) -/
theorem floatOK_of_tokens (ft : FloatText)
    (h : ∀ f : F64, f.finite = true → ∃ t : FloatTok, t.WF ∧ ft.fmt f = t.render ∧ ft.parse (ft.fmt f) = some f) :
    FloatOK ft := by
  intro f rest hf hd
  obtain ⟨t, hw, e, hp⟩ := h f hf
  rw [e] at hp ⊢
  exact parseNumber_floatTok ft t hw rest hd f hp

/-- non-vacuity of the token shape: `-1.5e+21` -/
example : (FloatTok.mk true [1] [5] (some (some false, [2, 1]))).WF ∧
    (FloatTok.mk true [1] [5] (some (some false, [2, 1]))).render = [45, 49, 46, 53, 101, 43, 50, 49] := by
  refine ⟨⟨by simp, by simp, by simp, by simp, ?_, by simp⟩, by decide⟩
  intro s ds h; simp at h; obtain ⟨_, rfl⟩ := h; simp


/-! ## 9. repeated keys: the last one wins, in a JSON object and in a Noulith dict literal alike -/

theorem mapInsert_lookup_self {α : Type} (k : Str) (v : α) : ∀ m : List (Str × α), (mapInsert k v m).lookup k = some v := by
  intro m
  induction m with
  | nil => simp [mapInsert, List.lookup]
  | cons q t ih =>
    obtain ⟨k', v'⟩ := q
    simp only [mapInsert]
    split
    · simp [List.lookup]
    · split
      · simp [List.lookup]
      · rename_i _ hne
        have : (k == k') = false := by simpa using hne
        simp [List.lookup, this, ih]

theorem mapInsert_lookup_other {α : Type} (k k2 : Str) (v : α) (h : k2 ≠ k) : ∀ m : List (Str × α),
    (mapInsert k v m).lookup k2 = m.lookup k2 := by
  intro m
  have hb : (k2 == k) = false := by simpa using h
  induction m with
  | nil => simp [mapInsert, List.lookup, hb]
  | cons q t ih =>
    obtain ⟨k', v'⟩ := q
    simp only [mapInsert]
    split
    · simp [List.lookup, hb]
    · split
      · rename_i _ he; subst he; simp [List.lookup, hb]
      · simp only [List.lookup, ih]

/-- **last one wins**: after all the entries, a key holds the value of its LAST occurrence -/
theorem dictLiteral_last_wins {α : Type} (pre post : List (Str × α)) (k : Str) (v : α)
    (hpost : ∀ p ∈ post, p.1 ≠ k) : (dictLiteral (pre ++ (k, v) :: post)).lookup k = some v := by
  unfold dictLiteral
  rw [List.foldl_append, List.foldl_cons]
  generalize hm : mapInsert k v (List.foldl (fun acc kv => mapInsert kv.1 kv.2 acc) [] pre) = m
  have h0 : m.lookup k = some v := by rw [← hm]; exact mapInsert_lookup_self k v _
  clear hm
  induction post generalizing m with
  | nil => exact h0
  | cons q t ih =>
    simp only [List.foldl_cons]
    apply ih (fun p hp => hpost p (by simp [hp]))
    rw [mapInsert_lookup_other q.1 k q.2 (fun e => hpost q (by simp) e.symm)]
    exact h0

/-- a dict literal and a JSON object written with the same members are the same map: the evaluator
and serde_json resolve repeated keys the same way -/
theorem dictLiteral_eq_jsonObject {α : Type} (entries : List (Str × α)) : dictLiteral entries = mapOfList entries := rfl

example : dictLiteral [([97], 1), ([98], 5), ([97], 2)] = [([97], 2), ([98], 5)] := by decide

end Noulith.C16
