/-
C09 — Dictionaries are finite maps keyed by value equality.

Theorems about the Impl model of key hashing / key equality (Impl/NNumCmp.lean `totalHash`,
Impl/ObjCmp.lean `writes`, `totalEq`, `keyHit`) and of the dictionary operations (Impl/Dict.lean)
against the Spec (finite map on `≈`-classes, Spec/DictSpec.lean).  The hash is modelled as the
SEQUENCE OF HASHER WRITES; SipHash itself is an opaque function of that sequence.
-/
import NoulithModel.Theorems.C08
import NoulithModel.Spec.DictSpec

namespace Noulith.C09
open Noulith OrdSpec Noulith.C08 Noulith.DictOps

/-! ## 1. numbers: `total_eq` keys hash to the same write sequence -/

/-- the writes of a point of the extended line -/
def hashERat : ERat → List HWrite
  | .fin q => hashRational q
  | .pinf => [.u64 0x7FF0000000000000]
  | .ninf => [.u64 0xFFF0000000000000]

/-- the writes of a (re, im) pair: a zero imaginary part is not written -/
def hashVal2 (p : ERat × ERat) : List HWrite :=
  if p.2 = .fin 0 then hashERat p.1 else hashERat p.1 ++ hashERat p.2

theorem hashNInt_val (a : NInt) (ha : a.WF) : hashNInt a = hashRational (a.val : Rat) := by
  have h1 : ((a.val : Int) : Rat).isInt = true := by simp [Rat.isInt]
  simp only [hashRational, h1, if_true, Rat.num_intCast]
  cases a with
  | small v =>
    have : inI64 v := ha
    simp [hashNInt, NInt.hashWrites, NInt.val, this]
  | big v => rfl

theorem hashF64_ext (f : F64) (hn : f.isNan = false) : consistentHashF64 f = hashERat f.ext := by
  rcases f with _ | ⟨_ | _⟩ | ⟨m, e⟩ | _
  · simp [F64.isNan] at hn
  · simp [consistentHashF64, toNIntIfInt, F64.eqTrunc, F64.toBigInt?, F64.isNan, F64.toRat?, F64.isSignPositive,
      F64.ext, hashERat]
  · simp [consistentHashF64, toNIntIfInt, F64.eqTrunc, F64.toBigInt?, F64.isNan, F64.toRat?, F64.isSignPositive,
      F64.ext, hashERat]
  · simp only [F64.ext, hashERat]
    by_cases h : (F64.finVal m e).isInt = true
    · simp only [consistentHashF64, toNIntIfInt_fin_int m e h, hashRational, h, if_true]
      have hq := (isInt_iff _).mp h
      have hd : (F64.finVal m e).den = 1 := by simpa [Rat.isInt] using h
      have : (F64.finVal m e).floor = (F64.finVal m e).num := by
        rw [Rat.floor_def, hd]; simp
      rw [this]
    · simp only [consistentHashF64, toNIntIfInt_fin_nonint m e h, F64.isNan, F64.toRat?]
      rfl
  · simp only [consistentHashF64, toNIntIfInt, F64.eqTrunc, F64.toBigInt?, if_true, Option.map, F64.ext, hashERat,
      hashRational]
    have : (0 : Rat).isInt = true := by decide +kernel
    simp [this]


theorem realValue_float (f : F64) (hn : f.isNan = false) : realValue (.float f) = some f.ext := by
  rcases f with _ | ⟨_ | _⟩ | ⟨m, e⟩ | _ <;> simp_all [F64.isNan, realValue, F64.ext, F64.finVal]

theorem feq_zero (f : F64) (hn : f.isNan = false) : F64.feq f (.fin 0 0) = decide (f.ext = .fin 0) := by
  rcases f with _ | ⟨_ | _⟩ | ⟨m, e⟩ | _ <;> simp_all [F64.feq, F64.isNan, F64.ext, F64.finVal]

theorem isNan_iff_hasNan (a : NNum) : a.isNan = hasNan a := by
  cases a with
  | int a => rfl
  | rat q => rfl
  | float f => rcases f with _ | ⟨_ | _⟩ | ⟨m, e⟩ | _ <;> rfl
  | complex re im =>
    rcases re with _ | ⟨_ | _⟩ | ⟨m, e⟩ | _ <;> rcases im with _ | ⟨_ | _⟩ | ⟨m', e'⟩ | _ <;> rfl

/-- a NaN-free number is hashed as a function of the pair of points it denotes -/
theorem totalHash_val2 (a : NNum) (hw : a.WF) (hn : nanFree a) : a.totalHash = hashVal2 (val2 a) := by
  cases a with
  | int a =>
    simp only [NNum.totalHash, hashVal2, val2, reVal, imVal, realValue, Option.getD, if_true, hashERat]
    exact hashNInt_val a hw
  | rat q => simp [NNum.totalHash, hashVal2, val2, reVal, imVal, realValue, hashERat]
  | float f =>
    have hf : f.isNan = false := by
      have := isNan_iff_hasNan (.float f); simp only [NNum.isNan] at this; rw [this]; exact hn
    simp only [NNum.totalHash, hashVal2, val2, reVal, imVal, realValue_float f hf, Option.getD, if_true]
    exact hashF64_ext f hf
  | complex re im =>
    have hh : (re.isNan || im.isNan) = false := by
      have := isNan_iff_hasNan (.complex re im); simp only [NNum.isNan] at this; rw [this]; exact hn
    have hre : re.isNan = false := by cases h : re.isNan <;> simp_all
    have him : im.isNan = false := by cases h : im.isNan <;> simp_all
    simp only [NNum.totalHash, hh, Bool.false_eq_true, if_false, hashVal2, val2, reVal, imVal,
      realValue_float re hre, realValue_float im him, Option.getD, feq_zero im him, decide_eq_true_eq]
    split
    · exact hashF64_ext re hre
    · rw [hashF64_ext re hre, hashF64_ext im him]

/-- every number with a NaN in it hashes to the same single write -/
theorem totalHash_nan (a : NNum) (h : a.isNan = true) : a.totalHash = [.u64 0x7FF0000000000001] := by
  cases a with
  | int a => simp [NNum.isNan] at h
  | rat q => simp [NNum.isNan] at h
  | float f =>
    rcases f with _ | ⟨_ | _⟩ | ⟨m, e⟩ | _ <;> simp [NNum.isNan, F64.isNan] at h
    simp [NNum.totalHash, consistentHashF64, toNIntIfInt, F64.eqTrunc, F64.isNan]
  | complex re im =>
    simp only [NNum.isNan] at h
    simp [NNum.totalHash, h]

theorem numEq_nanFree {a b : NNum} (h : numEq a b = true) : nanFree a ∧ nanFree b ∧ val2 a = val2 b := by
  unfold numEq at h
  simp only [Bool.and_eq_true] at h
  obtain ⟨h1, h2⟩ := h
  unfold nanFree hasNan val2
  cases ha : reVal a <;> cases hb : reVal b <;> cases hc : imVal a <;> cases hd : imVal b <;>
    simp_all [optEq]

/-- **hash consistency on numbers** (the obligation F6 violated): keys that are `total_eq` perform
the same hasher writes, across int (both representations) / rational / float / complex, NaNs
included -/
theorem num_hash_consistent (a b : NNum) (hwa : a.WF) (hwb : b.WF) (h : a.totalEq b = true) :
    a.totalHash = b.totalHash := by
  unfold NNum.totalEq at h
  rw [Bool.or_eq_true] at h
  rcases h with h | h
  · rw [num_eq_exact a b hwa hwb] at h
    obtain ⟨na, nb, hv⟩ := numEq_nanFree h
    rw [totalHash_val2 a hwa na, totalHash_val2 b hwb nb, hv]
  · rw [Bool.and_eq_true] at h
    rw [totalHash_nan a h.1, totalHash_nan b h.2]


/-! ## 2. keys of any list / vector nesting -/

/- well-formed hashable keys without dictionaries inside (the dict arm is treated separately) -/
mutual
def KeyOK : Val → Prop
  | .null => True
  | .num n => n.WF
  | .str _ => True
  | .bytes _ => True
  | .vec xs => ∀ n ∈ xs, NNum.WF n
  | .list xs => KeyOKList xs
  | .dict _ _ => False
  | .func _ => False
def KeyOKList : List Val → Prop
  | [] => True
  | x :: xs => KeyOK x ∧ KeyOKList xs
end

theorem numTotalEq_spec (a b : NNum) (hwa : a.WF) (hwb : b.WF) : a.totalEq b = numKeyEq a b := by
  unfold NNum.totalEq numKeyEq
  rw [num_eq_exact a b hwa hwb, isNan_iff_hasNan, isNan_iff_hasNan]

theorem vec_hash_consistent (xs ys : List NNum) (hx : ∀ n ∈ xs, NNum.WF n) (hy : ∀ n ∈ ys, NNum.WF n)
    (h : vecTotalEq xs ys = true) :
    xs.length = ys.length ∧ xs.flatMap NNum.totalHash = ys.flatMap NNum.totalHash := by
  induction xs generalizing ys with
  | nil => cases ys <;> simp_all [vecTotalEq, listEq]
  | cons x xs ih =>
    cases ys with
    | nil => simp [vecTotalEq, listEq] at h
    | cons y ys =>
      simp only [vecTotalEq, listEq, Bool.and_eq_true] at h
      have hxy := num_hash_consistent x y (hx x (List.mem_cons_self ..)) (hy y (List.mem_cons_self ..)) h.1
      have := ih ys (fun n hn => hx n (List.mem_cons_of_mem _ hn)) (fun n hn => hy n (List.mem_cons_of_mem _ hn)) h.2
      simp [List.flatMap_cons, hxy, this.1, this.2]

mutual
/-- **hash_consistent** for keys of any list/vector nesting: `a ≈ b → writes a = writes b` -/
theorem hash_consistent_partial (a b : Val) (ha : KeyOK a) (hb : KeyOK b) (h : totalEq a b = true) :
    writes a = writes b := by
  cases a with
  | null => cases b <;> simp_all [totalEq]
  | num x =>
    cases b <;> simp only [totalEq, Bool.false_eq_true] at h
    rename_i y
    simp only [writes]
    rw [num_hash_consistent x y ha hb h]
  | str x => cases b <;> simp_all [totalEq]
  | bytes x => cases b <;> simp_all [totalEq]
  | vec x =>
    cases b <;> simp only [totalEq, Bool.false_eq_true] at h
    rename_i y
    have := vec_hash_consistent x y ha hb h
    simp only [writes, this.1, this.2]
  | list xs =>
    cases b <;> simp only [totalEq, Bool.false_eq_true] at h
    rename_i ys
    have := hash_consistent_list xs ys ha hb h
    simp only [writes, this.1, this.2]
  | dict kvs d => exact absurd ha (by simp [KeyOK])
  | func i => exact absurd ha (by simp [KeyOK])
theorem hash_consistent_list (xs ys : List Val) (hx : KeyOKList xs) (hy : KeyOKList ys)
    (h : totalEqList xs ys = true) : xs.length = ys.length ∧ writesList xs = writesList ys := by
  cases xs with
  | nil => cases ys <;> simp_all [totalEqList]
  | cons x xs =>
    cases ys with
    | nil => simp [totalEqList] at h
    | cons y ys =>
      simp only [totalEqList, Bool.and_eq_true] at h
      simp only [KeyOKList] at hx hy
      have h1 := hash_consistent_partial x y hx.1 hy.1 h.1
      have h2 := hash_consistent_list xs ys hx.2 hy.2 h.2
      simp [writesList, h1, h2.1, h2.2]
end


theorem vecTotalEq_spec (xs ys : List NNum) (hx : ∀ n ∈ xs, NNum.WF n) (hy : ∀ n ∈ ys, NNum.WF n) :
    vecTotalEq xs ys = listEq numKeyEq xs ys := by
  induction xs generalizing ys with
  | nil => cases ys <;> rfl
  | cons x xs ih =>
    cases ys with
    | nil => rfl
    | cons y ys =>
      simp only [vecTotalEq, listEq]
      rw [numTotalEq_spec x y (hx x (List.mem_cons_self ..)) (hy y (List.mem_cons_self ..))]
      have := ih ys (fun n hn => hx n (List.mem_cons_of_mem _ hn)) (fun n hn => hy n (List.mem_cons_of_mem _ hn))
      simp only [vecTotalEq] at this
      rw [this]

mutual
/-- the Impl's key equality is the Spec's `≈` -/
theorem totalEq_spec (a b : Val) (ha : KeyOK a) (hb : KeyOK b) : totalEq a b = keyEq a b := by
  cases a with
  | null => cases b <;> rfl
  | num x =>
    cases b <;> simp only [totalEq, keyEq]
    exact numTotalEq_spec x _ ha hb
  | str x => cases b <;> rfl
  | bytes x => cases b <;> rfl
  | vec x =>
    cases b <;> simp only [totalEq, keyEq]
    exact vecTotalEq_spec x _ ha hb
  | list xs =>
    cases b <;> simp only [totalEq, keyEq]
    exact totalEqList_spec xs _ ha hb
  | dict kvs d => exact absurd ha (by simp [KeyOK])
  | func i => exact absurd ha (by simp [KeyOK])
theorem totalEqList_spec (xs ys : List Val) (hx : KeyOKList xs) (hy : KeyOKList ys) :
    totalEqList xs ys = keyEqList xs ys := by
  cases xs with
  | nil => cases ys <;> rfl
  | cons x xs =>
    cases ys with
    | nil => rfl
    | cons y ys =>
      simp only [KeyOKList] at hx hy
      simp only [totalEqList, keyEqList]
      rw [totalEq_spec x y hx.1 hy.1, totalEqList_spec xs ys hx.2 hy.2]
end

/-- **the HashMap sees exactly the Spec's `≈`**: a stored key is hit by a query iff they are `≈`
(needs `hash_consistent`: equal keys must land in the same bucket) -/
theorem keyHit_spec (k k' : Val) (hk : KeyOK k) (hk' : KeyOK k') : keyHit k k' = DictSpec.hit k k' := by
  unfold keyHit DictSpec.hit
  rw [← totalEq_spec k k' hk hk']
  cases h : totalEq k k' with
  | false => simp
  | true =>
    have := hash_consistent_partial k k' hk hk' h
    simp [this]

/-- keys that are not `≈` never collide, whatever their hashes -/
theorem unequal_never_collide (k k' : Val) (h : totalEq k k' = false) : keyHit k k' = false := by
  simp [keyHit, h]


/-! ## 3. `≈` is an equivalence on keys -/

theorem numEq_symm (a b : NNum) : numEq a b = numEq b a := by
  unfold numEq; rw [optEq_comm (reVal a), optEq_comm (imVal a)]

theorem numKeyEq_refl (a : NNum) : numKeyEq a a = true := by
  unfold numKeyEq
  cases h : hasNan a
  · simp [numEq_refl h]
  · simp

theorem numKeyEq_symm (a b : NNum) : numKeyEq a b = numKeyEq b a := by
  unfold numKeyEq; rw [numEq_symm, Bool.and_comm]

theorem numKeyEq_trans (a b c : NNum) (h1 : numKeyEq a b = true) (h2 : numKeyEq b c = true) :
    numKeyEq a c = true := by
  unfold numKeyEq at *
  rw [Bool.or_eq_true] at *
  rcases h1 with h1 | h1 <;> rcases h2 with h2 | h2
  · left
    rw [← numCmp_eq_iff] at *
    exact numCmp_trans a b c _ _ h1 h2 (Or.inl rfl)
  · obtain ⟨_, nb, _⟩ := numEq_nanFree h1
    rw [Bool.and_eq_true] at h2
    unfold nanFree at nb; rw [nb] at h2; simp at h2
  · obtain ⟨nb, _, _⟩ := numEq_nanFree h2
    rw [Bool.and_eq_true] at h1
    unfold nanFree at nb; rw [nb] at h1; simp at h1
  · right
    rw [Bool.and_eq_true] at *
    exact ⟨h1.1, h2.2⟩

theorem listEq_refl {α : Type} (e : α → α → Bool) (xs : List α) (h : ∀ x ∈ xs, e x x = true) : listEq e xs xs = true := by
  induction xs with
  | nil => rfl
  | cons x xs ih =>
    simp only [listEq, Bool.and_eq_true]
    exact ⟨h x (List.mem_cons_self ..), ih (fun y hy => h y (List.mem_cons_of_mem _ hy))⟩

theorem listEq_symm {α : Type} (e : α → α → Bool) (hs : ∀ x y, e x y = e y x) (xs ys : List α) :
    listEq e xs ys = listEq e ys xs := by
  induction xs generalizing ys with
  | nil => cases ys <;> rfl
  | cons x xs ih => cases ys with
    | nil => rfl
    | cons y ys => simp only [listEq]; rw [hs x y, ih ys]

theorem listEq_trans {α : Type} (e : α → α → Bool) (ht : ∀ x y z, e x y = true → e y z = true → e x z = true)
    (xs ys zs : List α) (h1 : listEq e xs ys = true) (h2 : listEq e ys zs = true) : listEq e xs zs = true := by
  induction xs generalizing ys zs with
  | nil => cases ys <;> cases zs <;> simp_all [listEq]
  | cons x xs ih =>
    cases ys with
    | nil => simp [listEq] at h1
    | cons y ys =>
      cases zs with
      | nil => simp [listEq] at h2
      | cons z zs =>
        simp only [listEq, Bool.and_eq_true] at *
        exact ⟨ht x y z h1.1 h2.1, ih ys zs h1.2 h2.2⟩

mutual
theorem keyEq_refl (a : Val) (ha : KeyOK a) : keyEq a a = true := by
  cases a with
  | null => rfl
  | num x => exact numKeyEq_refl x
  | str x => simp [keyEq]
  | bytes x => simp [keyEq]
  | vec x => exact listEq_refl _ _ (fun n _ => numKeyEq_refl n)
  | list xs => simp only [keyEq]; exact keyEqList_refl xs ha
  | dict kvs d => exact absurd ha (by simp [KeyOK])
  | func i => exact absurd ha (by simp [KeyOK])
theorem keyEqList_refl (xs : List Val) (hx : KeyOKList xs) : keyEqList xs xs = true := by
  cases xs with
  | nil => rfl
  | cons x xs =>
    simp only [KeyOKList] at hx
    simp only [keyEqList, Bool.and_eq_true]
    exact ⟨keyEq_refl x hx.1, keyEqList_refl xs hx.2⟩
end

mutual
theorem keyEq_symm (a b : Val) (ha : KeyOK a) : keyEq a b = keyEq b a := by
  cases a with
  | null => cases b <;> rfl
  | num x => cases b <;> simp only [keyEq]; exact numKeyEq_symm x _
  | str x => cases b <;> simp only [keyEq]; exact BEq.comm
  | bytes x => cases b <;> simp only [keyEq]; exact BEq.comm
  | vec x => cases b <;> simp only [keyEq]; exact listEq_symm _ numKeyEq_symm _ _
  | list xs => cases b <;> simp only [keyEq]; exact keyEqList_symm xs _ ha
  | dict kvs d => exact absurd ha (by simp [KeyOK])
  | func i => exact absurd ha (by simp [KeyOK])
theorem keyEqList_symm (xs ys : List Val) (hx : KeyOKList xs) : keyEqList xs ys = keyEqList ys xs := by
  cases xs with
  | nil => cases ys <;> rfl
  | cons x xs =>
    cases ys with
    | nil => rfl
    | cons y ys =>
      simp only [KeyOKList] at hx
      simp only [keyEqList]
      rw [keyEq_symm x y hx.1, keyEqList_symm xs ys hx.2]
end

mutual
theorem keyEq_trans (a b c : Val) (ha : KeyOK a) (h1 : keyEq a b = true) (h2 : keyEq b c = true) :
    keyEq a c = true := by
  cases a with
  | null => cases b <;> simp only [keyEq, Bool.false_eq_true] at h1; cases c <;> simp_all [keyEq]
  | num x =>
    cases b <;> simp only [keyEq, Bool.false_eq_true] at h1
    cases c <;> simp only [keyEq, Bool.false_eq_true] at h2 ⊢
    exact numKeyEq_trans _ _ _ h1 h2
  | str x =>
    cases b <;> simp only [keyEq, Bool.false_eq_true] at h1
    cases c <;> simp only [keyEq, Bool.false_eq_true] at h2 ⊢
    simp_all
  | bytes x =>
    cases b <;> simp only [keyEq, Bool.false_eq_true] at h1
    cases c <;> simp only [keyEq, Bool.false_eq_true] at h2 ⊢
    simp_all
  | vec x =>
    cases b <;> simp only [keyEq, Bool.false_eq_true] at h1
    cases c <;> simp only [keyEq, Bool.false_eq_true] at h2 ⊢
    exact listEq_trans _ numKeyEq_trans _ _ _ h1 h2
  | list xs =>
    cases b <;> simp only [keyEq, Bool.false_eq_true] at h1
    cases c <;> simp only [keyEq, Bool.false_eq_true] at h2 ⊢
    exact keyEqList_trans xs _ _ ha h1 h2
  | dict kvs d => exact absurd ha (by simp [KeyOK])
  | func i => exact absurd ha (by simp [KeyOK])
theorem keyEqList_trans (xs ys zs : List Val) (hx : KeyOKList xs) (h1 : keyEqList xs ys = true)
    (h2 : keyEqList ys zs = true) : keyEqList xs zs = true := by
  cases xs with
  | nil => cases ys <;> cases zs <;> simp_all [keyEqList]
  | cons x xs =>
    cases ys with
    | nil => simp [keyEqList] at h1
    | cons y ys =>
      cases zs with
      | nil => simp [keyEqList] at h2
      | cons z zs =>
        simp only [KeyOKList] at hx
        simp only [keyEqList, Bool.and_eq_true] at *
        exact ⟨keyEq_trans x y z hx.1 h1.1 h2.1, keyEqList_trans xs ys zs hx.2 h1.2 h2.2⟩
end

/-! ## 4. finite-map laws of the operations, for ANY key-hit relation that is an equivalence on
the keys in use (instantiated below with the Spec's `≈` and, through `keyHit_spec`, with the
HashMap's view) -/
section FinMap
variable {hit : Val → Val → Bool} {P : Val → Prop}

/-- `hit` is an equivalence relation on the keys satisfying `P` -/
structure IsEquivOn (hit : Val → Val → Bool) (P : Val → Prop) : Prop where
  refl : ∀ k, P k → hit k k = true
  symm : ∀ a b, P a → P b → hit a b = hit b a
  trans : ∀ a b c, P a → P b → P c → hit a b = true → hit b c = true → hit a c = true

/-- dictionary invariant: keys are valid and pairwise not `≈` (one representative per class) -/
def Inv (hit : Val → Val → Bool) (P : Val → Prop) (d : Entries) : Prop :=
  (∀ e ∈ d, P e.1) ∧ d.Pairwise (fun e f => hit e.1 f.1 = false)

theorem hit_congr_left (E : IsEquivOn hit P) {a b c : Val} (ha : P a) (hb : P b) (hc : P c)
    (hab : hit a b = true) : hit a c = hit b c := by
  cases h : hit b c with
  | true => exact E.trans a b c ha hb hc hab h
  | false =>
    cases h' : hit a c with
    | false => rfl
    | true =>
      have hba : hit b a = true := by rw [E.symm b a hb ha]; exact hab
      have := E.trans b a c hb ha hc hba h'
      rw [h] at this; cases this

theorem lookup_nil (k : Val) : lookup hit [] k = none := rfl

theorem lookup_cons (e : Val × Val) (d : Entries) (k : Val) :
    lookup hit (e :: d) k = if hit k e.1 then some e.2 else lookup hit d k := by
  simp only [lookup, find?, List.find?_cons]
  cases hit k e.1 <;> rfl

/-- lookup after insert: the new value for every key `≈` to the inserted one, unchanged elsewhere -/
theorem lookup_insert (E : IsEquivOn hit P) (d : Entries) (k k' v : Val) (hd : ∀ e ∈ d, P e.1)
    (hk : P k) (hk' : P k') :
    lookup hit (DictOps.insert hit d k v) k' = if hit k' k then some v else lookup hit d k' := by
  induction d with
  | nil => simp [DictOps.insert, lookup_cons, lookup_nil]
  | cons e d ih =>
    have he : P e.1 := hd e (List.mem_cons_self ..)
    have ih := ih (fun x hx => hd x (List.mem_cons_of_mem _ hx))
    simp only [DictOps.insert]
    cases hke : hit k e.1 with
    | true =>
      simp only [if_true, lookup_cons]
      -- k ≈ e.1, so k' hits e.1 iff it hits k
      have : hit k' k = hit k' e.1 := by
        rw [E.symm k' k hk' hk, E.symm k' e.1 hk' he]
        exact hit_congr_left E hk he hk' hke
      rw [this]
      cases hit k' e.1 <;> rfl
    | false =>
      simp only [Bool.false_eq_true, if_false, lookup_cons, ih]
      cases h1 : hit k' e.1 with
      | false => rfl
      | true =>
        -- k' ≈ e.1 and k not≈ e.1, so k' not≈ k
        have : hit k' k = false := by
          cases h2 : hit k' k with
          | false => rfl
          | true =>
            have hkk' : hit k k' = true := by rw [E.symm k k' hk hk']; exact h2
            have := E.trans k k' e.1 hk hk' he hkk' h1
            rw [hke] at this; cases this
        simp [this]

/-- lookup after remove -/
theorem lookup_erase (E : IsEquivOn hit P) (d : Entries) (k k' : Val) (hd : Inv hit P d)
    (hk : P k) (hk' : P k') :
    lookup hit (DictOps.erase hit d k) k' = if hit k' k then none else lookup hit d k' := by
  induction d with
  | nil => simp [DictOps.erase, lookup_nil]
  | cons e d ih =>
    have he : P e.1 := hd.1 e (List.mem_cons_self ..)
    have hp := List.pairwise_cons.mp hd.2
    have ih := ih ⟨fun x hx => hd.1 x (List.mem_cons_of_mem _ hx), hp.2⟩
    simp only [DictOps.erase]
    cases hke : hit k e.1 with
    | true =>
      simp only [if_true, lookup_cons]
      have hcongr : hit k' k = hit k' e.1 := by
        rw [E.symm k' k hk' hk, E.symm k' e.1 hk' he]
        exact hit_congr_left E hk he hk' hke
      cases h1 : hit k' e.1 with
      | false => simp [hcongr, h1]
      | true =>
        simp only [hcongr, h1, if_true]
        -- no other entry of d is ≈ e.1, hence none is hit by k'
        have : ∀ f ∈ d, hit k' f.1 = false := by
          intro f hf
          have hf' : P f.1 := hd.1 f (List.mem_cons_of_mem _ hf)
          rw [hit_congr_left E hk' he hf' h1]
          exact hp.1 f hf
        simp only [lookup, find?]
        rw [List.find?_eq_none.mpr]
        · rfl
        · intro x hx; simp [this x hx]
    | false =>
      simp only [Bool.false_eq_true, if_false, lookup_cons, ih]
      cases h1 : hit k' e.1 with
      | false => rfl
      | true =>
        have : hit k' k = false := by
          cases h2 : hit k' k with
          | false => rfl
          | true =>
            have hkk' : hit k k' = true := by rw [E.symm k k' hk hk']; exact h2
            have := E.trans k k' e.1 hk hk' he hkk' h1
            rw [hke] at this; cases this
        simp [this]


theorem contains_eq (d : Entries) (k : Val) : contains hit d k = (lookup hit d k).isSome := by
  simp [contains, lookup]

theorem mem_insert_key (d : Entries) (k v : Val) (e : Val × Val) (he : e ∈ DictOps.insert hit d k v) :
    e.1 = k ∨ ∃ f ∈ d, f.1 = e.1 := by
  induction d with
  | nil => simp [DictOps.insert] at he; left; rw [he]
  | cons f d ih =>
    simp only [DictOps.insert] at he
    split at he
    · rcases List.mem_cons.mp he with h | h
      · right; exact ⟨f, List.mem_cons_self .., by rw [h]⟩
      · right; exact ⟨e, List.mem_cons_of_mem _ h, rfl⟩
    · rcases List.mem_cons.mp he with h | h
      · right; exact ⟨f, List.mem_cons_self .., by rw [h]⟩
      · rcases ih h with h | ⟨g, hg, hge⟩
        · left; exact h
        · right; exact ⟨g, List.mem_cons_of_mem _ hg, hge⟩

/-- `insert` keeps the invariant (valid keys, one representative per class) -/
theorem inv_insert (E : IsEquivOn hit P) (d : Entries) (k v : Val) (hd : Inv hit P d) (hk : P k) :
    Inv hit P (DictOps.insert hit d k v) := by
  induction d with
  | nil =>
    refine ⟨?_, ?_⟩
    · intro e he; simp [DictOps.insert] at he; rw [he]; exact hk
    · simp [DictOps.insert]
  | cons f d ih =>
    have hf : P f.1 := hd.1 f (List.mem_cons_self ..)
    have hp := List.pairwise_cons.mp hd.2
    have hd' : Inv hit P d := ⟨fun x hx => hd.1 x (List.mem_cons_of_mem _ hx), hp.2⟩
    simp only [DictOps.insert]
    cases hkf : hit k f.1 with
    | true =>
      simp only [if_true]
      refine ⟨?_, ?_⟩
      · intro e he
        rcases List.mem_cons.mp he with h | h
        · rw [h]; exact hf
        · exact hd'.1 e h
      · exact List.pairwise_cons.mpr ⟨hp.1, hp.2⟩
    | false =>
      simp only [Bool.false_eq_true, if_false]
      have ih := ih hd'
      refine ⟨?_, ?_⟩
      · intro e he
        rcases List.mem_cons.mp he with h | h
        · rw [h]; exact hf
        · exact ih.1 e h
      · refine List.pairwise_cons.mpr ⟨?_, ih.2⟩
        intro e he
        rcases mem_insert_key d k v e he with h | ⟨g, hg, hge⟩
        · rw [h, E.symm f.1 k hf hk]; exact hkf
        · rw [← hge]; exact hp.1 g hg

theorem erase_sublist (d : Entries) (k : Val) : (DictOps.erase hit d k).Sublist d := by
  induction d with
  | nil => exact List.Sublist.slnil
  | cons f d ih =>
    simp only [DictOps.erase]
    split
    · exact List.sublist_cons_self f d
    · exact List.Sublist.cons_cons f ih

theorem inv_erase (d : Entries) (k : Val) (hd : Inv hit P d) : Inv hit P (DictOps.erase hit d k) :=
  ⟨fun e he => hd.1 e ((erase_sublist d k).subset he), hd.2.sublist (erase_sublist d k)⟩

theorem contains_cons (e : Val × Val) (d : Entries) (k : Val) :
    contains hit (e :: d) k = (hit k e.1 || contains hit d k) := by
  simp only [contains, find?, List.find?_cons]
  cases hit k e.1 <;> rfl

theorem contains_congr (y : Entries) (a b : Val) (h : ∀ z ∈ y, hit a z.1 = hit b z.1) :
    contains hit y a = contains hit y b := by
  induction y with
  | nil => rfl
  | cons z y ih =>
    rw [contains_cons, contains_cons, h z (List.mem_cons_self ..),
      ih (fun w hw => h w (List.mem_cons_of_mem _ hw))]

/-- `len` after insert: grows by one exactly when the key's class was absent -/
theorem length_insert (d : Entries) (k v : Val) :
    (DictOps.insert hit d k v).length = if contains hit d k then d.length else d.length + 1 := by
  induction d with
  | nil => simp [DictOps.insert, contains, find?]
  | cons f d ih =>
    rw [contains_cons]
    simp only [DictOps.insert]
    by_cases h : hit k f.1 = true
    · simp [h]
    · have h' : hit k f.1 = false := by simpa using h
      simp only [h', Bool.false_eq_true, if_false, List.length_cons, ih, Bool.false_or]
      split <;> rfl

/-- `len` after remove -/
theorem length_erase (d : Entries) (k : Val) :
    (DictOps.erase hit d k).length = if contains hit d k then d.length - 1 else d.length := by
  induction d with
  | nil => simp [DictOps.erase, contains, find?]
  | cons f d ih =>
    rw [contains_cons]
    simp only [DictOps.erase]
    by_cases h : hit k f.1 = true
    · simp [h]
    · have h' : hit k f.1 = false := by simpa using h
      simp only [h', Bool.false_eq_true, if_false, List.length_cons, ih, Bool.false_or]
      split
      · rename_i hc
        have : 0 < d.length := by
          cases d with
          | nil => simp [contains, find?] at hc
          | cons _ _ => simp
        omega
      · rfl

/-- union (`||`): the right operand wins on common classes -/
theorem lookup_insertAll (E : IsEquivOn hit P) (a b : Entries) (k' : Val) (ha : ∀ e ∈ a, P e.1)
    (hb : Inv hit P b) (hk' : P k') :
    lookup hit (insertAll hit a b) k' = match lookup hit b k' with
      | some v => some v
      | none => lookup hit a k' := by
  induction b generalizing a with
  | nil => simp [insertAll, lookup_nil]
  | cons f b ih =>
    obtain ⟨fk, fv⟩ := f
    have hf : P fk := hb.1 (fk, fv) (List.mem_cons_self ..)
    have hp := List.pairwise_cons.mp hb.2
    have hb' : Inv hit P b := ⟨fun x hx => hb.1 x (List.mem_cons_of_mem _ hx), hp.2⟩
    simp only [insertAll]
    have ha' : ∀ e ∈ DictOps.insert hit a fk fv, P e.1 := by
      intro e he
      rcases mem_insert_key a fk fv e he with h | ⟨g, hg, hge⟩
      · rw [h]; exact hf
      · rw [← hge]; exact ha g hg
    rw [ih (DictOps.insert hit a fk fv) ha' hb', lookup_cons, lookup_insert E a fk k' fv ha hf hk']
    cases h1 : hit k' fk with
    | false => simp
    | true =>
      -- k' ≈ fk, and no later entry of b is ≈ fk
      have : lookup hit b k' = none := by
        simp only [lookup, find?]
        rw [List.find?_eq_none.mpr]
        · rfl
        · intro x hx
          have hx' : P x.1 := hb.1 x (List.mem_cons_of_mem _ hx)
          rw [hit_congr_left E hk' hf hx' h1]
          simp [hp.1 x hx]
      simp [this]

/-- intersection (`&&`) and difference (`--`): keep exactly the classes (not) present on the right -/
theorem lookup_filter_contains (E : IsEquivOn hit P) (x y : Entries) (k' : Val) (keep : Bool)
    (hx : ∀ e ∈ x, P e.1) (hy : ∀ e ∈ y, P e.1) (hk' : P k') :
    lookup hit (x.filter fun e => contains hit y e.1 == keep) k' =
      if contains hit y k' == keep then lookup hit x k' else none := by
  induction x with
  | nil => simp [lookup_nil]
  | cons e x ih =>
    have he : P e.1 := hx e (List.mem_cons_self ..)
    have ih := ih (fun z hz => hx z (List.mem_cons_of_mem _ hz))
    -- membership on the right only depends on the class
    have hcls : hit k' e.1 = true → contains hit y e.1 = contains hit y k' := by
      intro h
      apply contains_congr
      intro z hz
      have hz' : P z.1 := hy z hz
      have h' : hit e.1 k' = true := by rw [E.symm e.1 k' he hk']; exact h
      exact hit_congr_left E he hk' hz' h'
    simp only [List.filter_cons]
    cases h1 : hit k' e.1 with
    | true =>
      rw [hcls h1]
      cases hc : (contains hit y k' == keep) with
      | true => simp [lookup_cons, h1]
      | false => simp only [Bool.false_eq_true, if_false]; rw [ih]; simp [hc]
    | false =>
      split
      · rw [lookup_cons, h1, ih, lookup_cons, h1]; simp
      · rw [ih, lookup_cons, h1]; simp

end FinMap

/-! ## 5. the Impl refines the finite map -/

theorem spec_isEquiv : IsEquivOn DictSpec.hit KeyOK where
  refl := fun k hk => keyEq_refl k hk
  symm := fun a b ha _ => keyEq_symm a b ha
  trans := fun a b c ha _ _ h1 h2 => keyEq_trans a b c ha h1 h2

/-- the HashMap's hit relation (same hasher writes AND `total_eq`) is an equivalence on keys — this
is where hash consistency is indispensable -/
theorem impl_isEquiv : IsEquivOn keyHit KeyOK where
  refl := fun k hk => by rw [keyHit_spec k k hk hk]; exact keyEq_refl k hk
  symm := fun a b ha hb => by rw [keyHit_spec a b ha hb, keyHit_spec b a hb ha]; exact keyEq_symm a b ha
  trans := fun a b c ha hb hc h1 h2 => by
    rw [keyHit_spec a b ha hb] at h1; rw [keyHit_spec b c hb hc] at h2; rw [keyHit_spec a c ha hc]
    exact keyEq_trans a b c ha h1 h2

section Refine
variable {h1 h2 : Val → Val → Bool} {P : Val → Prop}

theorem find_congr (H : ∀ k e, P k → P e → h1 k e = h2 k e) (d : Entries) (k : Val)
    (hd : ∀ e ∈ d, P e.1) (hk : P k) : find? h1 d k = find? h2 d k := by
  induction d with
  | nil => rfl
  | cons e d ih =>
    simp only [find?, List.find?_cons]
    rw [H k e.1 hk (hd e (List.mem_cons_self ..))]
    cases h2 k e.1
    · exact ih (fun x hx => hd x (List.mem_cons_of_mem _ hx))
    · rfl

theorem lookup_congr (H : ∀ k e, P k → P e → h1 k e = h2 k e) (d : Entries) (k : Val)
    (hd : ∀ e ∈ d, P e.1) (hk : P k) : lookup h1 d k = lookup h2 d k := by
  simp only [lookup, find_congr H d k hd hk]

theorem contains_congr2 (H : ∀ k e, P k → P e → h1 k e = h2 k e) (d : Entries) (k : Val)
    (hd : ∀ e ∈ d, P e.1) (hk : P k) : contains h1 d k = contains h2 d k := by
  simp only [contains, find_congr H d k hd hk]

theorem insert_congr (H : ∀ k e, P k → P e → h1 k e = h2 k e) (d : Entries) (k v : Val)
    (hd : ∀ e ∈ d, P e.1) (hk : P k) : DictOps.insert h1 d k v = DictOps.insert h2 d k v := by
  induction d with
  | nil => rfl
  | cons e d ih =>
    simp only [DictOps.insert]
    rw [H k e.1 hk (hd e (List.mem_cons_self ..)), ih (fun x hx => hd x (List.mem_cons_of_mem _ hx))]

theorem erase_congr (H : ∀ k e, P k → P e → h1 k e = h2 k e) (d : Entries) (k : Val)
    (hd : ∀ e ∈ d, P e.1) (hk : P k) : DictOps.erase h1 d k = DictOps.erase h2 d k := by
  induction d with
  | nil => rfl
  | cons e d ih =>
    simp only [DictOps.erase]
    rw [H k e.1 hk (hd e (List.mem_cons_self ..)), ih (fun x hx => hd x (List.mem_cons_of_mem _ hx))]

theorem insertAll_congr (H : ∀ k e, P k → P e → h1 k e = h2 k e) (a b : Entries)
    (ha : ∀ e ∈ a, P e.1) (hb : ∀ e ∈ b, P e.1) : insertAll h1 a b = insertAll h2 a b := by
  induction b generalizing a with
  | nil => rfl
  | cons f b ih =>
    obtain ⟨fk, fv⟩ := f
    have hf : P fk := hb (fk, fv) (List.mem_cons_self ..)
    simp only [insertAll]
    rw [insert_congr H a fk fv ha hf]
    apply ih
    · intro e he
      rcases mem_insert_key a fk fv e he with h | ⟨g, hg, hge⟩
      · rw [h]; exact hf
      · rw [← hge]; exact ha g hg
    · exact fun x hx => hb x (List.mem_cons_of_mem _ hx)

theorem filter_congr (H : ∀ k e, P k → P e → h1 k e = h2 k e) (x y : Entries) (keep : Bool)
    (hx : ∀ e ∈ x, P e.1) (hy : ∀ e ∈ y, P e.1) :
    (x.filter fun e => contains h1 y e.1 == keep) = (x.filter fun e => contains h2 y e.1 == keep) := by
  apply List.filter_congr
  intro e he
  rw [contains_congr2 H y e.1 hy (hx e he)]

end Refine

/-- all keys of a dictionary value are well-formed, dictionary-free keys -/
def DictOK : Val → Prop
  | .dict kvs _ => ∀ e ∈ kvs, KeyOK e.1
  | _ => True

mutual
theorem keyOK_valid (k : Val) (h : KeyOK k) : validKey k = true := by
  cases k with
  | null => rfl
  | num n => rfl
  | str _ => rfl
  | bytes _ => rfl
  | vec _ => rfl
  | list xs => simp only [validKey]; exact keyOKList_valid xs h
  | dict _ _ => exact absurd h (by simp [KeyOK])
  | func _ => exact absurd h (by simp [KeyOK])
theorem keyOKList_valid (xs : List Val) (h : KeyOKList xs) : validKeys xs = true := by
  cases xs with
  | nil => rfl
  | cons x xs =>
    simp only [KeyOKList] at h
    simp only [validKeys, Bool.and_eq_true]
    exact ⟨keyOK_valid x h.1, keyOKList_valid xs h.2⟩
end

/-- **dict_refines_finmap** (reads and single-key writes): on dictionaries and keys of any
list/vector nesting, every operation of the real `HashMap`-backed dictionary returns what the
finite map on `≈`-classes returns -/
theorem dict_refines_finmap (d k v : Val) (hd : DictOK d) (hk : KeyOK k) :
    DictOps.index keyHit d k = DictOps.index DictSpec.hit d k ∧
    DictOps.safeIndex keyHit d k = DictOps.safeIndex DictSpec.hit d k ∧
    DictOps.isIn keyHit k d = DictOps.isIn DictSpec.hit k d ∧
    DictOps.setIndex keyHit d k v = DictOps.setIndex DictSpec.hit d k v ∧
    DictOps.addKey keyHit d k = DictOps.addKey DictSpec.hit d k ∧
    DictOps.delKey keyHit d k = DictOps.delKey DictSpec.hit d k ∧
    DictOps.remove keyHit d k = DictOps.remove DictSpec.hit d k := by
  have H : ∀ k e, KeyOK k → KeyOK e → keyHit k e = DictSpec.hit k e := keyHit_spec
  cases d with
  | dict kvs dflt =>
    have hkv : ∀ e ∈ kvs, KeyOK e.1 := hd
    have hv := keyOK_valid k hk
    simp only [DictOps.index, DictOps.safeIndex, DictOps.isIn, DictOps.setIndex, DictOps.addKey, DictOps.delKey,
      DictOps.remove, DictOps.toKey, hv, if_true, Out.bind, Out.map,
      lookup_congr H kvs k hkv hk, contains_congr2 H kvs k hkv hk, insert_congr H kvs k _ hkv hk,
      erase_congr H kvs k hkv hk]
    simp
  | _ => simp [DictOps.index, DictOps.safeIndex, DictOps.isIn, DictOps.setIndex, DictOps.addKey, DictOps.delKey,
      DictOps.remove]

/-- **dict_refines_finmap** (whole-dictionary operators `||`, `&&`, `--`) -/
theorem dict_refines_finmap_binary (a b : Val) (ha : DictOK a) (hb : DictOK b) :
    DictOps.union keyHit a b = DictOps.union DictSpec.hit a b ∧
    DictOps.inter keyHit a b = DictOps.inter DictSpec.hit a b ∧
    DictOps.diff keyHit a b = DictOps.diff DictSpec.hit a b := by
  have H : ∀ k e, KeyOK k → KeyOK e → keyHit k e = DictSpec.hit k e := keyHit_spec
  cases a <;> cases b <;> simp only [DictOps.union, DictOps.inter, DictOps.diff, and_self]
  rename_i x dx y dy
  have hx : ∀ e ∈ x, KeyOK e.1 := ha
  have hy : ∀ e ∈ y, KeyOK e.1 := hb
  refine ⟨?_, ?_, ?_⟩
  · rw [insertAll_congr H x y hx hy]
  · have := filter_congr H x y true hx hy
    simp only [beq_true] at this
    rw [this]
  · have := filter_congr H x y false hx hy
    simp only [beq_false] at this
    rw [this]


/-- the finite-map law `lookup (insert d k v) k' = if k ≈ k' then some v else lookup d k'` for the
REAL dictionary (hash buckets included) -/
theorem impl_lookup_insert (d : Entries) (k k' v : Val) (hd : ∀ e ∈ d, KeyOK e.1) (hk : KeyOK k) (hk' : KeyOK k') :
    lookup keyHit (DictOps.insert keyHit d k v) k' = if keyEq k' k then some v else lookup keyHit d k' := by
  rw [lookup_insert impl_isEquiv d k k' v hd hk hk', keyHit_spec k' k hk' hk]; rfl

theorem impl_lookup_erase (d : Entries) (k k' : Val) (hd : Inv keyHit KeyOK d) (hk : KeyOK k) (hk' : KeyOK k') :
    lookup keyHit (DictOps.erase keyHit d k) k' = if keyEq k' k then none else lookup keyHit d k' := by
  rw [lookup_erase impl_isEquiv d k k' hd hk hk', keyHit_spec k' k hk' hk]; rfl

/-! ## 5b. the remaining operations refine the finite map as well -/
section Refine2
variable {h1 h2 : Val → Val → Bool} {P : Val → Prop}

theorem insert_keys (hit : Val → Val → Bool) (d : Entries) (k v : Val) (hd : ∀ e ∈ d, P e.1) (hk : P k) :
    ∀ e ∈ DictOps.insert hit d k v, P e.1 := by
  intro e he
  rcases mem_insert_key d k v e he with h | ⟨g, hg, hge⟩
  · rw [h]; exact hk
  · rw [← hge]; exact hd g hg

theorem uniqueLoop_congr (H : ∀ k e, P k → P e → h1 k e = h2 k e) (xs : List Val) (seen : Entries)
    (hs : ∀ e ∈ seen, P e.1) (hx : ∀ x ∈ xs, P x) : uniqueLoop h1 seen xs = uniqueLoop h2 seen xs := by
  induction xs generalizing seen with
  | nil => rfl
  | cons x xs ih =>
    have hxP : P x := hx x (List.mem_cons_self ..)
    simp only [uniqueLoop]
    rw [contains_congr2 H seen x hs hxP, insert_congr H seen x _ hs hxP,
      ih seen hs (fun y hy => hx y (List.mem_cons_of_mem _ hy)),
      ih _ (insert_keys h2 seen x .null hs hxP) (fun y hy => hx y (List.mem_cons_of_mem _ hy))]

theorem freqLoop_congr (H : ∀ k e, P k → P e → h1 k e = h2 k e) (xs : List Val) (acc : Entries)
    (hs : ∀ e ∈ acc, P e.1) (hx : ∀ x ∈ xs, P x) : freqLoop h1 acc xs = freqLoop h2 acc xs := by
  induction xs generalizing acc with
  | nil => rfl
  | cons x xs ih =>
    have hxP : P x := hx x (List.mem_cons_self ..)
    simp only [freqLoop]
    rw [lookup_congr H acc x hs hxP, insert_congr H acc x _ hs hxP,
      ih _ (insert_keys h2 acc x _ hs hxP) (fun y hy => hx y (List.mem_cons_of_mem _ hy))]

theorem groupLoop_congr (H : ∀ k e, P k → P e → h1 k e = h2 k e) (xs : List Val) (acc : Entries)
    (hs : ∀ e ∈ acc, P e.1) (hx : ∀ x ∈ xs, P x) : groupLoop h1 acc xs = groupLoop h2 acc xs := by
  induction xs generalizing acc with
  | nil => rfl
  | cons x xs ih =>
    have hxP : P x := hx x (List.mem_cons_self ..)
    simp only [groupLoop]
    rw [lookup_congr H acc x hs hxP, insert_congr H acc x _ hs hxP,
      ih _ (insert_keys h2 acc x _ hs hxP) (fun y hy => hx y (List.mem_cons_of_mem _ hy))]

theorem memoLoop_congr (H : ∀ k e, P k → P e → h1 k e = h2 k e) (xs : List Val) (memo : Entries)
    (hs : ∀ e ∈ memo, P e.1) (hx : ∀ x ∈ xs, P x) : memoLoop h1 memo xs = memoLoop h2 memo xs := by
  induction xs generalizing memo with
  | nil => rfl
  | cons x xs ih =>
    have hxP : P x := hx x (List.mem_cons_self ..)
    simp only [memoLoop]
    rw [lookup_congr H memo x hs hxP, insert_congr H memo x _ hs hxP,
      ih memo hs (fun y hy => hx y (List.mem_cons_of_mem _ hy)),
      ih _ (insert_keys h2 memo x _ hs hxP) (fun y hy => hx y (List.mem_cons_of_mem _ hy))]

theorem unionAddLoop_congr (H : ∀ k e, P k → P e → h1 k e = h2 k e) (y x : Entries)
    (hx : ∀ e ∈ x, P e.1) (hy : ∀ e ∈ y, P e.1) : unionAddLoop h1 x y = unionAddLoop h2 x y := by
  induction y generalizing x with
  | nil => rfl
  | cons f y ih =>
    obtain ⟨k, v⟩ := f
    have hk : P k := hy (k, v) (List.mem_cons_self ..)
    have hy' : ∀ e ∈ y, P e.1 := fun e he => hy e (List.mem_cons_of_mem _ he)
    simp only [unionAddLoop]
    rw [lookup_congr H x k hx hk]
    cases lookup h2 x k with
    | none =>
      simp only
      rw [insert_congr H x k v hx hk]
      exact ih _ (insert_keys h2 x k v hx hk) hy'
    | some old =>
      simp only
      cases addVals old v with
      | ok s =>
        simp only
        rw [insert_congr H x k s hx hk]
        exact ih _ (insert_keys h2 x k s hx hk) hy'
      | throw => rfl
      | panic => rfl

end Refine2

theorem all_valid_of_keyOK (xs : List Val) (h : ∀ x ∈ xs, KeyOK x) : xs.all validKey = true := by
  rw [List.all_eq_true]; intro x hx; exact keyOK_valid x (h x hx)

/-- **dict_refines_finmap** (constructors and aggregations): literal construction, `set`, `dict`,
`unique`, `frequencies`, `count_distinct`, `classify`, `group_all`, `memoize`, `||+` and `d[k] f= v`
return what the finite map on `≈`-classes returns, for keys of any list/vector nesting -/
theorem dict_refines_finmap_builders (xs : List Val) (ps : Entries) (dflt : Option Val)
    (hx : ∀ x ∈ xs, KeyOK x) (hp : ∀ e ∈ ps, KeyOK e.1) :
    DictOps.literal keyHit dflt ps = DictOps.literal DictSpec.hit dflt ps ∧
    DictOps.mkSet keyHit xs = DictOps.mkSet DictSpec.hit xs ∧
    DictOps.unique keyHit xs = DictOps.unique DictSpec.hit xs ∧
    DictOps.frequencies keyHit xs = DictOps.frequencies DictSpec.hit xs ∧
    DictOps.countDistinct keyHit xs = DictOps.countDistinct DictSpec.hit xs ∧
    DictOps.classify keyHit xs = DictOps.classify DictSpec.hit xs ∧
    DictOps.groupAll keyHit xs = DictOps.groupAll DictSpec.hit xs ∧
    DictOps.memoize keyHit xs = DictOps.memoize DictSpec.hit xs := by
  have H : ∀ k e, KeyOK k → KeyOK e → keyHit k e = DictSpec.hit k e := keyHit_spec
  have hnil : ∀ e ∈ ([] : Entries), KeyOK e.1 := by intro e he; cases he
  have hxs : ∀ e ∈ xs.map (fun x => (x, Val.null)), KeyOK e.1 := by
    intro e he
    obtain ⟨x, hx', rfl⟩ := List.mem_map.mp he
    exact hx x hx'
  refine ⟨?_, ?_, ?_, ?_, ?_, ?_, ?_, ?_⟩
  · simp only [DictOps.literal, insertAll_congr H [] ps hnil hp]
  · simp only [DictOps.mkSet, insertAll_congr H [] _ hnil hxs]
  · simp only [DictOps.unique, uniqueLoop_congr H xs [] hnil hx]
  · simp only [DictOps.frequencies, freqLoop_congr H xs [] hnil hx]
  · simp only [DictOps.countDistinct, uniqueLoop_congr H xs [] hnil hx]
  · simp only [DictOps.classify, groupLoop_congr H xs [] hnil hx]
  · simp only [DictOps.groupAll, groupLoop_congr H xs [] hnil hx]
  · simp only [DictOps.memoize, memoLoop_congr H xs [] hnil hx]

theorem dict_refines_finmap_update (a b d k v : Val) (f : String) (ha : DictOK a) (hb : DictOK b) (hd : DictOK d)
    (hk : KeyOK k) :
    DictOps.unionAdd keyHit a b = DictOps.unionAdd DictSpec.hit a b ∧
    DictOps.opAssign keyHit d k f v = DictOps.opAssign DictSpec.hit d k f v ∧
    DictOps.insertPair keyHit d (.list [k, v]) = DictOps.insertPair DictSpec.hit d (.list [k, v]) := by
  have H : ∀ k e, KeyOK k → KeyOK e → keyHit k e = DictSpec.hit k e := keyHit_spec
  refine ⟨?_, ?_, ?_⟩
  · cases a <;> cases b <;> simp only [DictOps.unionAdd]
    rename_i x dx y dy
    rw [unionAddLoop_congr H y x ha hb]
  · have hidx := (dict_refines_finmap d k v hd hk).1
    cases d with
    | dict kvs dflt =>
      have hkv : ∀ e ∈ kvs, KeyOK e.1 := hd
      simp only [DictOps.opAssign, hidx, insert_congr H kvs k .null hkv hk]
      cases DictOps.index DictSpec.hit (.dict kvs dflt) k with
      | ok lhs =>
        simp only
        cases combine f lhs v with
        | ok c =>
          simp only
          rw [insert_congr H _ k c (insert_keys DictSpec.hit kvs k .null hkv hk) hk]
        | throw => rfl
        | panic => rfl
      | throw => rfl
      | panic => rfl
    | _ => rfl
  · simp only [DictOps.insertPair]
    exact (dict_refines_finmap d k v hd hk).2.2.2.1


/-! ## 6. the dict arm of the hash does not depend on the iteration order of the `HashMap` -/

theorem foldl_add_mod (g : Nat → Nat) (M : Nat) (hM : 0 < M) (l : List Nat) (a : Nat) (ha : a < M) :
    l.foldl (fun acc f => (acc + g f) % M) a = (a + (l.map g).sum) % M := by
  induction l generalizing a with
  | nil => simp [Nat.mod_eq_of_lt ha]
  | cons x xs ih =>
    simp only [List.foldl_cons, List.map_cons, List.sum_cons]
    rw [ih _ (Nat.mod_lt _ hM), Nat.mod_add_mod, Nat.add_assoc]

theorem perm_sum_eq {l1 l2 : List Nat} (h : l1.Perm l2) : l1.sum = l2.sum := by
  induction h with
  | nil => rfl
  | cons x _ ih => simp [ih]
  | swap x y l => simp only [List.sum_cons]; omega
  | trans _ _ ih1 ih2 => rw [ih1, ih2]

theorem entryHashes_eq_map (kvs : Entries) :
    entryHashes kvs = kvs.map fun e => sipFinish (writes e.1 ++ writes e.2) := by
  induction kvs with
  | nil => rfl
  | cons e kvs ih => obtain ⟨k, v⟩ := e; simp [entryHashes, ih]

/-- **dict_hash_order_independent**: the writes of a dictionary key are invariant under any
permutation of its entries (commutativity of the wrapping sums), whatever SipHash is -/
theorem dict_hash_order_independent (kvs kvs' : Entries) (d d' : Option Val) (h : kvs.Perm kvs') :
    writes (.dict kvs d) = writes (.dict kvs' d') := by
  have hp : (entryHashes kvs).Perm (entryHashes kvs') := by
    rw [entryHashes_eq_map, entryHashes_eq_map]; exact h.map _
  simp only [writes]
  have hM : 0 < U64 := by decide
  have e1 := foldl_add_mod (fun f => f) U64 hM (entryHashes kvs) 0 hM
  have e2 := foldl_add_mod (fun f => f) U64 hM (entryHashes kvs') 0 hM
  have e3 := foldl_add_mod (fun f => (f * f) % U64) U64 hM (entryHashes kvs) 0 hM
  have e4 := foldl_add_mod (fun f => (f * f) % U64) U64 hM (entryHashes kvs') 0 hM
  simp only [List.map_id'] at e1 e2
  rw [e1, e2, e3, e4, perm_sum_eq hp, perm_sum_eq (hp.map _)]

/-! ## 7. what the pinned snapshot did (finding F6), kept as a refutation -/

/-- `NNum::total_hash` as it was before the `fix:` commit: rationals as raw numerator /
denominator `BigInt`s, complex numbers as two float hashes, non-integral floats by their bits -/
def totalHashOld : NNum → List HWrite
  | .int a => hashNInt a
  | .rat q => hashBigInt q.num ++ (if q.den = 1 then [] else hashBigInt (q.den : Int))
  | .float f => match toNIntIfInt f with
    | some s => hashNInt s
    | none => [.u64 0]      -- stands for `f.to_bits().hash`: never an integer / fraction hash
  | .complex re im => (match toNIntIfInt re with
      | some s => hashNInt s
      | none => [.u64 0]) ++ (match toNIntIfInt im with
      | some s => hashNInt s
      | none => [.u64 0])

/-- `2/2 == 1`, `1+0i == 1`, `1/2 == 0.5` but the old hashes differ: the three lookups of F6 -/
theorem old_hash_inconsistent :
    (NNum.totalEq (.rat 1) (.int (.small 1)) = true ∧ totalHashOld (.rat 1) ≠ totalHashOld (.int (.small 1))) ∧
    (NNum.totalEq (.complex (.fin 1 0) (.fin 0 0)) (.int (.small 1)) = true ∧
      totalHashOld (.complex (.fin 1 0) (.fin 0 0)) ≠ totalHashOld (.int (.small 1))) ∧
    (NNum.totalEq (.rat (1/2)) (.float (.fin 1 (-1))) = true ∧
      totalHashOld (.rat (1/2)) ≠ totalHashOld (.float (.fin 1 (-1)))) := by
  decide +kernel

/-! ## 8. the full-strength statement: EVERY key, nested dictionaries included
(proved in Theorems/C09Keys.lean as `hash_consistent` / `hash_consistent_holds`) -/

/- well-formed hashable keys of ANY nesting, dictionaries included: what `to_key` can produce.
`Small` integers hold an i64; a dictionary used as (part of) a key is a real `HashMap`: its keys and
values are keys again and no two of its stored keys hit each other. -/
mutual
def KeyWF : Val → Prop
  | .null => True
  | .num n => n.WF
  | .str _ => True
  | .bytes _ => True
  | .vec xs => ∀ n ∈ xs, NNum.WF n
  | .list xs => KeyWFList xs
  | .dict kvs _ => KeyWFEntries kvs ∧
      kvs.Pairwise (fun e f => ¬ keyHit e.1 f.1 = true ∧ ¬ keyHit f.1 e.1 = true)
  | .func _ => False
def KeyWFList : List Val → Prop
  | [] => True
  | x :: xs => KeyWF x ∧ KeyWFList xs
def KeyWFEntries : List (Val × Val) → Prop
  | [] => True
  | (k, v) :: rest => KeyWF k ∧ KeyWF v ∧ KeyWFEntries rest
end


/-- full-strength hash consistency: for every pair of keys `to_key` can produce — any nesting of
lists, vectors AND dictionaries.  (`KeyWF` is the representation invariant of such keys; plain
`validKey` is not enough: an association list with two `≈` stored keys is not a `HashMap`, and for
such a non-map the claim is false.) -/
def hash_consistent_statement : Prop :=
  ∀ a b : Val, KeyWF a → KeyWF b → totalEq a b = true → writes a = writes b

/-! ## non-vacuity -/
example : KeyOK (.list [.num (.rat (1/2)), .vec [.float (.fin 1 (-1))], .str [97]]) := by
  simp [KeyOK, KeyOKList, NNum.WF]
example : keyHit (.list [.num (.rat 1)]) (.list [.num (.complex (.fin 1 0) .nzero)]) = true := by decide +kernel
example : keyHit (.num (.float .nan)) (.num (.complex (.fin 1 0) .nan)) = true := by decide +kernel
example : keyHit (.num (.int (.big (2^64)))) (.num (.float (.fin 1 64))) = true := by decide +kernel
example : keyHit (.num (.float (.fin 0 0))) (.num (.float .nzero)) = true := by decide +kernel
example : keyHit (.num (.int (.small 1))) (.num (.int (.small 2))) = false := by decide +kernel
example : DictOps.index keyHit (.dict [(.num (.int (.small 1)), .str [97])] none) (.num (.rat 1)) = .ok (.str [97]) → True :=
  fun _ => trivial

end Noulith.C09
