/-
C08 (continued) — `sort(xs, f)` (`sorted_by`) and `sort_on(xs, f)` (`sorted_on`), with the function
value as a parameter of the model (`f : Val → Out Val`, `f : Val → Val → Out Val`), and the sort
theorem without the reflexivity side condition (`sort_spec_strong`).
-/
import NoulithModel.Theorems.C08

namespace Noulith.C08
open Noulith OrdSpec

/-! ## comparability as a pairwise property; the sort theorem without the reflexivity side condition -/
section Strong
variable {α : Type} {c : α → α → Option Ordering}

/-- every two elements at different positions compare, in both orders -/
def PwComparable (c : α → α → Option Ordering) (l : List α) : Prop :=
  l.Pairwise (fun x y => (c x y).isSome ∧ (c y x).isSome)

theorem allComparable_iff (l : List α) : allComparable c l = true ↔ PwComparable c l := by
  induction l with
  | nil => simp [allComparable, PwComparable]
  | cons a l ih =>
    simp only [allComparable, Bool.and_eq_true, List.all_eq_true, PwComparable, List.pairwise_cons]
    rw [ih]; rfl

theorem sortWith_sorted_pw (hs : SwapLaw c) (ht : TransLaw c) (l : List α) (hc : PwComparable c l) :
    (sortWith c l).Pairwise (LE c) := by
  induction l with
  | nil => simp [sortWith]
  | cons x xs ih =>
    have hp := List.pairwise_cons.mp hc
    simp only [sortWith]
    apply insertFront_sorted hs ht
    · intro y hy
      exact (hp.1 y ((sortWith_perm (c := c) xs).mem_iff.mp hy)).1
    · exact ih hp.2

/-- **sort, full statement**: `sorted c l` succeeds iff the list has at most one element or its
elements are pairwise comparable; the result then is the stable sorted permutation -/
theorem sort_spec_strong (hs : SwapLaw c) (ht : TransLaw c) (l : List α) :
    (∀ r, sorted c l = .ok r →
      r.Perm l ∧ (1 < l.length → r.Pairwise (LE c)) ∧
      ∀ w, r.filter (fun y => c y w == some .eq) = l.filter (fun y => c y w == some .eq)) ∧
    (sorted c l = .throw ↔ (1 < l.length ∧ ¬ PwComparable c l)) ∧
    sorted c l ≠ .panic := by
  refine ⟨?_, ?_, ?_⟩
  · intro r h
    unfold sorted at h
    split at h
    · rename_i hlen
      cases h
      exact ⟨List.Perm.refl _, fun h1 => by omega, fun _ => rfl⟩
    · split at h
      · rename_i hall
        cases h
        exact ⟨sortWith_perm l, fun _ => sortWith_sorted_pw hs ht l ((allComparable_iff l).mp hall),
          fun w => sortWith_stable hs ht w l⟩
      · cases h
  · rw [sort_raises_iff, ← allComparable_iff]
    simp
  · unfold sorted
    split
    · simp
    · split <;> simp

end Strong

/-! ## pulling a comparison back along a key function -/
section Comap
variable {α β : Type}

def comap (c : β → β → Option Ordering) (g : α → β) (a b : α) : Option Ordering := c (g a) (g b)

theorem comap_swap {c : β → β → Option Ordering} (g : α → β) (h : SwapLaw c) : SwapLaw (comap c g) :=
  fun a b => h (g a) (g b)
theorem comap_trans {c : β → β → Option Ordering} (g : α → β) (h : TransLaw c) : TransLaw (comap c g) :=
  fun a b z o1 o2 h1 h2 hc => h (g a) (g b) (g z) o1 o2 h1 h2 hc

theorem insertFront_map (c : β → β → Option Ordering) (g : α → β) (x : α) (l : List α) :
    (sortWith.insertFront (comap c g) x l).map g = sortWith.insertFront c (g x) (l.map g) := by
  induction l with
  | nil => rfl
  | cons y ys ih =>
    simp only [sortWith.insertFront, List.map_cons]
    have : leOf (comap c g) x y = leOf c (g x) (g y) := rfl
    rw [this]
    split
    · rfl
    · simp [ih]

/-- sorting by a pulled-back comparison commutes with mapping the key function -/
theorem sortWith_map (c : β → β → Option Ordering) (g : α → β) (l : List α) :
    (sortWith (comap c g) l).map g = sortWith c (l.map g) := by
  induction l with
  | nil => rfl
  | cons x xs ih => simp only [sortWith, List.map_cons, insertFront_map, ih]

theorem allComparable_map (c : β → β → Option Ordering) (g : α → β) (l : List α) :
    allComparable (comap c g) l = allComparable c (l.map g) := by
  induction l with
  | nil => rfl
  | cons x xs ih =>
    simp only [allComparable, List.map_cons, ih, List.all_map]
    rfl

theorem sorted_map (c : β → β → Option Ordering) (g : α → β) (l : List α) :
    (sorted (comap c g) l).map (List.map g) = sorted c (l.map g) := by
  unfold sorted
  simp only [List.length_map, allComparable_map]
  split
  · rfl
  · split
    · simp [Out.map, sortWith_map]
    · rfl

end Comap

/-! ## `sort_on` -/

/-- the key of an element (`null` where `f` raises — never looked at then) -/
def keyOf (f : Val → Out Val) (x : Val) : Val :=
  match f x with
  | .ok k => k
  | _ => .null

theorem optOfOut_ncmp (a b : Val) : optOfOut (ncmp a b) = pc a b := by
  unfold optOfOut pc; cases ncmp a b <;> rfl

theorem mapKeys_ok (f : Val → Out Val) (xs : List Val) (h : ∀ x ∈ xs, ∃ k, f x = .ok k) :
    mapKeys f xs = .ok (xs.map fun x => (keyOf f x, x)) := by
  induction xs with
  | nil => rfl
  | cons x xs ih =>
    obtain ⟨k, hk⟩ := h x (List.mem_cons_self ..)
    simp only [mapKeys, hk, ih (fun y hy => h y (List.mem_cons_of_mem _ hy)), Out.map, List.map_cons, keyOf]

theorem mapKeys_not_ok (f : Val → Out Val) (xs : List Val) (h : ∃ x ∈ xs, ∀ k, f x ≠ .ok k) :
    ∀ w, mapKeys f xs ≠ .ok w := by
  induction xs with
  | nil => obtain ⟨x, hx, _⟩ := h; cases hx
  | cons y ys ih =>
    intro w
    obtain ⟨x, hx, hne⟩ := h
    simp only [mapKeys]
    cases hy : f y with
    | ok k =>
      simp only
      rcases List.mem_cons.mp hx with rfl | hx'
      · exact absurd hy (hne k)
      · cases hm : mapKeys f ys with
        | ok w' => exact absurd hm (ih ⟨x, hx', hne⟩ w')
        | throw => simp [Out.map]
        | panic => simp [Out.map]
    | throw => simp
    | panic => simp

theorem mapKeys_throw (f : Val → Out Val) (hf : ∀ x, f x ≠ .panic) (xs : List Val) :
    mapKeys f xs ≠ .panic := by
  induction xs with
  | nil => simp [mapKeys]
  | cons y ys ih =>
    simp only [mapKeys]
    cases hy : f y with
    | ok k =>
      simp only
      cases hm : mapKeys f ys with
      | ok w => simp [Out.map]
      | throw => simp [Out.map]
      | panic => exact absurd hm ih
    | throw => simp
    | panic => exact absurd hy (hf y)

/-- when `f` succeeds on every element, `sort_on(xs, f)` is the stable sort of `xs` by the
comparison of the keys -/
theorem sortedOn_eq (f : Val → Out Val) (xs : List Val) (h : ∀ x ∈ xs, ∃ k, f x = .ok k) :
    sortedOn ncmp f xs = sorted (comap pc (keyOf f)) xs := by
  unfold sortedOn
  rw [mapKeys_ok f xs h]
  simp only [Out.bind]
  have hc : (fun p q : Val × Val => optOfOut (ncmp p.1 q.1)) = comap pc (Prod.fst : Val × Val → Val) := by
    funext p q; exact optOfOut_ncmp p.1 q.1
  rw [hc]
  have hg : comap pc (keyOf f) = comap (comap pc (Prod.fst : Val × Val → Val)) (fun x => (keyOf f x, x)) := rfl
  rw [hg, ← sorted_map]
  cases sorted (comap (comap pc Prod.fst) fun x => (keyOf f x, x)) xs with
  | ok r => simp [Out.map, List.map_map, Function.comp_def]
  | throw => rfl
  | panic => rfl

/-- **sort_on**: whenever `sort_on(xs, f)` returns, `f` succeeded on every element and the result
is a permutation of `xs`, ascending in the keys, with equal-keyed elements in input order -/
theorem sort_on_sorted_perm_stable (f : Val → Out Val) (xs r : List Val) (h : sortedOn ncmp f xs = .ok r) :
    (∀ x ∈ xs, ∃ k, f x = .ok k) ∧ r.Perm xs ∧
    (1 < xs.length → r.Pairwise (fun a b => LE pc (keyOf f a) (keyOf f b))) ∧
    ∀ w, r.filter (fun y => pc (keyOf f y) (keyOf f w) == some .eq) =
         xs.filter (fun y => pc (keyOf f y) (keyOf f w) == some .eq) := by
  have hall : ∀ x ∈ xs, ∃ k, f x = .ok k := by
    intro x hx
    cases hfx : f x with
    | ok k => exact ⟨k, rfl⟩
    | throw =>
      have := mapKeys_not_ok f xs ⟨x, hx, fun k => by rw [hfx]; simp⟩
      unfold sortedOn at h
      cases hm : mapKeys f xs with
      | ok w => exact absurd hm (this w)
      | throw => rw [hm] at h; simp [Out.bind] at h
      | panic => rw [hm] at h; simp [Out.bind] at h
    | panic =>
      have := mapKeys_not_ok f xs ⟨x, hx, fun k => by rw [hfx]; simp⟩
      unfold sortedOn at h
      cases hm : mapKeys f xs with
      | ok w => exact absurd hm (this w)
      | throw => rw [hm] at h; simp [Out.bind] at h
      | panic => rw [hm] at h; simp [Out.bind] at h
  rw [sortedOn_eq f xs hall] at h
  obtain ⟨h1, _, _⟩ := sort_spec_strong (comap_swap (keyOf f) pc_swap) (comap_trans (keyOf f) pc_trans) xs
  obtain ⟨p1, p2, p3⟩ := h1 r h
  exact ⟨hall, p1, p2, p3⟩

/-- **sort_on raises** exactly when `f` raises on some element or two keys do not compare -/
theorem sort_on_raises_iff (f : Val → Out Val) (hf : ∀ x, f x ≠ .panic) (xs : List Val) :
    sortedOn ncmp f xs = .throw ↔
      ((∃ x ∈ xs, f x = .throw) ∨ (1 < xs.length ∧ ¬ PwComparable (comap pc (keyOf f)) xs)) := by
  by_cases hall : ∀ x ∈ xs, ∃ k, f x = .ok k
  · rw [sortedOn_eq f xs hall]
    obtain ⟨_, h2, _⟩ := sort_spec_strong (comap_swap (keyOf f) pc_swap) (comap_trans (keyOf f) pc_trans) xs
    rw [h2]
    constructor
    · intro h; exact Or.inr h
    · rintro (⟨x, hx, hfx⟩ | h)
      · obtain ⟨k, hk⟩ := hall x hx; rw [hk] at hfx; cases hfx
      · exact h
  · have hex : ∃ x ∈ xs, f x = .throw := by
      apply Classical.byContradiction
      intro hno
      apply hall
      intro x hx
      cases hfx : f x with
      | ok k => exact ⟨k, rfl⟩
      | throw => exact absurd ⟨x, hx, hfx⟩ hno
      | panic => exact absurd hfx (hf x)
    constructor
    · intro _; exact Or.inl hex
    · intro _
      obtain ⟨x, hx, hfx⟩ := hex
      have h1 := mapKeys_not_ok f xs ⟨x, hx, fun k => by rw [hfx]; simp⟩
      have h2 := mapKeys_throw f hf xs
      unfold sortedOn
      cases hm : mapKeys f xs with
      | ok w => exact absurd hm (h1 w)
      | throw => rfl
      | panic => exact absurd hm h2


/-! ## `sort(xs, f)` (`sorted_by`) -/

/-- **sort_by**: for a comparator function `f` that is a consistent three-way comparison on the
values (`f(b,a)` is the negation of `f(a,b)`; transitive) the result is the stable sorted
permutation; `sort(xs, f)` raises exactly when (≥ 2 elements and) for some pair `f` raises or
returns something that does not compare with 0; it never panics -/
theorem sort_by_sorted_perm_stable (f : Val → Val → Out Val)
    (hs : SwapLaw (byCmp ncmp f)) (ht : TransLaw (byCmp ncmp f)) (xs : List Val) :
    (∀ r, sortedBy ncmp f xs = .ok r →
      r.Perm xs ∧ (1 < xs.length → r.Pairwise (LE (byCmp ncmp f))) ∧
      ∀ w, r.filter (fun y => byCmp ncmp f y w == some .eq) = xs.filter (fun y => byCmp ncmp f y w == some .eq)) ∧
    (sortedBy ncmp f xs = .throw ↔ (1 < xs.length ∧ ¬ PwComparable (byCmp ncmp f) xs)) ∧
    sortedBy ncmp f xs ≠ .panic :=
  sort_spec_strong hs ht xs

/-- a comparator that raises (or returns a non-number) on a pair makes that pair incomparable -/
theorem byCmp_none_of_raise (f : Val → Val → Out Val) (a b : Val) (h : ∀ k, f a b ≠ .ok k) :
    byCmp ncmp f a b = none := by
  unfold byCmp
  cases hf : f a b with
  | ok k => exact absurd hf (h k)
  | throw => rfl
  | panic => rfl

theorem ncmp_ordVal (o : Ordering) : ncmp (ordVal o) zeroVal = .ok o := by
  cases o <;> decide +kernel

theorem byCmp_spaceship : byCmp ncmp (cmpFn ncmp "cmp") = pc := by
  funext a b
  simp only [byCmp, cmpFn, pc]
  cases ncmp a b with
  | ok o => simp only [Out.map, ncmp_ordVal, optOfOut]
  | throw => rfl
  | panic => rfl

theorem byCmp_rev : byCmp ncmp (cmpFn ncmp "rcmp") = fun a b => pc b a := by
  funext a b
  simp only [byCmp, cmpFn, pc]
  cases ncmp b a with
  | ok o => simp only [Out.map, ncmp_ordVal, optOfOut]
  | throw => rfl
  | panic => rfl

theorem byCmp_revop : byCmp ncmp (cmpFn ncmp "revop") = fun a b => pc b a := by
  funext a b
  rw [pc_swap a b]
  simp only [byCmp, cmpFn, pc]
  cases ncmp a b with
  | ok o => simp only [Out.map, ncmp_ordVal, optOfOut, Option.map]
  | throw => rfl
  | panic => rfl

theorem flip_swap {α : Type} {c : α → α → Option Ordering} (h : SwapLaw c) : SwapLaw (fun a b => c b a) :=
  fun a b => h b a

theorem flip_trans {α : Type} {c : α → α → Option Ordering} (h : TransLaw c) : TransLaw (fun a b => c b a) := by
  intro a b z o1 o2 h1 h2 hc
  have := h z b a o2 o1 h2 h1 (by rcases hc with h | h | h <;> simp [h])
  show c z a = some (o1.then o2)
  rw [this]
  congr 1
  have : ∀ p q : Ordering, (p = .eq ∨ q = .eq ∨ p = q) → q.then p = p.then q := by
    intro p q hh; cases p <;> cases q <;> simp_all [Ordering.then]
  exact this o1 o2 hc

/-- `sort(xs, <=>)` is `sort` by the ordinary comparison; with the reversed comparator
(`\\a, b -> b <=> a` or `>=<`) the result is the stable DEscending order -/
theorem sort_by_spaceship (xs : List Val) :
    sortedBy ncmp (cmpFn ncmp "cmp") xs = sorted pc xs ∧
    sortedBy ncmp (cmpFn ncmp "rcmp") xs = sorted (fun a b => pc b a) xs ∧
    sortedBy ncmp (cmpFn ncmp "revop") xs = sorted (fun a b => pc b a) xs := by
  unfold sortedBy
  rw [byCmp_spaceship, byCmp_rev, byCmp_revop]
  exact ⟨rfl, rfl, rfl⟩

theorem sort_by_desc (xs r : List Val) (h : sortedBy ncmp (cmpFn ncmp "rcmp") xs = .ok r) :
    r.Perm xs ∧ (1 < xs.length → r.Pairwise (fun a b => LE pc b a)) := by
  rw [(sort_by_spaceship xs).2.1] at h
  obtain ⟨h1, _, _⟩ := sort_spec_strong (flip_swap pc_swap) (flip_trans pc_trans) xs
  obtain ⟨p1, p2, _⟩ := h1 r h
  exact ⟨p1, p2⟩

/-! non-vacuity -/
example : (sortedOn ncmp (keyFn "abs") [.num (.int (.small 3)), .num (.int (.small (-5))), .num (.rat (1/2))]).map
    (List.map numOf) = .ok [some (.rat (1/2)), some (.int (.small 3)), some (.int (.small (-5)))] := by decide +kernel
example : (sortedBy ncmp (cmpFn ncmp "rcmp") [.num (.int (.small 1)), .num (.float (.fin 5 (-1))), .num (.int (.small 2))]).map
    (List.map numOf) = .ok [some (.float (.fin 5 (-1))), some (.int (.small 2)), some (.int (.small 1))] := by decide +kernel
example : (sortedOn ncmp (keyFn "first") [.list [.num (.int (.small 1))], .list []]).map (List.map numOf) = .throw := by
  decide +kernel
example : (sortedBy ncmp (cmpFn ncmp "str") [.null, .null]).map (List.map numOf) = .throw := by decide +kernel

end Noulith.C08
