/-
C05 — Control flow, scoping and closures follow the documented semantics.

The reference interpreter of the documented rules is `Noulith.Core.eval` (Impl/CoreEval.lean); the
correspondence check runs it against the real interpreter on generated programs.  This file proves
the laws the documentation promises, for EVERY program, state and fuel (no size bound):
scoping (declaration / assignment / lookup, fresh scopes, closures capture variables), non-local
exits (loops absorb level 0 and decrement the rest, calls absorb `return`, `try` catches only
`throw`), short-circuit evaluation.
-/
import NoulithModel.Impl.CoreEval

namespace Noulith.C05
open Noulith Noulith.Core

/-! ## 1. environments: `:=` declares in the current scope and refuses redeclaration, `=` assigns to
the nearest enclosing declaration and refuses undeclared names -/

theorem lookupIn_setIn_same (vars : List (String × Val)) (x : String) (v : Val)
    (h : (lookupIn vars x).isSome) : lookupIn (setIn vars x v) x = some v := by
  induction vars with
  | nil => simp [lookupIn] at h
  | cons kv rest ih =>
    obtain ⟨k, w⟩ := kv
    by_cases hk : k = x
    · simp [setIn, lookupIn, hk]
    · simp [setIn, lookupIn, hk] at *; exact ih h

theorem lookupIn_setIn_other (vars : List (String × Val)) (x y : String) (v : Val) (hxy : y ≠ x) :
    lookupIn (setIn vars x v) y = lookupIn vars y := by
  induction vars with
  | nil => rfl
  | cons kv rest ih =>
    obtain ⟨k, w⟩ := kv
    by_cases hk : k = x
    · subst hk
      have : ¬ k = y := fun h => hxy h.symm
      simp [setIn, lookupIn, this]
    · by_cases hy : k = y
      · subst hy; simp [setIn, lookupIn, hk]
      · simp [setIn, lookupIn, hk, hy, ih]

theorem lookupIn_append_new (vars : List (String × Val)) (x : String) (v : Val)
    (h : lookupIn vars x = none) : lookupIn (vars ++ [(x, v)]) x = some v := by
  induction vars with
  | nil => simp [lookupIn]
  | cons kv rest ih =>
    obtain ⟨k, w⟩ := kv
    by_cases hk : k = x
    · simp [lookupIn, hk] at h
    · simp [lookupIn, hk] at *; exact ih h

theorem lookupIn_append_other (vars : List (String × Val)) (x y : String) (v : Val) (hxy : y ≠ x) :
    lookupIn (vars ++ [(x, v)]) y = lookupIn vars y := by
  induction vars with
  | nil => simp [lookupIn, Ne.symm hxy]
  | cons kv rest ih =>
    obtain ⟨k, w⟩ := kv
    by_cases hy : k = y <;> simp [lookupIn, hy, ih]

/-- `x := v` is refused exactly when `x` is already declared in the CURRENT frame -/
theorem declare_refuses_redeclaration (frames : Array Frame) (env : Nat) (x : String) (v : Val)
    (fr : Frame) (hfr : frames[env]? = some fr) :
    declareVar frames env x v = none ↔ (lookupIn fr.vars x).isSome := by
  unfold declareVar
  rw [hfr]
  cases h : lookupIn fr.vars x <;> simp [h]

/-- a successful declaration binds the name in the current frame and changes nothing else there -/
theorem declare_binds (frames : Array Frame) (env : Nat) (x : String) (v : Val) (fs : Array Frame)
    (h : declareVar frames env x v = some fs) :
    ∃ fr fr', frames[env]? = some fr ∧ fs[env]? = some fr' ∧ lookupIn fr'.vars x = some v ∧
      fr'.parent = fr.parent ∧ (∀ y, y ≠ x → lookupIn fr'.vars y = lookupIn fr.vars y) ∧
      fs.size = frames.size := by
  unfold declareVar at h
  cases hfr : frames[env]? with
  | none => simp [hfr] at h
  | some fr =>
    simp only [hfr] at h
    cases hl : lookupIn fr.vars x with
    | some _ => simp [hl] at h
    | none =>
      simp only [hl, Option.some.injEq] at h
      subst h
      have hlt : env < frames.size := by
        rcases Nat.lt_or_ge env frames.size with h | h
        · exact h
        · simp [Array.getElem?_eq_none h] at hfr
      refine ⟨fr, { fr with vars := fr.vars ++ [(x, v)] }, rfl, ?_, ?_, rfl, ?_, ?_⟩
      · simp [Array.setIfInBounds, hlt]
      · exact lookupIn_append_new _ _ _ hl
      · intro y hy; exact lookupIn_append_other _ _ _ _ hy
      · simp

/-- a declaration does not touch any other frame -/
theorem declare_other_frames (frames : Array Frame) (env : Nat) (x : String) (v : Val)
    (fs : Array Frame) (h : declareVar frames env x v = some fs) (i : Nat) (hi : i ≠ env) :
    fs[i]? = frames[i]? := by
  unfold declareVar at h
  cases hfr : frames[env]? with
  | none => simp [hfr] at h
  | some fr =>
    simp only [hfr] at h
    cases hl : lookupIn fr.vars x with
    | some _ => simp [hl] at h
    | none =>
      simp only [hl, Option.some.injEq] at h
      subst h
      simp [Array.getElem?_setIfInBounds, Ne.symm hi]

/-- `x = v` on an undeclared name is refused (and, returning `none`, leaves the store unchanged) -/
theorem assign_refuses_undeclared (frames : Array Frame) (fuel env : Nat) (x : String) (v : Val)
    (h : lookupVar frames fuel env x = none) : assignVar frames fuel env x v = none := by
  induction fuel generalizing env with
  | zero => rfl
  | succ n ih =>
    unfold lookupVar at h
    unfold assignVar
    cases hfr : frames[env]? with
    | none => rfl
    | some fr =>
      simp only [hfr] at h ⊢
      cases hl : lookupIn fr.vars x with
      | some w => simp [hl] at h
      | none =>
        simp only [hl] at h ⊢
        cases hp : fr.parent with
        | none => rfl
        | some p => simp only [hp] at h ⊢; exact ih p h

/-- does the type declared for the nearest enclosing declaration of `x` admit `v`?  (Only annotated
lambda parameters carry a declared type; every other variable admits everything.) -/
def declaredTypeAdmits (frames : Array Frame) : Nat → Nat → String → Val → Bool
  | 0, _, _, _ => true
  | fuel + 1, env, x, v =>
    match frames[env]? with
    | none => true
    | some fr =>
      match lookupIn fr.vars x with
      | some _ => typeOk fr.tys x v
      | none =>
        match fr.parent with
        | some p => declaredTypeAdmits frames fuel p x v
        | none => true

/-- `x = v` on a declared name succeeds exactly when the declared type of that variable admits `v` -/
theorem assign_succeeds_iff (frames : Array Frame) (fuel env : Nat) (x : String) (v w : Val)
    (h : lookupVar frames fuel env x = some w) :
    (assignVar frames fuel env x v).isSome ↔ declaredTypeAdmits frames fuel env x v = true := by
  induction fuel generalizing env with
  | zero => simp [lookupVar] at h
  | succ n ih =>
    unfold lookupVar at h
    unfold assignVar declaredTypeAdmits
    cases hfr : frames[env]? with
    | none => simp [hfr] at h
    | some fr =>
      simp only [hfr] at h ⊢
      cases hl : lookupIn fr.vars x with
      | some w' => cases ht : typeOk fr.tys x v <;> simp
      | none =>
        simp only [hl] at h ⊢
        cases hp : fr.parent with
        | none => simp [hp] at h
        | some p => simp only [hp] at h ⊢; exact ih p h

/-- `x = v` on a declared name whose declared type admits `v` succeeds -/
theorem assign_succeeds_if_declared (frames : Array Frame) (fuel env : Nat) (x : String) (v w : Val)
    (h : lookupVar frames fuel env x = some w) (ht : declaredTypeAdmits frames fuel env x v = true) :
    (assignVar frames fuel env x v).isSome :=
  (assign_succeeds_iff frames fuel env x v w h).mpr ht

/-- the declared type persists: `x = v` with a `v` that the declared type of `x` does not admit is
refused (and, returning `none`, leaves the store unchanged) -/
theorem assign_refuses_type_mismatch (frames : Array Frame) (fuel env : Nat) (x : String) (v w : Val)
    (h : lookupVar frames fuel env x = some w) (ht : declaredTypeAdmits frames fuel env x v = false) :
    assignVar frames fuel env x v = none := by
  have h1 := assign_succeeds_iff frames fuel env x v w h
  cases ha : assignVar frames fuel env x v with
  | none => rfl
  | some fs => rw [ha] at h1; simp [ht] at h1

/-- a variable without a declared type (anything declared by `:=`, a loop, a `catch`, an unannotated
parameter) admits every value -/
theorem typeOk_undeclared (tys : List (String × Val)) (x : String) (v : Val) (h : lookupIn tys x = none) :
    typeOk tys x v = true := by
  simp [typeOk, h]

/-- `drop_lhs` (the first half of `x op= e`) is NOT type-checked: it succeeds on every declared name -/
theorem drop_succeeds_if_declared (frames : Array Frame) (fuel env : Nat) (x : String) (w : Val)
    (h : lookupVar frames fuel env x = some w) : (dropVar frames fuel env x).isSome := by
  induction fuel generalizing env with
  | zero => simp [lookupVar] at h
  | succ n ih =>
    unfold lookupVar at h
    unfold dropVar
    cases hfr : frames[env]? with
    | none => simp [hfr] at h
    | some fr =>
      simp only [hfr] at h ⊢
      cases hl : lookupIn fr.vars x with
      | some w' => simp
      | none =>
        simp only [hl] at h ⊢
        cases hp : fr.parent with
        | none => simp [hp] at h
        | some p => simp only [hp] at h ⊢; exact ih p h

/-! ## 2. fresh scopes: per call, per loop iteration, per catch clause -/

/-- `Env::with_parent` allocates a frame id that did not exist before… -/
theorem newFrame_fresh (st : State) (p : Nat) :
    (newFrame st p).2 = st.frames.size ∧ (newFrame st p).1.frames.size = st.frames.size + 1 := by
  simp [newFrame]

/-- …starts empty with the given parent… -/
theorem newFrame_empty (st : State) (p : Nat) :
    (newFrame st p).1.frames[(newFrame st p).2]? = some { vars := [], parent := some p } := by
  simp [newFrame]

/-- …and leaves every existing frame (hence every variable any closure can see) untouched -/
theorem newFrame_preserves (st : State) (p i : Nat) (hi : i < st.frames.size) :
    (newFrame st p).1.frames[i]? = st.frames[i]? := by
  simp [newFrame, Array.getElem?_push, Nat.ne_of_lt hi]

theorem newFrame_out (st : State) (p : Nat) : (newFrame st p).1.out = st.out := rfl

/-! ## 3. static scoping: a closure runs in (a child of) its DEFINING frame; the caller's frame plays
no role -/

theorem static_scoping (fuel : Nat) (st : State) (env₁ env₂ : Nat) (ps : List Param) (body : Expr)
    (cenv : Nat) (args : List Val) :
    callVal fuel st env₁ (.closure ps body cenv) args = callVal fuel st env₂ (.closure ps body cenv) args := by
  cases fuel with
  | zero => simp [callVal]
  | succ n => simp [callVal]

/-- a lambda expression evaluates to a closure over the CURRENT frame, without touching the state -/
theorem lambda_captures_current_frame (fuel : Nat) (st : State) (env : Nat) (ps : List Param) (body : Expr) :
    eval (fuel + 1) st env (.lambda ps body) = (.val (.closure ps body env), st) := by
  simp [eval]

/-! ## 4. short-circuit operators return the deciding operand and skip the other one -/

theorem and_short_circuit (fuel : Nat) (st st' : State) (env : Nat) (a b : Expr) (va : Val)
    (ha : eval fuel st env a = (.val va, st')) (hf : va.truthy = false) :
    eval (fuel + 1) st env (.and_ a b) = (.val va, st') := by
  simp [eval, ha, hf]

theorem and_evaluates_rhs (fuel : Nat) (st st' : State) (env : Nat) (a b : Expr) (va : Val)
    (ha : eval fuel st env a = (.val va, st')) (hf : va.truthy = true) :
    eval (fuel + 1) st env (.and_ a b) = eval fuel st' env b := by
  simp [eval, ha, hf]

theorem or_short_circuit (fuel : Nat) (st st' : State) (env : Nat) (a b : Expr) (va : Val)
    (ha : eval fuel st env a = (.val va, st')) (hf : va.truthy = true) :
    eval (fuel + 1) st env (.or_ a b) = (.val va, st') := by
  simp [eval, ha, hf]

theorem or_evaluates_rhs (fuel : Nat) (st st' : State) (env : Nat) (a b : Expr) (va : Val)
    (ha : eval fuel st env a = (.val va, st')) (hf : va.truthy = false) :
    eval (fuel + 1) st env (.or_ a b) = eval fuel st' env b := by
  simp [eval, ha, hf]

theorem coalesce_null (fuel : Nat) (st st' : State) (env : Nat) (a b : Expr)
    (ha : eval fuel st env a = (.val .null, st')) :
    eval (fuel + 1) st env (.coalesce a b) = eval fuel st' env b := by
  simp [eval, ha]

theorem coalesce_nonnull (fuel : Nat) (st st' : State) (env : Nat) (a b : Expr) (va : Val)
    (ha : eval fuel st env a = (.val va, st')) (hn : va ≠ .null) :
    eval (fuel + 1) st env (.coalesce a b) = (.val va, st') := by
  simp only [eval, ha]
  cases va <;> simp_all

/-- any non-local exit of the left operand passes through the three operators unchanged -/
theorem and_propagates (fuel : Nat) (st st' : State) (env : Nat) (a b : Expr) (r : Res)
    (ha : eval fuel st env a = (r, st')) (hr : ∀ v, r ≠ .val v) :
    eval (fuel + 1) st env (.and_ a b) = (r, st') := by
  simp only [eval, ha]
  cases r <;> simp_all

/-! ## 5. try / catch intercepts only `throw` -/

theorem try_passes_value (fuel : Nat) (st st' : State) (env : Nat) (b c : Expr) (p : Pat) (v : Val)
    (hb : eval fuel st env b = (.val v, st')) :
    eval (fuel + 1) st env (.try_ b p c) = (.val v, st') := by
  simp [eval, hb]

theorem try_passes_break (fuel : Nat) (st st' : State) (env : Nat) (b c : Expr) (p : Pat) (n : Nat)
    (v : Option Val) (hb : eval fuel st env b = (.brk n v, st')) :
    eval (fuel + 1) st env (.try_ b p c) = (.brk n v, st') := by
  simp [eval, hb]

theorem try_passes_continue (fuel : Nat) (st st' : State) (env : Nat) (b c : Expr) (p : Pat) (n : Nat)
    (hb : eval fuel st env b = (.cont n, st')) :
    eval (fuel + 1) st env (.try_ b p c) = (.cont n, st') := by
  simp [eval, hb]

theorem try_passes_return (fuel : Nat) (st st' : State) (env : Nat) (b c : Expr) (p : Pat) (v : Val)
    (hb : eval fuel st env b = (.ret v, st')) :
    eval (fuel + 1) st env (.try_ b p c) = (.ret v, st') := by
  simp [eval, hb]

/-- a thrown value whose pattern matches is received by the catch clause, in a FRESH scope that
binds the pattern -/
theorem try_catches_throw (fuel : Nat) (st st' st2 : State) (env : Nat) (b c : Expr) (p : Pat) (v : Val)
    (hb : eval fuel st env b = (.thrown v, st'))
    (hm : declarePat (patDepth p + 1) (newFrame st' env).1 (newFrame st' env).2 p v = (true, st2)) :
    eval (fuel + 1) st env (.try_ b p c) = eval fuel st2 (newFrame st' env).2 c := by
  simp [eval, hb, hm]

/-- …and is re-thrown unchanged when the pattern does not match -/
theorem try_rethrows_unmatched (fuel : Nat) (st st' st2 : State) (env : Nat) (b c : Expr) (p : Pat) (v : Val)
    (hb : eval fuel st env b = (.thrown v, st'))
    (hm : declarePat (patDepth p + 1) (newFrame st' env).1 (newFrame st' env).2 p v = (false, st2)) :
    eval (fuel + 1) st env (.try_ b p c) = (.thrown v, st2) := by
  simp [eval, hb, hm]

/-! ## 6. loops: `break` / `continue` with repeat counts -/

/-- `while`: the condition and the body of one iteration run in one fresh scope -/
theorem while_false_exits (fuel : Nat) (st st' : State) (env : Nat) (c b : Expr) (vc : Val)
    (hc : eval fuel (newFrame st env).1 (newFrame st env).2 c = (.val vc, st')) (hf : vc.truthy = false) :
    evalWhile (fuel + 1) st env c b = (.val .null, st') := by
  simp [evalWhile, hc, hf]

/-- `break` (level 0) ends the loop, whose value is the break value (or null) -/
theorem while_break0 (fuel : Nat) (st st' st'' : State) (env : Nat) (c b : Expr) (vc : Val) (v : Option Val)
    (hc : eval fuel (newFrame st env).1 (newFrame st env).2 c = (.val vc, st')) (ht : vc.truthy = true)
    (hb : eval fuel st' (newFrame st env).2 b = (.brk 0 v, st'')) :
    evalWhile (fuel + 1) st env c b = (.val (v.getD .null), st'') := by
  simp [evalWhile, hc, ht, hb]

/-- `break` with repeat count n+1 exits this loop and leaves count n for the enclosing ones -/
theorem while_break_succ (fuel : Nat) (st st' st'' : State) (env : Nat) (c b : Expr) (vc : Val) (n : Nat)
    (v : Option Val)
    (hc : eval fuel (newFrame st env).1 (newFrame st env).2 c = (.val vc, st')) (ht : vc.truthy = true)
    (hb : eval fuel st' (newFrame st env).2 b = (.brk (n + 1) v, st'')) :
    evalWhile (fuel + 1) st env c b = (.brk n v, st'') := by
  simp [evalWhile, hc, ht, hb]

theorem while_continue0 (fuel : Nat) (st st' st'' : State) (env : Nat) (c b : Expr) (vc : Val)
    (hc : eval fuel (newFrame st env).1 (newFrame st env).2 c = (.val vc, st')) (ht : vc.truthy = true)
    (hb : eval fuel st' (newFrame st env).2 b = (.cont 0, st'')) :
    evalWhile (fuel + 1) st env c b = evalWhile fuel st'' env c b := by
  simp [evalWhile, hc, ht, hb]

theorem while_continue_succ (fuel : Nat) (st st' st'' : State) (env : Nat) (c b : Expr) (vc : Val) (n : Nat)
    (hc : eval fuel (newFrame st env).1 (newFrame st env).2 c = (.val vc, st')) (ht : vc.truthy = true)
    (hb : eval fuel st' (newFrame st env).2 b = (.cont (n + 1), st'')) :
    evalWhile (fuel + 1) st env c b = (.cont n, st'') := by
  simp [evalWhile, hc, ht, hb]

/-- `return` and `throw` pass through a loop untouched -/
theorem while_passes_return (fuel : Nat) (st st' st'' : State) (env : Nat) (c b : Expr) (vc v : Val)
    (hc : eval fuel (newFrame st env).1 (newFrame st env).2 c = (.val vc, st')) (ht : vc.truthy = true)
    (hb : eval fuel st' (newFrame st env).2 b = (.ret v, st'')) :
    evalWhile (fuel + 1) st env c b = (.ret v, st'') := by
  simp [evalWhile, hc, ht, hb]

theorem while_passes_throw (fuel : Nat) (st st' st'' : State) (env : Nat) (c b : Expr) (vc v : Val)
    (hc : eval fuel (newFrame st env).1 (newFrame st env).2 c = (.val vc, st')) (ht : vc.truthy = true)
    (hb : eval fuel st' (newFrame st env).2 b = (.thrown v, st'')) :
    evalWhile (fuel + 1) st env c b = (.thrown v, st'') := by
  simp [evalWhile, hc, ht, hb]

/-- `for` (statement form): level-0 break gives the loop's value, higher levels are decremented,
`continue` levels ≥ 1 are decremented -/
theorem for_exec_break0 (fuel : Nat) (st st' : State) (env : Nat) (its : List ForIt) (e : Expr)
    (v : Option Val) (acc : ForAcc)
    (h : evalFor fuel st env its (.exec e) default = (.brk 0 v, st', acc)) :
    eval (fuel + 1) st env (.for_ its (.exec e)) = (.val (v.getD .null), st') := by
  simp [eval, h]

theorem for_exec_break_succ (fuel : Nat) (st st' : State) (env : Nat) (its : List ForIt) (e : Expr)
    (n : Nat) (v : Option Val) (acc : ForAcc)
    (h : evalFor fuel st env its (.exec e) default = (.brk (n + 1) v, st', acc)) :
    eval (fuel + 1) st env (.for_ its (.exec e)) = (.brk n v, st') := by
  simp [eval, h]

theorem for_exec_continue_succ (fuel : Nat) (st st' : State) (env : Nat) (its : List ForIt) (e : Expr)
    (n : Nat) (acc : ForAcc)
    (h : evalFor fuel st env its (.exec e) default = (.cont (n + 1), st', acc)) :
    eval (fuel + 1) st env (.for_ its (.exec e)) = (.cont n, st') := by
  simp [eval, h]

theorem for_exec_normal (fuel : Nat) (st st' : State) (env : Nat) (its : List ForIt) (e : Expr)
    (v : Val) (acc : ForAcc)
    (h : evalFor fuel st env its (.exec e) default = (.val v, st', acc)) :
    eval (fuel + 1) st env (.for_ its (.exec e)) = (.val .null, st') := by
  simp [eval, h]

/-- the body of a `for` absorbs a level-0 `continue` of the innermost clause -/
theorem for_body_absorbs_continue0 (fuel : Nat) (st st' : State) (env : Nat) (body : ForBody)
    (acc acc' : ForAcc) (h : forBody fuel st env body acc = (.cont 0, st', acc')) :
    evalFor (fuel + 1) st env [] body acc = (.val .null, st', acc') := by
  simp [evalFor, h]

/-- a guard that fails skips the rest of the clauses and the body -/
theorem for_guard_false (fuel : Nat) (st st' : State) (env : Nat) (g : Expr) (rest : List ForIt)
    (body : ForBody) (acc : ForAcc) (v : Val)
    (hg : eval fuel st env g = (.val v, st')) (hf : v.truthy = false) :
    evalFor (fuel + 1) st env (.guard g :: rest) body acc = (.val .null, st', acc) := by
  simp [evalFor, hg, hf]

/-! ## 7. calls absorb `return` (and only `return`) -/

theorem push_setIfInBounds_last (a : Array Frame) (x : Frame) :
    (a.push x).setIfInBounds a.size x = a.push x := by
  apply Array.ext_getElem?
  intro i
  simp only [Array.getElem?_setIfInBounds, Array.getElem?_push]
  by_cases h : a.size = i <;> simp [h]

/-- the body's `return v` becomes the value of the call -/
theorem call_absorbs_return (fuel : Nat) (st : State) (env cenv : Nat) (body : Expr) (v : Val) (st' : State)
    (hb : eval fuel ((newFrame st cenv).1) (newFrame st cenv).2 body = (.ret v, st'))
    (hfr : (newFrame st cenv).1.frames[(newFrame st cenv).2]? = some { vars := [], parent := some cenv } := newFrame_empty st cenv) :
    callVal (fuel + 1) st env (.closure [] body cenv) [] =
      (match evalList fuel (newFrame st cenv).1 (newFrame st cenv).2 [] with
       | (.stop r, st1) => (r, st1)
       | (.ok _, _) => (.val v, st')) := by
  cases fuel with
  | zero => simp [eval] at hb
  | succ n =>
    simp only [callVal, evalList, bindArgs, defaultsInPlay, annSlots, List.filter_nil,
      List.length_nil, List.any_nil, List.filterMap_nil, List.append_nil]
    simp [hfr, checkBinds]
    have : (newFrame st cenv).1.frames.setIfInBounds (newFrame st cenv).2 { vars := [], parent := some cenv }
        = (newFrame st cenv).1.frames := by
      simp [newFrame, push_setIfInBounds_last]
    simp [this, hb]

/-- `break` / `continue` raised inside a function body are NOT absorbed by the call: they reach the
caller's loops (non-local exits through call levels, as the real interpreter does) -/
theorem call_passes_break (fuel : Nat) (st : State) (env cenv : Nat) (body : Expr) (n : Nat) (v : Option Val)
    (st' : State)
    (hb : eval (fuel + 1) ((newFrame st cenv).1) (newFrame st cenv).2 body = (.brk n v, st')) :
    callVal (fuel + 2) st env (.closure [] body cenv) [] = (.brk n v, st') := by
  simp only [callVal, evalList, bindArgs, defaultsInPlay, annSlots, List.filter_nil,
    List.length_nil, List.any_nil, List.filterMap_nil, List.append_nil]
  have hfr := newFrame_empty st cenv
  simp [hfr, checkBinds]
  have : (newFrame st cenv).1.frames.setIfInBounds (newFrame st cenv).2 { vars := [], parent := some cenv }
      = (newFrame st cenv).1.frames := by
    simp [newFrame, push_setIfInBounds_last]
  simp [this, hb]

/-! ## 7b. type-annotated parameters (`\x: T -> …`): the annotation expressions are evaluated at call
time, first of all and left to right, in the new scope; then the defaults in play; then the parameters
are bound one by one, an annotated one only if its annotation is a type and its argument has that type;
the declared type stays attached to the variable -/

/-- the first annotated parameter whose annotation is not a type, or whose argument is not of that type,
stops the binding: nothing further is bound -/
theorem checkBinds_head_fails (t : Val) (slots : List (Option Val)) (x : String) (v : Val)
    (rest vars tys : List (String × Val)) (h : isTypeVal t = false ∨ hasType t v = false) :
    checkBinds (some t :: slots) ((x, v) :: rest) vars tys = (false, vars, tys) := by
  rcases h with h | h <;> simp [checkBinds, h]

theorem checkBinds_head_ok (t : Val) (slots : List (Option Val)) (x : String) (v : Val)
    (rest vars tys : List (String × Val)) (h1 : isTypeVal t = true) (h2 : hasType t v = true) :
    checkBinds (some t :: slots) ((x, v) :: rest) vars tys =
      checkBinds slots rest (vars ++ [(x, v)]) (tys ++ [(x, t)]) := by
  simp [checkBinds, h1, h2]

/-- exactly when does the binding of a parameter list go through?  When every annotated position holds a
type that its argument has. -/
theorem checkBinds_ok_iff (binds : List (String × Val)) :
    ∀ (slots : List (Option Val)) (vars tys : List (String × Val)),
      (checkBinds slots binds vars tys).1 = true ↔
        ∀ (i : Nat) (t : Val) (x : String) (v : Val), slots[i]? = some (some t) → binds[i]? = some (x, v) → isTypeVal t = true ∧ hasType t v = true := by
  induction binds with
  | nil => intro slots vars tys; simp [checkBinds]
  | cons b rest ih =>
    intro slots vars tys
    obtain ⟨x, v⟩ := b
    cases slots with
    | nil =>
      simp only [checkBinds]
      rw [ih]
      simp
    | cons s slots =>
      cases s with
      | none =>
        simp only [checkBinds]
        rw [ih]
        constructor
        · intro h i t x' v' hs hb
          cases i with
          | zero => simp at hs
          | succ j => exact h j t x' v' (by simpa using hs) (by simpa using hb)
        · intro h i t x' v' hs hb
          exact h (i + 1) t x' v' (by simpa using hs) (by simpa using hb)
      | some t =>
        by_cases hok : isTypeVal t = true ∧ hasType t v = true
        · rw [checkBinds_head_ok _ _ _ _ _ _ _ hok.1 hok.2, ih]
          constructor
          · intro h i t' x' v' hs hb
            cases i with
            | zero =>
              simp only [List.getElem?_cons_zero, Option.some.injEq, Prod.mk.injEq] at hs hb
              obtain ⟨rfl, rfl⟩ := hb
              subst hs
              exact hok
            | succ j => exact h j t' x' v' (by simpa using hs) (by simpa using hb)
          · intro h i t' x' v' hs hb
            exact h (i + 1) t' x' v' (by simpa using hs) (by simpa using hb)
        · have hf : isTypeVal t = false ∨ hasType t v = false := by
            by_cases h1 : isTypeVal t = true
            · right; simpa [h1] using hok
            · left; simpa using h1
          rw [checkBinds_head_fails _ _ _ _ _ _ _ hf]
          simp only [Bool.false_eq_true, false_iff]
          intro h
          exact hok (h 0 t x v (by simp) (by simp))

/-- the state in which a function body starts (or in which a failed binding leaves the call): the new
scope `ee` holds exactly `vars`, with declared types `tys` -/
def withParams (st : State) (ee : Nat) (fr : Frame) (vars tys : List (String × Val)) : State :=
  { st with frames := st.frames.setIfInBounds ee { fr with vars := vars, tys := tys } }

/-- **an annotated parameter that does not accept its argument makes the call raise, and the body does
not run.**  General form: the annotations evaluate (first), the defaults in play evaluate, the arguments
are distributed; if then some annotated position fails its check, the call raises, and the resulting
state — the new scope holding the parameters bound before the failing one — does not mention the body. -/
theorem call_annotation_failure (fuel : Nat) (st st1 st2 : State) (env cenv : Nat) (ps : List Param)
    (body : Expr) (args tvs dvs : List Val) (inPlay : List Expr) (binds : List (String × Val)) (fr : Frame)
    (hA : evalList fuel (newFrame st cenv).1 (newFrame st cenv).2 (ps.filterMap Param.ann) = (.ok tvs, st1))
    (hD : defaultsInPlay args.length ps 0 false [] = some inPlay)
    (hN : (!ps.any Param.isSplat && ps.length != args.length + inPlay.length) = false)
    (hE : evalList fuel st1 (newFrame st cenv).2 inPlay = (.ok dvs, st2))
    (hB : bindArgs ps args dvs = some binds)
    (hF : st2.frames[(newFrame st cenv).2]? = some fr)
    (hC : (checkBinds (annSlots ps tvs) binds [] []).1 = false) :
    callVal (fuel + 1) st env (.closure ps body cenv) args =
      (.thrown .err, withParams st2 (newFrame st cenv).2 fr
        (checkBinds (annSlots ps tvs) binds [] []).2.1 (checkBinds (annSlots ps tvs) binds [] []).2.2) := by
  rcases hcb : checkBinds (annSlots ps tvs) binds [] [] with ⟨okb, vars, tys⟩
  rw [hcb] at hC
  simp only at hC
  subst hC
  simp only [callVal, hA, hD, hN, hE, hB, hF, hcb, withParams]
  simp

/-- in particular the outcome is the same for every body -/
theorem call_annotation_failure_ignores_body (fuel : Nat) (st st1 st2 : State) (env cenv : Nat) (ps : List Param)
    (body body' : Expr) (args tvs dvs : List Val) (inPlay : List Expr) (binds : List (String × Val)) (fr : Frame)
    (hA : evalList fuel (newFrame st cenv).1 (newFrame st cenv).2 (ps.filterMap Param.ann) = (.ok tvs, st1))
    (hD : defaultsInPlay args.length ps 0 false [] = some inPlay)
    (hN : (!ps.any Param.isSplat && ps.length != args.length + inPlay.length) = false)
    (hE : evalList fuel st1 (newFrame st cenv).2 inPlay = (.ok dvs, st2))
    (hB : bindArgs ps args dvs = some binds)
    (hF : st2.frames[(newFrame st cenv).2]? = some fr)
    (hC : (checkBinds (annSlots ps tvs) binds [] []).1 = false) :
    callVal (fuel + 1) st env (.closure ps body cenv) args = callVal (fuel + 1) st env (.closure ps body' cenv) args := by
  rw [call_annotation_failure fuel st st1 st2 env cenv ps body args tvs dvs inPlay binds fr hA hD hN hE hB hF hC,
    call_annotation_failure fuel st st1 st2 env cenv ps body' args tvs dvs inPlay binds fr hA hD hN hE hB hF hC]

/-- an exit of an annotation expression (a raised error — e.g. an unknown name —, also `return`) leaves the
call at once: no default is evaluated, nothing is bound, the body does not run -/
theorem call_annotation_exit (fuel : Nat) (st st1 : State) (env cenv : Nat) (ps : List Param) (body : Expr)
    (args : List Val) (r : Res)
    (hA : evalList fuel (newFrame st cenv).1 (newFrame st cenv).2 (ps.filterMap Param.ann) = (.stop r, st1)) :
    callVal (fuel + 1) st env (.closure ps body cenv) args = (r, st1) := by
  simp only [callVal, hA]

/-- the one-parameter case `(\x: a -> body)(v)`: the annotation `a` evaluates to `t` in the new scope … -/
theorem single_param_unfold (fuel : Nat) (st st1 : State) (env cenv : Nat) (x : String) (a body : Expr)
    (t v : Val) (fr : Frame)
    (ha : eval (fuel + 1) (newFrame st cenv).1 (newFrame st cenv).2 a = (.val t, st1))
    (hfr : st1.frames[(newFrame st cenv).2]? = some fr) :
    callVal (fuel + 3) st env (.closure [.mk x none false (some a)] body cenv) [v] =
      (if (checkBinds [some t] [(x, v)] [] []).1 then
         match eval (fuel + 2) (withParams st1 (newFrame st cenv).2 fr
             (checkBinds [some t] [(x, v)] [] []).2.1 (checkBinds [some t] [(x, v)] [] []).2.2)
             (newFrame st cenv).2 body with
         | (.ret w, st') => (.val w, st')
         | r => r
       else
         (.thrown .err, withParams st1 (newFrame st cenv).2 fr
             (checkBinds [some t] [(x, v)] [] []).2.1 (checkBinds [some t] [(x, v)] [] []).2.2)) := by
  have hA : evalList (fuel + 2) (newFrame st cenv).1 (newFrame st cenv).2 [a] = (.ok [t], st1) := by
    simp [evalList, ha]
  simp only [callVal, List.filterMap_cons, Param.ann, List.filterMap_nil, hA]
  have hnil : evalList (fuel + 2) st1 (newFrame st cenv).2 [] = (.ok [], st1) := by
    rw [evalList.eq_def]
  simp only [defaultsInPlay, Param.isSplat, Param.dflt, bindArgs, Param.name, annSlots, Param.ann]
  rcases hcb : checkBinds [some t] [(x, v)] [] [] with ⟨okb, vars, tys⟩
  cases okb
  · simp [hcb, withParams, hnil, hfr, Param.isSplat, Param.name]
  · simp [hcb, withParams, hnil, hfr, Param.isSplat, Param.name]
    generalize eval (fuel + 2) _ (newFrame st cenv).2 body = r
    rcases r with ⟨r, s⟩
    cases r <;> rfl

/-- … if `t` is a type the argument does not have, the call raises and the body does not run -/
theorem call_annotation_mismatch_raises (fuel : Nat) (st st1 : State) (env cenv : Nat) (x : String)
    (a body : Expr) (t v : Val) (fr : Frame)
    (ha : eval (fuel + 1) (newFrame st cenv).1 (newFrame st cenv).2 a = (.val t, st1))
    (hfr : st1.frames[(newFrame st cenv).2]? = some fr)
    (hm : hasType t v = false) :
    callVal (fuel + 3) st env (.closure [.mk x none false (some a)] body cenv) [v] =
      (.thrown .err, withParams st1 (newFrame st cenv).2 fr [] []) := by
  rw [single_param_unfold fuel st st1 env cenv x a body t v fr ha hfr,
    checkBinds_head_fails t [] x v [] [] [] (Or.inr hm)]
  simp

/-- … if `t` is not a type at all (`to_type` fails), the call raises, whatever the argument is -/
theorem call_annotation_not_a_type_raises (fuel : Nat) (st st1 : State) (env cenv : Nat) (x : String)
    (a body : Expr) (t v : Val) (fr : Frame)
    (ha : eval (fuel + 1) (newFrame st cenv).1 (newFrame st cenv).2 a = (.val t, st1))
    (hfr : st1.frames[(newFrame st cenv).2]? = some fr)
    (hm : isTypeVal t = false) :
    callVal (fuel + 3) st env (.closure [.mk x none false (some a)] body cenv) [v] =
      (.thrown .err, withParams st1 (newFrame st cenv).2 fr [] []) := by
  rw [single_param_unfold fuel st st1 env cenv x a body t v fr ha hfr,
    checkBinds_head_fails t [] x v [] [] [] (Or.inl hm)]
  simp

/-- … and if `t` is a type the argument has, the body runs with `x` bound to the argument and `t`
recorded as the declared type of `x` -/
theorem call_annotation_ok_runs_body (fuel : Nat) (st st1 : State) (env cenv : Nat) (x : String)
    (a body : Expr) (t v : Val) (fr : Frame)
    (ha : eval (fuel + 1) (newFrame st cenv).1 (newFrame st cenv).2 a = (.val t, st1))
    (hfr : st1.frames[(newFrame st cenv).2]? = some fr)
    (h1 : isTypeVal t = true) (h2 : hasType t v = true) :
    callVal (fuel + 3) st env (.closure [.mk x none false (some a)] body cenv) [v] =
      (match eval (fuel + 2) (withParams st1 (newFrame st cenv).2 fr [(x, v)] [(x, t)]) (newFrame st cenv).2 body with
       | (.ret w, st') => (.val w, st')
       | r => r) := by
  rw [single_param_unfold fuel st st1 env cenv x a body t v fr ha hfr,
    checkBinds_head_ok t [] x v [] [] [] h1 h2]
  simp [checkBinds]

/-- the declared type stays with the variable: assigning a value of another kind to a typed parameter
raises and changes nothing -/
theorem typed_variable_assign_mismatch_raises (fuel : Nat) (st st' : State) (env : Nat) (x : String) (e : Expr)
    (v w t : Val) (fr : Frame)
    (he : eval fuel st env e = (.val v, st'))
    (hfr : st'.frames[env]? = some fr) (hx : lookupIn fr.vars x = some w) (ht : lookupIn fr.tys x = some t)
    (hm : hasType t v = false) :
    eval (fuel + 1) st env (.assign x e) = (.thrown .err, st') := by
  have : assignVar st'.frames (st'.frames.size + 1) env x v = none := by
    simp [assignVar, hfr, hx, typeOk, ht, hm]
  simp [eval, he, this]

/-- the builtin type names denote types; other values do not, except `null` (the null type) -/
theorem isTypeVal_cases : isTypeVal (.builtin "int") = true ∧ isTypeVal (.builtin "str") = true ∧
    isTypeVal (.builtin "list") = true ∧ isTypeVal (.builtin "anything") = true ∧ isTypeVal .null = true ∧
    isTypeVal (.int 5) = false ∧ isTypeVal (.str "int") = false ∧ isTypeVal (.builtin "len") = false := by
  decide

/-- `anything` accepts every value; `int` exactly the integers -/
theorem hasType_anything (v : Val) : hasType (.builtin "anything") v = true := by
  cases v <;> rfl
theorem hasType_int (v : Val) : hasType (.builtin "int") v = true ↔ ∃ n, v = .int n := by
  cases v <;> simp [hasType]


/-! ## 8. sequencing, conditionals and the four exits -/

theorem seq_stops_at_exit (fuel : Nat) (st st' : State) (env : Nat) (x y : Expr) (rest : List Expr) (r : Res)
    (hx : eval fuel st env x = (r, st')) (hr : ∀ v, r ≠ .val v) :
    evalSeq (fuel + 1) st env (x :: y :: rest) = (r, st') := by
  simp only [evalSeq, hx]
  cases r <;> simp_all

theorem seq_continues (fuel : Nat) (st st' : State) (env : Nat) (x y : Expr) (rest : List Expr) (v : Val)
    (hx : eval fuel st env x = (.val v, st')) :
    evalSeq (fuel + 1) st env (x :: y :: rest) = evalSeq fuel st' env (y :: rest) := by
  simp [evalSeq, hx]

/-- `if` does not open a scope: both branches run in the scope of the `if` itself -/
theorem if_true (fuel : Nat) (st st' : State) (env : Nat) (c t : Expr) (e : Option Expr) (vc : Val)
    (hc : eval fuel st env c = (.val vc, st')) (ht : vc.truthy = true) :
    eval (fuel + 1) st env (.ite c t e) = eval fuel st' env t := by
  simp [eval, hc, ht]

theorem if_false_no_else (fuel : Nat) (st st' : State) (env : Nat) (c t : Expr) (vc : Val)
    (hc : eval fuel st env c = (.val vc, st')) (ht : vc.truthy = false) :
    eval (fuel + 1) st env (.ite c t none) = (.val .null, st') := by
  simp [eval, hc, ht]

theorem break_evaluates_value (fuel : Nat) (st st' : State) (env : Nat) (n : Nat) (e : Expr) (v : Val)
    (he : eval fuel st env e = (.val v, st')) :
    eval (fuel + 1) st env (.brk n (some e)) = (.brk n (some v), st') := by
  simp [eval, he]

theorem throw_raises_value (fuel : Nat) (st st' : State) (env : Nat) (e : Expr) (v : Val)
    (he : eval fuel st env e = (.val v, st')) :
    eval (fuel + 1) st env (.throw_ e) = (.thrown v, st') := by
  simp [eval, he]

/-- `eval` of program text runs it in the CALLING scope -/
theorem eval_runs_in_calling_scope (fuel : Nat) (st : State) (env : Nat) (e : Expr) :
    eval (fuel + 1) st env (.evalSrc e) = eval fuel st env e := by
  simp [eval]

/-! ## 8b. switch: the first arm whose pattern binds the scrutinee runs, in a fresh scope per arm -/

theorem switch_evaluates_scrutinee_first (fuel : Nat) (st st' : State) (env : Nat) (sc : Expr)
    (arms : List SwitchArm) (v : Val) (hs : eval fuel st env sc = (.val v, st')) :
    eval (fuel + 1) st env (.switch_ sc arms) = evalSwitch fuel st' env v arms := by
  simp [eval, hs]

/-- no arm matches: a catchable error, state untouched by the (empty) arm list -/
theorem switch_no_arm_raises (fuel : Nat) (st : State) (env : Nat) (v : Val) :
    evalSwitch (fuel + 1) st env v [] = (.thrown .err, st) := by
  simp [evalSwitch]

/-- an arm whose pattern binds the scrutinee runs its body in a fresh scope holding the bindings -/
theorem switch_arm_matches (fuel : Nat) (st st2 : State) (env : Nat) (v : Val) (p : Pat) (body : Expr)
    (rest : List SwitchArm)
    (hm : declarePat (patDepth p + 1) (newFrame st env).1 (newFrame st env).2 p v = (true, st2)) :
    evalSwitch (fuel + 1) st env v (.mk p body :: rest) = eval fuel st2 (newFrame st env).2 body := by
  simp [evalSwitch, hm]

/-- an arm whose pattern does not bind is skipped; the next arm starts again from the enclosing scope
(whatever the failed arm bound lives in its own, now unreachable, frame) -/
theorem switch_arm_skipped (fuel : Nat) (st st2 : State) (env : Nat) (v : Val) (p : Pat) (body : Expr)
    (rest : List SwitchArm)
    (hm : declarePat (patDepth p + 1) (newFrame st env).1 (newFrame st env).2 p v = (false, st2)) :
    evalSwitch (fuel + 1) st env v (.mk p body :: rest) = evalSwitch fuel st2 env v rest := by
  simp [evalSwitch, hm]

/-- a literal arm is taken exactly for the equal integer -/
theorem switch_literal_arm (fuel : Nat) (st : State) (env : Nat) (n m : Int) (body : Expr) (rest : List SwitchArm) :
    evalSwitch (fuel + 1) st env (.int m) (.mk (.lit n) body :: rest) =
      if m = n then eval fuel (newFrame st env).1 (newFrame st env).2 body
      else evalSwitch fuel (newFrame st env).1 env (.int m) rest := by
  by_cases h : m = n <;> simp [evalSwitch, declarePat, patDepth, h]

/-! ## 9. non-vacuity: concrete programs exercising the laws (kernel-evaluated) -/

/-- closures capture variables, not values: the counter closure sees its own updates -/
example :
    (runProgram 50 (.seq [
        .declare (.ident "mk") (.lambda [] (.seq [.declare (.ident "c") (.int 0),
            .lambda [] (.seq [.assign "c" (.op "+" (.ident "c") (.int 1)), .ident "c"] false)] false)),
        .declare (.ident "g") (.call (.ident "mk") []),
        .list [.call (.ident "g") [], .call (.ident "g") []]] false)).1
      matches .val (.list [.int 1, .int 2]) := by decide +kernel

/-- type-annotated parameters: `f := \x: int -> x + 1; [f(3), try f("s") catch _ -> "E"]` -/
example :
    (runProgram 50 (.seq [
        .declare (.ident "f") (.lambda [.mk "x" none false (some (.ident "int"))] (.op "+" (.ident "x") (.int 1))),
        .list [.call (.ident "f") [.int 3], .try_ (.call (.ident "f") [.str "s"]) .underscore (.str "E")]] false)).1
      matches .val (.list [.int 4, .str "E"]) := by decide +kernel

/-- order at a call: all annotations (left to right), then the defaults in play, then the checks — here the
first parameter's check fails after everything was evaluated:
`f := \a: (print("A1"); str), b: (print("A2"); int) = (print("D"); 5) -> a; try f(1) catch _ -> "E"` prints A1 A2 D -/
example :
    (runProgram 50 (.seq [
        .declare (.ident "f") (.lambda [
            .mk "a" none false (some (.seq [.call (.ident "print") [.str "A1"], .ident "str"] false)),
            .mk "b" (some (.seq [.call (.ident "print") [.str "D"], .int 5] false)) false
              (some (.seq [.call (.ident "print") [.str "A2"], .ident "int"] false))] (.ident "a")),
        .try_ (.call (.ident "f") [.int 1]) .underscore (.str "E")] false)).2.out = ["D", "A2", "A1"] := by
  decide +kernel

/-- the declared type persists: `(\x: int -> ((try (x = "s") catch _ -> print("tc")); (try (x $= "s") catch _ ->
print("tc2")); x))(1)`: the plain assignment is refused (x stays 1), the op-assignment first drops x (no type
check: "overriding type") and then fails to store the string, leaving null -/
example :
    (runProgram 50 (.call (.lambda [.mk "x" none false (some (.ident "int"))] (.seq [
        .try_ (.assign "x" (.str "s")) .underscore (.call (.ident "print") [.str "tc"]),
        .declare (.ident "y") (.ident "x"),
        .try_ (.opassign "x" "$" (.str "s")) .underscore (.call (.ident "print") [.str "tc2"]),
        .list [.ident "y", .ident "x"]] false)) [.int 1])).1
      matches .val (.list [.int 1, .null]) := by decide +kernel

end Noulith.C05
